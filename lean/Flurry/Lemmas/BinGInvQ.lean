import Flurry.Lemmas.BinGLock
import Flurry.Lemmas.BinGGhostL
import Flurry.Lemmas.BinGFacts
/-! # Proto/BinG: the quiet path — transitions that touch lock words and program counters only

The BinG version of `Lemmas/BinKInvQ.lean`, first half: the generic part and the transitions that
leave every `TreeBin` alone (`Move`, `KMove`, `Fin`, idle / maint / invoke / resizeStart / xcommit).
Every such transition establishes `Eff s s'` and leaves every abstract state alone.

* generic: `Quiet.hinv'`, `Quiet.kstep`, `Quiet.used_of_nil`, `Quiet.privBin_of`, `XPc.quiet`,
  `xinv_q` (`XInv s'`), `dinv_q` (`DInv s'`), `eff_of_quiet` (assembles `Eff s s'`);
* facts about the program counters, per transition family: `XFacts` (resize / pending structures /
  table), `MFacts` (mutex, read lock, write lock), `LFacts` (validated pcs see their structure; referenced
  bins are published), `LockKind`;
* `eff_quiet_step`, and `eff_move`, `eff_kmove`, `eff_fin`, `eff_idle`, `eff_maint`, `eff_invoke`,
  `eff_resizeStart`, `eff_xcommit`. -/
namespace Flurry.Proto.BinG
open Flurry.Lin
open Flurry.Proto.BinK (nodeAt binAt lockSet isInsert NextOK IsChain IsSeg chainOf CInv absL HeapEqv get_set
  get_set_self get_set_ne nodeAt_of_some getElem?_nodeAt binAt_modify binAt_modify_self binAt_modify_ne
  heapEqv_lockSet chainOf_isChain)

/-! ## generic consequences of `Quiet` -/

/-- `Quiet.hinv` when the table pointer may be switched (`xCommit`) -/
theorem Quiet.hinv' {s s' : State} (q : Quiet s s') (H : HInv s) (hcur : s'.cur = .new → s.cell0 = .moved) :
    HInv s' := by
  have q2 : Quiet s { s' with cur := s.cur } := ⟨q.cell0, q.low, q.high, q.heap, q.tlen, q.first⟩
  have H2 := q2.hinv H rfl
  exact ⟨H2.cinv, H2.ownerOK, H2.firstOK, H2.cellOK, H2.chainOwner, H2.side,
    fun h => by rw [q.cell0]; exact hcur h, H2.newNotMoved, H2.binsDistinct⟩

theorem Quiet.liveId_eq {s s' : State} (q : Quiet s s') (k : Nat) : liveId s' k = liveId s k := by
  unfold liveId; rw [q.cell0]

theorem Quiet.inCell_iff {s s' : State} (q : Quiet s s') (b : Nat) : InCell s' b ↔ InCell s b := by
  unfold InCell
  constructor
  · rintro ⟨id, h⟩; exact ⟨id, by rw [q.cellAt_eq] at h; exact h⟩
  · rintro ⟨id, h⟩; exact ⟨id, by rw [q.cellAt_eq]; exact h⟩

theorem Quiet.absTree_eq {s s' : State} (q : Quiet s s') (b k : Nat) : absTree s' b k = absTree s b k := by
  unfold absTree
  rw [q.find_eq]
  cases treeFind s b k with
  | none => rfl
  | some i => simp only; rw [q.val_eq]

theorem Quiet.LC_eq' {s s' : State} (q : Quiet s s') (H : HInv s) {k : Nat} (hlc : liveCell s' k = liveCell s k) :
    LC s' k = LC s k := by
  unfold LC; rw [hlc, q.chainC_eq H]

theorem Quiet.abs_eq' {s s' : State} (q : Quiet s s') (H : HInv s) {k : Nat} (hlc : liveCell s' k = liveCell s k) :
    absOf s' k = absOf s k := by
  rw [BinG.absOf_eq, BinG.absOf_eq, q.LC_eq' H hlc]
  unfold absL
  have : (fun i => (nodeAt s'.heap i).key == k) = (fun i => (nodeAt s.heap i).key == k) := by
    funext i; rw [q.key_eq]
  rw [this]
  cases (LC s k).find? (fun i => (nodeAt s.heap i).key == k) with
  | none => rfl
  | some i => simp only [Option.map_some]; rw [q.val_eq]

theorem Quiet.kstep {s s' : State} (q : Quiet s s') (H : HInv s) (hlc : ∀ k, liveCell s' k = liveCell s k)
    (hused : ∀ j, Used s' j → Used s j) (k : Nat) : KStep s s' k :=
  KStep.of_same (by rw [q.hlen]; exact Nat.le_refl _) (fun j _ => ⟨q.key_eq j, q.val_eq j, q.next_eq j⟩)
    (q.LC_eq' H (hlc k)) (fun j _ => hused j)
    (fun c hc => ⟨by rw [q.cell0]; exact hc.1, by rw [q.chainC_cell H]; exact hc.2⟩)

/-- the thread that moves has no pending structure afterwards: no dead node comes to life -/
theorem Quiet.used_of_nil {s s' : State} {t : Nat} {l' : Local} (q : Quiet s s') (H : HInv s)
    (hthr : s'.threads = s.threads.set t l') (hp : pend s l'.pc = []) : ∀ j, Used s' j → Used s j := by
  rintro j (⟨id, hj⟩ | ⟨t1, l1, tab, k, h, b, h1, hpc, ho⟩ | ⟨t1, l1, C, h1, hx1, hC, hj, hn⟩)
  · exact Or.inl ⟨id, by rw [q.chainC_cell H] at hj; exact hj⟩
  · rw [hthr] at h1
    rcases get_set h1 with ⟨rfl, rfl⟩ | ⟨_, h1⟩
    · rw [hpc] at hp; cases hp
    · exact Or.inr (Or.inl ⟨t1, l1, tab, k, h, b, h1, hpc, by rw [← q.owner_eq]; exact ho⟩)
  · rw [hthr] at h1
    rw [q.pend_eq] at hC
    rcases get_set h1 with ⟨rfl, rfl⟩ | ⟨_, h1⟩
    · rw [hp] at hC; cases hC
    · refine Or.inr (Or.inr ⟨t1, l1, C, h1, hx1, hC, by rw [q.chainC_eq H] at hj; exact hj, ?_⟩)
      rw [q.cell0, q.chainC_eq H] at hn; exact hn

theorem Quiet.privBin_of {s s' : State} {t : Nat} {l' : Local} (q : Quiet s s')
    (hthr : s'.threads = s.threads.set t l') (hp : pend s l'.pc = []) {b : Nat} (h : PrivBin s' b) : PrivBin s b := by
  obtain ⟨⟨t1, l1, h1, hC⟩, h0⟩ := h
  rw [q.pend_eq] at hC
  rw [q.cell0] at h0
  rw [hthr] at h1
  rcases get_set h1 with ⟨rfl, rfl⟩ | ⟨_, h1⟩
  · rw [hp] at hC; cases hC
  · exact ⟨⟨t1, l1, h1, hC⟩, h0⟩

/-- a planned / pending structure that is a fresh `TreeBin` is an unpublished `TreeBin` -/
theorem privBin_of_pend {s : State} {t : Nat} {l : Local} {b : Nat} (hl : s.threads[t]? = some l)
    (hC : Cell.tree b ∈ pend s l.pc) (h0 : s.cell0 ≠ .tree b) : PrivBin s b := ⟨⟨t, l, hl, hC⟩, h0⟩

theorem XPc.quiet {s s' : State} (q : Quiet s s') (H : HInv s) {pc : Pc}
    (hb : ∀ b, Cell.tree b ∈ pend s pc → s.cell0 ≠ .tree b → binAt s'.tbins b = binAt s.tbins b)
    (h : XPc s pc) : XPc s' pc := by
  cases pc <;> try exact trivial
  case xStoreLow unl lo hi =>
    simp only [XPc] at h ⊢
    refine q.plan' H ?_ ?_ h
    · intro b hlo h0; exact hb b (by subst hlo; simp [pend]) h0
    · intro b hhi h0; exact hb b (by subst hhi; simp [pend]) h0
  case xStoreHigh unl hi =>
    simp only [XPc] at h ⊢
    rw [q.low]
    refine q.plan' H ?_ ?_ h
    · intro b hlo h0; exact hb b (by simp [pend, hlo]) h0
    · intro b hhi h0; exact hb b (by subst hhi; simp [pend]) h0
  case xStoreMoved unl =>
    simp only [XPc] at h ⊢
    rw [q.low, q.high]
    refine q.plan' H ?_ ?_ h
    · intro b hlo h0; exact hb b (by simp [pend, hlo]) h0
    · intro b hhi h0; exact hb b (by simp [pend, hhi]) h0

/-- a pc with a pending structure is a resize pc before the forwarding, or `kStore` -/
theorem lowStored_pend {s : State} {pc : Pc} (h : pend s pc = []) : lowStored pc = false ∧ highStored pc = false := by
  cases pc <;> simp [pend] at h <;> simp [lowStored, highStored]

theorem not_kStore_of_pend {s : State} {pc : Pc} (h : pend s pc = []) (tab : Tab) (k h0 b : Nat) :
    pc ≠ .kStore tab k h0 b := by
  intro e; rw [e] at h; cases h

/-! ## `XInv` after a quiet transition -/

theorem xinv_q {s s' : State} {t : Nat} {l l' : Local} (I : Inv s) (hl : s.threads[t]? = some l)
    (q : Quiet s s') (hthr : s'.threads = s.threads.set t l')
    (hres : s.resizing = true → s'.resizing = true)
    (hx1 : xPc l'.pc = true → xPc l.pc = true ∨ ∀ (t1 : Nat) (l1 : Local), s.threads[t1]? = some l1 → xPc l1.pc = false)
    (hx2 : xPc l'.pc = true → s'.resizing = true)
    (hpre : xPre l'.pc = true → s.cell0 ≠ .moved)
    (hpost : xPc l'.pc = true → xPre l'.pc = false → s.cell0 = .moved)
    (hlow : lowStored l.pc = false ∧ highStored l.pc = false)
    (htab : tabOf l'.pc = some .new → s.cell0 = .moved)
    (hplan : XPc s' l'.pc)
    (hbin : ∀ b, PrivBin s b → binAt s'.tbins b = binAt s.tbins b) : XInv s' := by
  have X := I.rsz
  have back : ∀ t1 l1, s'.threads[t1]? = some l1 → (t1 = t ∧ l1 = l') ∨ (t1 ≠ t ∧ s.threads[t1]? = some l1) := by
    intro t1 l1 h1
    rw [hthr] at h1
    exact get_set h1
  have fwd : ∀ t1 l1, s.threads[t1]? = some l1 → t1 ≠ t → s'.threads[t1]? = some l1 := by
    intro t1 l1 h1 hne
    rw [hthr, get_set_ne hne]; exact h1
  have hself : s'.threads[t]? = some l' := by rw [hthr]; exact get_set_self hl
  refine ⟨?_, ?_, ?_, ?_, ?_, ?_, ?_, ?_, ?_⟩
  · intro t1 t2 l1 l2 h1 h2 hx1' hx2'
    rcases back t1 l1 h1 with ⟨rfl, rfl⟩ | ⟨hne1, h1⟩ <;> rcases back t2 l2 h2 with ⟨rfl, rfl⟩ | ⟨hne2, h2⟩
    · rfl
    · rcases hx1 hx1' with hx | hx
      · exact X.uniqX _ _ _ _ hl h2 hx hx2'
      · rw [hx t2 l2 h2] at hx2'; cases hx2'
    · rcases hx1 hx2' with hx | hx
      · exact X.uniqX _ _ _ _ h1 hl hx1' hx
      · rw [hx t1 l1 h1] at hx1'; cases hx1'
    · exact X.uniqX _ _ _ _ h1 h2 hx1' hx2'
  · intro t1 l1 h1 hx
    rcases back t1 l1 h1 with ⟨rfl, rfl⟩ | ⟨_, h1⟩
    · exact hx2 hx
    · exact hres (X.resz t1 l1 h1 hx)
  · intro hr
    rw [q.cell0]
    apply X.noResz
    cases hs : s.resizing with
    | false => rfl
    | true => rw [hres hs] at hr; cases hr
  · intro t1 l1 h1 hx
    rw [q.cell0]
    rcases back t1 l1 h1 with ⟨rfl, rfl⟩ | ⟨_, h1⟩
    · exact hpre hx
    · exact X.pre t1 l1 h1 hx
  · intro t1 l1 h1 hx hp
    rw [q.cell0]
    rcases back t1 l1 h1 with ⟨rfl, rfl⟩ | ⟨_, h1⟩
    · exact hpost hx hp
    · exact X.post t1 l1 h1 hx hp
  · intro h0 hall
    rw [q.cell0] at h0
    rw [q.low]
    apply X.lowEmpty h0
    intro t1 l1 h1
    by_cases ht : t1 = t
    · subst ht; rw [hl] at h1; cases h1; exact hlow.1
    · exact hall t1 l1 (fwd t1 l1 h1 ht)
  · intro h0 hall
    rw [q.cell0] at h0
    rw [q.high]
    apply X.highEmpty h0
    intro t1 l1 h1
    by_cases ht : t1 = t
    · subst ht; rw [hl] at h1; cases h1; exact hlow.2
    · exact hall t1 l1 (fwd t1 l1 h1 ht)
  · intro t1 l1 h1 ht1
    rw [q.cell0]
    rcases back t1 l1 h1 with ⟨rfl, rfl⟩ | ⟨_, h1⟩
    · exact htab ht1
    · exact X.tabNew t1 l1 h1 ht1
  · intro t1 l1 h1
    rcases back t1 l1 h1 with ⟨rfl, rfl⟩ | ⟨_, h1⟩
    · exact hplan
    · refine (X.plan t1 l1 h1).quiet q I.heap ?_
      intro b hC h0
      exact hbin b (privBin_of_pend h1 hC h0)

/-! ## `DInv` after a quiet transition -/

theorem dinv_q {s s' : State} {t : Nat} {l l' : Local} (I : Inv s) (hl : s.threads[t]? = some l)
    (q : Quiet s s') (hthr : s'.threads = s.threads.set t l')
    (hsrc : (∀ tab b j res, l.pc ≠ .tRestructure tab b j res) ∧ (∀ tab b res, l.pc ≠ .tUntreeify tab b res) ∧
      (∀ tab b j, l.pc ≠ .tTreeLinkLocked tab b j))
    (hks : ∀ tab k h b, l'.pc ≠ .kStore tab k h b)
    (hnew : ∀ p, l'.call = some p → PcInv s p l'.pc)
    (hbin : ∀ b, PrivBin s b → binAt s'.tbins b = binAt s.tbins b) : DInv s' := by
  have H := I.heap
  refine ⟨?_, ?_, ?_, ?_⟩
  · intro t1 l1 p1 h1 hc1
    rw [hthr] at h1
    rcases get_set h1 with ⟨rfl, rfl⟩ | ⟨_, h1⟩
    · exact (hnew p1 hc1).quiet q H
    · exact (I.data.pcInv t1 l1 p1 h1 hc1).quiet q H
  · intro t1 l1 h1
    rw [hthr] at h1
    rcases get_set h1 with ⟨rfl, rfl⟩ | ⟨hne, h1⟩
    · cases hpc : l1.pc <;> simp only [KInv]
      exact absurd hpc (hks _ _ _ _)
    · have hk := I.data.kInv t1 l1 h1
      refine hk.quiet q H ?_
      intro tab k h b hpc
      rw [hpc] at hk
      simp only [KInv] at hk
      exact hbin b (privBin_of_pend h1 (by rw [hpc]; simp [pend]) (hk.2 .c0))
  · intro id b hc j hj ho hin hnc
    rw [q.cellAt_eq] at hc
    rw [q.hlen] at hj
    rw [q.owner_eq] at ho
    rw [q.inTree_eq] at hin
    rw [q.chainOfBin_eq H] at hnc
    obtain ⟨t0, l0, h0, hpc0⟩ := I.data.treeSub id b hc j hj ho hin hnc
    by_cases ht : t0 = t
    · subst ht
      rw [hl] at h0; cases h0
      rcases hpc0 with ⟨tab, res, hpc0⟩ | ⟨tab, res, hpc0⟩
      · exact absurd hpc0 (hsrc.1 tab b j res)
      · exact absurd hpc0 (hsrc.2.1 tab b res)
    · exact ⟨t0, l0, by rw [hthr, get_set_ne ht]; exact h0, hpc0⟩
  · intro id b hc j hj hin
    rw [q.cellAt_eq] at hc
    rw [q.chainOfBin_eq H] at hj
    rw [q.inTree_eq] at hin
    obtain ⟨t0, l0, tab, h0, hpc0⟩ := I.data.chainSub id b hc j hj hin
    by_cases ht : t0 = t
    · subst ht
      rw [hl] at h0; cases h0
      exact absurd hpc0 (hsrc.2.2 tab b j)
    · exact ⟨t0, l0, tab, by rw [hthr, get_set_ne ht]; exact h0, hpc0⟩

/-! ## `Eff` of a quiet transition -/

theorem eff_of_quiet {s s' : State} (H : HInv s) (I' : Inv s') (q : Quiet s s')
    (hlc : ∀ k, liveCell s' k = liveCell s k) (hused : ∀ j, Used s' j → Used s j)
    (hdead : ∀ b, ¬ InCell s b → (binAt s.tbins b).writer = true → (binAt s'.tbins b).writer = true) :
    Eff s s' ∧ ∀ k, absOf s' k = absOf s k := by
  refine ⟨⟨I', q.kstep H hlc hused, ?_, ?_, ?_, ?_⟩, fun k => q.abs_eq' H (hlc k)⟩
  · intro b _ hne; exact absurd (q.first b) hne
  · intro b k _ hne; exact absurd (q.absTree_eq b k) hne
  · intro b k hc
    left
    rw [q.liveId_eq, q.cellAt_eq]; exact hc
  · intro b _ hnc _
    exact ⟨fun h => hnc ((q.inCell_iff b).1 h), hdead b hnc⟩

theorem liveCell_congr {s s' : State} (h0 : s'.cell0 = s.cell0) (hlo : s'.lowCell = s.lowCell)
    (hhi : s'.highCell = s.highCell) (hcur : s'.cur = s.cur) (k : Nat) : liveCell s' k = liveCell s k := by
  unfold liveCell cellOf
  rw [h0, hlo, hhi, hcur]

/-! ## facts about the old and the new program counter of a quiet transition -/

theorem cell0_of_cellOf_moved {s : State} (H : HInv s) {tab : Tab} {k : Nat} (hc : cellOf s tab k = .moved) :
    s.cell0 = .moved := by
  cases tab with
  | old => exact hc
  | new =>
    unfold cellOf at hc
    dsimp only at hc
    split at hc
    · exact absurd hc H.newNotMoved.2
    · exact absurd hc H.newNotMoved.1

/-- what the resize invariant and the bookkeeping of pending structures need to know -/
structure XFacts (s : State) (pc pc' : Pc) : Prop where
  pend : pend s pc = [] ∧ pend s pc' = []
  src : (∀ tab b j res, pc ≠ .tRestructure tab b j res) ∧ (∀ tab b res, pc ≠ .tUntreeify tab b res) ∧
    (∀ tab b j, pc ≠ .tTreeLinkLocked tab b j)
  xpc : xPc pc' = true → xPc pc = true
  xpre : xPre pc' = true → xPre pc = true
  xpost : xPc pc' = true → xPre pc' = false → xPre pc = false ∨ s.cell0 = .moved
  tab : ∀ tab, tabOf pc' = some tab → tabOf pc = some tab ∨ tab = s.cur ∨ s.cell0 = .moved

/-- mutex, read lock and write lock are kept -/
structure MFacts (pc pc' : Pc) : Prop where
  hm : holdsMutex pc' = holdsMutex pc
  hr : holdsRead pc' = holdsRead pc
  wrl : ∀ b, holdsMutex pc = some b → wr pc' = wr pc ∧ (isLoop pc = true → isLoop pc' = true)

/-- a validated new pc sees its structure in its cell; a referenced `TreeBin` is published -/
structure LFacts (s : State) (l l' : Local) : Prop where
  vL : ∀ h, validL l'.pc = some h → cellAt s (cidOf l') = .list h
  vT : ∀ b, validT l'.pc = some b → cellAt s (cidOf l') = .tree b
  ref : ∀ b, binRef l'.pc = some b → binRef l.pc = some b ∨ (b < s.tbins.length ∧ ¬ PrivBin s b)

theorem xpc_of_pend_nil {s s' : State} {pc : Pc} (h : pend s pc = []) : XPc s' pc := by
  cases pc <;> simp [pend] at h <;> exact trivial

set_option linter.unusedSimpArgs false in
theorem Move.xfacts {s : State} {t : Nat} {p : Pending} {pc pc' : Pc} {hp : List NodeS}
    (hm : Move s t p pc pc' hp) (H : HInv s) : XFacts s pc pc' := by
  cases hm
  case rCellMoved lo tab hc =>
    have := cell0_of_cellOf_moved H hc
    refine ⟨⟨?_, ?_⟩, ⟨?_, ?_, ?_⟩, ?_, ?_, ?_, ?_⟩ <;> simp_all [pend, xPc, xPre, tabOf]
  case wCellMoved tab hc =>
    have := cell0_of_cellOf_moved H hc
    refine ⟨⟨?_, ?_⟩, ⟨?_, ?_, ?_⟩, ?_, ?_, ?_, ?_⟩ <;> simp_all [pend, xPc, xPre, tabOf]
  case rCellTree lo tab b hc =>
    cases lo <;> refine ⟨⟨?_, ?_⟩, ⟨?_, ?_, ?_⟩, ?_, ?_, ?_, ?_⟩ <;> simp_all [pend, xPc, xPre, tabOf]
  all_goals
    refine ⟨⟨?_, ?_⟩, ⟨?_, ?_, ?_⟩, ?_, ?_, ?_, ?_⟩ <;> simp_all [pend, xPc, xPre, tabOf]

set_option linter.unusedSimpArgs false in
theorem Move.mfacts {s : State} {t : Nat} {p : Pending} {pc pc' : Pc} {hp : List NodeS}
    (hm : Move s t p pc pc' hp) : MFacts pc pc' := by
  cases hm
  case rCellTree lo tab b hc =>
    cases lo <;> refine ⟨?_, ?_, ?_⟩ <;> simp_all [holdsMutex, holdsRead, wr, isLoop]
  all_goals
    refine ⟨?_, ?_, ?_⟩ <;> simp_all [holdsMutex, holdsRead, wr, isLoop]

set_option linter.unusedSimpArgs false in
theorem Fin.xfacts {s : State} {p : Pending} {pc : Pc} {res : KRes} {hp : List NodeS}
    (hf : Fin s p pc res hp) : XFacts s pc .idle := by
  cases hf
  all_goals
    refine ⟨⟨?_, ?_⟩, ⟨?_, ?_, ?_⟩, ?_, ?_, ?_, ?_⟩ <;> simp_all [pend, xPc, xPre, tabOf]

set_option linter.unusedSimpArgs false in
theorem Fin.mfacts {s : State} {p : Pending} {pc : Pc} {res : KRes} {hp : List NodeS}
    (hf : Fin s p pc res hp) : MFacts pc .idle := by
  cases hf
  all_goals
    refine ⟨?_, ?_, ?_⟩ <;> simp_all [holdsMutex, holdsRead, wr, isLoop]

set_option linter.unusedSimpArgs false in
theorem KMove.xfacts {s : State} {t : Nat} {pc pc' : Pc} {hp : List NodeS}
    (hk : KMove s t pc pc' hp) (H : HInv s) : XFacts s pc pc' := by
  cases hk
  case kCellMoved tab k hc =>
    have := cell0_of_cellOf_moved H hc
    refine ⟨⟨?_, ?_⟩, ⟨?_, ?_, ?_⟩, ?_, ?_, ?_, ?_⟩ <;> simp_all [pend, xPc, xPre, tabOf]
  all_goals
    refine ⟨⟨?_, ?_⟩, ⟨?_, ?_, ?_⟩, ?_, ?_, ?_, ?_⟩ <;> simp_all [pend, xPc, xPre, tabOf, unlL, unlT]

set_option linter.unusedSimpArgs false in
theorem KMove.mfacts {s : State} {t : Nat} {pc pc' : Pc} {hp : List NodeS}
    (hk : KMove s t pc pc' hp) : MFacts pc pc' := by
  cases hk
  all_goals
    refine ⟨?_, ?_, ?_⟩ <;> simp_all [holdsMutex, holdsRead, wr, isLoop, unlL, unlT]

/-! ## the lock words -/

/-- what a transition does to the lock words of the nodes -/
def LockKind (s : State) (t : Nat) (pc pc' : Pc) (hp : List NodeS) : Prop :=
  (hp = s.heap ∧ holdsLock pc' = holdsLock pc) ∨
  (∃ h0, hp = lockSet s.heap h0 (some t) ∧ h0 < s.heap.length ∧ (nodeAt s.heap h0).lock = none ∧
    holdsLock pc = none ∧ holdsLock pc' = some h0) ∨
  (∃ h0, hp = lockSet s.heap h0 none ∧ holdsLock pc = some h0 ∧ holdsLock pc' = none)

theorem Move.lockKind {s : State} {t : Nat} {p : Pending} {pc pc' : Pc} {hp : List NodeS}
    (hm : Move s t p pc pc' hp) : LockKind s t pc pc' hp := by
  cases hm
  case wLock tab h n hn hlk =>
    exact Or.inr (Or.inl ⟨h, rfl, (List.getElem?_eq_some_iff.1 hn).1, by rw [nodeAt_of_some hn]; exact hlk, rfl, rfl⟩)
  case wUnlockRetry tab h res => exact Or.inr (Or.inr ⟨h, rfl, rfl, rfl⟩)
  case rCellTree lo tab b hc => cases lo <;> exact Or.inl ⟨rfl, rfl⟩
  all_goals exact Or.inl ⟨rfl, rfl⟩

theorem Fin.lockKind {s : State} {t : Nat} {p : Pending} {pc : Pc} {res : KRes} {hp : List NodeS}
    (hf : Fin s p pc res hp) : LockKind s t pc .idle hp := by
  cases hf
  case wUnlockFin tab h => exact Or.inr (Or.inr ⟨h, rfl, rfl, rfl⟩)
  all_goals exact Or.inl ⟨rfl, rfl⟩

theorem KMove.lockKind {s : State} {t : Nat} {pc pc' : Pc} {hp : List NodeS}
    (hk : KMove s t pc pc' hp) : LockKind s t pc pc' hp := by
  cases hk
  case kLock tab k h n hn hlk =>
    exact Or.inr (Or.inl ⟨h, rfl, (List.getElem?_eq_some_iff.1 hn).1, by rw [nodeAt_of_some hn]; exact hlk, rfl, rfl⟩)
  case xLock h n hn hlk =>
    exact Or.inr (Or.inl ⟨h, rfl, (List.getElem?_eq_some_iff.1 hn).1, by rw [nodeAt_of_some hn]; exact hlk, rfl, rfl⟩)
  case kUnlock h => exact Or.inr (Or.inr ⟨h, rfl, rfl, rfl⟩)
  case xCheckFail h hc => exact Or.inr (Or.inr ⟨h, rfl, rfl, rfl⟩)
  case xUnlockL h => exact Or.inr (Or.inr ⟨h, rfl, rfl, rfl⟩)
  all_goals exact Or.inl ⟨rfl, rfl⟩

theorem LockKind.heapEqv {s : State} {t : Nat} {pc pc' : Pc} {hp : List NodeS} (k : LockKind s t pc pc' hp) :
    HeapEqv s.heap hp := by
  rcases k with ⟨rfl, -⟩ | ⟨h0, rfl, -⟩ | ⟨h0, rfl, -⟩
  · exact HeapEqv.refl _
  · exact heapEqv_lockSet _ _ _
  · exact heapEqv_lockSet _ _ _

theorem LockKind.lockFun {s s' : State} {t : Nat} {l : Local} {pc' : Pc} (L : LInv s)
    (hl : s.threads[t]? = some l) (k : LockKind s t l.pc pc' s'.heap) :
    LockFun s s' t l.pc pc' ∧
      ∀ h, holdsLock pc' = some h → holdsLock l.pc = some h ∨ (nodeAt s.heap h).lock = none := by
  rcases k with ⟨hh, e⟩ | ⟨h0, hh, hlt, hfree, e0, e1⟩ | ⟨h0, hh, e0, e1⟩
  · exact ⟨lockfun_same L hl e (fun h => by rw [hh]), fun h hp => Or.inl (e ▸ hp)⟩
  · refine ⟨lockfun_acq e0 e1 hlt hh, fun h hp => Or.inr ?_⟩
    rw [e1] at hp; cases hp; exact hfree
  · refine ⟨lockfun_rel L hl e0 e1 hh, fun h hp => ?_⟩
    rw [e1] at hp; cases hp

/-! ## the transitions that leave every `TreeBin` alone -/

/-- the generic part: `HInv`, `TInv`, `XInv` of the successor state are given -/
theorem eff_quiet_core {s s' : State} {t : Nat} {l l' : Local} (I : Inv s) (hl : s.threads[t]? = some l)
    (htb : s'.tbins = s.tbins) (h0 : s'.cell0 = s.cell0) (hlo : s'.lowCell = s.lowCell)
    (hhi : s'.highCell = s.highCell) (hthr : s'.threads = s.threads.set t l')
    (hH : Quiet s s' → HInv s') (T' : TInv s') (hX : Quiet s s' → XInv s')
    (hlc : ∀ k, liveCell s' k = liveCell s k)
    (k : LockKind s t l.pc l'.pc s'.heap) (hpend : pend s l'.pc = [])
    (hsrc : (∀ tab b j res, l.pc ≠ .tRestructure tab b j res) ∧ (∀ tab b res, l.pc ≠ .tUntreeify tab b res) ∧
      (∀ tab b j, l.pc ≠ .tTreeLinkLocked tab b j))
    (M : MFacts l.pc l'.pc) (F : LFacts s l l')
    (hnew : ∀ p, l'.call = some p → PcInv s p l'.pc) :
    Eff s s' ∧ ∀ k, absOf s' k = absOf s k := by
  have L := I.lock
  have H := I.heap
  have q : Quiet s s' := ⟨h0, hlo, hhi, k.heapEqv, by rw [htb], fun b => by rw [htb]⟩
  obtain ⟨hlf, hacq⟩ := k.lockFun L hl
  have L' : LInv s' := linv_same L hl q.cellAt_eq hthr (by rw [htb])
    (fun b => by rw [htb]; exact ⟨rfl, rfl, rfl, rfl⟩) hlf hacq F.vL F.vT M.hm M.hr
    (fun b hb _ => M.wrl b hb) F.ref (fun b _ h => q.privBin_of hthr hpend h)
  have D' : DInv s' := dinv_q I hl q hthr hsrc (not_kStore_of_pend hpend) hnew (fun b _ => by rw [htb])
  exact eff_of_quiet H ⟨hH q, T', hX q, L', D'⟩ q hlc
    (q.used_of_nil H hthr hpend) (fun b _ hw => by rw [htb]; exact hw)

/-- `XInv` after a quiet transition, from `XFacts` -/
theorem xinv_of_facts {s s' : State} {t : Nat} {l l' : Local} (I : Inv s) (hl : s.threads[t]? = some l)
    (q : Quiet s s') (hthr : s'.threads = s.threads.set t l') (hres : s'.resizing = s.resizing)
    (X : XFacts s l.pc l'.pc) (hbin : ∀ b, PrivBin s b → binAt s'.tbins b = binAt s.tbins b) : XInv s' := by
  refine xinv_q I hl q hthr (by rw [hres]; exact id) (fun h => Or.inl (X.xpc h))
    (fun h => by rw [hres]; exact I.rsz.resz t l hl (X.xpc h)) (fun h => I.rsz.pre t l hl (X.xpre h)) ?_
    (lowStored_pend X.pend.1) ?_ (xpc_of_pend_nil X.pend.2) hbin
  · intro h1 h2
    rcases X.xpost h1 h2 with h3 | h3
    · exact I.rsz.post t l hl (X.xpc h1) h3
    · exact h3
  · intro h1
    rcases X.tab .new h1 with h2 | h2 | h2
    · exact I.rsz.tabNew t l hl h2
    · exact I.heap.curMoved h2.symm
    · exact h2

theorem eff_quiet_step {s s' : State} {t : Nat} {l l' : Local} (I : Inv s) (hl : s.threads[t]? = some l)
    (htb : s'.tbins = s.tbins) (h0 : s'.cell0 = s.cell0) (hlo : s'.lowCell = s.lowCell)
    (hhi : s'.highCell = s.highCell) (hcur : s'.cur = s.cur) (hres : s'.resizing = s.resizing)
    (hthr : s'.threads = s.threads.set t l') (T' : TInv s')
    (k : LockKind s t l.pc l'.pc s'.heap) (X : XFacts s l.pc l'.pc) (M : MFacts l.pc l'.pc) (F : LFacts s l l')
    (hnew : ∀ p, l'.call = some p → PcInv s p l'.pc) :
    Eff s s' ∧ ∀ k, absOf s' k = absOf s k :=
  eff_quiet_core I hl htb h0 hlo hhi hthr (fun q => q.hinv I.heap hcur) T'
    (fun q => xinv_of_facts I hl q hthr hres X (fun b _ => by rw [htb]))
    (liveCell_congr h0 hlo hhi hcur) k X.pend.2 X.src M F hnew

/-! ## what the new program counter of a `Move` / `KMove` knows -/

/-- a `TreeBin` in the old cell, or in a new cell after the forwarding, is published -/
theorem Inv.not_priv {s : State} (I : Inv s) {id : Cid} {b : Nat} (hc : cellAt s id = .tree b)
    (hid : id = .c0 ∨ s.cell0 = .moved) : ¬ PrivBin s b := by
  rintro ⟨⟨t1, l1, h1, hC⟩, h0⟩
  rcases hid with rfl | hm
  · exact h0 hc
  · have hk := I.data.kInv t1 l1 h1
    have hpre := I.rsz.pre t1 l1 h1
    cases hpc : l1.pc with
    | kStore tab k h b' =>
      rw [hpc] at hC hk
      simp only [KInv] at hk
      simp [pend] at hC
      subst hC
      exact hk.2 id hc
    | xStoreLow unl lo hi => rw [hpc] at hpre; exact hpre rfl hm
    | xStoreHigh unl hi => rw [hpc] at hpre; exact hpre rfl hm
    | xStoreMoved unl => rw [hpc] at hpre; exact hpre rfl hm
    | _ => rw [hpc] at hC; simp [pend] at hC

/-- the `TreeBin` a thread finds in the cell of table `tab` it works in is published -/
theorem Inv.ref_of_cellOf {s : State} (I : Inv s) {t : Nat} {l : Local} {tab : Tab} {k b : Nat}
    (hl : s.threads[t]? = some l) (htab : tabOf l.pc = some tab) (hc : cellOf s tab k = .tree b) :
    b < s.tbins.length ∧ ¬ PrivBin s b := by
  rw [BinG.cellOf_eq] at hc
  refine ⟨I.heap.cellOK _ b hc, I.not_priv hc ?_⟩
  cases tab with
  | old => exact Or.inl rfl
  | new => exact Or.inr (I.rsz.tabNew t l hl htab)

theorem Move.lfacts {s : State} {t : Nat} {p : Pending} {l : Local} {pc' : Pc} {hp : List NodeS}
    (hm : Move s t p l.pc pc' hp) (I : Inv s) (hl : s.threads[t]? = some l) (hcall : l.call = some p) :
    LFacts s l { l with pc := pc' } := by
  have L := I.lock
  obtain ⟨pc, call⟩ := l
  simp only at hm hcall
  subst hcall
  refine ⟨?_, ?_, ?_⟩
  · cases hm with
    | @wCheckOk tab h hc =>
      intro h' hv
      simp [validL] at hv; subst hv
      show cellAt s (idOf tab p.key) = _
      rw [← BinG.cellOf_eq]; exact hc
    | @wFindEnd tab h pred =>
      intro h' hv
      simp [validL] at hv; subst hv
      exact (L.vL t _ _ hl rfl :)
    | @wFindHit tab h pred c n hn hk =>
      intro h' hv
      simp [validL] at hv; subst hv
      exact (L.vL t _ _ hl rfl :)
    | @wFindNext tab h pred c n hn hk =>
      intro h' hv
      simp [validL] at hv; subst hv
      exact (L.vL t _ _ hl rfl :)
    | @rCellTree lo tab b hc => intro h' hv; cases lo <;> simp [validL] at hv
    | _ => intro h' hv; simp [validL] at hv
  · cases hm with
    | @tCheckOk tab b hc =>
      intro b' hv
      simp [validT] at hv; subst hv
      show cellAt s (idOf tab p.key) = _
      rw [← BinG.cellOf_eq]; exact hc
    | @findVal tab b i v res hf hs =>
      intro b' hv
      simp [validT] at hv; subst hv
      exact (L.vT t _ _ hl rfl :)
    | @findInsert tab b hf hi =>
      intro b' hv
      simp [validT] at hv; subst hv
      exact (L.vT t _ _ hl rfl :)
    | @findRemove tab b i res hf hs =>
      intro b' hv
      simp [validT] at hv; subst hv
      exact (L.vT t _ _ hl rfl :)
    | @lrTryFail tab b k res =>
      intro b' hv
      simp [validT] at hv; subst hv
      exact (L.vT t _ _ hl rfl :)
    | @rCellTree lo tab b hc => intro b' hv; cases lo <;> simp [validT] at hv
    | _ => intro b' hv; simp [validT] at hv
  · cases hm with
    | @rCellTree lo tab b hc =>
      intro b' hb
      right
      cases lo <;> (simp [binRef] at hb; subst hb; exact I.ref_of_cellOf hl rfl hc)
    | @wCellTree tab b hc =>
      intro b' hb
      right
      simp [binRef] at hb; subst hb; exact I.ref_of_cellOf hl rfl hc
    | _ =>
      intro b' hb
      first
        | (simp [binRef] at hb; done)
        | (left; simpa [binRef] using hb)

theorem KMove.lfacts {s : State} {t : Nat} {l : Local} {pc' : Pc} {hp : List NodeS}
    (hk : KMove s t l.pc pc' hp) (I : Inv s) (hl : s.threads[t]? = some l) (hcall : l.call = none) :
    LFacts s l { l with pc := pc' } := by
  have L := I.lock
  obtain ⟨pc, call⟩ := l
  simp only at hk hcall
  subst hcall
  refine ⟨?_, ?_, ?_⟩
  · cases hk with
    | @kCheckOk tab k h hc =>
      intro h' hv
      simp [validL] at hv; subst hv
      show cellAt s (idOf tab k) = _
      rw [← BinG.cellOf_eq]; exact hc
    | @xCheckOk h hc =>
      intro h' hv
      simp [validL] at hv; subst hv
      exact hc
    | _ => intro h' hv; simp [validL] at hv
  · cases hk with
    | @yCheckOk b hc =>
      intro b' hv
      simp [validT] at hv; subst hv
      exact hc
    | _ => intro b' hv; simp [validT] at hv
  · cases hk with
    | @xCellTree b hc =>
      intro b' hb
      right
      simp [binRef] at hb; subst hb
      exact ⟨I.heap.cellOK .c0 b hc, I.not_priv (id := .c0) hc (Or.inl rfl)⟩
    | _ =>
      intro b' hb
      first
        | (simp [binRef] at hb; done)
        | (left; simpa [binRef] using hb)

theorem lfacts_idle (s : State) (l : Local) : LFacts s l { pc := .idle, call := none } :=
  ⟨fun h hv => by simp [validL] at hv, fun b hv => by simp [validT] at hv, fun b hb => by simp [binRef] at hb⟩

/-! ## what the new program counter of a `Move` knows -/

theorem treeFind_some {s : State} {b k i : Nat} (h : treeFind s b k = some i) :
    i < s.heap.length ∧ (nodeAt s.heap i).owner = some b ∧ (nodeAt s.heap i).inTree = true ∧
      (nodeAt s.heap i).key = k := by
  rw [treeFind_def] at h
  have h1 := List.mem_of_find?_eq_some h
  have h2 := List.find?_some h
  simp only [Bool.and_eq_true, beq_iff_eq] at h2
  exact ⟨List.mem_range.1 h1, h2.1.1, h2.1.2, h2.2⟩

theorem treeFind_none {s : State} {b k : Nat} (h : treeFind s b k = none) :
    ∀ j, j < s.heap.length → (nodeAt s.heap j).owner = some b → (nodeAt s.heap j).inTree = true →
      (nodeAt s.heap j).key ≠ k := by
  rw [treeFind_def, List.find?_eq_none] at h
  intro j hj ho hin hk
  have := h j (List.mem_range.2 hj)
  simp only [Bool.and_eq_true, beq_iff_eq, not_and] at this
  exact this ⟨ho, hin⟩ hk

/-- while thread `t` holds the validated mutex of `TreeBin` `b` at a pc other than the exceptional
ones, every tree node of `b` is on its list -/
theorem Inv.tree_sub_chain {s : State} (I : Inv s) {t : Nat} {l : Local} {b : Nat} (hl : s.threads[t]? = some l)
    (hv : validT l.pc = some b) (h1 : ∀ tab j res, l.pc ≠ .tRestructure tab b j res)
    (h2 : ∀ tab res, l.pc ≠ .tUntreeify tab b res) :
    ∀ j, j < s.heap.length → (nodeAt s.heap j).owner = some b → (nodeAt s.heap j).inTree = true →
      j ∈ chainOfBin s b := by
  intro j hj ho hin
  apply Classical.byContradiction
  intro hnc
  have hc := I.lock.vT t l b hl hv
  obtain ⟨t', l', hl', hpc⟩ := I.data.treeSub _ b hc j hj ho hin hnc
  have hm' : holdsMutex l'.pc = some b := by
    rcases hpc with ⟨tab, res, hpc⟩ | ⟨tab, res, hpc⟩ <;> rw [hpc] <;> rfl
  have e1 := (I.lock.mx t l b hl).1 (holdsMutex_of_validT hv)
  have e2 := (I.lock.mx t' l' b hl').1 hm'
  rw [e1] at e2
  have := Option.some.inj e2
  subst this
  rw [hl] at hl'; cases hl'
  rcases hpc with ⟨tab, res, hpc⟩ | ⟨tab, res, hpc⟩
  · exact h1 tab j res hpc
  · exact h2 tab res hpc

theorem Inv.chain_sub_tree {s : State} (I : Inv s) {t : Nat} {l : Local} {b : Nat} (hl : s.threads[t]? = some l)
    (hv : validT l.pc = some b) (h1 : ∀ tab j, l.pc ≠ .tTreeLinkLocked tab b j) :
    ∀ j ∈ chainOfBin s b, (nodeAt s.heap j).inTree = true := by
  intro j hj
  cases hin : (nodeAt s.heap j).inTree with
  | true => rfl
  | false =>
    have hc := I.lock.vT t l b hl hv
    obtain ⟨t', l', tab, hl', hpc⟩ := I.data.chainSub _ b hc j hj hin
    have hm' : holdsMutex l'.pc = some b := by rw [hpc]; rfl
    have e1 := (I.lock.mx t l b hl).1 (holdsMutex_of_validT hv)
    have e2 := (I.lock.mx t' l' b hl').1 hm'
    rw [e1] at e2
    have := Option.some.inj e2
    subst this
    rw [hl] at hl'; cases hl'
    exact absurd hpc (h1 tab j)

theorem Walk.start {s : State} (H : HInv s) {h : Nat} (hlt : h < s.heap.length) (key : Nat) :
    Walk s h key none (some h) := by
  have hch := chainOf_isChain H.nextOK (some h) (fun i hi => by cases hi; exact hlt)
  obtain ⟨l, hl⟩ := IsChain.start_some hch
  exact ⟨[], h :: l, by rw [hl]; rfl, rfl, rfl, fun j hj => by cases hj⟩

theorem Walk.next {s : State} (H : HInv s) {h key : Nat} {pred : Option Nat} {c : Nat} {n : NodeS}
    (hlt : h < s.heap.length) (w : Walk s h key pred (some c)) (hn : s.heap[c]? = some n) (hk : n.key ≠ key) :
    Walk s h key (some c) n.next := by
  obtain ⟨l1, l2, hch, hcur, -, hkeys⟩ := w
  cases l2 with
  | nil => cases hcur
  | cons c' l2' =>
    cases hcur
    have hchain := chainOf_isChain H.nextOK (some h) (fun i hi => by cases hi; exact hlt)
    rw [hch] at hchain
    have hnx := hchain.next_eq hn
    refine ⟨l1 ++ [c], l2', by rw [hch]; simp, hnx, by simp, ?_⟩
    intro j hj
    rcases List.mem_append.1 hj with hj | hj
    · exact hkeys j hj
    · have : j = c := by simpa using hj
      subst this
      rw [nodeAt_of_some hn]; exact hk

theorem Walk.cur_mem {s : State} {h key : Nat} {pred : Option Nat} {i : Nat} (w : Walk s h key pred (some i)) :
    i ∈ chainOf s.heap (some h) := by
  obtain ⟨l1, l2, hch, hcur, -, -⟩ := w
  cases l2 with
  | nil => cases hcur
  | cons c l2' => cases hcur; rw [hch]; simp

theorem next_lt {s : State} (H : HInv s) {c : Nat} {n : NodeS} (hn : s.heap[c]? = some n) {b : Nat}
    (hb : n.next = some b) : b < s.heap.length := (H.nextOK c n b hn hb).1

theorem Move.pcInv {s : State} {t : Nat} {p : Pending} {l : Local} {pc' : Pc} {hp : List NodeS}
    (hm : Move s t p l.pc pc' hp) (I : Inv s) (hl : s.threads[t]? = some l) (hpc : l.call = some p) :
    PcInv s p pc' := by
  have h0 := I.data.pcInv t l p hl hpc
  have H := I.heap
  obtain ⟨pc, call⟩ := l
  simp only at hm h0 hpc
  cases hm with
  | rTable => simp only [PcInv]
  | rCellMoved _ => simp only [PcInv]
  | @rCellList lo tab h hc =>
    simp only [PcInv]
    rw [BinG.cellOf_eq] at hc
    exact (H.cinv (idOf tab p.key)).startOK h (by rw [hc]; rfl)
  | @rCellTree lo tab b hc => cases lo <;> simp only [PcInv, if_true, Bool.false_eq_true, if_false]
  | @rNodeNext c n hn hk =>
    cases hnx : n.next with
    | none => simp only [PcInv]
    | some b => simp only [PcInv]; exact next_lt H hn hnx
  | @rFirst b =>
    cases hf : (binAt s.tbins b).first with
    | none => simp only [PcInv]
    | some h => simp only [PcInv]; exact H.firstOK b h hf
  | rLinMode _ => simp only [PcInv] at h0 ⊢; exact h0
  | rTreeMode _ => simp only [PcInv] at h0 ⊢; exact h0
  | @rLinNext b c n hn hk =>
    cases hnx : n.next with
    | none => simp only [PcInv]
    | some b' => simp only [PcInv]; exact next_lt H hn hnx
  | rLinHit _ _ hop => simp only [PcInv]; exact hop
  | rCasFail => simp only [PcInv] at h0 ⊢; exact h0
  | rTree => simp only [PcInv]
  | @lFirst b =>
    cases hf : (binAt s.tbins b).first with
    | none => simp only [PcInv]
    | some h => simp only [PcInv]; exact H.firstOK b h hf
  | @lNext c n hn hk =>
    cases hnx : n.next with
    | none => simp only [PcInv]
    | some b => simp only [PcInv]; exact next_lt H hn hnx
  | lHit _ _ hop => simp only [PcInv]; exact hop
  | wTable => simp only [PcInv]
  | wCellMoved _ => simp only [PcInv]
  | wCellCas _ _ => simp only [PcInv]
  | wCellList _ => simp only [PcInv]
  | wCellTree _ => simp only [PcInv]
  | wCasFail _ => simp only [PcInv]
  | wLock _ _ => simp only [PcInv]
  | @wCheckOk tab h hc =>
    simp only [PcInv]
    exact Walk.start H (I.lock.lock_lt hl rfl) p.key
  | wCheckFail _ => simp only [PcInv]
  | wFindEnd =>
    simp only [PcInv] at h0 ⊢
    exact ⟨h0, fun i hi => by cases hi⟩
  | @wFindHit tab h pred c n hn hk =>
    simp only [PcInv] at h0 ⊢
    refine ⟨h0, ?_⟩
    intro i hi
    cases hi
    rw [nodeAt_of_some hn]
    exact ⟨hk, rfl⟩
  | @wFindNext tab h pred c n hn hk =>
    simp only [PcInv] at h0 ⊢
    exact h0.next H (I.lock.lock_lt hl rfl) hn hk
  | wUnlockRetry => simp only [PcInv]
  | tCheckOk _ => simp only [PcInv]
  | tCheckFail _ => simp only [PcInv]
  | @findVal tab b i v res hf hspec =>
    obtain ⟨hi, ho, hin, hk⟩ := treeFind_some hf
    simp only [PcInv]
    exact ⟨I.tree_sub_chain hl rfl (by intro tab j res; simp) (by intro tab res; simp) i hi ho hin, hk, hspec⟩
  | @findInsert tab b hf _ => simp only [PcInv]; exact treeFind_none hf
  | @findRemove tab b i res hf hspec =>
    obtain ⟨hi, ho, hin, hk⟩ := treeFind_some hf
    simp only [PcInv, RemOK]
    exact ⟨I.tree_sub_chain hl rfl (by intro tab j res; simp) (by intro tab res; simp) i hi ho hin, hin, hk, hspec⟩
  | findDone _ => simp only [PcInv]
  | @lrTryFail tab b k res =>
    cases k with
    | insert => simp only [PcInv] at h0 ⊢; exact h0
    | remove i => simp only [PcInv] at h0 ⊢; exact h0

set_option linter.unusedSimpArgs false in
theorem Move.tfacts {s : State} {t : Nat} {p : Pending} {pc pc' : Pc} {hp : List NodeS}
    (hm : Move s t p pc pc' hp) : readerPc pc' = readerPc pc ∧ noCallPc pc' = false := by
  cases hm
  case rCellTree lo tab b hc => cases lo <;> simp [readerPc, noCallPc, kPc, xPc]
  all_goals simp [readerPc, noCallPc, kPc, xPc]

set_option linter.unusedSimpArgs false in
theorem KMove.tfacts {s : State} {t : Nat} {pc pc' : Pc} {hp : List NodeS}
    (hk : KMove s t pc pc' hp) : noCallPc pc' = true := by
  cases hk <;> simp [noCallPc, kPc, xPc]

theorem noCall_false_of_call {s : State} (T : TInv s) {t : Nat} {l : Local} {p : Pending}
    (hl : s.threads[t]? = some l) (hp : l.call = some p) : noCallPc l.pc = false := by
  cases h : noCallPc l.pc with
  | false => rfl
  | true => have := (T.callOK t l hl).2 h; rw [hp] at this; cases this

/-! ## the transitions -/

theorem eff_move {s : State} {t : Nat} {l : Local} {p : Pending} {pc' : Pc} {hp' : List NodeS} (I : Inv s)
    (hl : s.threads[t]? = some l) (hp : l.call = some p) (hm : Move s t p l.pc pc' hp') :
    let s' := setT (qst s hp' s.tbins) t { l with pc := pc' }
    Eff s s' ∧ ∀ k, absOf s' k = absOf s k := by
  intro s'
  obtain ⟨f1, f2⟩ := hm.tfacts
  have hno := noCall_false_of_call I.thr hl hp
  refine eff_quiet_step (l' := { l with pc := pc' }) I hl rfl rfl rfl rfl rfl rfl rfl ?_ hm.lockKind
    (hm.xfacts I.heap) hm.mfacts (hm.lfacts I hl hp) ?_
  · refine tinv_keep (l' := { l with pc := pc' }) I.thr hl rfl rfl rfl rfl ?_ ?_
    · show l.call = none ↔ noCallPc pc' = true
      rw [hp, f2]; simp
    · intro p1 hp1 _
      show isReader p1.op = readerPc pc'
      rw [f1]
      exact I.thr.opOK t l p1 hl hp1 hno
  · intro p1 hp1
    have : p1 = p := by
      have h : l.call = some p1 := hp1
      rw [hp] at h; exact (Option.some.inj h).symm
    subst this
    exact hm.pcInv I hl hp

theorem eff_kmove {s : State} {t : Nat} {l : Local} {pc' : Pc} {hp' : List NodeS} (I : Inv s)
    (hl : s.threads[t]? = some l) (hc : l.call = none) (hm : KMove s t l.pc pc' hp') :
    let s' := setT (qst s hp' s.tbins) t { l with pc := pc' }
    Eff s s' ∧ ∀ k, absOf s' k = absOf s k := by
  intro s'
  refine eff_quiet_step (l' := { l with pc := pc' }) I hl rfl rfl rfl rfl rfl rfl rfl ?_ hm.lockKind
    (hm.xfacts I.heap) hm.mfacts (hm.lfacts I hl hc) ?_
  · refine tinv_keep (l' := { l with pc := pc' }) I.thr hl rfl rfl rfl rfl ?_ ?_
    · show l.call = none ↔ noCallPc pc' = true
      rw [hc, hm.tfacts]; simp
    · intro p1 hp1
      rw [hc] at hp1; cases hp1
  · intro p1 hp1
    have h : l.call = some p1 := hp1
    rw [hc] at h; cases h

theorem eff_fin {s : State} {t : Nat} {l : Local} {p : Pending} {res : KRes} {hp' : List NodeS} (I : Inv s)
    (hl : s.threads[t]? = some l) (hp : l.call = some p) (hf : Fin s p l.pc res hp') :
    let s' := finish (qst s hp' s.tbins) t p res
    Eff s s' ∧ ∀ k, absOf s' k = absOf s k := by
  intro s'
  refine eff_quiet_step (l' := { pc := .idle, call := none }) I hl rfl rfl rfl rfl rfl rfl rfl ?_ hf.lockKind
    hf.xfacts hf.mfacts (lfacts_idle s l) ?_
  · exact tinv_finish (l' := { pc := .idle, call := none }) I.thr hl hp rfl rfl rfl rfl rfl
  · intro p1 hp1; cases hp1

theorem xPc_of_xPre {pc : Pc} (h : xPre pc = true) : xPc pc = true := by
  cases pc <;> simp [xPre] at h <;> rfl

theorem xfacts_idle (s : State) (pc' : Pc) (hp : pend s pc' = []) (hx : xPc pc' = false)
    (ht : tabOf pc' = none) : XFacts s .idle pc' := by
  refine ⟨⟨rfl, hp⟩, ⟨?_, ?_, ?_⟩, ?_, ?_, ?_, ?_⟩
  · intro _ _ _ _ h; cases h
  · intro _ _ _ h; cases h
  · intro _ _ _ h; cases h
  · intro h; rw [hx] at h; cases h
  · intro h; have := xPc_of_xPre h; rw [hx] at this; cases this
  · intro h; rw [hx] at h; cases h
  · intro tab h; rw [ht] at h; cases h

set_option linter.unusedSimpArgs false in
theorem mfacts_idle (pc' : Pc) (h1 : holdsMutex pc' = none) (h2 : holdsRead pc' = none) : MFacts .idle pc' := by
  refine ⟨?_, ?_, ?_⟩ <;> simp_all [holdsMutex, holdsRead]

theorem eff_idle {s : State} {t : Nat} {l : Local} (I : Inv s) (hl : s.threads[t]? = some l) (hpc : l.pc = .idle) :
    Eff s (setT (tick s) t l) ∧ ∀ k, absOf (setT (tick s) t l) k = absOf s k := by
  refine eff_quiet_step (l' := l) I hl rfl rfl rfl rfl rfl rfl rfl ?_ (Or.inl ⟨rfl, rfl⟩) ?_ ?_ ?_ ?_
  · exact tinv_keep (l' := l) I.thr hl rfl rfl rfl rfl (I.thr.callOK t l hl) (fun p hp => I.thr.opOK t l p hl hp)
  · rw [hpc]; exact xfacts_idle s .idle rfl rfl rfl
  · rw [hpc]; exact mfacts_idle .idle rfl rfl
  · refine ⟨?_, ?_, ?_⟩ <;> intro x hx <;> rw [hpc] at hx <;> cases hx
  · intro p1 hp1; exact I.data.pcInv t l p1 hl hp1

theorem call_none_of_idle {s : State} (T : TInv s) {t : Nat} {l : Local} (hl : s.threads[t]? = some l)
    (hpc : l.pc = .idle) : l.call = none := (T.callOK t l hl).2 (by rw [hpc]; rfl)

theorem eff_maint {s : State} {t : Nat} {l : Local} (I : Inv s) (hl : s.threads[t]? = some l) (k0 : Nat)
    (hpc : l.pc = .idle) :
    let s' := setT (tick s) t { l with pc := .kTable k0 }
    Eff s s' ∧ ∀ k, absOf s' k = absOf s k := by
  intro s'
  have hc := call_none_of_idle I.thr hl hpc
  refine eff_quiet_step (l' := { l with pc := .kTable k0 }) I hl rfl rfl rfl rfl rfl rfl rfl ?_
    (Or.inl ⟨rfl, by rw [hpc]; rfl⟩) ?_ ?_ ?_ ?_
  · refine tinv_keep (l' := { l with pc := .kTable k0 }) I.thr hl rfl rfl rfl rfl ?_ ?_
    · show l.call = none ↔ noCallPc (.kTable k0) = true
      rw [hc]; simp [noCallPc, kPc]
    · intro p hp; rw [hc] at hp; cases hp
  · rw [hpc]; exact xfacts_idle s _ rfl rfl rfl
  · rw [hpc]; exact mfacts_idle _ rfl rfl
  · refine ⟨?_, ?_, ?_⟩ <;> intro x hx <;> cases hx
  · intro p1 hp1
    have h : l.call = some p1 := hp1
    rw [hc] at h; cases h

theorem eff_invoke {s : State} {t : Nat} {l : Local} (I : Inv s) (hl : s.threads[t]? = some l) (k0 : Nat) (op : KOp)
    (lo : Bool) (hpc : l.pc = .idle) :
    let s' := setT (tick s) t { pc := if isReader op then .rTable lo else .wTable, call := some ⟨k0, op, s.now + 1⟩ }
    Eff s s' ∧ ∀ k, absOf s' k = absOf s k := by
  intro s'
  refine eff_quiet_step (l' := { pc := if isReader op then .rTable lo else .wTable, call := some ⟨k0, op, s.now + 1⟩ })
    I hl rfl rfl rfl rfl rfl rfl rfl ?_ (Or.inl ⟨rfl, by rw [hpc]; cases isReader op <;> rfl⟩) ?_ ?_ ?_ ?_
  · refine tinv_invoke (l' := { pc := if isReader op then .rTable lo else .wTable, call := some ⟨k0, op, s.now + 1⟩ })
      I.thr hl rfl rfl rfl rfl ?_ ?_
    · show noCallPc (if isReader op then .rTable lo else .wTable) = false
      cases isReader op <;> rfl
    · intro _
      show isReader op = readerPc (if isReader op then .rTable lo else .wTable)
      cases isReader op <;> rfl
  · rw [hpc]
    show XFacts s .idle (if isReader op then .rTable lo else .wTable)
    cases isReader op <;> exact xfacts_idle s _ rfl rfl rfl
  · rw [hpc]
    show MFacts .idle (if isReader op then .rTable lo else .wTable)
    cases isReader op <;> exact mfacts_idle _ rfl rfl
  · refine ⟨?_, ?_, ?_⟩
    · intro x hx
      have hx' : validL (if isReader op then Pc.rTable lo else Pc.wTable) = some x := hx
      cases hr : isReader op <;> rw [hr] at hx' <;> simp [validL] at hx'
    · intro x hx
      have hx' : validT (if isReader op then Pc.rTable lo else Pc.wTable) = some x := hx
      cases hr : isReader op <;> rw [hr] at hx' <;> simp [validT] at hx'
    · intro x hx
      have hx' : binRef (if isReader op then Pc.rTable lo else Pc.wTable) = some x := hx
      cases hr : isReader op <;> rw [hr] at hx' <;> simp [binRef] at hx'
  · intro p1 _
    show PcInv s p1 (if isReader op then .rTable lo else .wTable)
    cases isReader op <;> simp [PcInv]

theorem lfacts_of_none (s : State) (l l' : Local) (h1 : validL l'.pc = none) (h2 : validT l'.pc = none)
    (h3 : binRef l'.pc = none) : LFacts s l l' := by
  refine ⟨?_, ?_, ?_⟩
  · intro h hv; rw [h1] at hv; cases hv
  · intro b hv; rw [h2] at hv; cases hv
  · intro b hb; rw [h3] at hb; cases hb

theorem eff_resizeStart {s : State} {t : Nat} {l : Local} (I : Inv s) (hl : s.threads[t]? = some l)
    (hpc : l.pc = .idle) (hr : s.resizing = false) :
    let s' := { (setT (tick s) t { l with pc := .xCell }) with resizing := true }
    Eff s s' ∧ ∀ k, absOf s' k = absOf s k := by
  intro s'
  have hc := call_none_of_idle I.thr hl hpc
  have noX : ∀ (t1 : Nat) (l1 : Local), s.threads[t1]? = some l1 → xPc l1.pc = false := by
    intro t1 l1 h1
    cases hx : xPc l1.pc with
    | false => rfl
    | true => have := I.rsz.resz t1 l1 h1 hx; rw [hr] at this; cases this
  refine eff_quiet_core (l' := { l with pc := .xCell }) I hl rfl rfl rfl rfl rfl (fun q => q.hinv I.heap rfl) ?_ ?_
    (liveCell_congr rfl rfl rfl rfl) (Or.inl ⟨rfl, by rw [hpc]; rfl⟩) rfl ?_ ?_
    (lfacts_of_none s l _ rfl rfl rfl) ?_
  · refine tinv_keep (l' := { l with pc := .xCell }) I.thr hl rfl rfl rfl rfl ?_ ?_
    · show l.call = none ↔ noCallPc .xCell = true
      rw [hc]; simp [noCallPc, xPc]
    · intro p hp; rw [hc] at hp; cases hp
  · intro q
    refine xinv_q (l' := { l with pc := .xCell }) I hl q rfl (fun _ => rfl) (fun _ => Or.inr noX) (fun _ => rfl)
      (fun _ => I.rsz.noResz hr) (fun _ h => by cases h) (by rw [hpc]; exact ⟨rfl, rfl⟩) (fun h => by cases h)
      trivial (fun b _ => rfl)
  · rw [hpc]
    refine ⟨?_, ?_, ?_⟩
    · intro _ _ _ _ h; cases h
    · intro _ _ _ h; cases h
    · intro _ _ _ h; cases h
  · rw [hpc]; exact mfacts_idle _ rfl rfl
  · intro p1 hp1
    have h : l.call = some p1 := hp1
    rw [hc] at h; cases h

theorem eff_xcommit {s : State} {t : Nat} {l : Local} (I : Inv s) (hl : s.threads[t]? = some l)
    (hc : l.call = none) (hpc : l.pc = .xCommit) :
    let s' := { (setT (tick s) t { l with pc := .idle }) with cur := .new }
    Eff s s' ∧ ∀ k, absOf s' k = absOf s k := by
  intro s'
  have hmoved : s.cell0 = .moved := I.rsz.post t l hl (by rw [hpc]; rfl) (by rw [hpc]; rfl)
  refine eff_quiet_core (l' := { l with pc := .idle }) I hl rfl rfl rfl rfl rfl
    (fun q => q.hinv' I.heap (fun _ => hmoved)) ?_ ?_ ?_ (Or.inl ⟨rfl, by rw [hpc]; rfl⟩) rfl ?_ ?_
    (lfacts_of_none s l _ rfl rfl rfl) ?_
  · refine tinv_keep (l' := { l with pc := .idle }) I.thr hl rfl rfl rfl rfl ?_ ?_
    · show l.call = none ↔ noCallPc .idle = true
      rw [hc]; simp [noCallPc]
    · intro p hp; rw [hc] at hp; cases hp
  · intro q
    refine xinv_q (l' := { l with pc := .idle }) I hl q rfl id (fun h => by cases h) (fun h => by cases h)
      (fun h => by cases h) (fun h => by cases h) (by rw [hpc]; exact ⟨rfl, rfl⟩) (fun h => by cases h)
      trivial (fun b _ => rfl)
  · intro k
    have h1 : s'.cell0 = .moved := hmoved
    unfold liveCell
    rw [h1, hmoved]
    rfl
  · rw [hpc]
    refine ⟨?_, ?_, ?_⟩
    · intro _ _ _ _ h; cases h
    · intro _ _ _ h; cases h
    · intro _ _ _ h; cases h
  · rw [hpc]; refine ⟨rfl, rfl, ?_⟩; intro b hb; cases hb
  · intro p1 hp1
    have h : l.call = some p1 := hp1
    rw [hc] at h; cases h

end Flurry.Proto.BinG
