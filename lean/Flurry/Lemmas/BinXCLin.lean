import Flurry.Lemmas.BinXCGhost
/-! # Proto/BinXC: the ghost invariant holds in every reachable state (C01, C04)

As `Lemmas/BinXLin.lean`. New linearization points: a `clear` is linearized, for every key of a cell,
at the step at which it reads that cell as empty or stores "empty" into it (the only step of a `clear`
that changes the abstract state); the hindsight justification of the readers is carried over that
store by `BinX.Good.cleared`. -/
namespace Flurry.Proto.BinXC
open Flurry.Lin
open Flurry.Proto.BinX (Ghost Phase CellId CR Active MemStep get_set get_set_self get_set_ne Sim CallOK nextA nextA_old
  nextA_new updPt updPt_self updPt_ne)

structure GInv (k : Nat) (s : State) (G : Ghost) (A : Nat → KSt) (pt : Nat → Nat) : Prop where
  h0 : A 0 = none
  hA : A s.now = absOf s k
  calls : ∀ c ∈ callsOnExt s k, CallOK A pt c
  stab : ∀ τ, 1 ≤ τ → τ ≤ s.now → A τ ≠ A (τ - 1) →
    ∃ c ∈ callsOnExt s k, isRead c.op = false ∧ pt c.inv = τ
  inj : ∀ c ∈ callsOnExt s k, ∀ d ∈ callsOnExt s k, isRead c.op = false → isRead d.op = false →
    pt c.inv = pt d.inv → c.inv = d.inv
  readers : ∀ (t : Nat) (l : Local) (p : Pending) (cur : Option Nat), s.threads[t]? = some l →
    l.call = some p → p.key = k → l.pc = .rNode cur → BinX.Good G.cr A k p.inv (mem s) cur

/-- the generic part of the preservation of `GInv` -/
theorem GInv.frame {k : Nat} {s s' : State} {G G' : Ghost} {A : Nat → KSt} {pt pt' : Nat → Nat} {i0 : Nat}
    (g : GInv k s G A pt) (T : TInv s) (hnow : s'.now = s.now + 1)
    (hpt' : ∀ c ∈ callsOnExt s k, pt' c.inv = pt c.inv)
    (hF : ∀ c ∈ callsOnExt s k, ∃ c' ∈ callsOnExt s' k, Sim c c')
    (hB : ∀ c' ∈ callsOnExt s' k, (∃ c ∈ callsOnExt s k, Sim c c') ∨
      (c'.inv = i0 ∧ CallOK (nextA A s.now (absOf s' k)) pt' c' ∧ (isRead c'.op = false → pt' c'.inv = s.now + 1)))
    (hchg : absOf s' k ≠ absOf s k → ∃ c' ∈ callsOnExt s' k, isRead c'.op = false ∧ pt' c'.inv = s.now + 1)
    (hreaders : ∀ (t : Nat) (l : Local) (p : Pending) (cur : Option Nat), s'.threads[t]? = some l →
      l.call = some p → p.key = k → l.pc = .rNode cur → BinX.Good G'.cr (nextA A s.now (absOf s' k)) k p.inv (mem s') cur) :
    GInv k s' G' (nextA A s.now (absOf s' k)) pt' := by
  have hold : ∀ τ, τ ≤ s.now → nextA A s.now (absOf s' k) τ = A τ := fun τ h => nextA_old h
  refine ⟨?_, ?_, ?_, ?_, ?_, hreaders⟩
  · rw [hold 0 (Nat.zero_le _)]; exact g.h0
  · rw [hnow, nextA_new]
  · intro c' hc'
    rcases hB c' hc' with ⟨c, hc, hsim⟩ | ⟨-, hok, -⟩
    · exact (g.calls c hc).sim hsim (callsOnExt_resp_le T hc) hold (hpt' c hc)
    · exact hok
  · intro τ h1 h2 hne
    rw [hnow] at h2
    rcases Nat.lt_or_ge τ (s.now + 1) with hlt | hge
    · rw [hold τ (by omega), hold (τ - 1) (by omega)] at hne
      obtain ⟨c, hc, hw, hp⟩ := g.stab τ h1 (by omega) hne
      obtain ⟨c', hc', hsim⟩ := hF c hc
      refine ⟨c', hc', by rw [hsim.2.1]; exact hw, ?_⟩
      rw [hsim.2.2.2.1, hpt' c hc]; exact hp
    · have hτ : τ = s.now + 1 := by omega
      subst hτ
      rw [nextA_new, Nat.add_sub_cancel, hold s.now (Nat.le_refl _), g.hA] at hne
      exact hchg hne
  · intro c' hc' d' hd' hwc hwd hpe
    rcases hB c' hc' with ⟨c, hc, hsc⟩ | ⟨hci, -, hcp⟩ <;> rcases hB d' hd' with ⟨d, hd, hsd⟩ | ⟨hdi, -, hdp⟩
    · rw [hsc.2.2.2.1, hsd.2.2.2.1]
      rw [hsc.2.2.2.1, hsd.2.2.2.1, hpt' c hc, hpt' d hd] at hpe
      exact g.inj c hc d hd (by rw [← hsc.2.1]; exact hwc) (by rw [← hsd.2.1]; exact hwd) hpe
    · exfalso
      have h1 := (g.calls c hc).2.1
      have h2 := callsOnExt_resp_le T hc
      rw [hsc.2.2.2.1, hpt' c hc, hdp hwd] at hpe
      omega
    · exfalso
      have h1 := (g.calls d hd).2.1
      have h2 := callsOnExt_resp_le T hd
      rw [hsd.2.2.2.1, hpt' d hd, hcp hwc] at hpe
      omega
    · rw [hci, hdi]

/-- the readers' justifications survive a transition -/
theorem readers_step {k : Nat} {s s' : State} {G G' : Ghost} {A A' : Nat → KSt} {pt : Nat → Nat} {t : Nat}
    {l' : Local} (g : GInv k s G A pt) (I : Inv s G) (hcar : BinX.Carries k (mem s) (mem s') G G' A A')
    (hthr : s'.threads = s.threads.set t l')
    (hself : ∀ (p : Pending) (cur : Option Nat), l'.call = some p → p.key = k → l'.pc = .rNode cur →
      p.inv ≤ s.now ∧ BinX.Good G.cr A k p.inv (mem s) cur) :
    ∀ (t1 : Nat) (l1 : Local) (p1 : Pending) (cur : Option Nat), s'.threads[t1]? = some l1 →
      l1.call = some p1 → p1.key = k → l1.pc = .rNode cur → BinX.Good G'.cr A' k p1.inv (mem s') cur := by
  intro t1 l1 p1 cur h1 hc1 hk1 hpc1
  rw [hthr] at h1
  rcases get_set h1 with ⟨rfl, rfl⟩ | ⟨_, h1⟩
  · obtain ⟨hi, hg⟩ := hself p1 cur hc1 hk1 hpc1
    exact hcar _ _ (by rw [mem_now]; exact hi) hg
  · exact hcar _ _ (by rw [mem_now]; exact I.thr.pendTime t1 l1 p1 h1 hc1) (g.readers t1 l1 p1 cur h1 hc1 hk1 hpc1)

/-- transitions that add no call on `k` and do not change the abstract state of `k` -/
theorem ginv_quiet {k : Nat} {s s' : State} {G G' : Ghost} {A : Nat → KSt} {pt : Nat → Nat} {t : Nat}
    {l l' : Local} {hnew : List (Option Nat × Call)}
    (g : GInv k s G A pt) (I : Inv s G) (hcar : BinX.Carries k (mem s) (mem s') G G' A (nextA A s.now (absOf s' k)))
    (hl : s.threads[t]? = some l) (hthr : s'.threads = s.threads.set t l') (hnow : s'.now = s.now + 1)
    (hhist : s'.hist = hnew ++ s.hist) (hnk : ∀ ko c, (ko, c) ∈ hnew → ¬ (ko = some k ∨ ko = none))
    (habs : absOf s' k = absOf s k)
    (he : extOf k s.now t l = none) (he' : extOf k (s.now + 1) t l' = none)
    (hself : ∀ (p : Pending) (cur : Option Nat), l'.call = some p → p.key = k → l'.pc = .rNode cur →
      p.inv ≤ s.now ∧ BinX.Good G.cr A k p.inv (mem s) cur) :
    GInv k s' G' (nextA A s.now (absOf s' k)) pt := by
  refine g.frame (i0 := 0) I.thr hnow (fun _ _ => rfl) ?_ ?_ (fun h => absurd habs h)
    (readers_step g I hcar hthr hself)
  · intro c hc
    rcases ext_forward hl hthr hnow hhist c hc with h | h
    · exact h
    · rw [he] at h; cases h
  · intro c' hc'
    rcases ext_backward hthr hnow hhist c' hc' with h | h | h
    · exact Or.inl h
    · obtain ⟨ko, h1, h2⟩ := h; exact absurd h2 (hnk ko c' h1)
    · rw [he'] at h; cases h

/-- transitions that add the call `c0` of thread `t` (to the history or as a stored writer) -/
theorem ginv_new {k : Nat} {s s' : State} {G G' : Ghost} {A : Nat → KSt} {pt : Nat → Nat} {t : Nat}
    {l l' : Local} {hnew : List (Option Nat × Call)} {p : Pending} {c0 : Call} {τ0 : Nat}
    (g : GInv k s G A pt) (I : Inv s G) (hcar : BinX.Carries k (mem s) (mem s') G G' A (nextA A s.now (absOf s' k)))
    (hl : s.threads[t]? = some l) (hp : l.call = some p)
    (hthr : s'.threads = s.threads.set t l') (hnow : s'.now = s.now + 1)
    (hhist : s'.hist = hnew ++ s.hist)
    (he : extOf k s.now t l = none)
    (honly : ∀ c', (∃ ko, (ko, c') ∈ hnew ∧ (ko = some k ∨ ko = none)) ∨ extOf k (s.now + 1) t l' = some c' → c' = c0)
    (hmem : c0 ∈ callsOnExt s' k)
    (hinv0 : c0.inv = p.inv)
    (hok : CallOK (nextA A s.now (absOf s' k)) (updPt pt p.inv τ0) c0)
    (hw : isRead c0.op = false → τ0 = s.now + 1)
    (hchg : absOf s' k ≠ absOf s k → isRead c0.op = false)
    (hself : ∀ (p : Pending) (cur : Option Nat), l'.call = some p → p.key = k → l'.pc = .rNode cur →
      p.inv ≤ s.now ∧ BinX.Good G.cr A k p.inv (mem s) cur) :
    GInv k s' G' (nextA A s.now (absOf s' k)) (updPt pt p.inv τ0) := by
  refine g.frame (i0 := p.inv) I.thr hnow ?_ ?_ ?_ ?_ (readers_step g I hcar hthr hself)
  · intro c hc
    exact updPt_ne pt τ0 (inv_ne_of_mem_callsOnExt I.thr hl hp he hc)
  · intro c hc
    rcases ext_forward hl hthr hnow hhist c hc with h | h
    · exact h
    · rw [he] at h; cases h
  · intro c' hc'
    rcases ext_backward hthr hnow hhist c' hc' with h | h | h
    · exact Or.inl h
    · have := honly c' (Or.inl h); subst this
      exact Or.inr ⟨hinv0, hok, fun hwr => by rw [hinv0, updPt_self]; exact hw hwr⟩
    · have := honly c' (Or.inr h); subst this
      exact Or.inr ⟨hinv0, hok, fun hwr => by rw [hinv0, updPt_self]; exact hw hwr⟩
  · intro hne
    have hwr := hchg hne
    exact ⟨c0, hmem, hwr, by rw [hinv0, updPt_self]; exact hw hwr⟩


/-- the cell a thread looks at (after following the forwarding marker) is the live cell of its key -/
theorem post_cell0 {s : State} {G : Ghost} (H : BinX.HInv (mem s) G) (hp : G.ph = .post) : s.cell0 = .moved :=
  cC_eq_moved.1 (H.post hp)

theorem Inv.liveCell_of_tab {s : State} {G : Ghost} (I : Inv s G) {t : Nat} {l : Local} {tab : Tab} {k : Nat}
    (hl : s.threads[t]? = some l) (hT : ¬ isT l.pc) (htab : tabOf l.pc = some tab)
    (hnm : cellOf s tab k ≠ .moved) : liveCell s k = cellOf s tab k := by
  cases tab with
  | old =>
    have hnm' : s.cell0 ≠ .moved := hnm
    unfold liveCell
    rw [if_neg (by simpa using hnm')]
    have : s.cur ≠ .new := fun hc => hnm' (post_cell0 I.heap (curNew_mem I.heap hc))
    rw [if_neg (by simpa using this)]
    rfl
  | new =>
    have hm := post_cell0 I.heap (I.post_of_new hl hT htab)
    unfold liveCell
    rw [if_pos (by rw [hm]; rfl)]

theorem absOf_of_empty {s : State} {k : Nat} (h : liveCell s k = .empty) : absOf s k = none := by
  rw [← absOf_mem]
  exact BinX.absOf_of_empty (by rw [liveCell_mem, h]; rfl)

theorem extRes_call {k : Nat} {l : Local} {p : Pending} (hc : l.call = some p) : extRes k l = extResP k p l.pc := by
  unfold extRes; rw [hc]

theorem extRes_none_of_key {k : Nat} {l : Local} {p : Pending} (h : l.call = some p) (hk : p.key ≠ k)
    (hC : ¬ isC l.pc) : extRes k l = none := by
  rw [extRes_call h]
  obtain ⟨pc, call⟩ := l
  simp only at hC
  cases pc <;> first | exact absurd trivial hC | rfl | skip
  rename_i tab h' res retry
  cases retry
  · simp [extResP, hk]
  · rfl

theorem Move.not_ext {s : State} {p : Pending} {pc pc' : Pc} (h : Move s p pc pc') (k : Nat) :
    extResP k p pc = none ∧ extResP k p pc' = none := by
  cases h <;> exact ⟨rfl, rfl⟩

theorem Fin.not_ext {s : State} {p : Pending} {pc : Pc} {res : KRes} (h : Fin s p pc res) (k : Nat) :
    extResP k p pc = none := by
  cases h <;> rfl

theorem Move.good {s : State} {p : Pending} {pc pc' : Pc} (h : Move s p pc pc') {cur : Option Nat}
    (hc : pc' = .rNode cur) :
    (∃ tab h, pc = .rCell tab ∧ cellOf s tab p.key = .node h ∧ cur = some h) ∨
    (∃ c n, pc = .rNode (some c) ∧ s.heap[c]? = some n ∧ n.key ≠ p.key ∧ cur = n.next) := by
  cases h with
  | rCellNode hcell => cases hc; exact Or.inl ⟨_, _, rfl, hcell, rfl⟩
  | rNext hn hk => cases hc; exact Or.inr ⟨_, _, rfl, hn, hk, rfl⟩
  | rTable => cases hc
  | rCellMoved _ => cases hc
  | wTable => cases hc
  | wCellEmpty _ _ => cases hc
  | wCellMoved _ => cases hc
  | wCellNode _ => cases hc
  | casFail => cases hc
  | checkOk _ => cases hc
  | checkFail _ => cases hc
  | findEnd => cases hc
  | findHit _ _ => cases hc
  | findNext _ _ => cases hc

theorem missRes_spec {op : KOp} (h : isRead op = true) : specStep none op = (none, missRes op) := by
  cases op <;> first | rfl | cases h

theorem hitRes_spec {op : KOp} (h : isRead op = true) (n : NodeS) :
    specStep (some n.val) op = (some n.val, hitRes op n) := by
  cases op <;> first | rfl | cases h

/-- the point of a call that completes without a store of its own -/
theorem fin_point {k : Nat} {s : State} {G : Ghost} {A : Nat → KSt} {pt : Nat → Nat} {t : Nat} {l : Local}
    {p : Pending} {res : KRes}
    (g : GInv k s G A pt) (I : Inv s G) (hl : s.threads[t]? = some l) (hp : l.call = some p)
    (hk : p.key = k) (hf : Fin s p l.pc res) :
    ∃ τ0, p.inv ≤ τ0 ∧ τ0 ≤ s.now + 1 ∧
      (isRead p.op = true →
        specStep (nextA A s.now (absOf s k) τ0) p.op = (nextA A s.now (absOf s k) τ0, res)) ∧
      (isRead p.op = false → τ0 = s.now + 1 ∧
        specStep (nextA A s.now (absOf s k) s.now) p.op = (nextA A s.now (absOf s k) (s.now + 1), res)) := by
  have hop := I.thr.opOK t l p hl hp
  have hpi := I.thr.pendTime t l p hl hp
  obtain ⟨pc, call⟩ := l
  simp only at hp hf hop
  subst hp
  cases hf with
  | @rEmpty tab hc =>
    have hrd : isRead p.op = true := by rw [← isReader_eq_isRead]; exact hop
    have hlive := I.liveCell_of_tab (k := p.key) hl id rfl (by rw [hc]; simp)
    rw [hc] at hlive
    have hnone : absOf s k = none := by rw [← hk]; exact absOf_of_empty hlive
    refine ⟨s.now, hpi, by omega, ?_, fun h => by rw [hrd] at h; cases h⟩
    intro _
    rw [nextA_old (Nat.le_refl _), g.hA, hnone]
    exact missRes_spec hrd
  | miss =>
    have hrd : isRead p.op = true := by rw [← isReader_eq_isRead]; exact hop
    obtain ⟨τ, h1, h2, h3⟩ := (g.readers t _ p none hl rfl hk rfl).miss
    have h2 : τ ≤ s.now := h2
    refine ⟨τ, h1, by have : τ ≤ s.now := h2; omega, ?_, fun h => by rw [hrd] at h; cases h⟩
    intro _
    rw [nextA_old h2, h3]
    exact missRes_spec hrd
  | @hit c n hn hkey =>
    have hrd : isRead p.op = true := by rw [← isReader_eq_isRead]; exact hop
    have hnode := nodeAt_mem_of_some hn
    obtain ⟨τ, h1, h2, h3⟩ := (g.readers t _ p (some c) hl rfl hk rfl).hit I.heap (by rw [absOf_mem]; exact g.hA) hpi
      (by rw [hnode]; exact hkey.trans hk)
    have h2 : τ ≤ s.now := h2
    refine ⟨τ, h1, by have : τ ≤ s.now := h2; omega, ?_, fun h => by rw [hrd] at h; cases h⟩
    intro _
    rw [nextA_old h2, h3, hnode]
    exact hitRes_spec hrd n
  | @wEmpty tab hc hnot =>
    have hwr : isRead p.op = false := by rw [← isReader_eq_isRead]; exact hop
    have hlive := I.liveCell_of_tab (k := p.key) hl id rfl (by rw [hc]; simp)
    rw [hc] at hlive
    have hnone : absOf s k = none := by rw [← hk]; exact absOf_of_empty hlive
    refine ⟨s.now + 1, by omega, Nat.le_refl _, fun h => (by rw [hwr] at h; cases h), fun _ => ⟨rfl, ?_⟩⟩
    rw [nextA_old (Nat.le_refl _), nextA_new, g.hA, hnone]
    cases hop' : p.op with
    | ins v vi => exact absurd ⟨v, vi, Or.inl hop'⟩ hnot
    | tryIns v vi => exact absurd ⟨v, vi, Or.inr hop'⟩ hnot
    | get => rw [hop'] at hwr; cases hwr
    | has => rw [hop'] at hwr; cases hwr
    | rm => rfl
    | cipInc nvi => rfl
    | cipRm => rfl



theorem mem_singleton_key {ko ko' : Option Nat} {c c0 : Call} (h : (ko, c) ∈ [(ko', c0)]) : ko = ko' ∧ c = c0 := by
  simp only [List.mem_singleton, Prod.mk.injEq] at h
  exact h

theorem extOf_none_of_P {k now t : Nat} {l : Local} {p : Pending} (hc : l.call = some p)
    (h : extResP k p l.pc = none) : extOf k now t l = none := by
  rw [extOf_none_iff, extRes_call hc]; exact h

theorem extOf_none_of_call {k now t : Nat} {l : Local} (h : l.call = none) : extOf k now t l = none := by
  rw [extOf_none_iff]; exact extRes_none_of_call h

/-- the abstract state does not change when the projected memory does not -/
theorem absOf_same {s s' : State} (hh : (mem s').heap = (mem s).heap) (h0 : (mem s').cell0 = (mem s).cell0)
    (hL : (mem s').lowCell = (mem s).lowCell) (hH : (mem s').highCell = (mem s).highCell)
    (hc : (mem s').cur = (mem s).cur) (k : Nat) : absOf s' k = absOf s k := by
  rw [← absOf_mem, ← absOf_mem]; exact BinX.absOf_congr hh h0 hL hH hc k

/-- transitions that add no call on `k`, do not change the abstract state of `k` and leave the
status of the stepping thread's call (counted / not counted) as it is -/
theorem ginv_same {k : Nat} {s s' : State} {G G' : Ghost} {A : Nat → KSt} {pt : Nat → Nat} {t : Nat}
    {l l' : Local} {hnew : List (Option Nat × Call)}
    (g : GInv k s G A pt) (I : Inv s G) (hcar : BinX.Carries k (mem s) (mem s') G G' A (nextA A s.now (absOf s' k)))
    (hl : s.threads[t]? = some l) (hthr : s'.threads = s.threads.set t l') (hnow : s'.now = s.now + 1)
    (hhist : s'.hist = hnew ++ s.hist) (hnk : ∀ ko c, (ko, c) ∈ hnew → ¬ (ko = some k ∨ ko = none))
    (habs : absOf s' k = absOf s k)
    (hsame : extRes k l' = extRes k l)
    (hself : ∀ (p : Pending) (cur : Option Nat), l'.call = some p → p.key = k → l'.pc = .rNode cur →
      p.inv ≤ s.now ∧ BinX.Good G.cr A k p.inv (mem s) cur) :
    GInv k s' G' (nextA A s.now (absOf s' k)) pt := by
  refine g.frame (i0 := 0) I.thr hnow (fun _ _ => rfl) ?_ ?_ (fun h => absurd habs h)
    (readers_step g I hcar hthr hself)
  · intro c hc
    rcases ext_forward hl hthr hnow hhist c hc with h | h
    · exact h
    · obtain ⟨c', hc', hsim⟩ := extOf_same (now' := s.now + 1) (Nat.le_succ _) hsame h
      exact ⟨c', mem_callsOnExt.2 (Or.inr ⟨t, l', by rw [hthr]; exact get_set_self hl, by rw [hnow]; exact hc'⟩), hsim⟩
  · intro c' hc'
    rcases ext_backward hthr hnow hhist c' hc' with h | h | h
    · exact Or.inl h
    · obtain ⟨ko, h1, h2⟩ := h; exact absurd h2 (hnk ko c' h1)
    · obtain ⟨op, res, i, hr, rfl⟩ := extOf_eq_some.1 h
      refine Or.inl ⟨⟨t, op, res, i, s.now⟩, mem_callsOnExt.2 (Or.inr ⟨t, l, hl, extOf_eq_some.2 ⟨op, res, i, by rw [← hsame]; exact hr, rfl⟩⟩),
        rfl, rfl, rfl, rfl, Nat.le_succ _⟩

/-- a quiet transition of the resizing thread (or any thread without a call) -/
theorem ginv_quiet_nocall {k : Nat} {s s' : State} {G G' : Ghost} {A : Nat → KSt} {pt : Nat → Nat} {t : Nat}
    {l l' : Local}
    (g : GInv k s G A pt) (I : Inv s G) (hcar : BinX.Carries k (mem s) (mem s') G G' A (nextA A s.now (absOf s' k)))
    (hl : s.threads[t]? = some l) (hthr : s'.threads = s.threads.set t l') (hnow : s'.now = s.now + 1)
    (hhist : s'.hist = s.hist) (habs : absOf s' k = absOf s k) (hc : l.call = none) (hc' : l'.call = none) :
    GInv k s' G' (nextA A s.now (absOf s' k)) pt :=
  ginv_quiet (hnew := []) g I hcar hl hthr hnow hhist (by simp) habs (extOf_none_of_call hc)
    (extOf_none_of_call hc') (fun p cur h => by rw [hc'] at h; cases h)

/-! ## `clear` -/

theorem doneAt_on {tab : Tab} {idx k : Nat} (hi : idx < tabLen tab) (hon : BinX.keyOn (cellIdAt tab idx) k) :
    doneAt tab idx k = false ∧ doneAt tab (idx + 1) k = true := by
  cases tab with
  | old =>
    have : idx = 0 := by simp [tabLen] at hi; exact hi
    subst this; exact ⟨rfl, rfl⟩
  | new =>
    have : idx = 0 ∨ idx = 1 := by simp [tabLen] at hi; omega
    rcases this with rfl | rfl
    · have hb : hiBit k = false := hon
      simp [doneAt, hb]
    · have hb : hiBit k = true := hon
      simp [doneAt, hb]

theorem doneAt_off {tab : Tab} {idx k : Nat} (hi : idx < tabLen tab) (hon : ¬ BinX.keyOn (cellIdAt tab idx) k) :
    doneAt tab (idx + 1) k = doneAt tab idx k := by
  cases tab with
  | old => exact absurd trivial hon
  | new =>
    have : idx = 0 ∨ idx = 1 := by simp [tabLen] at hi; omega
    rcases this with rfl | rfl
    · have hb : hiBit k = true := by
        cases h : hiBit k
        · exact absurd (show BinX.keyOn .low k from h) hon
        · rfl
      simp [doneAt, hb]
    · have hb : hiBit k = false := by
        cases h : hiBit k
        · rfl
        · exact absurd (show BinX.keyOn .high k from h) hon
      simp [doneAt, hb]

theorem doneAt_fin {tab : Tab} {idx : Nat} (k : Nat) (hi : tabLen tab ≤ idx) : doneAt tab idx k = true := by
  cases tab with
  | old => simp [tabLen] at hi; simp [doneAt]; omega
  | new =>
    simp [tabLen] at hi
    unfold doneAt; dsimp only
    split <;> simp <;> omega

/-- the cell a `clear` looks at is the live cell of the keys that live in it -/
theorem Inv.liveCell_of_clear {s : State} {G : Ghost} (I : Inv s G) {t : Nat} {l : Local} {tab : Tab} {idx k : Nat}
    (hl : s.threads[t]? = some l) (hT : ¬ isT l.pc) (htab : tabOf l.pc = some tab)
    (hnm : cellAt s tab idx ≠ .moved) (hon : BinX.keyOn (cellIdAt tab idx) k) :
    liveCell s k = cellAt s tab idx := by
  cases tab with
  | old =>
    have hnm' : s.cell0 ≠ .moved := hnm
    unfold liveCell
    rw [if_neg (by simpa using hnm')]
    have : s.cur ≠ .new := fun hc => hnm' (post_cell0 I.heap (curNew_mem I.heap hc))
    rw [if_neg (by simpa using this)]
    rfl
  | new =>
    have hm := post_cell0 I.heap (I.post_of_new hl hT htab)
    unfold liveCell
    rw [if_pos (by rw [hm]; rfl)]
    unfold cellOf
    dsimp only
    cases idx with
    | zero =>
      have hb : hiBit k = false := hon
      rw [hb]; rfl
    | succ n =>
      have hb : hiBit k = true := hon
      rw [hb]; rfl

theorem extResP_clear {k : Nat} {p : Pending} {pc : Pc} (hC : isC pc) :
    extResP k p pc = if cdone pc k then some (.cipRm, .none, p.inv) else none := by
  cases pc <;> first | rfl | exact False.elim hC

theorem extResP_congr {k : Nat} {p : Pending} {pc pc' : Pc} (hC : isC pc) (hC' : isC pc')
    (h : cdone pc' k = cdone pc k) : extResP k p pc' = extResP k p pc := by
  rw [extResP_clear hC', extResP_clear hC, h]

theorem CMove.ext_same {s : State} {pc pc' : Pc} (hm : CMove s pc pc')
    (hnm : s.lowCell ≠ .moved ∧ s.highCell ≠ .moved) (k : Nat) (p : Pending) :
    extResP k p pc' = extResP k p pc := by
  cases hm with
  | table => cases s.cur <;> simp [extResP, cdone, doneAt]
  | @cellMoved tab idx hi hc =>
    cases tab with
    | old =>
      have : idx = 0 := by simp [tabLen] at hi; exact hi
      subst this; rfl
    | new =>
      exfalso
      cases idx with
      | zero => exact hnm.1 hc
      | succ n => exact hnm.2 hc
  | cellNode _ _ => rfl
  | waitGo _ => simp [extResP, cdone, doneAt]
  | waitStay _ => rfl
  | checkOk _ => rfl
  | checkFail _ => rfl

theorem LockMove.ext_same {s : State} {t h : Nat} {x : Option Nat} {pc pc' : Pc} (hm : LockMove s t pc h x pc')
    (k : Nat) (p : Pending) : extResP k p pc' = extResP k p pc ∧ ∀ cur, pc' ≠ .rNode cur := by
  cases hm <;> exact ⟨rfl, by intro cur; simp⟩

theorem nm_of_mem {s : State} (h : (mem s).lowCell ≠ .moved ∧ (mem s).highCell ≠ .moved) :
    s.lowCell ≠ .moved ∧ s.highCell ≠ .moved :=
  ⟨fun e => h.1 (by rw [mem_lowCell, e]; rfl), fun e => h.2 (by rw [mem_highCell, e]; rfl)⟩

/-- **every transition preserves the structural and the ghost invariant** -/
theorem ginv_step {k : Nat} {s s' : State} {G : Ghost} {A : Nat → KSt} {pt : Nat → Nat} {t : Nat} {l : Local}
    (g : GInv k s G A pt) (I : Inv s G) (hl : s.threads[t]? = some l) (hstep : StepK s t l s') :
    ∃ G' A' pt', Inv s' G' ∧ GInv k s' G' A' pt' := by
  obtain ⟨G', m, I'⟩ := stepK_inv I hl hstep
  have H := I.heap
  have hAm : A (mem s).now = BinX.absOf (mem s) k := by rw [absOf_mem]; exact g.hA
  have hcar := fun (hnow : s'.now = s.now + 1) =>
    m.carries (k := k) (A := A) (x := absOf s' k) H I'.heap (by rw [mem_now, mem_now]; exact hnow) hAm
  cases hstep with
  | idle hpc =>
    have he : extRes k l = none := by
      cases hq : l.call with
      | none => exact extRes_none_of_call hq
      | some p => rw [extRes_call hq, hpc]; rfl
    exact ⟨G', _, _, I', ginv_same (hnew := []) g I (hcar rfl) hl rfl rfl rfl (by simp)
      (absOf_same rfl rfl rfl rfl rfl k) rfl (by intro p cur _ _ hc; rw [hpc] at hc; cases hc)⟩
  | invoke k' op hpc =>
    refine ⟨G', _, _, I', ginv_quiet (hnew := []) g I (hcar rfl) hl rfl rfl rfl (by simp)
      (absOf_same rfl rfl rfl rfl rfl k) ?_ ?_ ?_⟩
    · cases hq : l.call with
      | none => exact extOf_none_of_call hq
      | some p => exact extOf_none_of_P hq (by rw [hpc]; rfl)
    · exact extOf_none_of_P (p := ⟨k', op, s.now + 1⟩) rfl (by cases isReader op <;> rfl)
    · intro p cur _ _ hc
      cases hr : isReader op <;> simp [hr] at hc
  | clearStart hpc =>
    refine ⟨G', _, _, I', ginv_quiet (hnew := []) g I (hcar rfl) hl rfl rfl rfl (by simp)
      (absOf_same rfl rfl rfl rfl rfl k) ?_ (extOf_none_of_P (p := ⟨0, .cipRm, s.now + 1⟩) rfl rfl)
      (by intro p cur _ _ hc; cases hc)⟩
    cases hq : l.call with
    | none => exact extOf_none_of_call hq
    | some p => exact extOf_none_of_P hq (by rw [hpc]; rfl)
  | cmove p pc' hp hm =>
    refine ⟨G', _, _, I', ginv_same (hnew := []) (l' := { l with pc := pc' }) g I (hcar rfl) hl rfl rfl rfl (by simp)
      (absOf_same rfl rfl rfl rfl rfl k) ?_ ?_⟩
    · rw [extRes_call (l := { l with pc := pc' }) hp, extRes_call hp]
      exact hm.ext_same (nm_of_mem I.nm) k p
    · intro p1 cur _ _ hc
      exfalso
      have := hm.isOp.2.2.2.2.2
      simp only at hc
      rw [hc] at this; exact this
  | cEmpty p tab idx hp hpc hi hc =>
    have habs : absOf (setT (tick s) t { l with pc := .cCell tab (idx + 1) }) k = absOf s k :=
      absOf_same rfl rfl rfl rfl rfl k
    have hpi := I.thr.pendTime t l p hl hp
    by_cases hon : BinX.keyOn (cellIdAt tab idx) k
    · obtain ⟨d1, d2⟩ := doneAt_on hi hon
      have hlive := I.liveCell_of_clear (k := k) hl (by rw [hpc]; exact id) (by rw [hpc]; rfl) (by rw [hc]; simp) hon
      rw [hc] at hlive
      have hnone : absOf s k = none := absOf_of_empty hlive
      have hext : extOf k (s.now + 1) t { l with pc := .cCell tab (idx + 1) } = some ⟨t, .cipRm, .none, p.inv, s.now + 1⟩ := by
        refine extOf_eq_some.2 ⟨_, _, _, ?_, rfl⟩
        rw [extRes_call (l := { l with pc := .cCell tab (idx + 1) }) hp]
        simp [extResP, cdone, d2]
      refine ⟨G', _, _, I', ginv_new (hnew := []) (τ0 := s.now + 1) (c0 := ⟨t, .cipRm, .none, p.inv, s.now + 1⟩)
        g I (hcar rfl) hl hp rfl rfl rfl ?_ ?_ ?_ rfl ?_ (fun _ => rfl) (fun _ => rfl) ?_⟩
      · refine extOf_none_of_P hp ?_
        rw [hpc]; simp [extResP, cdone, d1]
      · rintro c' (⟨ko, hc', -⟩ | hc')
        · cases hc'
        · rw [hext] at hc'; cases hc'; rfl
      · exact mem_callsOnExt.2 (Or.inr ⟨t, _, get_set_self hl, hext⟩)
      · rw [habs, hnone]
        refine ⟨?_, ?_, ?_, ?_⟩
        · show p.inv ≤ updPt pt p.inv (s.now + 1) p.inv
          rw [updPt_self]; omega
        · show updPt pt p.inv (s.now + 1) p.inv ≤ s.now + 1
          rw [updPt_self]; exact Nat.le_refl _
        · intro hr; cases hr
        · show _ → 1 ≤ updPt pt p.inv (s.now + 1) p.inv ∧
            specStep (nextA A s.now none (updPt pt p.inv (s.now + 1) p.inv - 1)) .cipRm =
              (nextA A s.now none (updPt pt p.inv (s.now + 1) p.inv), .none)
          rw [updPt_self]
          intro _
          refine ⟨by omega, ?_⟩
          rw [Nat.add_sub_cancel, nextA_new]
          rfl
      · intro p1 cur _ _ hc1; cases hc1
    · refine ⟨G', _, _, I', ginv_same (hnew := []) (l' := { l with pc := .cCell tab (idx + 1) }) g I (hcar rfl) hl rfl rfl rfl
        (by simp) habs ?_ (by intro p1 cur _ _ hc1; cases hc1)⟩
      rw [extRes_call (l := { l with pc := .cCell tab (idx + 1) }) hp, extRes_call hp, hpc]
      exact extResP_congr (pc := .cCell tab idx) (pc' := .cCell tab (idx + 1)) trivial trivial (doneAt_off hi hon)
  | cFin p tab idx hp hpc hi =>
    have habs : absOf (finishClear (tick s) t p) k = absOf s k := absOf_same rfl rfl rfl rfl rfl k
    have hext : extOf k s.now t l = some ⟨t, .cipRm, .none, p.inv, s.now⟩ := by
      refine extOf_eq_some.2 ⟨_, _, _, ?_, rfl⟩
      rw [extRes_call hp, hpc]
      simp [extResP, cdone, doneAt_fin k hi]
    have hsim : Sim ⟨t, .cipRm, .none, p.inv, s.now⟩ ⟨t, .cipRm, .none, p.inv, s.now + 1⟩ :=
      ⟨rfl, rfl, rfl, rfl, Nat.le_succ _⟩
    have hold : (⟨t, .cipRm, .none, p.inv, s.now⟩ : Call) ∈ callsOnExt s k :=
      mem_callsOnExt.2 (Or.inr ⟨t, l, hl, hext⟩)
    have hnew : (⟨t, .cipRm, .none, p.inv, s.now + 1⟩ : Call) ∈ callsOnExt (finishClear (tick s) t p) k :=
      mem_callsOnExt.2 (Or.inl ⟨none, List.mem_cons_self, Or.inr rfl⟩)
    refine ⟨G', _, _, I', g.frame (i0 := 0) (pt' := pt) I.thr rfl (fun _ _ => rfl) ?_ ?_ (fun hne => absurd habs hne)
      (readers_step (l' := { pc := .idle, call := none }) g I (hcar rfl) rfl ?_)⟩
    · intro c hc
      rcases ext_forward (s' := finishClear (tick s) t p) (l' := { pc := .idle, call := none })
        (hnew := [(none, ⟨t, .cipRm, .none, p.inv, s.now + 1⟩)]) hl rfl rfl rfl c hc with h | h
      · exact h
      · rw [hext] at h; cases h
        exact ⟨_, hnew, hsim⟩
    · intro c' hc'
      rcases ext_backward (s := s) (l' := { pc := .idle, call := none })
        (hnew := [(none, ⟨t, .cipRm, .none, p.inv, s.now + 1⟩)]) rfl rfl rfl c' hc' with h | h | h
      · exact Or.inl h
      · obtain ⟨ko, h1, -⟩ := h
        have := (mem_singleton_key h1).2; subst this
        exact Or.inl ⟨_, hold, hsim⟩
      · rw [extOf_none_of_call rfl] at h; cases h
    · intro p1 cur hc1; cases hc1
  | cStore p tab idx h hp hpc =>
    obtain ⟨act, -, habs0, -⟩ := cstore_mem (l' := { l with pc := .cUnlock tab idx h false }) I hl hpc
    obtain ⟨f1, f2, f3, f4, f5, f6⟩ := setCellAt_frame (tick s) tab idx .empty
    have hop := I.thr.opOK t l p hl hp
    rw [hpc] at hop
    have hi := hop.2
    have hpi := I.thr.pendTime t l p hl hp
    have hthr : (setT { setCellAt (tick s) tab idx .empty with
        retired := chainFrom s.heap s.heap.length (some h) ++ (setCellAt (tick s) tab idx .empty).retired } t
        { l with pc := .cUnlock tab idx h false }).threads = s.threads.set t { l with pc := .cUnlock tab idx h false } := by
      show (setCellAt (tick s) tab idx .empty).threads.set t _ = _; rw [f2]; rfl
    have hnow : (setT { setCellAt (tick s) tab idx .empty with
        retired := chainFrom s.heap s.heap.length (some h) ++ (setCellAt (tick s) tab idx .empty).retired } t
        { l with pc := .cUnlock tab idx h false }).now = s.now + 1 := by
      show (setCellAt (tick s) tab idx .empty).now = _; rw [f4]; rfl
    have hhist : (setT { setCellAt (tick s) tab idx .empty with
        retired := chainFrom s.heap s.heap.length (some h) ++ (setCellAt (tick s) tab idx .empty).retired } t
        { l with pc := .cUnlock tab idx h false }).hist = [] ++ s.hist := by
      show (setCellAt (tick s) tab idx .empty).hist = _; rw [f3]; rfl
    have habs := habs0 k
    rw [absOf_mem, absOf_mem] at habs
    by_cases hon : BinX.keyOn (cellIdAt tab idx) k
    · obtain ⟨d1, d2⟩ := doneAt_on hi hon
      rw [if_pos (H.liveId_of_active act hon)] at habs
      have hext : extOf k (s.now + 1) t { l with pc := .cUnlock tab idx h false } = some ⟨t, .cipRm, .none, p.inv, s.now + 1⟩ := by
        refine extOf_eq_some.2 ⟨_, _, _, ?_, rfl⟩
        rw [extRes_call (l := { l with pc := .cUnlock tab idx h false }) hp]
        simp [extResP, cdone, d2]
      refine ⟨G', _, _, I', ginv_new (hnew := []) (τ0 := s.now + 1) (c0 := ⟨t, .cipRm, .none, p.inv, s.now + 1⟩)
        g I (hcar hnow) hl hp hthr hnow hhist ?_ ?_ ?_ rfl ?_ (fun _ => rfl) (fun _ => rfl) ?_⟩
      · refine extOf_none_of_P hp ?_
        rw [hpc]; simp [extResP, cdone, d1]
      · rintro c' (⟨ko, hc', -⟩ | hc')
        · cases hc'
        · rw [hext] at hc'; cases hc'; rfl
      · exact mem_callsOnExt.2 (Or.inr ⟨t, _, by rw [hthr]; exact get_set_self hl, by rw [hnow]; exact hext⟩)
      · rw [habs]
        refine ⟨?_, ?_, ?_, ?_⟩
        · show p.inv ≤ updPt pt p.inv (s.now + 1) p.inv
          rw [updPt_self]; omega
        · show updPt pt p.inv (s.now + 1) p.inv ≤ s.now + 1
          rw [updPt_self]; exact Nat.le_refl _
        · intro hr; cases hr
        · show _ → 1 ≤ updPt pt p.inv (s.now + 1) p.inv ∧
            specStep (nextA A s.now none (updPt pt p.inv (s.now + 1) p.inv - 1)) .cipRm =
              (nextA A s.now none (updPt pt p.inv (s.now + 1) p.inv), .none)
          rw [updPt_self]
          intro _
          refine ⟨by omega, ?_⟩
          rw [Nat.add_sub_cancel, nextA_new]
          rfl
      · intro p1 cur _ _ hc1; cases hc1
    · rw [if_neg (H.liveId_ne_of_active act hon)] at habs
      refine ⟨G', _, _, I', ginv_same (hnew := []) (l' := { l with pc := .cUnlock tab idx h false }) g I (hcar hnow) hl hthr hnow hhist
        (by simp) habs ?_ (by intro p1 cur _ _ hc1; cases hc1)⟩
      rw [extRes_call (l := { l with pc := .cUnlock tab idx h false }) hp, extRes_call hp, hpc]
      exact extResP_congr (pc := .cStore tab idx h) (pc' := .cUnlock tab idx h false) trivial trivial (doneAt_off hi hon)
  | resize hpc hr =>
    refine ⟨G', _, _, I', ginv_same (hnew := []) (l' := { l with pc := .tCell }) g I (hcar rfl) hl rfl rfl rfl (by simp)
      (absOf_same rfl rfl rfl rfl rfl k) ?_ (by intro p cur _ _ hc; cases hc)⟩
    cases hq : l.call with
    | none => rw [extRes_none_of_call hq]; rfl
    | some p => rw [extRes_call hq, hpc]; rfl
  | move p pc' hp hm =>
    refine ⟨G', _, _, I', ginv_quiet (hnew := []) g I (hcar rfl) hl rfl rfl rfl (by simp)
      (absOf_same rfl rfl rfl rfl rfl k)
      (extOf_none_of_P hp (hm.not_ext k).1) (extOf_none_of_P (l := { l with pc := pc' }) hp (hm.not_ext k).2) ?_⟩
    intro p1 cur hc1 hk1 hpc1
    simp only at hc1 hpc1
    have hpp : p1 = p := by rw [hp] at hc1; exact (Option.some.inj hc1).symm
    subst hpp
    have hpi := I.thr.pendTime t l p1 hl hp
    refine ⟨hpi, ?_⟩
    rcases hm.good hpc1 with ⟨tab, h, hpc, hcell, rfl⟩ | ⟨c, n, hpc, hn, hne, rfl⟩
    · have hlive := I.liveCell_of_tab (k := p1.key) hl (by rw [hpc]; exact id) (by rw [hpc]; rfl)
        (by rw [hcell]; simp)
      rw [hcell, hk1] at hlive
      exact BinX.Good.cell H (by rw [liveCell_mem, hlive]; rfl)
    · have hnode := nodeAt_mem_of_some hn
      have := (g.readers t l p1 (some c) hl hp hk1 hpc).next H hAm hpi (by rw [hnode]; exact fun e => hne (e.trans hk1.symm))
      rw [hnode] at this
      exact this
  | tmove pc' hp hm =>
    exact ⟨G', _, _, I', ginv_quiet_nocall g I (hcar rfl) hl rfl rfl rfl (absOf_same rfl rfl rfl rfl rfl k) hp hp⟩
  | lockMove p h x pc' hp hm =>
    have hheap : (mem (setT (setNode (tick s) h (fun m => { m with lock := x })) t { l with pc := pc' })).heap =
        (mem s).heap.modify h (fun m => { m with lock := x }) := mem_lock_heap (tick s) h x
    have habs : absOf (setT (setNode (tick s) h (fun m => { m with lock := x })) t { l with pc := pc' }) k = absOf s k := by
      rw [← absOf_mem, ← absOf_mem]
      exact (BinX.lock_effect H hheap rfl rfl rfl rfl).2.2.2.1 k
    refine ⟨G', _, _, I', ginv_same (hnew := []) (l' := { l with pc := pc' }) g I (hcar rfl) hl rfl rfl rfl (by simp)
      habs ?_ ?_⟩
    · rw [extRes_call (l := { l with pc := pc' }) hp, extRes_call hp]
      exact (hm.ext_same k p).1
    · intro p1 cur _ _ hpc1
      exact absurd hpc1 ((hm.ext_same k p).2 cur)
  | tlockMove h x pc' hp hm =>
    have hheap : (mem (setT (setNode (tick s) h (fun m => { m with lock := x })) t { l with pc := pc' })).heap =
        (mem s).heap.modify h (fun m => { m with lock := x }) := mem_lock_heap (tick s) h x
    have habs : absOf (setT (setNode (tick s) h (fun m => { m with lock := x })) t { l with pc := pc' }) k = absOf s k := by
      rw [← absOf_mem, ← absOf_mem]
      exact (BinX.lock_effect H hheap rfl rfl rfl rfl).2.2.2.1 k
    exact ⟨G', _, _, I', ginv_quiet_nocall (l' := { l with pc := pc' }) g I (hcar rfl) hl rfl rfl rfl habs hp hp⟩
  | fin p res hp hf =>
    have habs : ∀ k, absOf (finish (tick s) t p res) k = absOf s k := absOf_same rfl rfl rfl rfl rfl
    by_cases hk : p.key = k
    · obtain ⟨τ0, h1, h2, h3, h4⟩ := fin_point g I hl hp hk hf
      refine ⟨G', _, _, I', ginv_new (hnew := [(some p.key, ⟨t, p.op, res, p.inv, s.now + 1⟩)]) (τ0 := τ0)
        (c0 := ⟨t, p.op, res, p.inv, s.now + 1⟩) g I (hcar rfl) hl hp rfl rfl rfl
        (extOf_none_of_P hp (hf.not_ext k)) ?_ ?_ rfl ?_ ?_ ?_ ?_⟩
      · rintro c' (⟨ko, hc', -⟩ | hc')
        · exact (mem_singleton_key hc').2
        · rw [extOf_none_of_call rfl] at hc'; cases hc'
      · exact mem_callsOnExt.2 (Or.inl ⟨some p.key, List.mem_cons_self, Or.inl (by rw [hk])⟩)
      · rw [habs k]
        refine ⟨?_, ?_, ?_, ?_⟩
        · show p.inv ≤ updPt pt p.inv τ0 p.inv
          rw [updPt_self]; exact h1
        · show updPt pt p.inv τ0 p.inv ≤ s.now + 1
          rw [updPt_self]; exact h2
        · show isRead p.op = true → specStep (nextA A s.now (absOf s k) (updPt pt p.inv τ0 p.inv)) p.op = (_, res)
          rw [updPt_self]; exact h3
        · show isRead p.op = false → 1 ≤ updPt pt p.inv τ0 p.inv ∧
            specStep (nextA A s.now (absOf s k) (updPt pt p.inv τ0 p.inv - 1)) p.op = (nextA A s.now (absOf s k) (updPt pt p.inv τ0 p.inv), res)
          rw [updPt_self]
          intro hw
          obtain ⟨rfl, h5⟩ := h4 hw
          exact ⟨by omega, by rw [Nat.add_sub_cancel]; exact h5⟩
      · intro hw; exact (h4 hw).1
      · intro hne; exact absurd (habs k) hne
      · intro p1 cur hc1; cases hc1
    · refine ⟨G', _, _, I', ginv_quiet (hnew := [(some p.key, ⟨t, p.op, res, p.inv, s.now + 1⟩)]) g I (hcar rfl) hl rfl rfl rfl
        ?_ (habs k) (extOf_none_of_P hp (hf.not_ext k)) (extOf_none_of_call rfl) ?_⟩
      · intro ko c hc hko
        have := (mem_singleton_key hc).1
        subst this
        rcases hko with h | h
        · exact hk (Option.some.inj h)
        · cases h
      · intro p1 cur hc1; cases hc1
  | cas p tab v vi hp hpc hc hop =>
    obtain ⟨act, -, habs0, hc'⟩ := cas_mem (v := v) (vi := vi) I hl hpc hc
    obtain ⟨f1, f2, f3, f4, f5, f6⟩ := setCell_frame { tick s with heap := s.heap ++ [⟨p.key, (v, vi), none, none⟩] }
      tab p.key (.node s.heap.length)
    have habs : ∀ k, absOf (finish (setCell { tick s with heap := s.heap ++ [⟨p.key, (v, vi), none, none⟩] }
        tab p.key (.node s.heap.length)) t p .none) k = if p.key = k then some (v, vi) else absOf s k := by
      intro k; rw [← absOf_mem, ← absOf_mem]; exact habs0 k
    have hthr : (finish (setCell { tick s with heap := s.heap ++ [⟨p.key, (v, vi), none, none⟩] }
        tab p.key (.node s.heap.length)) t p .none).threads = s.threads.set t { pc := .idle, call := none } := by
      show (setCell _ tab p.key _).threads.set t _ = _; rw [f2]; rfl
    have hnow : (finish (setCell { tick s with heap := s.heap ++ [⟨p.key, (v, vi), none, none⟩] }
        tab p.key (.node s.heap.length)) t p .none).now = s.now + 1 := by
      show (setCell _ tab p.key _).now = _; rw [f4]; rfl
    have hhist : (finish (setCell { tick s with heap := s.heap ++ [⟨p.key, (v, vi), none, none⟩] }
        tab p.key (.node s.heap.length)) t p .none).hist = [(some p.key, ⟨t, p.op, .none, p.inv, s.now + 1⟩)] ++ s.hist := by
      show _ :: (setCell _ tab p.key _).hist = _; rw [f3, f4]; rfl
    have hwr : isRead p.op = false := by
      rw [← isReader_eq_isRead]; rcases hop with h | h <;> rw [h] <;> rfl
    have hpi := I.thr.pendTime t l p hl hp
    have hext0 : extOf k s.now t l = none := extOf_none_of_P hp (by rw [hpc]; rfl)
    by_cases hk : p.key = k
    · have hnone : absOf s k = none := by
        have hlive := I.liveCell_of_tab (k := p.key) hl (by rw [hpc]; exact id) (by rw [hpc]; rfl)
          (by rw [hc]; simp)
        rw [hc] at hlive
        rw [← hk]; exact absOf_of_empty hlive
      refine ⟨G', _, _, I', ginv_new (hnew := [(some p.key, ⟨t, p.op, .none, p.inv, s.now + 1⟩)]) (τ0 := s.now + 1)
        (c0 := ⟨t, p.op, .none, p.inv, s.now + 1⟩) g I (hcar hnow) hl hp hthr hnow hhist
        hext0 ?_ ?_ rfl ?_ (fun _ => rfl) (fun _ => hwr) ?_⟩
      · rintro c' (⟨ko, hc', -⟩ | hc')
        · exact (mem_singleton_key hc').2
        · rw [extOf_none_of_call rfl] at hc'; cases hc'
      · refine mem_callsOnExt.2 (Or.inl ⟨some p.key, ?_, Or.inl (by rw [hk])⟩)
        rw [hhist]; exact List.mem_cons_self
      · rw [habs k, if_pos hk]
        refine ⟨?_, ?_, ?_, ?_⟩
        · show p.inv ≤ updPt pt p.inv (s.now + 1) p.inv
          rw [updPt_self]; omega
        · show updPt pt p.inv (s.now + 1) p.inv ≤ s.now + 1
          rw [updPt_self]; exact Nat.le_refl _
        · intro hr; rw [hwr] at hr; cases hr
        · show isRead p.op = false → 1 ≤ updPt pt p.inv (s.now + 1) p.inv ∧
            specStep (nextA A s.now (some (v, vi)) (updPt pt p.inv (s.now + 1) p.inv - 1)) p.op =
              (nextA A s.now (some (v, vi)) (updPt pt p.inv (s.now + 1) p.inv), .none)
          rw [updPt_self]
          intro _
          refine ⟨by omega, ?_⟩
          rw [Nat.add_sub_cancel, nextA_old (Nat.le_refl _), nextA_new, g.hA, hnone]
          rcases hop with hop | hop <;> rw [hop] <;> rfl
      · intro p1 cur hc1; cases hc1
    · refine ⟨G', _, _, I', ginv_quiet (hnew := [(some p.key, ⟨t, p.op, .none, p.inv, s.now + 1⟩)]) g I (hcar hnow) hl hthr hnow hhist
        ?_ (by rw [habs k, if_neg hk]) hext0 (extOf_none_of_call rfl) ?_⟩
      · intro ko c hc hko
        have := (mem_singleton_key hc).1
        subst this
        rcases hko with h | h
        · exact hk (Option.some.inj h)
        · cases h
      · intro p1 cur hc1; cases hc1
  | store p tab h pred hit hnext hp hpc =>
    obtain ⟨act, -, hspec0, hother0, -⟩ := store_mem (l' := { l with pc := .wUnlock tab h (storeAt (tick s) tab p pred hit hnext).2 false }) I hl hp hpc
    obtain ⟨hthr, hhist, hnow, hres, -⟩ := storeAt_frame (tick s) tab p pred hit hnext
    obtain ⟨r1, r2, r3, r4⟩ := retireHit_frame (storeAt (tick s) tab p pred hit hnext).1 p.op hit
    have hop := I.thr.opOK t l p hl hp
    rw [hpc] at hop
    have hwr : isRead p.op = false := by rw [← isReader_eq_isRead]; exact hop
    have hpi := I.thr.pendTime t l p hl hp
    have hthr' : (setT (retireHit (storeAt (tick s) tab p pred hit hnext).1 p.op hit) t
        { l with pc := .wUnlock tab h (storeAt (tick s) tab p pred hit hnext).2 false }).threads =
        s.threads.set t { l with pc := .wUnlock tab h (storeAt (tick s) tab p pred hit hnext).2 false } := by
      show (retireHit _ _ _).threads.set t _ = _
      rw [r1, hthr]; rfl
    have hnow' : (setT (retireHit (storeAt (tick s) tab p pred hit hnext).1 p.op hit) t
        { l with pc := .wUnlock tab h (storeAt (tick s) tab p pred hit hnext).2 false }).now = s.now + 1 := by
      show (retireHit _ _ _).now = _
      rw [r3, hnow]; rfl
    have hhist' : (setT (retireHit (storeAt (tick s) tab p pred hit hnext).1 p.op hit) t
        { l with pc := .wUnlock tab h (storeAt (tick s) tab p pred hit hnext).2 false }).hist = [] ++ s.hist := by
      show (retireHit _ _ _).hist = _
      rw [r2, hhist]; rfl
    have hspec := hspec0
    rw [absOf_mem, absOf_mem] at hspec
    have hext0 : extOf k s.now t l = none := extOf_none_of_P hp (by rw [hpc]; rfl)
    by_cases hk : p.key = k
    · have hext : extOf k (s.now + 1) t { l with pc := .wUnlock tab h (storeAt (tick s) tab p pred hit hnext).2 false } =
          some ⟨t, p.op, (storeAt (tick s) tab p pred hit hnext).2, p.inv, s.now + 1⟩ := by
        refine extOf_eq_some.2 ⟨_, _, _, ?_, rfl⟩
        rw [extRes_call (l := { l with pc := .wUnlock tab h (storeAt (tick s) tab p pred hit hnext).2 false }) hp]
        simp [extResP, hk]
      refine ⟨G', _, _, I', ginv_new (hnew := []) (τ0 := s.now + 1)
        (c0 := ⟨t, p.op, (storeAt (tick s) tab p pred hit hnext).2, p.inv, s.now + 1⟩) g I (hcar hnow') hl hp hthr' hnow' hhist'
        hext0 ?_ ?_ rfl ?_ (fun _ => rfl) (fun _ => hwr) ?_⟩
      · rintro c' (⟨ko, hc', -⟩ | hc')
        · cases hc'
        · rw [hext] at hc'; cases hc'; rfl
      · refine mem_callsOnExt.2 (Or.inr ⟨t, { l with pc := .wUnlock tab h (storeAt (tick s) tab p pred hit hnext).2 false }, ?_, ?_⟩)
        · rw [hthr']; exact get_set_self hl
        · rw [hnow']; exact hext
      · refine ⟨?_, ?_, ?_, ?_⟩
        · show p.inv ≤ updPt pt p.inv (s.now + 1) p.inv
          rw [updPt_self]; omega
        · show updPt pt p.inv (s.now + 1) p.inv ≤ s.now + 1
          rw [updPt_self]; exact Nat.le_refl _
        · intro hr; rw [hwr] at hr; cases hr
        · show isRead p.op = false → 1 ≤ updPt pt p.inv (s.now + 1) p.inv ∧
            specStep (nextA A s.now _ (updPt pt p.inv (s.now + 1) p.inv - 1)) p.op =
              (nextA A s.now _ (updPt pt p.inv (s.now + 1) p.inv), (storeAt (tick s) tab p pred hit hnext).2)
          rw [updPt_self]
          intro _
          refine ⟨by omega, ?_⟩
          rw [Nat.add_sub_cancel, nextA_old (Nat.le_refl _), nextA_new, g.hA, ← hk]
          exact hspec
      · intro p1 cur _ _ hc1; cases hc1
    · have hother := hother0 k (fun h => hk h.symm)
      rw [absOf_mem, absOf_mem] at hother
      refine ⟨G', _, _, I', ginv_quiet (hnew := []) g I (hcar hnow') hl hthr' hnow' hhist' (by simp)
        hother hext0 ?_ ?_⟩
      · refine extOf_none_of_P (l := { l with pc := .wUnlock tab h (storeAt (tick s) tab p pred hit hnext).2 false }) hp ?_
        simp [extResP, hk]
      · intro p1 cur _ _ hc1; cases hc1
  | unlockFin p tab h res hp hpc =>
    have hheap : (mem (finish (setNode (tick s) h (fun m => { m with lock := none })) t p res)).heap =
        (mem s).heap.modify h (fun m => { m with lock := none }) := mem_lock_heap (tick s) h none
    have habs : ∀ k, absOf (finish (setNode (tick s) h (fun m => { m with lock := none })) t p res) k = absOf s k := by
      intro k
      rw [← absOf_mem, ← absOf_mem]
      exact (BinX.lock_effect H hheap rfl rfl rfl rfl).2.2.2.1 k
    by_cases hk : p.key = k
    · have hext : extOf k s.now t l = some ⟨t, p.op, res, p.inv, s.now⟩ := by
        refine extOf_eq_some.2 ⟨_, _, _, ?_, rfl⟩
        rw [extRes_call hp, hpc]
        simp [extResP, hk]
      have hsim : Sim ⟨t, p.op, res, p.inv, s.now⟩ ⟨t, p.op, res, p.inv, s.now + 1⟩ :=
        ⟨rfl, rfl, rfl, rfl, Nat.le_succ _⟩
      have hold : (⟨t, p.op, res, p.inv, s.now⟩ : Call) ∈ callsOnExt s k :=
        mem_callsOnExt.2 (Or.inr ⟨t, l, hl, hext⟩)
      have hnew : (⟨t, p.op, res, p.inv, s.now + 1⟩ : Call) ∈
          callsOnExt (finish (setNode (tick s) h (fun m => { m with lock := none })) t p res) k :=
        mem_callsOnExt.2 (Or.inl ⟨some p.key, List.mem_cons_self, Or.inl (by rw [hk])⟩)
      refine ⟨G', _, _, I', g.frame (i0 := 0) (pt' := pt) I.thr rfl (fun _ _ => rfl) ?_ ?_ (fun hne => absurd (habs k) hne)
        (readers_step (l' := { pc := .idle, call := none }) g I (hcar rfl) rfl ?_)⟩
      · intro c hc
        rcases ext_forward (s' := finish (setNode (tick s) h (fun m => { m with lock := none })) t p res)
          (l' := { pc := .idle, call := none })
          (hnew := [(some p.key, ⟨t, p.op, res, p.inv, s.now + 1⟩)]) hl rfl rfl rfl c hc with h | h
        · exact h
        · rw [hext] at h; cases h
          exact ⟨_, hnew, hsim⟩
      · intro c' hc'
        rcases ext_backward (s := s) (l' := { pc := .idle, call := none })
          (hnew := [(some p.key, ⟨t, p.op, res, p.inv, s.now + 1⟩)]) rfl rfl rfl c' hc' with h | h | h
        · exact Or.inl h
        · obtain ⟨ko, h1, -⟩ := h
          have := (mem_singleton_key h1).2; subst this
          exact Or.inl ⟨_, hold, hsim⟩
        · rw [extOf_none_of_call rfl] at h; cases h
      · intro p1 cur hc1; cases hc1
    · refine ⟨G', _, _, I', ginv_quiet (hnew := [(some p.key, ⟨t, p.op, res, p.inv, s.now + 1⟩)])
        (l' := { pc := .idle, call := none }) g I (hcar rfl) hl rfl rfl rfl
        ?_ (habs k) ?_ (extOf_none_of_call rfl) ?_⟩
      · intro ko c hc hko
        have := (mem_singleton_key hc).1
        subst this
        rcases hko with h | h
        · exact hk (Option.some.inj h)
        · cases h
      · refine extOf_none_of_P hp ?_
        rw [hpc]; simp [extResP, hk]
      · intro p1 cur hc1; cases hc1
  | casMoved hp hpc hc =>
    have hph := I.ph.pcPh t l hl
    rw [hpc] at hph
    have habs : absOf { (setT (tick s) t { l with pc := .tCommit }) with cell0 := .moved } k = absOf s k := by
      rw [← absOf_mem, ← absOf_mem]
      exact (BinX.casMoved_effect (s' := mem { (setT (tick s) t { l with pc := .tCommit }) with cell0 := .moved })
        H hph (show (mem s).cell0 = .empty by rw [mem_cell0, hc]; rfl) rfl rfl rfl rfl rfl).2.2 k
    exact ⟨G', _, _, I', ginv_quiet_nocall (l' := { l with pc := .tCommit }) g I (hcar rfl) hl rfl rfl rfl habs hp hp⟩
  | build h hp hpc =>
    have hph := I.ph.pcPh t l hl
    rw [hpc] at hph
    have hv : vcell l = some (.c0, h) := vcell_t (Or.inl hpc)
    obtain ⟨hc, -⟩ := I.lock.validated t l _ h hl hv
    have hcf : BinX.chainFrom (mem s).heap (mem s).heap.length (some h) = chainFrom s.heap s.heap.length (some h) := by
      rw [mem_heap, List.length_map, chainFrom_map]
    have hsb : BinX.splitBin (mem s).heap (BinX.chainFrom (mem s).heap (mem s).heap.length (some h)) =
        ((splitBin s.heap (chainFrom s.heap s.heap.length (some h))).1.map cN, (splitBin s.heap (chainFrom s.heap s.heap.length (some h))).2) := by
      rw [hcf, mem_heap, splitBin_mem]
    have hheap : (mem (setT { tick s with heap := (splitBin s.heap (chainFrom s.heap s.heap.length (some h))).1 } t { l with pc := .tStoreLow h (splitBin s.heap (chainFrom s.heap s.heap.length (some h))).2.1 (splitBin s.heap (chainFrom s.heap s.heap.length (some h))).2.2 })).heap =
        (BinX.splitBin (mem s).heap (BinX.chainFrom (mem s).heap (mem s).heap.length (some h))).1 := by
      rw [hsb]; rfl
    have habs : absOf (setT { tick s with heap := (splitBin s.heap (chainFrom s.heap s.heap.length (some h))).1 } t { l with pc := .tStoreLow h (splitBin s.heap (chainFrom s.heap s.heap.length (some h))).2.1 (splitBin s.heap (chainFrom s.heap s.heap.length (some h))).2.2 }) k = absOf s k := by
      rw [← absOf_mem, ← absOf_mem]
      exact (BinX.build_effect (s' := mem (setT { tick s with heap := (splitBin s.heap (chainFrom s.heap s.heap.length (some h))).1 } t { l with pc := .tStoreLow h (splitBin s.heap (chainFrom s.heap s.heap.length (some h))).2.1 (splitBin s.heap (chainFrom s.heap s.heap.length (some h))).2.2 }))
        H hph hc hheap rfl rfl rfl rfl).2.2.1 k
    exact ⟨G', _, _, I', ginv_quiet_nocall (l' := { l with pc := .tStoreLow h _ _ }) g I (hcar rfl) hl rfl rfl rfl habs hp hp⟩
  | storeLow h lo hg hp hpc =>
    have hph := I.ph.pcPh t l hl
    rw [hpc] at hph
    have hcl : cC (cellOfHead lo) = BinX.cellOfHead lo := by cases lo <;> rfl
    have habs : absOf { (setT (tick s) t { l with pc := .tStoreHigh h hg }) with lowCell := cellOfHead lo } k = absOf s k := by
      rw [← absOf_mem, ← absOf_mem]
      exact (BinX.storeNew_effect (s' := mem { (setT (tick s) t { l with pc := .tStoreHigh h hg }) with lowCell := cellOfHead lo })
        H hph.1 rfl rfl (Or.inr ⟨hph.2.1, hcl⟩) (Or.inl rfl) rfl).2.2 k
    exact ⟨G', _, _, I', ginv_quiet_nocall (l' := { l with pc := .tStoreHigh h hg }) g I (hcar rfl) hl rfl rfl rfl habs hp hp⟩
  | storeHigh h hg hp hpc =>
    have hph := I.ph.pcPh t l hl
    rw [hpc] at hph
    obtain ⟨lo, h1, h2, h3⟩ := hph
    have hcl : cC (cellOfHead hg) = BinX.cellOfHead hg := by cases hg <;> rfl
    have habs : absOf { (setT (tick s) t { l with pc := .tStoreMoved h }) with highCell := cellOfHead hg } k = absOf s k := by
      rw [← absOf_mem, ← absOf_mem]
      exact (BinX.storeNew_effect (s' := mem { (setT (tick s) t { l with pc := .tStoreMoved h }) with highCell := cellOfHead hg })
        H h1 rfl rfl (Or.inl rfl) (Or.inr ⟨h3, hcl⟩) rfl).2.2 k
    exact ⟨G', _, _, I', ginv_quiet_nocall (l' := { l with pc := .tStoreMoved h }) g I (hcar rfl) hl rfl rfl rfl habs hp hp⟩
  | storeMoved h hp hpc =>
    have hph := I.ph.pcPh t l hl
    rw [hpc] at hph
    obtain ⟨lo, hg, h1, h2, h3⟩ := hph
    have habs : absOf { (setT (tick s) t { l with pc := .tUnlock h }) with cell0 := .moved, retired := copiedOf s h ++ s.retired } k = absOf s k := by
      rw [← absOf_mem, ← absOf_mem]
      exact (BinX.moved_effect (s' := mem { (setT (tick s) t { l with pc := .tUnlock h }) with cell0 := .moved, retired := copiedOf s h ++ s.retired })
        H h1 h2 h3 rfl rfl rfl rfl rfl).2 k
    exact ⟨G', _, _, I', ginv_quiet_nocall (l' := { l with pc := .tUnlock h }) g I (hcar rfl) hl rfl rfl rfl habs hp hp⟩
  | commit hp hpc =>
    have hph := I.ph.pcPh t l hl
    rw [hpc] at hph
    have habs : absOf { (setT (tick s) t { l with pc := .idle }) with cur := .new } k = absOf s k := by
      rw [← absOf_mem, ← absOf_mem]
      exact (BinX.commit_effect (s' := mem { (setT (tick s) t { l with pc := .idle }) with cur := .new })
        H hph rfl rfl rfl rfl).2.2 k
    exact ⟨G', _, _, I', ginv_quiet_nocall (l' := { l with pc := .idle }) g I (hcar rfl) hl rfl rfl rfl habs hp hp⟩

end Flurry.Proto.BinXC
