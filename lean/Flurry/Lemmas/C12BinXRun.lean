import Flurry.Lemmas.C12BinX
/-! # C12 for a list bin under resize: a reader's step is always enabled and makes progress (Proto/BinX)

`mu s pc` bounds the number of steps a reader at `pc` still takes when it runs alone from `s`:
load the table pointer, load the old cell, at most **one** forwarding hop (the new cells never hold
the marker, `RInv`), load the new cell, then one step per node of the chain it stands on, which is
finite and acyclic (`NextOK`: `next` strictly increases the rank `ord` — also through the copies a
transfer in progress has made and through the re-used last run) and therefore no longer than the
heap; one last step at the end of the chain. -/
namespace Flurry.Proto.BinX
open Flurry.Lin

/-- the number of nodes a walk that starts at `st` visits -/
def walkLen (heap : List NodeS) (st : Option Nat) : Nat := (chainFrom heap heap.length st).length

theorem walk_isChain {cr : CR} {heap : List NodeS} (hok : NextOK cr heap) {st : Option Nat}
    (hst : ∀ i, st = some i → i < heap.length) : IsChain heap st (chainFrom heap heap.length st) := by
  have h := chainH_isChain hok (c := cellOfHead st) (by
    intro h e
    cases st with
    | none => cases e
    | some i => cases e; exact hst _ rfl)
  unfold chainH at h
  rw [cellHead_cellOfHead] at h
  exact h

theorem walkLen_none (heap : List NodeS) : walkLen heap none = 0 := by
  unfold walkLen; cases heap.length <;> rfl

theorem walkLen_le {cr : CR} {heap : List NodeS} (hok : NextOK cr heap) {st : Option Nat}
    (hst : ∀ i, st = some i → i < heap.length) : walkLen heap st ≤ heap.length := by
  have h := walk_isChain hok hst
  exact length_le_of_nodup_lt (h.nodup hok) h.lt_length

/-- one `next` hop shortens the walk by one node -/
theorem walkLen_step {cr : CR} {heap : List NodeS} (hok : NextOK cr heap) {c : Nat} {n : NodeS}
    (hn : heap[c]? = some n) : walkLen heap (some c) = walkLen heap n.next + 1 := by
  have hc : c < heap.length := (List.getElem?_eq_some_iff.1 hn).1
  have h := walk_isChain hok (st := some c) (by intro i e; cases e; exact hc)
  have hlen := length_le_of_nodup_lt (h.nodup hok) h.lt_length
  unfold walkLen
  cases hL : chainFrom heap heap.length (some c) with
  | nil => rw [hL] at h; cases h
  | cons a l' =>
    rw [hL] at h hlen
    obtain ⟨ha, n', hn', hs⟩ := IsSeg.cons_iff.1 h
    cases ha
    rw [hn] at hn'
    cases hn'
    rw [chainFrom_eq_of_isChain hs (by simp only [List.length_cons] at hlen; omega)]
    rfl

/-- an upper bound on the number of own steps a reader at `pc` still needs in `s` -/
def mu (s : State) : Pc → Nat
  | .rTable => s.heap.length + 4
  | .rCell .old => s.heap.length + 3
  | .rCell .new => s.heap.length + 2
  | .rNode st => walkLen s.heap st + 1
  | _ => 0

/-- the bound of C12 for a list bin under resize: an explicit function of the heap size only -/
def soloBound (s : State) : Nat := s.heap.length + 4

theorem mu_congr {s s1 : State} (h : s1.heap = s.heap) (pc : Pc) : mu s1 pc = mu s pc := by
  cases pc with
  | rCell tab => cases tab <;> simp only [mu, h]
  | _ => simp only [mu, h]

theorem mu_pos {s : State} {pc : Pc} (hr : readerPc pc = true) : 0 < mu s pc := by
  cases pc with
  | rCell tab => cases tab <;> simp only [mu] <;> omega
  | rTable | rNode _ => simp only [mu] <;> omega
  | _ => cases hr

/-- the result of one step of a reader `t` (call `p`, at `pc`) from `s`: it has returned, or it is at
a reader pc with a smaller measure; the history is untouched unless it returned -/
def Outcome (s : State) (t : Nat) (p : Pending) (pc : Pc) (s' : State) : Prop :=
  (s'.threads[t]? = some { pc := .idle, call := none } ∧
    ∃ res, s'.hist = (p.key, { tid := t, op := p.op, res := res, inv := p.inv, resp := s.now + 1 }) :: s.hist) ∨
  (∃ pc', s'.threads[t]? = some { pc := pc', call := some p } ∧ readerPc pc' = true ∧ s'.hist = s.hist ∧
    mu s' pc' < mu s pc)

theorem Outcome.fin {s s1 : State} {t : Nat} {l : Local} {p : Pending} {pc : Pc} (hl : s.threads[t]? = some l)
    (ht : s1.threads = s.threads) (hh : s1.hist = s.hist) (hn : s1.now = s.now + 1) (res : KRes) :
    Outcome s t p pc (finish s1 t p res) := by
  left
  refine ⟨?_, res, ?_⟩
  · show (s1.threads.set t _)[t]? = _
    rw [ht]; exact get_set_self hl
  · show (p.key, _) :: s1.hist = _
    rw [hh, hn]

theorem Outcome.move {s s1 : State} {t : Nat} {l : Local} {p : Pending} {pc : Pc} (hl : s.threads[t]? = some l)
    (pc' : Pc) (ht : s1.threads = s.threads.set t { pc := pc', call := some p }) (hh : s1.hist = s.hist)
    (hr : readerPc pc' = true) (hheap : s1.heap = s.heap) (hmu : mu s pc' < mu s pc) : Outcome s t p pc s1 := by
  right
  refine ⟨pc', ?_, hr, hh, by rw [mu_congr hheap]; exact hmu⟩
  rw [ht]; exact get_set_self hl

/-- **one step of a reader**: enabled, and it returns or gets closer to returning — in every reachable
state, for every choice of the scheduler's arguments -/
theorem reader_step {n : Nat} {s : State} (hr : Reachable n s) {t : Nat} {l : Local}
    (hl : s.threads[t]? = some l) (hrd : readerPc l.pc = true) (inv : Option (Nat × KOp)) (rz : Bool) :
    ∃ p s', l.call = some p ∧ step s t inv rz = some s' ∧ Outcome s t p l.pc s' := by
  obtain ⟨g, I⟩ := reachable_inv hr
  have R := reachable_rinv hr
  have hb := R.bound t l
  have hcs : l.call.isSome = true := (I.thr.callOK t l hl).1 (by
    obtain ⟨pc, call⟩ := l
    cases pc <;> first | trivial | cases hrd)
  obtain ⟨pc, call⟩ := l
  cases call with
  | none => cases hcs
  | some p =>
  suffices h : ∃ s', stepG true s t inv rz = some s' ∧ Outcome s t p pc s' by
    obtain ⟨s', h1, h2⟩ := h
    exact ⟨p, s', rfl, h1, h2⟩
  unfold stepG
  rw [hl]
  cases pc with
  | rTable =>
    refine ⟨_, rfl, ?_⟩
    refine Outcome.move hl (.rCell s.cur) rfl rfl rfl rfl ?_
    show mu s (.rCell s.cur) < s.heap.length + 4
    cases s.cur <;> simp only [mu] <;> omega
  | rCell tab =>
    have hcell : cellOf { s with now := s.now + 1 } tab p.key = cellOf s tab p.key := by cases tab <;> rfl
    dsimp only
    rw [hcell]
    cases hc : cellOf s tab p.key with
    | empty => exact ⟨_, rfl, Outcome.fin (s1 := { s with now := s.now + 1 }) hl rfl rfl rfl _⟩
    | moved =>
      refine ⟨_, rfl, ?_⟩
      refine Outcome.move hl (.rCell .new) rfl rfl rfl rfl ?_
      cases tab with
      | old => simp only [mu]; omega
      | new =>
        exfalso
        unfold cellOf at hc
        dsimp only at hc
        split at hc
        · exact R.highNM hc
        · exact R.lowNM hc
    | node h =>
      refine ⟨_, rfl, ?_⟩
      refine Outcome.move hl (.rNode (some h)) rfl rfl rfl rfl ?_
      have hh : h < s.heap.length := by
        rw [cellOf_eq] at hc
        exact I.heap.headOK _ _ hc
      have := walkLen_le I.heap.nextOK (st := some h) (by intro i e; cases e; exact hh)
      show walkLen s.heap (some h) + 1 < mu s (.rCell tab)
      cases tab <;> simp only [mu] <;> omega
  | rNode cur =>
    cases cur with
    | none => exact ⟨_, rfl, Outcome.fin (s1 := { s with now := s.now + 1 }) hl rfl rfl rfl _⟩
    | some c =>
      have hc : c < s.heap.length := hb c hl rfl
      have hn : s.heap[c]? = some s.heap[c] := List.getElem?_eq_getElem hc
      dsimp only
      rw [hn]
      dsimp only
      by_cases hk : (s.heap[c].key == p.key) = true
      · rw [if_pos hk]
        exact ⟨_, rfl, Outcome.fin (s1 := { s with now := s.now + 1 }) hl rfl rfl rfl _⟩
      · rw [if_neg hk]
        refine ⟨_, rfl, ?_⟩
        refine Outcome.move hl (.rNode s.heap[c].next) rfl rfl rfl rfl ?_
        show walkLen s.heap s.heap[c].next + 1 < walkLen s.heap (some c) + 1
        rw [walkLen_step I.heap.nextOK hn]
        omega
  | _ => cases hrd

theorem mu_le_soloBound {n : Nat} {s : State} (hr : Reachable n s) {t : Nat} {l : Local}
    (hl : s.threads[t]? = some l) : mu s l.pc ≤ soloBound s := by
  obtain ⟨g, I⟩ := reachable_inv hr
  have R := reachable_rinv hr
  unfold soloBound
  obtain ⟨pc, call⟩ := l
  cases pc with
  | rCell tab => cases tab <;> simp only [mu] <;> omega
  | rNode cur =>
    have := walkLen_le I.heap.nextOK (st := cur) (by intro i e; exact R.bound t _ i hl (by rw [e]))
    simp only [mu]; omega
  | _ => simp only [mu] <;> omega

end Flurry.Proto.BinX
