import Flurry.Lemmas.BinChain
import Flurry.Lemmas.BinBasic
import Flurry.Lemmas.BinStep
import Flurry.Lemmas.BinInv
import Flurry.Lemmas.BinLock
import Flurry.Lemmas.BinGhost
import Flurry.Lemmas.BinLin
/-! # Proto/Bin lemmas: summary (main theorems in `Props/C01Bin.lean`)

* `BinChain.lean`: `NextOK`, `IsSeg`/`IsChain`, `chainFrom_isChain`, `IsSeg.sorted`, `IsSeg.succ_none`,
  `IsSeg.succ_some`, `isChain_append_node`, `isChain_unlink`, `predOf_head`, `predOf_mid`
* `BinBasic.lean`: `HInv` (next pointers go up, head valid, keys on the chain distinct),
  `absOf_eq_some_iff`, `absOf_eq_none_iff`, `HeapStep` (unlinked nodes are frozen and never return,
  at most one node is unlinked per step), the surgeries `swap_absOf`, `append_last`, `append_empty`,
  `unlink_store`, **`writerStore_spec`** (`StoreOK`)
* `BinStep.lean`: `StepK` (the transitions in normal form), `step_stepK`
* `BinInv.lean`: `TInv` (pc fits the operation, times, invocation times identify calls),
  `stepK_heap`, `stepK_tinv`, `Inv`, **`reachable_inv`**
* `BinLock.lean`: `LInv`, `reachable_linv`, **`writers_mutex`**, `writer_validated`
* `BinGhost.lean`: `callsOnExt`, `Good` (hindsight justification of a reader), **`Good.step`**,
  `Good.head`, `Good.next`, `Good.hit`, `Good.miss`, `CallOK`, `GInv`, `GInv.frame`
* `BinLin.lean`: `ginv_quiet`, `ginv_new`, `fin_point`, **`ginv_step`** -/
