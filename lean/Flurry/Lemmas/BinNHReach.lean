import Flurry.Lemmas.BinNHInv
/-! # Proto/BinNH: the invariant of the helper model holds in every reachable state -/
namespace Flurry.Proto.BinNH
open Flurry.Lin
open Flurry.Proto.BinX (NodeS Cell Pending isReader dflt chainFrom cellHead cellOfHead get_set get_set_self get_set_ne
  cellOfHead_ne_moved)
open Flurry.Proto.BinN (cellAt cellOf putCell setNode allMoved splitBinB bitAt lockAt LockSame GenInv ThrOK isT
  Holds vcell genOfPc cellT StepK tick setT finish)

/-- a reader's / writer's transition -/
theorem inv_rw {s : State} {t : Nat} {n' : BinN.State} (I : Inv s) (hh : s.hs[t]? = some none)
    (G' : GenInv n') (E : RWEff s.n t n') : Inv { s with n := n' } := by
  obtain ⟨l', hthr, hT⟩ := E.thr
  refine ⟨G', ?_, ?_, ?_, ?_⟩
  · intro t1 l1 h1
    have h1 : (s.n.threads.set t l')[t1]? = some l1 := by rw [← hthr]; exact h1
    rcases get_set h1 with ⟨-, e⟩ | ⟨-, h1⟩
    · rw [e]; exact hT
    · exact I.noT t1 l1 h1
  · show s.hs.length = n'.threads.length
    rw [hthr, List.length_set]; exact I.len
  · intro t1 hp l1 h0 h1
    have h0 : s.hs[t1]? = some (some hp) := h0
    have h1 : (s.n.threads.set t l')[t1]? = some l1 := by rw [← hthr]; exact h1
    rcases get_set h1 with ⟨e, -⟩ | ⟨-, h1⟩
    · rw [e, hh] at h0; cases h0
    · exact I.hidle t1 hp l1 h0 h1
  · intro t1 hp h0
    have h0 : s.hs[t1]? = some (some hp) := h0
    have ne : t1 ≠ t := by rintro rfl; rw [hh] at h0; cases h0
    exact (I.hok t1 hp h0).of_rwEff E ne

theorem lock_none_of_not_isSome {nd : NodeS} (h : ¬ nd.lock.isSome = true) : nd.lock = none := by
  cases e : nd.lock with
  | none => rfl
  | some x => rw [e] at h; exact absurd rfl h

/-- no writer holds a validated lock on a child of a cell that is not forwarded -/
theorem no_writer_on_child {s : State} (I : Inv s) {j j' : Nat} (hnm : cellAt s.n s.n.cur j ≠ .moved)
    (hpar : j' % 2 ^ s.n.cur = j) :
    ∀ (t1 : Nat) (l1 : BinN.Local) (h : Nat), s.n.threads[t1]? = some l1 → vcell s.n.cur l1 ≠ some (s.n.cur + 1, j', h) := by
  intro t1 l1 h h1 hv
  obtain ⟨p, hp, hg, hj⟩ := BinN.vcell_writer hv (I.noT t1 l1 h1)
  have := ((I.gen.thr t1 l1 h1).gen p _ hp hg).2 rfl
  apply hnm
  rw [← hpar, hj, BinN.mod_succ_mod]
  exact this

theorem helperStep_inv {s s' : State} {t : Nat} {l : BinN.Local} {hp : Helper} {leave : Bool} {pick : Nat} (I : Inv s)
    (hl : s.n.threads[t]? = some l) (hh : s.hs[t]? = some (some hp))
    (hs : helperStep true s t hp.g hp.pc leave pick = some s') : Inv s' := by
  have H := I.hok t hp hh
  have hidl := I.hidle t hp l hh hl
  have hidle : ∀ l' : BinN.Local, s.n.threads[t]? = some l' → l'.pc = .idle :=
    fun l' h' => by rw [hl] at h'; cases h'; exact hidl
  obtain ⟨g, pc⟩ := hp
  have G := I.gen
  unfold helperStep at hs
  cases pc with
  | next =>
    simp only at hs
    split at hs
    · cases hs; exact inv_pc I hidle (fun hp e => by cases e)
    · rename_i hval
      split at hs
      · cases hs; exact inv_pc I hidle (fun hp e => by cases e)
      · have hg : g = s.n.cur := by
          by_cases e : g = s.n.cur
          · exact e
          · exact absurd (Or.inl e) hval
        split at hs
        · rename_i hall
          cases hs
          refine inv_pc I hidle ?_
          intro hp e; cases e
          refine ⟨H.gle, H.res, fun j h => (by cases h), fun h hh => hh.elim, fun j h hv => (by cases hv), ?_⟩
          intro _ _ j hj
          subst hg
          exact (geninv_tick G).of_allMoved hall j hj
        · cases hs
          refine inv_pc I hidle ?_
          intro hp e; cases e
          refine ⟨H.gle, H.res, ?_, fun h hh => hh.elim, fun j h hv => (by cases hv), fun h => (by cases h)⟩
          intro j hj
          cases hj
          exact BinN.mod_lt_pow _ _
  | cell j =>
    have hj : j < 2 ^ g := H.idx j rfl
    simp only at hs
    split at hs <;> cases hs <;> refine inv_pc I hidle ?_ <;> intro hp e <;> cases e
    · exact ⟨H.gle, H.res, fun j' h => (by cases h; exact hj), fun h hh => hh.elim, fun j h hv => (by cases hv),
        fun h => (by cases h)⟩
    · exact ⟨H.gle, H.res, fun j' h => (by cases h; exact hj), fun h hh => hh.elim, fun j h hv => (by cases hv),
        fun h => (by cases h)⟩
    · exact ⟨H.gle, H.res, fun j' h => (by cases h), fun h hh => hh.elim, fun j h hv => (by cases hv),
        fun h => (by cases h)⟩
  | casMoved j =>
    have hj : j < 2 ^ g := H.idx j rfl
    simp only at hs
    split at hs
    · rename_i hc
      have hc' : cellAt (tickN s.n) g j = .empty := by simpa using hc
      have hc : cellAt s.n g j = .empty := hc'
      cases hs
      have hg : g = s.n.cur := by
        have : ¬ g < s.n.cur := fun hlt => by
          have := G.old g j hlt hj
          rw [hc] at this; cases this
        have : g ≤ s.n.cur := H.gle
        omega
      refine inv_put I hl hidl (Or.inr rfl) (fun _ => ⟨hg, H.res hg⟩) ?_ ?_ ?_
      · intro t1 l1 h _ h1
        exact BinN.no_vcell_of_not_node G (by rw [hc]; simp) t1 l1 h h1
      · intro t1 hp h _ _ _ hcell
        rw [hc] at hcell; cases hcell
      · intro hp e; cases e
        exact ⟨H.gle, H.res, fun j' h => (by cases h), fun h hh => hh.elim, fun j h hv => (by cases hv),
          fun h => (by cases h)⟩
    · cases hs
      refine inv_pc I hidle ?_
      intro hp e; cases e
      exact ⟨H.gle, H.res, fun j' h => (by cases h; exact hj), fun h hh => hh.elim, fun j h hv => (by cases hv),
        fun h => (by cases h)⟩
  | lock j h =>
    have hj : j < 2 ^ g := H.idx j rfl
    simp only at hs
    split at hs
    · cases hs
    · rename_i nd hn
      have hn : s.n.heap[h]? = some nd := hn
      split at hs
      · cases hs
      · rename_i hfree
        cases hs
        have hlen : h < s.n.heap.length := (List.getElem?_eq_some_iff.1 hn).1
        refine inv_lockmod I hidle (Or.inl (by rw [BinN.lockAt_of_some hn]; exact lock_none_of_not_isSome hfree)) ?_
        intro hp e; cases e
        refine ⟨H.gle, H.res, fun j' h => (by cases h; exact hj), ?_, fun j h hv => (by cases hv), fun h => (by cases h)⟩
        intro h' hh'
        cases hh'
        exact ⟨by show h < (s.n.heap.modify _ _).length; simpa using hlen, BinN.lockAt_modify_self _ hlen⟩
  | check j h =>
    have hj : j < 2 ^ g := H.idx j rfl
    simp only [Bool.not_true, Bool.false_or] at hs
    split at hs
    · rename_i hc
      have hc' : cellAt (tickN s.n) g j = .node h := by simpa using hc
      have hc : cellAt s.n g j = .node h := hc'
      cases hs
      refine inv_pc I hidle ?_
      intro hp e; cases e
      refine ⟨H.gle, H.res, fun j' h => (by cases h; exact hj), fun h' hh' => H.held h' hh', ?_, fun h => (by cases h)⟩
      intro j' h' hv
      simp only [hvalid, Option.some.injEq, Prod.mk.injEq] at hv
      obtain ⟨rfl, rfl⟩ := hv
      exact hc
    · cases hs
      refine inv_lockmod I hidle (Or.inr (H.held h rfl).2) ?_
      intro hp e; cases e
      exact ⟨H.gle, H.res, fun j' h => (by cases h; exact hj), fun h hh => hh.elim, fun j h hv => (by cases hv),
        fun h => (by cases h)⟩
  | build j h =>
    have hj : j < 2 ^ g := H.idx j rfl
    have hheld := H.held h rfl
    have hcell : cellAt s.n g j = .node h := H.valid j h rfl
    simp only [Option.some.injEq] at hs
    subst hs
    have ls : LockSame s.n.heap (splitBinB (bitAt g) (tickN s.n).heap
        (chainFrom (tickN s.n).heap (tickN s.n).heap.length (some h))).1 :=
      BinN.splitBinB_lockSame (bitAt g) s.n.heap (chainFrom s.n.heap s.n.heap.length (some h))
    refine inv_heap I hidle ls ?_
    intro hp e; cases e
    refine ⟨H.gle, H.res, fun j' h => (by cases h; exact hj), ?_, ?_, fun h => (by cases h)⟩
    · intro h' hh'; cases hh'
      exact ⟨by have := ls.1; show h < (splitBinB _ _ _).1.length; omega, by
        show lockAt (splitBinB _ _ _).1 h = _; rw [ls.2 h hheld.1]; exact hheld.2⟩
    · intro j' h' hv
      simp only [hvalid, Option.some.injEq, Prod.mk.injEq] at hv
      obtain ⟨rfl, rfl⟩ := hv
      exact hcell
  | storeLow j h lo hg =>
    have hj : j < 2 ^ g := H.idx j rfl
    have hcell : cellAt s.n g j = .node h := H.valid j h rfl
    obtain ⟨hgc, R⟩ := H.valid_cur G (j := j) (h := h) rfl
    have hgc : g = s.n.cur := hgc
    simp only [Option.some.injEq] at hs
    subst hs
    subst hgc
    have hnm : cellAt s.n s.n.cur j ≠ .moved := by rw [hcell]; simp
    refine inv_put I hl hidl (Or.inl (G.nextOK j)) (fun h => absurd h (cellOfHead_ne_moved lo)) ?_ ?_ ?_
    · intro t1 l1 h' _ h1
      exact no_writer_on_child I hnm (Nat.mod_eq_of_lt hj) t1 l1 h' h1
    · intro t1 hp h' _ hh1 e
      have := (I.hok t1 hp hh1).gle
      omega
    · intro hp e; cases e
      refine ⟨H.gle, H.res, fun j' h => (by cases h; exact hj), fun h' hh' => H.held h' hh', ?_, fun h => (by cases h)⟩
      intro j' h' hv
      simp only [hvalid, Option.some.injEq, Prod.mk.injEq] at hv
      obtain ⟨rfl, rfl⟩ := hv
      show cellT (s.n.tabs.modify (s.n.cur + 1) _) s.n.cur j = _
      rw [BinN.cellT_put_ne _ _ (by intro ⟨h1, _⟩; omega)]
      exact hcell
  | storeHigh j h hg =>
    have hj : j < 2 ^ g := H.idx j rfl
    have hcell : cellAt s.n g j = .node h := H.valid j h rfl
    obtain ⟨hgc, R⟩ := H.valid_cur G (j := j) (h := h) rfl
    have hgc : g = s.n.cur := hgc
    simp only [Option.some.injEq] at hs
    subst hs
    subst hgc
    have hnm : cellAt s.n s.n.cur j ≠ .moved := by rw [hcell]; simp
    refine inv_put I hl hidl (Or.inl (G.nextOK _)) (fun h => absurd h (cellOfHead_ne_moved hg)) ?_ ?_ ?_
    · intro t1 l1 h' _ h1
      exact no_writer_on_child I hnm (BinN.high_mod j s.n.cur hj) t1 l1 h' h1
    · intro t1 hp h' _ hh1 e
      have := (I.hok t1 hp hh1).gle
      omega
    · intro hp e; cases e
      refine ⟨H.gle, H.res, fun j' h => (by cases h; exact hj), fun h' hh' => H.held h' hh', ?_, fun h => (by cases h)⟩
      intro j' h' hv
      simp only [hvalid, Option.some.injEq, Prod.mk.injEq] at hv
      obtain ⟨rfl, rfl⟩ := hv
      show cellT (s.n.tabs.modify (s.n.cur + 1) _) s.n.cur j = _
      rw [BinN.cellT_put_ne _ _ (by intro ⟨h1, _⟩; omega)]
      exact hcell
  | storeMoved j h =>
    have hj : j < 2 ^ g := H.idx j rfl
    have hcell : cellAt s.n g j = .node h := H.valid j h rfl
    have hheld := H.held h rfl
    obtain ⟨hgc, R⟩ := H.valid_cur G (j := j) (h := h) rfl
    have hgc : g = s.n.cur := hgc
    simp only [Option.some.injEq] at hs
    subst hs
    refine inv_put I hl hidl (Or.inr rfl) (fun _ => ⟨hgc, R⟩) ?_ ?_ ?_
    · intro t1 l1 h' ne h1 hv
      obtain ⟨c1, hh1⟩ := (G.thr t1 l1 h1).valid _ _ _ hv
      rw [hcell] at c1
      cases c1
      have := ((G.thr t1 l1 h1).held h hh1).2
      rw [hheld.2] at this
      exact ne (Option.some.inj this).symm
    · intro t1 hp h' ne _ _ c1 hlk
      rw [hcell] at c1
      cases c1
      rw [hheld.2] at hlk
      exact ne (Option.some.inj hlk).symm
    · intro hp e; cases e
      exact ⟨H.gle, H.res, fun j' h => (by cases h; exact hj), fun h' hh' => H.held h' hh', fun j h hv => (by cases hv),
        fun h => (by cases h)⟩
  | unlock j h =>
    simp only [Option.some.injEq] at hs
    subst hs
    refine inv_lockmod I hidle (Or.inr (H.held h rfl).2) ?_
    intro hp e; cases e
    exact ⟨H.gle, H.res, fun j' h => (by cases h), fun h hh => hh.elim, fun j h hv => (by cases hv),
      fun h => (by cases h)⟩
  | commit =>
    simp only at hs
    split at hs
    · rename_i hc
      cases hs
      exact inv_commit I hidle hc.2 (H.commit rfl hc.1)
    · cases hs; exact inv_pc I hidle (fun hp e => by cases e)

theorem step_inv {s s' : State} {t : Nat} {inv : Option (Nat × KOp)} {rz leave : Bool} {pick : Nat} (I : Inv s)
    (hs : step s t inv rz leave pick = some s') : Inv s' := by
  unfold step stepG at hs
  cases hl : s.n.threads[t]? with
  | none => rw [hl] at hs; simp only at hs; cases hs
  | some l =>
    cases hh : s.hs[t]? with
    | none => rw [hl, hh] at hs; simp only at hs; cases hs
    | some ho =>
      rw [hl, hh] at hs
      cases ho with
      | some hp => exact helperStep_inv I hl hh hs
      | none =>
        simp only at hs
        have hidle : l.pc = .idle → ∀ l' : BinN.Local, s.n.threads[t]? = some l' → l'.pc = .idle :=
          fun hi l' h' => by rw [hl] at h'; cases h'; exact hi
        have hset : s.hs.set t none = s.hs := set_self_of_get hh
        split at hs
        · rename_i hi
          split at hs
          · split at hs
            · rename_i R
              cases hs
              refine inv_pc I (hidle hi) ?_
              intro hp e; cases e
              exact ⟨Nat.le_refl _, fun _ => R, fun j h => (by cases h), fun h hh => hh.elim, fun j h hv => (by cases hv),
                fun h => (by cases h)⟩
            · rename_i R
              cases hs
              have R' : (tickN s.n).resizing = false := by simpa using R
              exact inv_alloc I (hidle hi) R'
          · split at hs
            · cases hs
              have := inv_pc (ho := none) I (hidle hi) (fun hp e => by cases e)
              unfold setH at this
              rw [hset] at this
              exact this
            · rename_i k op
              cases hs
              obtain ⟨pc, call⟩ := l
              simp only at hi; subst hi
              have K : StepK s.n t ⟨.idle, call⟩ 0 _ := StepK.invoke k op rfl
              refine inv_rw I hh (BinN.stepK_geninv I.gen hl K) ?_
              refine rwEff_of rfl rfl (LockSame.refl _) rfl rfl ?_
              cases isReader op <;> exact fun h => h
        · rename_i hni
          cases hn : BinN.stepG true s.n t none false 0 with
          | none => rw [hn] at hs; cases hs
          | some n' =>
            rw [hn] at hs
            cases hs
            have K := BinN.step_stepK hl (show BinN.step s.n t none false 0 = some n' from hn)
            exact inv_rw I hh (BinN.stepK_geninv I.gen hl K) (stepK_rwEff I.gen hl hni (I.noT t l hl) K)

theorem init_inv (n : Nat) : Inv (init n) := by
  refine ⟨BinN.init_geninv n, ?_, ?_, ?_, ?_⟩
  · intro t l h1
    have : l = {} := List.eq_of_mem_replicate (List.mem_of_getElem? h1)
    rw [this]; exact fun h => h
  · show (List.replicate n none).length = (List.replicate n _).length
    simp
  · intro t hp l h0
    have := List.eq_of_mem_replicate (List.mem_of_getElem? (show (List.replicate n none)[t]? = some (some hp) from h0))
    cases this
  · intro t hp h0
    have := List.eq_of_mem_replicate (List.mem_of_getElem? (show (List.replicate n none)[t]? = some (some hp) from h0))
    cases this

theorem reachable_inv {n : Nat} {s : State} (hr : Reachable n s) : Inv s := by
  induction hr with
  | init => exact init_inv n
  | step t inv rz leave pick _ hs ih => exact step_inv ih hs

end Flurry.Proto.BinNH
