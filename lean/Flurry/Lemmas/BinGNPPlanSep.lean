import Flurry.Lemmas.BinGNPInvQ
import Flurry.Lemmas.BinGNPInvW
import Flurry.Lemmas.BinGNFresh
/-! # Proto/BinGN (port): a planned `TreeBin` of a transfer is in no cell but the cell under transfer and its children

`planSep_of`: `PlanSep s` from `Inv s` and the model-level invariant `BinGN.FreshInv s` (fresh planned `TreeBin`s are
in no cell: `Lemmas/BinGNFresh.lean`); hence `PubRead s` (`pubRead_of_planSep`): a `TreeBin` loaded from the cell of
the thread's key is not an unpublished one. -/
namespace Flurry.Proto.BinGNP
open Flurry.Lin

/-- the acting resizing thread is the only one: a `Reusing` witness is the thread itself -/
theorem reusing_self {s : State} (I : Inv s) {t : Nat} {l : Local} (hl : s.threads[t]? = some l) (hx : xPc l.pc = true)
    {b j0 : Nat} (h : Reusing s b j0) :
    (∃ hi, l.pc = .xStoreHigh j0 (.inr b) hi) ∨ l.pc = .xStoreMoved j0 (.inr b) := by
  obtain ⟨t', l', hl', hpc⟩ := h
  have hx' : xPc l'.pc = true := by
    rcases hpc with ⟨hi, e⟩ | e <;> rw [e] <;> rfl
  have := I.rsz.uniqX t' t l' l hl' hl hx' hx
  subst this
  rw [hl] at hl'; cases hl'
  exact hpc

theorem child_cases {g j x : Nat} (hj : j < 2 ^ g) (hx : x < 2 ^ (g + 1)) (hm : x % 2 ^ g = j) :
    x = j ∨ x = j + 2 ^ g := by
  have hp : 2 ^ (g + 1) = 2 ^ g + 2 ^ g := by rw [Nat.pow_succ]; omega
  by_cases h : x < 2 ^ g
  · left; rw [Nat.mod_eq_of_lt h] at hm; exact hm
  · right
    have h1 : x - 2 ^ g < 2 ^ g := by omega
    have h2 : x = (x - 2 ^ g) + 2 ^ g := by omega
    rw [h2, Nat.add_mod_right, Nat.mod_eq_of_lt h1] at hm
    omega

/-- every cell that holds `b` is the cell `(cur, j)` or a child, given that one of them does and `b` is only shared
through `Reusing` by the thread `t` itself -/
theorem sep_of_cell {s : State} (I : Inv s) {t : Nat} {l : Local} (hl : s.threads[t]? = some l) (hx : xPc l.pc = true)
    {j b : Nat} (hj : j < 2 ^ s.cur) (hidx : ∀ j0, Reusing s b j0 → j0 = j) {id0 : Cid}
    (h0 : id0 = (s.cur, j) ∨ id0 = (s.cur + 1, j) ∨ id0 = (s.cur + 1, j + 2 ^ s.cur))
    (hc0 : cellAt s id0 = .tree b) (id : Cid) (hc : cellAt s id = .tree b) :
    id = (s.cur, j) ∨ id = (s.cur + 1, j) ∨ id = (s.cur + 1, j + 2 ^ s.cur) := by
  rcases I.heap.binsDistinct id id0 b hc hc0 with e | ⟨j0, hr, hcase⟩
  · rw [e]; exact h0
  · have e0 := hidx j0 hr
    subst e0
    rcases hcase with ⟨e1, -, -⟩ | ⟨-, e2, e3⟩
    · exact Or.inl e1
    · have hlt := I.rsz.lt_of_tree hc
      obtain ⟨g, x⟩ := id
      simp only at e2 e3 hlt
      subst e2
      rcases child_cases hj hlt e3 with rfl | rfl
      · exact Or.inr (Or.inl rfl)
      · exact Or.inr (Or.inr rfl)

theorem planSep_of {s : State} (I : Inv s) (F : Flurry.Proto.BinGN.FreshInv s) : PlanSep s := by
  intro t l j b hl hx hmem id hid
  have hjlt := I.rsz.idx t l j hl hx
  have hxp : xPc l.pc = true := xPc_of_xIdx hx
  have hcid : cidOf s l = (s.cur, j) := InvW.cidOf_of_xIdx hx
  -- a fresh bin is in no cell
  have hfresh : b ∈ Flurry.Proto.BinGN.freshB l.pc → False := fun hb =>
    F.noCell t l b hl hb id.1 id.2 hid
  obtain ⟨pc, call⟩ := l
  cases pc <;> simp only [xIdx, Option.some.injEq, reduceCtorEq] at hx
  all_goals subst hx
  all_goals simp only [pend, List.mem_cons, List.not_mem_nil, or_false] at hmem
  case xStoreLow j unl lo hi =>
    by_cases e : unl = .inr b
    · subst e
      have hv := I.lock.vT t _ b hl rfl
      rw [hcid] at hv
      refine sep_of_cell I hl hxp hjlt ?_ (Or.inl rfl) hv id hid
      intro j0 hr
      rcases reusing_self I hl hxp hr with ⟨hi', e⟩ | e <;> cases e
    · exfalso
      apply hfresh
      simp only [Flurry.Proto.BinGN.freshB, List.mem_filter, List.mem_append, Flurry.Proto.BinGN.mem_binsOf,
        decide_eq_true_eq, ne_eq]
      refine ⟨?_, e⟩
      rcases hmem with h | h
      · exact Or.inl h.symm
      · exact Or.inr h.symm
  case xStoreHigh j unl hi =>
    have hidx : ∀ j0, Reusing s b j0 → j0 = j := by
      intro j0 hr
      rcases reusing_self I hl hxp hr with ⟨hi', e⟩ | e
      · cases e; rfl
      · cases e
    rcases hmem with h | h
    · exact sep_of_cell I hl hxp hjlt hidx (Or.inr (Or.inl rfl)) h.symm id hid
    · by_cases e : unl = .inr b
      · subst e
        have hv := I.lock.vT t _ b hl rfl
        rw [hcid] at hv
        exact sep_of_cell I hl hxp hjlt hidx (Or.inl rfl) hv id hid
      · exfalso
        apply hfresh
        simp only [Flurry.Proto.BinGN.freshB, List.mem_filter, Flurry.Proto.BinGN.mem_binsOf,
          decide_eq_true_eq, ne_eq]
        exact ⟨h.symm, e⟩
  case xStoreMoved j unl =>
    have hidx : ∀ j0, Reusing s b j0 → j0 = j := by
      intro j0 hr
      rcases reusing_self I hl hxp hr with ⟨hi', e⟩ | e
      · cases e
      · cases e; rfl
    rcases hmem with h | h
    · exact sep_of_cell I hl hxp hjlt hidx (Or.inr (Or.inl rfl)) h.symm id hid
    · exact sep_of_cell I hl hxp hjlt hidx (Or.inr (Or.inr rfl)) h.symm id hid

/-- a `TreeBin` loaded from the cell of the thread's key is not an unpublished one -/
theorem pubRead_of {s : State} (I : Inv s) (F : Flurry.Proto.BinGN.FreshInv s) : PubRead s :=
  pubRead_of_planSep I (planSep_of I F)

end Flurry.Proto.BinGNP
