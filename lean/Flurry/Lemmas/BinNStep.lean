import Flurry.Proto.BinN
/-! # Proto/BinN: the transitions in normal form (C01, C08, C10)

`StepK s t l s'` lists the possible transitions of thread `t` (with local state `l`) with explicit
successor states, grouped by their effect on the shared memory; `step_stepK` dissects `step` once
and for all (as `Lemmas/BinXStep.lean` does for `Proto/BinX`). -/
namespace Flurry.Proto.BinN
open Flurry.Lin
open Flurry.Proto.BinX (NodeS Cell Pending isReader dflt chainFrom cellHead cellOfHead)

/-- the state with the clock advanced -/
def tick (s : State) : State := { s with now := s.now + 1 }

def insLike (op : KOp) : Prop := ∃ v vi, op = .ins v vi ∨ op = .tryIns v vi

/-- transitions of a thread with a call in flight that only change its program counter -/
inductive Move (s : State) (p : Pending) : Pc → Pc → Prop
  | rTable : Move s p .rTable (.rCell s.cur)
  | rCellMoved {g : Nat} : cellOf s g p.key = .moved → Move s p (.rCell g) (.rCell (g + 1))
  | rCellNode {g : Nat} {h : Nat} : cellOf s g p.key = .node h → Move s p (.rCell g) (.rNode (some h))
  | rNext {c : Nat} {n : NodeS} : s.heap[c]? = some n → n.key ≠ p.key →
      Move s p (.rNode (some c)) (.rNode n.next)
  | wTable : Move s p .wTable (.wCell s.cur)
  | wCellEmpty {g : Nat} : cellOf s g p.key = .empty → insLike p.op → Move s p (.wCell g) (.wCas g)
  | wCellMoved {g : Nat} : cellOf s g p.key = .moved → Move s p (.wCell g) (.wCell (g + 1))
  | wCellNode {g : Nat} {h : Nat} : cellOf s g p.key = .node h → Move s p (.wCell g) (.wLock g h)
  | casFail {g : Nat} : Move s p (.wCas g) (.wCell g)
  | checkOk {g : Nat} {h : Nat} : cellOf s g p.key = .node h →
      Move s p (.wCheck g h) (.wFind g h none (some h))
  | checkFail {g : Nat} {h : Nat} : cellOf s g p.key ≠ .node h →
      Move s p (.wCheck g h) (.wUnlock g h .none true)
  | findEnd {g : Nat} {h : Nat} {pred : Option Nat} :
      Move s p (.wFind g h pred none) (.wStore g h pred none none)
  | findHit {g : Nat} {h : Nat} {pred : Option Nat} {c : Nat} {n : NodeS} :
      s.heap[c]? = some n → n.key = p.key →
      Move s p (.wFind g h pred (some c)) (.wStore g h pred (some c) n.next)
  | findNext {g : Nat} {h : Nat} {pred : Option Nat} {c : Nat} {n : NodeS} :
      s.heap[c]? = some n → n.key ≠ p.key →
      Move s p (.wFind g h pred (some c)) (.wFind g h (some c) n.next)

/-- transitions of the resizing thread that only change its program counter -/
inductive TMove (s : State) (pick : Nat) : Pc → Pc → Prop
  | nextDone : allMoved s s.cur = true → TMove s pick .tNext .tCommit
  | nextPick : allMoved s s.cur = false → TMove s pick .tNext (.tCell (pick % 2 ^ s.cur))
  | cellEmpty {j : Nat} : cellAt s s.cur j = .empty → TMove s pick (.tCell j) (.tCasMoved j)
  | cellNode {j h : Nat} : cellAt s s.cur j = .node h → TMove s pick (.tCell j) (.tLock j h)
  | cellMoved {j : Nat} : cellAt s s.cur j = .moved → TMove s pick (.tCell j) .tNext
  | casFail {j : Nat} : cellAt s s.cur j ≠ .empty → TMove s pick (.tCasMoved j) (.tCell j)
  | checkOk {j h : Nat} : cellAt s s.cur j = .node h → TMove s pick (.tCheck j h) (.tBuild j h)

/-- transitions of a writer that change the lock word of node `h` to `x` -/
inductive LockMove (s : State) (t : Nat) : Pc → Nat → Option Nat → Pc → Prop
  | lock {g : Nat} {h : Nat} {n : NodeS} : s.heap[h]? = some n → n.lock = none →
      LockMove s t (.wLock g h) h (some t) (.wCheck g h)
  | unlockRetry {g : Nat} {h : Nat} {res : KRes} : LockMove s t (.wUnlock g h res true) h none (.wCell g)

/-- transitions of the resizing thread that change the lock word of node `h` to `x` -/
inductive TLockMove (s : State) (t : Nat) : Pc → Nat → Option Nat → Pc → Prop
  | lock {j h : Nat} {n : NodeS} : s.heap[h]? = some n → n.lock = none →
      TLockMove s t (.tLock j h) h (some t) (.tCheck j h)
  | checkFail {j h : Nat} : cellAt s s.cur j ≠ .node h → TLockMove s t (.tCheck j h) h none (.tCell j)
  | unlock {j h : Nat} : TLockMove s t (.tUnlock j h) h none .tNext

def missRes (op : KOp) : KRes := match op with | .has => .bool false | _ => .none
def hitRes (op : KOp) (n : NodeS) : KRes := match op with | .has => .bool true | _ => .some n.val.1 n.val.2

/-- calls that complete without a store of their own -/
inductive Fin (s : State) (p : Pending) : Pc → KRes → Prop
  | rEmpty {g : Nat} : cellOf s g p.key = .empty → Fin s p (.rCell g) (missRes p.op)
  | miss : Fin s p (.rNode none) (missRes p.op)
  | hit {c : Nat} {n : NodeS} : s.heap[c]? = some n → n.key = p.key →
      Fin s p (.rNode (some c)) (hitRes p.op n)
  | wEmpty {g : Nat} : cellOf s g p.key = .empty → ¬ insLike p.op → Fin s p (.wCell g) .none

inductive StepK (s : State) (t : Nat) (l : Local) (pick : Nat) : State → Prop
  | idle : l.pc = .idle → StepK s t l pick (setT (tick s) t l)
  | invoke (k : Nat) (op : KOp) : l.pc = .idle →
      StepK s t l pick (setT (tick s) t
        { pc := if isReader op then .rTable else .wTable, call := some ⟨k, op, s.now + 1⟩ })
  /-- an idle thread starts the resize of generation `cur`: it allocates generation `cur + 1` -/
  | resize : l.pc = .idle → s.resizing = false →
      StepK s t l pick { (setT (tick s) t { l with pc := .tNext }) with
        resizing := true, tabs := s.tabs ++ [List.replicate (2 ^ (s.cur + 1)) .empty] }
  | move (p : Pending) (pc' : Pc) : l.call = some p → Move s p l.pc pc' →
      StepK s t l pick (setT (tick s) t { l with pc := pc' })
  | tmove (pc' : Pc) : l.call = none → TMove s pick l.pc pc' →
      StepK s t l pick (setT (tick s) t { l with pc := pc' })
  | lockMove (p : Pending) (h : Nat) (x : Option Nat) (pc' : Pc) : l.call = some p → LockMove s t l.pc h x pc' →
      StepK s t l pick (setT (setNode (tick s) h (fun m => { m with lock := x })) t { l with pc := pc' })
  | tlockMove (h : Nat) (x : Option Nat) (pc' : Pc) : l.call = none → TLockMove s t l.pc h x pc' →
      StepK s t l pick (setT (setNode (tick s) h (fun m => { m with lock := x })) t { l with pc := pc' })
  | fin (p : Pending) (res : KRes) : l.call = some p → Fin s p l.pc res →
      StepK s t l pick (finish (tick s) t p res)
  | cas (p : Pending) (g : Nat) (v vi : Nat) : l.call = some p → l.pc = .wCas g →
      cellOf s g p.key = .empty → (p.op = .ins v vi ∨ p.op = .tryIns v vi) →
      StepK s t l pick (finish (setCell { tick s with heap := s.heap ++ [⟨p.key, (v, vi), none, none⟩] } g p.key
        (.node s.heap.length)) t p .none)
  | store (p : Pending) (g : Nat) (h : Nat) (pred hit hnext : Option Nat) : l.call = some p →
      l.pc = .wStore g h pred hit hnext →
      StepK s t l pick (setT (storeAt (tick s) g p pred hit hnext).1 t
        { l with pc := .wUnlock g h (storeAt (tick s) g p pred hit hnext).2 false })
  | unlockFin (p : Pending) (g : Nat) (h : Nat) (res : KRes) : l.call = some p →
      l.pc = .wUnlock g h res false →
      StepK s t l pick (finish (setNode (tick s) h (fun m => { m with lock := none })) t p res)
  | casMoved (j : Nat) : l.call = none → l.pc = .tCasMoved j → cellAt s s.cur j = .empty →
      StepK s t l pick (putCell (setT (tick s) t { l with pc := .tNext }) s.cur j .moved)
  | build (j h : Nat) : l.call = none → l.pc = .tBuild j h →
      StepK s t l pick (setT { tick s with heap := (splitBinB (bitAt s.cur) s.heap (chainFrom s.heap s.heap.length (some h))).1 } t
        { l with pc := .tStoreLow j h (splitBinB (bitAt s.cur) s.heap (chainFrom s.heap s.heap.length (some h))).2.1
                                      (splitBinB (bitAt s.cur) s.heap (chainFrom s.heap s.heap.length (some h))).2.2 })
  | storeLow (j h : Nat) (lo hg : Option Nat) : l.call = none → l.pc = .tStoreLow j h lo hg →
      StepK s t l pick (putCell (setT (tick s) t { l with pc := .tStoreHigh j h hg }) (s.cur + 1) j (cellOfHead lo))
  | storeHigh (j h : Nat) (hg : Option Nat) : l.call = none → l.pc = .tStoreHigh j h hg →
      StepK s t l pick (putCell (setT (tick s) t { l with pc := .tStoreMoved j h }) (s.cur + 1) (j + 2 ^ s.cur) (cellOfHead hg))
  | storeMoved (j h : Nat) : l.call = none → l.pc = .tStoreMoved j h →
      StepK s t l pick (putCell (setT (tick s) t { l with pc := .tUnlock j h }) s.cur j .moved)
  | commit : l.call = none → l.pc = .tCommit →
      StepK s t l pick { (setT (tick s) t { l with pc := .idle }) with cur := s.cur + 1, resizing := false }

theorem setT_self {s : State} {t : Nat} {l : Local} (hl : s.threads[t]? = some l) : setT s t l = s := by
  unfold setT
  obtain ⟨ht, rfl⟩ := List.getElem?_eq_some_iff.1 hl
  rw [List.set_getElem_self]

theorem step_stepK {s s' : State} {t : Nat} {l : Local} {inv : Option (Nat × KOp)} {rz : Bool} {pick : Nat}
    (hl : s.threads[t]? = some l) (hs : step s t inv rz pick = some s') : StepK s t l pick s' := by
  unfold step stepG at hs
  rw [hl] at hs
  simp only at hs
  obtain ⟨pc, call⟩ := l
  cases pc with
  | idle =>
    simp only at hs
    cases rz with
    | true =>
      simp only [if_true] at hs
      split at hs
      · simp only [Option.some.injEq] at hs
        subst hs
        have : tick s = setT (tick s) t ⟨.idle, call⟩ := (setT_self (s := tick s) hl).symm
        show StepK s t _ pick (tick s)
        rw [this]
        exact .idle rfl
      · rename_i hrz
        simp only [Option.some.injEq] at hs
        subst hs
        exact .resize rfl (by simpa using hrz)
    | false =>
      simp only [Bool.false_eq_true, if_false] at hs
      cases inv with
      | none =>
        simp only [Option.some.injEq] at hs
        subst hs
        have : tick s = setT (tick s) t ⟨.idle, call⟩ := (setT_self (s := tick s) hl).symm
        show StepK s t _ pick (tick s)
        rw [this]
        exact .idle rfl
      | some ko =>
        obtain ⟨k, op⟩ := ko
        simp only [Option.some.injEq] at hs
        subst hs
        exact .invoke k op rfl
  | rTable =>
    cases call with
    | none => simp at hs
    | some p =>
      simp only [Option.some.injEq] at hs
      subst hs
      exact StepK.move p _ rfl (by exact .rTable)
  | rCell g =>
    cases call with
    | none => simp at hs
    | some p =>
      simp only at hs
      split at hs
      · rename_i hc
        simp only [Option.some.injEq] at hs; subst hs
        exact StepK.fin p _ rfl (by exact .rEmpty hc)
      · rename_i hc
        simp only [Option.some.injEq] at hs; subst hs
        exact StepK.move p _ rfl (by exact .rCellMoved hc)
      · rename_i h hc
        simp only [Option.some.injEq] at hs; subst hs
        exact StepK.move p _ rfl (by exact .rCellNode hc)
  | rNode cur =>
    cases call with
    | none => simp at hs
    | some p =>
      cases cur with
      | none =>
        simp only [Option.some.injEq] at hs
        subst hs
        exact StepK.fin p _ rfl (by exact .miss)
      | some c =>
        simp only at hs
        cases hn : s.heap[c]? with
        | none => rw [hn] at hs; simp at hs
        | some n =>
          rw [hn] at hs
          simp only at hs
          by_cases hk : n.key = p.key
          · rw [if_pos (by simpa using hk)] at hs
            simp only [Option.some.injEq] at hs
            subst hs
            exact StepK.fin p _ rfl (by exact (.hit hn hk))
          · rw [if_neg (by simpa using hk)] at hs
            simp only [Option.some.injEq] at hs
            subst hs
            exact StepK.move p _ rfl (by exact (.rNext hn hk))
  | wTable =>
    cases call with
    | none => simp at hs
    | some p =>
      simp only [Option.some.injEq] at hs
      subst hs
      exact StepK.move p _ rfl (by exact .wTable)
  | wCell g =>
    cases call with
    | none => simp at hs
    | some p =>
      simp only at hs
      split at hs
      · rename_i hc
        split at hs
        · rename_i v vi hop
          simp only [Option.some.injEq] at hs; subst hs
          exact StepK.move p _ rfl (by exact (.wCellEmpty hc ⟨v, vi, Or.inl hop⟩))
        · rename_i v vi hop
          simp only [Option.some.injEq] at hs; subst hs
          exact StepK.move p _ rfl (by exact (.wCellEmpty hc ⟨v, vi, Or.inr hop⟩))
        · rename_i h1 h2
          simp only [Option.some.injEq] at hs; subst hs
          have hni : ¬ insLike p.op := by
            rintro ⟨v, vi, h | h⟩
            · exact h1 v vi h
            · exact h2 v vi h
          exact StepK.fin p _ rfl (by exact (.wEmpty hc hni))
      · rename_i hc
        simp only [Option.some.injEq] at hs; subst hs
        exact StepK.move p _ rfl (by exact (.wCellMoved hc))
      · rename_i h hc
        simp only [Option.some.injEq] at hs; subst hs
        exact StepK.move p _ rfl (by exact (.wCellNode hc))
  | wCas g =>
    cases call with
    | none => simp at hs
    | some p =>
      simp only at hs
      split at hs
      · rename_i v vi hh hop
        simp only [Option.some.injEq] at hs; subst hs
        exact .cas p g v vi rfl rfl hh (Or.inl hop)
      · rename_i v vi hh hop
        simp only [Option.some.injEq] at hs; subst hs
        exact .cas p g v vi rfl rfl hh (Or.inr hop)
      · simp only [Option.some.injEq] at hs; subst hs
        exact StepK.move p _ rfl (by exact .casFail)
  | wLock g h =>
    cases call with
    | none => simp at hs
    | some p =>
      simp only at hs
      cases hn : s.heap[h]? with
      | none => rw [hn] at hs; simp at hs
      | some n =>
        rw [hn] at hs
        simp only at hs
        cases hlk : n.lock with
        | some x => rw [hlk] at hs; simp at hs
        | none =>
          rw [hlk] at hs
          simp only [Option.isSome_none, Bool.false_eq_true, if_false, Option.some.injEq] at hs
          subst hs
          exact StepK.lockMove p h (some t) _ rfl (by exact (.lock hn hlk))
  | wCheck g h =>
    cases call with
    | none => simp at hs
    | some p =>
      simp only [Bool.not_true, Bool.false_or] at hs
      by_cases hh : cellOf s g p.key = .node h
      · have hh' : cellOf (tick s) g p.key = .node h := hh
        rw [if_pos (by show (cellOf (tick s) g p.key == .node h) = true; rw [hh']; exact beq_self_eq_true _)] at hs
        simp only [Option.some.injEq] at hs
        subst hs
        exact StepK.move p _ rfl (by exact (.checkOk hh))
      · have hh' : cellOf (tick s) g p.key ≠ .node h := hh
        rw [if_neg (by show ¬ (cellOf (tick s) g p.key == .node h) = true; simpa using hh')] at hs
        simp only [Option.some.injEq] at hs
        subst hs
        exact StepK.move p _ rfl (by exact (.checkFail hh))
  | wFind g h pred cur =>
    cases call with
    | none => simp at hs
    | some p =>
      cases cur with
      | none =>
        simp only [Option.some.injEq] at hs
        subst hs
        exact StepK.move p _ rfl (by exact .findEnd)
      | some c =>
        simp only at hs
        cases hn : s.heap[c]? with
        | none => rw [hn] at hs; simp at hs
        | some n =>
          rw [hn] at hs
          simp only at hs
          by_cases hk : n.key = p.key
          · rw [if_pos (by simpa using hk)] at hs
            simp only [Option.some.injEq] at hs
            subst hs
            exact StepK.move p _ rfl (by exact (.findHit hn hk))
          · rw [if_neg (by simpa using hk)] at hs
            simp only [Option.some.injEq] at hs
            subst hs
            exact StepK.move p _ rfl (by exact (.findNext hn hk))
  | wStore g h pred hit hnext =>
    cases call with
    | none => simp at hs
    | some p =>
      simp only [Option.some.injEq] at hs
      subst hs
      exact .store p g h pred hit hnext rfl rfl
  | wUnlock g h res retry =>
    cases call with
    | none => simp at hs
    | some p =>
      simp only at hs
      cases retry with
      | true =>
        simp only [if_true, Option.some.injEq] at hs
        subst hs
        exact StepK.lockMove p h none _ rfl (by exact .unlockRetry)
      | false =>
        simp only [Bool.false_eq_true, if_false, Option.some.injEq] at hs
        subst hs
        exact .unlockFin p g h res rfl rfl
  | tNext =>
    cases call with
    | some p => simp at hs
    | none =>
      simp only at hs
      cases ha : allMoved s s.cur with
      | true =>
        have ha' : allMoved (tick s) s.cur = true := ha
        rw [if_pos (by exact ha')] at hs
        simp only [Option.some.injEq] at hs; subst hs
        exact StepK.tmove _ rfl (by exact .nextDone ha)
      | false =>
        have ha' : allMoved (tick s) s.cur = false := ha
        rw [if_neg (by show ¬ allMoved (tick s) s.cur = true; rw [ha']; exact Bool.false_ne_true)] at hs
        simp only [Option.some.injEq] at hs; subst hs
        exact StepK.tmove _ rfl (by exact .nextPick ha)
  | tCell j =>
    cases call with
    | some p => simp at hs
    | none =>
      simp only at hs
      split at hs
      · rename_i hc
        simp only [Option.some.injEq] at hs; subst hs
        exact StepK.tmove _ rfl (by exact .cellEmpty hc)
      · rename_i h hc
        simp only [Option.some.injEq] at hs; subst hs
        exact StepK.tmove _ rfl (by exact .cellNode hc)
      · rename_i hc
        simp only [Option.some.injEq] at hs; subst hs
        exact StepK.tmove _ rfl (by exact .cellMoved hc)
  | tCasMoved j =>
    cases call with
    | some p => simp at hs
    | none =>
      simp only at hs
      by_cases hc : cellAt s s.cur j = .empty
      · have hc' : cellAt (tick s) s.cur j = .empty := hc
        rw [if_pos (by show (cellAt (tick s) s.cur j == Cell.empty) = true; rw [hc']; rfl)] at hs
        simp only [Option.some.injEq] at hs; subst hs
        exact .casMoved j rfl rfl hc
      · have hc' : cellAt (tick s) s.cur j ≠ .empty := hc
        rw [if_neg (by show ¬ (cellAt (tick s) s.cur j == Cell.empty) = true; simpa using hc')] at hs
        simp only [Option.some.injEq] at hs; subst hs
        exact StepK.tmove _ rfl (by exact .casFail hc)
  | tLock j h =>
    cases call with
    | some p => simp at hs
    | none =>
      simp only at hs
      cases hn : s.heap[h]? with
      | none => rw [hn] at hs; simp at hs
      | some n =>
        rw [hn] at hs
        simp only at hs
        cases hlk : n.lock with
        | some x => rw [hlk] at hs; simp at hs
        | none =>
          rw [hlk] at hs
          simp only [Option.isSome_none, Bool.false_eq_true, if_false, Option.some.injEq] at hs
          subst hs
          exact StepK.tlockMove h (some t) _ rfl (by exact (.lock hn hlk))
  | tCheck j h =>
    cases call with
    | some p => simp at hs
    | none =>
      simp only [Bool.not_true, Bool.false_or] at hs
      by_cases hh : cellAt s s.cur j = .node h
      · have hh' : cellAt (tick s) s.cur j = .node h := hh
        rw [if_pos (by show (cellAt (tick s) s.cur j == Cell.node h) = true; rw [hh']; exact beq_self_eq_true _)] at hs
        simp only [Option.some.injEq] at hs
        subst hs
        exact StepK.tmove _ rfl (by exact (.checkOk hh))
      · have hh' : cellAt (tick s) s.cur j ≠ .node h := hh
        rw [if_neg (by show ¬ (cellAt (tick s) s.cur j == Cell.node h) = true; simpa using hh')] at hs
        simp only [Option.some.injEq] at hs
        subst hs
        exact StepK.tlockMove h none _ rfl (by exact (.checkFail hh))
  | tBuild j h =>
    cases call with
    | some p => simp at hs
    | none =>
      simp only [Option.some.injEq] at hs
      subst hs
      exact .build j h rfl rfl
  | tStoreLow j h lo hg =>
    cases call with
    | some p => simp at hs
    | none =>
      simp only [Option.some.injEq] at hs
      subst hs
      exact .storeLow j h lo hg rfl rfl
  | tStoreHigh j h hg =>
    cases call with
    | some p => simp at hs
    | none =>
      simp only [Option.some.injEq] at hs
      subst hs
      exact .storeHigh j h hg rfl rfl
  | tStoreMoved j h =>
    cases call with
    | some p => simp at hs
    | none =>
      simp only [Option.some.injEq] at hs
      subst hs
      exact .storeMoved j h rfl rfl
  | tUnlock j h =>
    cases call with
    | some p => simp at hs
    | none =>
      simp only [Option.some.injEq] at hs
      subst hs
      exact StepK.tlockMove h none _ rfl (by exact .unlock)
  | tCommit =>
    cases call with
    | some p => simp at hs
    | none =>
      simp only [Option.some.injEq] at hs
      subst hs
      exact .commit rfl rfl

end Flurry.Proto.BinN
