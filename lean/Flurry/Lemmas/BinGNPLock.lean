import Flurry.Lemmas.BinGNPInvBasic
/-! # Proto/BinGN (port of `Lemmas/BinGLock.lean`): preservation of the lock invariant `LInv`, generic lemmas

`LInv` is split into the part about the lock words of nodes (`LkPart`), the part about the mutexes of
`TreeBin`s (`MxPart`) and the part about the read-write locks (`RwPart`). For a step of thread `t` from `l`
to `l'`:
* `lk_step`: from a description of the new lock words (`LockFun`: `lockfun_same` / `_acq` / `_rel`);
* `mx_step`: from a description of the new mutexes (`MutexFun`: `mutexfun_same` / `_acq` / `_rel`);
* `refOK_step`, `rw_gen`, `rw_bin`, `rw_cell`: the read-write lock part.

What differs from BinG: `cidOf s l` takes the state (it reads `s.cur` for the resizing thread, and nothing
else), and `LkPart s'` / `MxPart s'` speak of `cidOf s' l1`. Hence
* `cidOf_cur` (`s'.cur = s.cur`), `cidOf_noX` (`xIdx l.pc = none`), `cidOf_others` (the stepping thread is the
  resizing thread, so no other thread is: for the commit step);
* `lk_step_gen` / `mx_step_gen` take `hcid : ∀ t1 l1, t1 ≠ t → s.threads[t1]? = some l1 → cidOf s' l1 = cidOf s l1`
  (for `xcommit`: `cidOf_others`); `lk_step` / `mx_step` take `hcur : s'.cur = s.cur` instead; in all four `hv` is
  about `cidOf s' l'`;
* `linv_same` takes `hcur : s'.cur = s.cur` (`hvL`, `hvT` are about `cidOf s l'` in `s`, as in BinG);
* everything else is verbatim (`others_not_valid`: `hc : cidOf s l1 = cidOf s l`). -/
namespace Flurry.Proto.BinGNP
open Flurry.Lin
open Flurry.Proto.BinK (nodeAt binAt lockSet get_set get_set_self get_set_ne nodeAt_lockSet binAt_modify nodeAt_ge
  binAt_ge)

/-! ## `cidOf` depends on the state through `cur` only -/

theorem cidOf_cur {s s' : State} (hcur : s'.cur = s.cur) (l : Local) : cidOf s' l = cidOf s l := by
  unfold cidOf; rw [hcur]

theorem cidOf_noX {s s' : State} {l : Local} (h : xIdx l.pc = none) : cidOf s' l = cidOf s l := by
  unfold cidOf; rw [h]

theorem xPc_of_xIdx {pc : Pc} {j : Nat} (h : xIdx pc = some j) : xPc pc = true := by
  cases pc <;> first | rfl | cases h

/-- the stepping thread is the resizing thread: no other thread works in a cell named by `cur` -/
theorem cidOf_others {s s' : State} {t t1 : Nat} {l l1 : Local} (X : XInv s) (hl : s.threads[t]? = some l)
    (hx : xPc l.pc = true) (hne : t1 ≠ t) (hl1 : s.threads[t1]? = some l1) : cidOf s' l1 = cidOf s l1 := by
  cases h : xIdx l1.pc with
  | none => exact cidOf_noX h
  | some j => exact absurd (X.uniqX t1 t l1 l hl1 hl (xPc_of_xIdx h) hx) hne

def LkPart (s : State) : Prop :=
  (∀ (t : Nat) (l : Local) (h : Nat), s.threads[t]? = some l →
    (holdsLock l.pc = some h ↔ (nodeAt s.heap h).lock = some t)) ∧
  (∀ h x, (nodeAt s.heap h).lock = some x → x < s.threads.length) ∧
  (∀ (t : Nat) (l : Local) (h : Nat), s.threads[t]? = some l → validL l.pc = some h →
    cellAt s (cidOf s l) = .list h)

def MxPart (s : State) : Prop :=
  (∀ (t : Nat) (l : Local) (b : Nat), s.threads[t]? = some l →
    (holdsMutex l.pc = some b ↔ (binAt s.tbins b).mutex = some t)) ∧
  (∀ b x, (binAt s.tbins b).mutex = some x → x < s.threads.length) ∧
  (∀ (t : Nat) (l : Local) (b : Nat), s.threads[t]? = some l → validT l.pc = some b →
    cellAt s (cidOf s l) = .tree b)

def RwPart (s : State) : Prop :=
  (∀ id b, cellAt s id = .tree b → (binAt s.tbins b).mutex = none →
    (binAt s.tbins b).writer = false ∧ (binAt s.tbins b).waiter = false) ∧
  (∀ (id : Cid) (b t : Nat) (l : Local), cellAt s id = .tree b → s.threads[t]? = some l →
    (binAt s.tbins b).mutex = some t →
    (binAt s.tbins b).writer = wr l.pc ∧ ((binAt s.tbins b).waiter = true → isLoop l.pc = true)) ∧
  (∀ b, b < s.tbins.length →
    (binAt s.tbins b).readers = cnt (fun pc => holdsRead pc == some b) s.threads) ∧
  (∀ b, (binAt s.tbins b).writer = true → (binAt s.tbins b).readers = 0) ∧
  (∀ (t : Nat) (l : Local) (b : Nat), s.threads[t]? = some l → binRef l.pc = some b →
    b < s.tbins.length ∧ ¬ PrivBin s b)

theorem LInv.of_parts {s : State} (h1 : LkPart s) (h2 : MxPart s) (h3 : RwPart s) : LInv s :=
  ⟨h1.1, h1.2.1, h1.2.2, h2.1, h2.2.1, h2.2.2, h3.1, h3.2.1, h3.2.2.1, h3.2.2.2.1, h3.2.2.2.2⟩

theorem LInv.lkPart {s : State} (L : LInv s) : LkPart s := ⟨L.lk, L.lkValid, L.vL⟩

theorem LInv.mxPart {s : State} (L : LInv s) : MxPart s := ⟨L.mx, L.mxValid, L.vT⟩

theorem LInv.rwPart {s : State} (L : LInv s) : RwPart s :=
  ⟨L.bitsNone, L.bitsSome, L.rd, L.wrd, L.refOK⟩

/-! ## the lock words of nodes -/

/-- the lock words after a step of thread `t` from `pc` to `pc'` -/
def LockFun (s s' : State) (t : Nat) (pc pc' : Pc) : Prop :=
  ∀ h, (nodeAt s'.heap h).lock =
    if holdsLock pc' = some h then some t else if holdsLock pc = some h then none else (nodeAt s.heap h).lock

theorem lockfun_same {s s' : State} {t : Nat} {l : Local} {pc' : Pc} (L : LInv s) (hl : s.threads[t]? = some l)
    (e : holdsLock pc' = holdsLock l.pc) (hh : ∀ h, (nodeAt s'.heap h).lock = (nodeAt s.heap h).lock) :
    LockFun s s' t l.pc pc' := by
  intro h
  rw [hh, e]
  split
  · rename_i hp
    exact (L.lk t l h hl).1 hp
  · rfl

theorem lockfun_acq {s s' : State} {t : Nat} {l : Local} {pc' : Pc} {h0 : Nat} (e0 : holdsLock l.pc = none)
    (e1 : holdsLock pc' = some h0) (hlt : h0 < s.heap.length) (hh : s'.heap = lockSet s.heap h0 (some t)) :
    LockFun s s' t l.pc pc' := by
  intro h
  rw [hh, nodeAt_lockSet, e0, e1]
  by_cases hh0 : h0 = h
  · subst hh0; rw [if_pos ⟨rfl, hlt⟩, if_pos rfl]
  · rw [if_neg (fun x => hh0 x.1), if_neg (fun x => hh0 (Option.some.inj x)), if_neg (by simp)]

theorem lockfun_rel {s s' : State} {t : Nat} {l : Local} {pc' : Pc} {h0 : Nat} (L : LInv s)
    (hl : s.threads[t]? = some l) (e0 : holdsLock l.pc = some h0) (e1 : holdsLock pc' = none)
    (hh : s'.heap = lockSet s.heap h0 none) :
    LockFun s s' t l.pc pc' := by
  intro h
  rw [hh, nodeAt_lockSet, e0, e1]
  have hlt : h0 < s.heap.length := L.lock_lt hl e0
  by_cases hh0 : h0 = h
  · subst hh0; rw [if_pos ⟨rfl, hlt⟩, if_neg (by simp), if_pos rfl]
  · rw [if_neg (fun x => hh0 x.1), if_neg (by simp), if_neg (fun x => hh0 (Option.some.inj x))]

/-! ## validated threads of one cell -/

/-- no thread is validated in an empty or forwarded cell -/
theorem not_valid_of_cell {s : State} (L : LInv s) {t1 : Nat} {l1 : Local} (hl1 : s.threads[t1]? = some l1)
    (hc : cellAt s (cidOf s l1) = .empty ∨ cellAt s (cidOf s l1) = .moved) :
    validL l1.pc = none ∧ validT l1.pc = none := by
  constructor
  · cases h2 : validL l1.pc with
    | none => rfl
    | some a =>
      have := L.vL t1 l1 a hl1 h2
      rcases hc with hc | hc <;> rw [hc] at this <;> cases this
  · cases h2 : validT l1.pc with
    | none => rfl
    | some a =>
      have := L.vT t1 l1 a hl1 h2
      rcases hc with hc | hc <;> rw [hc] at this <;> cases this

theorem not_validated_of_cell {s : State} (L : LInv s) {t1 : Nat} {l1 : Local} (hl1 : s.threads[t1]? = some l1)
    (hc : cellAt s (cidOf s l1) = .empty ∨ cellAt s (cidOf s l1) = .moved) : validated l1.pc = false := by
  obtain ⟨h1, h2⟩ := not_valid_of_cell L hl1 hc
  unfold validated; rw [h1, h2]; rfl

/-- if thread `t` is validated, no other thread that works in the same cell is -/
theorem others_not_valid {s : State} {t : Nat} {l : Local} (L : LInv s) (hl : s.threads[t]? = some l)
    (hv : validated l.pc = true) {t1 : Nat} {l1 : Local} (hne : t1 ≠ t)
    (hl1 : s.threads[t1]? = some l1) (hc : cidOf s l1 = cidOf s l) : validL l1.pc = none ∧ validT l1.pc = none := by
  cases h1 : validated l1.pc with
  | true => exact absurd (L.valid_unique hl1 hl h1 hv hc) hne
  | false => exact not_validated h1

/-- a cell changes only in a step of a thread validated in it, or when it is empty; then no other
thread that works in it is validated -/
theorem others_not_valid_cell {s : State} {t : Nat} {l : Local} {id : Cid} (L : LInv s) (hl : s.threads[t]? = some l)
    (hv : (validated l.pc = true ∧ cidOf s l = id) ∨ cellAt s id = .empty) {t1 : Nat} {l1 : Local} (hne : t1 ≠ t)
    (hl1 : s.threads[t1]? = some l1) (hc : cidOf s l1 = id) : validL l1.pc = none ∧ validT l1.pc = none := by
  rcases hv with ⟨hv, hid⟩ | hv
  · exact others_not_valid L hl hv hne hl1 (by rw [hc, hid])
  · exact not_valid_of_cell L hl1 (Or.inl (by rw [hc]; exact hv))

theorem lk_step_gen {s s' : State} {t : Nat} {l l' : Local} (L : LInv s) (hl : s.threads[t]? = some l)
    (hthr : s'.threads = s.threads.set t l')
    (hcid : ∀ t1 l1, t1 ≠ t → s.threads[t1]? = some l1 → cidOf s' l1 = cidOf s l1)
    (hf : LockFun s s' t l.pc l'.pc)
    (hacq : ∀ h, holdsLock l'.pc = some h → holdsLock l.pc = some h ∨ (nodeAt s.heap h).lock = none)
    (hv : ∀ h, validL l'.pc = some h → cellAt s' (cidOf s' l') = .list h)
    (hvo : ∀ id, cellAt s' id = cellAt s id ∨ (validated l.pc = true ∧ cidOf s l = id) ∨ cellAt s id = .empty) :
    LkPart s' := by
  have htl : t < s.threads.length := (List.getElem?_eq_some_iff.1 hl).1
  refine ⟨?_, ?_, ?_⟩
  · intro t1 l1 h h1
    rw [hthr] at h1
    rw [hf h]
    rcases get_set h1 with ⟨rfl, rfl⟩ | ⟨hne, h1⟩
    · constructor
      · intro hp; rw [if_pos hp]
      · intro hp
        split at hp
        · assumption
        · split at hp
          · cases hp
          · rename_i h2 h3
            exact absurd ((L.lk t1 l h hl).2 hp) h3
    · constructor
      · intro hp
        have hlk := (L.lk t1 l1 h h1).1 hp
        rw [if_neg, if_neg]
        · exact hlk
        · intro h3
          have := (L.lk t l h hl).1 h3
          rw [hlk] at this; exact hne (Option.some.inj this)
        · intro h3
          rcases hacq h h3 with h4 | h4
          · have := (L.lk t l h hl).1 h4
            rw [hlk] at this; exact hne (Option.some.inj this)
          · rw [hlk] at h4; cases h4
      · intro hp
        split at hp
        · cases hp; exact absurd rfl hne
        · split at hp
          · cases hp
          · exact (L.lk t1 l1 h h1).2 hp
  · intro h x hx
    rw [hthr, List.length_set]
    rw [hf h] at hx
    split at hx
    · cases hx; exact htl
    · split at hx
      · cases hx
      · exact L.lkValid h x hx
  · intro t1 l1 h h1 hv1
    rw [hthr] at h1
    rcases get_set h1 with ⟨rfl, rfl⟩ | ⟨hne, h1⟩
    · exact hv h hv1
    · rw [hcid t1 l1 hne h1]
      rcases hvo (cidOf s l1) with hc | hc
      · rw [hc]; exact L.vL t1 l1 h h1 hv1
      · have := (others_not_valid_cell L hl hc hne h1 rfl).1
        rw [this] at hv1; cases hv1

theorem lk_step {s s' : State} {t : Nat} {l l' : Local} (L : LInv s) (hl : s.threads[t]? = some l)
    (hthr : s'.threads = s.threads.set t l') (hcur : s'.cur = s.cur)
    (hf : LockFun s s' t l.pc l'.pc)
    (hacq : ∀ h, holdsLock l'.pc = some h → holdsLock l.pc = some h ∨ (nodeAt s.heap h).lock = none)
    (hv : ∀ h, validL l'.pc = some h → cellAt s' (cidOf s' l') = .list h)
    (hvo : ∀ id, cellAt s' id = cellAt s id ∨ (validated l.pc = true ∧ cidOf s l = id) ∨ cellAt s id = .empty) :
    LkPart s' :=
  lk_step_gen L hl hthr (fun _ l1 _ _ => cidOf_cur hcur l1) hf hacq hv hvo

/-! ## the mutexes of `TreeBin`s -/

/-- the mutex words after a step of thread `t` from `pc` to `pc'` -/
def MutexFun (s s' : State) (t : Nat) (pc pc' : Pc) : Prop :=
  ∀ b, (binAt s'.tbins b).mutex =
    if holdsMutex pc' = some b then some t else if holdsMutex pc = some b then none else (binAt s.tbins b).mutex

theorem mutexfun_same {s s' : State} {t : Nat} {l : Local} {pc' : Pc} (L : LInv s) (hl : s.threads[t]? = some l)
    (e : holdsMutex pc' = holdsMutex l.pc) (hh : ∀ b, (binAt s'.tbins b).mutex = (binAt s.tbins b).mutex) :
    MutexFun s s' t l.pc pc' := by
  intro b
  rw [hh, e]
  split
  · rename_i hp
    exact (L.mx t l b hl).1 hp
  · rfl

theorem mutexfun_acq {s s' : State} {t : Nat} {l : Local} {pc' : Pc} {b0 : Nat} (e0 : holdsMutex l.pc = none)
    (e1 : holdsMutex pc' = some b0) (hlt : b0 < s.tbins.length)
    (hh : s'.tbins = s.tbins.modify b0 (fun x => { x with mutex := some t })) :
    MutexFun s s' t l.pc pc' := by
  intro b
  rw [hh, binAt_modify, e0, e1]
  by_cases hb0 : b0 = b
  · subst hb0; rw [if_pos ⟨rfl, hlt⟩, if_pos rfl]
  · rw [if_neg (fun x => hb0 x.1), if_neg (fun x => hb0 (Option.some.inj x)), if_neg (by simp)]

theorem mutexfun_rel {s s' : State} {t : Nat} {l : Local} {pc' : Pc} {b0 : Nat} (L : LInv s)
    (hl : s.threads[t]? = some l) (e0 : holdsMutex l.pc = some b0) (e1 : holdsMutex pc' = none)
    (hh : s'.tbins = s.tbins.modify b0 (fun x => { x with mutex := none })) :
    MutexFun s s' t l.pc pc' := by
  intro b
  rw [hh, binAt_modify, e0, e1]
  have hlt := L.mutex_lt hl e0
  by_cases hb0 : b0 = b
  · subst hb0; rw [if_pos ⟨rfl, hlt⟩, if_neg (by simp), if_pos rfl]
  · rw [if_neg (fun x => hb0 x.1), if_neg (by simp), if_neg (fun x => hb0 (Option.some.inj x))]

theorem mx_step_gen {s s' : State} {t : Nat} {l l' : Local} (L : LInv s) (hl : s.threads[t]? = some l)
    (hthr : s'.threads = s.threads.set t l')
    (hcid : ∀ t1 l1, t1 ≠ t → s.threads[t1]? = some l1 → cidOf s' l1 = cidOf s l1)
    (hf : MutexFun s s' t l.pc l'.pc)
    (hacq : ∀ b, holdsMutex l'.pc = some b → holdsMutex l.pc = some b ∨ (binAt s.tbins b).mutex = none)
    (hv : ∀ b, validT l'.pc = some b → cellAt s' (cidOf s' l') = .tree b)
    (hvo : ∀ id, cellAt s' id = cellAt s id ∨ (validated l.pc = true ∧ cidOf s l = id) ∨ cellAt s id = .empty) :
    MxPart s' := by
  have htl : t < s.threads.length := (List.getElem?_eq_some_iff.1 hl).1
  refine ⟨?_, ?_, ?_⟩
  · intro t1 l1 b h1
    rw [hthr] at h1
    rw [hf b]
    rcases get_set h1 with ⟨rfl, rfl⟩ | ⟨hne, h1⟩
    · constructor
      · intro hp; rw [if_pos hp]
      · intro hp
        split at hp
        · assumption
        · split at hp
          · cases hp
          · rename_i h2 h3
            exact absurd ((L.mx t1 l b hl).2 hp) h3
    · constructor
      · intro hp
        have hlk := (L.mx t1 l1 b h1).1 hp
        rw [if_neg, if_neg]
        · exact hlk
        · intro h3
          have := (L.mx t l b hl).1 h3
          rw [hlk] at this; exact hne (Option.some.inj this)
        · intro h3
          rcases hacq b h3 with h4 | h4
          · have := (L.mx t l b hl).1 h4
            rw [hlk] at this; exact hne (Option.some.inj this)
          · rw [hlk] at h4; cases h4
      · intro hp
        split at hp
        · cases hp; exact absurd rfl hne
        · split at hp
          · cases hp
          · exact (L.mx t1 l1 b h1).2 hp
  · intro b x hx
    rw [hthr, List.length_set]
    rw [hf b] at hx
    split at hx
    · cases hx; exact htl
    · split at hx
      · cases hx
      · exact L.mxValid b x hx
  · intro t1 l1 b h1 hv1
    rw [hthr] at h1
    rcases get_set h1 with ⟨rfl, rfl⟩ | ⟨hne, h1⟩
    · exact hv b hv1
    · rw [hcid t1 l1 hne h1]
      rcases hvo (cidOf s l1) with hc | hc
      · rw [hc]; exact L.vT t1 l1 b h1 hv1
      · have := (others_not_valid_cell L hl hc hne h1 rfl).2
        rw [this] at hv1; cases hv1

theorem mx_step {s s' : State} {t : Nat} {l l' : Local} (L : LInv s) (hl : s.threads[t]? = some l)
    (hthr : s'.threads = s.threads.set t l') (hcur : s'.cur = s.cur)
    (hf : MutexFun s s' t l.pc l'.pc)
    (hacq : ∀ b, holdsMutex l'.pc = some b → holdsMutex l.pc = some b ∨ (binAt s.tbins b).mutex = none)
    (hv : ∀ b, validT l'.pc = some b → cellAt s' (cidOf s' l') = .tree b)
    (hvo : ∀ id, cellAt s' id = cellAt s id ∨ (validated l.pc = true ∧ cidOf s l = id) ∨ cellAt s id = .empty) :
    MxPart s' :=
  mx_step_gen L hl hthr (fun _ l1 _ _ => cidOf_cur hcur l1) hf hacq hv hvo

/-! ## the read-write locks -/

/-- the `TreeBin`s the threads of the successor state refer to are old, published `TreeBin`s -/
theorem refOK_old {s s' : State} {t : Nat} {l l' : Local} (L : LInv s) (hl : s.threads[t]? = some l)
    (hthr : s'.threads = s.threads.set t l')
    (e8 : ∀ b, binRef l'.pc = some b → binRef l.pc = some b ∨ (b < s.tbins.length ∧ ¬ PrivBin s b)) :
    ∀ (t1 : Nat) (l1 : Local) (b : Nat), s'.threads[t1]? = some l1 → binRef l1.pc = some b →
      b < s.tbins.length ∧ ¬ PrivBin s b := by
  intro t1 l1 b h1 hr
  rw [hthr] at h1
  rcases get_set h1 with ⟨rfl, rfl⟩ | ⟨_, h1⟩
  · rcases e8 b hr with h2 | h2
    · exact L.refOK t1 l b hl h2
    · exact h2
  · exact L.refOK t1 l1 b h1 hr

/-- the `refOK` clause after a step -/
theorem refOK_step {s s' : State} {t : Nat} {l l' : Local} (L : LInv s) (hl : s.threads[t]? = some l)
    (hthr : s'.threads = s.threads.set t l') (htlen : s.tbins.length ≤ s'.tbins.length)
    (e8 : ∀ b, binRef l'.pc = some b → binRef l.pc = some b ∨ (b < s.tbins.length ∧ ¬ PrivBin s b))
    (hpriv : ∀ b, b < s.tbins.length → PrivBin s' b → PrivBin s b) :
    ∀ (t1 : Nat) (l1 : Local) (b : Nat), s'.threads[t1]? = some l1 → binRef l1.pc = some b →
      b < s'.tbins.length ∧ ¬ PrivBin s' b := by
  intro t1 l1 b h1 hr
  obtain ⟨hb, hp⟩ := refOK_old L hl hthr e8 t1 l1 b h1 hr
  exact ⟨by omega, fun h => hp (hpriv b hb h)⟩

/-- nobody holds a read lock of a `TreeBin` beyond the old table -/
theorem cnt_read_new {s s' : State} {t : Nat} {l l' : Local} (L : LInv s) (hl : s.threads[t]? = some l)
    (hthr : s'.threads = s.threads.set t l')
    (e8 : ∀ b, binRef l'.pc = some b → binRef l.pc = some b ∨ (b < s.tbins.length ∧ ¬ PrivBin s b))
    {b : Nat} (hb : s.tbins.length ≤ b) : cnt (fun pc => holdsRead pc == some b) s'.threads = 0 := by
  apply cnt_zero_of
  intro l1 hl1
  obtain ⟨t1, hl1'⟩ := List.mem_iff_getElem?.1 hl1
  cases hr : holdsRead l1.pc with
  | none => simp
  | some b1 =>
    have := (refOK_old L hl hthr e8 t1 l1 b1 hl1' (binRef_of_holdsRead hr)).1
    simp
    intro e; subst e; omega

/-- steps that leave mutex, `writer` and `waiter` of every `TreeBin` alone (general form: fresh
`TreeBin`s may be appended, cells may change) -/
theorem rw_gen {s s' : State} {t : Nat} {l l' : Local} (L : LInv s) (hl : s.threads[t]? = some l)
    (hthr : s'.threads = s.threads.set t l')
    (hcell : ∀ id b, cellAt s' id = .tree b → (∃ id0, cellAt s id0 = .tree b) ∨
      ((binAt s.tbins b).mutex = none ∧ (binAt s.tbins b).writer = false ∧ (binAt s.tbins b).waiter = false))
    (htlen : s.tbins.length ≤ s'.tbins.length)
    (hsync : ∀ b, (binAt s'.tbins b).mutex = (binAt s.tbins b).mutex ∧
      (binAt s'.tbins b).writer = (binAt s.tbins b).writer ∧ (binAt s'.tbins b).waiter = (binAt s.tbins b).waiter)
    (hrd : ∀ b, b < s.tbins.length →
      (binAt s'.tbins b).readers + (if holdsRead l.pc = some b then 1 else 0) =
        (binAt s.tbins b).readers + (if holdsRead l'.pc = some b then 1 else 0))
    (hnew : ∀ b, s.tbins.length ≤ b → b < s'.tbins.length → (binAt s'.tbins b).readers = 0)
    (hwrd : ∀ b, (binAt s.tbins b).writer = true → (binAt s'.tbins b).readers = 0)
    (e5 : ∀ b, holdsMutex l.pc = some b → (∃ id, cellAt s' id = .tree b) →
      wr l'.pc = wr l.pc ∧ (isLoop l.pc = true → isLoop l'.pc = true))
    (e8 : ∀ b, binRef l'.pc = some b → binRef l.pc = some b ∨ (b < s.tbins.length ∧ ¬ PrivBin s b))
    (hpriv : ∀ b, b < s.tbins.length → PrivBin s' b → PrivBin s b) : RwPart s' := by
  refine ⟨?_, ?_, ?_, ?_, refOK_step L hl hthr htlen e8 hpriv⟩
  · intro id b hc hm
    rw [(hsync b).1] at hm
    rw [(hsync b).2.1, (hsync b).2.2]
    rcases hcell id b hc with ⟨id0, hc0⟩ | hd
    · exact L.bitsNone id0 b hc0 hm
    · exact hd.2
  · intro id b t1 l1 hc h1 hm
    rw [(hsync b).1] at hm
    rw [(hsync b).2.1, (hsync b).2.2]
    rcases hcell id b hc with ⟨id0, hc0⟩ | hd
    · rw [hthr] at h1
      rcases get_set h1 with ⟨rfl, rfl⟩ | ⟨_, h1⟩
      · obtain ⟨b1, b2⟩ := L.bitsSome id0 b t1 l hc0 hl hm
        have hh := (L.mx t1 l b hl).2 hm
        obtain ⟨f1, f2⟩ := e5 b hh ⟨id, hc⟩
        exact ⟨by rw [f1]; exact b1, fun hw => f2 (b2 hw)⟩
      · exact L.bitsSome id0 b t1 l1 hc0 h1 hm
    · rw [hd.1] at hm; cases hm
  · intro b hb
    by_cases hbo : b < s.tbins.length
    · have h1 := cnt_set (fun pc => holdsRead pc == some b) s.threads t l l' hl
      have h2 := hrd b hbo
      have h3 := L.rd b hbo
      rw [hthr]
      have e1 : ((holdsRead l.pc == some b) = true) ↔ holdsRead l.pc = some b := by simp
      have e2 : ((holdsRead l'.pc == some b) = true) ↔ holdsRead l'.pc = some b := by simp
      simp only [e1, e2] at h1
      omega
    · rw [hnew b (Nat.le_of_not_lt hbo) hb, cnt_read_new L hl hthr e8 (Nat.le_of_not_lt hbo)]
  · intro b hw
    rw [(hsync b).2.1] at hw
    exact hwrd b hw

/-- steps in which thread `t` changes mutex, `writer` or `waiter` of `TreeBin` `b0` (whose mutex it
holds or acquires); the cells are unchanged -/
theorem rw_bin {s s' : State} {t : Nat} {l l' : Local} {b0 : Nat} {tb : List TBin} (L : LInv s)
    (hl : s.threads[t]? = some l) (hthr : s'.threads = s.threads.set t l')
    (hcell : ∀ id, cellAt s' id = cellAt s id) (htb : s'.tbins = tb) (htlen : tb.length = s.tbins.length)
    (hbin : ∀ b, b ≠ b0 → binAt tb b = binAt s.tbins b)
    (hrd0 : (binAt tb b0).readers = (binAt s.tbins b0).readers)
    (hmine : holdsMutex l.pc = none ∨ holdsMutex l.pc = some b0)
    (hmf : MutexFun s s' t l.pc l'.pc)
    (c4 : (∃ id, cellAt s id = .tree b0) → (binAt tb b0).mutex = some t →
      (binAt tb b0).writer = wr l'.pc ∧ ((binAt tb b0).waiter = true → isLoop l'.pc = true))
    (c5 : (∃ id, cellAt s id = .tree b0) → (binAt tb b0).mutex = none →
      (binAt tb b0).writer = false ∧ (binAt tb b0).waiter = false)
    (c6 : ∀ x, x ≠ t → (binAt tb b0).mutex = some x →
      (binAt tb b0).writer = (binAt s.tbins b0).writer ∧ (binAt tb b0).waiter = (binAt s.tbins b0).waiter)
    (c8 : (binAt tb b0).writer = true → (binAt s.tbins b0).readers = 0)
    (e7 : holdsRead l'.pc = holdsRead l.pc)
    (e8 : ∀ b, binRef l'.pc = some b → binRef l.pc = some b ∨ (b < s.tbins.length ∧ ¬ PrivBin s b))
    (hpriv : ∀ b, b < s.tbins.length → PrivBin s' b → PrivBin s b) : RwPart s' := by
  subst htb
  refine ⟨?_, ?_, ?_, ?_, refOK_step L hl hthr (by omega) e8 hpriv⟩
  · intro id b hc hm
    rw [hcell] at hc
    by_cases hb : b = b0
    · subst hb; exact c5 ⟨id, hc⟩ hm
    · rw [hbin b hb] at hm ⊢
      exact L.bitsNone id b hc hm
  · intro id b t1 l1 hc h1 hm
    rw [hcell] at hc
    rw [hthr] at h1
    by_cases hb : b = b0
    · subst hb
      rcases get_set h1 with ⟨rfl, rfl⟩ | ⟨hne, h1⟩
      · exact c4 ⟨id, hc⟩ hm
      · obtain ⟨f1, f2⟩ := c6 t1 hne hm
        rw [f1, f2]
        refine L.bitsSome id b t1 l1 hc h1 ?_
        have := hmf b
        rw [hm] at this
        split at this
        · cases this; exact absurd rfl hne
        · split at this
          · cases this
          · exact this.symm
    · rw [hbin b hb] at hm ⊢
      rcases get_set h1 with ⟨rfl, rfl⟩ | ⟨_, h1⟩
      · exfalso
        have hh := (L.mx t1 l b hl).2 hm
        rcases hmine with h2 | h2
        · rw [h2] at hh; cases hh
        · rw [h2] at hh; exact hb (Option.some.inj hh).symm
      · exact L.bitsSome id b t1 l1 hc h1 hm
  · intro b hb
    rw [htlen] at hb
    have h1 := cnt_set (fun pc => holdsRead pc == some b) s.threads t l l' hl
    have h3 := L.rd b hb
    rw [hthr]
    rw [e7] at h1
    have : (binAt s'.tbins b).readers = (binAt s.tbins b).readers := by
      by_cases hbb : b = b0
      · subst hbb; exact hrd0
      · rw [hbin b hbb]
    omega
  · intro b hw
    by_cases hb : b = b0
    · subst hb; rw [hrd0]; exact c8 hw
    · rw [hbin b hb] at hw ⊢
      exact L.wrd b hw

/-- steps that change cells and leave every `TreeBin` alone (the conversions, the stores of a
transfer): a `TreeBin` in a cell of `s'` was in some cell of `s` or has default synchronisation words -/
theorem rw_cell {s s' : State} {t : Nat} {l l' : Local} (L : LInv s) (hl : s.threads[t]? = some l)
    (hthr : s'.threads = s.threads.set t l') (htb : s'.tbins = s.tbins)
    (hbits : ∀ id b, cellAt s' id = .tree b → (∃ id0, cellAt s id0 = .tree b) ∨
      ((binAt s.tbins b).mutex = none ∧ (binAt s.tbins b).writer = false ∧ (binAt s.tbins b).waiter = false))
    (e5 : ∀ b, holdsMutex l.pc = some b → (∃ id, cellAt s' id = .tree b) →
      wr l'.pc = wr l.pc ∧ (isLoop l.pc = true → isLoop l'.pc = true))
    (e7 : holdsRead l'.pc = holdsRead l.pc)
    (e8 : ∀ b, binRef l'.pc = some b → binRef l.pc = some b ∨ (b < s.tbins.length ∧ ¬ PrivBin s b))
    (hpriv : ∀ b, b < s.tbins.length → PrivBin s' b → PrivBin s b) : RwPart s' := by
  refine rw_gen L hl hthr hbits (by rw [htb]; exact Nat.le_refl _) (fun b => by rw [htb]; exact ⟨rfl, rfl, rfl⟩)
    (fun b _ => by rw [htb, e7]) (fun b h1 h2 => by rw [htb] at h2; omega)
    (fun b hw => by rw [htb]; exact L.wrd b hw) e5 e8 hpriv

/-! ## the whole lock invariant for the steps that leave cells and synchronisation words alone -/

/-- the lock invariant after a transition that leaves the cells, the mutexes and the synchronisation
words alone (`Move`, `Fin`, `KMove` of `Lemmas/BinGStep.lean`, and the stores into the heap) -/
theorem linv_same {s s' : State} {t : Nat} {l l' : Local} (L : LInv s) (hl : s.threads[t]? = some l)
    (hcell : ∀ id, cellAt s' id = cellAt s id) (hthr : s'.threads = s.threads.set t l') (hcur : s'.cur = s.cur)
    (htlen : s'.tbins.length = s.tbins.length)
    (hsync : ∀ b, (binAt s'.tbins b).mutex = (binAt s.tbins b).mutex ∧
      (binAt s'.tbins b).writer = (binAt s.tbins b).writer ∧ (binAt s'.tbins b).waiter = (binAt s.tbins b).waiter ∧
      (binAt s'.tbins b).readers = (binAt s.tbins b).readers)
    (hlf : LockFun s s' t l.pc l'.pc)
    (hacq : ∀ h, holdsLock l'.pc = some h → holdsLock l.pc = some h ∨ (nodeAt s.heap h).lock = none)
    (hvL : ∀ h, validL l'.pc = some h → cellAt s (cidOf s l') = .list h)
    (hvT : ∀ b, validT l'.pc = some b → cellAt s (cidOf s l') = .tree b)
    (hm : holdsMutex l'.pc = holdsMutex l.pc) (hr : holdsRead l'.pc = holdsRead l.pc)
    (e5 : ∀ b, holdsMutex l.pc = some b → (∃ id, cellAt s' id = .tree b) →
      wr l'.pc = wr l.pc ∧ (isLoop l.pc = true → isLoop l'.pc = true))
    (e8 : ∀ b, binRef l'.pc = some b → binRef l.pc = some b ∨ (b < s.tbins.length ∧ ¬ PrivBin s b))
    (hpriv : ∀ b, b < s.tbins.length → PrivBin s' b → PrivBin s b) : LInv s' := by
  refine LInv.of_parts
    (lk_step L hl hthr hcur hlf hacq (fun h hv => by rw [hcell, cidOf_cur hcur]; exact hvL h hv) (fun id => Or.inl (hcell id)))
    (mx_step L hl hthr hcur (mutexfun_same L hl hm (fun b => (hsync b).1)) (fun b hb => Or.inl (hm ▸ hb))
      (fun b hv => by rw [hcell, cidOf_cur hcur]; exact hvT b hv) (fun id => Or.inl (hcell id)))
    (rw_gen L hl hthr (fun id b hc => Or.inl ⟨id, by rw [hcell] at hc; exact hc⟩) (by omega)
      (fun b => ⟨(hsync b).1, (hsync b).2.1, (hsync b).2.2.1⟩)
      (fun b _ => by rw [(hsync b).2.2.2, hr]) (fun b h1 h2 => by omega)
      (fun b hw => by rw [(hsync b).2.2.2]; exact L.wrd b hw) e5 e8 hpriv)

end Flurry.Proto.BinGNP
