import Flurry.Lemmas.SeqBinsList
import Flurry.Lemmas.SeqBinsUpdate
import Flurry.Lemmas.SeqBinsSplit
/-! # Bin-level lemmas of the sequential model: summary, a decision procedure for `BinWF`, and
concrete instances

* `SeqBinsList.lean`: B1 `listFind_iff`/`listFind_none_iff`, B2 `Bin.find_iff`/`Bin.find_none_iff`,
  B3 `listSetVal_eq_map`, `listRemove_eq_filter`, `listBinCount_*`, …
* `SeqBinsUpdate.lean`: B4 `setValBin_wf`/`setValBin_nodes`, `removeBin_wf`/`removeBin_nodes`,
  B5 `insertBin_wf`/`insertBin_nodes_perm`, B6 `treeify_wf`
* `SeqBinsSplit.lean`: B7 `splitBin_wf`, `splitList_eq`, `splitTree_nodes`, `splitBin_find` -/
namespace Flurry.Seq
open Flurry Flurry.Gen

/-! ## `BinWF` is decidable -/

instance (hash : Nat → Nat) (n i : Nat) (nd : Node) : Decidable (NodeOk hash n i nd) :=
  inferInstanceAs (Decidable (nd.hash = hash nd.key ∧ bini nd.hash n = i))

instance (ns : List Node) : Decidable (KeysNodup ns) :=
  inferInstanceAs (Decidable (ns.map (·.key)).Nodup)

instance (hash : Nat → Nat) (n i : Nat) (b : Bin) : Decidable (BinWF hash n i b) :=
  match b with
  | .empty => isTrue trivial
  | .list ns =>
    inferInstanceAs (Decidable (ns ≠ [] ∧ (∀ nd ∈ ns, NodeOk hash n i nd) ∧ KeysNodup ns))
  | .tree t o =>
    decidable_of_iff (o ≠ [] ∧ (∀ nd ∈ o, NodeOk hash n i nd) ∧ KeysNodup o ∧
        RB.treeInvB t = true ∧ (RB.toList t).Perm o)
      (by simp only [BinWF, RB.treeInvB_iff])

/-! ## concrete instances (identity hash, table of 4 bins, bin 1) -/

private def nd (k : Nat) : Node := { hash := k, key := k, ki := 0, val := k, vi := k }

private def l3 : Bin := .list [nd 1, nd 5, nd 9]
private def keys9 : List Nat := [1, 9, 17, 25, 33, 41, 49, 5, 57]
private def t9 : Bin := .tree (RB.ofList (keys9.map nd)) (keys9.map nd)

example : BinWF id 4 1 l3 := by decide
example : BinWF id 4 1 t9 := by decide

-- B2
example : l3.find 5 5 = some (nd 5) := (Bin.find_iff (hash := id) (n := 4) (i := 1) (by decide)).2 (by decide)
example : t9.find 13 13 = none :=
  (Bin.find_none_iff (hash := id) (n := 4) (i := 1) (by decide)).2 (by decide)

-- B4
example : BinWF id 4 1 (setValBin 5 5 70 71 l3) := setValBin_wf 5 5 70 71 (by decide)
example : BinWF id 4 1 (removeBin 5 5 t9) :=
  removeBin_wf (old := nd 5) (by decide) (by decide)
example : (removeBin 5 5 t9).nodes = [1, 9, 17, 25, 33, 41, 49, 57].map nd := by decide
example : removeBin 5 5 (.list [nd 5]) = .empty := by decide

-- B5
example : BinWF id 4 1 (insertBin (nd 13) t9) :=
  insertBin_wf (h := 13) (k := 13) (by decide) (by decide) rfl rfl (by decide)
example : BinWF id 4 1 (insertBin (nd 13) l3) :=
  insertBin_wf (h := 13) (k := 13) (by decide) (by decide) rfl rfl (by decide)

-- B6
example : BinWF id 4 1 (.tree (RB.ofList (keys9.map nd)) (keys9.map nd)) :=
  treeify_wf (by decide)

-- B7: list bin. bits of 1, 5, 9, 13, 17, 25 w.r.t. 4: 0, 4, 0, 4, 0, 0; the last run starts at 4
example : lastRunStart 4 ([1, 5, 9, 13, 17, 25].map nd) = 4 := by decide
example : splitList 4 ([1, 5, 9, 13, 17, 25].map nd) = ([9, 1, 17, 25].map nd, [13, 5].map nd) := by
  decide
example : let b : Bin := .list ([1, 5, 9, 13, 17, 25].map nd)
    BinWF id (2 * 2 ^ 2) 1 (splitBin (2 ^ 2) b).1 ∧ BinWF id (2 * 2 ^ 2) (1 + 2 ^ 2) (splitBin (2 ^ 2) b).2 ∧
    ((splitBin (2 ^ 2) b).1.nodes ++ (splitBin (2 ^ 2) b).2.nodes).Perm b.nodes :=
  splitBin_wf (k := 2) (by decide)

-- B7: tree bin. 8 nodes stay (a new tree), 1 node leaves (a list)
example : splitBin 4 t9 =
    (.tree (RB.ofList ([1, 9, 17, 25, 33, 41, 49, 57].map nd)) ([1, 9, 17, 25, 33, 41, 49, 57].map nd),
     .list [nd 5]) := by decide
example : BinWF id (2 * 2 ^ 2) 1 (splitBin (2 ^ 2) t9).1 ∧ BinWF id (2 * 2 ^ 2) (1 + 2 ^ 2) (splitBin (2 ^ 2) t9).2 ∧
    ((splitBin (2 ^ 2) t9).1.nodes ++ (splitBin (2 ^ 2) t9).2.nodes).Perm t9.nodes :=
  splitBin_wf (k := 2) (by decide)
-- all nodes on one side: the old tree bin is reused
example : let b : Bin := .tree (RB.ofList ([1, 9, 17, 25, 33, 41, 49].map nd)) ([1, 9, 17, 25, 33, 41, 49].map nd)
    splitBin 4 b = (b, .empty) := by decide

end Flurry.Seq
