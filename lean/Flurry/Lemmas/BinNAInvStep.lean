import Flurry.Lemmas.BinNAInv
/-! # Proto/BinNA: every transition preserves the structural invariant (C01, C10)

`stepK_inv`: case by case over the normal form `StepK`; `inv_init`; `reachable_inv`. -/
namespace Flurry.Proto.BinNA
open Flurry.Lin

theorem keyOf_some {l : Local} {p : Pending} (h : l.call = some p) : keyOf l = p.key := by
  unfold keyOf; rw [h]

theorem Move.pcOp {s : State} {p : Pending} {pc pc' : Pc} (h : Move s p pc pc') {op : KOp}
    (h0 : PcOp pc op) : PcOp pc' op := by
  cases h <;> exact h0

theorem Move.isOp {s : State} {p : Pending} {pc pc' : Pc} (h : Move s p pc pc') : isOp pc' ∧ isOp pc := by
  cases h <;> exact ⟨trivial, trivial⟩

theorem Move.not_isT {s : State} {p : Pending} {pc pc' : Pc} (h : Move s p pc pc') : ¬ isT pc' := by
  cases h <;> exact id

theorem Move.not_mid {s : State} {p : Pending} {pc pc' : Pc} (h : Move s p pc pc') (j : Nat) : ¬ MidAt pc j := by
  cases h <;> exact id

theorem Fin.not_mid {s : State} {p : Pending} {pc : Pc} {res : KRes} (h : Fin s p pc res) (j : Nat) :
    ¬ MidAt pc j := by
  cases h <;> exact id

theorem TMove.isT {s : State} {pc pc' : Pc} (h : TMove s pc pc') : isT pc ∧ isT pc' := by
  cases h <;> exact ⟨trivial, trivial⟩

theorem TMove.not_isOp {s : State} {pc pc' : Pc} (h : TMove s pc pc') : ¬ isOp pc ∧ ¬ isOp pc' := by
  cases h <;> exact ⟨id, id⟩

theorem TMove.not_mid {s : State} {pc pc' : Pc} (h : TMove s pc pc') (j : Nat) : ¬ MidAt pc j := by
  cases h <;> exact id

theorem MidAt.isT {pc : Pc} {j : Nat} (h : MidAt pc j) : isT pc := by
  cases pc <;> first | exact False.elim h | trivial

theorem allMoved_spec {s : State} (h : allMoved s = true) : ∀ j, j < 2 ^ s.cur → getCell s s.cur j = .moved := by
  intro j hj
  unfold allMoved at h
  rw [List.all_eq_true] at h
  have := h j (List.mem_range.2 hj)
  simpa using this

/-- when the resizing thread is not in the middle of a transfer, nobody is -/
theorem Inv.noMid {s : State} (I : Inv s) {t : Nat} {l : Local} (hl : s.threads[t]? = some l) (hT : isT l.pc)
    (hn : ∀ p, ¬ MidAt l.pc p) (p : Nat) : ∀ (t1 : Nat) (l1 : Local), s.threads[t1]? = some l1 → ¬ MidAt l1.pc p := by
  intro t1 l1 h1 hm
  have := I.uniqT t1 t l1 l h1 hl hm.isT hT
  subst this
  rw [hl] at h1; cases h1
  exact hn p hm

theorem Move.pcOK {s : State} (I : Inv s) {p : Pending} {pc pc' : Pc} {t : Nat} (h : Move s p pc pc')
    (h0 : PcOK s t p.key pc) : PcOK s t p.key pc' := by
  cases h with
  | rTable => exact fwd_cur s _
  | rMoved hm => exact I.fwd_next h0 hm
  | wTable => exact fwd_cur s _
  | wEmpty _ _ => exact h0
  | wMoved hm => exact I.fwd_next h0 hm
  | wList _ => exact h0
  | casFail => exact h0
  | checkOk hl => exact ⟨h0.1, h0.2, hl⟩
  | checkFail _ => exact h0

theorem TMove.pcOK {s : State} (I : Inv s) {t key : Nat} {l : Local} (hl : s.threads[t]? = some l)
    {pc' : Pc} (h : TMove s l.pc pc') (h0 : PcOK s t key l.pc) : PcOK s t key pc' := by
  obtain ⟨pc, call⟩ := l
  simp only at h h0
  cases h with
  | nextDone hm => exact ⟨h0, allMoved_spec hm⟩
  | nextCell => exact ⟨h0, Nat.mod_lt _ (pow_pos' _)⟩
  | cellEmpty _ => exact h0
  | cellList _ => exact h0
  | cellMoved _ => exact h0.1
  | casFail _ => exact h0
  | @checkOk j xs hc =>
    obtain ⟨h1, h2, h3⟩ := h0
    have hno := fun p => I.noMid hl (l := ⟨.tCheck j, call⟩) trivial (fun _ => id) p
    refine ⟨h1, h2, h3, xs, hc, rfl, rfl, ?_, ?_⟩
    · refine I.child j ?_ (hno _)
      rw [mod_self_of_lt h2, hc]; simp
    · refine I.child (j + 2 ^ s.cur) ?_ (hno _)
      rw [add_pow_mod h2, hc]; simp

/-! ## the start and the end of a resize -/

theorem inv_alloc {s : State} {t : Nat} {l : Local} (I : Inv s) (hl : s.threads[t]? = some l)
    (hpc : l.pc = .idle) (hr : s.resizing = false) :
    Inv { (setT (tick s) t { l with pc := .tNext }) with
            resizing := true
            tabs := s.tabs ++ [List.replicate (2 ^ (s.cur + 1)) .empty]
            locks := s.locks ++ [List.replicate (2 ^ (s.cur + 1)) none] } := by
  have hc : ∀ g j, getCell { (setT (tick s) t { l with pc := .tNext }) with
            resizing := true
            tabs := s.tabs ++ [List.replicate (2 ^ (s.cur + 1)) .empty]
            locks := s.locks ++ [List.replicate (2 ^ (s.cur + 1)) none] } g j = getCell s g j :=
    fun g j => getD2_append_replicate s.tabs _ g j .empty
  have hk : ∀ g j, getLock { (setT (tick s) t { l with pc := .tNext }) with
            resizing := true
            tabs := s.tabs ++ [List.replicate (2 ^ (s.cur + 1)) .empty]
            locks := s.locks ++ [List.replicate (2 ^ (s.cur + 1)) none] } g j = getLock s g j :=
    fun g j => getD2_append_replicate s.locks _ g j none
  have hlen : s.tabs.length = s.cur + 1 := by
    have := I.shape.len; rw [hr] at this; simpa using this
  have K : ∀ t1, Keeps s { (setT (tick s) t { l with pc := .tNext }) with
            resizing := true
            tabs := s.tabs ++ [List.replicate (2 ^ (s.cur + 1)) .empty]
            locks := s.locks ++ [List.replicate (2 ^ (s.cur + 1)) none] } t1 :=
    fun t1 => Keeps.of_same rfl (fun _ => rfl) hc hk
  have hnoT : ∀ (t1 : Nat) (l1 : Local), s.threads[t1]? = some l1 → ¬ isT l1.pc := by
    intro t1 l1 h1 hT1
    have h := I.pc t1 l1 h1
    have : s.resizing = true := by
      cases hp : l1.pc <;> rw [hp] at hT1 h <;> first | exact False.elim hT1 | exact h | exact h.1
    rw [hr] at this; cases this
  refine ⟨⟨?_, ?_, ?_, ?_⟩, ?_, ?_, ?_, ?_, ?_, ?_, ?_⟩
  · show (s.tabs ++ [_]).length = s.cur + 1 + (if true = true then 1 else 0)
    rw [List.length_append, hlen]; rfl
  · show (s.locks ++ [_]).length = (s.tabs ++ [_]).length
    rw [List.length_append, List.length_append, I.shape.llen]
    rfl
  · intro g hg
    have hg' : g < s.tabs.length + 1 := by
      have : (s.tabs ++ [List.replicate (2 ^ (s.cur + 1)) Cell.empty]).length = s.tabs.length + 1 := by
        rw [List.length_append]; rfl
      rw [← this]; exact hg
    show ((s.tabs ++ [List.replicate (2 ^ (s.cur + 1)) Cell.empty]).getD g []).length = 2 ^ g
    rw [List.getD_eq_getElem?_getD]
    by_cases hlt : g < s.tabs.length
    · rw [List.getElem?_append_left hlt, ← List.getD_eq_getElem?_getD]; exact I.shape.row g hlt
    · have hge : g = s.tabs.length := by omega
      subst hge
      rw [List.getElem?_append_right (Nat.le_refl _)]
      simp [hlen]
  · intro g hg
    have hg' : g < s.tabs.length + 1 := by
      have : (s.tabs ++ [List.replicate (2 ^ (s.cur + 1)) Cell.empty]).length = s.tabs.length + 1 := by
        rw [List.length_append]; rfl
      rw [← this]; exact hg
    show ((s.locks ++ [List.replicate (2 ^ (s.cur + 1)) none]).getD g []).length = 2 ^ g
    rw [List.getD_eq_getElem?_getD]
    by_cases hlt : g < s.tabs.length
    · rw [List.getElem?_append_left (by rw [I.shape.llen]; exact hlt), ← List.getD_eq_getElem?_getD]
      exact I.shape.lrow g hlt
    · have hge : g = s.locks.length := by rw [I.shape.llen]; omega
      subst hge
      rw [List.getElem?_append_right (Nat.le_refl _)]
      simp [I.shape.llen, hlen]
  · exact tinv_keep (l' := { l with pc := .tNext }) I.thr hl rfl rfl rfl rfl (fun _ _ => trivial)
      (by rw [hpc]; exact ⟨fun h => h, fun h => h⟩)
  · intro g j hg hj; rw [hc]; exact I.old g j hg hj
  · intro g j hg; rw [hc]; exact I.newer g j hg
  · intro h; cases h
  · intro j' hpar hno
    rw [hc] at hpar ⊢
    refine I.child j' hpar ?_
    intro t1 l1 h1 hm
    exact hnoT t1 l1 h1 hm.isT
  · intro t1 l1 h1
    rcases get_set (l := s.threads) h1 with ⟨rfl, rfl⟩ | ⟨_, h1⟩
    · rfl
    · exact (I.pc t1 l1 h1).keeps (K t1)
  · intro t1 t2 l1 l2 h1 h2 hT1 hT2
    rcases get_set (l := s.threads) h1 with ⟨e1, _⟩ | ⟨_, h1'⟩ <;>
      rcases get_set (l := s.threads) h2 with ⟨e2, _⟩ | ⟨_, h2'⟩
    · rw [e1, e2]
    · exact absurd hT2 (hnoT t2 l2 h2')
    · exact absurd hT1 (hnoT t1 l1 h1')
    · exact absurd hT1 (hnoT t1 l1 h1')

theorem PcOK.commit {s s' : State} {t1 key : Nat} {pc : Pc} (hcur : s'.cur = s.cur + 1)
    (hc : ∀ g j, getCell s' g j = getCell s g j) (hk : ∀ g j, getLock s' g j = getLock s g j)
    (hT : ¬ isT pc) (h : PcOK s t1 key pc) : PcOK s' t1 key pc := by
  have hf : ∀ g j, Fwd s g j → Fwd s' g j := by
    intro g j hf
    unfold Fwd
    rw [hcur]
    exact ⟨by have := hf.1; omega, fun hg => by have := hf.1; omega⟩
  cases pc with
  | idle => trivial
  | rTable => trivial
  | wTable => trivial
  | rCell g => exact hf _ _ h
  | wCell g => exact hf _ _ h
  | wCas g => exact hf _ _ h
  | wLock g => exact hf _ _ h
  | wCheck g => exact ⟨hf _ _ h.1, by rw [hk]; exact h.2⟩
  | wUnlock g res retry => exact ⟨hf _ _ h.1, by rw [hk]; exact h.2⟩
  | wStore g => exact ⟨hf _ _ h.1, by rw [hk]; exact h.2.1, by rw [hc]; exact h.2.2⟩
  | tNext => exact absurd trivial hT
  | tCommit => exact absurd trivial hT
  | tCell j => exact absurd trivial hT
  | tCasMoved j => exact absurd trivial hT
  | tLock j => exact absurd trivial hT
  | tCheck j => exact absurd trivial hT
  | tUnlock j => exact absurd trivial hT
  | tStoreLow j lo hi => exact absurd trivial hT
  | tStoreHigh j hi => exact absurd trivial hT
  | tStoreMoved j => exact absurd trivial hT

theorem inv_commit {s : State} {t : Nat} {l : Local} (I : Inv s) (hl : s.threads[t]? = some l)
    (hpc : l.pc = .tCommit) :
    Inv { (setT (tick s) t { l with pc := .idle }) with cur := s.cur + 1, resizing := false } := by
  have h0 := I.pc t l hl
  rw [hpc] at h0
  obtain ⟨hrz, hall⟩ := h0
  have hlen := I.len_rz hrz
  have hT : isT l.pc := by rw [hpc]; trivial
  refine ⟨⟨?_, I.shape.llen, I.shape.row, I.shape.lrow⟩, ?_, ?_, ?_, ?_, ?_, ?_, ?_⟩
  · show s.tabs.length = s.cur + 1 + 1 + (if false = true then 1 else 0)
    rw [hlen]; rfl
  · exact tinv_keep (l' := { l with pc := .idle }) I.thr hl rfl rfl rfl rfl (fun _ _ => trivial)
      (by rw [hpc]; exact ⟨fun h => h, fun h => h⟩)
  · intro g j hg hj
    show getCell s g j = .moved
    have hg' : g < s.cur + 1 := hg
    by_cases he : g = s.cur
    · subst he; exact hall j hj
    · exact I.old g j (by omega) hj
  · intro g j hg
    show getCell s g j ≠ .moved
    have hg' : s.cur + 1 < g := hg
    exact I.newer g j (by omega)
  · intro _ j
    show getCell s (s.cur + 1) j ≠ .moved
    exact I.newer _ j (by omega)
  · intro j' _ _
    show getCell s (s.cur + 1 + 1) j' = .empty
    exact getCell_oob (by omega)
  · intro t1 l1 h1
    rcases get_set (l := s.threads) h1 with ⟨rfl, rfl⟩ | ⟨hne, h1⟩
    · trivial
    · refine (I.pc t1 l1 h1).commit rfl (fun _ _ => rfl) (fun _ _ => rfl) ?_
      intro hT1
      exact hne (I.uniqT t1 t l1 l h1 hl hT1 hT)
  · intro t1 t2 l1 l2 h1 h2 hT1 hT2
    rcases get_set (l := s.threads) h1 with ⟨e1, e1'⟩ | ⟨hne1, h1'⟩
    · rw [e1'] at hT1; exact False.elim hT1
    · rcases get_set (l := s.threads) h2 with ⟨e2, e2'⟩ | ⟨hne2, h2'⟩
      · rw [e2'] at hT2; exact False.elim hT2
      · exact I.uniqT _ _ _ _ h1' h2' hT1 hT2

/-! ## all transitions -/

theorem stepK_inv {s s' : State} {t : Nat} {l : Local} (I : Inv s) (hl : s.threads[t]? = some l)
    (hstep : StepK s t l s') : Inv s' := by
  have h0 := I.pc t l hl
  have T := I.thr
  cases hstep with
  | idle hpc =>
    refine inv_eff I hl (eff_same I rfl rfl rfl rfl rfl)
      (tinv_keep T hl rfl rfl rfl rfl (fun p hp => T.opOK t l p hl hp) Iff.rfl) ?_ id (fun p h => Or.inl h)
    rw [hpc]; trivial
  | invoke k op hpc =>
    refine inv_eff I hl (eff_same I rfl rfl rfl rfl rfl)
      (tinv_invoke (k := k) (op := op) T hl rfl rfl rfl rfl ?_ ?_) ?_ ?_ ?_
    · cases hr : isReader op <;> simp [hr, PcOp]
    · cases hr : isReader op <;> simp [isOp]
    · show PcOK _ t _ (if isReader op then .rTable else .wTable)
      cases hr : isReader op <;> trivial
    · show isT (if isReader op then .rTable else .wTable) → _
      cases hr : isReader op <;> exact fun h => False.elim h
    · intro p h; rw [hpc] at h; exact False.elim h
  | resize hpc hr => exact inv_alloc I hl hpc hr
  | move p pc' hp hm =>
    have hk := keyOf_some hp
    rw [hk] at h0
    refine inv_eff (l' := { l with pc := pc' }) I hl (eff_same I rfl rfl rfl rfl rfl)
      (tinv_keep T hl rfl rfl rfl rfl (fun p1 hp1 => hm.pcOp (T.opOK t l p1 hl hp1)) ?_) ?_ ?_ ?_
    · exact ⟨fun _ => hm.isOp.2, fun _ => hm.isOp.1⟩
    · show PcOK _ t (keyOf l) pc'
      rw [hk]
      exact (hm.pcOK I h0).keeps (Keeps.of_same rfl (fun h => h) (fun _ _ => rfl) (fun _ _ => rfl))
    · exact fun h => absurd h hm.not_isT
    · exact fun j h => absurd h (hm.not_mid j)
  | tmove pc' hp hm =>
    refine inv_eff (l' := { l with pc := pc' }) I hl (eff_same I rfl rfl rfl rfl rfl)
      (tinv_keep T hl rfl rfl rfl rfl (fun p1 hp1 => by rw [hp] at hp1; cases hp1) ?_) ?_ ?_ ?_
    · exact ⟨fun h => absurd h hm.not_isOp.2, fun h => absurd h hm.not_isOp.1⟩
    · exact (hm.pcOK I hl h0).keeps (Keeps.of_same rfl (fun h => h) (fun _ _ => rfl) (fun _ _ => rfl))
    · exact fun _ => hm.isT.1
    · exact fun j h => absurd h (hm.not_mid j)
  | acq g j pc' ha hfree =>
    have e : Eff s (setT (setLock (tick s) g j (some t)) t { l with pc := pc' }) t { l with pc := pc' } :=
      eff_lock I rfl rfl rfl rfl rfl (Or.inl hfree)
    have hgl : ∀ (hg : g < s.tabs.length) (hj : j < 2 ^ g),
        getLock (setT (setLock (tick s) g j (some t)) t { l with pc := pc' }) g j = some t := by
      intro hg hj
      rw [getLock_of_setLock (s' := setT (setLock (tick s) g j (some t)) t { l with pc := pc' }) I rfl hg hj,
        if_pos ⟨rfl, rfl⟩]
    have K : Keeps s (setT (setLock (tick s) g j (some t)) t { l with pc := pc' }) t := by
      refine ⟨rfl, fun h => h, fun _ _ h => h, ?_, fun _ _ _ _ _ => rfl, fun _ _ _ => rfl⟩
      intro g' j' h
      by_cases hh : g' = g ∧ j' = j
      · obtain ⟨rfl, rfl⟩ := hh
        rw [hfree] at h; cases h
      · have : getLock (setT (setLock (tick s) g j (some t)) t { l with pc := pc' }) g' j' =
            getLock (setLock s g j (some t)) g' j' := rfl
        rw [this, getLock_setLock, if_neg (fun h3 => hh ⟨h3.1, h3.2.1⟩)]
        exact h
    cases ha with
    | @w g p hp hpc =>
      rw [hpc, keyOf_some hp] at h0
      refine inv_eff (l' := { l with pc := .wCheck g }) I hl e
        (tinv_keep T hl rfl rfl rfl rfl (fun p1 hp1 => ?_) ?_) ?_ ?_ ?_
      · have := T.opOK t l p1 hl hp1; rw [hpc] at this; exact this
      · rw [hpc]; exact ⟨fun _ => trivial, fun _ => trivial⟩
      · show PcOK _ t (keyOf l) (.wCheck g)
        rw [keyOf_some hp]
        exact ⟨K.fwd h0, hgl (I.inb h0) (ix_lt _ _)⟩
      · exact fun h => False.elim h
      · intro q h; rw [hpc] at h; exact False.elim h
    | @t j hp hpc =>
      rw [hpc] at h0
      refine inv_eff (l' := { l with pc := .tCheck j }) I hl e
        (tinv_keep T hl rfl rfl rfl rfl (fun p1 hp1 => by rw [hp] at hp1; cases hp1) ?_) ?_ ?_ ?_
      · rw [hpc]; exact ⟨fun h => h, fun h => h⟩
      · exact ⟨h0.1, h0.2, hgl (by have := I.len_ge; omega) h0.2⟩
      · intro _; rw [hpc]; trivial
      · intro q h; rw [hpc] at h; exact False.elim h
  | rel g j pc' hrel =>
    have hheld : getLock s g j = some t := by
      cases hrel with
      | @w g p res hp hpc => rw [hpc, keyOf_some hp] at h0; exact h0.2
      | @tFail j hp hpc _ => rw [hpc] at h0; exact h0.2.2
      | @t j hp hpc => rw [hpc] at h0; exact h0.2.2
    have e : Eff s (setT (setLock (tick s) g j none) t { l with pc := pc' }) t { l with pc := pc' } :=
      eff_lock I rfl rfl rfl rfl rfl (Or.inr hheld)
    have hfw : ∀ g' j', Fwd s g' j' → Fwd (setT (setLock (tick s) g j none) t { l with pc := pc' }) g' j' :=
      fun _ _ h => h
    cases hrel with
    | @w g p res hp hpc =>
      rw [hpc, keyOf_some hp] at h0
      refine inv_eff (l' := { l with pc := .wCell g }) I hl e
        (tinv_keep T hl rfl rfl rfl rfl (fun p1 hp1 => ?_) ?_) ?_ ?_ ?_
      · have := T.opOK t l p1 hl hp1; rw [hpc] at this; exact this
      · rw [hpc]; exact ⟨fun _ => trivial, fun _ => trivial⟩
      · show PcOK _ t (keyOf l) (.wCell g)
        rw [keyOf_some hp]
        exact hfw _ _ h0.1
      · exact fun h => False.elim h
      · intro q h; rw [hpc] at h; exact False.elim h
    | @tFail j hp hpc _ =>
      rw [hpc] at h0
      refine inv_eff (l' := { l with pc := .tCell j }) I hl e
        (tinv_keep T hl rfl rfl rfl rfl (fun p1 hp1 => by rw [hp] at hp1; cases hp1) ?_) ?_ ?_ ?_
      · rw [hpc]; exact ⟨fun h => h, fun h => h⟩
      · exact ⟨h0.1, h0.2.1⟩
      · intro _; rw [hpc]; trivial
      · intro q h; rw [hpc] at h; exact False.elim h
    | @t j hp hpc =>
      rw [hpc] at h0
      refine inv_eff (l' := { l with pc := .tNext }) I hl e
        (tinv_keep T hl rfl rfl rfl rfl (fun p1 hp1 => by rw [hp] at hp1; cases hp1) ?_) ?_ ?_ ?_
      · rw [hpc]; exact ⟨fun h => h, fun h => h⟩
      · exact h0.1
      · intro _; rw [hpc]; trivial
      · intro q h; rw [hpc] at h; exact False.elim h
  | fin p res hp hf =>
    refine inv_eff (l' := { pc := .idle, call := none }) I hl (eff_same I rfl rfl rfl rfl rfl)
      (tinv_finish (res := res) T hl hp rfl rfl rfl rfl id) trivial (fun h => False.elim h) ?_
    exact fun q h => absurd h (hf.not_mid q)
  | cas p g v vi hp hpc hc hop =>
    rw [hpc, keyOf_some hp] at h0
    refine inv_eff (l' := { pc := .idle, call := none }) I hl
      (eff_cell (c := .list [(p.key, (v, vi))]) I rfl rfl rfl rfl rfl (Or.inl ⟨h0, Or.inl hc⟩) (fun h => by cases h))
      (tinv_finish (res := .none) T hl hp rfl rfl rfl rfl id) trivial (fun h => False.elim h) ?_
    intro q h; rw [hpc] at h; exact False.elim h
  | store p g hp hpc =>
    rw [hpc, keyOf_some hp] at h0
    obtain ⟨hf, hlk, hlist⟩ := h0
    have e : Eff s (setT (setCell (tick s) g (ix g p.key) (storeCell s g p)) t
        { l with pc := .wUnlock g (storeRes s g p) false }) t { l with pc := .wUnlock g (storeRes s g p) false } :=
      eff_cell I rfl rfl rfl rfl rfl (Or.inl ⟨hf, Or.inr ⟨hlk, hlist⟩⟩)
        (fun h => absurd h (mkCell_ne_moved _))
    refine inv_eff I hl e (tinv_keep T hl rfl rfl rfl rfl (fun p1 hp1 => ?_) ?_) ?_ ?_ ?_
    · have := T.opOK t l p1 hl hp1; rw [hpc] at this; exact this
    · rw [hpc]; exact ⟨fun _ => trivial, fun _ => trivial⟩
    · show PcOK _ t (keyOf l) (.wUnlock g (storeRes s g p) false)
      rw [keyOf_some hp]
      refine ⟨?_, hlk⟩
      unfold Fwd
      refine ⟨hf.1, fun hg => e.moved I (hf.2 hg)⟩
    · exact fun h => False.elim h
    · intro q h; rw [hpc] at h; exact False.elim h
  | unlockFin p g res hp hpc =>
    rw [hpc, keyOf_some hp] at h0
    refine inv_eff (l' := { pc := .idle, call := none }) I hl
      (eff_lock (x := none) I rfl rfl rfl rfl rfl (Or.inr h0.2))
      (tinv_finish (res := res) T hl hp rfl rfl rfl rfl id) trivial (fun h => False.elim h) ?_
    intro q h; rw [hpc] at h; exact False.elim h
  | casMoved j hp hpc hc =>
    rw [hpc] at h0
    refine inv_eff (l' := { l with pc := .tNext }) I hl
      (eff_cell (c := .moved) I rfl rfl rfl rfl rfl (Or.inl ⟨fwd_cur s j, Or.inl hc⟩) (fun _ => ⟨rfl, h0.1⟩))
      (tinv_keep T hl rfl rfl rfl rfl (fun p1 hp1 => by rw [hp] at hp1; cases hp1) ?_) h0.1 ?_ ?_
    · rw [hpc]; exact ⟨fun h => h, fun h => h⟩
    · intro _; rw [hpc]; trivial
    · intro q h; rw [hpc] at h; exact False.elim h
  | storeLow j lo hi hp hpc =>
    rw [hpc] at h0
    obtain ⟨h1, h2, h3, xs, h4, h5, h6, h7, h8⟩ := h0
    have hl4 : isList (getCell s s.cur j) = true := by rw [h4]; rfl
    have hlen := I.len_rz h1
    have e : Eff s (setT (setCell (tick s) (s.cur + 1) j lo) t { l with pc := .tStoreHigh j hi }) t
        { l with pc := .tStoreHigh j hi } :=
      eff_cell I rfl rfl rfl rfl rfl
        (Or.inr ⟨rfl, by rw [mod_self_of_lt h2]; exact h3, by rw [mod_self_of_lt h2]; exact hl4,
          (mod_self_of_lt h2).symm⟩)
        (fun h => absurd (h5 ▸ h) (mkCell_ne_moved _))
    have hj1 : j < 2 ^ (s.cur + 1) := by rw [Nat.pow_succ]; omega
    have hg := getCell_of_setCell (s' := setT (setCell (tick s) (s.cur + 1) j lo) t { l with pc := .tStoreHigh j hi })
      I rfl (by omega) hj1
    refine inv_eff I hl e (tinv_keep T hl rfl rfl rfl rfl (fun p1 hp1 => by rw [hp] at hp1; cases hp1) ?_) ?_ ?_ ?_
    · rw [hpc]; exact ⟨fun h => h, fun h => h⟩
    · refine ⟨h1, h2, h3, xs, ?_, ?_, h6, ?_⟩
      · show getCell _ s.cur j = _
        rw [hg, if_neg (by omega)]; exact h4
      · show getCell _ (s.cur + 1) j = _
        rw [hg, if_pos ⟨rfl, rfl⟩]; exact h5
      · show getCell _ (s.cur + 1) (j + 2 ^ s.cur) = _
        have := pow_pos' s.cur
        rw [hg, if_neg (by omega)]; exact h8
    · intro _; rw [hpc]; trivial
    · intro q h; rw [hpc] at h; exact False.elim h
  | storeHigh j hi hp hpc =>
    rw [hpc] at h0
    obtain ⟨h1, h2, h3, xs, h4, h5, h6, h8⟩ := h0
    have hl4 : isList (getCell s s.cur j) = true := by rw [h4]; rfl
    have hlen := I.len_rz h1
    have e : Eff s (setT (setCell (tick s) (s.cur + 1) (j + 2 ^ s.cur) hi) t { l with pc := .tStoreMoved j }) t
        { l with pc := .tStoreMoved j } :=
      eff_cell I rfl rfl rfl rfl rfl
        (Or.inr ⟨rfl, by rw [add_pow_mod h2]; exact h3, by rw [add_pow_mod h2]; exact hl4,
          (add_pow_mod h2).symm⟩)
        (fun h => absurd (h6 ▸ h) (mkCell_ne_moved _))
    have hj1 : j + 2 ^ s.cur < 2 ^ (s.cur + 1) := by rw [Nat.pow_succ]; omega
    have hg := getCell_of_setCell
      (s' := setT (setCell (tick s) (s.cur + 1) (j + 2 ^ s.cur) hi) t { l with pc := .tStoreMoved j })
      I rfl (by omega) hj1
    refine inv_eff I hl e (tinv_keep T hl rfl rfl rfl rfl (fun p1 hp1 => by rw [hp] at hp1; cases hp1) ?_) ?_ ?_ ?_
    · rw [hpc]; exact ⟨fun h => h, fun h => h⟩
    · refine ⟨h1, h2, h3, xs, ?_, ?_, ?_⟩
      · show getCell _ s.cur j = _
        rw [hg, if_neg (by omega)]; exact h4
      · show getCell _ (s.cur + 1) j = _
        have := pow_pos' s.cur
        rw [hg, if_neg (by omega)]; exact h5
      · show getCell _ (s.cur + 1) (j + 2 ^ s.cur) = _
        rw [hg, if_pos ⟨rfl, rfl⟩]; exact h6
    · intro _; rw [hpc]; trivial
    · intro q h
      rw [hpc] at h
      exact Or.inl h
  | storeMoved j hp hpc =>
    rw [hpc] at h0
    obtain ⟨h1, h2, h3, xs, h4, h5, h8⟩ := h0
    have hl4 : isList (getCell s s.cur j) = true := by rw [h4]; rfl
    have e : Eff s (setT (setCell (tick s) s.cur j .moved) t { l with pc := .tUnlock j }) t
        { l with pc := .tUnlock j } :=
      eff_cell I rfl rfl rfl rfl rfl (Or.inl ⟨fwd_cur s j, Or.inr ⟨h3, hl4⟩⟩) (fun _ => ⟨rfl, h1⟩)
    have hg := getCell_of_setCell (s' := setT (setCell (tick s) s.cur j .moved) t { l with pc := .tUnlock j })
      I rfl (by have := I.len_ge; omega) h2
    refine inv_eff I hl e (tinv_keep T hl rfl rfl rfl rfl (fun p1 hp1 => by rw [hp] at hp1; cases hp1) ?_) ?_ ?_ ?_
    · rw [hpc]; exact ⟨fun h => h, fun h => h⟩
    · exact ⟨h1, h2, h3⟩
    · intro _; rw [hpc]; trivial
    · intro q h
      rw [hpc] at h
      have hq : j = q := h
      subst hq
      refine Or.inr ?_
      rw [hg, if_pos ⟨rfl, rfl⟩]
  | commit hp hpc => exact inv_commit I hl hpc

theorem init_thread {n t : Nat} {l : Local} (h : (init n).threads[t]? = some l) : l = {} := by
  have := List.mem_of_getElem? h
  exact List.eq_of_mem_replicate this

theorem inv_init (n : Nat) : Inv (init n) := by
  refine ⟨⟨rfl, rfl, ?_, ?_⟩, ⟨?_, ?_, ?_, ?_, ?_, ?_, ?_⟩, ?_, ?_, ?_, ?_, ?_, ?_⟩
  · intro g hg
    have : g = 0 := by have : (init n).tabs.length = 1 := rfl; omega
    subst this; rfl
  · intro g hg
    have : g = 0 := by have : (init n).tabs.length = 1 := rfl; omega
    subst this; rfl
  · intro t l p h hc; rw [init_thread h] at hc; cases hc
  · intro t l h; rw [init_thread h]; exact ⟨fun h => False.elim h, fun h => by cases h⟩
  · intro x hx; cases hx
  · intro t l p h hc; rw [init_thread h] at hc; cases hc
  · intro x hx; cases hx
  · intro t t' l l' p p' h _ hc; rw [init_thread h] at hc; cases hc
  · exact List.Pairwise.nil
  · intro g j hg; cases hg
  · intro g j hg
    have : getCell (init n) g j = .empty := by
      apply getCell_oob
      have : (init n).tabs.length = 1 := rfl
      have : (init n).cur = 0 := rfl
      omega
    rw [this]; simp
  · intro _ j
    have : getCell (init n) 0 j = .empty := by
      unfold getCell
      cases j <;> rfl
    show getCell (init n) 0 j ≠ .moved
    rw [this]; simp
  · intro j' _ _
    exact getCell_oob (Nat.le_refl _)
  · intro t l h; rw [init_thread h]; trivial
  · intro t t' l l' h _ hT; rw [init_thread h] at hT; exact False.elim hT

theorem reachable_inv {n : Nat} {s : State} (hr : Reachable n s) : Inv s := by
  induction hr with
  | init => exact inv_init n
  | @step s s' t inv rz pick hr hs ih =>
    cases hl : s.threads[t]? with
    | none => unfold step stepG at hs; rw [hl] at hs; cases hs
    | some l => exact stepK_inv ih hl (step_stepK hl hs)

end Flurry.Proto.BinNA
