import Flurry.Lemmas.TableG
/-! # Proto/TableG: non-vacuity — a concrete reachable quiescent table, resized, with calls before, during and after

Two lineages (`m = 2`: key `k` in lineage `(k / 2) % 2`, so keys 0, 1, 4, 5 in lineage 0 and 2, 3 in
lineage 1; odd keys go to the high cell), two threads, 100 transitions on one clock.

* **before**: thread 0 inserts key 1 and key 0 (lineage 0, a list bin with one key per side) while
  thread 1 inserts key 2 and key 3 (lineage 1) and then treeifies that bin (`TreeBin` 0);
* **lineage 0 is transferred by thread 0** (list split: node 1 — the last run — is re-used, node 0 is
  copied); thread 1's `get(0)` is invoked after the resize started, loads the old table pointer and the
  old cell, stands on node 0 of the old list while the low cell, the high cell and the forwarding
  marker are stored (`example_during`), walks on in the old list and returns after the commit of
  thread 0 (`cur = new` in lineage 0);
* **lineage 1 is transferred by thread 1** (a helper; tree-bin split into two fresh `TreeBin`s) —
  thread 0's `insert(3)` is invoked when lineage 0 is committed and lineage 1 is not even forwarded,
  and completes in the OLD table of lineage 1 (the per-lineage table pointer) before thread 1 takes the
  mutex; thread 1 stores low, high, marker, unlocks, commits (`cur = new` in lineage 1);
* **after**: `get(1)` (lineage 0, high), `remove(2)` (lineage 1, low, tree form), `insert(5)` (lineage 0,
  high, a new key in the new table), `get(3)` (lineage 1, high, lock-protocol reader of the new `TreeBin`).

The final state is reachable and quiescent, both lineages are forwarded and committed, the map
history holds the ten calls with times on ONE clock (calls of different lineages overlap), and the
abstract map is `{0 ↦ (30,300), 1 ↦ (10,100), 3 ↦ (41,401), 5 ↦ (50,500)}`. `step` refuses a call on a
key of another lineage, a thread that is busy in another lineage — in particular a thread that is in
the middle of the transfer of one lineage cannot start the transfer of another —, and a second
transfer of the same lineage is a no-op. -/
namespace Flurry.Proto.TableG
open Flurry.Lin Flurry.LinMap

/-- `(lineage, thread, invocation, listOnly, maint, resize, small, small2)` -/
abbrev Sch := Nat × Nat × Option (Nat × KOp) × Bool × Option Nat × Bool × Bool × Bool

def run (S : State) : List Sch → Option State
  | [] => some S
  | (i, t, inv, lo, mt, rz, sm, sm2) :: rest =>
    match step S i t inv lo mt rz sm sm2 with
    | some S' => run S' rest
    | none => none

theorem run_reachable {m n : Nat} : ∀ (sched : List Sch) {S S' : State},
    Reachable m n S → run S sched = some S' → Reachable m n S'
  | [], S, S', hr, h => by
    simp only [run, Option.some.injEq] at h
    exact h ▸ hr
  | (i, t, inv, lo, mt, rz, sm, sm2) :: rest, S, S', hr, h => by
    simp only [run] at h
    cases hs : step S i t inv lo mt rz sm sm2 with
    | none => rw [hs] at h; cases h
    | some S1 =>
      rw [hs] at h
      exact run_reachable rest (Reachable.step i t inv lo mt rz sm sm2 hr hs) h

/-- thread `t` starts a call on key `k` in lineage `i` -/
abbrev call (i t k : Nat) (op : KOp) : List Sch := [(i, t, some (k, op), false, none, false, false, false)]
/-- `n` further steps of thread `t` in lineage `i` -/
abbrev go (i t n : Nat) : List Sch := List.replicate n (i, t, none, false, none, false, false, false)
/-- thread `t` starts a treeify of the cell of key `k` in lineage `i` -/
abbrev treeify (i t k : Nat) : List Sch := [(i, t, none, false, some k, false, false, false)]
/-- thread `t` starts the transfer of lineage `i` -/
abbrev resize (i t : Nat) : List Sch := [(i, t, none, false, none, true, false, false)]

def exBefore : List Sch :=
  call 0 0 1 (.ins 10 100) ++ call 1 1 2 (.ins 20 200) ++ go 0 0 3 ++ go 1 1 3 ++
  call 0 0 0 (.ins 30 300) ++ call 1 1 3 (.ins 40 400) ++ go 1 1 8 ++ go 0 0 8 ++ treeify 1 1 2 ++ go 1 1 7

/-- thread 0 starts the transfer of lineage 0 (`xCell`, `xLock`); thread 1 calls `get(0)` and loads
the table pointer and the old cell; thread 0 re-checks, splits, stores low, high and the marker -/
def exResize0a : List Sch :=
  resize 0 0 ++ go 0 0 2 ++ call 0 1 0 .get ++ go 0 1 2 ++ go 0 0 5

/-- … thread 1 walks on in the old list, thread 0 unlocks and commits, thread 1 finds its key -/
def exResize0 : List Sch := exResize0a ++ go 0 1 1 ++ go 0 0 2 ++ go 0 1 1

/-- thread 0 updates key 3 in the old table of lineage 1; thread 1 transfers lineage 1 -/
def exResize1 : List Sch :=
  call 1 0 3 (.ins 41 401) ++ go 1 0 1 ++ resize 1 1 ++ go 1 1 1 ++ go 1 0 6 ++ go 1 1 8

def exAfter : List Sch :=
  call 0 0 1 .get ++ call 1 1 2 .rm ++ go 0 0 3 ++ go 1 1 10 ++
  call 0 1 5 (.ins 50 500) ++ call 1 0 3 .get ++ go 0 1 8 ++ go 1 0 8

def exSchedule : List Sch := exBefore ++ exResize0 ++ exResize1 ++ exAfter

def exHist : MHistory :=
  [ ⟨1, ⟨0, .ins 10 100, .none, 1, 5⟩⟩, ⟨0, ⟨0, .ins 30 300, .none, 9, 26⟩⟩,
    ⟨0, ⟨1, .get, .some 30 300, 38, 49⟩⟩, ⟨1, ⟨0, .get, .some 10 100, 68, 72⟩⟩,
    ⟨5, ⟨1, .ins 50 500, .none, 83, 92⟩⟩,
    ⟨2, ⟨1, .ins 20 200, .none, 2, 8⟩⟩, ⟨3, ⟨1, .ins 40 400, .none, 10, 18⟩⟩,
    ⟨3, ⟨0, .ins 41 401, .some 40 400, 50, 59⟩⟩, ⟨2, ⟨1, .rm, .some 20 200, 69, 82⟩⟩,
    ⟨3, ⟨0, .get, .some 41 401, 84, 100⟩⟩ ]

/-- the abstract map on the keys `0 … 5` -/
def exAbs : List KSt := [some (30, 300), some (10, 100), none, some (41, 401), none, some (50, 500)]

/-- per lineage: old cell, low cell, high cell, table pointer, the resize has been started, clock -/
def shape (S : State) : List (BinG.Cell × BinG.Cell × BinG.Cell × BinG.Tab × Bool × Nat) :=
  S.bins.map fun b => (b.cell0, b.lowCell, b.highCell, b.cur, b.resizing, b.now)

def exShape : List (BinG.Cell × BinG.Cell × BinG.Cell × BinG.Tab × Bool × Nat) :=
  [(.moved, .list 1, .list 2, .new, true, 100), (.moved, .tree 1, .tree 2, .new, true, 100)]

def exCheck : Bool :=
  match run (init 2 2) exSchedule with
  | some S =>
    S.bins.all (fun b => b.threads.all (fun l => l.pc == .idle)) && mhist S == exHist &&
      (List.range 6).map (absMap S) == exAbs && shape S == exShape
  | none => false

set_option maxRecDepth 2000 in
theorem exCheck_true : exCheck = true := by decide

/-- a reachable quiescent table with two lineages, both transferred and committed, whose history
holds calls on keys of both lineages and both sides, before, during and after the resize -/
theorem example_state :
    ∃ S : State, Reachable 2 2 S ∧ quiescent S ∧ mhist S = exHist ∧ (List.range 6).map (absMap S) = exAbs ∧
      shape S = exShape := by
  have h := exCheck_true
  unfold exCheck at h
  cases hrun : run (init 2 2) exSchedule with
  | none => rw [hrun] at h; cases h
  | some S =>
    rw [hrun] at h
    simp only [Bool.and_eq_true, List.all_eq_true, beq_iff_eq] at h
    obtain ⟨⟨⟨hq, hh⟩, ha⟩, hs⟩ := h
    exact ⟨S, run_reachable exSchedule Reachable.init hrun, fun b hb l hl => hq b hb l hl, hh, ha, hs⟩

/-- during the transfer of lineage 0 (clock 45): the two new cells and the forwarding marker are
stored, the table pointer is still the old one, the transferring thread holds the head lock, and the
reader stands on node 0 of the old list -/
def exDuring : Bool :=
  match run (init 2 2) (exBefore ++ exResize0a) with
  | some S =>
    shape S == [(.moved, .list 1, .list 2, .old, true, 45), (.tree 0, .empty, .empty, .old, false, 45)] &&
      (S.bins.map fun b => b.threads.map (·.pc)) == [[.xUnlock (.inl 0), .rNode (some 0)], [.idle, .idle]]
  | none => false

set_option maxRecDepth 2000 in
theorem example_during : exDuring = true := by decide

/-- the state in the middle: lineage 0 is forwarded and committed, lineage 1 is untouched (its old cell
holds the `TreeBin`, its table pointer is the old one), thread 0 has just been invoked there -/
def exBetween : Bool :=
  match run (init 2 2) (exBefore ++ exResize0 ++ call 1 0 3 (.ins 41 401)) with
  | some S =>
    shape S == [(.moved, .list 1, .list 2, .new, true, 50), (.tree 0, .empty, .empty, .old, false, 50)] &&
      (S.bins.map fun b => b.threads.map (·.pc)) == [[.idle, .idle], [.wTable, .idle]]
  | none => false

set_option maxRecDepth 2000 in
theorem example_between : exBetween = true := by decide

/-- refused: a call on a key of another lineage (key 2 belongs to lineage 1, key 1 to lineage 0); a
treeify named by a key of another lineage; a thread that is busy in another lineage — with a call,
or in the middle of a transfer (so a thread transfers the lineages one at a time; another thread may
transfer another lineage meanwhile) -/
theorem example_refused :
    (step (init 2 2) 0 0 (some (2, .ins 1 1)) false none false false false).isNone = true ∧
    (step (init 2 2) 1 0 (some (1, .ins 1 1)) false none false false false).isNone = true ∧
    (step (init 2 2) 0 0 none false (some 3) false false false).isNone = true ∧
    (run (init 2 2) (call 0 0 1 (.ins 1 1) ++ call 1 0 2 .get)).isNone = true ∧
    (run (init 2 2) (resize 0 0 ++ go 0 0 1 ++ resize 1 0)).isNone = true ∧
    (run (init 2 2) (resize 0 0 ++ go 0 0 1 ++ resize 1 1 ++ go 1 1 1 ++ go 0 0 1)).isSome = true := by decide

end Flurry.Proto.TableG
