import Flurry.Lemmas.BinGNGenStepW
/-! # Proto/BinGN: the generation invariant — the resizing thread -/
namespace Flurry.Proto.BinGN
open Flurry.Lin

/-- the list split only appends nodes -/
theorem splitBinB_lockSame (bit : Nat → Bool) (heap : List NodeS) (c : List Nat) :
    LockSame heap (splitBinB bit heap c).1 := by
  unfold splitBinB
  simp only
  generalize (c.take (lastRunStartB bit heap c)) = pre
  generalize (if (match (List.drop (lastRunStartB bit heap c) c).head? with
        | some i => bit (heap.getD i dflt).key
        | none => false) = true then none else (List.drop (lastRunStartB bit heap c) c).head?) = lo
  generalize (if (match (List.drop (lastRunStartB bit heap c) c).head? with
        | some i => bit (heap.getD i dflt).key
        | none => false) = true then (List.drop (lastRunStartB bit heap c) c).head? else none) = hg
  suffices h : ∀ (pre : List Nat) (hp : List NodeS) (lo hg : Option Nat), LockSame heap hp →
      LockSame heap (pre.foldl
        (fun (acc : List NodeS × Option Nat × Option Nat) i =>
          let (hp, lo, hg) := acc
          let n := hp.getD i dflt
          let idx := hp.length
          if bit n.key then (hp ++ [⟨n.key, n.val, hg, none, false, none⟩], lo, some idx)
          else (hp ++ [⟨n.key, n.val, lo, none, false, none⟩], some idx, hg)) (hp, lo, hg)).1 from
    h pre heap lo hg (LockSame.refl _)
  intro pre
  induction pre with
  | nil => intro hp lo hg h; exact h
  | cons i pre ih =>
    intro hp lo hg h
    simp only [List.foldl_cons]
    split
    · exact ih _ _ _ (h.trans (LockSame.append _ _))
    · exact ih _ _ _ (h.trans (LockSame.append _ _))

/-- one side of a tree-bin split: what it does to the shared state, and what the planned cell can be -/
theorem splitSide_shape (s : State) (b : Nat) (c : List Nat) (sm ru : Bool) :
    (splitSide s b c sm ru).1.tabs = s.tabs ∧ (splitSide s b c sm ru).1.cur = s.cur ∧
    (splitSide s b c sm ru).1.resizing = s.resizing ∧ (splitSide s b c sm ru).1.threads = s.threads ∧
    LockSame s.heap (splitSide s b c sm ru).1.heap ∧ MutexSame s.tbins (splitSide s b c sm ru).1.tbins ∧
    (splitSide s b c sm ru).2 ≠ .moved ∧
    ∀ b', (splitSide s b c sm ru).2 = .tree b' → b' = b ∨ b' < (splitSide s b c sm ru).1.tbins.length := by
  unfold splitSide
  simp only [copyChain]
  split
  · exact ⟨rfl, rfl, rfl, rfl, .refl _, .refl _, by simp, fun b' h => by cases h⟩
  · split
    · exact ⟨rfl, rfl, rfl, rfl, LockSame.append _ _, .refl _, cellOfHead_ne_moved _,
        fun b' h => absurd h (cellOfHead_ne_tree _ _)⟩
    · split
      · exact ⟨rfl, rfl, rfl, rfl, .refl _, .refl _, by simp, fun b' h => by cases h; exact Or.inl rfl⟩
      · refine ⟨rfl, rfl, rfl, rfl, LockSame.append _ _, MutexSame.append _ _, by simp, fun b' h => ?_⟩
        cases h
        right
        show s.tbins.length < (s.tbins ++ [_]).length
        simp

theorem splitSide_shape' {s : State} {b : Nat} {c : List Nat} {sm ru : Bool} {s1 : State} {c1 : Cell}
    (h : splitSide s b c sm ru = (s1, c1)) :
    s1.tabs = s.tabs ∧ s1.cur = s.cur ∧ s1.resizing = s.resizing ∧ s1.threads = s.threads ∧
    LockSame s.heap s1.heap ∧ MutexSame s.tbins s1.tbins ∧ c1 ≠ .moved ∧
    ∀ b', c1 = .tree b' → b' = b ∨ b' < s1.tbins.length := by
  have := splitSide_shape s b c sm ru
  rw [h] at this
  exact this

section
variable {s s' : State} {t : Nat} {inv : Option (Nat × KOp)} {lo : Bool} {mt : Option Nat} {rz sm sm2 : Bool}
  {pick : Nat}

theorem step_xNext (I : GenInv s) (hl : s.threads[t]? = some { pc := .xNext, call := none })
    (hs : step s t inv lo mt rz sm sm2 pick = some s') : GenInv s' := by
  have T := I.thr t _ hl
  have R := T.tres rfl
  open_step hs hl
  split at hs
  · rename_i ha
    cases hs
    refine geninv_move I hl rfl rfl rfl rfl (.refl _) (.refl _) (fun _ => rfl) ?_
    refine ⟨fun _ => R, ?_, ?_, fun _ => I.of_allMoved ha, ?_, ?_, ?_, ?_⟩
    · intro _ _ h; cases h
    · intro _ h; cases h
    · intro _ h; cases h
    · intro _ h; cases h
    · intro _ _ _ h; cases h
    · intro _ h; cases h
  · cases hs
    refine geninv_move I hl rfl rfl rfl rfl (.refl _) (.refl _) (fun _ => rfl) ?_
    refine ⟨fun _ => R, ?_, ?_, ?_, ?_, ?_, ?_, ?_⟩
    · intro _ _ h; cases h
    · intro _ h; cases h; exact mod_lt_pow _ _
    · intro h; cases h
    · intro _ h; cases h
    · intro _ h; cases h
    · intro _ _ _ h; cases h
    · intro _ h; cases h

theorem step_xCell {j : Nat} (I : GenInv s) (hl : s.threads[t]? = some { pc := .xCell j, call := none })
    (hs : step s t inv lo mt rz sm sm2 pick = some s') : GenInv s' := by
  have T := I.thr t _ hl
  open_step hs hl
  split at hs
  · cases hs; exact geninv_weak I hl rfl rfl rfl rfl (by ls) (by ms) (by dle)
  · cases hs; exact geninv_weak I hl rfl rfl rfl rfl (by ls) (by ms) (by dle)
  · rename_i b hb
    cases hs
    refine geninv_move I hl rfl rfl rfl rfl (.refl _) (.refl _) (fun _ => rfl) ?_
    refine T.update rfl rfl rfl (Nat.le_refl _) (fun _ => rfl) (Or.inl rfl) (Or.inr rfl) (fun h => by cases h)
      (fun _ h => by cases h) (fun _ h => by cases h) (Or.inl rfl) ?_
    intro c hc
    have : c = .tree b := by simpa [desc, descPc] using hc
    subst this
    exact Or.inr ⟨by simp, fun b' e => by cases e; exact I.bins _ _ b hb⟩
  · cases hs; exact geninv_weak I hl rfl rfl rfl rfl (by ls) (by ms) (by dle)

theorem step_xCasMoved {j : Nat} (I : GenInv s) (hl : s.threads[t]? = some { pc := .xCasMoved j, call := none })
    (hs : step s t inv lo mt rz sm sm2 pick = some s') : GenInv s' := by
  have T := I.thr t _ hl
  have R := T.tres rfl
  open_step hs hl
  split at hs
  · rename_i hc
    cases hs
    have hc' : cellAt s s.cur j = .empty := by
      have := hc; simp only [beq_iff_eq] at this; exact this
    refine geninv_put' (g0 := s.cur) (j0 := j) (c := .moved) I hl rfl rfl rfl rfl (Or.inr rfl) (fun _ => ⟨rfl, R⟩) ?_
      (by ls) (by ms) (fun b h => by cases h) (by dle) (fun g j c h => by cases h)
    intro t1 l1 c1 _ h1
    exact no_valid_of_plain I (by rw [hc']; simp) t1 l1 c1 h1
  · cases hs; exact geninv_weak I hl rfl rfl rfl rfl (by ls) (by ms) (by dle)

theorem step_xLock {j h : Nat} (I : GenInv s) (hl : s.threads[t]? = some { pc := .xLock j h, call := none })
    (hs : step s t inv lo mt rz sm sm2 pick = some s') : GenInv s' := by
  open_step hs hl
  split at hs
  · cases hs
  · rename_i n hn
    split at hs
    · cases hs
    · rename_i hfree
      cases hs
      have hh : h < s.heap.length := (List.getElem?_eq_some_iff.1 hn).1
      have hf : lockAt s.heap h = none := by
        rw [lockAt_of_some hn]; cases hx : n.lock with
        | none => rfl
        | some y => rw [hx] at hfree; simp at hfree
      exact geninv_lockN (h := h) (x := some t) I hl rfl rfl rfl rfl rfl rfl (Or.inl hf) (fun _ => rfl)
        (Or.inl rfl) (Or.inr rfl) (fun h => by cases h) (Or.inr ⟨rfl, rfl, hh⟩) rfl rfl (fun c hc => by cases hc)

theorem step_xCheck {j h : Nat} (I : GenInv s) (hl : s.threads[t]? = some { pc := .xCheck j h, call := none })
    (hs : step s t inv lo mt rz sm sm2 pick = some s') : GenInv s' := by
  have T := I.thr t _ hl
  have hheld := (T.heldN h rfl).2
  open_step hs hl
  split at hs
  · rename_i hc
    cases hs
    have hc' : cellAt s s.cur j = .list h := by
      have := hc; simp only [beq_iff_eq] at this; exact this
    refine geninv_move I hl rfl rfl rfl rfl (.refl _) (.refl _) (fun _ => rfl) ?_
    refine T.mkV (fun _ => rfl) (Or.inl rfl) (Or.inr rfl) (fun h => by cases h) rfl rfl ?_ rfl
    intro g' j' c' hv
    simp only [desc, descPc, Option.some.injEq, Prod.mk.injEq] at hv
    obtain ⟨rfl, rfl, rfl⟩ := hv
    exact ⟨hc', Or.inl ⟨h, rfl, rfl⟩⟩
  · cases hs
    exact geninv_lockN (h := h) (x := none) I hl rfl rfl rfl rfl rfl rfl (Or.inr hheld) (fun _ => rfl)
      (Or.inl rfl) (Or.inr rfl) (fun h => by cases h) (Or.inl rfl) rfl rfl (fun c hc => by cases hc)

theorem step_xBuild {j h : Nat} (I : GenInv s) (hl : s.threads[t]? = some { pc := .xBuild j h, call := none })
    (hs : step s t inv lo mt rz sm sm2 pick = some s') : GenInv s' := by
  have T := I.thr t _ hl
  open_step hs hl
  cases hs
  have ls := splitBinB_lockSame (bitAt s.cur) s.heap (chainFrom s.heap s.heap.length (some h))
  refine geninv_same I hl rfl rfl rfl rfl (.of_same ls) (.of_same (.refl _)) (Nat.le_refl _) (fun _ => rfl) ?_
  refine T.update rfl rfl rfl (Nat.le_refl _) (fun _ => rfl) (Or.inl rfl) (Or.inr rfl) (fun h => by cases h)
    ?_ (fun _ h => by cases h) (Or.inr ⟨rfl, rfl, rfl⟩) ?_
  · intro x hx
    obtain ⟨a, b⟩ := T.heldN x hx
    exact ⟨Nat.lt_of_lt_of_le a ls.1, (ls.2 x a).trans b⟩
  · intro c hc
    right
    have : c = cellOfHead (splitBinB (bitAt s.cur) s.heap (chainFrom s.heap s.heap.length (some h))).2.1 ∨
        c = cellOfHead (splitBinB (bitAt s.cur) s.heap (chainFrom s.heap s.heap.length (some h))).2.2 := by
      simpa [desc, descPc] using hc
    rcases this with rfl | rfl
    · exact ⟨cellOfHead_ne_moved _, fun b e => absurd e (cellOfHead_ne_tree _ _)⟩
    · exact ⟨cellOfHead_ne_moved _, fun b e => absurd e (cellOfHead_ne_tree _ _)⟩

theorem step_yMutex {j b : Nat} (I : GenInv s) (hl : s.threads[t]? = some { pc := .yMutex j b, call := none })
    (hs : step s t inv lo mt rz sm sm2 pick = some s') : GenInv s' := by
  have T := I.thr t _ hl
  have hb := (T.plan (.tree b) (by simp [desc, descPc])).2 b rfl
  open_step hs hl
  split at hs
  · cases hs
  · rename_i hfree
    cases hs
    have hf : mutexAt s.tbins b = none := by
      unfold mutexAt
      cases hx : (s.tbins.getD b dfltB).mutex with
      | none => rfl
      | some y => exfalso; apply hfree; show ((s.tbins.getD b dfltB).mutex).isSome = true; rw [hx]; rfl
    exact geninv_lockM (b := b) (x := some t) I hl rfl rfl rfl rfl rfl rfl (Or.inl hf) (fun _ => rfl)
      (Or.inl rfl) (Or.inr rfl) (fun h => by cases h) rfl (Or.inr ⟨rfl, rfl, hb⟩) rfl (fun c hc => by cases hc)

theorem step_yCheck {j b : Nat} (I : GenInv s) (hl : s.threads[t]? = some { pc := .yCheck j b, call := none })
    (hs : step s t inv lo mt rz sm sm2 pick = some s') : GenInv s' := by
  have T := I.thr t _ hl
  have hheld := (T.heldM b rfl).2
  open_step hs hl
  split at hs
  · rename_i hc
    cases hs
    have hc' : cellAt s s.cur j = .tree b := by
      have := hc; simp only [beq_iff_eq] at this; exact this
    refine geninv_move I hl rfl rfl rfl rfl (.refl _) (.refl _) (fun _ => rfl) ?_
    refine T.mkV (fun _ => rfl) (Or.inl rfl) (Or.inr rfl) (fun h => by cases h) rfl rfl ?_ rfl
    intro g' j' c' hv
    simp only [desc, descPc, Option.some.injEq, Prod.mk.injEq] at hv
    obtain ⟨rfl, rfl, rfl⟩ := hv
    exact ⟨hc', Or.inr ⟨b, rfl, rfl⟩⟩
  · cases hs
    exact geninv_lockM (b := b) (x := none) I hl rfl rfl rfl rfl rfl rfl (Or.inr hheld) (fun _ => rfl)
      (Or.inl rfl) (Or.inr rfl) (fun h => by cases h) rfl (Or.inl rfl) rfl (fun c hc => by cases hc)

theorem step_yBuild {j b : Nat} (I : GenInv s) (hl : s.threads[t]? = some { pc := .yBuild j b, call := none })
    (hs : step s t inv lo mt rz sm sm2 pick = some s') : GenInv s' := by
  have T := I.thr t _ hl
  have hheld := T.heldM b rfl
  open_step hs hl
  generalize h1 : splitSide _ b _ sm _ = r1 at hs
  obtain ⟨s1, lo1⟩ := r1
  simp only at hs
  generalize h2 : splitSide s1 b _ sm2 _ = r2 at hs
  obtain ⟨s2, hi2⟩ := r2
  simp only at hs
  cases hs
  obtain ⟨a1, a2, a3, a4, a5, a6, a7, a8⟩ := splitSide_shape' h1
  obtain ⟨b1, b2, b3, b4, b5, b6, b7, b8⟩ := splitSide_shape' h2
  have hN : LockSame s.heap s2.heap := LockSame.trans a5 b5
  have hM : MutexSame s.tbins s2.tbins := MutexSame.trans a6 b6
  have hthr : (setT s2 t { pc := Pc.xStoreLow j (Sum.inr b) lo1 hi2, call := none }).threads =
      s.threads.set t { pc := Pc.xStoreLow j (Sum.inr b) lo1 hi2, call := none } := by
    show s2.threads.set _ _ = _; rw [b4, a4]
  refine geninv_same I hl hthr (b2.trans a2) (b3.trans a3) (b1.trans a1) (.of_same hN) (.of_same hM) hM.1
    (fun _ => rfl) ?_
  refine T.update (b1.trans a1) (b2.trans a2) (b3.trans a3) hM.1 (fun _ => rfl) (Or.inl rfl) (Or.inr rfl)
    (fun h => by cases h) (fun _ h => by cases h) ?_ (Or.inr ⟨rfl, rfl, rfl⟩) ?_
  · intro x hx
    obtain ⟨a, c⟩ := T.heldM x hx
    exact ⟨Nat.lt_of_lt_of_le a hM.1, (hM.2 x a).trans c⟩
  · intro c hc
    right
    have : c = lo1 ∨ c = hi2 := by simpa [desc, descPc] using hc
    rcases this with rfl | rfl
    · refine ⟨a7, fun b' e => ?_⟩
      rcases a8 b' e with rfl | h
      · exact Nat.lt_of_lt_of_le hheld.1 hM.1
      · exact Nat.lt_of_lt_of_le h b6.1
    · refine ⟨b7, fun b' e => ?_⟩
      rcases b8 b' e with rfl | h
      · exact Nat.lt_of_lt_of_le hheld.1 hM.1
      · exact h

theorem step_xStoreLow {j : Nat} {unl : Nat ⊕ Nat} {c1 c2 : Cell} (I : GenInv s)
    (hl : s.threads[t]? = some { pc := .xStoreLow j unl c1 c2, call := none })
    (hs : step s t inv lo mt rz sm sm2 pick = some s') : GenInv s' := by
  have T := I.thr t _ hl
  have hv0 : (desc s.cur { pc := Pc.xStoreLow j unl c1 c2, call := none }).valid = some (s.cur, j, unlCell unl) := rfl
  obtain ⟨hcell, hh⟩ := T.valid _ _ _ hv0
  have hj := T.idx j rfl
  have hnm : cellAt s s.cur j ≠ .moved := by
    rw [hcell]; cases unl <;> simp [unlCell]
  have hp := T.plan c1 (by simp [desc, descPc])
  open_step hs hl
  cases hs
  refine geninv_put' (g0 := s.cur + 1) (j0 := j) (c := c1) I hl rfl rfl rfl rfl
    (Or.inl (I.nextOK j)) (fun h => absurd h hp.1)
    (no_valid_child I hl rfl hnm (Nat.mod_eq_of_lt hj)) (by ls) (by ms) hp.2 (by dle) ?_
  intro g j' c hv
  simp only [desc, descPc, Option.some.injEq, Prod.mk.injEq] at hv
  obtain ⟨rfl, rfl, -⟩ := hv
  intro ⟨h1, _⟩; omega

theorem step_xStoreHigh {j : Nat} {unl : Nat ⊕ Nat} {c2 : Cell} (I : GenInv s)
    (hl : s.threads[t]? = some { pc := .xStoreHigh j unl c2, call := none })
    (hs : step s t inv lo mt rz sm sm2 pick = some s') : GenInv s' := by
  have T := I.thr t _ hl
  have hv0 : (desc s.cur { pc := Pc.xStoreHigh j unl c2, call := none }).valid = some (s.cur, j, unlCell unl) := rfl
  obtain ⟨hcell, hh⟩ := T.valid _ _ _ hv0
  have hj := T.idx j rfl
  have hnm : cellAt s s.cur j ≠ .moved := by
    rw [hcell]; cases unl <;> simp [unlCell]
  have hp := T.plan c2 (by simp [desc, descPc])
  open_step hs hl
  cases hs
  refine geninv_put' (g0 := s.cur + 1) (j0 := j + 2 ^ s.cur) (c := c2) I hl rfl rfl rfl rfl
    (Or.inl (I.nextOK _)) (fun h => absurd h hp.1)
    (no_valid_child I hl rfl hnm (high_mod j s.cur hj)) (by ls) (by ms) hp.2 (by dle) ?_
  intro g j' c hv
  simp only [desc, descPc, Option.some.injEq, Prod.mk.injEq] at hv
  obtain ⟨rfl, rfl, -⟩ := hv
  intro ⟨h1, _⟩; omega

theorem step_xStoreMoved {j : Nat} {unl : Nat ⊕ Nat} (I : GenInv s)
    (hl : s.threads[t]? = some { pc := .xStoreMoved j unl, call := none })
    (hs : step s t inv lo mt rz sm sm2 pick = some s') : GenInv s' := by
  have T := I.thr t _ hl
  have R := T.tres rfl
  have hv0 : (desc s.cur { pc := Pc.xStoreMoved j unl, call := none }).valid = some (s.cur, j, unlCell unl) := rfl
  open_step hs hl
  cases hs
  exact geninv_put' (g0 := s.cur) (j0 := j) (c := .moved) I hl rfl rfl rfl rfl
    (Or.inr rfl) (fun _ => ⟨rfl, R⟩) (no_valid_of_mutex I hl hv0) (by ls) (by ms) (fun b h => by cases h) (by dle)
    (fun g j c h => by cases h)

theorem step_xUnlock {unl : Nat ⊕ Nat} (I : GenInv s)
    (hl : s.threads[t]? = some { pc := .xUnlock unl, call := none })
    (hs : step s t inv lo mt rz sm sm2 pick = some s') : GenInv s' := by
  have T := I.thr t _ hl
  cases unl with
  | inl h =>
    have hheld := (T.heldN h rfl).2
    open_step hs hl
    cases hs
    exact geninv_lockN (h := h) (x := none) I hl rfl rfl rfl rfl rfl rfl (Or.inr hheld) (fun _ => rfl)
      (Or.inl rfl) (Or.inl rfl) (fun h => by cases h) (Or.inl rfl) rfl rfl (fun c hc => by cases hc)
  | inr b =>
    have hheld := (T.heldM b rfl).2
    open_step hs hl
    cases hs
    exact geninv_lockM (b := b) (x := none) I hl rfl rfl rfl rfl rfl rfl (Or.inr hheld) (fun _ => rfl)
      (Or.inl rfl) (Or.inl rfl) (fun h => by cases h) rfl (Or.inl rfl) rfl (fun c hc => by cases hc)

/-- a thread that is not the resizing thread: its descriptor does not depend on `cur` -/
theorem desc_cur_indep {c c' : Nat} {l : Local} (h : (desc c l).isX = false) : desc c l = desc c' l :=
  descPc_cur_indep h

theorem not_isX_of_ne {s : State} (I : GenInv s) {t t1 : Nat} {l l1 : Local} (hl : s.threads[t]? = some l)
    (hX : (desc s.cur l).isX = true) (n1 : t1 ≠ t) (h1 : s.threads[t1]? = some l1) : (desc s.cur l1).isX = false := by
  cases hx : (desc s.cur l1).isX with
  | false => rfl
  | true => exact absurd (I.uniqX _ _ _ _ h1 hl hx hX) n1

theorem step_xCommit (I : GenInv s) (hl : s.threads[t]? = some { pc := .xCommit, call := none })
    (hs : step s t inv lo mt rz sm sm2 pick = some s') : GenInv s' := by
  have T := I.thr t _ hl
  have R := T.tres rfl
  have hall := T.commit rfl
  open_step hs hl
  cases hs
  have nX := fun t1 l1 n1 h1 => not_isX_of_ne (t1 := t1) (l1 := l1) I hl rfl n1 h1
  have hlen : s.tabs.length = s.cur + 2 := by have := I.len; rw [R] at this; simpa using this
  refine ⟨?_, I.rows, ?_, ?_, ?_, ?_, I.bins, ?_⟩
  · show s.tabs.length = s.cur + 1 + 1 + 0; omega
  · intro g j hg hj
    show cellT s.tabs g j = _
    by_cases h : g < s.cur
    · exact I.old g j h hj
    · have : g = s.cur := by have : g < s.cur + 1 := hg; omega
      subst this
      exact hall j hj
  · intro j
    show cellT s.tabs (s.cur + 1 + 1) j ≠ _
    have e : s.tabs.getD (s.cur + 1 + 1) [] = [] := by
      rw [getD_eq, List.getElem?_eq_none (by omega)]; rfl
    unfold cellT
    rw [e]; simp
  · intro j hm
    exact absurd hm (I.nextOK j)
  · intro t1 t2 l1 l2 h1 h2 hT1 hT2
    rcases get_set h1 with ⟨e1, f1⟩ | ⟨n1, h1⟩
    · rw [f1] at hT1; cases hT1
    · have := nX _ _ n1 h1
      rw [desc_cur_indep (c' := s.cur + 1) this] at this
      rw [this] at hT1; cases hT1
  · intro t1 l1 h1
    rcases get_set h1 with ⟨rfl, rfl⟩ | ⟨n1, h1⟩
    · exact POK.empty _ _
    · have T1 := I.thr t1 l1 h1
      have hnX := nX _ _ n1 h1
      show POK _ t1 (desc (s.cur + 1) l1)
      rw [← desc_cur_indep (c := s.cur) hnX]
      refine ⟨?_, ?_, ?_, ?_, T1.heldN, T1.heldM, T1.valid, T1.plan⟩
      · intro h; rw [hnX] at h; cases h
      · intro g k hg
        obtain ⟨a, -⟩ := T1.gen g k hg
        exact ⟨by show g ≤ s.cur + 1 + 1; omega, fun e => by have : g = s.cur + 1 + 1 := e; omega⟩
      · intro j hj
        exfalso
        revert hnX hj
        obtain ⟨pc, call⟩ := l1
        cases pc <;> simp [desc, descPc]
      · intro hc
        exfalso
        revert hnX hc
        obtain ⟨pc, call⟩ := l1
        cases pc <;> simp [desc, descPc]

/-- an idle thread starts a resize: generation `cur + 1` is allocated -/
theorem step_alloc {c : Option Pending} (I : GenInv s) (hl : s.threads[t]? = some { pc := .idle, call := c })
    (hrz : rz = true) (hr : s.resizing = false)
    (hs : step s t inv lo mt rz sm sm2 pick = some s') : GenInv s' := by
  subst hrz
  unfold step stepG at hs; rw [hl] at hs; simp only [if_true, hr] at hs
  simp only [Bool.false_eq_true, if_false] at hs
  cases hs
  have nX : ∀ (t1 : Nat) (l1 : Local), s.threads[t1]? = some l1 → (desc s.cur l1).isX = false := by
    intro t1 l1 h1
    cases hx : (desc s.cur l1).isX with
    | false => rfl
    | true => have := (I.thr t1 l1 h1).tres hx; rw [hr] at this; cases this
  have hc : ∀ g j, cellT (s.tabs ++ [List.replicate (2 ^ (s.cur + 1)) (.empty : Cell)]) g j = cellAt s g j :=
    fun g j => cellT_alloc _ _ _ _
  refine ⟨?_, ?_, ?_, ?_, fun _ _ => rfl, ?_, ?_, ?_⟩
  · have := I.len
    rw [hr] at this
    show (s.tabs ++ _).length = s.cur + 1 + 1
    simp at this ⊢
    omega
  · intro g row h
    have hlen : s.tabs.length = s.cur + 1 := by have := I.len; rw [hr] at this; simpa using this
    change (s.tabs ++ [List.replicate (2 ^ (s.cur + 1)) (.empty : Cell)])[g]? = some row at h
    by_cases hg : g < s.tabs.length
    · rw [List.getElem?_append_left hg] at h
      exact I.rows g row h
    · rw [List.getElem?_append_right (by omega)] at h
      by_cases h0 : g - s.tabs.length = 0
      · rw [h0] at h
        simp only [List.getElem?_cons_zero, Option.some.injEq] at h
        rw [← h, List.length_replicate]
        have : g = s.cur + 1 := by omega
        rw [this]
      · rw [List.getElem?_eq_none (by simp; omega)] at h; cases h
  · intro g j hg hj; show cellT _ g j = _; rw [hc]; exact I.old g j hg hj
  · intro j; show cellT _ _ j ≠ _; rw [hc]; exact I.nextOK j
  · intro t1 t2 l1 l2 h1 h2 hT1 hT2
    rcases get_set h1 with ⟨e1, f1⟩ | ⟨n1, h1⟩ <;> rcases get_set h2 with ⟨e2, f2⟩ | ⟨n2, h2⟩
    · rw [e1, e2]
    · have h' : (desc s.cur l2).isX = true := hT2
      rw [nX _ _ h2] at h'; cases h'
    · have h' : (desc s.cur l1).isX = true := hT1
      rw [nX _ _ h1] at h'; cases h'
    · have h' : (desc s.cur l1).isX = true := hT1
      rw [nX _ _ h1] at h'; cases h'
  · intro g j b h
    have : cellT (s.tabs ++ [List.replicate (2 ^ (s.cur + 1)) (.empty : Cell)]) g j = .tree b := h
    rw [hc] at this
    exact I.bins g j b this
  · intro t1 l1 h1
    rcases get_set h1 with ⟨rfl, rfl⟩ | ⟨n1, h1⟩
    · refine ⟨fun _ => rfl, ?_, ?_, ?_, ?_, ?_, ?_, ?_⟩
      · intro _ _ h; cases h
      · intro _ h; cases h
      · intro h; cases h
      · intro _ h; cases h
      · intro _ h; cases h
      · intro _ _ _ h; cases h
      · intro _ h; cases h
    · have T1 := I.thr t1 l1 h1
      refine ⟨?_, ?_, T1.idx, ?_, T1.heldN, T1.heldM, ?_, T1.plan⟩
      · intro h
        have h' : (desc s.cur l1).isX = true := h
        rw [nX _ _ h1] at h'
      · intro g k hg
        obtain ⟨a, b⟩ := T1.gen g k hg
        exact ⟨a, fun e => by show cellT _ _ _ = _; rw [hc]; exact b e⟩
      · intro h j hj; show cellT _ _ _ = _; rw [hc]; exact T1.commit h j hj
      · intro g j c hv
        show cellT _ _ _ = _ ∧ _; rw [hc]; exact T1.valid g j c hv

end
end Flurry.Proto.BinGN
