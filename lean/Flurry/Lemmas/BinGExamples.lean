import Flurry.Proto.BinG
import Flurry.Lemmas.LinSearch
/-! # Proto/BinG: the model exercised by execution (random schedule explorer) and three kernel-checked runs

* `explore`: a seeded random scheduler over `step` / `stepNoCheck` (any number of threads, calls on a few
  keys of both `hiBit` values, treeify, the resize, iterators, both `small` decisions at random), which
  drains every thread to `idle` and then decides `Linearizable (callsOn s k) none (absOf s k)` for every
  key with the complete search of `Lemmas/LinSearch.lean`; it reports the coverage of `Pc`
  constructors, of the four per-side outcomes of a tree-bin transfer, of failed re-checks and of lock
  waits across a transfer, and returns the first schedule that is not linearizable;
* kernel-checked runs (`decide`): a tree-bin transfer that re-uses the old `TreeBin`, a tree-bin
  transfer with a writer queued on the mutex and a reader inside the old bin, and the refutation of
  `stepNoCheck`.

Exploration done before any proof (compiled with `lake env lean --run`; seeds / sizes as arguments):
70 000 schedules of `step` (2, 3 and 4 threads, 150–300 random steps + drain, up to 14 calls on 2–4
keys of both `hiBit` values, up to 4 treeify starts, one resize): every run drained to quiescence and
every per-key history (up to 12 calls) linearizable; all 91 tags of `pcTag` (every `Pc` constructor, per
table, with / without retry) reached; all nine combinations of the per-side outcomes of a tree-bin
transfer (empty / small list / re-used `TreeBin` / fresh `TreeBin`) reached several hundred times each;
tens of thousands of failed re-checks after the forwarding and of lock waits across a transfer
(`wLock`, `tMutex`, `kLock`). With `stepNoCheck` non-linearizable runs are found within a few runs.
The structural invariant `Inv` of `Lemmas/BinGInv.lean` and the per-transition facts `Eff` of
`Lemmas/BinGFacts.lean` were also checked by execution (3 000 runs each) before they were proved. -/
namespace Flurry.Proto.BinG
open Flurry.Lin

/-- one scheduler decision: the arguments of `step` -/
structure Act where
  t : Nat
  inv : Option (Nat × KOp) := none
  lo : Bool := false
  maint : Option Nat := none
  rz : Bool := false
  sm : Bool := false
  sm2 : Bool := false
deriving Repr, DecidableEq

abbrev Sched := List Act

abbrev StepFn := State → Nat → Option (Nat × KOp) → Bool → Option Nat → Bool → Bool → Bool → Option State

def act (f : StepFn) (s : State) (a : Act) : Option State := f s a.t a.inv a.lo a.maint a.rz a.sm a.sm2

/-- run a schedule (`none` if some step is not enabled) -/
def run (f : StepFn) : State → Sched → Option State
  | s, [] => some s
  | s, a :: rest =>
    match act f s a with
    | none => none
    | some s' => run f s' rest

theorem run_reachable {n : Nat} : ∀ (sc : Sched) {s s' : State}, Reachable n s → run step s sc = some s' →
    Reachable n s'
  | [], s, s', hr, h => by simp only [run, Option.some.injEq] at h; exact h ▸ hr
  | a :: rest, s, s', hr, h => by
    simp only [run] at h
    cases hs : act step s a with
    | none => rw [hs] at h; cases h
    | some s1 => rw [hs] at h; exact run_reachable rest (.step a.t a.inv a.lo a.maint a.rz a.sm a.sm2 hr hs) h

theorem run_reachableNoCheck {n : Nat} : ∀ (sc : Sched) {s s' : State}, ReachableNoCheck n s →
    run stepNoCheck s sc = some s' → ReachableNoCheck n s'
  | [], s, s', hr, h => by simp only [run, Option.some.injEq] at h; exact h ▸ hr
  | a :: rest, s, s', hr, h => by
    simp only [run] at h
    cases hs : act stepNoCheck s a with
    | none => rw [hs] at h; cases h
    | some s1 => rw [hs] at h; exact run_reachableNoCheck rest (.step a.t a.inv a.lo a.maint a.rz a.sm a.sm2 hr hs) h

def quiescentB (s : State) : Bool := s.threads.all (fun l => l.pc == .idle)

theorem quiescentB_iff (s : State) : quiescentB s = true ↔ quiescent s := by
  unfold quiescentB quiescent
  simp [List.all_eq_true]

def linB (s : State) (k : Nat) : Bool := (search (callsOn s k) none (absOf s k)).isSome

theorem linB_iff (s : State) (k : Nat) : linB s k = true ↔ Linearizable (callsOn s k) none (absOf s k) :=
  search_isSome_iff

theorem linB_false_iff (s : State) (k : Nat) : linB s k = false ↔ ¬ Linearizable (callsOn s k) none (absOf s k) := by
  rw [← linB_iff]; cases linB s k <;> simp

/-! ## the explorer (`#eval` only) -/

def pcTag : Pc → String
  | .idle => "idle"
  | .rTable lo => if lo then "rTable.it" else "rTable"
  | .rCell lo tab => (if lo then "rCell.it" else "rCell") ++ (if tab == .old then ".old" else ".new")
  | .rNode _ => "rNode"
  | .rFirst _ => "rFirst"
  | .rState _ _ => "rState"
  | .rLin _ _ => "rLin"
  | .rCas _ _ _ => "rCas"
  | .rTree _ => "rTree"
  | .rRelease _ _ => "rRelease"
  | .rVal _ => "rVal"
  | .lFirst _ => "lFirst"
  | .lNode _ => "lNode"
  | .wTable => "wTable"
  | .wCell tab => if tab == .old then "wCell.old" else "wCell.new"
  | .wCas tab => if tab == .old then "wCas.old" else "wCas.new"
  | .wLock tab _ => if tab == .old then "wLock.old" else "wLock.new"
  | .wCheck tab _ => if tab == .old then "wCheck.old" else "wCheck.new"
  | .wFind tab _ _ _ => if tab == .old then "wFind.old" else "wFind.new"
  | .wStore tab _ _ _ _ => if tab == .old then "wStore.old" else "wStore.new"
  | .wUnlock tab _ _ retry => (if tab == .old then "wUnlock.old" else "wUnlock.new") ++ (if retry then ".retry" else "")
  | .tMutex tab _ => if tab == .old then "tMutex.old" else "tMutex.new"
  | .tCheck tab _ => if tab == .old then "tCheck.old" else "tCheck.new"
  | .tFind tab _ => if tab == .old then "tFind.old" else "tFind.new"
  | .tVal tab _ _ _ _ => if tab == .old then "tVal.old" else "tVal.new"
  | .lrTry tab _ _ _ => if tab == .old then "lrTry.old" else "lrTry.new"
  | .lrLoop tab _ _ _ => if tab == .old then "lrLoop.old" else "lrLoop.new"
  | .tPrependLocked tab _ => if tab == .old then "tPrependLocked.old" else "tPrependLocked.new"
  | .tTreeLinkLocked tab _ _ => if tab == .old then "tTreeLinkLocked.old" else "tTreeLinkLocked.new"
  | .tUnlinkLocked tab _ _ _ => if tab == .old then "tUnlinkLocked.old" else "tUnlinkLocked.new"
  | .tRestructure tab _ _ _ => if tab == .old then "tRestructure.old" else "tRestructure.new"
  | .tUnlockRoot tab _ _ => if tab == .old then "tUnlockRoot.old" else "tUnlockRoot.new"
  | .tUntreeify tab _ _ => if tab == .old then "tUntreeify.old" else "tUntreeify.new"
  | .tUnlockM tab _ _ retry => (if tab == .old then "tUnlockM.old" else "tUnlockM.new") ++ (if retry then ".retry" else "")
  | .kTable _ => "kTable"
  | .kCell tab _ => if tab == .old then "kCell.old" else "kCell.new"
  | .kLock tab _ _ => if tab == .old then "kLock.old" else "kLock.new"
  | .kCheck tab _ _ => if tab == .old then "kCheck.old" else "kCheck.new"
  | .kBuild tab _ _ => if tab == .old then "kBuild.old" else "kBuild.new"
  | .kStore tab _ _ _ => if tab == .old then "kStore.old" else "kStore.new"
  | .kUnlock _ => "kUnlock"
  | .xCell => "xCell"
  | .xCasMoved => "xCasMoved"
  | .xLock _ => "xLock"
  | .xCheck _ => "xCheck"
  | .xBuild _ => "xBuild"
  | .yMutex _ => "yMutex"
  | .yCheck _ => "yCheck"
  | .yBuild _ => "yBuild"
  | .xStoreLow (.inl _) _ _ => "xStoreLow.list"
  | .xStoreLow (.inr _) _ _ => "xStoreLow.tree"
  | .xStoreHigh (.inl _) _ => "xStoreHigh.list"
  | .xStoreHigh (.inr _) _ => "xStoreHigh.tree"
  | .xStoreMoved (.inl _) => "xStoreMoved.list"
  | .xStoreMoved (.inr _) => "xStoreMoved.tree"
  | .xUnlock (.inl _) => "xUnlock.list"
  | .xUnlock (.inr _) => "xUnlock.tree"
  | .xCommit => "xCommit"

abbrev Cov := List (String × Nat)

def Cov.bump (c : Cov) (k : String) : Cov :=
  match c with
  | [] => [(k, 1)]
  | (k', n) :: rest => if k' == k then (k', n + 1) :: rest else (k', n) :: Cov.bump rest k

def rngNext (x : Nat) : Nat := (x * 6364136223846793005 + 1442695040888963407) % 18446744073709551616
/-- a number below `n` from the high bits -/
def rngPick (x n : Nat) : Nat := (x / 4294967296) % n

/-- does the thread still work in the old table although the old cell is forwarded -/
def pcOldTab : Pc → Bool
  | .wCell .old | .wCas .old | .wLock .old _ | .wCheck .old _ | .wFind .old _ _ _ | .wStore .old _ _ _ _
  | .wUnlock .old _ _ _ | .tMutex .old _ | .tCheck .old _ | .tFind .old _ | .tVal .old _ _ _ _
  | .lrTry .old _ _ _ | .lrLoop .old _ _ _ | .tUnlockM .old _ _ _ | .kCell .old _ | .kLock .old _ _
  | .kCheck .old _ _ | .rCell _ .old => true
  | _ => false

def sideTag (b : Nat) : Cell → String
  | .empty => "empty"
  | .list _ => "smallList"
  | .tree b' => if b' == b then "reusedTreeBin" else "freshTreeBin"
  | .moved => "moved?"

def isResizerLockPc : Pc → Bool
  | .xCheck _ | .xBuild _ | .yCheck _ | .yBuild _ | .xStoreLow _ _ _ | .xStoreHigh _ _ | .xStoreMoved _ | .xUnlock _ => true
  | _ => false

/-- coverage events of one executed step `s —a→ s'` -/
def events (s s' : State) (a : Act) (c : Cov) : Cov := Id.run do
  let mut c := c
  let l' := s'.threads.getD a.t {}
  let l := s.threads.getD a.t {}
  c := c.bump ("pc:" ++ pcTag l'.pc)
  match l.pc, l'.pc with
  | .yBuild b, .xStoreLow _ lo hi =>
    c := c.bump ("treeTransfer.low:" ++ sideTag b lo)
    c := c.bump ("treeTransfer.high:" ++ sideTag b hi)
    c := c.bump ("treeTransfer:" ++ sideTag b lo ++ "/" ++ sideTag b hi)
  | .xBuild _, .xStoreLow _ lo hi =>
    c := c.bump ("listTransfer:" ++ sideTag 0 lo ++ "/" ++ sideTag 0 hi)
  | _, _ => pure ()
  -- the forwarding store: who is inside the old structure right now
  if s.cell0 != .moved && s'.cell0 == .moved then
    for l in s'.threads do
      if l.call.isSome then
        match l.pc with
        | .rTable _ | .wTable | .idle => pure ()
        | pc => c := c.bump ("insideAtForward:" ++ pcTag pc)
  if s'.cell0 == .moved && pcOldTab l'.pc then c := c.bump ("oldTabAfterForward:" ++ pcTag l'.pc)
  return c

/-- a blocked step: is the lock held by the resizing thread -/
def blockedEvent (s : State) (t : Nat) (c : Cov) : Cov :=
  let l := s.threads.getD t {}
  let holderPc (o : Option Nat) : Pc := match o with | some u => (s.threads.getD u {}).pc | none => .idle
  match l.pc with
  | .tMutex _ b =>
    if isResizerLockPc (holderPc (s.tbins.getD b dfltB).mutex) then c.bump "waitsForTransfer:tMutex" else c.bump "blocked:tMutex"
  | .wLock _ h =>
    if isResizerLockPc (holderPc (s.heap.getD h dflt).lock) then c.bump "waitsForTransfer:wLock" else c.bump "blocked:wLock"
  | .kLock _ _ h =>
    if isResizerLockPc (holderPc (s.heap.getD h dflt).lock) then c.bump "waitsForTransfer:kLock" else c.bump "blocked:kLock"
  | .xLock _ => c.bump "blocked:xLock"
  | .yMutex _ => c.bump "blocked:yMutex"
  | .lrLoop _ _ _ _ => c.bump "blocked:lrLoop"
  | pc => c.bump ("blocked?:" ++ pcTag pc)

structure Cfg where
  nthreads : Nat := 3
  keys : List Nat := [0, 1, 2]
  /-- random steps before the drain -/
  steps : Nat := 120
  /-- calls started at most -/
  calls : Nat := 10
  /-- treeify starts at most -/
  maints : Nat := 3
  /-- percentages for an idle thread -/
  pResize : Nat := 4
  pMaint : Nat := 10
  pCall : Nat := 60
  noCheck : Bool := false

def mkOp (r : Nat) (vi : Nat) : KOp :=
  match r % 12 with
  | 0 | 1 | 2 | 3 => .ins (vi % 7) vi
  | 4 | 5 => .rm
  | 6 | 7 => .get
  | 8 => .has
  | 9 => .tryIns (vi % 7) vi
  | 10 => .cipInc vi
  | _ => .get

structure Out where
  cov : Cov
  bad : Option (Sched × Nat)
  runs : Nat
  quiescentRuns : Nat
  maxHist : Nat

/-- one random schedule: returns the executed schedule, the final state and the coverage -/
def oneRun (cfg : Cfg) (seed : Nat) (cov : Cov) : Sched × State × Cov := Id.run do
  let f : StepFn := if cfg.noCheck then stepNoCheck else step
  let mut s := init cfg.nthreads
  let mut rng := seed
  let mut sc : Array Act := #[]
  let mut cov := cov
  let mut calls := 0
  let mut maints := 0
  for _ in [0:cfg.steps] do
    rng := rngNext rng
    let t := rngPick rng cfg.nthreads
    rng := rngNext rng
    let l := s.threads.getD t {}
    let mut a : Act := { t := t }
    if l.pc == .idle then
      let r := rngPick rng 100
      rng := rngNext rng
      if r < cfg.pResize && !s.resizing then a := { t := t, rz := true }
      else if r < cfg.pResize + cfg.pMaint && maints < cfg.maints then
        a := { t := t, maint := some (cfg.keys.getD (rngPick rng cfg.keys.length) 0) }
        maints := maints + 1
      else if r < cfg.pResize + cfg.pMaint + cfg.pCall && calls < cfg.calls then
        let k := cfg.keys.getD (rngPick rng cfg.keys.length) 0
        rng := rngNext rng
        let op := mkOp (rngPick rng 12) (100 + calls)
        rng := rngNext rng
        a := { t := t, inv := some (k, op), lo := rngPick rng 3 == 0 }
        calls := calls + 1
      else continue
    else
      a := { t := t, sm := rngPick rng 2 == 0, sm2 := rngPick rng 4 < 2 }
    match act f s a with
    | none => cov := blockedEvent s t cov
    | some s' =>
      cov := events s s' a cov
      sc := sc.push a
      s := s'
  -- drain
  for _ in [0:400] do
    if quiescentB s then break
    for t in [0:cfg.nthreads] do
      let l := s.threads.getD t {}
      if l.pc != .idle then
        rng := rngNext rng
        let a : Act := { t := t, sm := rngPick rng 2 == 0, sm2 := rngPick rng 4 < 2 }
        match act f s a with
        | none => cov := blockedEvent s t cov
        | some s' =>
          cov := events s s' a cov
          sc := sc.push a
          s := s'
  return (sc.toList, s, cov)

def explore (cfg : Cfg) (seed0 nruns : Nat) : Out := Id.run do
  let mut cov : Cov := []
  let mut bad : Option (Sched × Nat) := none
  let mut q := 0
  let mut mh := 0
  for i in [0:nruns] do
    let (sc, s, cov') := oneRun cfg (rngNext (seed0 + 7919 * i)) cov
    cov := cov'
    if quiescentB s then
      q := q + 1
      for k in cfg.keys do
        let h := callsOn s k
        if h.length > mh then mh := h.length
        if !linB s k && bad.isNone then bad := some (sc, k)
    else cov := cov.bump "notDrained"
    if s.cur == .new then cov := cov.bump "final:resized"
  return { cov := cov, bad := bad, runs := nruns, quiescentRuns := q, maxHist := mh }

def Out.report (o : Out) : String :=
  let lines := (o.cov.toArray.qsort (fun a b => a.1 < b.1)).toList.map fun (k, n) => s!"  {k}: {n}"
  s!"runs {o.runs}, drained to quiescence {o.quiescentRuns}, longest per-key history {o.maxHist}, " ++
  (match o.bad with | none => "ALL LINEARIZABLE" | some (sc, k) => s!"NOT LINEARIZABLE on key {k}: {repr sc}") ++
  "\n" ++ "\n".intercalate lines

/-- a small sample at build time (larger runs: see the file header of the report); prints the coverage -/
def sample : Out := explore { nthreads := 3, steps := 150, calls := 12, maints := 4 } 11 300

#eval IO.println (s!"{sample.runs} runs, {sample.quiescentRuns} quiescent, not linearizable: {sample.bad.isSome}, " ++
  s!"coverage entries: {sample.cov.length}")

/-! ## three kernel-checked runs

Four threads: thread 0 performs most calls, thread 1 treeifies, thread 2 is the slow one, thread 3
resizes. -/

/-- `n` further steps of thread `t` -/
def rep (t n : Nat) : Sched := List.replicate n { t := t }
def call (t k : Nat) (op : KOp) : Sched := [{ t := t, inv := some (k, op) }]

/-- quiescent? and, per key `0, 1, 2`: the abstract state and whether the history is linearizable -/
def verdict (f : StepFn) (n : Nat) (sc : Sched) : Option (Bool × List (KSt × Bool)) :=
  (run f (init n) sc).map fun s => (quiescentB s, (List.range 3).map fun k => (absOf s k, linB s k))

/-- thread 0: `insert(0)`, `insert(2)` (both low); thread 1 treeifies the bin: `TreeBin` 0 over the
nodes 2, 3 -/
def setupLow : Sched :=
  call 0 0 (.ins 5 100) ++ rep 0 3 ++ call 0 2 (.ins 6 101) ++ rep 0 8 ++ [{ t := 1, maint := some 0 }] ++ rep 1 7

/-- thread 0: `insert(1)`, `insert(0)` (one key per side); thread 1 treeifies -/
def setupBoth : Sched :=
  call 0 1 (.ins 5 100) ++ rep 0 3 ++ call 0 0 (.ins 6 101) ++ rep 0 8 ++ [{ t := 1, maint := some 0 }] ++ rep 1 7

/-- **the re-used `TreeBin`, with a writer queued on its mutex across the transfer**: thread 2 calls
`insert(2)` and loads the old cell (`tree 0`); thread 3 starts the resize and takes the mutex of bin 0 … -/
def schedReuseA : Sched := setupLow ++ call 2 2 (.ins 7 102) ++ rep 2 2 ++ [{ t := 3, rz := true }] ++ rep 3 3
/-- … splits (high side empty, low side not small: the old `TreeBin` itself goes to the low cell),
stores low, high, `moved` (thread 2 is blocked all the time: `reuse_blocked`), unlocks, commits;
thread 2 gets the mutex, fails its re-check (`cell0 = moved`), follows the marker, finds the *same*
`TreeBin` in the new table, locks it again and updates the node; thread 0: `get(2)` -/
def schedReuse : Sched := schedReuseA ++ rep 3 6 ++ rep 2 10 ++ call 0 2 .get ++ rep 0 8

theorem verdict_reuse : verdict step 4 schedReuse =
    some (true, [(some (5, 100), true), (none, true), (some (7, 102), true)]) := by decide

/-- the old `TreeBin` is in the new low cell; the slow insert was invoked (22) before the transfer and
returned (44) after it -/
theorem reuse_history :
    (run step (init 4) schedReuse).map (fun s => (s.cell0, s.lowCell, s.highCell, s.cur, callsOn s 2)) =
      some (.moved, .tree 0, .empty, .new,
        [⟨0, .ins 6 101, .none, 5, 13⟩, ⟨2, .ins 7 102, .some 6 101, 22, 44⟩, ⟨0, .get, .some 7 102, 45, 53⟩]) := by
  decide

/-- while the transfer holds the mutex (here: after it stored the low cell) the queued writer cannot move -/
theorem reuse_blocked :
    ((run step (init 4) (schedReuseA ++ rep 3 2)).map fun s =>
      (s.lowCell, (s.threads.getD 2 {}).pc, (act step s { t := 2 }).isNone)) =
      some (.tree 0, .tMutex .old 0, true) := by decide

/-- **a lock-protocol reader inside the old `TreeBin` across a transfer that splits it into two fresh
`TreeBin`s** (hindsight): thread 2 calls `get(1)`, takes the read lock of bin 0 and finds node 2; the
bin is transferred (both sides non-empty and not small: fresh bins 1 and 2); thread 0 `insert(1)` and
`get(1)` in the new table return / see the new value; only then thread 2 releases the read lock and
reads the (frozen) value of node 2 -/
def schedStale : Sched :=
  setupBoth ++ call 2 1 .get ++ rep 2 6 ++ [{ t := 3, rz := true }] ++ rep 3 9 ++
  call 0 1 (.ins 7 102) ++ rep 0 7 ++ call 0 1 .get ++ rep 0 8 ++ rep 2 2

theorem verdict_stale : verdict step 4 schedStale =
    some (true, [(some (6, 101), true), (some (7, 102), true), (none, true)]) := by decide

/-- the slow `get` (invoked at 22) returns the old value at 57, after `get = 7` returned at 55 -/
theorem stale_history :
    (run step (init 4) schedStale).map (fun s => (s.cell0, s.lowCell, s.highCell, s.cur, callsOn s 1)) =
      some (.moved, .tree 1, .tree 2, .new,
        [⟨0, .ins 5 100, .none, 1, 4⟩, ⟨0, .ins 7 102, .some 5 100, 39, 46⟩, ⟨0, .get, .some 7 102, 47, 55⟩,
         ⟨2, .get, .some 5 100, 22, 57⟩]) := by
  decide

/-- **without the re-check a completed insert is lost across a tree-bin transfer**: thread 2 calls
`insert(1)` and loads the old cell (`tree 0`); the bin is transferred (both sides `small`: plain lists
of fresh nodes 4, 5); thread 2 takes the mutex of the dead bin 0 and (`stepNoCheck`) overwrites the
dead node 2; thread 0's later `get(1)` finds the old value in node 5 -/
def schedLost : Sched :=
  setupBoth ++ call 2 1 (.ins 7 102) ++ rep 2 2 ++ [{ t := 3, rz := true }] ++
  List.replicate 9 { t := 3, sm := true, sm2 := true } ++ rep 2 5 ++ call 0 1 .get ++ rep 0 4

/-- the same, and thread 2 is given the steps it needs to start over in the new table -/
def schedLostLong : Sched := schedLost ++ rep 2 8

theorem verdict_lost_noCheck : verdict stepNoCheck 4 schedLost =
    some (true, [(some (6, 101), true), (some (5, 100), false), (none, true)]) := by decide

theorem verdict_lost_check : verdict step 4 schedLostLong =
    some (true, [(some (6, 101), true), (some (7, 102), true), (none, true)]) := by decide

theorem lost_noCheck_history :
    (run stepNoCheck (init 4) schedLost).map (fun s => (s.cell0, s.lowCell, s.highCell, callsOn s 1)) =
      some (.moved, .list 4, .list 5,
        [⟨0, .ins 5 100, .none, 1, 4⟩, ⟨2, .ins 7 102, .some 5 100, 22, 39⟩, ⟨0, .get, .some 5 100, 40, 43⟩]) := by
  decide

theorem of_verdict {f : StepFn} {n : Nat} {sc : Sched} {v : List (KSt × Bool)}
    (h : verdict f n sc = some (true, v)) :
    ∃ s, run f (init n) sc = some s ∧ quiescent s ∧ ∀ k, k < 3 → (v.getD k (none, true)).2 = linB s k := by
  unfold verdict at h
  cases hr : run f (init n) sc with
  | none => rw [hr] at h; cases h
  | some s =>
    rw [hr] at h
    simp only [Option.map_some, Option.some.injEq, Prod.mk.injEq] at h
    refine ⟨s, rfl, (quiescentB_iff s).1 h.1, ?_⟩
    intro k hk
    rw [← h.2]
    simp [List.getD, hk]

/-- **the re-checks are load-bearing**: `binG_linearizable_quiescent` is false for `stepNoCheck` -/
theorem noCheck_refutes_aux :
    ∃ (n : Nat) (s : State) (k : Nat), ReachableNoCheck n s ∧ quiescent s ∧
      ¬ Linearizable (callsOn s k) none (absOf s k) := by
  obtain ⟨s, hr, hq, hv⟩ := of_verdict verdict_lost_noCheck
  refine ⟨4, s, 1, run_reachableNoCheck _ .init hr, hq, (linB_false_iff s 1).1 ?_⟩
  have := hv 1 (by omega)
  simpa using this.symm

/-- the three runs with the re-checks are reachable quiescent states with linearizable histories -/
theorem runs_linearizable :
    ∀ sc ∈ [schedReuse, schedStale, schedLostLong], ∃ s, run step (init 4) sc = some s ∧ Reachable 4 s ∧
      quiescent s ∧ ∀ k, k < 3 → Linearizable (callsOn s k) none (absOf s k) := by
  intro sc hsc
  simp only [List.mem_cons, List.not_mem_nil, or_false] at hsc
  rcases hsc with rfl | rfl | rfl
  · obtain ⟨s, hr, hq, hv⟩ := of_verdict verdict_reuse
    refine ⟨s, hr, run_reachable _ .init hr, hq, fun k hk => (linB_iff s k).1 ?_⟩
    have := hv k hk
    have hk' : k = 0 ∨ k = 1 ∨ k = 2 := by omega
    rcases hk' with rfl | rfl | rfl <;> simpa using this.symm
  · obtain ⟨s, hr, hq, hv⟩ := of_verdict verdict_stale
    refine ⟨s, hr, run_reachable _ .init hr, hq, fun k hk => (linB_iff s k).1 ?_⟩
    have := hv k hk
    have hk' : k = 0 ∨ k = 1 ∨ k = 2 := by omega
    rcases hk' with rfl | rfl | rfl <;> simpa using this.symm
  · obtain ⟨s, hr, hq, hv⟩ := of_verdict verdict_lost_check
    refine ⟨s, hr, run_reachable _ .init hr, hq, fun k hk => (linB_iff s k).1 ?_⟩
    have := hv k hk
    have hk' : k = 0 ∨ k = 1 ∨ k = 2 := by omega
    rcases hk' with rfl | rfl | rfl <;> simpa using this.symm

end Flurry.Proto.BinG
