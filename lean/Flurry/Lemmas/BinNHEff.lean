import Flurry.Lemmas.BinNHReach
import Flurry.Lemmas.BinNLive
/-! # Proto/BinNH: every transition, by its effect on the shared memory

`step_cases`: a transition is a reader's / writer's (`RWEff`; also joining a running resize, an idle step,
an invocation), the allocation of the next generation, or a transition of a resizing thread (`HEff`:
the shared memory afterwards, explicitly). -/
namespace Flurry.Proto.BinNH
open Flurry.Lin
open Flurry.Proto.BinX (NodeS Cell Pending isReader dflt chainFrom cellHead cellOfHead get_set get_set_self get_set_ne
  cellOfHead_ne_moved)
open Flurry.Proto.BinN (cellAt cellOf putCell setNode allMoved splitBinB bitAt lockAt LockSame GenInv ThrOK isT
  Holds vcell genOfPc cellT StepK tick setT finish)

/-- the shared memory after a transition of a resizing thread of generation `g` at `pc` -/
inductive HEff (n : BinN.State) (t : Nat) (g : Nat) (pc : HPc) : BinN.State → Prop
  /-- loads, re-validation, failed CAS, successful re-check, leaving, a commit that comes too late -/
  | tick : HEff n t g pc (tickN n)
  | lock (j h : Nat) : pc = .lock j h → HEff n t g pc (setNode (tickN n) h (fun m => { m with lock := some t }))
  | unlock (h : Nat) : HHolds pc h → HEff n t g pc (setNode (tickN n) h (fun m => { m with lock := none }))
  | build (j h : Nat) : pc = .build j h →
      HEff n t g pc { tickN n with heap := (splitBinB (bitAt g) n.heap (chainFrom n.heap n.heap.length (some h))).1 }
  | cas (j : Nat) : pc = .casMoved j → cellAt n g j = .empty → HEff n t g pc (putCell (tickN n) g j .moved)
  | marker (j h : Nat) : pc = .storeMoved j h → HEff n t g pc (putCell (tickN n) g j .moved)
  | low (j h : Nat) (lo hg : Option Nat) : pc = .storeLow j h lo hg →
      HEff n t g pc (putCell (tickN n) (g + 1) j (cellOfHead lo))
  | high (j h : Nat) (hg : Option Nat) : pc = .storeHigh j h hg →
      HEff n t g pc (putCell (tickN n) (g + 1) (j + 2 ^ g) (cellOfHead hg))
  | commit : pc = .commit → g = n.cur → n.resizing = true → HEff n t g pc (commitN n)

theorem helperStep_eff {s s' : State} {t g : Nat} {pc : HPc} {leave : Bool} {pick : Nat}
    (hs : helperStep true s t g pc leave pick = some s') : HEff s.n t g pc s'.n := by
  unfold helperStep at hs
  cases pc with
  | next =>
    simp only at hs
    split at hs
    · cases hs; exact .tick
    · split at hs
      · cases hs; exact .tick
      · split at hs <;> cases hs <;> exact .tick
  | cell j => simp only at hs; split at hs <;> cases hs <;> exact .tick
  | casMoved j =>
    simp only at hs
    split at hs
    · rename_i hc
      have hc' : cellAt (tickN s.n) g j = .empty := by simpa using hc
      cases hs; exact .cas j rfl hc'
    · cases hs; exact .tick
  | lock j h =>
    simp only at hs
    split at hs
    · cases hs
    · split at hs
      · cases hs
      · cases hs; exact .lock j h rfl
  | check j h =>
    simp only [Bool.not_true, Bool.false_or] at hs
    split at hs
    · cases hs; exact .tick
    · cases hs; exact .unlock h rfl
  | build j h => simp only [Option.some.injEq] at hs; subst hs; exact .build j h rfl
  | storeLow j h lo hg => simp only [Option.some.injEq] at hs; subst hs; exact .low j h lo hg rfl
  | storeHigh j h hg => simp only [Option.some.injEq] at hs; subst hs; exact .high j h hg rfl
  | storeMoved j h => simp only [Option.some.injEq] at hs; subst hs; exact .marker j h rfl
  | unlock j h => simp only [Option.some.injEq] at hs; subst hs; exact .unlock h rfl
  | commit =>
    simp only at hs
    split at hs
    · rename_i hc
      cases hs; exact .commit rfl hc.1 hc.2
    · cases hs; exact .tick

/-- every transition, by its effect on the shared memory -/
theorem step_cases {s s' : State} {t : Nat} {inv : Option (Nat × KOp)} {rz leave : Bool} {pick : Nat} (I : Inv s)
    (hs : step s t inv rz leave pick = some s') :
    (s.hs[t]? = some none ∧ RWEff s.n t s'.n) ∨
    (s.hs[t]? = some none ∧ s.n.resizing = false ∧ s'.n = allocN s.n) ∨
    (∃ hp, s.hs[t]? = some (some hp) ∧ HEff s.n t hp.g hp.pc s'.n) := by
  unfold step stepG at hs
  cases hl : s.n.threads[t]? with
  | none => rw [hl] at hs; simp only at hs; cases hs
  | some l =>
    cases hh : s.hs[t]? with
    | none => rw [hl, hh] at hs; simp only at hs; cases hs
    | some ho =>
      rw [hl, hh] at hs
      cases ho with
      | some hp => exact Or.inr (Or.inr ⟨hp, rfl, helperStep_eff hs⟩)
      | none =>
        simp only at hs
        have hnT := I.noT t l hl
        have htick : RWEff s.n t (tickN s.n) :=
          rwEff_of (l' := l) rfl rfl (LockSame.refl _) rfl (set_self_of_get hl).symm hnT
        split at hs
        · rename_i hi
          split at hs
          · split at hs
            · cases hs; exact Or.inl ⟨rfl, htick⟩
            · rename_i R
              cases hs
              have R' : (tickN s.n).resizing = false := by simpa using R
              exact Or.inr (Or.inl ⟨rfl, R', rfl⟩)
          · split at hs
            · cases hs; exact Or.inl ⟨rfl, htick⟩
            · rename_i k op
              cases hs
              refine Or.inl ⟨rfl, rwEff_of rfl rfl (LockSame.refl _) rfl rfl ?_⟩
              cases isReader op <;> exact fun h => h
        · rename_i hni
          cases hn : BinN.stepG true s.n t none false 0 with
          | none => rw [hn] at hs; cases hs
          | some n' =>
            rw [hn] at hs
            cases hs
            have K := BinN.step_stepK hl (show BinN.step s.n t none false 0 = some n' from hn)
            exact Or.inl ⟨rfl, stepK_rwEff I.gen hl hni hnT K⟩

/-! ## a lock word is no part of the abstract state -/

theorem chainFrom_lockmod (heap : List NodeS) (h : Nat) (x : Option Nat) :
    ∀ (fuel : Nat) (o : Option Nat),
      chainFrom (heap.modify h (fun m => { m with lock := x })) fuel o = chainFrom heap fuel o := by
  intro fuel
  induction fuel with
  | zero => intro o; rfl
  | succ f ih =>
    intro o
    cases o with
    | none => rfl
    | some i =>
      simp only [chainFrom]
      rw [List.getElem?_modify]
      cases hi : heap[i]? with
      | none => rfl
      | some nd =>
        by_cases e : h = i
        · subst e; simp [ih]
        · simp [e, ih]

theorem getD_lockmod (heap : List NodeS) (h : Nat) (x : Option Nat) (i : Nat) :
    ((heap.modify h (fun m => { m with lock := x })).getD i dflt).key = (heap.getD i dflt).key ∧
    ((heap.modify h (fun m => { m with lock := x })).getD i dflt).val = (heap.getD i dflt).val := by
  rw [BinN.getD_eq, BinN.getD_eq, List.getElem?_modify]
  cases hi : heap[i]? with
  | none => exact ⟨rfl, rfl⟩
  | some nd =>
    by_cases e : h = i
    · simp [e]
    · simp [e]

/-- changing a lock word changes the abstract state of no key -/
theorem absOf_lockmod (n : BinN.State) (h : Nat) (x : Option Nat) (k : Nat) :
    BinN.absOf (setNode (tickN n) h (fun m => { m with lock := x })) k = BinN.absOf n k := by
  have hl : BinN.liveCell (setNode (tickN n) h (fun m => { m with lock := x })) k = BinN.liveCell n k :=
    BinN.liveCell_congr (s := n) (s' := setNode (tickN n) h (fun m => { m with lock := x })) rfl rfl k
  unfold BinN.absOf BinN.chainOfCell
  rw [hl]
  show (match List.find? (fun i => ((n.heap.modify h _).getD i dflt).key == k)
      (chainFrom (n.heap.modify h _) (n.heap.modify h _).length _) with
    | some i => some ((n.heap.modify h _).getD i dflt).val
    | none => none) = _
  rw [chainFrom_lockmod, List.length_modify]
  have e1 : (fun i => ((n.heap.modify h (fun m => { m with lock := x })).getD i dflt).key == k) =
      (fun i => (n.heap.getD i dflt).key == k) := by
    funext i; rw [(getD_lockmod n.heap h x i).1]
  rw [e1]
  cases List.find? (fun i => (n.heap.getD i dflt).key == k) (chainFrom n.heap n.heap.length (cellHead (BinN.liveCell n k))) with
  | none => rfl
  | some i => simp only; rw [(getD_lockmod n.heap h x i).2]

end Flurry.Proto.BinNH
