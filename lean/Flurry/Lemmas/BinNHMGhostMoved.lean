import Flurry.Lemmas.BinNGhostMoved
import Flurry.Lemmas.BinNHMSurgery
import Flurry.Lemmas.BinNGhost
import Flurry.Lemmas.BinNHMGhost
/-! # Proto/BinNH — port of the `Proto/BinN` lemma file of the same name to the heap invariant with ONE
MID-TRANSFER CELL PER HELPER (`Lemmas/BinNHMDefs.lean`); statements about `BinN.State`. Original header: hindsight across the store of a forwarding marker, in any generation (C01, C10)

`Good.moved`: the justification of a reader survives the store of the forwarding marker into cell
`(cur, jm)`. A reader on the old list is afterwards on a dead (copied) node — whose key, if it is `k`,
carries the abstract value of this very moment —, or on a re-used node of its key's child cell (live,
nothing with key `k` before it: the fresh copies in front of it are copies of old predecessors), or on a
re-used node of the other child (then the key is absent at this moment: `foreign`). A reader that is
`foreign` on the old list (it came there from an ancestor that was split generations ago) stays `foreign`
(on a re-used node of either child) or walks on through dead nodes. -/
namespace Flurry.Proto.BinNHM
open Flurry.Proto.BinN
open Flurry.Lin
open Flurry.Proto.BinX (NodeS Cell Pending dflt chainFrom cellHead cellOfHead nodeAt nodeAt_of_some getElem?_nodeAt
  IsSeg IsChain chainH chainH_empty chainH_moved absIn absIn_eq_none_iff absIn_eq_some_iff KeysDistinct)

/-- a cell with a non-empty chain belongs to generation `cur` or `cur + 1` and is inside its table -/
theorem HInv.nonempty_cell {s : State} {G : Ghost} (H : HInv s G) {g j i : Nat} (hi : i ∈ chId s (g, j)) :
    (g = s.cur ∨ g = s.cur + 1) ∧ j < 2 ^ g := by
  have S := H.shape
  have hne' : getCell s (g, j) ≠ .empty := fun h => by rw [chId_of_empty h] at hi; cases hi
  have hnm' : getCell s (g, j) ≠ .moved := fun h => by rw [chId_of_moved h] at hi; cases hi
  have hj' : j < 2 ^ g := by
    rcases Nat.lt_or_ge j (2 ^ g) with h | h
    · exact h
    · exact absurd (S.cell_of_idx_ge h) hne'
  refine ⟨?_, hj'⟩
  rcases Nat.lt_or_ge g s.cur with h | h
  · exact absurd (S.old g j h hj') hnm'
  · rcases Nat.lt_or_ge (s.cur + 1) g with h2 | h2
    · exact absurd (S.cell_of_gen_gt h2) hne'
    · omega

/-- an index of generation `c + 1` whose parent is `jm` is `jm` (low) or `jm + 2^c` (high) -/
theorem child_cases {c j jm : Nat} (hj : j < 2 ^ (c + 1)) (hp : j % 2 ^ c = jm) : j = jm ∨ j = jm + 2 ^ c := by
  have h1 := Nat.div_add_mod j (2 ^ c)
  have h2 : j / 2 ^ c < 2 := by
    apply Nat.div_lt_of_lt_mul
    rw [Nat.pow_succ] at hj
    omega
  rw [hp] at h1
  generalize j / 2 ^ c = q at h1 h2
  rcases Nat.lt_or_ge q 1 with h | h
  · have : q = 0 := by omega
    subst this
    left; omega
  · have : q = 1 := by omega
    subst this
    right; omega

/-- the child cell of `(c, jm)` on side `b` -/
def childId (c jm : Nat) (b : Bool) : CellId := (c + 1, if b then jm + 2 ^ c else jm)

/-- the cell of a key in the next generation is the child on the side of its split bit -/
theorem cellId_succ {c k jm : Nat} (hk : k % 2 ^ c = jm) : cellId (c + 1) k = childId c jm (bitAt c k) := by
  unfold cellId childId bitAt
  have h1 := Nat.div_add_mod k (2 ^ c)
  have h2 := Nat.div_add_mod (k / 2 ^ c) 2
  have h3 : k % 2 ^ (c + 1) = 2 ^ c * ((k / 2 ^ c) % 2) + k % 2 ^ c := by
    rw [Nat.pow_succ, Nat.mod_mul]
    omega
  congr 1
  rw [h3, hk]
  rcases Nat.mod_two_eq_zero_or_one (k / 2 ^ c) with h | h
  · rw [h]; simp
  · rw [h]; simp; omega

theorem keyOn_child {c jm k : Nat} {b : Bool} (hjm : jm < 2 ^ c) (h : keyOn (childId c jm b) k) : k % 2 ^ c = jm := by
  unfold keyOn childId at h
  simp only at h
  have := keyOn_mod (Nat.le_succ c) h
  rw [this]
  cases b
  · simp only [Bool.false_eq_true, if_false]; exact Nat.mod_eq_of_lt hjm
  · simp only [if_true]; exact high_mod jm c hjm

theorem Good.moved {A A' : Nat → KSt} {k inv : Nat} {s s' : State} {G G' : Ghost} {jm : Nat} {lo hg : Option Nat}
    {cur : Option Nat} (hgood : Good G A k inv s cur) (H : HInv s G) (H' : HInv s' G')
    (hm : G.mid jm = some (lo, hg, fr)) (hm' : ∀ j0 x, G'.mid j0 = some x → j0 ≠ jm ∧ G.mid j0 = some x) (hcr : G'.cr = G.cr)
    (hh : s'.heap = s.heap) (hcur : s'.cur = s.cur)
    (hcO : getCell s' (s.cur, jm) = .moved)
    (hcOther : ∀ id, id ≠ (s.cur, jm) → getCell s' id = getCell s id)
    (sX : ∀ b, SideOK (bitAt s.cur) s.heap G.cr fr (chId s (s.cur, jm)) b (chId s (childId s.cur jm b)))
    (hnow : s'.now = s.now + 1) (hA' : ∀ τ, τ ≤ s.now → A' τ = A τ) (hA : A s.now = absOf s k)
    (hinv : inv ≤ s.now) : Good G' A' k inv s' cur := by
  obtain ⟨hjm, ⟨h0, hc0⟩, -, -, -⟩ := H.mid jm lo hg _ hm
  have hnm : cellAt s s.cur jm ≠ .moved := by rw [hc0]; simp
  have hAnow : A' s.now = absOf s k := by rw [hA' _ (Nat.le_refl _)]; exact hA
  -- the chains after the store
  have chO' : chId s' (s.cur, jm) = [] := chId_of_moved hcO
  have chOther : ∀ id, id ≠ (s.cur, jm) → chId s' id = chId s id := by
    intro id hne; unfold chId; rw [hh, hcOther id hne]
  have hchild_ne : ∀ b, childId s.cur jm b ≠ (s.cur, jm) := by
    intro b h; unfold childId at h; have := congrArg Prod.fst h; simp at this
  have chB' : ∀ b, chId s' (childId s.cur jm b) = chId s (childId s.cur jm b) := fun b => chOther _ (hchild_ne b)
  -- keys of the old cell
  have keyO : ∀ i ∈ chId s (s.cur, jm), (nodeAt s.heap i).key % 2 ^ s.cur = jm := fun i hi => H.side _ i hi
  -- the live chain of `k`
  have hlcs : k % 2 ^ s.cur = jm → LC s k = chId s (s.cur, jm) := by
    intro hk
    rw [H.LC_eq]
    unfold liveId
    have : cellOf s s.cur k ≠ .moved := by unfold cellOf; rw [hk]; exact hnm
    rw [if_neg this]; unfold cellId; rw [hk]
  have hlcs' : k % 2 ^ s.cur = jm → LC s' k = chId s (childId s.cur jm (bitAt s.cur k)) := by
    intro hk
    rw [H'.LC_eq]
    unfold liveId
    have : cellOf s' s'.cur k = .moved := by
      unfold cellOf; rw [hcur, hk]; exact hcO
    rw [if_pos this, hcur, cellId_succ hk, chB']
  have hlc_other : k % 2 ^ s.cur ≠ jm → LC s' k = LC s k := by
    intro hk
    rw [H'.LC_eq, H.LC_eq]
    have e1 : cellOf s' s'.cur k = cellOf s s.cur k := by
      rw [hcur]
      exact hcOther (s.cur, k % 2 ^ s.cur) (by intro h; exact hk (congrArg Prod.snd h))
    have e2 : liveId s' k = liveId s k := by unfold liveId; rw [e1, hcur]
    rw [e2]
    refine chOther _ ?_
    intro h
    unfold liveId at h
    split at h
    · have := congrArg Prod.fst h; unfold cellId at this; simp at this
    · exact hk (congrArg Prod.snd h)
  -- what is live afterwards is on a chain; the old chain only survives in the two children
  have hlive' : ∀ c, c ∈ chId s (s.cur, jm) → Live s' G' c → ∃ b, c ∈ chId s (childId s.cur jm b) := by
    intro c hcO' hl
    rcases hl with ⟨id, hid⟩ | ⟨j, lo', hg', fr', hmid, hl2⟩
    · by_cases he : id = (s.cur, jm)
      · rw [he, chO'] at hid; cases hid
      · rw [chOther id he] at hid
        obtain ⟨g, j⟩ := id
        obtain ⟨hg', hj⟩ := H.nonempty_cell hid
        have k1 := keyO c hcO'
        have k2 : (nodeAt s.heap c).key % 2 ^ g = j := H.side _ c hid
        rcases hg' with rfl | rfl
        · exfalso; apply he; rw [k1] at k2; rw [k2]
        · have hp := keyOn_mod (Nat.le_succ s.cur) k2
          rw [k1] at hp
          rcases child_cases hj hp.symm with rfl | rfl
          · exact ⟨false, hid⟩
          · exact ⟨true, hid⟩
    · obtain ⟨hne, hmid⟩ := hm' _ _ hmid
      rw [hh] at hl2
      have := (H.mid_key hmid (Or.inr hl2)).1
      rw [keyO c hcO'] at this
      exact absurd this.symm hne
  have hliveOff : ∀ c, Live s' G' c → Live s G c := by
    intro c hl
    rcases hl with ⟨id, hid⟩ | ⟨j, lo', hg', fr', hmid, hl2⟩
    · by_cases he : id = (s.cur, jm)
      · rw [he, chO'] at hid; cases hid
      · rw [chOther id he] at hid; exact Or.inl ⟨id, hid⟩
    · rw [hh] at hl2
      exact Or.inr ⟨j, lo', hg', fr', (hm' _ _ hmid).2, hl2⟩
  have hltO : ∀ c ∈ chId s (s.cur, jm), c < s.heap.length := fun c hc => H.chain_lt hc
  have hchain := H.isChain (s.cur, jm)
  have notOn : ∀ {b : Bool} {k' : Nat}, k' % 2 ^ s.cur = jm → bitAt s.cur k' ≠ b → ¬ keyOn (childId s.cur jm b) k' := by
    intro b k' hk' hb hon
    apply hb
    have h1 : cellId (s.cur + 1) k' = childId s.cur jm b := by
      unfold keyOn at hon; unfold cellId
      exact Prod.ext rfl hon
    rw [cellId_succ hk'] at h1
    unfold childId at h1
    have := congrArg Prod.snd h1
    simp only at this
    cases hb1 : bitAt s.cur k' <;> cases b <;> simp [hb1] at this ⊢ <;> omega
  -- nodes of the old chain, for a key of the old cell
  have onO : k % 2 ^ s.cur = jm → ∀ (n c : Nat), ((s.heap.length : Int) - ord G.cr c).toNat ≤ n →
      c ∈ chId s (s.cur, jm) →
      (∀ i ∈ chId s (s.cur, jm), ord G.cr i < ord G.cr c → (nodeAt s.heap i).key ≠ k) →
      Good G' A' k inv s' (some c) := by
    intro hk n
    induction n with
    | zero =>
      intro c hn hcO' _
      have := hltO c hcO'
      have := ord_le_self G.cr c
      omega
    | succ n ih =>
      intro c hn hcO' hbefore
      have hcl := hltO c hcO'
      by_cases h1 : c ∈ chId s (childId s.cur jm (bitAt s.cur k))
      · refine .on (by rw [hlcs' hk]; exact h1) ?_
        intro j hj hjc
        rw [hlcs' hk] at hj
        rw [hh]
        rw [hcr] at hjc
        rcases (sX _).mem j hj with hjO | hjcp
        · exact hbefore j hjO hjc
        · obtain ⟨i, hi, hik, -, hir⟩ := (sX _).src j hj hjcp
          rw [← hik]
          exact hbefore i hi (hir c hcO' h1)
      · by_cases h2 : c ∈ chId s (childId s.cur jm (!bitAt s.cur k))
        · refine .foreign (τ := s.now) (id := childId s.cur jm (!bitAt s.cur k)) (by rw [chB']; exact h2)
            (notOn hk (by cases bitAt s.cur k <;> simp)) hinv (by omega) ?_
          rw [hAnow, H.absOf_none_iff, hlcs hk]
          intro i hi hik
          have hside : ∀ x ∈ chId s (childId s.cur jm (!bitAt s.cur k)), (nodeAt s.heap x).key ≠ k := by
            intro x hx hxk
            have := (sX _).side x hx
            rw [hxk] at this
            cases hb : bitAt s.cur k <;> rw [hb] at this <;> cases this
          rcases Int.lt_trichotomy (ord G.cr i) (ord G.cr c) with hlt' | heq | hgt
          · exact hbefore i hi hlt' hik
          · rw [ord_inj heq] at hik; exact hside c h2 hik
          · exact hside i ((sX _).suffix c hcO' h2 i hi hgt) hik
        · have hdead : ¬ Live s' G' c := by
            intro hl
            obtain ⟨b, hb⟩ := hlive' c hcO' hl
            by_cases hbb : b = bitAt s.cur k
            · rw [hbb] at hb; exact h1 hb
            · have : b = !bitAt s.cur k := by cases b <;> cases hb1 : bitAt s.cur k <;> simp_all
              rw [this] at hb; exact h2 hb
          have hn' := getElem?_nodeAt hcl
          refine .off hdead (by rw [hh]; exact hcl) ?_ ?_
          · intro hk'
            rw [hh] at hk' ⊢
            have hle : ∀ i ∈ chId s (s.cur, jm), ord G.cr i ≤ ord G.cr c → (nodeAt s.heap i).key ≠ k := by
              intro i hi hic
              rcases Int.lt_or_eq_of_le hic with hlt' | heq
              · exact hbefore i hi hlt'
              · rw [ord_inj heq]; exact hk'
            cases hnx : (nodeAt s.heap c).next with
            | none =>
              have h3 := hchain.succ_noneN H.nextOK hcO' hn' hnx
              refine .absent (τ := s.now) hinv (by omega) ?_
              rw [hAnow, H.absOf_none_iff, hlcs hk]
              intro i hi
              exact hle i hi (h3 i hi)
            | some d =>
              obtain ⟨hd, h3⟩ := hchain.succ_someN H.nextOK hcO' hn' hnx
              have hcd := (H.nextOK c _ d hn' hnx).1
              refine ih d (by omega) hd ?_
              intro i hi hid
              exact hle i hi (h3 i hi hid)
          · intro hk'
            rw [hh] at hk' ⊢
            refine ⟨s.now, hinv, by omega, ?_⟩
            rw [hAnow]
            exact H.absOf_some_iff.2 ⟨c, by rw [hlcs hk]; exact hcO', hk', rfl⟩
  -- nodes of the old chain, for a key that does not live in the old cell
  have forO : ∀ {τ : Nat}, k % 2 ^ s.cur ≠ jm → inv ≤ τ → τ ≤ s.now → A τ = none →
      ∀ (n c : Nat), ((s.heap.length : Int) - ord G.cr c).toNat ≤ n → c ∈ chId s (s.cur, jm) →
      Good G' A' k inv s' (some c) := by
    intro τ hk h1 h2 h3 n
    induction n with
    | zero =>
      intro c hn hcO'
      have := hltO c hcO'
      have := ord_le_self G.cr c
      omega
    | succ n ih =>
      intro c hn hcO'
      have hcl := hltO c hcO'
      have hn' := getElem?_nodeAt hcl
      have hside : (nodeAt s.heap c).key ≠ k := by
        intro hck
        have := keyO c hcO'
        rw [hck] at this
        exact hk this
      by_cases hlv : Live s' G' c
      · obtain ⟨b, hb⟩ := hlive' c hcO' hlv
        refine .foreign (τ := τ) (id := childId s.cur jm b) (by rw [chB']; exact hb) ?_ h1 (by omega)
          (by rw [hA' _ h2]; exact h3)
        intro hon
        exact hk (keyOn_child hjm hon)
      · refine .off hlv (by rw [hh]; exact hcl) ?_ (fun hk' => absurd (by rw [hh] at hk'; exact hk') hside)
        intro _
        rw [hh]
        cases hnx : (nodeAt s.heap c).next with
        | none => exact .absent h1 (by omega) (by rw [hA' _ h2]; exact h3)
        | some d =>
          obtain ⟨hd, -⟩ := hchain.succ_someN H.nextOK hcO' hn' hnx
          have hcd := (H.nextOK c _ d hn' hnx).1
          exact ih d (by omega) hd
  induction hgood with
  | absent h1 h2 h3 => exact .absent h1 (by omega) (by rw [hA' _ h2]; exact h3)
  | @on c hcm hbefore =>
    by_cases hk : k % 2 ^ s.cur = jm
    · rw [hlcs hk] at hcm hbefore
      exact onO hk _ c (Nat.le_refl _) hcm hbefore
    · refine .on (by rw [hlc_other hk]; exact hcm) ?_
      intro i hi hic
      rw [hlc_other hk] at hi
      rw [hh]; rw [hcr] at hic
      exact hbefore i hi hic
  | @foreign c τ id hcm hno h1 h2 h3 =>
    by_cases he : id = (s.cur, jm)
    · subst he
      have hk : k % 2 ^ s.cur ≠ jm := hno
      exact forO hk h1 h2 h3 _ c (Nat.le_refl _) hcm
    · exact .foreign (by rw [chOther id he]; exact hcm) hno h1 (by omega) (by rw [hA' _ h2]; exact h3)
  | @off c hcl hclt _ hval ih =>
    refine .off (fun hl => hcl (hliveOff c hl)) (by rw [hh]; exact hclt) ?_ ?_
    · intro hk
      rw [hh] at hk ⊢
      exact ih hk
    · intro hk
      rw [hh] at hk ⊢
      obtain ⟨τ, h1, h2, h3⟩ := hval hk
      exact ⟨τ, h1, by omega, by rw [hA' _ h2]; exact h3⟩

end Flurry.Proto.BinNHM
