import Flurry.Lemmas.BinGNRwDefs
/-! # Proto/BinGN: the read-write lock of a `TreeBin` — every reachable state; writers exclude tree readers -/
namespace Flurry.Proto.BinGN
open Flurry.Lin

macro "rx" : tactic =>
  `(tactic| first
    | exact RwSame.refl _
    | exact RwSame.modify _ _ _ (fun _ => ⟨rfl, rfl⟩)
    | exact RwSame.append1 _ _ rfl rfl)

macro "rw_same" R:ident hl:ident : tactic =>
  `(tactic| exact rwinv_same $R $hl rfl (by rx) rfl (by first | exact Or.inl rfl | exact Or.inr rfl)
      (by first
        | exact fun b h => RwInv.refR $R _ _ b $hl h
        | exact fun b h => nomatch h))

macro "rw_all" R:ident hl:ident hs:ident : tactic =>
  `(tactic| (open_step $hs $hl; (try simp only [afterLock] at $hs:ident); repeat' split at $hs:ident
             all_goals first
               | (cases $hs:ident; done)
               | (cases $hs:ident; rw_same $R $hl)
               | (cases $hs:ident; split <;> rw_same $R $hl)
               | (cases $hs:ident; split <;> split <;> rw_same $R $hl)))

theorem wrSec_holdM {c : Nat} {l : Local} {b : Nat} (h : wrSec l.pc = some b) : (desc c l).holdM = some b := by
  obtain ⟨pc, call⟩ := l
  cases pc <;> simp [wrSec] at h <;> simp [desc, descPc, h]

theorem holdsRead_ref {pc : Pc} {b : Nat} (h : holdsRead pc = some b) : readerRef pc = some b := by
  cases pc <;> simp [holdsRead] at h <;> simp [readerRef, h]

/-- a transition that changes `TreeBin` `b0` only (its reader count or its write bit) -/
theorem rwinv_bin {s s' : State} {t : Nat} {l l' : Local} {b0 : Nat} {f : TBin → TBin} (R : RwInv s)
    (hl : s.threads[t]? = some l) (hthr : s'.threads = s.threads.set t l')
    (htb : s'.tbins = s.tbins.modify b0 f) (hb0 : b0 < s.tbins.length)
    (href : ∀ b, readerRef l'.pc = some b → b < s.tbins.length)
    (hrd : (f (binOf s.tbins b0)).readers = nRead b0 (s.threads.set t l'))
    (hro : ∀ b, b ≠ b0 → nRead b (s.threads.set t l') = nRead b s.threads)
    (hwrd : (f (binOf s.tbins b0)).writer = true → (f (binOf s.tbins b0)).readers = 0)
    (hws : ∀ b, wrSec l'.pc = some b → (b = b0 ∧ (f (binOf s.tbins b0)).writer = true) ∨ (b ≠ b0 ∧ wrSec l.pc = some b))
    (hwo : ∀ t1 l1, t1 ≠ t → s.threads[t1]? = some l1 → wrSec l1.pc = some b0 → (f (binOf s.tbins b0)).writer = true) :
    RwInv s' := by
  have hself : binOf s'.tbins b0 = f (binOf s.tbins b0) := by rw [htb]; exact binOf_modify_self _ _ hb0
  have hoth : ∀ b, b ≠ b0 → binOf s'.tbins b = binOf s.tbins b := by
    intro b hb; rw [htb]; exact binOf_modify_ne _ _ hb
  have hlen : s'.tbins.length = s.tbins.length := by rw [htb]; simp
  refine ⟨?_, ?_, ?_, ?_⟩
  · intro t1 l1 b h1 hr1
    rw [hlen]
    rw [hthr] at h1
    rcases get_set h1 with ⟨rfl, rfl⟩ | ⟨n1, h1⟩
    · exact href b hr1
    · exact R.refR t1 l1 b h1 hr1
  · intro b hbl
    rw [hlen] at hbl
    rw [hthr]
    by_cases e : b = b0
    · subst e; rw [hself]; exact hrd
    · rw [hoth b e, hro b e]; exact R.rd b hbl
  · intro b hw
    by_cases e : b = b0
    · subst e; rw [hself] at hw ⊢; exact hwrd hw
    · rw [hoth b e] at hw ⊢; exact R.wrd b hw
  · intro t1 l1 b h1 hw1
    rw [hthr] at h1
    rcases get_set h1 with ⟨rfl, rfl⟩ | ⟨n1, h1⟩
    · rcases hws b hw1 with ⟨rfl, h⟩ | ⟨e, h⟩
      · rw [hself]; exact h
      · rw [hoth b e]; exact R.wsec t1 l b hl h
    · by_cases e : b = b0
      · subst e; rw [hself]; exact hwo t1 l1 n1 h1 hw1
      · rw [hoth b e]; exact R.wsec t1 l1 b h1 hw1

theorem splitSide_rw (s : State) (b : Nat) (c : List Nat) (sm ru : Bool) :
    (splitSide s b c sm ru).1.threads = s.threads ∧ RwSame s.tbins (splitSide s b c sm ru).1.tbins := by
  unfold splitSide
  simp only [copyChain]
  split
  · exact ⟨rfl, .refl _⟩
  · split
    · exact ⟨rfl, .refl _⟩
    · split
      · exact ⟨rfl, .refl _⟩
      · exact ⟨rfl, RwSame.append1 _ _ rfl rfl⟩

theorem splitSide_rw' {s : State} {b : Nat} {c : List Nat} {sm ru : Bool} {s1 : State} {c1 : Cell}
    (h : splitSide s b c sm ru = (s1, c1)) : s1.threads = s.threads ∧ RwSame s.tbins s1.tbins := by
  have := splitSide_rw s b c sm ru
  rw [h] at this
  exact this

section
variable {s s' : State} {t : Nat} {inv : Option (Nat × KOp)} {lo : Bool} {mt : Option Nat} {rz sm sm2 : Bool}
  {pick : Nat} {p : Pending} {c : Option Pending}

theorem rw_rTable {x : Bool} (R : RwInv s)
    (hl : s.threads[t]? = some { pc := .rTable x, call := some p })
    (hs : step s t inv lo mt rz sm sm2 pick = some s') : RwInv s' := by
  rw_all R hl hs

theorem rw_rFirst {b : Nat} (R : RwInv s)
    (hl : s.threads[t]? = some { pc := .rFirst b, call := some p })
    (hs : step s t inv lo mt rz sm sm2 pick = some s') : RwInv s' := by
  rw_all R hl hs

theorem rw_rLin {b x : Nat} (R : RwInv s)
    (hl : s.threads[t]? = some { pc := .rLin b x, call := some p })
    (hs : step s t inv lo mt rz sm sm2 pick = some s') : RwInv s' := by
  rw_all R hl hs

theorem rw_rTree {b : Nat} (R : RwInv s)
    (hl : s.threads[t]? = some { pc := .rTree b, call := some p })
    (hs : step s t inv lo mt rz sm sm2 pick = some s') : RwInv s' := by
  rw_all R hl hs

theorem rw_rVal {x : Nat} (R : RwInv s)
    (hl : s.threads[t]? = some { pc := .rVal x, call := some p })
    (hs : step s t inv lo mt rz sm sm2 pick = some s') : RwInv s' := by
  rw_all R hl hs

theorem rw_lFirst {b : Nat} (R : RwInv s)
    (hl : s.threads[t]? = some { pc := .lFirst b, call := some p })
    (hs : step s t inv lo mt rz sm sm2 pick = some s') : RwInv s' := by
  rw_all R hl hs

theorem rw_wTable  (R : RwInv s)
    (hl : s.threads[t]? = some { pc := .wTable, call := some p })
    (hs : step s t inv lo mt rz sm sm2 pick = some s') : RwInv s' := by
  rw_all R hl hs

theorem rw_wCell {g : Nat} (R : RwInv s)
    (hl : s.threads[t]? = some { pc := .wCell g, call := some p })
    (hs : step s t inv lo mt rz sm sm2 pick = some s') : RwInv s' := by
  rw_all R hl hs

theorem rw_wCas {g : Nat} (R : RwInv s)
    (hl : s.threads[t]? = some { pc := .wCas g, call := some p })
    (hs : step s t inv lo mt rz sm sm2 pick = some s') : RwInv s' := by
  rw_all R hl hs

theorem rw_wLock {g h : Nat} (R : RwInv s)
    (hl : s.threads[t]? = some { pc := .wLock g h, call := some p })
    (hs : step s t inv lo mt rz sm sm2 pick = some s') : RwInv s' := by
  rw_all R hl hs

theorem rw_wCheck {g h : Nat} (R : RwInv s)
    (hl : s.threads[t]? = some { pc := .wCheck g h, call := some p })
    (hs : step s t inv lo mt rz sm sm2 pick = some s') : RwInv s' := by
  rw_all R hl hs

theorem rw_wUnlock {g h : Nat} {res : KRes} {retry : Bool} (R : RwInv s)
    (hl : s.threads[t]? = some { pc := .wUnlock g h res retry, call := some p })
    (hs : step s t inv lo mt rz sm sm2 pick = some s') : RwInv s' := by
  rw_all R hl hs

theorem rw_tMutex {g b : Nat} (R : RwInv s)
    (hl : s.threads[t]? = some { pc := .tMutex g b, call := some p })
    (hs : step s t inv lo mt rz sm sm2 pick = some s') : RwInv s' := by
  rw_all R hl hs

theorem rw_tCheck {g b : Nat} (R : RwInv s)
    (hl : s.threads[t]? = some { pc := .tCheck g b, call := some p })
    (hs : step s t inv lo mt rz sm sm2 pick = some s') : RwInv s' := by
  rw_all R hl hs

theorem rw_tFind {g b : Nat} (R : RwInv s)
    (hl : s.threads[t]? = some { pc := .tFind g b, call := some p })
    (hs : step s t inv lo mt rz sm sm2 pick = some s') : RwInv s' := by
  rw_all R hl hs

theorem rw_tVal {g b i : Nat} {v : Nat × Nat} {res : KRes} (R : RwInv s)
    (hl : s.threads[t]? = some { pc := .tVal g b i v res, call := some p })
    (hs : step s t inv lo mt rz sm sm2 pick = some s') : RwInv s' := by
  rw_all R hl hs

theorem rw_tPrependLocked {g b : Nat} (R : RwInv s)
    (hl : s.threads[t]? = some { pc := .tPrependLocked g b, call := some p })
    (hs : step s t inv lo mt rz sm sm2 pick = some s') : RwInv s' := by
  rw_all R hl hs

theorem rw_tTreeLinkLocked {g b x : Nat} (R : RwInv s)
    (hl : s.threads[t]? = some { pc := .tTreeLinkLocked g b x, call := some p })
    (hs : step s t inv lo mt rz sm sm2 pick = some s') : RwInv s' := by
  rw_all R hl hs

theorem rw_tRestructure {g b i : Nat} {res : KRes} (R : RwInv s)
    (hl : s.threads[t]? = some { pc := .tRestructure g b i res, call := some p })
    (hs : step s t inv lo mt rz sm sm2 pick = some s') : RwInv s' := by
  rw_all R hl hs

theorem rw_tUntreeify {g b : Nat} {res : KRes} (R : RwInv s)
    (hl : s.threads[t]? = some { pc := .tUntreeify g b res, call := some p })
    (hs : step s t inv lo mt rz sm sm2 pick = some s') : RwInv s' := by
  rw_all R hl hs

theorem rw_tUnlockM {g b : Nat} {res : KRes} {retry : Bool} (R : RwInv s)
    (hl : s.threads[t]? = some { pc := .tUnlockM g b res retry, call := some p })
    (hs : step s t inv lo mt rz sm sm2 pick = some s') : RwInv s' := by
  rw_all R hl hs

theorem rw_kTable {k : Nat} (R : RwInv s)
    (hl : s.threads[t]? = some { pc := .kTable k, call := none })
    (hs : step s t inv lo mt rz sm sm2 pick = some s') : RwInv s' := by
  rw_all R hl hs

theorem rw_kCell {g k : Nat} (R : RwInv s)
    (hl : s.threads[t]? = some { pc := .kCell g k, call := none })
    (hs : step s t inv lo mt rz sm sm2 pick = some s') : RwInv s' := by
  rw_all R hl hs

theorem rw_kLock {g k h : Nat} (R : RwInv s)
    (hl : s.threads[t]? = some { pc := .kLock g k h, call := none })
    (hs : step s t inv lo mt rz sm sm2 pick = some s') : RwInv s' := by
  rw_all R hl hs

theorem rw_kCheck {g k h : Nat} (R : RwInv s)
    (hl : s.threads[t]? = some { pc := .kCheck g k h, call := none })
    (hs : step s t inv lo mt rz sm sm2 pick = some s') : RwInv s' := by
  rw_all R hl hs

theorem rw_kBuild {g k h : Nat} (R : RwInv s)
    (hl : s.threads[t]? = some { pc := .kBuild g k h, call := none })
    (hs : step s t inv lo mt rz sm sm2 pick = some s') : RwInv s' := by
  rw_all R hl hs

theorem rw_kStore {g k h b : Nat} (R : RwInv s)
    (hl : s.threads[t]? = some { pc := .kStore g k h b, call := none })
    (hs : step s t inv lo mt rz sm sm2 pick = some s') : RwInv s' := by
  rw_all R hl hs

theorem rw_kUnlock {h : Nat} (R : RwInv s)
    (hl : s.threads[t]? = some { pc := .kUnlock h, call := none })
    (hs : step s t inv lo mt rz sm sm2 pick = some s') : RwInv s' := by
  rw_all R hl hs

theorem rw_xNext  (R : RwInv s)
    (hl : s.threads[t]? = some { pc := .xNext, call := none })
    (hs : step s t inv lo mt rz sm sm2 pick = some s') : RwInv s' := by
  rw_all R hl hs

theorem rw_xCell {j : Nat} (R : RwInv s)
    (hl : s.threads[t]? = some { pc := .xCell j, call := none })
    (hs : step s t inv lo mt rz sm sm2 pick = some s') : RwInv s' := by
  rw_all R hl hs

theorem rw_xCasMoved {j : Nat} (R : RwInv s)
    (hl : s.threads[t]? = some { pc := .xCasMoved j, call := none })
    (hs : step s t inv lo mt rz sm sm2 pick = some s') : RwInv s' := by
  rw_all R hl hs

theorem rw_xLock {j h : Nat} (R : RwInv s)
    (hl : s.threads[t]? = some { pc := .xLock j h, call := none })
    (hs : step s t inv lo mt rz sm sm2 pick = some s') : RwInv s' := by
  rw_all R hl hs

theorem rw_xCheck {j h : Nat} (R : RwInv s)
    (hl : s.threads[t]? = some { pc := .xCheck j h, call := none })
    (hs : step s t inv lo mt rz sm sm2 pick = some s') : RwInv s' := by
  rw_all R hl hs

theorem rw_xBuild {j h : Nat} (R : RwInv s)
    (hl : s.threads[t]? = some { pc := .xBuild j h, call := none })
    (hs : step s t inv lo mt rz sm sm2 pick = some s') : RwInv s' := by
  rw_all R hl hs

theorem rw_yMutex {j b : Nat} (R : RwInv s)
    (hl : s.threads[t]? = some { pc := .yMutex j b, call := none })
    (hs : step s t inv lo mt rz sm sm2 pick = some s') : RwInv s' := by
  rw_all R hl hs

theorem rw_yCheck {j b : Nat} (R : RwInv s)
    (hl : s.threads[t]? = some { pc := .yCheck j b, call := none })
    (hs : step s t inv lo mt rz sm sm2 pick = some s') : RwInv s' := by
  rw_all R hl hs

theorem rw_xStoreLow {j : Nat} {unl : Nat ⊕ Nat} {c1 c2 : Cell} (R : RwInv s)
    (hl : s.threads[t]? = some { pc := .xStoreLow j unl c1 c2, call := none })
    (hs : step s t inv lo mt rz sm sm2 pick = some s') : RwInv s' := by
  rw_all R hl hs

theorem rw_xStoreHigh {j : Nat} {unl : Nat ⊕ Nat} {c2 : Cell} (R : RwInv s)
    (hl : s.threads[t]? = some { pc := .xStoreHigh j unl c2, call := none })
    (hs : step s t inv lo mt rz sm sm2 pick = some s') : RwInv s' := by
  rw_all R hl hs

theorem rw_xStoreMoved {j : Nat} {unl : Nat ⊕ Nat} (R : RwInv s)
    (hl : s.threads[t]? = some { pc := .xStoreMoved j unl, call := none })
    (hs : step s t inv lo mt rz sm sm2 pick = some s') : RwInv s' := by
  rw_all R hl hs

theorem rw_xCommit  (R : RwInv s)
    (hl : s.threads[t]? = some { pc := .xCommit, call := none })
    (hs : step s t inv lo mt rz sm sm2 pick = some s') : RwInv s' := by
  rw_all R hl hs

theorem rw_rNode {x : Option Nat} (R : RwInv s)
    (hl : s.threads[t]? = some { pc := .rNode x, call := some p })
    (hs : step s t inv lo mt rz sm sm2 pick = some s') : RwInv s' := by
  cases x <;> rw_all R hl hs

theorem rw_rState {b : Nat} {x : Option Nat} (R : RwInv s)
    (hl : s.threads[t]? = some { pc := .rState b x, call := some p })
    (hs : step s t inv lo mt rz sm sm2 pick = some s') : RwInv s' := by
  cases x <;> rw_all R hl hs

theorem rw_lNode {x : Option Nat} (R : RwInv s)
    (hl : s.threads[t]? = some { pc := .lNode x, call := some p })
    (hs : step s t inv lo mt rz sm sm2 pick = some s') : RwInv s' := by
  cases x <;> rw_all R hl hs

theorem rw_wFind {g h : Nat} {pred cur : Option Nat} (R : RwInv s)
    (hl : s.threads[t]? = some { pc := .wFind g h pred cur, call := some p })
    (hs : step s t inv lo mt rz sm sm2 pick = some s') : RwInv s' := by
  cases cur <;> rw_all R hl hs

theorem rw_xUnlock {unl : Nat ⊕ Nat} (R : RwInv s)
    (hl : s.threads[t]? = some { pc := .xUnlock unl, call := none })
    (hs : step s t inv lo mt rz sm sm2 pick = some s') : RwInv s' := by
  cases unl <;> rw_all R hl hs

theorem rw_tUnlinkLocked {g b i : Nat} {res : KRes} (R : RwInv s)
    (hl : s.threads[t]? = some { pc := .tUnlinkLocked g b i res, call := some p })
    (hs : step s t inv lo mt rz sm sm2 pick = some s') : RwInv s' := by
  open_step hs hl
  cases hs
  split <;> split <;> rw_same R hl

theorem rw_wStore {g h : Nat} {pred hit hnext : Option Nat} (R : RwInv s)
    (hl : s.threads[t]? = some { pc := .wStore g h pred hit hnext, call := some p })
    (hs : step s t inv lo mt rz sm sm2 pick = some s') : RwInv s' := by
  open_step hs hl
  cases hs
  obtain ⟨e1, e2, e3, e4⟩ := storeAt_ext (tick s) g p pred hit hnext
  refine rwinv_same (l' := { pc := .wUnlock g h (storeAt (tick s) g p pred hit hnext).2 false, call := some p })
    R hl ?_ ?_ rfl (Or.inl rfl) (fun b h => nomatch h)
  · show ((storeAt (tick s) g p pred hit hnext).1.threads).set _ _ = _
    rw [e1]; rfl
  · show RwSame s.tbins (storeAt (tick s) g p pred hit hnext).1.tbins
    rw [e3]; exact .refl _

theorem rw_yBuild {j b : Nat} (R : RwInv s)
    (hl : s.threads[t]? = some { pc := .yBuild j b, call := none })
    (hs : step s t inv lo mt rz sm sm2 pick = some s') : RwInv s' := by
  open_step hs hl
  generalize h1 : splitSide _ b _ sm _ = r1 at hs
  obtain ⟨s1, lo1⟩ := r1
  simp only at hs
  generalize h2 : splitSide s1 b _ sm2 _ = r2 at hs
  obtain ⟨s2, hi2⟩ := r2
  simp only at hs
  cases hs
  obtain ⟨a1, a2⟩ := splitSide_rw' h1
  obtain ⟨b1, b2⟩ := splitSide_rw' h2
  exact rwinv_same (l' := { pc := .xStoreLow j (.inr b) lo1 hi2, call := none }) R hl
    (by show s2.threads.set _ _ = _; rw [b1, a1]) (a2.trans b2) rfl (Or.inl rfl) (fun b h => nomatch h)

theorem rw_rCell {x : Bool} {g : Nat} (R : RwInv s) (I : GenInv s)
    (hl : s.threads[t]? = some { pc := .rCell x g, call := some p })
    (hs : step s t inv lo mt rz sm sm2 pick = some s') : RwInv s' := by
  open_step hs hl
  split at hs
  · cases hs; rw_same R hl
  · cases hs; rw_same R hl
  · cases hs; rw_same R hl
  · rename_i b hb
    cases hs
    refine rwinv_same R hl rfl (.refl _) ?_ ?_ ?_
    · split <;> rfl
    · split <;> exact Or.inl rfl
    · intro b' h'
      have : b' = b := by
        revert h'
        split <;> (intro h'; simp [readerRef] at h'; exact h'.symm)
      subst this
      exact I.bins _ _ _ hb

theorem rw_rCas {b x r : Nat} (R : RwInv s)
    (hl : s.threads[t]? = some { pc := .rCas b x r, call := some p })
    (hs : step s t inv lo mt rz sm sm2 pick = some s') : RwInv s' := by
  have hb := R.refR t _ b hl rfl
  open_step hs hl
  split at hs
  · rename_i hg
    cases hs
    simp only [Bool.and_eq_true, Bool.not_eq_true', beq_iff_eq] at hg
    obtain ⟨⟨hw, -⟩, -⟩ := hg
    refine rwinv_bin (b0 := b) (f := fun x => { x with readers := x.readers + 1 }) R hl rfl rfl hb
      (fun b' h' => by simp [readerRef] at h'; subst h'; exact hb) ?_ ?_ ?_ ?_ ?_
    · show (binOf s.tbins b).readers + 1 = nRead b _
      rw [R.rd b hb, (nRead_set_enter (l' := { pc := .rTree b, call := some p }) hl rfl rfl).1]
    · intro b' hb'
      exact (nRead_set_enter (l' := { pc := .rTree b, call := some p }) hl rfl rfl).2 b' hb'
    · intro h
      have : (binOf s.tbins b).writer = true := h
      rw [show binOf s.tbins b = s.tbins.getD b dfltB from rfl, hw] at this; cases this
    · intro b' h'; cases h'
    · intro t1 l1 _ h1 hw1; exact R.wsec t1 l1 b h1 hw1
  · cases hs; rw_same R hl

theorem rw_rRelease {b : Nat} {x : Option Nat} (R : RwInv s)
    (hl : s.threads[t]? = some { pc := .rRelease b x, call := some p })
    (hs : step s t inv lo mt rz sm sm2 pick = some s') : RwInv s' := by
  have hb := R.refR t _ b hl rfl
  open_step hs hl
  split at hs
  · cases hs
    refine rwinv_bin (b0 := b) (f := fun x => { x with readers := x.readers - 1 }) R hl rfl rfl hb
      (fun b' h' => nomatch h') ?_ ?_ ?_ (fun b' h' => nomatch h')
      (fun t1 l1 _ h1 hw1 => R.wsec t1 l1 b h1 hw1)
    · show (binOf s.tbins b).readers - 1 = nRead b _
      rw [R.rd b hb]
      exact Nat.sub_eq_of_eq_add (nRead_set_leave hl rfl rfl).1.symm
    · intro b' hb'
      exact (nRead_set_leave hl rfl rfl).2 b' hb'
    · intro h
      have h0 := R.wrd b h
      show (binOf s.tbins b).readers - 1 = 0
      omega
  · cases hs
    refine rwinv_bin (b0 := b) (f := fun x => { x with readers := x.readers - 1 }) R hl rfl rfl hb
      (fun b' h' => nomatch h') ?_ ?_ ?_ (fun b' h' => nomatch h')
      (fun t1 l1 _ h1 hw1 => R.wsec t1 l1 b h1 hw1)
    · show (binOf s.tbins b).readers - 1 = nRead b _
      rw [R.rd b hb]
      exact Nat.sub_eq_of_eq_add (nRead_set_leave hl rfl rfl).1.symm
    · intro b' hb'
      exact (nRead_set_leave hl rfl rfl).2 b' hb'
    · intro h
      have h0 := R.wrd b h
      show (binOf s.tbins b).readers - 1 = 0
      omega
  · cases hs
    refine rwinv_bin (b0 := b) (f := fun x => { x with readers := x.readers - 1 }) R hl rfl rfl hb
      (fun b' h' => nomatch h') ?_ ?_ ?_ (fun b' h' => nomatch h')
      (fun t1 l1 _ h1 hw1 => R.wsec t1 l1 b h1 hw1)
    · show (binOf s.tbins b).readers - 1 = nRead b _
      rw [R.rd b hb]
      exact Nat.sub_eq_of_eq_add (nRead_set_leave hl rfl rfl).1.symm
    · intro b' hb'
      exact (nRead_set_leave hl rfl rfl).2 b' hb'
    · intro h
      have h0 := R.wrd b h
      show (binOf s.tbins b).readers - 1 = 0
      omega

theorem rw_lrTry {g b : Nat} {k : After} {res : KRes} (R : RwInv s) (I : GenInv s)
    (hl : s.threads[t]? = some { pc := .lrTry g b k res, call := some p })
    (hs : step s t inv lo mt rz sm sm2 pick = some s') : RwInv s' := by
  have hb := ((I.thr t _ hl).heldM b rfl).1
  cases k with
  | remove i =>
    open_step hs hl; simp only [afterLock] at hs
    repeat' split at hs
    all_goals first
      | (cases hs; done)
      | (cases hs; rw_same R hl)
      | skip
    all_goals
      rename_i hg
      cases hs
      have hr0 : (binOf s.tbins b).readers = 0 := by
        simp only [Bool.and_eq_true, beq_iff_eq] at hg
        exact hg.2
      refine rwinv_bin (b0 := b) (f := _) R hl rfl rfl hb
        (fun b' h' => nomatch h') ?_ ?_ ?_ ?_ (fun t1 l1 _ h1 hw1 => rfl)
      · show (binOf s.tbins b).readers = nRead b _
        exact (R.rd b hb).trans (Eq.symm (by apply nRead_set_same b hl; rfl))
      · intro b' _; apply nRead_set_same b' hl; rfl
      · intro _; exact hr0
      · intro b' h'
        have : b' = b := by simp [wrSec] at h'; exact h'.symm
        exact Or.inl ⟨this, rfl⟩
  | insert =>
    open_step hs hl; simp only [afterLock] at hs
    repeat' split at hs
    all_goals first
      | (cases hs; done)
      | (cases hs; rw_same R hl)
      | skip
    all_goals
      rename_i hg
      cases hs
      have hr0 : (binOf s.tbins b).readers = 0 := by
        simp only [Bool.and_eq_true, beq_iff_eq] at hg
        exact hg.2
      refine rwinv_bin (b0 := b) (f := _) R hl rfl rfl hb
        (fun b' h' => nomatch h') ?_ ?_ ?_ ?_ (fun t1 l1 _ h1 hw1 => rfl)
      · show (binOf s.tbins b).readers = nRead b _
        exact (R.rd b hb).trans (Eq.symm (by apply nRead_set_same b hl; rfl))
      · intro b' _; apply nRead_set_same b' hl; rfl
      · intro _; exact hr0
      · intro b' h'
        have : b' = b := by simp [wrSec] at h'; exact h'.symm
        exact Or.inl ⟨this, rfl⟩

theorem rw_lrLoop {g b : Nat} {k : After} {res : KRes} (R : RwInv s) (I : GenInv s)
    (hl : s.threads[t]? = some { pc := .lrLoop g b k res, call := some p })
    (hs : step s t inv lo mt rz sm sm2 pick = some s') : RwInv s' := by
  have hb := ((I.thr t _ hl).heldM b rfl).1
  cases k with
  | remove i =>
    open_step hs hl; simp only [afterLock] at hs
    repeat' split at hs
    all_goals first
      | (cases hs; done)
      | (cases hs; rw_same R hl)
      | skip
    all_goals
      rename_i hg
      cases hs
      have hr0 : (binOf s.tbins b).readers = 0 := by
        simp only [Bool.and_eq_true, beq_iff_eq] at hg
        exact hg.2
      refine rwinv_bin (b0 := b) (f := _) R hl rfl rfl hb
        (fun b' h' => nomatch h') ?_ ?_ ?_ ?_ (fun t1 l1 _ h1 hw1 => rfl)
      · show (binOf s.tbins b).readers = nRead b _
        exact (R.rd b hb).trans (Eq.symm (by apply nRead_set_same b hl; rfl))
      · intro b' _; apply nRead_set_same b' hl; rfl
      · intro _; exact hr0
      · intro b' h'
        have : b' = b := by simp [wrSec] at h'; exact h'.symm
        exact Or.inl ⟨this, rfl⟩
  | insert =>
    open_step hs hl; simp only [afterLock] at hs
    repeat' split at hs
    all_goals first
      | (cases hs; done)
      | (cases hs; rw_same R hl)
      | skip
    all_goals
      rename_i hg
      cases hs
      have hr0 : (binOf s.tbins b).readers = 0 := by
        simp only [Bool.and_eq_true, beq_iff_eq] at hg
        exact hg.2
      refine rwinv_bin (b0 := b) (f := _) R hl rfl rfl hb
        (fun b' h' => nomatch h') ?_ ?_ ?_ ?_ (fun t1 l1 _ h1 hw1 => rfl)
      · show (binOf s.tbins b).readers = nRead b _
        exact (R.rd b hb).trans (Eq.symm (by apply nRead_set_same b hl; rfl))
      · intro b' _; apply nRead_set_same b' hl; rfl
      · intro _; exact hr0
      · intro b' h'
        have : b' = b := by simp [wrSec] at h'; exact h'.symm
        exact Or.inl ⟨this, rfl⟩

theorem rw_tUnlockRoot {g b : Nat} {res : KRes} (R : RwInv s) (I : GenInv s)
    (hl : s.threads[t]? = some { pc := .tUnlockRoot g b res, call := some p })
    (hs : step s t inv lo mt rz sm sm2 pick = some s') : RwInv s' := by
  have hh := (I.thr t _ hl).heldM b rfl
  open_step hs hl
  cases hs
  refine rwinv_bin (b0 := b) (f := fun x => { x with writer := false, waiter := false }) R hl rfl rfl hh.1
    (fun b' h' => nomatch h') ?_ ?_ (fun h => by cases h) (fun b' h' => nomatch h') ?_
  · show (binOf s.tbins b).readers = nRead b _
    exact (R.rd b hh.1).trans (Eq.symm (by apply nRead_set_same b hl; rfl))
  · intro b' _; apply nRead_set_same b' hl; rfl
  · intro t1 l1 n1 h1 hw1
    exfalso
    have := ((I.thr t1 l1 h1).heldM b (wrSec_holdM hw1)).2
    rw [hh.2] at this
    exact n1 (Option.some.inj this).symm

theorem rw_idle (R : RwInv s) (hl : s.threads[t]? = some { pc := .idle, call := c })
    (hs : step s t inv lo mt rz sm sm2 pick = some s') : RwInv s' := by
  unfold step stepG at hs; rw [hl] at hs; simp only at hs
  split at hs
  · split at hs
    · cases hs
      exact rwinv_same (l' := { pc := .idle, call := c }) R hl (set_same hl) (.refl _) rfl (Or.inl rfl)
        (fun b h => nomatch h)
    · cases hs; rw_same R hl
  · split at hs
    · cases hs; rw_same R hl
    · split at hs
      · cases hs
        exact rwinv_same (l' := { pc := .idle, call := c }) R hl (set_same hl) (.refl _) rfl (Or.inl rfl)
          (fun b h => nomatch h)
      · cases hs
        split <;> rw_same R hl

end

theorem init_rwinv (n : Nat) : RwInv (init n) := by
  have hl : ∀ (t : Nat) (l : Local), (init n).threads[t]? = some l → l = {} := by
    intro t l h1
    exact List.eq_of_mem_replicate (List.mem_of_getElem? h1)
  refine ⟨?_, ?_, ?_, ?_⟩
  · intro t l b h hr; rw [hl t l h] at hr; cases hr
  · intro b hb; cases hb
  · intro b h
    have : (binOf ([] : List TBin) b).writer = true := h
    rw [binOf_ge _ (Nat.zero_le _)] at this; cases this
  · intro t l b h hw; rw [hl t l h] at hw; cases hw

theorem step_rwinv {s s' : State} {t : Nat} {inv : Option (Nat × KOp)} {lo : Bool} {mt : Option Nat}
    {rz sm sm2 : Bool} {pick : Nat} (I : GenInv s) (R : RwInv s)
    (hs : step s t inv lo mt rz sm sm2 pick = some s') : RwInv s' := by
  cases hl : s.threads[t]? with
  | none => unfold step stepG at hs; rw [hl] at hs; cases hs
  | some l =>
    obtain ⟨pc, call⟩ := l
    cases pc with
    | idle => exact rw_idle R hl hs
    | rTable x => cases call with
      | none => unfold step stepG at hs; rw [hl] at hs; simp at hs
      | some p => exact rw_rTable R hl hs
    | rFirst b => cases call with
      | none => unfold step stepG at hs; rw [hl] at hs; simp at hs
      | some p => exact rw_rFirst R hl hs
    | rLin b x => cases call with
      | none => unfold step stepG at hs; rw [hl] at hs; simp at hs
      | some p => exact rw_rLin R hl hs
    | rTree b => cases call with
      | none => unfold step stepG at hs; rw [hl] at hs; simp at hs
      | some p => exact rw_rTree R hl hs
    | rVal x => cases call with
      | none => unfold step stepG at hs; rw [hl] at hs; simp at hs
      | some p => exact rw_rVal R hl hs
    | lFirst b => cases call with
      | none => unfold step stepG at hs; rw [hl] at hs; simp at hs
      | some p => exact rw_lFirst R hl hs
    | wTable => cases call with
      | none => unfold step stepG at hs; rw [hl] at hs; simp at hs
      | some p => exact rw_wTable R hl hs
    | wCell g => cases call with
      | none => unfold step stepG at hs; rw [hl] at hs; simp at hs
      | some p => exact rw_wCell R hl hs
    | wCas g => cases call with
      | none => unfold step stepG at hs; rw [hl] at hs; simp at hs
      | some p => exact rw_wCas R hl hs
    | wLock g h => cases call with
      | none => unfold step stepG at hs; rw [hl] at hs; simp at hs
      | some p => exact rw_wLock R hl hs
    | wCheck g h => cases call with
      | none => unfold step stepG at hs; rw [hl] at hs; simp at hs
      | some p => exact rw_wCheck R hl hs
    | wUnlock g h res retry => cases call with
      | none => unfold step stepG at hs; rw [hl] at hs; simp at hs
      | some p => exact rw_wUnlock R hl hs
    | tMutex g b => cases call with
      | none => unfold step stepG at hs; rw [hl] at hs; simp at hs
      | some p => exact rw_tMutex R hl hs
    | tCheck g b => cases call with
      | none => unfold step stepG at hs; rw [hl] at hs; simp at hs
      | some p => exact rw_tCheck R hl hs
    | tFind g b => cases call with
      | none => unfold step stepG at hs; rw [hl] at hs; simp at hs
      | some p => exact rw_tFind R hl hs
    | tVal g b i v res => cases call with
      | none => unfold step stepG at hs; rw [hl] at hs; simp at hs
      | some p => exact rw_tVal R hl hs
    | tPrependLocked g b => cases call with
      | none => unfold step stepG at hs; rw [hl] at hs; simp at hs
      | some p => exact rw_tPrependLocked R hl hs
    | tTreeLinkLocked g b x => cases call with
      | none => unfold step stepG at hs; rw [hl] at hs; simp at hs
      | some p => exact rw_tTreeLinkLocked R hl hs
    | tRestructure g b i res => cases call with
      | none => unfold step stepG at hs; rw [hl] at hs; simp at hs
      | some p => exact rw_tRestructure R hl hs
    | tUntreeify g b res => cases call with
      | none => unfold step stepG at hs; rw [hl] at hs; simp at hs
      | some p => exact rw_tUntreeify R hl hs
    | tUnlockM g b res retry => cases call with
      | none => unfold step stepG at hs; rw [hl] at hs; simp at hs
      | some p => exact rw_tUnlockM R hl hs
    | kTable k => cases call with
      | some p => unfold step stepG at hs; rw [hl] at hs; simp at hs
      | none => exact rw_kTable R hl hs
    | kCell g k => cases call with
      | some p => unfold step stepG at hs; rw [hl] at hs; simp at hs
      | none => exact rw_kCell R hl hs
    | kLock g k h => cases call with
      | some p => unfold step stepG at hs; rw [hl] at hs; simp at hs
      | none => exact rw_kLock R hl hs
    | kCheck g k h => cases call with
      | some p => unfold step stepG at hs; rw [hl] at hs; simp at hs
      | none => exact rw_kCheck R hl hs
    | kBuild g k h => cases call with
      | some p => unfold step stepG at hs; rw [hl] at hs; simp at hs
      | none => exact rw_kBuild R hl hs
    | kStore g k h b => cases call with
      | some p => unfold step stepG at hs; rw [hl] at hs; simp at hs
      | none => exact rw_kStore R hl hs
    | kUnlock h => cases call with
      | some p => unfold step stepG at hs; rw [hl] at hs; simp at hs
      | none => exact rw_kUnlock R hl hs
    | xNext => cases call with
      | some p => unfold step stepG at hs; rw [hl] at hs; simp at hs
      | none => exact rw_xNext R hl hs
    | xCell j => cases call with
      | some p => unfold step stepG at hs; rw [hl] at hs; simp at hs
      | none => exact rw_xCell R hl hs
    | xCasMoved j => cases call with
      | some p => unfold step stepG at hs; rw [hl] at hs; simp at hs
      | none => exact rw_xCasMoved R hl hs
    | xLock j h => cases call with
      | some p => unfold step stepG at hs; rw [hl] at hs; simp at hs
      | none => exact rw_xLock R hl hs
    | xCheck j h => cases call with
      | some p => unfold step stepG at hs; rw [hl] at hs; simp at hs
      | none => exact rw_xCheck R hl hs
    | xBuild j h => cases call with
      | some p => unfold step stepG at hs; rw [hl] at hs; simp at hs
      | none => exact rw_xBuild R hl hs
    | yMutex j b => cases call with
      | some p => unfold step stepG at hs; rw [hl] at hs; simp at hs
      | none => exact rw_yMutex R hl hs
    | yCheck j b => cases call with
      | some p => unfold step stepG at hs; rw [hl] at hs; simp at hs
      | none => exact rw_yCheck R hl hs
    | xStoreLow j unl c1 c2 => cases call with
      | some p => unfold step stepG at hs; rw [hl] at hs; simp at hs
      | none => exact rw_xStoreLow R hl hs
    | xStoreHigh j unl c2 => cases call with
      | some p => unfold step stepG at hs; rw [hl] at hs; simp at hs
      | none => exact rw_xStoreHigh R hl hs
    | xStoreMoved j unl => cases call with
      | some p => unfold step stepG at hs; rw [hl] at hs; simp at hs
      | none => exact rw_xStoreMoved R hl hs
    | xCommit => cases call with
      | some p => unfold step stepG at hs; rw [hl] at hs; simp at hs
      | none => exact rw_xCommit R hl hs
    | rNode x => cases call with
      | none => unfold step stepG at hs; rw [hl] at hs; simp at hs
      | some p => exact rw_rNode R hl hs
    | rState b x => cases call with
      | none => unfold step stepG at hs; rw [hl] at hs; simp at hs
      | some p => exact rw_rState R hl hs
    | lNode x => cases call with
      | none => unfold step stepG at hs; rw [hl] at hs; simp at hs
      | some p => exact rw_lNode R hl hs
    | wFind g h pred cur => cases call with
      | none => unfold step stepG at hs; rw [hl] at hs; simp at hs
      | some p => exact rw_wFind R hl hs
    | xUnlock unl => cases call with
      | some p => unfold step stepG at hs; rw [hl] at hs; simp at hs
      | none => exact rw_xUnlock R hl hs
    | tUnlinkLocked g b i res => cases call with
      | none => unfold step stepG at hs; rw [hl] at hs; simp at hs
      | some p => exact rw_tUnlinkLocked R hl hs
    | wStore g h pred hit hnext => cases call with
      | none => unfold step stepG at hs; rw [hl] at hs; simp at hs
      | some p => exact rw_wStore R hl hs
    | yBuild j b => cases call with
      | some p => unfold step stepG at hs; rw [hl] at hs; simp at hs
      | none => exact rw_yBuild R hl hs
    | rCell x g => cases call with
      | none => unfold step stepG at hs; rw [hl] at hs; simp at hs
      | some p => exact rw_rCell R I hl hs
    | rCas b x r => cases call with
      | none => unfold step stepG at hs; rw [hl] at hs; simp at hs
      | some p => exact rw_rCas R hl hs
    | rRelease b x => cases call with
      | none => unfold step stepG at hs; rw [hl] at hs; simp at hs
      | some p => exact rw_rRelease R hl hs
    | lrTry g b k res => cases call with
      | none => unfold step stepG at hs; rw [hl] at hs; simp at hs
      | some p => exact rw_lrTry R I hl hs
    | lrLoop g b k res => cases call with
      | none => unfold step stepG at hs; rw [hl] at hs; simp at hs
      | some p => exact rw_lrLoop R I hl hs
    | tUnlockRoot g b res => cases call with
      | none => unfold step stepG at hs; rw [hl] at hs; simp at hs
      | some p => exact rw_tUnlockRoot R I hl hs

theorem reachable_rwinv {n : Nat} {s : State} (hr : Reachable n s) : GenInv s ∧ RwInv s := by
  induction hr with
  | init => exact ⟨init_geninv n, init_rwinv n⟩
  | step t inv lo mt rz sm sm2 pick _ hs ih => exact ⟨step_geninv ih.1 hs, step_rwinv ih.1 ih.2 hs⟩

/-- **a tree writer in its locked section excludes every lock-protocol reader from the tree of its bin** -/
theorem writer_excludes_readers_aux {n : Nat} {s : State} (hr : Reachable n s) {t t1 : Nat} {l l1 : Local} {b : Nat}
    (hl : s.threads[t]? = some l) (hw : wrSec l.pc = some b) (hl1 : s.threads[t1]? = some l1) :
    holdsRead l1.pc ≠ some b := by
  obtain ⟨I, R⟩ := reachable_rwinv hr
  intro h1
  have hb := R.refR t1 l1 b hl1 (holdsRead_ref h1)
  have h0 := R.wrd b (R.wsec t l b hl hw)
  rw [R.rd b hb] at h0
  unfold nRead at h0
  rw [List.countP_eq_zero] at h0
  have := h0 l1 (List.mem_of_getElem? hl1)
  simp [h1] at this

end Flurry.Proto.BinGN
