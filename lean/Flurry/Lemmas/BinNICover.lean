import Flurry.Lemmas.BinNITime
/-! # Proto/BinNI: a key that is present and untouched during a whole iteration is yielded (C07)

For a live iterator created at `t0` and a key `k` with `absOf k = some v` in every state since `t0`
(`Unch`), the remaining work *covers* `k` until `k` has been yielded:
* either the iterator's pointer is justified AS A READER OF `k` would be (`BinN.Good` with the constant
  history `some v`: the pointer is on the live chain of `k` and `k`'s node is not behind it, or it is on a
  dead node whose successors lead to a frozen copy source of `k` or back to such a chain) — `Good` survives
  every transition (`MemStep.carries`: heap steps, forwarding of a cell in any generation, clearing), and
  with a history that is never `none` a justified walk cannot end without meeting `k`;
* or a pending cell `(g, j)` of `todo` has `k` in its class (`k % 2^g = j`): when it is loaded it is either
  forwarded (one of its two children has `k` in its class) or it is the live cell of `k` (`frame_live`),
  which is then not empty, and its head is justified for `k` (`Good.cell`). -/
namespace Flurry.Proto.BinNI
open Flurry.Lin
open Flurry.Proto.BinX (NodeS Cell Pending isReader dflt chainFrom cellHead cellOfHead nodeAt nodeAt_of_some get_set chainH nextA)
open Flurry.Proto.BinN (Ghost Inv HInv MemStep StepK cellAt LC Live Good chId getCell liveId cellId cellOf keyOn)

/-- `k ↦ v` in every state of the run since `t0` -/
def Unch (nt : Nat) (s : State) (t0 k : Nat) (v : Nat × Nat) : Prop :=
  ∀ s₁, Reachable nt s₁ → Steps s₁ s → t0 ≤ s₁.n.now → absOf s₁ k = some v

/-- `k ↦ v` in every state of the run at a time in `[t0, t1]` -/
def UnchI (nt : Nat) (s : State) (t0 t1 k : Nat) (v : Nat × Nat) : Prop :=
  ∀ s₁, Reachable nt s₁ → Steps s₁ s → t0 ≤ s₁.n.now → s₁.n.now ≤ t1 → absOf s₁ k = some v

/-- the iteration `(t, t0)` has yielded `(k, v)` -/
def Yielded (s : State) (t t0 k : Nat) (v : Nat × Nat) : Prop :=
  ∃ y ∈ s.yields, y.tid = t ∧ y.t0 = t0 ∧ y.key = k ∧ y.val = v

/-- a pending cell that is not forwarded is the live cell of every key of its class -/
theorem frame_live {n : BinN.State} {G : Ghost} (H : HInv n G) {g j k : Nat} (ht : TodoOK n (g, j))
    (hk : k % 2 ^ g = j) (hnm : cellAt n g j ≠ .moved) : BinN.liveCell n k = cellAt n g j := by
  have S := H.shape
  have hj : j < 2 ^ g := by rw [← hk]; exact BinN.mod_lt_pow k g
  have hlive : liveId n k = (g, j) := by
    unfold liveId
    rcases Nat.lt_or_ge g n.cur with h | h
    · exact absurd (S.old g j h hj) hnm
    · have h1 : g ≤ n.cur + 1 := ht.1
      rcases Nat.lt_or_ge n.cur g with h2 | h2
      · have hg : g = n.cur + 1 := by omega
        subst hg
        have h3 : k % 2 ^ n.cur = j % 2 ^ n.cur := BinN.keyOn_mod (Nat.le_succ _) hk
        have : cellOf n n.cur k = .moved := by unfold cellOf; rw [h3]; exact ht.2 rfl
        rw [if_pos this]; unfold cellId; rw [hk]
      · have hg : g = n.cur := by omega
        subst hg
        have : cellOf n n.cur k ≠ .moved := by unfold cellOf; rw [hk]; exact hnm
        rw [if_neg this]; unfold cellId; rw [hk]
  rw [H.liveCell_eq k, hlive]; rfl

/-- a key of the class of `(g, j)` is in the class of exactly one of the two children -/
theorem frame_child {g j k : Nat} (hk : k % 2 ^ g = j) : k % 2 ^ (g + 1) = j ∨ k % 2 ^ (g + 1) = j + 2 ^ g :=
  BinN.child_cases (BinN.mod_lt_pow k (g + 1)) (by rw [BinN.mod_succ_mod]; exact hk)

theorem nextA_const (v : Nat × Nat) (now : Nat) :
    nextA (fun _ => some v) now (some v) = fun _ => some v := by
  funext τ; unfold nextA; split <;> rfl

structure CInv (nt : Nat) (s : State) (G : Ghost) : Prop where
  inv : Inv s.n G
  iinv : ∃ G0, IInv nt s G0
  time : TimeInv s
  cov : ∀ (t : Nat) (it : Iter), s.its[t]? = some (some it) → ∀ (k : Nat) (v : Nat × Nat), Unch nt s it.t0 k v →
    Yielded s t it.t0 k v ∨ Good G (fun _ => some v) k it.t0 s.n it.ptr ∨ ∃ c ∈ it.todo, k % 2 ^ c.1 = c.2
  done : ∀ e ∈ s.ends, ∀ (k : Nat) (v : Nat × Nat), UnchI nt s e.2.1 e.2.2 k v → Yielded s e.1 e.2.1 k v

theorem init_cinv (nt : Nat) : CInv nt (init nt) {} := by
  refine ⟨BinN.init_inv nt, ⟨_, init_iinv nt⟩, init_time nt, ?_, (fun e he => by cases he)⟩
  intro t it h
  have : (List.replicate nt (none : Option Iter))[t]? = some (some it) := h
  rw [List.getElem?_replicate] at this
  split at this <;> cases this

theorem good_none_false {G : Ghost} {k t0 : Nat} {v : Nat × Nat} {n : BinN.State}
    (h : Good G (fun _ => some v) k t0 n none) : False := by
  obtain ⟨τ, -, -, h3⟩ := h.miss
  cases h3

theorem cinv_step {nt : Nat} {s s' : State} {G : Ghost} {t : Nat} {mk : Bool} {inv : Option (Nat × KOp)} {rz : Bool}
    {pick : Nat} (hr : Reachable nt s) (C : CInv nt s G) (hs : step s t mk inv rz pick = some s') :
    ∃ G', CInv nt s' G' := by
  obtain ⟨inv', rz', pick', hn⟩ := step_n hs
  cases hl : s.n.threads[t]? with
  | none => unfold BinN.step BinN.stepG at hn; rw [hl] at hn; cases hn
  | some l =>
  have hk := BinN.step_stepK hl hn
  obtain ⟨G', I', m, -⟩ := BinN.stepK_inv C.inv hl hk
  obtain ⟨hnow, -⟩ := stepK_frame hk
  obtain ⟨G0, I0⟩ := C.iinv
  have H := C.inv.heap
  have hst : Steps s s' := .tail t mk inv rz pick (.refl s) hs
  have T' := time_step C.time hs
  have ymono := yields_mono hs
  have unchDown : ∀ t0 k v, Unch nt s' t0 k v → Unch nt s t0 k v :=
    fun t0 k v h s₁ r st => h s₁ r (st.trans hst)
  have unchNow : ∀ t0 k v, t0 ≤ s.n.now → Unch nt s' t0 k v → BinN.absOf s.n k = some v :=
    fun t0 k v h0 h => h s hr hst h0
  have yieldedUp : ∀ t' t0 k v, Yielded s t' t0 k v → Yielded s' t' t0 k v := by
    rintro t' t0 k v ⟨y, hy, h⟩
    exact ⟨y, ymono y hy, h⟩
  have carriedG : ∀ (t0 k : Nat) (v : Nat × Nat) (ptr : Option Nat), t0 ≤ s.n.now → BinN.absOf s.n k = some v →
      Good G (fun _ => some v) k t0 s.n ptr → Good G' (fun _ => some v) k t0 s'.n ptr := by
    intro t0 k v ptr h0 hv hg
    have := m.carries (k := k) (A := fun _ => some v) (x := some v) H I'.heap hnow (by rw [hv]) t0 ptr h0 hg
    rw [nextA_const] at this
    exact this
  have other : ∀ (t' : Nat) (it' : Iter), s.its[t']? = some (some it') → ∀ (k : Nat) (v : Nat × Nat),
      Unch nt s' it'.t0 k v →
      Yielded s' t' it'.t0 k v ∨ Good G' (fun _ => some v) k it'.t0 s'.n it'.ptr ∨ ∃ c ∈ it'.todo, k % 2 ^ c.1 = c.2 := by
    intro t' it' hi k v hu
    have h0 := (C.time.live t' it' hi).1
    rcases C.cov t' it' hi k v (unchDown _ _ _ hu) with h | h | h
    · exact Or.inl (yieldedUp _ _ _ _ h)
    · exact Or.inr (Or.inl (carriedG _ _ _ _ h0 (unchNow _ _ _ h0 hu) h))
    · exact Or.inr (Or.inr h)
  have doneOld : ∀ e ∈ s.ends, ∀ (k : Nat) (v : Nat × Nat), UnchI nt s' e.2.1 e.2.2 k v → Yielded s' e.1 e.2.1 k v :=
    fun e he k v hu => yieldedUp _ _ _ _ (C.done e he k v (fun s₁ r st a b => hu s₁ r (st.trans hst) a b))
  refine ⟨G', ?_⟩
  rcases step_cases hs with ⟨hi, -, n', -, rfl⟩ | ⟨hi, -, l0, hl0, hpc0, rfl⟩ | ⟨it, n', hi, hn', hit⟩
  · -- a transition of `BinN`
    exact ⟨I', iinv_step hr I0 hs, T', other, doneOld⟩
  · -- creation
    refine ⟨I', iinv_step hr I0 hs, T', ?_, doneOld⟩
    intro t' it' h k v hu
    rcases get_set h with ⟨rfl, e⟩ | ⟨hne, h⟩
    · cases e
      refine Or.inr (Or.inr ⟨(s.n.cur, k % 2 ^ s.n.cur), ?_, rfl⟩)
      exact List.mem_map.2 ⟨k % 2 ^ s.n.cur, List.mem_range.2 (BinN.mod_lt_pow _ _), rfl⟩
    · exact other t' it' h k v hu
  · -- a step of an iterator
    obtain ⟨l0, hl0, hpc0⟩ := I0.idle t it hi
    rw [idle_step hl0 hpc0] at hn'
    cases hn'
    obtain ⟨-, -, g3⟩ := I0.good t it hi
    have h0 := (C.time.live t it hi).1
    obtain ⟨hsn, hcase⟩ := iterStep_cases hit
    rcases hcase with ⟨c, nd, hptr, hnd, hits, hyl, hen⟩ | ⟨hptr, htodo, hits, hyl, hen⟩ |
      ⟨g, j, rest, ptr', todo', hptr, htodo, hits, hyl, hen, hcell⟩
    · -- yield
      have hnd' : nodeAt s.n.heap c = nd := nodeAt_of_some hnd
      refine ⟨I', iinv_step hr I0 hs, T', ?_, by rw [hen]; exact doneOld⟩
      intro t' it' h k v hu
      rw [hits] at h
      rcases get_set h with ⟨rfl, e⟩ | ⟨hne, h⟩
      · cases e
        have hv := unchNow _ _ _ h0 hu
        rcases C.cov t' it hi k v (unchDown _ _ _ hu) with hY | hG | hF
        · exact Or.inl (yieldedUp _ _ _ _ hY)
        · rw [hptr] at hG
          by_cases hkey : (nodeAt s.n.heap c).key = k
          · obtain ⟨τ, -, -, h3⟩ := hG.hit H (by rw [hv]) h0 hkey
            have hval : (nodeAt s.n.heap c).val = v := by cases h3; rfl
            refine Or.inl ⟨⟨t', it.t0, nd.key, nd.val, _⟩, by rw [hyl]; exact List.mem_cons_self, rfl, rfl, ?_, ?_⟩
            · show nd.key = k; rw [← hnd']; exact hkey
            · show nd.val = v; rw [← hnd']; exact hval
          · have := hG.next H (by rw [hv]) h0 hkey
            rw [hnd'] at this
            exact Or.inr (Or.inl (carriedG _ _ _ _ h0 hv this))
        · exact Or.inr (Or.inr hF)
      · exact other t' it' h k v hu
    · -- the end
      refine ⟨I', iinv_step hr I0 hs, T', ?_, ?_⟩
      · intro t' it' h k v hu
        rw [hits] at h
        rcases get_set h with ⟨rfl, e⟩ | ⟨hne, h⟩
        · cases e
        · exact other t' it' h k v hu
      · intro e he k v hu
        rw [hen] at he
        rcases List.mem_cons.1 he with rfl | he
        · have hU : Unch nt s it.t0 k v := by
            intro s₁ r st a
            refine hu s₁ r (st.trans hst) a ?_
            have := st.now_le
            show s₁.n.now ≤ s.n.now + 1
            omega
          rcases C.cov t it hi k v hU with hY | hG | ⟨c, hc, -⟩
          · exact yieldedUp _ _ _ _ hY
          · rw [hptr] at hG; exact (good_none_false hG).elim
          · rw [htodo] at hc; cases hc
        · exact doneOld e he k v hu
    · -- the load of a cell
      rw [htodo] at g3
      have hgj := g3 (g, j) (by simp)
      refine ⟨I', iinv_step hr I0 hs, T', ?_, by rw [hen]; exact doneOld⟩
      intro t' it' h k v hu
      rw [hits] at h
      rcases get_set h with ⟨rfl, e⟩ | ⟨hne, h⟩
      · cases e
        have hv := unchNow _ _ _ h0 hu
        rcases C.cov t' it hi k v (unchDown _ _ _ hu) with hY | hG | ⟨c, hc, hck⟩
        · exact Or.inl (yieldedUp _ _ _ _ hY)
        · rw [hptr] at hG; exact (good_none_false hG).elim
        · rw [htodo] at hc
          rcases List.mem_cons.1 hc with rfl | hc
          · -- the cell that covers `k` is loaded
            have hck' : k % 2 ^ g = j := hck
            rcases hcell with ⟨hce, -, -⟩ | ⟨hd, hcn, rfl, -⟩ | ⟨hcm, -, rfl⟩
            · exfalso
              have hlive := frame_live H hgj hck' (by
                show cellAt s.n g j ≠ _
                have : cellAt s.n g j = .empty := hce
                rw [this]; simp)
              have : cellAt s.n g j = .empty := hce
              rw [this] at hlive
              have := BinN.absOf_of_empty hlive
              rw [hv] at this; cases this
            · have hcn' : cellAt s.n g j = .node hd := hcn
              have hlive := frame_live H hgj hck' (by rw [hcn']; simp)
              rw [hcn'] at hlive
              exact Or.inr (Or.inl (carriedG _ _ _ _ h0 hv (Good.cell H hlive)))
            · refine Or.inr (Or.inr ?_)
              rcases frame_child hck' with h1 | h1
              · exact ⟨(g + 1, j), by simp, h1⟩
              · exact ⟨(g + 1, j + 2 ^ g), by simp, h1⟩
          · refine Or.inr (Or.inr ⟨c, ?_, hck⟩)
            show c ∈ todo'
            rcases hcell with ⟨-, -, rfl⟩ | ⟨hd, -, -, rfl⟩ | ⟨-, -, rfl⟩
            · exact hc
            · exact hc
            · simp [hc]
      · exact other t' it' h k v hu

theorem reachable_cinv {nt : Nat} {s : State} (hr : Reachable nt s) : ∃ G, CInv nt s G := by
  induction hr with
  | init => exact ⟨_, init_cinv nt⟩
  | step t mk inv rz pick hr hs ih =>
    obtain ⟨G, C⟩ := ih
    exact cinv_step hr C hs

/-- **a key that is present and untouched during the whole iteration is yielded**, with its value -/
theorem untouched_yielded {nt : Nat} {s : State} (hr : Reachable nt s) {t τ0 τ1 k : Nat} {v : Nat × Nat}
    (he : (t, τ0, τ1) ∈ s.ends)
    (hun : ∀ s₁, Reachable nt s₁ → Steps s₁ s → τ0 ≤ s₁.n.now → s₁.n.now ≤ τ1 → absOf s₁ k = some v) :
    ∃ y ∈ s.yields, y.tid = t ∧ y.t0 = τ0 ∧ y.key = k ∧ y.val = v := by
  obtain ⟨G, C⟩ := reachable_cinv hr
  exact C.done _ he k v hun

end Flurry.Proto.BinNI
