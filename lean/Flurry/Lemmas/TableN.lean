import Flurry.Proto.TableN
import Flurry.Lemmas.BinNLin
import Flurry.Lemmas.LinLocal
/-! # Proto/TableN: a table through any number of resizes is linearizable as a MAP (C01)

The construction of `Lemmas/TableG.lean` over `Proto/BinN` lineages. A `tick` of a lineage — its clock
advances while a thread acts in another lineage — IS a transition of `Proto/BinN`: the step of a
thread that is idle in that lineage and starts nothing — no call, no resize
(`BinN.step b t none false 0 = some (tick b)`, `tick_is_step`), and `TableN.step` lets thread `t` act
in lineage `i` only while it is idle in every other lineage. Hence every lineage of a reachable table
is literally `BinN.Reachable` (`TblInv.reach`), and all lineage-level theorems apply to it unchanged:
no re-timing argument is needed.

Other than in `Lemmas/TableG.lean` no "keys stay in their class" invariant is needed: inside lineage
`i` the key `k` of the table is called `k / m`, every natural number is a local key, and the translation
back `q ↦ i + m * q` is injective on a lineage and separates the lineages (`globalKey_eq_iff`):

* `TblInv m n S`: `m` lineages, each `BinN.Reachable n`;
* `proj_binCalls_own`, `proj_binCalls_other`, `proj_mhist`: the projection of the map history on key
  `k` is the history of local key `k / m` in lineage `k % m` (as a list, not only up to order: the
  other lineages contribute nothing);
* `tableN_key_linearizable_aux`, `tableN_map_linearizable_aux` (with `C01.locality`). -/

namespace Flurry.Proto.BinN
open Flurry.Lin
open Flurry.Proto.BinX (Pending get_set get_set_ne)

/-- a transition of thread `t` touches the local state of thread `t` only -/
theorem StepK.threads {s s' : State} {t : Nat} {l : Local} {pick : Nat} (h : StepK s t l pick s') :
    ∃ l', s'.threads = s.threads.set t l' := by
  cases h with
  | store p g h pred hit hnext hp hpc =>
    refine ⟨{ l with pc := .wUnlock g h (storeAt (tick s) g p pred hit hnext).2 false }, ?_⟩
    show ((storeAt (tick s) g p pred hit hnext).1.threads).set t _ = _
    rw [(storeAt_thn (tick s) g p pred hit hnext).1]
    rfl
  | _ => exact ⟨_, rfl⟩

theorem step_threads {s s' : State} {t : Nat} {inv : Option (Nat × KOp)} {rz : Bool} {pick : Nat}
    (hs : step s t inv rz pick = some s') : ∃ l', s'.threads = s.threads.set t l' := by
  cases hl : s.threads[t]? with
  | none => unfold step stepG at hs; rw [hl] at hs; cases hs
  | some l => exact (step_stepK hl hs).threads

/-- the quiescent form of the lineage theorem (`Props/C01BinN.lean`: `binN_linearizable_quiescent`) -/
theorem binN_linearizable_quiescent_aux {n : Nat} {s : State} (hr : Reachable n s) (hq : quiescent s) (k : Nat) :
    Lin.Linearizable (callsOn s k) none (absOf s k) := by
  obtain ⟨G, A, pt, I, g⟩ := reachable_ginv hr k
  have := g.core.linearizable I.thr
  rw [callsOnExt_quiescent hq] at this
  exact this

end Flurry.Proto.BinN

namespace Flurry.Proto.TableN
open Flurry.Lin Flurry.LinMap
open Flurry.Proto.BinX (get_set get_set_ne)

/-! ## the key translation -/

/-- a key is the key its lineage and its local name stand for -/
theorem globalKey_lineage_local (m k : Nat) : globalKey m (lineageOf m k) (localKey m k) = k :=
  Nat.mod_add_div k m

theorem lineageOf_globalKey {m i : Nat} (hi : i < m) (q : Nat) : lineageOf m (globalKey m i q) = i := by
  unfold lineageOf globalKey
  rw [Nat.add_mul_mod_self_left, Nat.mod_eq_of_lt hi]

theorem localKey_globalKey {m i : Nat} (hi : i < m) (q : Nat) : localKey m (globalKey m i q) = q := by
  unfold localKey globalKey
  rw [Nat.add_mul_div_left _ _ (Nat.lt_of_le_of_lt (Nat.zero_le i) hi), Nat.div_eq_of_lt hi, Nat.zero_add]

/-- **the key translation is injective on a lineage and separates the lineages**: `i + m * q`
determines `i` and `q` when `i < m` -/
theorem globalKey_eq_iff {m i : Nat} (hi : i < m) (q k : Nat) :
    globalKey m i q = k ↔ i = lineageOf m k ∧ q = localKey m k := by
  constructor
  · intro h
    subst h
    exact ⟨(lineageOf_globalKey hi q).symm, (localKey_globalKey hi q).symm⟩
  · rintro ⟨rfl, rfl⟩
    exact globalKey_lineage_local m k

/-- the bin index of the code: when the initial length is a power of two, the bin of key `k` in the
table of generation `g` — cell `(k / m) % 2^g` of lineage `k % m`, i.e. bin `k % m + m * ((k / m) % 2^g)` —
is `k % (m * 2^g)` -/
theorem bin_index_eq_aux {m a : Nat} (hm : m = 2 ^ a) (g k : Nat) :
    k % m + m * ((k / m) % 2 ^ g) = k % 2 ^ (a + g) := by
  subst hm
  rw [Nat.pow_add, Nat.mod_mul]

/-- for any `m`: the bin of key `k` in the table of length `m * 2^g` is `k % (m * 2^g)` -/
theorem binIndex_eq_mod (m g k : Nat) : binIndex m g k = k % (m * 2 ^ g) := by
  unfold binIndex lineageOf localKey
  rw [Nat.mod_mul]

/-- at the resize of generation `g` key `k` stays in bin `b` or moves to bin `b + m * 2^g`, according
to the split bit of its local name -/
theorem binIndex_succ (m g k : Nat) :
    binIndex m (g + 1) k = binIndex m g k + (if BinN.bitAt g (localKey m k) then m * 2 ^ g else 0) := by
  unfold binIndex BinN.bitAt
  rw [Nat.pow_succ, Nat.mod_mul]
  rcases Nat.mod_two_eq_zero_or_one (localKey m k / 2 ^ g) with h | h
  · simp [h]
  · simp [h, Nat.mul_add, Nat.add_assoc]

/-! ## ticks -/

theorem tick_eq (b : BinN.State) : tick b = BinN.tick b := rfl

/-- **a tick is a transition of the lineage**: the step of a thread that is idle there and starts
nothing (no call, no resize) -/
theorem tick_is_step {b : BinN.State} {t : Nat} (h : idleIn b t = true) :
    BinN.step b t none false 0 = some (tick b) := by
  unfold idleIn at h
  split at h
  · rename_i l hl
    obtain ⟨pc, call⟩ := l
    simp only [beq_iff_eq] at h
    subst h
    unfold BinN.step BinN.stepG
    simp only [hl]
    rfl
  · cases h

/-- the invariant of the table -/
structure TblInv (m n : Nat) (S : State) : Prop where
  len : S.bins.length = m
  reach : ∀ (j : Nat) (b : BinN.State), S.bins[j]? = some b → BinN.Reachable n b

theorem init_bin {m n j : Nat} {b : BinN.State} (h : (init m n).bins[j]? = some b) : b = BinN.init n := by
  have hm : b ∈ List.replicate m (BinN.init n) := List.mem_iff_getElem?.mpr ⟨j, h⟩
  exact (List.mem_replicate.1 hm).2

theorem init_tblInv (m n : Nat) : TblInv m n (init m n) := by
  refine ⟨by simp [init], ?_⟩
  intro j b h
  rw [init_bin h]
  exact BinN.Reachable.init

/-- `step`, spelled out -/
theorem step_eq_some {S S' : State} {i t : Nat} {inv : Option (Nat × KOp)} {rz : Bool} {pick : Nat}
    (hs : step S i t inv rz pick = some S') :
    ∃ b b', S.bins[i]? = some b ∧
      ((List.range S.bins.length).all fun j => j == i || idleIn (S.bins.getD j (BinN.init 0)) t) = true ∧
      (∀ k op, inv = some (k, op) → lineageOf S.bins.length k = i) ∧
      BinN.step b t (localInv S.bins.length inv) rz pick = some b' ∧
      S' = { bins := (S.bins.map tick).set i b' } := by
  unfold step at hs
  simp only at hs
  cases hb : S.bins[i]? with
  | none => rw [hb] at hs; cases hs
  | some b =>
    rw [hb] at hs
    simp only at hs
    cases h1 : ((List.range S.bins.length).all fun j => j == i || idleIn (S.bins.getD j (BinN.init 0)) t) with
    | false => rw [h1] at hs; simp at hs
    | true =>
      rw [h1] at hs
      simp only [Bool.not_true, Bool.false_eq_true, if_false] at hs
      cases h2 : inLineage S.bins.length i (inv.map (·.1)) with
      | false => rw [h2] at hs; simp at hs
      | true =>
        rw [h2] at hs
        simp only [Bool.not_true, Bool.false_eq_true, if_false] at hs
        cases h4 : BinN.step b t (localInv S.bins.length inv) rz pick with
        | none => rw [h4] at hs; cases hs
        | some b' =>
          rw [h4] at hs
          simp only [Option.some.injEq] at hs
          refine ⟨b, b', rfl, rfl, ?_, h4, hs.symm⟩
          intro k op hi
          subst hi
          simpa [inLineage] using h2

/-- a call is started in the lineage of its key, under its local name -/
theorem step_call {S S' : State} {i t k : Nat} {op : KOp} {rz : Bool} {pick : Nat}
    (hs : step S i t (some (k, op)) rz pick = some S') :
    lineageOf S.bins.length k = i ∧ ∃ b b', S.bins[i]? = some b ∧
      BinN.step b t (some (localKey S.bins.length k, op)) rz pick = some b' ∧ S'.bins[i]? = some b' := by
  obtain ⟨b, b', hb, -, hkey, hb', rfl⟩ := step_eq_some hs
  refine ⟨hkey k op rfl, b, b', hb, hb', ?_⟩
  show ((S.bins.map tick).set i b')[i]? = some b'
  have hi : i < (S.bins.map tick).length := by
    rw [List.length_map]; exact (List.getElem?_eq_some_iff.1 hb).1
  rw [List.getElem?_set_self hi]

/-- the lineages after a step: lineage `i` made its transition, every other lineage ticked and
thread `t` is idle there -/
theorem step_bins {S : State} {i t : Nat} {b b' : BinN.State} (hb : S.bins[i]? = some b)
    (hidle : ((List.range S.bins.length).all fun j => j == i || idleIn (S.bins.getD j (BinN.init 0)) t) = true) :
    ∀ (j : Nat) (c : BinN.State), ((S.bins.map tick).set i b')[j]? = some c →
      (j = i ∧ c = b') ∨ (j ≠ i ∧ ∃ b0, S.bins[j]? = some b0 ∧ c = tick b0 ∧ idleIn b0 t = true) := by
  intro j c hc
  rcases get_set hc with ⟨rfl, rfl⟩ | ⟨hne, hc⟩
  · exact Or.inl ⟨rfl, rfl⟩
  · rw [List.getElem?_map] at hc
    cases hj : S.bins[j]? with
    | none => rw [hj] at hc; cases hc
    | some b0 =>
      rw [hj] at hc
      simp only [Option.map_some, Option.some.injEq] at hc
      have hjl : j < S.bins.length := (List.getElem?_eq_some_iff.1 hj).1
      have := List.all_eq_true.1 hidle j (List.mem_range.2 hjl)
      have hd : S.bins.getD j (BinN.init 0) = b0 := by
        rw [List.getD_eq_getElem?_getD, hj]; rfl
      rw [hd] at this
      simp only [Bool.or_eq_true, beq_iff_eq] at this
      rcases this with h | h
      · exact absurd h hne
      · exact Or.inr ⟨hne, b0, rfl, hc.symm, h⟩

theorem step_tblInv {m n : Nat} {S S' : State} {i t : Nat} {inv : Option (Nat × KOp)} {rz : Bool} {pick : Nat}
    (I : TblInv m n S) (hs : step S i t inv rz pick = some S') : TblInv m n S' := by
  obtain ⟨b, b', hb, hidle, _, hb', rfl⟩ := step_eq_some hs
  have hget := step_bins hb hidle (b' := b')
  refine ⟨?_, ?_⟩
  · show ((S.bins.map tick).set i b').length = m
    rw [List.length_set, List.length_map]; exact I.len
  · intro j c hc
    rcases hget j c hc with ⟨rfl, rfl⟩ | ⟨_, b0, hj, rfl, hid⟩
    · exact BinN.Reachable.step t _ rz pick (I.reach j b hb) hb'
    · exact BinN.Reachable.step t none false 0 (I.reach j b0 hj) (tick_is_step hid)

theorem reachable_tblInv {m n : Nat} {S : State} (hr : Reachable m n S) : TblInv m n S := by
  induction hr with
  | init => exact init_tblInv m n
  | step i t inv rz pick _ hs ih => exact step_tblInv ih hs

/-! ## a thread is active in at most one lineage -/

/-- of two different lineages, thread `t` is idle in one -/
def OneBin (S : State) : Prop :=
  ∀ (t i j : Nat) (bi bj : BinN.State) (li lj : BinN.Local), i ≠ j → S.bins[i]? = some bi → S.bins[j]? = some bj →
    bi.threads[t]? = some li → bj.threads[t]? = some lj → li.pc = .idle ∨ lj.pc = .idle

theorem idleIn_pc {b : BinN.State} {t : Nat} {l : BinN.Local} (h : idleIn b t = true) (hl : b.threads[t]? = some l) :
    l.pc = .idle := by
  unfold idleIn at h
  rw [hl] at h
  simpa using h

theorem init_oneBin (m n : Nat) : OneBin (init m n) := by
  intro t i j bi bj li lj _ hi _ hli _
  have hbi : bi = BinN.init n := init_bin hi
  subst hbi
  rw [BinN.init_thread hli]
  exact Or.inl rfl

theorem step_oneBin {S S' : State} {i t : Nat} {inv : Option (Nat × KOp)} {rz : Bool} {pick : Nat}
    (O : OneBin S) (hs : step S i t inv rz pick = some S') : OneBin S' := by
  obtain ⟨b, b', hb, hidle, _, hb', rfl⟩ := step_eq_some hs
  have hget := step_bins hb hidle (b' := b')
  obtain ⟨l', hthr⟩ := BinN.step_threads hb'
  -- the acting lineage against a ticked lineage
  have key : ∀ (t1 j : Nat) (b0 : BinN.State) (l1 l2 : BinN.Local), j ≠ i → S.bins[j]? = some b0 →
      idleIn b0 t = true → b'.threads[t1]? = some l1 → b0.threads[t1]? = some l2 → l1.pc = .idle ∨ l2.pc = .idle := by
    intro t1 j b0 l1 l2 hne hj hid h1 h2
    by_cases ht : t1 = t
    · subst ht
      exact Or.inr (idleIn_pc hid h2)
    · rw [hthr, get_set_ne ht] at h1
      exact O t1 i j b b0 l1 l2 (fun e => hne e.symm) hb hj h1 h2
  intro t1 j1 j2 c1 c2 l1 l2 hne h1 h2 hl1 hl2
  rcases hget j1 c1 h1 with ⟨rfl, rfl⟩ | ⟨hn1, a1, ha1, rfl, hid1⟩ <;>
    rcases hget j2 c2 h2 with ⟨rfl, rfl⟩ | ⟨hn2, a2, ha2, rfl, hid2⟩
  · exact absurd rfl hne
  · exact key t1 j2 a2 l1 l2 hn2 ha2 hid2 hl1 hl2
  · exact (key t1 j1 a1 l2 l1 hn1 ha1 hid1 hl2 hl1).symm
  · exact O t1 j1 j2 a1 a2 l1 l2 hne ha1 ha2 hl1 hl2

theorem reachable_oneBin {m n : Nat} {S : State} (hr : Reachable m n S) : OneBin S := by
  induction hr with
  | init => exact init_oneBin m n
  | step i t inv rz pick _ hs ih => exact step_oneBin ih hs

/-! ## the history of the map, key by key -/

/-- the projection of the calls of lineage `i` on key `k`, before any arithmetic -/
theorem proj_binCalls (m i : Nat) (b : BinN.State) (k : Nat) :
    proj (binCalls m i b) k = ((b.hist.filter (fun e => globalKey m i e.1 == k)).reverse.map (·.2)) := by
  unfold proj binCalls
  rw [List.filter_map, List.map_map, List.filter_reverse]
  rfl

/-- … for the lineage of `k` it is the history of the local key `k / m` -/
theorem proj_binCalls_own {m : Nat} (hm : 0 < m) (b : BinN.State) (k : Nat) :
    proj (binCalls m (lineageOf m k) b) k = BinN.callsOn b (localKey m k) := by
  rw [proj_binCalls]
  unfold BinN.callsOn
  congr 2
  apply List.filter_congr
  intro e _
  have hi : lineageOf m k < m := Nat.mod_lt _ hm
  rw [Bool.eq_iff_iff]
  simp only [beq_iff_eq]
  rw [globalKey_eq_iff hi e.1 k]
  exact ⟨fun h => h.2, fun h => ⟨rfl, h⟩⟩

/-- … for every other lineage it is empty -/
theorem proj_binCalls_other {m i : Nat} (hi : i < m) (b : BinN.State) {k : Nat} (hne : i ≠ lineageOf m k) :
    proj (binCalls m i b) k = [] := by
  rw [proj_binCalls]
  have : b.hist.filter (fun e => globalKey m i e.1 == k) = [] := by
    rw [List.filter_eq_nil_iff]
    intro e _ he
    exact hne ((globalKey_eq_iff hi e.1 k).1 (by simpa using he)).1
  rw [this]
  rfl

theorem proj_flatten (L : List MHistory) (k : Nat) : proj L.flatten k = (L.map (proj · k)).flatten := by
  unfold proj
  rw [List.filter_flatten, List.map_flatten, List.map_map]
  rfl

/-- a list of lists all of which but the `i`-th are empty -/
theorem flatten_single {α β : Type} (f : α → List β) : ∀ (L : List α) (i : Nat) (a : α), L[i]? = some a →
    (∀ (j : Nat) (c : α), L[j]? = some c → j ≠ i → f c = []) → (L.map f).flatten = f a
  | [], i, a, h, _ => by simp at h
  | x :: L, 0, a, h, hz => by
    simp only [List.getElem?_cons_zero, Option.some.injEq] at h
    subst h
    have : (L.map f).flatten = [] := by
      rw [List.flatten_eq_nil_iff]
      intro l hl
      obtain ⟨c, hc, rfl⟩ := List.mem_map.1 hl
      obtain ⟨j, hj⟩ := List.mem_iff_getElem?.1 hc
      exact hz (j + 1) c (by simpa using hj) (by omega)
    rw [List.map_cons, List.flatten_cons, this, List.append_nil]
  | x :: L, i + 1, a, h, hz => by
    have hx : f x = [] := hz 0 x (by simp) (by omega)
    rw [List.map_cons, List.flatten_cons, hx, List.nil_append]
    refine flatten_single f L i a (by simpa using h) ?_
    intro j c hj hne
    exact hz (j + 1) c (by simpa using hj) (by omega)

/-- the projection of the map history on key `k` is the history of local key `k / m` in lineage `k % m` -/
theorem proj_mhist {m n : Nat} (hm : 0 < m) {S : State} (I : TblInv m n S) {k : Nat} {b : BinN.State}
    (hb : S.bins[lineageOf m k]? = some b) : proj (mhist S) k = BinN.callsOn b (localKey m k) := by
  have hlt : lineageOf m k < m := Nat.mod_lt _ hm
  have hd : S.bins.getD (lineageOf m k) (BinN.init 0) = b := by
    rw [List.getD_eq_getElem?_getD, hb]; rfl
  unfold mhist
  rw [proj_flatten, List.map_map, I.len]
  rw [flatten_single ((fun x => proj x k) ∘ fun i => binCalls m i (S.bins.getD i (BinN.init 0)))
    (List.range m) (lineageOf m k) (lineageOf m k) (by rw [List.getElem?_range hlt])]
  · show proj (binCalls m (lineageOf m k) (S.bins.getD (lineageOf m k) (BinN.init 0))) k = _
    rw [hd]
    exact proj_binCalls_own hm b k
  · intro j c hj hne
    have hjm : j < m := by
      have := (List.getElem?_eq_some_iff.1 hj).1
      simpa using this
    rw [List.getElem?_range hjm] at hj
    cases hj
    exact proj_binCalls_other hjm _ hne

theorem bin_of_key {m n : Nat} (hm : 0 < m) {S : State} (I : TblInv m n S) (k : Nat) :
    ∃ b, S.bins[lineageOf m k]? = some b ∧ S.bins.getD (lineageOf S.bins.length k) (BinN.init 0) = b := by
  have hlt : lineageOf m k < S.bins.length := by rw [I.len]; exact Nat.mod_lt _ hm
  refine ⟨S.bins[lineageOf m k], List.getElem?_eq_getElem hlt, ?_⟩
  rw [I.len, List.getD_eq_getElem?_getD, List.getElem?_eq_getElem hlt]
  rfl

theorem tableN_key_linearizable_aux {m n : Nat} (hm : 0 < m) {S : State} (hr : Reachable m n S)
    (hq : quiescent S) (k : Nat) : Linearizable (proj (mhist S) k) none (absMap S k) := by
  have I := reachable_tblInv hr
  obtain ⟨b, hb, hd⟩ := bin_of_key hm I k
  rw [proj_mhist hm I hb]
  unfold absMap
  rw [hd, I.len]
  exact BinN.binN_linearizable_quiescent_aux (I.reach _ b hb) (hq b (List.mem_of_getElem? hb)) (localKey m k)

/-- every call of the map history is a call of some lineage `i < m`, under the translated key -/
theorem mem_mhist {S : State} {c : MCall} (hc : c ∈ mhist S) :
    ∃ i b q, S.bins[i]? = some b ∧ (q, c.call) ∈ b.hist ∧ c.key = globalKey S.bins.length i q := by
  unfold mhist at hc
  rw [List.mem_flatten] at hc
  obtain ⟨l, hl, hcl⟩ := hc
  obtain ⟨i, hi, rfl⟩ := List.mem_map.1 hl
  have hilt : i < S.bins.length := List.mem_range.1 hi
  unfold binCalls at hcl
  obtain ⟨e, he, rfl⟩ := List.mem_map.1 hcl
  rw [List.mem_reverse] at he
  refine ⟨i, S.bins[i], e.1, List.getElem?_eq_getElem hilt, ?_, rfl⟩
  rw [List.getD_eq_getElem?_getD, List.getElem?_eq_getElem hilt] at he
  exact he

/-- every call of the map history on key `k` is recorded in lineage `k % m`, under the local name `k / m` -/
theorem mhist_own_lineage {m n : Nat} {S : State} (I : TblInv m n S) {c : MCall} (hc : c ∈ mhist S) :
    ∃ b, S.bins[lineageOf m c.key]? = some b ∧ (localKey m c.key, c.call) ∈ b.hist := by
  obtain ⟨i, b, q, hb, hmem, hk⟩ := mem_mhist hc
  rw [I.len] at hk
  have hi : i < m := I.len ▸ (List.getElem?_eq_some_iff.1 hb).1
  rw [hk, lineageOf_globalKey hi, localKey_globalKey hi]
  exact ⟨b, hb, hmem⟩

/-- every call recorded in lineage `i` under the local name `q` is in the map history under the key
`i + m * q`, which is a key of lineage `i` with local name `q` -/
theorem mem_mhist_of_hist {m n : Nat} {S : State} (I : TblInv m n S) {i : Nat} {b : BinN.State} {q : Nat} {c : Call}
    (hb : S.bins[i]? = some b) (h : (q, c) ∈ b.hist) :
    (⟨globalKey m i q, c⟩ : MCall) ∈ mhist S ∧ lineageOf m (globalKey m i q) = i ∧ localKey m (globalKey m i q) = q := by
  have hi := (List.getElem?_eq_some_iff.1 hb).1
  have him : i < m := I.len ▸ hi
  refine ⟨?_, lineageOf_globalKey him q, localKey_globalKey him q⟩
  unfold mhist
  rw [List.mem_flatten, I.len]
  refine ⟨binCalls m i (S.bins.getD i (BinN.init 0)), List.mem_map.2 ⟨i, List.mem_range.2 him, rfl⟩, ?_⟩
  have hd : S.bins.getD i (BinN.init 0) = b := by rw [List.getD_eq_getElem?_getD, hb]; rfl
  rw [hd]
  unfold binCalls
  exact List.mem_map.2 ⟨(q, c), List.mem_reverse.2 h, rfl⟩

/-- a thread that is resizing a lineage is idle in every other lineage -/
theorem resizer_idle_elsewhere {S : State} (O : OneBin S) {t i j : Nat} {bi bj : BinN.State} {li lj : BinN.Local}
    (hne : i ≠ j) (hi : S.bins[i]? = some bi) (hj : S.bins[j]? = some bj)
    (hli : bi.threads[t]? = some li) (hlj : bj.threads[t]? = some lj) (hT : BinN.isT li.pc) : lj.pc = .idle := by
  rcases O t i j bi bj li lj hne hi hj hli hlj with h | h
  · rw [h] at hT; exact absurd hT id
  · exact h

/-- no call of the map history responds before it is invoked -/
theorem mhist_wf {m n : Nat} {S : State} (hr : Reachable m n S) : ∀ c ∈ mhist S, c.call.inv ≤ c.call.resp := by
  have I := reachable_tblInv hr
  intro c hc
  obtain ⟨i, b, q, hb, hmem, -⟩ := mem_mhist hc
  exact ((BinN.reachable_tinv (I.reach i b hb)).histTime (q, c.call) hmem).1

theorem tableN_map_linearizable_aux {m n : Nat} (hm : 0 < m) {S : State} (hr : Reachable m n S)
    (hq : quiescent S) : MapLinearizable (mhist S) (fun _ => none) (absMap S) :=
  Flurry.LinMap.map_linearizable_of_proj (mhist_wf hr) (fun k => tableN_key_linearizable_aux hm hr hq k)

end Flurry.Proto.TableN
