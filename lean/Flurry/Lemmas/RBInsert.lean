import Flurry.RBInv
set_option linter.unusedSimpArgs false
/-! # Insertion into tree bins preserves the red-black invariant

Proofs about `balIns` / `insertNew` / `ofList` / `findNode` / `setVal` of `Flurry/RB.lean`
with respect to the invariants of `Flurry/RBInv.lean`. Core Lean only.

Auxiliary notions (zipper listings `ctxL`/`ctxR`, the context invariant `CtxInv`, ...) live in the
namespace `Flurry.RB.Ins` so that they cannot clash with the helpers of other lemma files; the
theorems about the functions of `RB.lean` are in `Flurry.RB`. -/
namespace Flurry.RB.Ins
open T Ctx

/-! ## basic facts -/

theorem lt_trans' {a b c : Node} (h1 : lt a b) (h2 : lt b c) : lt a c := by
  unfold lt at *; omega

theorem lt_irrefl' (a : Node) : ¬ lt a a := by unfold lt; omega

theorem lt_asymm' {a b : Node} (h1 : lt a b) : ¬ lt b a := by unfold lt at *; omega

@[simp] theorem isRed_node (c : Bool) (l : T) (e : Node) (r : T) : isRed (node c l e r) = c := by
  cases c <;> rfl

@[simp] theorem isRed_nil : isRed nil = false := rfl

@[simp] theorem isRed_blacken (t : T) : isRed (blacken t) = false := by
  cases t <;> simp [blacken]

@[simp] theorem toList_blacken (t : T) : toList (blacken t) = toList t := by
  cases t <;> simp [blacken, toList]

theorem all_iff (p : Node → Prop) (t : T) : All p t ↔ ∀ x ∈ toList t, p x := by
  induction t with
  | nil => simp [All, toList]
  | node c l e r ihl ihr =>
    simp only [All, toList, ihl, ihr, List.mem_append, List.mem_cons]
    constructor
    · rintro ⟨h1, h2, h3⟩ x (hx | rfl | hx)
      · exact h2 x hx
      · exact h1
      · exact h3 x hx
    · intro h
      exact ⟨h _ (Or.inr (Or.inl rfl)), fun x hx => h x (Or.inl hx), fun x hx => h x (Or.inr (Or.inr hx))⟩

/-- `BST` = the in-order listing is strictly sorted -/
theorem bst_iff_pairwise (t : T) : BST t ↔ (toList t).Pairwise lt := by
  induction t with
  | nil => simp [BST, toList]
  | node c l e r ihl ihr =>
    simp only [BST, toList, all_iff, ihl, ihr, List.pairwise_append, List.pairwise_cons,
      List.mem_cons]
    constructor
    · rintro ⟨h1, h2, h3, h4⟩
      refine ⟨h3, ⟨h2, h4⟩, ?_⟩
      rintro a ha b (rfl | hb)
      · exact h1 a ha
      · exact lt_trans' (h1 a ha) (h2 b hb)
    · rintro ⟨h1, ⟨h2, h3⟩, h4⟩
      exact ⟨fun x hx => h4 x hx e (Or.inl rfl), h2, h1, h3⟩

/-! ## zippers and lists -/

/-- entries to the left of the hole, in order -/
def ctxL : Ctx → List Node
  | top => []
  | left _ _ _ up => ctxL up
  | right _ l e up => ctxL up ++ toList l ++ [e]

/-- entries to the right of the hole, in order -/
def ctxR : Ctx → List Node
  | top => []
  | left _ e r up => e :: toList r ++ ctxR up
  | right _ _ _ up => ctxR up

theorem toList_zip (t : T) (c : Ctx) : toList (zip t c) = ctxL c ++ toList t ++ ctxR c := by
  induction c generalizing t with
  | top => simp [zip, ctxL, ctxR]
  | left c e r up ih => simp [zip, ctxL, ctxR, ih, toList]
  | right c l e up ih => simp [zip, ctxL, ctxR, ih, toList]

/-- `balance_insertion` does not change the in-order listing -/
theorem toList_balIns (x : T) (c : Ctx) : toList (balIns x c) = toList (zip x c) := by
  fun_induction balIns x c <;> simp_all [toList_zip, ctxL, ctxR, toList]

/-! ## colour of the root through a zipper -/

/-- colour of the root of `zip t c` when `isRed t = b` -/
def rootRed : Ctx → Bool → Bool
  | top, b => b
  | left c _ _ up, _ => rootRed up c
  | right c _ _ up, _ => rootRed up c

theorem isRed_zip (t : T) (c : Ctx) : isRed (zip t c) = rootRed c (isRed t) := by
  induction c generalizing t with
  | top => simp [zip, rootRed]
  | left c e r up ih => simp [zip, rootRed, ih]
  | right c l e up ih => simp [zip, rootRed, ih]

theorem rootRed_false_of (c : Ctx) (b : Bool) (h : rootRed c b = false) : rootRed c false = false := by
  cases c <;> simp_all [rootRed]

theorem isRed_balIns (x : T) (c : Ctx) (h : rootRed c false = false) : isRed (balIns x c) = false := by
  fun_induction balIns x c <;> simp_all [isRed_zip, rootRed]
  all_goals first | exact rootRed_false_of _ _ h | (rename_i ih; exact ih (rootRed_false_of _ _ h))

/-! ## the red-black part of the context invariant -/

/-- the parent of the hole exists and is black -/
def parentBlack : Ctx → Prop
  | left c _ _ _ => c = false
  | right c _ _ _ => c = false
  | top => False

/-- `CtxInv c n`: plugging a subtree of black height `n` without red-red violations, whose root is
black if the parent of the hole is red, gives a tree without red-red violations and with a black
height. Every red node on the path has a black parent. -/
def CtxInv : Ctx → Nat → Prop
  | top, _ => True
  | left c _ r up, n => BH r n ∧ NoRedRed r ∧ CtxInv up (if c then n else n + 1) ∧
      (c = true → isRed r = false ∧ parentBlack up)
  | right c l _ up, n => BH l n ∧ NoRedRed l ∧ CtxInv up (if c then n else n + 1) ∧
      (c = true → isRed l = false ∧ parentBlack up)

/-- no red-red violation and some black height -/
def RBok (t : T) : Prop := NoRedRed t ∧ ∃ n, BH t n

theorem zip_ok (t : T) (c : Ctx) (n : Nat) (hc : CtxInv c n) (hb : BH t n) (hr : NoRedRed t)
    (hcol : isRed t = true → parentBlack c ∨ c = top) : RBok (zip t c) := by
  induction c generalizing t n with
  | top => exact ⟨hr, n, hb⟩
  | left pc e r up ih =>
    obtain ⟨h1, h2, h3, h4⟩ := hc
    cases pc with
    | false => exact ih _ (n + 1) h3 (BH.black hb h1) (by simp [NoRedRed, hr, h2]) (by simp)
    | true =>
      have : isRed t = false := by
        cases h : isRed t with
        | false => rfl
        | true => simp [parentBlack, h] at hcol
      exact ih _ n h3 (BH.red hb h1) (by simp_all [NoRedRed]) (fun _ => Or.inl (h4 rfl).2)
  | right pc l e up ih =>
    obtain ⟨h1, h2, h3, h4⟩ := hc
    cases pc with
    | false => exact ih _ (n + 1) h3 (BH.black h1 hb) (by simp [NoRedRed, hr, h2]) (by simp)
    | true =>
      have : isRed t = false := by
        cases h : isRed t with
        | false => rfl
        | true => simp [parentBlack, h] at hcol
      exact ih _ n h3 (BH.red h1 hb) (by simp_all [NoRedRed]) (fun _ => Or.inl (h4 rfl).2)

theorem bh_blacken_of_red {t : T} {n : Nat} (h : BH t n) (hr : isRed t = true) :
    BH (blacken t) (n + 1) := by
  cases h with
  | nil => simp at hr
  | red h1 h2 => exact BH.black h1 h2
  | black h1 h2 => simp at hr

theorem noRedRed_blacken {t : T} (h : NoRedRed t) : NoRedRed (blacken t) := by
  cases t <;> simp_all [blacken, NoRedRed]

@[simp] theorem bh_red_iff {l r : T} {e : Node} {n : Nat} :
    BH (node true l e r) n ↔ BH l n ∧ BH r n :=
  ⟨fun h => by cases h; exact ⟨‹_›, ‹_›⟩, fun h => BH.red h.1 h.2⟩

@[simp] theorem bh_black_succ_iff {l r : T} {e : Node} {n : Nat} :
    BH (node false l e r) (n + 1) ↔ BH l n ∧ BH r n :=
  ⟨fun h => by cases h; exact ⟨‹_›, ‹_›⟩, fun h => BH.black h.1 h.2⟩

theorem balIns_ok (x : T) (c : Ctx) (n : Nat) (hx : isRed x = true) (hb : BH x n)
    (hr : NoRedRed x) (hc : CtxInv c n) : RBok (balIns x c) := by
  fun_induction balIns x c generalizing n
  all_goals simp_all [CtxInv, parentBlack]
  case case1 => exact ⟨noRedRed_blacken hr, _, bh_blacken_of_red hb hx⟩
  case case2 => exact zip_ok _ _ n (by simp [CtxInv, *]) hb hr (by simp [parentBlack])
  case case9 => exact zip_ok _ _ n (by simp [CtxInv, *]) hb hr (by simp [parentBlack])
  all_goals obtain ⟨h1, h2, ⟨h3, h4, h5, h6⟩, h7, rfl⟩ := hc
  all_goals simp at h5
  case case4 =>
    have ih := ‹∀ n : Nat, _›
    exact ih (n + 1) (by simp [*, bh_blacken_of_red]) (by simp [*, bh_blacken_of_red])
      (by simp [NoRedRed, noRedRed_blacken, *]) h5
  case case6 =>
    have ih := ‹∀ n : Nat, _›
    exact ih (n + 1) (by simp [*, bh_blacken_of_red]) (by simp [*, bh_blacken_of_red])
      (by simp [NoRedRed, noRedRed_blacken, *]) h5
  case case11 =>
    have ih := ‹∀ n : Nat, _›
    exact ih (n + 1) (by simp [*, bh_blacken_of_red]) (by simp [*, bh_blacken_of_red])
      (by simp [NoRedRed, noRedRed_blacken, *]) h5
  case case14 =>
    have ih := ‹∀ n : Nat, _›
    exact ih (n + 1) (by simp [*, bh_blacken_of_red]) (by simp [*, bh_blacken_of_red])
      (by simp [NoRedRed, noRedRed_blacken, *]) h5
  all_goals
    exact zip_ok _ _ (n + 1) h5 (by simp_all) (by simp_all [NoRedRed]) (by simp)

/-! ## the descent -/

theorem descend_isSome (e : Node) (t : T) (c : Ctx)
    (h : ∀ x ∈ toList t, ¬(x.hash = e.hash ∧ x.key = e.key)) : ∃ c', descend e t c = some c' := by
  induction t generalizing c with
  | nil => exact ⟨c, rfl⟩
  | node red l x r ihl ihr =>
    simp only [toList, List.mem_append, List.mem_cons] at h
    unfold descend
    split
    · exact ihl _ (fun y hy => h y (Or.inl hy))
    · split
      · exact ihr _ (fun y hy => h y (Or.inr (Or.inr hy)))
      · rename_i h1 h2
        have hx := h x (Or.inr (Or.inl rfl))
        simp [ltHK, gtHK] at h1 h2
        omega

/-- the entries around the hole found by `descend` are those of the tree, in order -/
theorem descend_lists (e : Node) (t : T) (c c' : Ctx) (h : descend e t c = some c') :
    ctxL c' ++ ctxR c' = ctxL c ++ toList t ++ ctxR c := by
  induction t generalizing c with
  | nil => simp_all [descend, toList]
  | node red l x r ihl ihr =>
    unfold descend at h
    split at h
    · rw [ihl _ h]; simp [ctxL, ctxR, toList]
    · split at h
      · rw [ihr _ h]; simp [ctxL, ctxR, toList]
      · simp at h

/-- everything left of the hole is smaller than `e`, everything right of it is larger -/
theorem descend_sorted (e : Node) (t : T) (c c' : Ctx) (h : descend e t c = some c')
    (hb : BST t) (hl : ∀ x ∈ ctxL c, lt x e) (hr : ∀ x ∈ ctxR c, lt e x) :
    (∀ x ∈ ctxL c', lt x e) ∧ (∀ x ∈ ctxR c', lt e x) := by
  induction t generalizing c with
  | nil => simp_all [descend]
  | node red l x r ihl ihr =>
    unfold descend at h
    obtain ⟨b1, b2, b3, b4⟩ := hb
    rw [all_iff] at b1 b2
    split at h
    next hlt =>
      have hex : lt e x := by simp [ltHK] at hlt; unfold lt; omega
      refine ihl _ h b3 (by simpa [ctxL] using hl) ?_
      intro y hy
      simp only [ctxR, List.cons_append, List.mem_cons, List.mem_append] at hy
      rcases hy with rfl | hy | hy
      · exact hex
      · exact lt_trans' hex (b2 y hy)
      · exact hr y hy
    · split at h
      next hgt =>
        have hxe : lt x e := by simp [gtHK] at hgt; unfold lt; omega
        refine ihr _ h b4 ?_ (by simpa [ctxR] using hr)
        intro y hy
        simp only [ctxL, List.mem_append, List.mem_singleton] at hy
        rcases hy with (hy | hy) | rfl
        · exact hl y hy
        · exact lt_trans' (b1 y hy) hxe
        · exact hxe
      · simp at h

theorem descend_ctxInv (e : Node) (t : T) (c c' : Ctx) (n : Nat) (h : descend e t c = some c')
    (hb : BH t n) (hr : NoRedRed t) (hc : CtxInv c n) (hcol : isRed t = true → parentBlack c) :
    CtxInv c' 0 := by
  induction t generalizing c n with
  | nil => cases hb; simp [descend] at h; subst h; exact hc
  | node red l x r ihl ihr =>
    unfold descend at h
    obtain ⟨r1, r2, r3⟩ := hr
    cases red with
    | true =>
      simp at hb hcol r1
      split at h
      · exact ihl _ n h hb.1 r2 (by simp [CtxInv, *]) (by simp [*])
      · split at h
        · exact ihr _ n h hb.2 r3 (by simp [CtxInv, *]) (by simp [*])
        · simp at h
    | false =>
      cases hb with
      | black hb1 hb2 =>
      split at h
      · exact ihl _ _ h hb1 r2 (by simp [CtxInv, *]) (by simp [parentBlack])
      · split at h
        · exact ihr _ _ h hb2 r3 (by simp [CtxInv, *]) (by simp [parentBlack])
        · simp at h

theorem descend_rootRed (e : Node) (t : T) (c c' : Ctx) (h : descend e t c = some c')
    (hc : rootRed c (isRed t) = false) : rootRed c' false = false := by
  induction t generalizing c with
  | nil => simp_all [descend]
  | node red l x r ihl ihr =>
    unfold descend at h
    split at h
    · exact ihl _ h (by simpa [rootRed] using hc)
    · split at h
      · exact ihr _ h (by simpa [rootRed] using hc)
      · simp at h

end Flurry.RB.Ins

namespace Flurry.RB
open T Ctx Ins

/-! ## `insertNew` -/

/-- `insertNew` puts `e` at its sorted position of the in-order listing -/
theorem insertNew_toList (t : T) (e : Node)
    (h : ∀ x ∈ toList t, ¬(x.hash = e.hash ∧ x.key = e.key)) :
    ∃ L R, toList t = L ++ R ∧ toList (insertNew t e) = L ++ e :: R ∧
      (BST t → (∀ x ∈ L, lt x e) ∧ (∀ x ∈ R, lt e x)) := by
  cases t with
  | nil => exact ⟨[], [], by simp [toList, insertNew]⟩
  | node red l x r =>
    obtain ⟨c, hc⟩ := descend_isSome e (node red l x r) top h
    have hl := descend_lists _ _ _ _ hc
    simp only [ctxL, ctxR, List.nil_append, List.append_nil] at hl
    refine ⟨ctxL c, ctxR c, hl.symm, ?_, ?_⟩
    · simp [insertNew, hc, toList_balIns, toList_zip, toList]
    · intro hb
      exact descend_sorted _ _ _ _ hc hb (by simp [ctxL]) (by simp [ctxR])

theorem insertNew_toList_perm (t : T) (e : Node)
    (h : ∀ x ∈ toList t, ¬(x.hash = e.hash ∧ x.key = e.key)) :
    (toList (insertNew t e)).Perm (e :: toList t) := by
  obtain ⟨L, R, h1, h2, -⟩ := insertNew_toList t e h
  rw [h1, h2]
  exact List.perm_middle

theorem insertNew_bst (t : T) (e : Node) (hb : BST t)
    (h : ∀ x ∈ toList t, ¬(x.hash = e.hash ∧ x.key = e.key)) : BST (insertNew t e) := by
  obtain ⟨L, R, h1, h2, h3⟩ := insertNew_toList t e h
  obtain ⟨h4, h5⟩ := h3 hb
  rw [bst_iff_pairwise] at hb ⊢
  rw [h1, List.pairwise_append] at hb
  rw [h2, List.pairwise_append, List.pairwise_cons]
  refine ⟨hb.1, ⟨h5, hb.2.1⟩, ?_⟩
  intro a ha b hb'
  rcases List.mem_cons.1 hb' with rfl | hb'
  · exact h4 a ha
  · exact hb.2.2 a ha b hb'

theorem insertNew_inv (t : T) (e : Node) (hi : TreeInv t)
    (h : ∀ x ∈ toList t, ¬(x.hash = e.hash ∧ x.key = e.key)) : TreeInv (insertNew t e) := by
  obtain ⟨hb, hred, hnr, n, hbh⟩ := hi
  refine ⟨insertNew_bst t e hb h, ?_⟩
  cases t with
  | nil => exact ⟨rfl, by simp [insertNew, NoRedRed], 1, BH.black BH.nil BH.nil⟩
  | node red l x r =>
    obtain ⟨c, hc⟩ := descend_isSome e (node red l x r) top h
    have h1 := descend_ctxInv _ _ _ _ n hc hbh hnr (by simp [CtxInv]) (by simp [hred])
    have h2 := descend_rootRed _ _ _ _ hc (by simpa [rootRed] using hred)
    have h3 := balIns_ok (node true nil e nil) c 0 (by simp) (by simp [BH.nil])
      (by simp [NoRedRed]) h1
    simp only [insertNew, hc]
    exact ⟨isRed_balIns _ _ h2, h3.1, h3.2⟩

/-- `find_or_put_tree_val` for an absent key -/
theorem putNew_inv (t : T) (e : Node) (hi : TreeInv t)
    (h : ∀ x ∈ toList t, ¬(x.hash = e.hash ∧ x.key = e.key)) : TreeInv (putNew t e) :=
  insertNew_inv t e hi h

/-! ## `ofList` (`TreeBin::new`) -/

theorem Ins.treeInv_nil : TreeInv nil := ⟨trivial, rfl, trivial, 0, BH.nil⟩

theorem Ins.foldl_insertNew (ns : List Node) (t : T) (hi : TreeInv t)
    (hd : ns.Pairwise (fun a b => ¬(a.hash = b.hash ∧ a.key = b.key)))
    (ht : ∀ x ∈ toList t, ∀ y ∈ ns, ¬(x.hash = y.hash ∧ x.key = y.key)) :
    TreeInv (ns.foldl insertNew t) ∧ (toList (ns.foldl insertNew t)).Perm (toList t ++ ns) := by
  induction ns generalizing t with
  | nil => simpa using hi
  | cons e ns ih =>
    rw [List.pairwise_cons] at hd
    have hne : ∀ x ∈ toList t, ¬(x.hash = e.hash ∧ x.key = e.key) :=
      fun x hx => ht x hx e (List.mem_cons_self)
    have hp := insertNew_toList_perm t e hne
    have := ih (insertNew t e) (insertNew_inv t e hi hne) hd.2 (by
      intro x hx y hy
      rcases List.mem_cons.1 (hp.subset hx) with rfl | hx
      · exact hd.1 y hy
      · exact ht x hx y (List.mem_cons_of_mem _ hy))
    refine ⟨this.1, this.2.trans ?_⟩
    exact (hp.append_right ns).trans (by simpa using List.perm_middle.symm)

theorem ofList_inv (ns : List Node)
    (hd : ns.Pairwise (fun a b => ¬(a.hash = b.hash ∧ a.key = b.key))) : TreeInv (ofList ns) :=
  (foldl_insertNew ns nil treeInv_nil hd (by simp [toList])).1

theorem ofList_perm (ns : List Node)
    (hd : ns.Pairwise (fun a b => ¬(a.hash = b.hash ∧ a.key = b.key))) :
    (toList (ofList ns)).Perm ns := by
  simpa [toList, ofList] using (foldl_insertNew ns nil treeInv_nil hd (by simp [toList])).2

theorem Ins.size_eq_length (t : T) : size t = (toList t).length := by
  induction t <;> simp_all [size, toList]; omega

theorem ofList_size (ns : List Node)
    (hd : ns.Pairwise (fun a b => ¬(a.hash = b.hash ∧ a.key = b.key))) :
    size (ofList ns) = ns.length := by
  rw [size_eq_length]; exact (ofList_perm ns hd).length_eq

end Flurry.RB
