import Flurry.Lemmas.BinNLive
/-! # Proto/BinN: the order of the nodes when copies of SEVERAL generations exist (definitions)

`Proto/BinX` orders the nodes by `ord cr`, `cr` the index range of the copies of its one transfer. Here
every generation makes copies, so `cr : Nat → Bool` is the (ghost) SET of all copies made so far: a copy
`i` gets the negative rank `-i-1`, every other node its index. Every chain is then
`[copies, by decreasing index] ++ [other nodes, by increasing index]` and `next` pointers go strictly
upwards in `ord`: a copy points to an older copy or to a re-used node (smaller index, hence larger rank),
an appended node has a larger index than everything.

`SideOK` / `Split`: what the split of the chain `O` guarantees about the two new lists, stated with the
chain order `ord cr` (in `Proto/BinX` the old chain contains no copies and is sorted by index; here it may
contain copies of earlier generations). `fr` = the index range of the FRESH copies of this split. -/
namespace Flurry.Proto.BinN
open Flurry.Lin
open Flurry.Proto.BinX (NodeS Cell Pending dflt chainFrom cellHead cellOfHead nodeAt IsSeg IsChain chainH absIn KeysDistinct)

/-- the set of all copies made by the transfers so far -/
abbrev CR := Nat → Bool

def isCopy (cr : CR) (i : Nat) : Prop := cr i = true

instance (cr : CR) (i : Nat) : Decidable (isCopy cr i) := by unfold isCopy; exact inferInstance

/-- the rank of a node: copies come first (the later the earlier), then the others by index -/
def ord (cr : CR) (i : Nat) : Int := if isCopy cr i then -(i : Int) - 1 else (i : Int)

/-- `next` pointers go strictly upwards in `ord` and stay inside the heap -/
def NextOK (cr : CR) (heap : List NodeS) : Prop :=
  ∀ i n j, heap[i]? = some n → n.next = some j → ord cr i < ord cr j ∧ j < heap.length

/-- the copy set extended by the index range `[a, b)` -/
def addRange (cr : CR) (a b : Nat) : CR := fun i => cr i || (decide (a ≤ i) && decide (i < b))

/-- a fresh copy of the transfer that is under way -/
def isFresh (fr : Nat × Nat) (i : Nat) : Prop := fr.1 ≤ i ∧ i < fr.2

/-- what the split guarantees about the new list `X` of side `b`, relative to the old chain `O` -/
structure SideOK (bit : Nat → Bool) (heap : List NodeS) (cr : CR) (fr : Nat × Nat) (O : List Nat) (b : Bool)
    (X : List Nat) : Prop where
  side : ∀ j ∈ X, bit (nodeAt heap j).key = b
  keys : KeysDistinct heap X
  mem : ∀ j ∈ X, j ∈ O ∨ isFresh fr j
  /-- a fresh copy has the key and value of an old node that lies before every re-used node of `X` -/
  src : ∀ j ∈ X, isFresh fr j → ∃ i ∈ O, (nodeAt heap i).key = (nodeAt heap j).key ∧
    (nodeAt heap i).val = (nodeAt heap j).val ∧ ∀ r ∈ O, r ∈ X → ord cr i < ord cr r
  /-- every old node of side `b` is re-used or has a fresh copy in `X` -/
  cover : ∀ i ∈ O, bit (nodeAt heap i).key = b → ∃ j ∈ X, (nodeAt heap j).key = (nodeAt heap i).key ∧
    (nodeAt heap j).val = (nodeAt heap i).val ∧ (j = i ∨ isFresh fr j)
  /-- the re-used nodes are a suffix of the old chain -/
  suffix : ∀ r ∈ O, r ∈ X → ∀ i ∈ O, ord cr r < ord cr i → i ∈ X

/-- the state of the split: `lo` / `hg` are the heads of well-formed new lists -/
def Split (bit : Nat → Bool) (heap : List NodeS) (cr : CR) (fr : Nat × Nat) (O : List Nat) (lo hg : Option Nat) : Prop :=
  (∀ i ∈ O, i < fr.1) ∧ ∃ L H, IsChain heap lo L ∧ IsChain heap hg H ∧
    SideOK bit heap cr fr O false L ∧ SideOK bit heap cr fr O true H

end Flurry.Proto.BinN
