import Flurry.Lemmas.BinNInvFrame
import Flurry.Lemmas.BinNGInv
import Flurry.Lemmas.BinNHMGInv
import Flurry.Lemmas.BinNStore
import Flurry.Lemmas.BinNHMStore
import Flurry.Lemmas.BinNTransfer
import Flurry.Lemmas.BinNHMTransfer
/-! # Proto/BinNH — port of the `Proto/BinN` lemma file of the same name to the heap invariant with ONE
MID-TRANSFER CELL PER HELPER (`Lemmas/BinNHMDefs.lean`); statements about `BinN.State`. Original header: frame lemmas for the preservation of the structural invariant -/
namespace Flurry.Proto.BinNHM
open Flurry.Proto.BinN
open Flurry.Lin
open Flurry.Proto.BinX (NodeS Cell Pending isReader dflt chainFrom cellHead cellOfHead nodeAt nodeAt_of_some getElem?_nodeAt
  nodeAt_append_left IsSeg IsChain chainH absIn KeysDistinct Walk get_set get_set_self get_set_ne)

/-- states with the same memory -/
def SameMem (s s' : State) : Prop :=
  s'.heap = s.heap ∧ s'.tabs = s.tabs ∧ s'.cur = s.cur ∧ s'.resizing = s.resizing

theorem SameMem.tick (s : State) : SameMem s (tick s) := ⟨rfl, rfl, rfl, rfl⟩
theorem SameMem.setT (s : State) (t : Nat) (l : Local) : SameMem s (setT s t l) := ⟨rfl, rfl, rfl, rfl⟩

theorem Live_congr' {s s' : State} (m : SameMem s s') (G : Ghost) (i : Nat) : Live s' G i ↔ Live s G i :=
  Live_congr m.1 m.2.1 G i

theorem HeapStep.congr {s0 s1 s s' : State} {G G' : Ghost} (hs : HeapStep s0 s1 G G') (m0 : SameMem s0 s)
    (m1 : SameMem s1 s') : HeapStep s s' G G' := by
  obtain ⟨a0, b0, c0, d0⟩ := m0
  obtain ⟨a1, b1, c1, d1⟩ := m1
  have hg0 : ∀ id, getCell s id = getCell s0 id := getCell_congr b0
  have hg1 : ∀ id, getCell s' id = getCell s1 id := getCell_congr b1
  have hc0 : ∀ id, chId s id = chId s0 id := chId_congr a0 b0
  have hc1 : ∀ id, chId s' id = chId s1 id := chId_congr a1 b1
  have hl0 : ∀ k, LC s k = LC s0 k := LC_congr a0 b0 c0
  have hl1 : ∀ k, LC s' k = LC s1 k := LC_congr a1 b1 c1
  have hv0 : ∀ G i, Live s G i ↔ Live s0 G i := Live_congr a0 b0
  have hv1 : ∀ G i, Live s' G i ↔ Live s1 G i := Live_congr a1 b1
  refine ⟨by rw [a0, a1]; exact hs.len, by rw [a0, a1]; exact hs.key, by rw [a0]; exact hs.ordS, ?_, ?_, ?_, ?_, ?_⟩
  · intro id h; rw [hg1]; rw [hg0] at h; exact hs.movedMono id h
  · intro j hj hnl
    rw [a0] at hj
    rw [hv0] at hnl
    rw [a0, a1, hv1]
    exact hs.off j hj hnl
  · intro k j hj
    rw [hl1] at hj
    rw [hl0, a0]
    exact hs.lc k j hj
  · intro k c h1 h2
    rw [hl0] at h1
    rw [hl1] at h2
    rw [a0, a1, hv1, hl0, hl1]
    exact hs.unl k c h1 h2
  · intro id c h1 h2
    rw [hc0] at h1
    rw [hc1] at h2
    rw [a0, a1, hv1, hc0, hc1]
    exact hs.unlC id c h1 h2

theorem Update.congr {s0 s1 s s' : State} {G : Ghost} {id : CellId} {C' : List Nat} (u : Update s0 s1 G id C')
    (m0 : SameMem s0 s) (m1 : SameMem s1 s') : Update s s' G id C' := by
  obtain ⟨a0, b0, c0, d0⟩ := m0
  obtain ⟨a1, b1, c1, d1⟩ := m1
  have hg0 : ∀ id, getCell s id = getCell s0 id := getCell_congr b0
  have hg1 : ∀ id, getCell s' id = getCell s1 id := getCell_congr b1
  refine ⟨by rw [a1]; exact u.nextOK, by rw [a0, a1]; exact u.len, ?_, by rw [c0, c1]; exact u.cur,
    by rw [d0, d1]; exact u.resz, by rw [b0, b1]; exact u.tlen, by rw [b0, b1]; exact u.rows, ?_, ?_, ?_,
    by rw [a1]; exact u.keys, by rw [a1]; exact u.side⟩
  · intro id' hne; rw [hg1, hg0]; exact u.cell id' hne
  · rw [hg1]; exact u.notMoved
  · rw [hg1, a1]; exact u.chain
  · intro j hj hn
    rw [a0] at hj
    rw [chId_congr a0 b0] at hn
    rw [a0, a1]
    exact u.other j hj hn

theorem Effect.congr {s0 s1 s s' : State} {G : Ghost} {id : CellId} (e : Effect s0 s1 G id) (m0 : SameMem s0 s)
    (m1 : SameMem s1 s') : Effect s s' G id := by
  obtain ⟨C', u, hs, hlk⟩ := e
  refine ⟨C', u.congr m0 m1, hs.congr m0 m1, ?_⟩
  rw [m0.1, m1.1]
  exact hlk

theorem absOf_sameMem {s s' : State} (m : SameMem s s') (k : Nat) : absOf s' k = absOf s k :=
  absOf_congr' m.1 m.2.1 m.2.2.1 k

theorem HInv.sameMem {s s' : State} {G : Ghost} (H : HInv s G) (m : SameMem s s') : HInv s' G :=
  H.congr m.1 m.2.1 m.2.2.1 m.2.2.2

theorem Active.sameMem {s s' : State} {G : Ghost} {id : CellId} (act : Active s G id) (m : SameMem s s') :
    Active s' G id := act.congr m.2.1 m.2.2.1

/-- the chain of a cell other than the updated one, as the walking writers see it -/
theorem hfr_update {s s' : State} {G : Ghost} {id : CellId} {C' : List Nat} (H : HInv s G) (act : Active s G id)
    (u : Update s s' G id C') {g j : Nat} (hne : (g, j) ≠ id) :
    cellAt s' g j = cellAt s g j ∧ chainH s'.heap (cellAt s g j) = chainH s.heap (cellAt s g j) ∧
    ∀ i ∈ chainH s.heap (cellAt s g j), (nodeAt s'.heap i).key = (nodeAt s.heap i).key ∧
      (nodeAt s'.heap i).next = (nodeAt s.heap i).next := by
  have hcell : cellAt s' g j = cellAt s g j := u.cell (g, j) hne
  have hch : chId s' (g, j) = chId s (g, j) := (u.chains H act).2 (g, j) hne
  refine ⟨hcell, ?_, ?_⟩
  · unfold chId getCell at hch
    rw [hcell] at hch
    exact hch
  · intro i hi
    have hi' : i ∈ chId s (g, j) := hi
    have hnot : i ∉ chId s id := fun h => H.disjoint act hne h hi'
    rw [u.other i (H.chain_lt hi') hnot]
    exact ⟨rfl, rfl⟩

/-- the same when only a cell is stored -/
theorem hfr_put {s s' : State} {g0 j0 : Nat} {c : Cell} (hh : s'.heap = s.heap)
    (ht : s'.tabs = s.tabs.modify g0 (fun row => row.set j0 c)) {g j : Nat} (hne : ¬ (g = g0 ∧ j = j0)) :
    cellAt s' g j = cellAt s g j ∧ chainH s'.heap (cellAt s g j) = chainH s.heap (cellAt s g j) ∧
    ∀ i ∈ chainH s.heap (cellAt s g j), (nodeAt s'.heap i).key = (nodeAt s.heap i).key ∧
      (nodeAt s'.heap i).next = (nodeAt s.heap i).next := by
  refine ⟨?_, by rw [hh], fun i _ => by rw [hh]; exact ⟨rfl, rfl⟩⟩
  rw [cellAt_eq, cellAt_eq, ht]
  exact cellT_put_ne _ _ hne

/-- the same when nothing but lock words changes -/
theorem hfr_same {s s' : State} (ht : s'.tabs = s.tabs) (hch : ∀ id, chId s' id = chId s id)
    (hn : ∀ j, (nodeAt s'.heap j).key = (nodeAt s.heap j).key ∧ (nodeAt s'.heap j).next = (nodeAt s.heap j).next)
    (g j : Nat) :
    cellAt s' g j = cellAt s g j ∧ chainH s'.heap (cellAt s g j) = chainH s.heap (cellAt s g j) ∧
    ∀ i ∈ chainH s.heap (cellAt s g j), (nodeAt s'.heap i).key = (nodeAt s.heap i).key ∧
      (nodeAt s'.heap i).next = (nodeAt s.heap i).next := by
  have hcell : cellAt s' g j = cellAt s g j := by rw [cellAt_eq, cellAt_eq, ht]
  refine ⟨hcell, ?_, fun i _ => hn i⟩
  have := hch (g, j)
  unfold chId getCell at this
  rw [hcell] at this
  exact this

end Flurry.Proto.BinNHM
