import Flurry.Lemmas.SeqBins
import Flurry.Lemmas.Arith
import Flurry.Lemmas.Bits
/-! # T1/T2: table basics and lookup semantics of the sequential model -/
namespace Flurry.Seq
open Flurry Flurry.Gen

/-! ## T1: `tableBin`, `List.set`, `emptyTable` -/

theorem tableBin_eq_getElem {t : Table} {i : Nat} (h : i < t.length) : tableBin t i = t[i] := by
  simp [tableBin, List.getD_eq_getElem?_getD, h]

theorem tableBin_of_le {t : Table} {i : Nat} (h : t.length ≤ i) : tableBin t i = .empty := by
  simp [tableBin, List.getD_eq_getElem?_getD, h]

theorem tableBin_set (t : Table) (i j : Nat) (b : Bin) :
    tableBin (t.set i b) j = if i = j ∧ i < t.length then b else tableBin t j := by
  simp only [tableBin, List.getD_eq_getElem?_getD, List.getElem?_set]
  by_cases hij : i = j
  · subst hij
    by_cases hl : i < t.length <;> simp [hl]
  · simp [hij]

theorem tableBin_set_self {t : Table} {i : Nat} (b : Bin) (h : i < t.length) :
    tableBin (t.set i b) i = b := by simp [tableBin_set, h]

theorem tableBin_set_ne {t : Table} {i j : Nat} (b : Bin) (h : i ≠ j) :
    tableBin (t.set i b) j = tableBin t j := by simp [tableBin_set, h]

theorem table_length_set (t : Table) (i : Nat) (b : Bin) : (t.set i b).length = t.length :=
  List.length_set

theorem emptyTable_length (n : Nat) : (emptyTable n).length = n := by simp [emptyTable]

theorem tableBin_emptyTable (n i : Nat) : tableBin (emptyTable n) i = .empty := by
  simp only [tableBin, emptyTable, List.getD_eq_getElem?_getD, List.getElem?_replicate]
  split <;> rfl

theorem tableWF_emptyTable (hash : Nat → Nat) {n : Nat} (hp : IsPow2 n) (hm : n ≤ MAXIMUM_CAPACITY) :
    TableWF hash (emptyTable n) := by
  refine ⟨by rwa [emptyTable_length], by rwa [emptyTable_length], fun i _ => ?_⟩
  rw [tableBin_emptyTable]; trivial

theorem flatMap_nodes_emptyTable (n : Nat) : (emptyTable n).flatMap Bin.nodes = [] := by
  induction n with
  | zero => rfl
  | succ n ih =>
    simp only [emptyTable, List.replicate_succ, List.flatMap_cons, Bin.nodes, List.nil_append] at ih ⊢
    exact ih

theorem isPow2_pos {n : Nat} (h : IsPow2 n) : 0 < n := by
  obtain ⟨k, rfl⟩ := h; exact Nat.two_pow_pos k

theorem TableWF.length_pos {hash : Nat → Nat} {t : Table} (h : TableWF hash t) : 0 < t.length :=
  isPow2_pos h.1

theorem TableWF.bin {hash : Nat → Nat} {t : Table} (h : TableWF hash t) (i : Nat) :
    BinWF hash t.length i (tableBin t i) := by
  by_cases hi : i < t.length
  · exact h.2.2 i hi
  · rw [tableBin_of_le (by omega)]; trivial

/-- replacing one bin by a well-formed bin -/
theorem tableWF_set {hash : Nat → Nat} {t : Table} {i : Nat} {b : Bin} (h : TableWF hash t)
    (hb : BinWF hash t.length i b) : TableWF hash (t.set i b) := by
  refine ⟨by rw [table_length_set]; exact h.1, by rw [table_length_set]; exact h.2.1, ?_⟩
  intro j hj
  rw [table_length_set] at hj ⊢
  rw [tableBin_set]
  split
  next hc => obtain ⟨rfl, _⟩ := hc; exact hb
  next => exact h.2.2 j hj

/-! ## the node list of a table -/

theorem mem_flatMap_nodes {t : Table} {nd : Node} :
    nd ∈ t.flatMap Bin.nodes ↔ ∃ j, j < t.length ∧ nd ∈ (tableBin t j).nodes := by
  rw [List.mem_flatMap]
  constructor
  · rintro ⟨b, hb, hnd⟩
    obtain ⟨j, hj, rfl⟩ := List.getElem_of_mem hb
    exact ⟨j, hj, by rwa [tableBin_eq_getElem hj]⟩
  · rintro ⟨j, hj, hnd⟩
    rw [tableBin_eq_getElem hj] at hnd
    exact ⟨t[j], List.getElem_mem hj, hnd⟩

/-- the node list around position `i` -/
theorem flatMap_nodes_split {t : Table} {i : Nat} (hi : i < t.length) :
    t.flatMap Bin.nodes =
      (t.take i).flatMap Bin.nodes ++ ((tableBin t i).nodes ++ (t.drop (i + 1)).flatMap Bin.nodes) := by
  conv => lhs; rw [← List.take_append_drop i t, List.drop_eq_getElem_cons hi]
  rw [List.flatMap_append, List.flatMap_cons, tableBin_eq_getElem hi]

theorem flatMap_nodes_set {t : Table} {i : Nat} (b : Bin) (hi : i < t.length) :
    (t.set i b).flatMap Bin.nodes =
      (t.take i).flatMap Bin.nodes ++ (b.nodes ++ (t.drop (i + 1)).flatMap Bin.nodes) := by
  have hi' : i < (t.set i b).length := by rwa [table_length_set]
  rw [flatMap_nodes_split hi', tableBin_set_self b hi, List.take_set_of_le (Nat.le_refl i),
    List.drop_set_of_lt (by omega : i < i + 1)]

/-- the nodes of the updated table: `b.nodes` in place of the nodes of bin `i` -/
theorem flatMap_nodes_set_perm {t : Table} {i : Nat} (b : Bin) (hi : i < t.length) :
    ((t.set i b).flatMap Bin.nodes ++ (tableBin t i).nodes).Perm
      (t.flatMap Bin.nodes ++ b.nodes) := by
  rw [flatMap_nodes_set b hi, flatMap_nodes_split hi]
  generalize (t.take i).flatMap Bin.nodes = A
  generalize (t.drop (i + 1)).flatMap Bin.nodes = C
  generalize (tableBin t i).nodes = X
  generalize b.nodes = Y
  simp only [List.append_assoc]
  refine List.Perm.append_left A ?_
  have h1 : (Y ++ (C ++ X)).Perm ((C ++ X) ++ Y) := List.perm_append_comm
  have h2 : ((C ++ X) ++ Y).Perm ((X ++ C) ++ Y) := List.Perm.append_right Y List.perm_append_comm
  rw [List.append_assoc X C Y] at h2
  exact h1.trans h2

theorem flatMap_nodes_set_length {t : Table} {i : Nat} (b : Bin) (hi : i < t.length) :
    ((t.set i b).flatMap Bin.nodes).length + (tableBin t i).nodes.length =
      (t.flatMap Bin.nodes).length + b.nodes.length := by
  simpa using (flatMap_nodes_set_perm b hi).length_eq

theorem mem_flatMap_nodes_set {t : Table} {i : Nat} {b : Bin} {nd : Node} (hi : i < t.length) :
    nd ∈ (t.set i b).flatMap Bin.nodes ↔
      (nd ∈ b.nodes ∨ ∃ j, j ≠ i ∧ j < t.length ∧ nd ∈ (tableBin t j).nodes) := by
  rw [mem_flatMap_nodes, table_length_set]
  constructor
  · rintro ⟨j, hj, hnd⟩
    by_cases hji : j = i
    · subst hji; rw [tableBin_set_self b hi] at hnd; exact Or.inl hnd
    · rw [tableBin_set_ne b (Ne.symm hji)] at hnd; exact Or.inr ⟨j, hji, hj, hnd⟩
  · rintro (hnd | ⟨j, hji, hj, hnd⟩)
    · exact ⟨i, hi, by rwa [tableBin_set_self b hi]⟩
    · exact ⟨j, hj, by rwa [tableBin_set_ne b (Ne.symm hji)]⟩

/-- a bin with the same node list (e.g. list → tree) leaves the node list of the table as it is -/
theorem flatMap_nodes_set_same {t : Table} {i : Nat} {b : Bin}
    (hb : b.nodes = (tableBin t i).nodes) : (t.set i b).flatMap Bin.nodes = t.flatMap Bin.nodes := by
  by_cases hi : i < t.length
  · rw [flatMap_nodes_set b hi, flatMap_nodes_split hi, hb]
  · rw [List.set_eq_of_length_le (by omega)]

end Flurry.Seq
