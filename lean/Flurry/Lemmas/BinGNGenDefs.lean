import Flurry.Proto.BinGN
/-! # Proto/BinGN: the invariant of the generation structure and of the bin locks (definitions, cells, lock words)

`GenInv s`: the shape of the tables (`cur + 1` generations, one more while a resize runs; generation `g` has
`2^g` cells), every generation older than `cur` is forwarded for ever, the cells of the next generation are
never forwarded, at most one resizing thread, every `TreeBin` id in a cell exists; and per thread (`POK` of
the thread's descriptor `desc`): the generation it works in is at most `cur + 1`, and it is `cur + 1` only
behind a forwarding marker that is still there; the node locks and the `TreeBin` mutexes match the program
counters; a thread holding a *validated* lock (after the re-check: a list writer, a tree writer, treeify, the
transfer) still sees its structure in its cell. -/
namespace Flurry.Proto.BinGN
open Flurry.Lin

/-! ## cells -/

def cellT (tabs : List (List Cell)) (g j : Nat) : Cell := (tabs.getD g []).getD j .empty

theorem cellAt_eq (s : State) (g j : Nat) : cellAt s g j = cellT s.tabs g j := rfl
theorem cellOf_eq (s : State) (g k : Nat) : cellOf s g k = cellT s.tabs g (k % 2 ^ g) := rfl

theorem getD_eq (l : List α) (i : Nat) (d : α) : l.getD i d = (l[i]?).getD d := by
  simp [List.getD_eq_getElem?_getD]

theorem cellT_put_ne (tabs : List (List Cell)) {g j g' j' : Nat} (c : Cell) (h : ¬ (g' = g ∧ j' = j)) :
    cellT (tabs.modify g (fun row => row.set j c)) g' j' = cellT tabs g' j' := by
  unfold cellT
  rw [getD_eq, getD_eq, getD_eq, getD_eq, List.getElem?_modify]
  by_cases hg : g = g'
  · subst hg
    have hj : j ≠ j' := fun e => h ⟨rfl, e.symm⟩
    cases hr : tabs[g]? with
    | none => simp
    | some row => simp [List.getElem?_set_ne hj]
  · simp [hg]

theorem cellT_put_self (tabs : List (List Cell)) (g j : Nat) (c : Cell) :
    cellT (tabs.modify g (fun row => row.set j c)) g j = c ∨
    cellT (tabs.modify g (fun row => row.set j c)) g j = cellT tabs g j := by
  unfold cellT
  rw [getD_eq, getD_eq, getD_eq, getD_eq, List.getElem?_modify]
  cases hr : tabs[g]? with
  | none => right; simp
  | some row =>
    simp only [if_true, Option.getD_some]
    by_cases hj : j < row.length
    · left; simp [List.getElem?_set_self hj]
    · right
      rw [List.getElem?_eq_none (by simp; omega), List.getElem?_eq_none (by omega)]

theorem cellT_put_self_eq (tabs : List (List Cell)) {g j : Nat} {row : List Cell} (c : Cell)
    (hr : tabs[g]? = some row) (hj : j < row.length) :
    cellT (tabs.modify g (fun row => row.set j c)) g j = c := by
  unfold cellT
  rw [getD_eq, getD_eq, List.getElem?_modify, hr]
  simp [List.getElem?_set_self hj]

/-- allocating a generation of empty cells changes no cell (a missing cell reads as `empty`) -/
theorem cellT_alloc (tabs : List (List Cell)) (n g j : Nat) :
    cellT (tabs ++ [List.replicate n .empty]) g j = cellT tabs g j := by
  unfold cellT
  rw [getD_eq, getD_eq, getD_eq, getD_eq]
  by_cases hg : g < tabs.length
  · rw [List.getElem?_append_left hg]
  · rw [List.getElem?_append_right (by omega), List.getElem?_eq_none (l := tabs) (by omega)]
    by_cases h0 : g - tabs.length = 0
    · rw [h0]
      simp only [List.getElem?_cons_zero, Option.getD_some, Option.getD_none, List.getElem?_nil]
      by_cases hj : j < n
      · rw [List.getElem?_replicate_of_lt hj]; rfl
      · rw [List.getElem?_eq_none (by simp; omega)]; rfl
    · have : ([List.replicate n (.empty : Cell)] : List (List Cell))[g - tabs.length]? = none :=
        List.getElem?_eq_none (by simp; omega)
      rw [this]

theorem two_pow_pos (g : Nat) : 0 < 2 ^ g := Nat.pos_of_ne_zero (by simp)
theorem mod_lt_pow (k g : Nat) : k % 2 ^ g < 2 ^ g := Nat.mod_lt _ (two_pow_pos g)
theorem mod_succ_mod (k g : Nat) : (k % 2 ^ (g + 1)) % 2 ^ g = k % 2 ^ g :=
  Nat.mod_mod_of_dvd k ⟨2, by rw [Nat.pow_succ]⟩
theorem high_mod (j g : Nat) (hj : j < 2 ^ g) : (j + 2 ^ g) % 2 ^ g = j := by
  rw [Nat.add_mod_right, Nat.mod_eq_of_lt hj]

/-! ## lock words of nodes, mutexes of `TreeBin`s -/

def lockAt (heap : List NodeS) (h : Nat) : Option Nat := (heap.getD h dflt).lock
def mutexAt (tb : List TBin) (b : Nat) : Option Nat := (tb.getD b dfltB).mutex

/-- the heap grew, and no lock word of an old node changed -/
def LockSame (heap heap' : List NodeS) : Prop :=
  heap.length ≤ heap'.length ∧ ∀ i, i < heap.length → lockAt heap' i = lockAt heap i

theorem LockSame.refl (heap : List NodeS) : LockSame heap heap := ⟨Nat.le_refl _, fun _ _ => rfl⟩

theorem LockSame.trans {a b c : List NodeS} (h1 : LockSame a b) (h2 : LockSame b c) : LockSame a c :=
  ⟨Nat.le_trans h1.1 h2.1, fun i hi => by rw [h2.2 i (by have := h1.1; omega), h1.2 i hi]⟩

theorem LockSame.append (heap ext : List NodeS) : LockSame heap (heap ++ ext) := by
  refine ⟨by simp, ?_⟩
  intro i hi
  unfold lockAt
  rw [getD_eq, getD_eq, List.getElem?_append_left hi]

theorem LockSame.modify (heap : List NodeS) (i : Nat) (f : NodeS → NodeS) (hf : ∀ n, (f n).lock = n.lock) :
    LockSame heap (heap.modify i f) := by
  refine ⟨by simp, ?_⟩
  intro j hj
  unfold lockAt
  rw [getD_eq, getD_eq, List.getElem?_modify]
  by_cases hij : i = j
  · subst hij
    rw [List.getElem?_eq_getElem hj]
    simp [hf]
  · simp [hij]

theorem lockAt_modify_self {heap : List NodeS} {h : Nat} (x : Option Nat) (hh : h < heap.length) :
    lockAt (heap.modify h (fun m => { m with lock := x })) h = x := by
  unfold lockAt
  rw [getD_eq, List.getElem?_modify, List.getElem?_eq_getElem hh]
  simp

theorem lockAt_modify_ne {heap : List NodeS} {h i : Nat} (x : Option Nat) (hne : i ≠ h) :
    lockAt (heap.modify h (fun m => { m with lock := x })) i = lockAt heap i := by
  unfold lockAt
  rw [getD_eq, getD_eq, List.getElem?_modify]
  simp [Ne.symm hne]

theorem lockAt_of_some {heap : List NodeS} {h : Nat} {n : NodeS} (hn : heap[h]? = some n) : lockAt heap h = n.lock := by
  unfold lockAt
  rw [getD_eq, hn]; rfl

theorem copyChain_lockSame (heap : List NodeS) (c : List Nat) (mk : NodeS → Option Nat → NodeS) :
    LockSame heap (copyChain heap c mk).1 := LockSame.append _ _

/-- the `TreeBin` table grew, and no mutex of an old bin changed -/
def MutexSame (tb tb' : List TBin) : Prop :=
  tb.length ≤ tb'.length ∧ ∀ i, i < tb.length → mutexAt tb' i = mutexAt tb i

theorem MutexSame.refl (tb : List TBin) : MutexSame tb tb := ⟨Nat.le_refl _, fun _ _ => rfl⟩

theorem MutexSame.trans {a b c : List TBin} (h1 : MutexSame a b) (h2 : MutexSame b c) : MutexSame a c :=
  ⟨Nat.le_trans h1.1 h2.1, fun i hi => by rw [h2.2 i (by have := h1.1; omega), h1.2 i hi]⟩

theorem MutexSame.append (tb ext : List TBin) : MutexSame tb (tb ++ ext) := by
  refine ⟨by simp, ?_⟩
  intro i hi
  unfold mutexAt
  rw [getD_eq, getD_eq, List.getElem?_append_left hi]

theorem MutexSame.modify (tb : List TBin) (i : Nat) (f : TBin → TBin) (hf : ∀ n, (f n).mutex = n.mutex) :
    MutexSame tb (tb.modify i f) := by
  refine ⟨by simp, ?_⟩
  intro j hj
  unfold mutexAt
  rw [getD_eq, getD_eq, List.getElem?_modify]
  by_cases hij : i = j
  · subst hij
    rw [List.getElem?_eq_getElem hj]
    simp [hf]
  · simp [hij]

theorem mutexAt_modify_self {tb : List TBin} {b : Nat} (x : Option Nat) (hb : b < tb.length) :
    mutexAt (tb.modify b (fun m => { m with mutex := x })) b = x := by
  unfold mutexAt
  rw [getD_eq, List.getElem?_modify, List.getElem?_eq_getElem hb]
  simp

theorem mutexAt_modify_ne {tb : List TBin} {b i : Nat} (x : Option Nat) (hne : i ≠ b) :
    mutexAt (tb.modify b (fun m => { m with mutex := x })) i = mutexAt tb i := by
  unfold mutexAt
  rw [getD_eq, getD_eq, List.getElem?_modify]
  simp [Ne.symm hne]

/-! ## descriptors -/

/-- the `TreeBin` a cell refers to -/
def binOfCell : Cell → Option Nat
  | .tree b => some b
  | _ => none

/-- what the invariant needs to know about a program counter -/
structure Desc where
  /-- the thread is the resizing thread -/
  isX : Bool := false
  /-- the generation it works in, and its key -/
  gen : Option (Nat × Nat) := none
  /-- the cell (of generation `cur`) the resizing thread is transferring -/
  idx : Option Nat := none
  commit : Bool := false
  /-- the node whose lock it holds -/
  holdN : Option Nat := none
  /-- the `TreeBin` whose mutex it holds -/
  holdM : Option Nat := none
  /-- the cell on which it holds a validated lock, and what it saw there -/
  valid : Option (Nat × Nat × Cell) := none
  /-- cells it remembers and may store later (the planned new cells of a transfer, the private `TreeBin` of a
  treeify), `TreeBin`s it is about to lock -/
  plan : List Cell := []

def unlN : Nat ⊕ Nat → Option Nat | .inl h => some h | .inr _ => none
def unlM : Nat ⊕ Nat → Option Nat | .inl _ => none | .inr b => some b
def unlCell : Nat ⊕ Nat → Cell | .inl h => .list h | .inr b => .tree b

/-- the descriptor of a program counter; `cur`: the table pointer (the generation the resizing thread works
in); `key`: the key of the call in flight -/
def descPc (cur key : Nat) : Pc → Desc
  | .rCell _ g => { gen := some (g, key) }
  | .wCell g | .wCas g => { gen := some (g, key) }
  | .wLock g _ => { gen := some (g, key) }
  | .wCheck g h => { gen := some (g, key), holdN := some h }
  | .wFind g h _ _ | .wStore g h _ _ _ =>
    { gen := some (g, key), holdN := some h, valid := some (g, key % 2 ^ g, .list h) }
  | .wUnlock g h _ _ => { gen := some (g, key), holdN := some h }
  | .tMutex g b => { gen := some (g, key), plan := [.tree b] }
  | .tCheck g b => { gen := some (g, key), holdM := some b }
  | .tFind g b | .tVal g b _ _ _ | .lrTry g b _ _ | .lrLoop g b _ _ | .tPrependLocked g b
  | .tTreeLinkLocked g b _ | .tUnlinkLocked g b _ _ | .tRestructure g b _ _ | .tUnlockRoot g b _
  | .tUntreeify g b _ =>
    { gen := some (g, key), holdM := some b, valid := some (g, key % 2 ^ g, .tree b) }
  | .tUnlockM g b _ _ => { gen := some (g, key), holdM := some b }
  | .kCell g k | .kLock g k _ => { gen := some (g, k) }
  | .kCheck g k h => { gen := some (g, k), holdN := some h }
  | .kBuild g k h => { gen := some (g, k), holdN := some h, valid := some (g, k % 2 ^ g, .list h) }
  | .kStore g k h b => { gen := some (g, k), holdN := some h, valid := some (g, k % 2 ^ g, .list h), plan := [.tree b] }
  | .kUnlock h => { holdN := some h }
  | .xNext => { isX := true }
  | .xCell j | .xCasMoved j | .xLock j _ => { isX := true, idx := some j }
  | .yMutex j b => { isX := true, idx := some j, plan := [.tree b] }
  | .xCheck j h => { isX := true, idx := some j, holdN := some h }
  | .yCheck j b => { isX := true, idx := some j, holdM := some b }
  | .xBuild j h => { isX := true, idx := some j, holdN := some h, valid := some (cur, j, .list h) }
  | .yBuild j b => { isX := true, idx := some j, holdM := some b, valid := some (cur, j, .tree b) }
  | .xStoreLow j unl lo hi =>
    { isX := true, idx := some j, holdN := unlN unl, holdM := unlM unl, valid := some (cur, j, unlCell unl),
      plan := [lo, hi] }
  | .xStoreHigh j unl hi =>
    { isX := true, idx := some j, holdN := unlN unl, holdM := unlM unl, valid := some (cur, j, unlCell unl),
      plan := [hi] }
  | .xStoreMoved j unl =>
    { isX := true, idx := some j, holdN := unlN unl, holdM := unlM unl, valid := some (cur, j, unlCell unl) }
  | .xUnlock unl => { isX := true, holdN := unlN unl, holdM := unlM unl }
  | .xCommit => { isX := true, commit := true }
  | _ => {}

def keyOf (l : Local) : Nat := match l.call with | some p => p.key | none => 0

def desc (cur : Nat) (l : Local) : Desc := descPc cur (keyOf l) l.pc

/-- what the invariant says about one thread (through its descriptor) -/
structure POK (s : State) (t : Nat) (D : Desc) : Prop where
  tres : D.isX = true → s.resizing = true
  gen : ∀ g k, D.gen = some (g, k) → g ≤ s.cur + 1 ∧ (g = s.cur + 1 → cellOf s s.cur k = .moved)
  idx : ∀ j, D.idx = some j → j < 2 ^ s.cur
  commit : D.commit = true → ∀ j, j < 2 ^ s.cur → cellAt s s.cur j = .moved
  heldN : ∀ h, D.holdN = some h → h < s.heap.length ∧ lockAt s.heap h = some t
  heldM : ∀ b, D.holdM = some b → b < s.tbins.length ∧ mutexAt s.tbins b = some t
  valid : ∀ g j c, D.valid = some (g, j, c) → cellAt s g j = c ∧
    ((∃ h, c = .list h ∧ D.holdN = some h) ∨ (∃ b, c = .tree b ∧ D.holdM = some b))
  plan : ∀ c ∈ D.plan, c ≠ .moved ∧ ∀ b, c = .tree b → b < s.tbins.length

structure GenInv (s : State) : Prop where
  len : s.tabs.length = s.cur + 1 + (if s.resizing then 1 else 0)
  rows : ∀ g row, s.tabs[g]? = some row → row.length = 2 ^ g
  /-- every cell of a generation older than `cur` is forwarded -/
  old : ∀ g j, g < s.cur → j < 2 ^ g → cellAt s g j = .moved
  /-- no cell of the next generation is forwarded -/
  nextOK : ∀ j, cellAt s (s.cur + 1) j ≠ .moved
  /-- forwarding markers in generation `cur` only while a resize runs -/
  curMoved : ∀ j, cellAt s s.cur j = .moved → s.resizing = true
  uniqX : ∀ (t t' : Nat) (l l' : Local), s.threads[t]? = some l → s.threads[t']? = some l' →
    (desc s.cur l).isX = true → (desc s.cur l').isX = true → t = t'
  /-- every `TreeBin` a cell refers to exists -/
  bins : ∀ g j b, cellAt s g j = .tree b → b < s.tbins.length
  thr : ∀ (t : Nat) (l : Local), s.threads[t]? = some l → POK s t (desc s.cur l)

end Flurry.Proto.BinGN
