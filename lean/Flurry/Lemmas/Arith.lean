import Flurry.Gen.Arith
import Flurry.Lemmas.Pow2
/-! Lemmas about the *generated* arithmetic (`Flurry/Gen/Arith.lean`). They are re-checked against
whatever the translator produced from /repo/src on this run. -/
namespace Flurry
open Flurry.Gen

theorem max_cap_eq : MAXIMUM_CAPACITY = 2 ^ 30 := by decide

theorem presizeCap_small (c : Nat) (h : c < MAXIMUM_CAPACITY / 2) :
    presizeCap c = npow2 (c + c / 2 + 1) := by
  have h1 : c + c / 2 + 1 ≤ 2 ^ 30 := by
    have : MAXIMUM_CAPACITY / 2 = 2 ^ 29 := by decide
    omega
  have h2 := npow2_le_of_pow2 _ 30 h1
  simp only [presizeCap, max_cap_eq] at *
  have : ¬ (c ≥ 2 ^ 30 / 2) := by omega
  simp only [this, decide_false, Bool.false_eq_true, ↓reduceIte, Nat.pow_one]
  exact Nat.min_eq_right h2

theorem presizeCap_big (c : Nat) (h : ¬ c < MAXIMUM_CAPACITY / 2) :
    presizeCap c = MAXIMUM_CAPACITY := by
  simp only [presizeCap]
  have : c ≥ MAXIMUM_CAPACITY / 2 := by omega
  simp [this]

theorem presizeCap_pow2 (c : Nat) : ∃ k, presizeCap c = 2 ^ k ∧ k ≤ 30 := by
  by_cases h : c < MAXIMUM_CAPACITY / 2
  · rw [presizeCap_small c h]
    obtain ⟨k, hk⟩ := npow2_isPow2 (c + c / 2 + 1)
    refine ⟨k, hk, ?_⟩
    have h1 : c + c / 2 + 1 ≤ 2 ^ 30 := by
      have : MAXIMUM_CAPACITY / 2 = 2 ^ 29 := by decide
      omega
    have h2 := npow2_le_of_pow2 _ 30 h1
    rw [hk] at h2
    exact (Nat.pow_le_pow_iff_right (by decide)).mp h2
  · exact ⟨30, by rw [presizeCap_big c h, max_cap_eq], Nat.le_refl _⟩

theorem tryPresizeCap_eq (c : Nat) : tryPresizeCap c = Int.ofNat (presizeCap c) := rfl

theorem loadFactorN_ge (x : Nat) : 3 * x ≤ 4 * loadFactorN x := by
  simp only [loadFactorN]; omega

end Flurry
