import Flurry.Lemmas.BinGPlan
import Flurry.Lemmas.BinGLock
import Flurry.Lemmas.BinGGhostL
import Flurry.Lemmas.BinGFacts
import Flurry.Lemmas.BinGLinBase
/-! # Proto/BinG: the stores of the resize establish `Eff` and leave every abstract state alone

`xstoreLow_facts`, `xstoreHigh_facts`, `xstoreMoved_facts`, `xcasMoved_facts`: the four transitions of
the resizing thread that change a cell and leave heap and `TreeBin` table alone.
* `XCtx s t l`: the acting thread is THE resizing thread, the old cell is not forwarded, and no other
  thread is validated, works in the new table, or is a resizing thread;
* congruence lemmas (`CopyOK.congr`, `PcInv.congr`, …): what depends on heap and `TreeBin` table only;
* the parts of `Inv s'`: `xctx_tinv`, `xctx_xinv`, `xctx_linv`, `xctx_dinv`, `hinv_of_cells`;
* `CopyOK.abs_eq`, `kstep_forward`: the forwarding. -/
namespace Flurry.Proto.BinG
open Flurry.Lin
open Flurry.Proto.BinK (nodeAt binAt NextOK IsChain IsSeg chainOf CInv absL get_set get_set_self get_set_ne
  absL_eq_none_iff absL_eq_some_iff pair_sublist_iff)

/-! ## what depends on the heap and the `TreeBin` table only -/

private theorem chainC_congr {s s' : State} (hh : s'.heap = s.heap) (hb : s'.tbins = s.tbins) (c : Cell) :
    chainC s' c = chainC s c := by
  unfold chainC; rw [hh, hb]

private theorem treeOf_congr {s s' : State} (hh : s'.heap = s.heap) (c : Cell) (j : Nat) : treeOf s' c j ↔ treeOf s c j := by
  unfold treeOf; rw [hh]

theorem CopyOK.congr {s s' : State} (hh : s'.heap = s.heap) (hb : s'.tbins = s.tbins) {old : Cell} {sel : Nat → Bool}
    {C : Cell} (h : CopyOK s old sel C) : CopyOK s' old sel C := by
  cases s; cases s'
  simp only at hh hb
  subst hh hb
  exact ⟨h.notMoved, h.cinv, h.cellOK, h.chainOwner, h.selOK, h.src, h.cover, h.suffix, h.order, h.fresh⟩

theorem Plan.congr {s s' : State} (hh : s'.heap = s.heap) (hb : s'.tbins = s.tbins) (hc : s'.cell0 = s.cell0)
    {lo hi : Cell} (h : Plan s lo hi) : Plan s' lo hi := by
  refine ⟨?_, ?_, h.distinct⟩
  · rw [hc]; exact h.low.congr hh hb
  · rw [hc]; exact h.high.congr hh hb

theorem PcInv.congr {s s' : State} (hh : s'.heap = s.heap) (hb : s'.tbins = s.tbins) {p : Pending} {pc : Pc}
    (h : PcInv s p pc) : PcInv s' p pc := by
  cases s; cases s'
  simp only at hh hb
  subst hh hb
  exact h

/-! ## program counters -/

private theorem xPc_of_xPre {pc : Pc} (h : xPre pc = true) : xPc pc = true := by
  cases pc <;> simp [xPre] at h <;> rfl

private theorem xPc_of_lowStored {pc : Pc} (h : lowStored pc = true) : xPc pc = true := by
  cases pc <;> simp [lowStored] at h <;> rfl

private theorem xPc_of_highStored {pc : Pc} (h : highStored pc = true) : xPc pc = true := by
  cases pc <;> simp [highStored] at h <;> rfl

private theorem pend_nil_of {s : State} {pc : Pc} (hx : xPc pc = false) (hv : validL pc = none) : pend s pc = [] := by
  cases pc <;> simp [xPc, validL] at hx hv <;> rfl

private theorem XPc_of_not_xPc {s : State} {pc : Pc} (hx : xPc pc = false) : XPc s pc := by
  cases pc <;> simp [xPc] at hx <;> trivial

private theorem KInv_of_validL_none {s : State} {pc : Pc} (hv : validL pc = none) : KInv s pc := by
  cases pc <;> simp [validL] at hv <;> trivial

private theorem KInv_of_xPc {s : State} {pc : Pc} (hx : xPc pc = true) : KInv s pc := by
  cases pc <;> simp [xPc] at hx <;> trivial

private theorem cidOf_c0_of_tab {l : Local} (h : tabOf l.pc ≠ some .new) : cidOf l = .c0 := by
  unfold cidOf
  cases ht : tabOf l.pc with
  | none => rfl
  | some tab =>
    cases tab with
    | old => rfl
    | new => exact absurd ht h

private theorem xPc_not_tree_writer {pc : Pc} (hx : xPc pc = true) :
    (∀ tab b j res, pc ≠ .tRestructure tab b j res) ∧ (∀ tab b res, pc ≠ .tUntreeify tab b res) ∧
    (∀ tab b j, pc ≠ .tTreeLinkLocked tab b j) ∧ (∀ tab k h b, pc ≠ .kStore tab k h b) := by
  cases pc <;> simp [xPc] at hx <;> simp

/-! ## the situation of the resizing thread -/

/-- thread `t` is THE resizing thread, the old cell is not forwarded, and no other thread is
validated, works in the new table, or is a resizing thread -/
structure XCtx (s : State) (t : Nat) (l : Local) : Prop where
  inv : Inv s
  hl : s.threads[t]? = some l
  call : l.call = none
  xpc : xPc l.pc = true
  notMoved : s.cell0 ≠ .moved
  others : ∀ t1 l1, t1 ≠ t → s.threads[t1]? = some l1 →
    xPc l1.pc = false ∧ validL l1.pc = none ∧ validT l1.pc = none ∧ tabOf l1.pc ≠ some .new

theorem xctx_of {s : State} {t : Nat} {l : Local} (I : Inv s) (hl : s.threads[t]? = some l) (hc : l.call = none)
    (hx : xPc l.pc = true) (hnm : s.cell0 ≠ .moved)
    (hv : (validated l.pc = true ∧ cidOf l = .c0) ∨ s.cell0 = .empty) : XCtx s t l := by
  refine ⟨I, hl, hc, hx, hnm, ?_⟩
  intro t1 l1 hne hl1
  have htab : tabOf l1.pc ≠ some .new := fun h => hnm (I.rsz.tabNew t1 l1 hl1 h)
  have hx1 : xPc l1.pc = false := by
    cases h : xPc l1.pc with
    | false => rfl
    | true => exact absurd (I.rsz.uniqX t1 t l1 l hl1 hl h hx) hne
  have hv1 := others_not_valid_cell (id := .c0) I.lock hl hv hne hl1 (cidOf_c0_of_tab htab)
  exact ⟨hx1, hv1.1, hv1.2, htab⟩

theorem XCtx.pend_nil {s : State} {t : Nat} {l : Local} (X : XCtx s t l) {t1 : Nat} {l1 : Local} (hne : t1 ≠ t)
    (hl1 : s.threads[t1]? = some l1) (s0 : State) : pend s0 l1.pc = [] :=
  pend_nil_of (X.others t1 l1 hne hl1).1 (X.others t1 l1 hne hl1).2.1

/-- no treeify has a private `TreeBin` -/
theorem XCtx.no_privK {s : State} {t : Nat} {l : Local} (X : XCtx s t l) (j : Nat) : ¬ PrivK s j := by
  rintro ⟨t1, l1, tab, k, h, b, hl1, hpc, -⟩
  by_cases hne : t1 = t
  · subst hne
    have := X.hl
    rw [hl1] at this; cases this
    have := X.xpc
    rw [hpc] at this; cases this
  · have := (X.others t1 l1 hne hl1).2.1
    rw [hpc] at this; cases this

/-- the shape of the successor state: thread `t` moves to `l'`, clock, history and flags -/
structure TStep (s s' : State) (t : Nat) (l' : Local) : Prop where
  thr : s'.threads = s.threads.set t l'
  now : s'.now = s.now + 1
  hist : s'.hist = s.hist
  resz : s'.resizing = s.resizing
  call : l'.call = none
  xpc : xPc l'.pc = true

private theorem xPc_noCall {pc : Pc} (h : xPc pc = true) : noCallPc pc = true := by
  unfold noCallPc; rw [h]; simp

private theorem xPc_tabOf {pc : Pc} (h : xPc pc = true) : tabOf pc = none := by
  cases pc <;> simp [xPc] at h <;> rfl

private theorem xPc_cidOf {l : Local} (h : xPc l.pc = true) : cidOf l = .c0 :=
  cidOf_c0_of_tab (by rw [xPc_tabOf h]; simp)

theorem XCtx.tinv {s s' : State} {t : Nat} {l l' : Local} (X : XCtx s t l) (S : TStep s s' t l') : TInv s' :=
  tinv_keep X.inv.thr X.hl S.thr S.now S.hist (S.call.trans X.call.symm)
    (by rw [S.call, xPc_noCall S.xpc]; simp) (fun p hp => by rw [X.call] at hp; cases hp)

theorem XCtx.self' {s s' : State} {t : Nat} {l l' : Local} (X : XCtx s t l) (S : TStep s s' t l') :
    s'.threads[t]? = some l' := by
  rw [S.thr]; exact get_set_self X.hl

theorem XCtx.xinv {s s' : State} {t : Nat} {l l' : Local} (X : XCtx s t l) (S : TStep s s' t l')
    (hpre : xPre l'.pc = true → s'.cell0 ≠ .moved)
    (hpost : xPre l'.pc = false → s'.cell0 = .moved)
    (hlowE : s'.cell0 ≠ .moved → lowStored l'.pc = false → s'.lowCell = .empty)
    (hhighE : s'.cell0 ≠ .moved → highStored l'.pc = false → s'.highCell = .empty)
    (hplan : XPc s' l'.pc) : XInv s' := by
  have I := X.inv
  have hself := X.self' S
  have hcases : ∀ t1 l1, s'.threads[t1]? = some l1 → (t1 = t ∧ l1 = l') ∨ (t1 ≠ t ∧ s.threads[t1]? = some l1) := by
    intro t1 l1 h1
    rw [S.thr] at h1
    exact get_set h1
  have hres : s'.resizing = true := by rw [S.resz]; exact I.rsz.resz t l X.hl X.xpc
  refine ⟨?_, fun _ _ _ _ => hres, (fun h => by rw [hres] at h; cases h), ?_, ?_, ?_, ?_, ?_, ?_⟩
  · intro t1 t2 l1 l2 h1 h2 hx1 hx2
    rcases hcases t1 l1 h1 with ⟨rfl, rfl⟩ | ⟨hne1, h1⟩
    · rcases hcases t2 l2 h2 with ⟨rfl, rfl⟩ | ⟨hne2, h2⟩
      · rfl
      · rw [(X.others t2 l2 hne2 h2).1] at hx2; cases hx2
    · rw [(X.others t1 l1 hne1 h1).1] at hx1; cases hx1
  · intro t1 l1 h1 hp
    rcases hcases t1 l1 h1 with ⟨rfl, rfl⟩ | ⟨hne1, h1⟩
    · exact hpre hp
    · have := xPc_of_xPre hp
      rw [(X.others t1 l1 hne1 h1).1] at this; cases this
  · intro t1 l1 h1 hx1 hp
    rcases hcases t1 l1 h1 with ⟨rfl, rfl⟩ | ⟨hne1, h1⟩
    · exact hpost hp
    · rw [(X.others t1 l1 hne1 h1).1] at hx1; cases hx1
  · intro hnm hall
    exact hlowE hnm (hall t l' hself)
  · intro hnm hall
    exact hhighE hnm (hall t l' hself)
  · intro t1 l1 h1 htab
    rcases hcases t1 l1 h1 with ⟨rfl, rfl⟩ | ⟨hne1, h1⟩
    · rw [xPc_tabOf S.xpc] at htab; cases htab
    · exact absurd htab (X.others t1 l1 hne1 h1).2.2.2
  · intro t1 l1 h1
    rcases hcases t1 l1 h1 with ⟨rfl, rfl⟩ | ⟨hne1, h1⟩
    · exact hplan
    · exact XPc_of_not_xPc (X.others t1 l1 hne1 h1).1

/-! ## the heap invariant, cell by cell -/

/-- what `HInv` says about the structure in cell `id` -/
structure CellOK (s : State) (id : Cid) (C : Cell) : Prop where
  cinv : CInv s.heap (startOf s.tbins C) (treeOf s C)
  cellOK : ∀ b, C = .tree b → b < s.tbins.length
  chainOwner : ∀ j ∈ chainC s C, (nodeAt s.heap j).owner = ownerOf C
  side : id ≠ .c0 → ∀ j, (j ∈ chainC s C ∨ treeOf s C j) → hiBit (nodeAt s.heap j).key = sideOf id

theorem HInv.cell {s : State} (H : HInv s) (id : Cid) : CellOK s id (cellAt s id) :=
  ⟨H.cinv id, H.cellOK id, H.chainOwner id, H.side id⟩

private theorem chainC_moved' (s : State) : chainC s .moved = [] := Flurry.Proto.BinK.chainOf_none _
private theorem chainC_empty' (s : State) : chainC s .empty = [] := Flurry.Proto.BinK.chainOf_none _

private theorem not_treeOf_moved' (s : State) (j : Nat) : ¬ treeOf s .moved j := by
  rintro ⟨_, _, b, hb, _⟩; cases hb

private theorem not_treeOf_empty' (s : State) (j : Nat) : ¬ treeOf s .empty j := by
  rintro ⟨_, _, b, hb, _⟩; cases hb

theorem CellOK.moved {s : State} (hok : NextOK s.heap) (id : Cid) : CellOK s id .moved := by
  have hno : ∀ a, ¬ (a ∈ chainC s .moved ∨ treeOf s .moved a) := by
    intro a ha
    rcases ha with h | h
    · rw [chainC_moved'] at h; cases h
    · exact not_treeOf_moved' s a h
  refine ⟨⟨hok, (fun h hh => by cases hh), fun a b ha => absurd ha (hno a)⟩, (fun b hb => by cases hb), ?_, ?_⟩
  · intro j hj; exact absurd (Or.inl hj) (hno j)
  · intro _ j hj; exact absurd hj (hno j)

theorem CopyOK.cell {s : State} {old C : Cell} {id : Cid} (h : CopyOK s old (sideSel (sideOf id)) C) :
    CellOK s id C := by
  refine ⟨h.cinv, h.cellOK, h.chainOwner, ?_⟩
  intro _ j hj
  have := h.selOK j hj
  simpa [sideSel] using this

theorem hinv_of_cells {s s' : State} (hh : s'.heap = s.heap) (hb : s'.tbins = s.tbins) (H : HInv s)
    (hc : ∀ id, CellOK s id (cellAt s' id))
    (hcur : s'.cur = .new → s'.cell0 = .moved) (hnm : s'.lowCell ≠ .moved ∧ s'.highCell ≠ .moved)
    (hbd : ∀ b, s'.lowCell = .tree b → s'.highCell ≠ .tree b) : HInv s' := by
  cases s; cases s'
  simp only at hh hb
  subst hh hb
  exact ⟨fun id => (hc id).cinv, H.ownerOK, H.firstOK, fun id => (hc id).cellOK, fun id => (hc id).chainOwner,
    fun id => (hc id).side, hcur, hnm, hbd⟩

/-! ## the lock invariant and the data invariant after a store into a cell -/

theorem XCtx.cases' {s s' : State} {t : Nat} {l l' : Local} (X : XCtx s t l) (S : TStep s s' t l') {t1 : Nat}
    {l1 : Local} (h1 : s'.threads[t1]? = some l1) : (t1 = t ∧ l1 = l') ∨ (t1 ≠ t ∧ s.threads[t1]? = some l1) := by
  have _ := X
  rw [S.thr] at h1
  exact get_set h1

theorem XCtx.other' {s s' : State} {t : Nat} {l l' : Local} (X : XCtx s t l) (S : TStep s s' t l') {t1 : Nat}
    {l1 : Local} (hne : t1 ≠ t) (h1 : s.threads[t1]? = some l1) : s'.threads[t1]? = some l1 := by
  have _ := X
  rw [S.thr, get_set_ne hne]; exact h1

theorem XCtx.linv {s s' : State} {t : Nat} {l l' : Local} (X : XCtx s t l) (S : TStep s s' t l')
    (hh : s'.heap = s.heap) (hb : s'.tbins = s.tbins)
    (eL : holdsLock l'.pc = holdsLock l.pc) (eM : holdsMutex l'.pc = holdsMutex l.pc)
    (hvL : ∀ h, validL l'.pc = some h → s'.cell0 = .list h)
    (hvT : ∀ b, validT l'.pc = some b → s'.cell0 = .tree b)
    (hvo : ∀ id, cellAt s' id = cellAt s id ∨ (validated l.pc = true ∧ id = .c0) ∨ cellAt s id = .empty)
    (hbits : ∀ id b, cellAt s' id = .tree b → (∃ id0, cellAt s id0 = .tree b) ∨
      ((binAt s.tbins b).mutex = none ∧ (binAt s.tbins b).writer = false ∧ (binAt s.tbins b).waiter = false))
    (ewr : wr l'.pc = wr l.pc) (eloop : isLoop l.pc = false) (eR : holdsRead l'.pc = holdsRead l.pc)
    (eB : ∀ b, binRef l'.pc = some b → binRef l.pc = some b)
    (hpriv : ∀ b, b < s.tbins.length → PrivBin s' b → PrivBin s b) : LInv s' := by
  have L := X.inv.lock
  have hc0 : cidOf l' = .c0 := xPc_cidOf S.xpc
  have hcl : cidOf l = .c0 := xPc_cidOf X.xpc
  have hvo' : ∀ id, cellAt s' id = cellAt s id ∨ (validated l.pc = true ∧ cidOf l = id) ∨ cellAt s id = .empty := by
    intro id
    rcases hvo id with h | ⟨h1, h2⟩ | h
    · exact Or.inl h
    · exact Or.inr (Or.inl ⟨h1, by rw [hcl, h2]⟩)
    · exact Or.inr (Or.inr h)
  refine LInv.of_parts
    (lk_step L X.hl S.thr (lockfun_same L X.hl eL (fun h => by rw [hh])) (fun h hp => Or.inl (eL ▸ hp))
      (fun h hv => by rw [hc0]; exact hvL h hv) hvo')
    (mx_step L X.hl S.thr (mutexfun_same L X.hl eM (fun b => by rw [hb])) (fun b hp => Or.inl (eM ▸ hp))
      (fun b hv => by rw [hc0]; exact hvT b hv) hvo')
    (rw_cell L X.hl S.thr hb hbits (fun b _ _ => ⟨ewr, fun h => by rw [eloop] at h; cases h⟩) eR
      (fun b hr => Or.inl (eB b hr)) hpriv)

theorem XCtx.dinv {s s' : State} {t : Nat} {l l' : Local} (X : XCtx s t l) (S : TStep s s' t l')
    (hh : s'.heap = s.heap) (hb : s'.tbins = s.tbins)
    (hcells : ∀ id b, cellAt s' id = .tree b → (∃ id0, cellAt s id0 = .tree b) ∨
      ((∀ j, j < s.heap.length → (nodeAt s.heap j).owner = some b → (nodeAt s.heap j).inTree = true →
          j ∈ chainOfBin s b) ∧ ∀ j ∈ chainOfBin s b, (nodeAt s.heap j).inTree = true)) : DInv s' := by
  have I := X.inv
  have hcb : ∀ b, chainOfBin s' b = chainOfBin s b := fun b => chainC_congr hh hb (.tree b)
  have hkeep : ∀ (t1 : Nat) (l1 : Local), s.threads[t1]? = some l1 → xPc l1.pc = false → s'.threads[t1]? = some l1 := by
    intro t1 l1 h1 hx1
    refine X.other' S ?_ h1
    rintro rfl
    have := X.hl
    rw [h1] at this; cases this
    rw [X.xpc] at hx1; cases hx1
  refine ⟨?_, ?_, ?_, ?_⟩
  · intro t1 l1 p h1 hc1
    rcases X.cases' S h1 with ⟨rfl, rfl⟩ | ⟨hne, h1⟩
    · rw [S.call] at hc1; cases hc1
    · exact (I.data.pcInv t1 l1 p h1 hc1).congr hh hb
  · intro t1 l1 h1
    rcases X.cases' S h1 with ⟨rfl, rfl⟩ | ⟨hne, h1⟩
    · exact KInv_of_xPc S.xpc
    · exact KInv_of_validL_none (X.others t1 l1 hne h1).2.1
  · intro id b hc j hj ho hin hn
    rw [hh] at hj ho hin
    rw [hcb] at hn
    rcases hcells id b hc with ⟨id0, hc0⟩ | ⟨f1, _⟩
    · obtain ⟨t1, l1, h1, hcase⟩ := I.data.treeSub id0 b hc0 j hj ho hin hn
      refine ⟨t1, l1, hkeep t1 l1 h1 ?_, hcase⟩
      rcases hcase with ⟨tab, res, h⟩ | ⟨tab, res, h⟩ <;> rw [h] <;> rfl
    · exact absurd (f1 j hj ho hin) hn
  · intro id b hc j hj hin
    rw [hh] at hin
    rw [hcb] at hj
    rcases hcells id b hc with ⟨id0, hc0⟩ | ⟨_, f2⟩
    · obtain ⟨t1, l1, tab, h1, hpc⟩ := I.data.chainSub id0 b hc0 j hj hin
      exact ⟨t1, l1, tab, hkeep t1 l1 h1 (by rw [hpc]; rfl), hpc⟩
    · rw [f2 j hj] at hin; cases hin

/-! ## live chains -/

private theorem liveId_c0 {s : State} (hnm : s.cell0 ≠ .moved) (k : Nat) : liveId s k = .c0 := by
  unfold liveId; rw [if_neg hnm]

private theorem LC_live {s : State} (H : HInv s) (k : Nat) : LC s k = chainC s (cellAt s (liveId s k)) := by
  unfold LC; rw [liveCell_eq H]

private theorem LC_c0 {s : State} (H : HInv s) (hnm : s.cell0 ≠ .moved) (k : Nat) : LC s k = chainC s s.cell0 := by
  rw [LC_live H, liveId_c0 hnm]; rfl

private theorem LC_new {s : State} (H : HInv s) (hm : s.cell0 = .moved) (k : Nat) :
    LC s k = chainC s (cellAt s (idOf .new k)) := by
  rw [LC_live H, liveId_moved hm]

private theorem absTree_congr {s s' : State} (hh : s'.heap = s.heap) (b k : Nat) : absTree s' b k = absTree s b k := by
  unfold absTree treeFind; rw [hh]

private theorem absOf_of_LC {s s' : State} (hh : s'.heap = s.heap) {k : Nat} (hLC : LC s' k = LC s k) :
    absOf s' k = absOf s k := by
  rw [BinG.absOf_eq, BinG.absOf_eq, hLC, hh]

/-! ## a planned structure is stored into its (empty) new cell -/

theorem xstoreNew_facts {s s' : State} {t : Nat} {l l' : Local} {id : Cid} {C : Cell}
    (X : XCtx s t l) (S : TStep s s' t l') (hh : s'.heap = s.heap) (hb : s'.tbins = s.tbins) (hcur : s'.cur = s.cur)
    (hemp : cellAt s id = .empty)
    (hcell : ∀ id', cellAt s' id' = if id' = id then C else cellAt s id')
    (hid : id ≠ .c0)
    (hC : CopyOK s s.cell0 (sideSel (sideOf id)) C) (hCp : C ∈ pend s l.pc)
    (hpend : pend s' l'.pc = pend s l.pc)
    (hbd : ∀ b, s'.lowCell = .tree b → s'.highCell ≠ .tree b)
    (eL : holdsLock l'.pc = holdsLock l.pc) (eM : holdsMutex l'.pc = holdsMutex l.pc)
    (evL : validL l'.pc = validL l.pc) (evT : validT l'.pc = validT l.pc)
    (ewr : wr l'.pc = wr l.pc) (eloop : isLoop l.pc = false) (eR : holdsRead l'.pc = holdsRead l.pc)
    (eB : binRef l'.pc = binRef l.pc)
    (hpre : xPre l'.pc = true)
    (hlowE : lowStored l'.pc = false → s'.lowCell = .empty)
    (hhighE : highStored l'.pc = false → s'.highCell = .empty)
    (hplan : XPc s' l'.pc) : Eff s s' ∧ ∀ k, absOf s' k = absOf s k := by
  have I := X.inv
  have H := I.heap
  have hc0 : s'.cell0 = s.cell0 := by
    have := hcell .c0
    rw [if_neg (fun h => hid h.symm)] at this
    exact this
  have hnm' : s'.cell0 ≠ .moved := by rw [hc0]; exact X.notMoved
  have hcl : cidOf l = .c0 := xPc_cidOf X.xpc
  -- the new cell: a bin of a cell of `s`, or a fresh bin
  have hnew : ∀ id' b, cellAt s' id' = .tree b → (∃ id0, cellAt s id0 = .tree b) ∨
      (C = .tree b ∧ s.cell0 ≠ .tree b) := by
    intro id' b hcb
    rw [hcell] at hcb
    split at hcb
    · by_cases h0 : s.cell0 = .tree b
      · exact Or.inl ⟨.c0, h0⟩
      · exact Or.inr ⟨hcb, h0⟩
    · exact Or.inl ⟨id', hcb⟩
  have H' : HInv s' := by
    refine hinv_of_cells hh hb H ?_ ?_ ?_ hbd
    · intro id'
      rw [hcell]
      split
      · rename_i h; subst h; exact hC.cell
      · exact H.cell id'
    · intro hc
      rw [hcur] at hc
      exact absurd (H.curMoved hc) X.notMoved
    · constructor
      · have := hcell .lo
        show cellAt s' .lo ≠ .moved
        rw [this]
        split
        · exact hC.notMoved
        · exact H.newNotMoved.1
      · have := hcell .hi
        show cellAt s' .hi ≠ .moved
        rw [this]
        split
        · exact hC.notMoved
        · exact H.newNotMoved.2
  have hprivB : ∀ b, PrivBin s' b → PrivBin s b := by
    rintro b ⟨⟨t1, l1, h1, hmem⟩, hne⟩
    rw [hc0] at hne
    refine ⟨?_, hne⟩
    rcases X.cases' S h1 with ⟨rfl, rfl⟩ | ⟨hne1, h1⟩
    · rw [hpend] at hmem
      exact ⟨t1, l, X.hl, hmem⟩
    · rw [X.pend_nil hne1 h1] at hmem; cases hmem
  have hI' : Inv s' := by
    refine ⟨H', X.tinv S, ?_, ?_, ?_⟩
    · exact X.xinv S (fun _ => hnm') (fun h => by rw [hpre] at h; cases h) (fun _ => hlowE) (fun _ => hhighE) hplan
    · refine X.linv S hh hb eL eM ?_ ?_ ?_ ?_ ewr eloop eR (fun b hr => eB ▸ hr) (fun b _ => hprivB b)
      · intro h hv
        rw [evL] at hv
        have := I.lock.vL t l h X.hl hv
        rw [hcl] at this
        rw [hc0]; exact this
      · intro b hv
        rw [evT] at hv
        have := I.lock.vT t l b X.hl hv
        rw [hcl] at this
        rw [hc0]; exact this
      · intro id'
        rw [hcell]
        split
        · rename_i h; subst h; exact Or.inr (Or.inr hemp)
        · exact Or.inl rfl
      · intro id' b hcb
        rcases hnew id' b hcb with h | ⟨hCb, h0⟩
        · exact Or.inl h
        · obtain ⟨f1, -, -⟩ := hC.fresh b hCb h0
          right
          rw [f1]
          exact ⟨rfl, rfl, rfl⟩
    · refine X.dinv S hh hb ?_
      intro id' b hcb
      rcases hnew id' b hcb with h | ⟨hCb, h0⟩
      · exact Or.inl h
      · obtain ⟨-, f2, f3⟩ := hC.fresh b hCb h0
        subst hCb
        right
        exact ⟨fun j hj ho _ => (f2 j hj).1 ho, f3⟩
  have hLC : ∀ k, LC s' k = LC s k := by
    intro k
    rw [LC_c0 H' hnm', LC_c0 H X.notMoved, hc0]
    exact chainC_congr hh hb _
  refine ⟨⟨hI', ?_, ?_, ?_, ?_, ?_⟩, fun k => absOf_of_LC hh (hLC k)⟩
  · intro k
    refine KStep.of_same (by rw [hh]; exact Nat.le_refl _) (fun j _ => by rw [hh]; exact ⟨rfl, rfl, rfl⟩) (hLC k) ?_ ?_
    · intro j _ hu
      have hCu : j ∈ chainC s C → Used s j := by
        intro hj
        by_cases hj0 : j ∈ chainC s s.cell0
        · exact Or.inl ⟨.c0, hj0⟩
        · exact Or.inr (Or.inr ⟨t, l, C, X.hl, X.xpc, hCp, hj, hj0⟩)
      rcases hu with ⟨id', hj⟩ | hu | hu
      · rw [chainC_congr hh hb, hcell] at hj
        split at hj
        · exact hCu hj
        · exact Or.inl ⟨id', hj⟩
      · obtain ⟨t1, l1, tab, k', h', b, h1, hpc, _⟩ := hu
        rcases X.cases' S h1 with ⟨rfl, rfl⟩ | ⟨hne1, h1⟩
        · have := S.xpc
          rw [hpc] at this; cases this
        · have := (X.others t1 l1 hne1 h1).2.1
          rw [hpc] at this; cases this
      · obtain ⟨t1, l1, C1, h1, hx1, hC1, hj, hj0⟩ := hu
        rw [chainC_congr hh hb] at hj
        rw [hc0, chainC_congr hh hb] at hj0
        rcases X.cases' S h1 with ⟨rfl, rfl⟩ | ⟨hne1, h1⟩
        · rw [hpend] at hC1
          exact Or.inr (Or.inr ⟨t1, l, C1, X.hl, X.xpc, hC1, hj, hj0⟩)
        · rw [(X.others t1 l1 hne1 h1).1] at hx1; cases hx1
    · rintro c ⟨hm, -⟩
      exact absurd hm X.notMoved
  · intro b _ hne
    rw [hb] at hne; exact absurd rfl hne
  · intro b k _ hne
    rw [absTree_congr hh] at hne; exact absurd rfl hne
  · intro b k hc
    left
    rw [liveId_c0 hnm']
    rw [liveId_c0 X.notMoved] at hc
    show s'.cell0 = .tree b
    rw [hc0]; exact hc
  · intro b _ hnc hnp
    refine ⟨?_, fun h => by rw [hb]; exact h⟩
    rintro ⟨id', hcb⟩
    rcases hnew id' b hcb with h | ⟨hCb, h0⟩
    · exact hnc h
    · exact hnp ⟨⟨t, l, X.hl, hCb ▸ hCp⟩, h0⟩

theorem XCtx.lowEmpty {s : State} {t : Nat} {l : Local} (X : XCtx s t l) (h : lowStored l.pc = false) :
    s.lowCell = .empty := by
  refine X.inv.rsz.lowEmpty X.notMoved ?_
  intro t1 l1 h1
  by_cases hne : t1 = t
  · subst hne
    have := X.hl
    rw [h1] at this; cases this
    exact h
  · cases hs : lowStored l1.pc with
    | false => rfl
    | true =>
      have := xPc_of_lowStored hs
      rw [(X.others t1 l1 hne h1).1] at this; cases this

theorem XCtx.highEmpty {s : State} {t : Nat} {l : Local} (X : XCtx s t l) (h : highStored l.pc = false) :
    s.highCell = .empty := by
  refine X.inv.rsz.highEmpty X.notMoved ?_
  intro t1 l1 h1
  by_cases hne : t1 = t
  · subst hne
    have := X.hl
    rw [h1] at this; cases this
    exact h
  · cases hs : highStored l1.pc with
    | false => rfl
    | true =>
      have := xPc_of_highStored hs
      rw [(X.others t1 l1 hne h1).1] at this; cases this

private theorem validated_unl (unl : Nat ⊕ Nat) : ((unlL unl).isSome || (unlT unl).isSome) = true := by
  cases unl <;> rfl

theorem xstoreLow_facts {s : State} {t : Nat} {l : Local} {unl : Nat ⊕ Nat} {lo hi : Cell} (I : Inv s)
    (hl : s.threads[t]? = some l) (hc : l.call = none) (hpc : l.pc = .xStoreLow unl lo hi) :
    let s' : State := { (setT (tick s) t { l with pc := .xStoreHigh unl hi }) with lowCell := lo }
    Eff s s' ∧ ∀ k, absOf s' k = absOf s k := by
  intro s'
  have hx : xPc l.pc = true := by rw [hpc]; rfl
  have X : XCtx s t l := xctx_of I hl hc hx (I.rsz.pre t l hl (by rw [hpc]; rfl))
    (Or.inl ⟨by rw [hpc]; exact validated_unl unl, xPc_cidOf hx⟩)
  have S : TStep s s' t { l with pc := .xStoreHigh unl hi } := ⟨rfl, rfl, rfl, rfl, hc, rfl⟩
  have P : Plan s lo hi := by
    have := I.rsz.plan t l hl
    rw [hpc] at this; exact this
  have hlowE : s.lowCell = .empty := X.lowEmpty (by rw [hpc]; rfl)
  have hhighE : s.highCell = .empty := X.highEmpty (by rw [hpc]; rfl)
  refine xstoreNew_facts (id := .lo) (C := lo) X S rfl rfl rfl hlowE ?_ (by simp) P.low (by rw [hpc]; simp [pend])
    (by rw [hpc]; rfl) ?_ (by rw [hpc]; rfl) (by rw [hpc]; rfl) (by rw [hpc]; rfl) (by rw [hpc]; rfl) (by rw [hpc]; rfl) (by rw [hpc]; rfl)
    (by rw [hpc]; rfl) (by rw [hpc]; rfl) rfl (fun h => by cases h) (fun _ => hhighE)
    (Plan.congr (s := s) (s' := s') rfl rfl rfl P)
  · intro id'
    cases id' <;> rfl
  · intro b _
    show s.highCell ≠ .tree b
    rw [hhighE]; simp

theorem xstoreHigh_facts {s : State} {t : Nat} {l : Local} {unl : Nat ⊕ Nat} {hi : Cell} (I : Inv s)
    (hl : s.threads[t]? = some l) (hc : l.call = none) (hpc : l.pc = .xStoreHigh unl hi) :
    let s' : State := { (setT (tick s) t { l with pc := .xStoreMoved unl }) with highCell := hi }
    Eff s s' ∧ ∀ k, absOf s' k = absOf s k := by
  intro s'
  have hx : xPc l.pc = true := by rw [hpc]; rfl
  have X : XCtx s t l := xctx_of I hl hc hx (I.rsz.pre t l hl (by rw [hpc]; rfl))
    (Or.inl ⟨by rw [hpc]; exact validated_unl unl, xPc_cidOf hx⟩)
  have S : TStep s s' t { l with pc := .xStoreMoved unl } := ⟨rfl, rfl, rfl, rfl, hc, rfl⟩
  have P : Plan s s.lowCell hi := by
    have := I.rsz.plan t l hl
    rw [hpc] at this; exact this
  have hhighE : s.highCell = .empty := X.highEmpty (by rw [hpc]; rfl)
  refine xstoreNew_facts (id := .hi) (C := hi) X S rfl rfl rfl hhighE ?_ (by simp) P.high (by rw [hpc]; simp [pend])
    (by rw [hpc]; rfl) ?_ (by rw [hpc]; rfl) (by rw [hpc]; rfl) (by rw [hpc]; rfl) (by rw [hpc]; rfl) (by rw [hpc]; rfl) (by rw [hpc]; rfl)
    (by rw [hpc]; rfl) (by rw [hpc]; rfl) rfl (fun h => by cases h) (fun h => by cases h)
    (Plan.congr (s := s) (s' := s') rfl rfl rfl P)
  · intro id'
    cases id' <;> rfl
  · intro b hb
    exact P.distinct b hb

/-! ## the forwarding -/

private theorem pair_total {L : List Nat} (hnd : L.Nodup) {a b : Nat} (ha : a ∈ L) (hb : b ∈ L) (hne : a ≠ b) :
    List.Sublist [a, b] L ∨ List.Sublist [b, a] L := by
  obtain ⟨p, q, rfl⟩ := List.append_of_mem hb
  rcases List.mem_append.1 ha with h | h
  · exact Or.inl ((pair_sublist_iff hnd rfl a).2 h)
  · rcases List.mem_cons.1 h with h | h
    · exact absurd h hne
    · right
      obtain ⟨q1, q2, rfl⟩ := List.append_of_mem h
      have e : p ++ b :: (q1 ++ a :: q2) = (p ++ b :: q1) ++ a :: q2 := by simp
      exact (pair_sublist_iff (p := p ++ b :: q1) hnd e b).2 (by simp)

/-- a structure that holds the selected part of the old chain shows the same abstract state for a
selected key -/
theorem CopyOK.abs_eq {s : State} {old C : Cell} {sel : Nat → Bool} (h : CopyOK s old sel C)
    (hd : ∀ i j, i ∈ chainC s old → j ∈ chainC s old → (nodeAt s.heap i).key = (nodeAt s.heap j).key → i = j)
    {k : Nat} (hk : sel k = true) : absL s.heap (chainC s C) k = absL s.heap (chainC s old) k := by
  cases ha : absL s.heap (chainC s old) k with
  | none =>
    rw [absL_eq_none_iff] at ha ⊢
    intro j hj
    by_cases hjo : j ∈ chainC s old
    · exact ha j hjo
    · obtain ⟨i, hi, hik, -, -⟩ := h.src j hj hjo
      rw [← hik]; exact ha i hi
  | some v =>
    rw [absL_eq_some_iff hd] at ha
    obtain ⟨i, hi, hik, hiv⟩ := ha
    obtain ⟨j, hj, hjk, hjv, -⟩ := h.cover i hi (by rw [hik]; exact hk)
    have hdC : ∀ a b, a ∈ chainC s C → b ∈ chainC s C → (nodeAt s.heap a).key = (nodeAt s.heap b).key → a = b :=
      fun a b ha hb => h.cinv.distinct a b ha hb
    rw [absL_eq_some_iff hdC]
    exact ⟨j, hj, by rw [hjk, hik], by rw [hjv, hiv]⟩

theorem Plan.sides {s : State} (P : Plan s s.lowCell s.highCell) (k : Nat) :
    CopyOK s s.cell0 (sideSel (hiBit k)) (cellAt s (idOf .new k)) ∧
      CopyOK s s.cell0 (sideSel (!hiBit k)) (cellAt s (otherId k)) := by
  unfold idOf otherId
  cases hiBit k
  · exact ⟨P.low, P.high⟩
  · exact ⟨P.high, P.low⟩

private theorem sideSel_self (k : Nat) : sideSel (hiBit k) k = true := by simp [sideSel]

private theorem sideSel_other {k k' : Nat} (h : sideSel (!hiBit k) k' = true) : k' ≠ k := by
  rintro rfl
  unfold sideSel at h
  cases hb : hiBit k' <;> simp [hb] at h

theorem copyOK_empty_empty {s : State} (hok : NextOK s.heap) (sel : Nat → Bool) : CopyOK s .empty sel .empty := by
  have hno : ∀ a, ¬ (a ∈ chainC s .empty ∨ treeOf s .empty a) := by
    intro a ha
    rcases ha with h | h
    · rw [chainC_empty'] at h; cases h
    · exact not_treeOf_empty' s a h
  refine ⟨(by intro h; cases h), ⟨hok, (fun h hh => by cases hh), fun a b ha => absurd ha (hno a)⟩,
    (fun b hb => by cases hb), ?_, ?_, ?_, ?_, ?_, ?_, (fun b hb => by cases hb)⟩
  · intro j hj; exact absurd (Or.inl hj) (hno j)
  · intro j hj; exact absurd hj (hno j)
  · intro j hj; exact absurd (Or.inl hj) (hno j)
  · intro i hi; exact absurd (Or.inl hi) (hno i)
  · intro r hr; exact absurd (Or.inl hr) (hno r)
  · intro i c hi; exact absurd (Or.inl hi) (hno i)

/-- the old cell is forwarded: `cell0 := moved`, everything else but the program counter is unchanged -/
theorem xforward_facts {s s' : State} {t : Nat} {l l' : Local}
    (X : XCtx s t l) (S : TStep s s' t l') (hh : s'.heap = s.heap) (hb : s'.tbins = s.tbins)
    (hc0 : s'.cell0 = .moved) (hlo : s'.lowCell = s.lowCell) (hhi : s'.highCell = s.highCell)
    (P : Plan s s.lowCell s.highCell)
    (hv : validated l.pc = true ∨ s.cell0 = .empty)
    (hmx : ∀ b, s.cell0 = .tree b → holdsMutex l.pc = some b ∧ wr l.pc = false)
    (hpend : pend s' l'.pc = [])
    (eL : holdsLock l'.pc = holdsLock l.pc) (eM : holdsMutex l'.pc = holdsMutex l.pc)
    (evL : validL l'.pc = none) (evT : validT l'.pc = none)
    (ewr : wr l'.pc = wr l.pc) (eloop : isLoop l.pc = false) (eR : holdsRead l'.pc = holdsRead l.pc)
    (eB : ∀ b, binRef l'.pc = some b → binRef l.pc = some b)
    (hpre : xPre l'.pc = false) (hplan : XPc s' l'.pc) : Eff s s' ∧ ∀ k, absOf s' k = absOf s k := by
  have I := X.inv
  have H := I.heap
  have hcn : ∀ id, id ≠ .c0 → cellAt s' id = cellAt s id := by
    intro id hid
    cases id with
    | c0 => exact absurd rfl hid
    | lo => exact hlo
    | hi => exact hhi
  have hch : ∀ c, chainC s' c = chainC s c := chainC_congr hh hb
  have hnotree : ∀ id b, cellAt s' id = .tree b → cellAt s id = .tree b := by
    intro id b hcb
    cases id with
    | c0 =>
      have : s'.cell0 = .tree b := hcb
      rw [hc0] at this; cases this
    | lo => rw [← hcn .lo (by simp)]; exact hcb
    | hi => rw [← hcn .hi (by simp)]; exact hcb
  have H' : HInv s' := by
    refine hinv_of_cells hh hb H ?_ (fun _ => hc0) (by rw [hlo, hhi]; exact H.newNotMoved)
      (by rw [hlo, hhi]; exact H.binsDistinct)
    intro id
    cases id with
    | c0 =>
      show CellOK s .c0 s'.cell0
      rw [hc0]; exact CellOK.moved H.nextOK _
    | lo => rw [hcn .lo (by simp)]; exact H.cell .lo
    | hi => rw [hcn .hi (by simp)]; exact H.cell .hi
  -- nothing is private after the step
  have hnoPend : ∀ (t1 : Nat) (l1 : Local) (C : Cell), s'.threads[t1]? = some l1 → C ∈ pend s' l1.pc → False := by
    intro t1 l1 C h1 hC
    rcases X.cases' S h1 with ⟨rfl, rfl⟩ | ⟨hne1, h1⟩
    · rw [hpend] at hC; cases hC
    · rw [X.pend_nil hne1 h1] at hC; cases hC
  have hnoK : ∀ j, ¬ PrivK s' j := by
    rintro j ⟨t1, l1, tab, k', h', b, h1, hpc, _⟩
    exact hnoPend t1 l1 (.tree b) h1 (by rw [hpc]; simp [pend])
  have hnoX : ∀ j, ¬ PrivX s' j := by
    rintro j ⟨t1, l1, C1, h1, _, hC1, _, _⟩
    exact hnoPend t1 l1 C1 h1 hC1
  have hI' : Inv s' := by
    refine ⟨H', X.tinv S, ?_, ?_, ?_⟩
    · exact X.xinv S (fun h => by rw [hpre] at h; cases h) (fun _ => hc0) (fun h => absurd hc0 h)
        (fun h => absurd hc0 h) hplan
    · refine X.linv S hh hb eL eM (fun h hvl => by rw [evL] at hvl; cases hvl)
        (fun b hvt => by rw [evT] at hvt; cases hvt) ?_ (fun id b hcb => Or.inl ⟨id, hnotree id b hcb⟩)
        ewr eloop eR eB ?_
      · intro id
        by_cases hid : id = .c0
        · subst hid
          rcases hv with hv | hv
          · exact Or.inr (Or.inl ⟨hv, rfl⟩)
          · exact Or.inr (Or.inr hv)
        · exact Or.inl (hcn id hid)
      · rintro b _ ⟨⟨t1, l1, h1, hmem⟩, -⟩
        exact (hnoPend t1 l1 _ h1 hmem).elim
    · exact X.dinv S hh hb (fun id b hcb => Or.inl ⟨id, hnotree id b hcb⟩)
  have hLC : ∀ k, LC s k = chainC s s.cell0 := LC_c0 H X.notMoved
  have hLC' : ∀ k, LC s' k = chainC s (cellAt s (idOf .new k)) := by
    intro k
    rw [LC_new H' hc0, hch, hcn _ (idOf_new_ne_c0 k)]
  have hOnd : (chainC s s.cell0).Nodup := (H.cinv .c0).nodup
  have hOd : ∀ i j, i ∈ chainC s s.cell0 → j ∈ chainC s s.cell0 →
      (nodeAt s.heap i).key = (nodeAt s.heap j).key → i = j := (H.cinv .c0).distinct
  have habs : ∀ k, absOf s' k = absOf s k := by
    intro k
    rw [BinG.absOf_eq, BinG.absOf_eq, hLC' k, hLC k, hh]
    exact (P.sides k).1.abs_eq hOd (sideSel_self k)
  have hused : ∀ j, Used s' j → ∃ id, id ≠ .c0 ∧ j ∈ chainC s (cellAt s id) := by
    rintro j (⟨id, hj⟩ | hu | hu)
    · rw [hch] at hj
      by_cases hid : id = .c0
      · subst hid
        have e : cellAt s' .c0 = .moved := hc0
        rw [e, chainC_moved'] at hj; cases hj
      · rw [hcn id hid] at hj
        exact ⟨id, hid, hj⟩
    · exact absurd hu (hnoK j)
    · exact absurd hu (hnoX j)
  refine ⟨⟨hI', ?_, ?_, ?_, ?_, ?_⟩, habs⟩
  · intro k
    obtain ⟨Q, Q'⟩ := P.sides k
    refine ⟨by rw [hh]; exact Nat.le_refl _, fun j _ => by rw [hh], fun j _ _ => by rw [hh]; exact ⟨rfl, rfl⟩,
      ?_, ?_, ?_, ?_, ?_⟩
    · -- stable
      intro j _ hu
      obtain ⟨id, _, hj⟩ := hused j hu
      exact Or.inl ⟨id, hj⟩
    · -- leave
      intro c hc hc'
      rw [hLC k] at hc
      rw [hLC' k] at hc'
      refine ⟨by rw [hh], by rw [hh], ?_⟩
      by_cases hY : c ∈ chainC s (cellAt s (otherId k))
      · right
        refine ⟨⟨hc0, by rw [hch, hcn _ (otherId_ne_c0 k)]; exact hY⟩, ?_⟩
        intro j hj hjc
        rw [hLC k] at hj hjc
        have hjY : j ∈ chainC s (cellAt s (otherId k)) := by
          by_cases hjc' : j = c
          · rw [hjc']; exact hY
          · rcases pair_total hOnd hj hc hjc' with h | h
            · exact absurd h hjc
            · exact Q'.suffix c hc hY j hj h
        exact sideSel_other (Q'.selOK j (Or.inl hjY))
      · left
        intro hu
        obtain ⟨id, hid, hj⟩ := hused c hu
        cases id with
        | c0 => exact hid rfl
        | lo =>
          unfold idOf at hc'
          unfold otherId at hY
          cases hbk : hiBit k <;> simp only [hbk] at hc' hY
          · exact hc' hj
          · exact hY hj
        | hi =>
          unfold idOf at hc'
          unfold otherId at hY
          cases hbk : hiBit k <;> simp only [hbk] at hc' hY
          · exact hY hj
          · exact hc' hj
    · -- before
      intro c hc hc' i hsub
      rw [hLC k] at hc ⊢
      rw [hLC' k] at hc' hsub
      rw [hh]
      have hi' : i ∈ chainC s (cellAt s (idOf .new k)) := hsub.subset (by simp)
      left
      by_cases hi : i ∈ chainC s s.cell0
      · exact ⟨i, Q.order i c hi hc hsub, rfl⟩
      · obtain ⟨i0, _, hk0, -, hbef⟩ := Q.src i hi' hi
        exact ⟨i0, hbef c hc hc', hk0⟩
    · -- valchg
      intro j _ hne
      rw [hh] at hne; exact absurd rfl hne
    · -- foreign
      rintro c ⟨hm, -⟩
      exact absurd hm X.notMoved
  · intro b _ hne
    rw [hb] at hne; exact absurd rfl hne
  · intro b k _ hne
    rw [absTree_congr hh] at hne; exact absurd rfl hne
  · intro b k hc
    right; right
    have hc' : s.cell0 = .tree b := by
      rw [liveId_c0 X.notMoved] at hc; exact hc
    obtain ⟨hm, hw⟩ := hmx b hc'
    have hmt := (I.lock.mx t l b X.hl).1 hm
    have hwf : (binAt s.tbins b).writer = false := by
      rw [(I.lock.bitsSome .c0 b t l hc' X.hl hmt).1, hw]
    rw [absTree_congr hh, habs k]
    exact I.absTree_eq_abs hc hwf
  · intro b _ hnc _
    refine ⟨?_, fun h => by rw [hb]; exact h⟩
    rintro ⟨id, hcb⟩
    exact hnc ⟨id, hnotree id b hcb⟩

theorem xstoreMoved_facts {s : State} {t : Nat} {l : Local} {unl : Nat ⊕ Nat} (I : Inv s)
    (hl : s.threads[t]? = some l) (hc : l.call = none) (hpc : l.pc = .xStoreMoved unl) :
    let s' : State := { (setT (tick s) t { l with pc := .xUnlock unl }) with cell0 := .moved }
    Eff s s' ∧ ∀ k, absOf s' k = absOf s k := by
  intro s'
  have hx : xPc l.pc = true := by rw [hpc]; rfl
  have hval : validated l.pc = true := by rw [hpc]; exact validated_unl unl
  have X : XCtx s t l := xctx_of I hl hc hx (I.rsz.pre t l hl (by rw [hpc]; rfl)) (Or.inl ⟨hval, xPc_cidOf hx⟩)
  have S : TStep s s' t { l with pc := .xUnlock unl } := ⟨rfl, rfl, rfl, rfl, hc, rfl⟩
  have P : Plan s s.lowCell s.highCell := by
    have := I.rsz.plan t l hl
    rw [hpc] at this; exact this
  have hcl : cidOf l = .c0 := xPc_cidOf hx
  refine xforward_facts X S rfl rfl rfl rfl rfl P (Or.inl hval) ?_ rfl (by rw [hpc]; rfl) (by rw [hpc]; rfl) rfl rfl
    (by rw [hpc]; rfl) (by rw [hpc]; rfl) (by rw [hpc]; rfl) (fun b h => by rw [hpc]; exact h) rfl trivial
  intro b hcb
  cases unl with
  | inl h =>
    have := I.lock.vL t l h hl (by rw [hpc]; rfl)
    rw [hcl] at this
    have e : cellAt s .c0 = .tree b := hcb
    rw [e] at this; cases this
  | inr b' =>
    have := I.lock.vT t l b' hl (by rw [hpc]; rfl)
    rw [hcl] at this
    have e : cellAt s .c0 = .tree b := hcb
    rw [e] at this; cases this
    rw [hpc]; exact ⟨rfl, rfl⟩

theorem xcasMoved_facts {s : State} {t : Nat} {l : Local} (I : Inv s)
    (hl : s.threads[t]? = some l) (hc : l.call = none) (hpc : l.pc = .xCasMoved) (h0 : s.cell0 = .empty) :
    let s' : State := { (setT (tick s) t { l with pc := .xCommit }) with cell0 := .moved }
    Eff s s' ∧ ∀ k, absOf s' k = absOf s k := by
  intro s'
  have hx : xPc l.pc = true := by rw [hpc]; rfl
  have hnm : s.cell0 ≠ .moved := by rw [h0]; simp
  have X : XCtx s t l := xctx_of I hl hc hx hnm (Or.inr h0)
  have S : TStep s s' t { l with pc := .xCommit } := ⟨rfl, rfl, rfl, rfl, hc, rfl⟩
  have hlowE : s.lowCell = .empty := X.lowEmpty (by rw [hpc]; rfl)
  have hhighE : s.highCell = .empty := X.highEmpty (by rw [hpc]; rfl)
  have P : Plan s s.lowCell s.highCell := by
    rw [hlowE, hhighE]
    refine ⟨?_, ?_, fun b hb => by cases hb⟩
    · rw [h0]; exact copyOK_empty_empty I.heap.nextOK _
    · rw [h0]; exact copyOK_empty_empty I.heap.nextOK _
  refine xforward_facts X S rfl rfl rfl rfl rfl P (Or.inr h0) ?_ rfl (by rw [hpc]; rfl) (by rw [hpc]; rfl) rfl rfl
    (by rw [hpc]; rfl) (by rw [hpc]; rfl) (by rw [hpc]; rfl) (fun b h => by cases h) rfl trivial
  intro b hcb
  rw [h0] at hcb; cases hcb

/-! ## the build steps: heap and `TreeBin` table are extended -/

private theorem find?_congr' {α : Type} {p q : α → Bool} : ∀ {l : List α}, (∀ x ∈ l, p x = q x) → l.find? p = l.find? q
  | [], _ => rfl
  | a :: l, h => by
    simp only [List.find?_cons]
    rw [h a (by simp), find?_congr' (fun x hx => h x (List.mem_cons_of_mem _ hx))]

private theorem binAt_append_ge (tb ext : List TBin) {b : Nat} (hb : tb.length ≤ b) :
    binAt (tb ++ ext) b = Flurry.Proto.BinK.dfltB ∨ binAt (tb ++ ext) b ∈ ext := by
  rw [Flurry.Proto.BinK.binAt_eq]
  by_cases hlt : b < (tb ++ ext).length
  · right
    rw [List.length_append] at hlt
    rw [List.getElem?_append_right hb, List.getElem?_eq_getElem (by omega)]
    exact List.getElem_mem _
  · left
    rw [List.getElem?_eq_none (by omega)]; rfl

/-- lock words of all nodes, synchronisation words of all `TreeBin`s are unchanged by an extension -/
theorem Ext.sync {s s' : State} (E : Ext s s') :
    (∀ h, (nodeAt s'.heap h).lock = (nodeAt s.heap h).lock) ∧
    (∀ b, (binAt s'.tbins b).mutex = (binAt s.tbins b).mutex ∧ (binAt s'.tbins b).writer = (binAt s.tbins b).writer ∧
      (binAt s'.tbins b).waiter = (binAt s.tbins b).waiter ∧ (binAt s'.tbins b).readers = (binAt s.tbins b).readers) := by
  constructor
  · intro h
    by_cases hh : h < s.heap.length
    · rw [E.old hh]
    · obtain ⟨ext, he, hattr⟩ := E.heap
      rw [Flurry.Proto.BinK.nodeAt_ge (Nat.le_of_not_lt hh), he]
      rcases nodeAt_append_ge s.heap ext (Nat.le_of_not_lt hh) with h1 | h1
      · rw [h1]
      · rw [hattr _ h1]; rfl
  · intro b
    by_cases hb : b < s.tbins.length
    · rw [E.bold hb]; exact ⟨rfl, rfl, rfl, rfl⟩
    · obtain ⟨extb, he, hattr⟩ := E.tbins
      rw [Flurry.Proto.BinK.binAt_ge (Nat.le_of_not_lt hb), he]
      rcases binAt_append_ge s.tbins extb (Nat.le_of_not_lt hb) with h1 | h1
      · rw [h1]; exact ⟨rfl, rfl, rfl, rfl⟩
      · rw [hattr _ h1]; exact ⟨rfl, rfl, rfl, rfl⟩

theorem treeFind_ext {s s' : State} (E : Ext s s') {b : Nat} (hb : b < s.tbins.length) (k : Nat) :
    treeFind s' b k = treeFind s b k := by
  rw [treeFind_def, treeFind_def]
  obtain ⟨ext, hh, _⟩ := E.heap
  have hlen : s'.heap.length = s.heap.length + ext.length := by rw [hh, List.length_append]
  rw [hlen, List.range_add, List.find?_append]
  have h2 : (List.map (fun x => s.heap.length + x) (List.range ext.length)).find? (fun i =>
      (nodeAt s'.heap i).owner == some b && (nodeAt s'.heap i).inTree && (nodeAt s'.heap i).key == k) = none := by
    rw [List.find?_eq_none]
    intro i hi
    simp only [List.mem_map, List.mem_range] at hi
    obtain ⟨m, _, rfl⟩ := hi
    have hno : (nodeAt s'.heap (s.heap.length + m)).owner ≠ some b := by
      intro ho
      have := (E.newOwner _ b (by omega) ho).1
      omega
    simp [hno]
  rw [h2, Option.or_none]
  apply find?_congr'
  intro i hi
  rw [E.old (List.mem_range.1 hi)]

theorem absL_old {s s' : State} (E : Ext s s') {L : List Nat} (hL : ∀ j ∈ L, j < s.heap.length) (k : Nat) :
    absL s'.heap L k = absL s.heap L k := by
  refine Flurry.Proto.BinK.absL_pointwise rfl ?_ k
  intro j hj
  have : L.getD j 0 = L[j] := by simp [List.getD_eq_getElem?_getD, hj]
  rw [this, E.old (hL _ (List.getElem_mem hj))]
  exact ⟨rfl, rfl⟩

/-- the program counter facts of a thread that is not validated only mention the length of the heap -/
theorem PcInv.mono {s s' : State} {p : Pending} {pc : Pc} (hlen : s.heap.length ≤ s'.heap.length)
    (hvL : validL pc = none) (hvT : validT pc = none) (h : PcInv s p pc) : PcInv s' p pc := by
  cases pc <;> simp [validL, validT] at hvL hvT <;> try exact trivial
  case rNode cur =>
    cases cur with
    | none => trivial
    | some c => simp only [PcInv] at h ⊢; omega
  case rState b cur =>
    cases cur with
    | none => trivial
    | some c => simp only [PcInv] at h ⊢; omega
  case rLin b c => simp only [PcInv] at h ⊢; omega
  case rCas b c r => simp only [PcInv] at h ⊢; omega
  case lNode cur =>
    cases cur with
    | none => trivial
    | some c => simp only [PcInv] at h ⊢; omega
  case rVal i => exact h

theorem XCtx.dinv_ext {s s' : State} {t : Nat} {l l' : Local} (X : XCtx s t l) (S : TStep s s' t l')
    (E : Ext s s') : DInv s' := by
  have I := X.inv
  have H := I.heap
  have hkeep : ∀ (t1 : Nat) (l1 : Local), s.threads[t1]? = some l1 → xPc l1.pc = false → s'.threads[t1]? = some l1 := by
    intro t1 l1 h1 hx1
    refine X.other' S ?_ h1
    rintro rfl
    have := X.hl
    rw [h1] at this; cases this
    rw [X.xpc] at hx1; cases hx1
  have hcb : ∀ id b, cellAt s id = .tree b → chainOfBin s' b = chainOfBin s b := by
    intro id b hc
    have hC := H.cinv id
    rw [hc] at hC
    exact E.chainC_eq H.nextOK hC.startOK (fun b' hb' => by cases hb'; exact H.cellOK id b hc)
  refine ⟨?_, ?_, ?_, ?_⟩
  · intro t1 l1 p h1 hc1
    rcases X.cases' S h1 with ⟨rfl, rfl⟩ | ⟨hne, h1⟩
    · rw [S.call] at hc1; cases hc1
    · exact (I.data.pcInv t1 l1 p h1 hc1).mono E.hlen (X.others t1 l1 hne h1).2.1 (X.others t1 l1 hne h1).2.2.1
  · intro t1 l1 h1
    rcases X.cases' S h1 with ⟨rfl, rfl⟩ | ⟨hne, h1⟩
    · exact KInv_of_xPc S.xpc
    · exact KInv_of_validL_none (X.others t1 l1 hne h1).2.1
  · intro id b hc j hj ho hin hn
    rw [E.cellAt_eq] at hc
    rw [hcb id b hc] at hn
    by_cases hjl : j < s.heap.length
    · rw [E.old hjl] at ho hin
      obtain ⟨t1, l1, h1, hcase⟩ := I.data.treeSub id b hc j hjl ho hin hn
      refine ⟨t1, l1, hkeep t1 l1 h1 ?_, hcase⟩
      rcases hcase with ⟨tab, res, h⟩ | ⟨tab, res, h⟩ <;> rw [h] <;> rfl
    · have := (E.newOwner j b (by omega) ho).1
      have := H.cellOK id b hc
      omega
  · intro id b hc j hj hin
    rw [E.cellAt_eq] at hc
    rw [hcb id b hc] at hj
    have hC := H.cinv id
    rw [hc] at hC
    have hjl : j < s.heap.length := hC.chain_lt hj
    rw [E.old hjl] at hin
    obtain ⟨t1, l1, tab, h1, hpc⟩ := I.data.chainSub id b hc j hj hin
    exact ⟨t1, l1, tab, hkeep t1 l1 h1 (by rw [hpc]; rfl), hpc⟩

/-- a build step of the transfer: heap and `TreeBin` table are extended, the two planned structures
become pending -/
theorem xgrow_facts {s s' : State} {t : Nat} {l l' : Local} {unl : Nat ⊕ Nat} {lo hi : Cell}
    (X : XCtx s t l) (S : TStep s s' t l') (E : Ext s s') (hpc' : l'.pc = .xStoreLow unl lo hi)
    (P' : Plan s' lo hi) (N1 : NewOrOld s s' lo) (N2 : NewOrOld s s' hi)
    (elow : lowStored l.pc = false) (ehigh : highStored l.pc = false)
    (eL : holdsLock l'.pc = holdsLock l.pc) (eM : holdsMutex l'.pc = holdsMutex l.pc)
    (evL : validL l'.pc = validL l.pc) (evT : validT l'.pc = validT l.pc)
    (ewr : wr l'.pc = wr l.pc) (eloop : isLoop l.pc = false) (eR : holdsRead l'.pc = holdsRead l.pc)
    (eB : binRef l'.pc = binRef l.pc) : Eff s s' ∧ ∀ k, absOf s' k = absOf s k := by
  have I := X.inv
  have H := I.heap
  have L := I.lock
  have H' : HInv s' := E.hinv H
  have hnm' : s'.cell0 ≠ .moved := by rw [E.cell0]; exact X.notMoved
  have hcl : cidOf l = .c0 := xPc_cidOf X.xpc
  have hcl' : cidOf l' = .c0 := xPc_cidOf S.xpc
  obtain ⟨hlock, hsync⟩ := E.sync
  have hpend : pend s' l'.pc = [lo, hi] := by rw [hpc']; rfl
  have hNN : ∀ C ∈ pend s' l'.pc, NewOrOld s s' C := by
    intro C hC
    rw [hpend] at hC
    simp only [List.mem_cons, List.not_mem_nil, or_false] at hC
    rcases hC with rfl | rfl
    · exact N1
    · exact N2
  have hO : chainC s' s'.cell0 = chainC s s.cell0 := by
    rw [E.cell0]
    exact E.chainC_eq H.nextOK (H.cinv .c0).startOK (H.cellOK .c0)
  have hI' : Inv s' := by
    refine ⟨H', X.tinv S, ?_, ?_, X.dinv_ext S E⟩
    · refine X.xinv S (fun _ => hnm') (fun h => by rw [hpc'] at h; cases h) (fun _ _ => ?_) (fun _ _ => ?_)
        (by rw [hpc']; exact P')
      · rw [E.low]; exact X.lowEmpty elow
      · rw [E.high]; exact X.highEmpty ehigh
    · refine LInv.of_parts
        (lk_step L X.hl S.thr (lockfun_same L X.hl eL hlock) (fun h hp => Or.inl (eL ▸ hp)) ?_
          (fun id => Or.inl (E.cellAt_eq id)))
        (mx_step L X.hl S.thr (mutexfun_same L X.hl eM (fun b => (hsync b).1)) (fun b hp => Or.inl (eM ▸ hp)) ?_
          (fun id => Or.inl (E.cellAt_eq id)))
        (rw_gen L X.hl S.thr (fun id b hc => Or.inl ⟨id, by rw [E.cellAt_eq] at hc; exact hc⟩) E.blen
          (fun b => ⟨(hsync b).1, (hsync b).2.1, (hsync b).2.2.1⟩)
          (fun b _ => by rw [(hsync b).2.2.2, eR])
          (fun b hb _ => by rw [(hsync b).2.2.2, Flurry.Proto.BinK.binAt_ge hb]; rfl)
          (fun b hw => by rw [(hsync b).2.2.2]; exact L.wrd b hw)
          (fun b _ _ => ⟨ewr, fun h => by rw [eloop] at h; cases h⟩)
          (fun b hr => Or.inl (eB ▸ hr)) ?_)
      · intro h hv
        rw [evL] at hv
        have := L.vL t l h X.hl hv
        rw [hcl] at this
        rw [hcl', E.cellAt_eq]; exact this
      · intro b hv
        rw [evT] at hv
        have := L.vT t l b X.hl hv
        rw [hcl] at this
        rw [hcl', E.cellAt_eq]; exact this
      · rintro b hb ⟨⟨t1, l1, h1, hmem⟩, hne⟩
        exfalso
        rcases X.cases' S h1 with ⟨rfl, rfl⟩ | ⟨hne1, h1⟩
        · rcases (hNN _ hmem).2 b rfl with h | h
          · rw [E.cell0] at hne; exact hne h
          · omega
        · rw [X.pend_nil hne1 h1] at hmem; cases hmem
  have hLC : ∀ k, LC s' k = LC s k := by
    intro k
    rw [LC_c0 H' hnm', LC_c0 H X.notMoved, hO]
  have hLCl : ∀ k, ∀ j ∈ LC s k, j < s.heap.length := by
    intro k j hj
    rw [LC_c0 H X.notMoved] at hj
    exact (H.cinv .c0).chain_lt hj
  refine ⟨⟨hI', ?_, ?_, ?_, ?_, ?_⟩, ?_⟩
  · intro k
    refine KStep.of_same E.hlen (fun j hj => by rw [E.old hj]; exact ⟨rfl, rfl, rfl⟩) (hLC k) ?_ ?_
    · intro j hjl hu
      rcases hu with ⟨id, hj⟩ | hu | hu
      · rw [E.cellAt_eq, E.chainC_eq H.nextOK (H.cinv id).startOK (H.cellOK id)] at hj
        exact Or.inl ⟨id, hj⟩
      · obtain ⟨t1, l1, tab, k', h', b, h1, hpc, _⟩ := hu
        rcases X.cases' S h1 with ⟨rfl, rfl⟩ | ⟨hne1, h1⟩
        · have := S.xpc
          rw [hpc] at this; cases this
        · have := (X.others t1 l1 hne1 h1).2.1
          rw [hpc] at this; cases this
      · obtain ⟨t1, l1, C1, h1, hx1, hC1, hj, hj0⟩ := hu
        exfalso
        rcases X.cases' S h1 with ⟨rfl, rfl⟩ | ⟨hne1, h1⟩
        · rcases (hNN _ hC1).1 j hj with h | h
          · rw [hO] at hj0; exact hj0 h
          · omega
        · rw [(X.others t1 l1 hne1 h1).1] at hx1; cases hx1
    · rintro c ⟨hm, -⟩
      exact absurd hm X.notMoved
  · intro b hb hne
    rw [E.bold hb] at hne; exact absurd rfl hne
  · intro b k hb hne
    unfold absTree at hne
    rw [treeFind_ext E hb] at hne
    cases hf : treeFind s b k with
    | none => rw [hf] at hne; exact absurd rfl hne
    | some i =>
      rw [hf] at hne
      have hil : i < s.heap.length := by
        rw [treeFind_def] at hf
        exact List.mem_range.1 (List.mem_of_find?_eq_some hf)
      simp only [E.old hil] at hne
      exact absurd rfl hne
  · intro b k hc
    left
    rw [liveId_c0 hnm', E.cellAt_eq]
    rw [liveId_c0 X.notMoved] at hc
    exact hc
  · intro b hb hnc _
    refine ⟨?_, fun h => by rw [E.bold hb]; exact h⟩
    rintro ⟨id, hcb⟩
    rw [E.cellAt_eq] at hcb
    exact hnc ⟨id, hcb⟩
  · intro k
    rw [BinG.absOf_eq, BinG.absOf_eq, hLC k]
    exact absL_old E (hLCl k) k

theorem xbuild_facts {s : State} {t : Nat} {l : Local} {h : Nat} (I : Inv s)
    (hl : s.threads[t]? = some l) (hc : l.call = none) (hpc : l.pc = .xBuild h) :
    let s' := setT (qst s (xsplitOf s h).1 s.tbins) t
      { l with pc := .xStoreLow (.inl h) (xsplitOf s h).2.1 (xsplitOf s h).2.2 }
    Eff s s' ∧ ∀ k, absOf s' k = absOf s k := by
  intro s'
  have hx : xPc l.pc = true := by rw [hpc]; rfl
  have X : XCtx s t l := xctx_of I hl hc hx (I.rsz.pre t l hl (by rw [hpc]; rfl))
    (Or.inl ⟨by rw [hpc]; rfl, xPc_cidOf hx⟩)
  have S : TStep s s' t { l with pc := .xStoreLow (.inl h) (xsplitOf s h).2.1 (xsplitOf s h).2.2 } :=
    ⟨rfl, rfl, rfl, rfl, hc, rfl⟩
  obtain ⟨-, P', -, -, E, N1, N2⟩ := xbuild_plan_ext I hl hpc
  exact xgrow_facts X S E rfl P' N1 N2 (by rw [hpc]; rfl) (by rw [hpc]; rfl) (by rw [hpc]; rfl) (by rw [hpc]; rfl)
    (by rw [hpc]; rfl) (by rw [hpc]; rfl) (by rw [hpc]; rfl) (by rw [hpc]; rfl) (by rw [hpc]; rfl) (by rw [hpc]; rfl)

theorem ybuild_facts {s : State} {t : Nat} {l : Local} {b : Nat} (small small2 : Bool) (I : Inv s)
    (hl : s.threads[t]? = some l) (hc : l.call = none) (hpc : l.pc = .yBuild b) :
    let r := ysplitOf (tick s) b small small2
    let s' := setT r.1 t { l with pc := .xStoreLow (.inr b) r.2.1 r.2.2 }
    Eff s s' ∧ ∀ k, absOf s' k = absOf s k := by
  intro r s'
  have hx : xPc l.pc = true := by rw [hpc]; rfl
  have X : XCtx s t l := xctx_of I hl hc hx (I.rsz.pre t l hl (by rw [hpc]; rfl))
    (Or.inl ⟨by rw [hpc]; rfl, xPc_cidOf hx⟩)
  obtain ⟨-, P', -, -, -, -, -, -, -, hfr, E, N1, N2⟩ := ybuild_plan_ext small small2 I hl hpc
  have e1 : s'.threads = (setT (qst s s'.heap s'.tbins) t { l with pc := .xStoreLow (.inr b) r.2.1 r.2.2 }).threads :=
    congrArg State.threads hfr
  have e2 : s'.now = (setT (qst s s'.heap s'.tbins) t { l with pc := .xStoreLow (.inr b) r.2.1 r.2.2 }).now :=
    congrArg State.now hfr
  have e3 : s'.hist = (setT (qst s s'.heap s'.tbins) t { l with pc := .xStoreLow (.inr b) r.2.1 r.2.2 }).hist :=
    congrArg State.hist hfr
  have e4 : s'.resizing = (setT (qst s s'.heap s'.tbins) t { l with pc := .xStoreLow (.inr b) r.2.1 r.2.2 }).resizing :=
    congrArg State.resizing hfr
  have S : TStep s s' t { l with pc := .xStoreLow (.inr b) r.2.1 r.2.2 } := ⟨e1, e2, e3, e4, hc, rfl⟩
  exact xgrow_facts X S E rfl P' N1 N2 (by rw [hpc]; rfl) (by rw [hpc]; rfl) (by rw [hpc]; rfl) (by rw [hpc]; rfl)
    (by rw [hpc]; rfl) (by rw [hpc]; rfl) (by rw [hpc]; rfl) (by rw [hpc]; rfl) (by rw [hpc]; rfl) (by rw [hpc]; rfl)

end Flurry.Proto.BinG
