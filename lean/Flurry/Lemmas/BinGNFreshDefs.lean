import Flurry.Lemmas.BinGNNext
/-! # Proto/BinGN: fresh planned `TreeBin`s are in no cell and belong to one thread

`FreshInv s`: a `TreeBin` that a thread has built and not yet stored — the private bin of a treeify at `kStore`, a
planned child of a transfer at `xStoreLow` / `xStoreHigh` other than the re-used bin — is in no cell, is planned by
no other thread, and the two planned children of a transfer are not the same `TreeBin`. (Needed for `refOK`: a
`TreeBin` loaded from a cell is not an unpublished one — also when it is empty.) -/
namespace Flurry.Proto.BinGN
open Flurry.Lin

def binsOf : Cell → List Nat
  | .tree b => [b]
  | _ => []

/-- the `TreeBin`s a thread has built and not yet stored, but for the re-used one -/
def freshB : Pc → List Nat
  | .kStore _ _ _ b => [b]
  | .xStoreLow _ unl lo hi => (binsOf lo ++ binsOf hi).filter (fun b => decide (unl ≠ .inr b))
  | .xStoreHigh _ unl hi => (binsOf hi).filter (fun b => decide (unl ≠ .inr b))
  | _ => []

/-- the two planned children are not the same `TreeBin` -/
def planDistinct : Pc → Prop
  | .xStoreLow _ _ lo hi => ∀ b, lo = .tree b → hi ≠ .tree b
  | _ => True

structure FreshInv (s : State) : Prop where
  noCell : ∀ (t : Nat) (l : Local) (b : Nat), s.threads[t]? = some l → b ∈ freshB l.pc → ∀ g j, cellAt s g j ≠ .tree b
  uniq : ∀ (t t' : Nat) (l l' : Local) (b : Nat), s.threads[t]? = some l → s.threads[t']? = some l' →
    b ∈ freshB l.pc → b ∈ freshB l'.pc → t = t'
  dist : ∀ (t : Nat) (l : Local), s.threads[t]? = some l → planDistinct l.pc

/-- the generic preservation lemma: `hcell` describes the `TreeBin`s in the cells of `s'`; `hfresh` the fresh
bins of the acting thread -/
theorem freshInv_frame {s s' : State} {t : Nat} {l l' : Local} (F : FreshInv s) (hl : s.threads[t]? = some l)
    (hthr : s'.threads = s.threads.set t l')
    (hcell : ∀ g j b, cellAt s' g j = .tree b → (∃ g' j', cellAt s g' j' = .tree b) ∨ b ∈ freshB l.pc)
    (hfresh : ∀ b, b ∈ freshB l'.pc →
      (b ∈ freshB l.pc ∧ ∀ g j, cellAt s' g j = .tree b → ∃ g' j', cellAt s g' j' = .tree b) ∨ (s.tbins.length ≤ b))
    (hbins : ∀ g j b, cellAt s g j = .tree b → b < s.tbins.length)
    (hplan : ∀ (t1 : Nat) (l1 : Local) (b : Nat), s.threads[t1]? = some l1 → b ∈ freshB l1.pc → b < s.tbins.length)
    (hdist : planDistinct l'.pc) : FreshInv s' := by
  have hget : ∀ (t1 : Nat) (l1 : Local), s'.threads[t1]? = some l1 →
      (t1 = t ∧ l1 = l') ∨ (t1 ≠ t ∧ s.threads[t1]? = some l1) := fun t1 l1 h => by rw [hthr] at h; exact get_set h
  refine ⟨?_, ?_, ?_⟩
  · intro t1 l1 b h1 hb g j hc
    rcases hget t1 l1 h1 with ⟨rfl, rfl⟩ | ⟨n1, h0⟩
    · rcases hfresh b hb with ⟨hb0, hk⟩ | hge
      · obtain ⟨g', j', h'⟩ := hk g j hc
        exact F.noCell t1 l b hl hb0 g' j' h'
      · rcases hcell g j b hc with ⟨g', j', h⟩ | h
        · exact absurd (hbins g' j' b h) (by omega)
        · exact absurd (hplan t1 l b hl h) (by omega)
    · rcases hcell g j b hc with ⟨g', j', h⟩ | h
      · exact F.noCell t1 l1 b h0 hb g' j' h
      · exact n1 (F.uniq t1 t l1 l b h0 hl hb h)
  · intro t1 t2 l1 l2 b h1 h2 hb1 hb2
    rcases hget t1 l1 h1 with ⟨rfl, rfl⟩ | ⟨n1, h01⟩ <;> rcases hget t2 l2 h2 with ⟨e2, rfl⟩ | ⟨n2, h02⟩
    · exact e2.symm
    · rcases hfresh b hb1 with ⟨hb0, -⟩ | hge
      · exact F.uniq _ _ _ _ b hl h02 hb0 hb2
      · exact absurd (hplan t2 l2 b h02 hb2) (by omega)
    · subst e2
      rcases hfresh b hb2 with ⟨hb0, -⟩ | hge
      · exact F.uniq _ _ _ _ b h01 hl hb1 hb0
      · exact absurd (hplan t1 l1 b h01 hb1) (by omega)
    · exact F.uniq _ _ _ _ b h01 h02 hb1 hb2
  · intro t1 l1 h1
    rcases hget t1 l1 h1 with ⟨rfl, rfl⟩ | ⟨n1, h0⟩
    · exact hdist
    · exact F.dist t1 l1 h0

theorem mem_binsOf {b : Nat} {c : Cell} : b ∈ binsOf c ↔ c = .tree b := by
  cases c <;> simp [binsOf]
  exact eq_comm

theorem fresh_lt {s : State} (I : GenInv s) :
    ∀ (t1 : Nat) (l1 : Local) (b : Nat), s.threads[t1]? = some l1 → b ∈ freshB l1.pc → b < s.tbins.length := by
  intro t1 l1 b h1 hb
  have T := I.thr t1 l1 h1
  obtain ⟨pc, call⟩ := l1
  cases pc <;> simp only [freshB, List.not_mem_nil, List.mem_filter, List.mem_append, List.mem_singleton, mem_binsOf] at hb
  case kStore g k h b' =>
    subst hb
    exact (T.plan (.tree b) (by simp [desc, descPc])).2 b rfl
  case xStoreLow j unl lo hi =>
    obtain ⟨hb, -⟩ := hb
    rcases hb with rfl | rfl
    · exact (T.plan (.tree b) (by simp [desc, descPc])).2 b rfl
    · exact (T.plan (.tree b) (by simp [desc, descPc])).2 b rfl
  case xStoreHigh j unl hi =>
    obtain ⟨rfl, -⟩ := hb
    exact (T.plan (.tree b) (by simp [desc, descPc])).2 b rfl

/-- a transition that changes no cell; the acting thread keeps or drops its fresh bins -/
theorem freshInv_same {s s' : State} {t : Nat} {l l' : Local} (F : FreshInv s) (I : GenInv s)
    (hl : s.threads[t]? = some l) (hthr : s'.threads = s.threads.set t l') (htabs : s'.tabs = s.tabs)
    (hfresh : ∀ b, b ∈ freshB l'.pc → b ∈ freshB l.pc) (hdist : planDistinct l'.pc) : FreshInv s' := by
  have hc : ∀ g j, cellAt s' g j = cellAt s g j := fun g j => by rw [cellAt_eq, cellAt_eq, htabs]
  exact freshInv_frame F hl hthr (fun g j b h => Or.inl ⟨g, j, by rw [hc] at h; exact h⟩)
    (fun b hb => Or.inl ⟨hfresh b hb, fun g j h => ⟨g, j, by rw [hc] at h; exact h⟩⟩) I.bins (fresh_lt I) hdist

/-- a store of `c` into a cell: if `c` holds a `TreeBin`, it is a fresh bin of the acting thread (which it gives
up) or a bin that is already in some cell -/
theorem freshInv_put {s s' : State} {t : Nat} {l l' : Local} {g0 j0 : Nat} {c : Cell} (F : FreshInv s) (I : GenInv s)
    (hl : s.threads[t]? = some l) (hthr : s'.threads = s.threads.set t l')
    (htabs : s'.tabs = s.tabs.modify g0 (fun row => row.set j0 c))
    (hc : ∀ b, c = .tree b → b ∈ freshB l.pc ∨ ∃ g j, cellAt s g j = .tree b)
    (hfresh : ∀ b, b ∈ freshB l'.pc → b ∈ freshB l.pc ∧ c ≠ .tree b) (hdist : planDistinct l'.pc) : FreshInv s' := by
  have hne : ∀ g j, ¬ (g = g0 ∧ j = j0) → cellAt s' g j = cellAt s g j := by
    intro g j h; rw [cellAt_eq, cellAt_eq, htabs]; exact cellT_put_ne _ _ h
  have hself : cellAt s' g0 j0 = c ∨ cellAt s' g0 j0 = cellAt s g0 j0 := by
    rw [cellAt_eq, cellAt_eq, htabs]; exact cellT_put_self _ _ _ _
  have hback : ∀ g j b, cellAt s' g j = .tree b → (∃ g' j', cellAt s g' j' = .tree b) ∨ c = .tree b := by
    intro g j b h
    by_cases e : g = g0 ∧ j = j0
    · obtain ⟨rfl, rfl⟩ := e
      rcases hself with e1 | e1
      · rw [e1] at h; exact Or.inr h
      · rw [e1] at h; exact Or.inl ⟨_, _, h⟩
    · rw [hne g j e] at h; exact Or.inl ⟨_, _, h⟩
  refine freshInv_frame F hl hthr ?_ ?_ I.bins (fresh_lt I) hdist
  · intro g j b h
    rcases hback g j b h with h1 | h1
    · exact Or.inl h1
    · rcases hc b h1 with h2 | h2
      · exact Or.inr h2
      · exact Or.inl h2
  · intro b hb
    obtain ⟨hb0, hcb⟩ := hfresh b hb
    refine Or.inl ⟨hb0, ?_⟩
    intro g j h
    rcases hback g j b h with h1 | h1
    · exact h1
    · exact absurd h1 hcb

end Flurry.Proto.BinGN
