import Flurry.Lemmas.BinXCMem
/-! # Proto/BinXC: the thread-level invariants are preserved (C01, C04)

Generic preservation lemmas for `TInv` (times and operations), `PInv` (program counters vs. phase),
`LInv` (locks) and `WInv` (walks), parameterised by the memory effect `MemStep` of the transition and
by the obligations of the stepping thread itself. -/
namespace Flurry.Proto.BinXC
open Flurry.Lin
open Flurry.Proto.BinX (Ghost Phase CellId CR Active MemStep get_set get_set_self get_set_ne)

/-! ## `TInv` -/

/-- a transition that keeps the pending call of the thread -/
theorem tinv_keep {s s' : State} {t : Nat} {l l' : Local} (T : TInv s)
    (hl : s.threads[t]? = some l) (hthr : s'.threads = s.threads.set t l') (hnow : s'.now = s.now + 1)
    (hhist : s'.hist = s.hist) (hcall : l'.call = l.call)
    (hpc : ∀ p, l.call = some p → PcOp l'.pc p.op) (hop : isOp l'.pc ↔ isOp l.pc) : TInv s' := by
  have key : ∀ (t1 : Nat) (l1 : Local) (p1 : Pending), s'.threads[t1]? = some l1 → l1.call = some p1 →
      ∃ l0, s.threads[t1]? = some l0 ∧ l0.call = some p1 ∧ (PcOp l0.pc p1.op → PcOp l1.pc p1.op) := by
    intro t1 l1 p1 h1 hc1
    rw [hthr] at h1
    rcases get_set h1 with ⟨rfl, rfl⟩ | ⟨_, h1⟩
    · exact ⟨l, hl, hcall ▸ hc1, fun _ => hpc p1 (hcall ▸ hc1)⟩
    · exact ⟨l1, h1, hc1, id⟩
  refine ⟨?_, ?_, ?_, ?_, ?_, ?_, ?_⟩
  · intro t1 l1 p1 h1 hc1
    obtain ⟨l0, h0, hc0, himp⟩ := key t1 l1 p1 h1 hc1
    exact himp (T.opOK t1 l0 p1 h0 hc0)
  · intro t1 l1 h1
    rw [hthr] at h1
    rcases get_set h1 with ⟨rfl, rfl⟩ | ⟨_, h1⟩
    · rw [hop, hcall]; exact T.callOK _ l hl
    · exact T.callOK t1 l1 h1
  · intro x hx
    rw [hhist] at hx
    have := T.histTime x hx
    omega
  · intro t1 l1 p1 h1 hc1
    obtain ⟨l0, h0, hc0, -⟩ := key t1 l1 p1 h1 hc1
    have := T.pendTime t1 l0 p1 h0 hc0
    omega
  · intro x hx t1 l1 p1 h1 hc1
    rw [hhist] at hx
    obtain ⟨l0, h0, hc0, -⟩ := key t1 l1 p1 h1 hc1
    exact T.uniqHP x hx t1 l0 p1 h0 hc0
  · intro t1 t2 l1 l2 p1 p2 h1 h2 hc1 hc2 he
    obtain ⟨l01, h01, hc01, -⟩ := key t1 l1 p1 h1 hc1
    obtain ⟨l02, h02, hc02, -⟩ := key t2 l2 p2 h2 hc2
    exact T.uniqPP t1 t2 l01 l02 p1 p2 h01 h02 hc01 hc02 he
  · rw [hhist]; exact T.uniqHH

/-- an invocation -/
theorem tinv_invoke {s s' : State} {t : Nat} {l l' : Local} {k : Nat} {op : KOp} (T : TInv s)
    (hl : s.threads[t]? = some l) (hthr : s'.threads = s.threads.set t l') (hnow : s'.now = s.now + 1)
    (hhist : s'.hist = s.hist) (hcall : l'.call = some ⟨k, op, s.now + 1⟩)
    (hpc : PcOp l'.pc op) (hop : isOp l'.pc) : TInv s' := by
  have key : ∀ (t1 : Nat) (l1 : Local) (p1 : Pending), s'.threads[t1]? = some l1 → l1.call = some p1 →
      (t1 = t ∧ l1 = l' ∧ p1 = ⟨k, op, s.now + 1⟩) ∨ (t1 ≠ t ∧ s.threads[t1]? = some l1) := by
    intro t1 l1 p1 h1 hc1
    rw [hthr] at h1
    rcases get_set h1 with ⟨rfl, rfl⟩ | ⟨hne, h1⟩
    · rw [hcall] at hc1; cases hc1
      exact Or.inl ⟨rfl, rfl, rfl⟩
    · exact Or.inr ⟨hne, h1⟩
  refine ⟨?_, ?_, ?_, ?_, ?_, ?_, ?_⟩
  · intro t1 l1 p1 h1 hc1
    rcases key t1 l1 p1 h1 hc1 with ⟨rfl, rfl, rfl⟩ | ⟨_, h0⟩
    · exact hpc
    · exact T.opOK t1 l1 p1 h0 hc1
  · intro t1 l1 h1
    rw [hthr] at h1
    rcases get_set h1 with ⟨rfl, rfl⟩ | ⟨_, h1⟩
    · rw [hcall]; exact ⟨fun _ => rfl, fun _ => hop⟩
    · exact T.callOK t1 l1 h1
  · intro x hx
    rw [hhist] at hx
    have := T.histTime x hx
    omega
  · intro t1 l1 p1 h1 hc1
    rcases key t1 l1 p1 h1 hc1 with ⟨rfl, rfl, rfl⟩ | ⟨_, h0⟩
    · simp only; omega
    · have := T.pendTime t1 l1 p1 h0 hc1
      omega
  · intro x hx t1 l1 p1 h1 hc1
    rw [hhist] at hx
    rcases key t1 l1 p1 h1 hc1 with ⟨rfl, rfl, rfl⟩ | ⟨_, h0⟩
    · have := T.histTime x hx
      simp only; omega
    · exact T.uniqHP x hx t1 l1 p1 h0 hc1
  · intro t1 t2 l1 l2 p1 p2 h1 h2 hc1 hc2 he
    rcases key t1 l1 p1 h1 hc1 with ⟨rfl, rfl, rfl⟩ | ⟨hne1, h01⟩ <;>
      rcases key t2 l2 p2 h2 hc2 with ⟨rfl, rfl, rfl⟩ | ⟨hne2, h02⟩
    · rfl
    · have := T.pendTime t2 l2 p2 h02 hc2
      simp only at he; omega
    · have := T.pendTime t1 l1 p1 h01 hc1
      simp only at he; omega
    · exact T.uniqPP t1 t2 l1 l2 p1 p2 h01 h02 hc1 hc2 he
  · rw [hhist]; exact T.uniqHH

/-- a call completes -/
theorem tinv_finish {s s' : State} {t : Nat} {l l' : Local} {p : Pending} {res : KRes} {ko : Option Nat} {op : KOp}
    (T : TInv s)
    (hl : s.threads[t]? = some l) (hp : l.call = some p)
    (hthr : s'.threads = s.threads.set t l') (hnow : s'.now = s.now + 1)
    (hhist : s'.hist = (ko, ⟨t, op, res, p.inv, s.now + 1⟩) :: s.hist) (hcall : l'.call = none)
    (hop : ¬ isOp l'.pc) : TInv s' := by
  have key : ∀ (t1 : Nat) (l1 : Local) (p1 : Pending), s'.threads[t1]? = some l1 → l1.call = some p1 →
      t1 ≠ t ∧ s.threads[t1]? = some l1 := by
    intro t1 l1 p1 h1 hc1
    rw [hthr] at h1
    rcases get_set h1 with ⟨rfl, rfl⟩ | ⟨hne, h1⟩
    · rw [hcall] at hc1; cases hc1
    · exact ⟨hne, h1⟩
  have hpi := T.pendTime t l p hl hp
  refine ⟨?_, ?_, ?_, ?_, ?_, ?_, ?_⟩
  · intro t1 l1 p1 h1 hc1
    exact T.opOK t1 l1 p1 (key t1 l1 p1 h1 hc1).2 hc1
  · intro t1 l1 h1
    rw [hthr] at h1
    rcases get_set h1 with ⟨rfl, rfl⟩ | ⟨_, h1⟩
    · rw [hcall]; exact ⟨fun h => absurd h hop, fun h => by cases h⟩
    · exact T.callOK t1 l1 h1
  · intro x hx
    rw [hhist] at hx
    rcases List.mem_cons.1 hx with rfl | hx
    · simp only; omega
    · have := T.histTime x hx
      omega
  · intro t1 l1 p1 h1 hc1
    have := T.pendTime t1 l1 p1 (key t1 l1 p1 h1 hc1).2 hc1
    omega
  · intro x hx t1 l1 p1 h1 hc1
    obtain ⟨hne, h0⟩ := key t1 l1 p1 h1 hc1
    rw [hhist] at hx
    rcases List.mem_cons.1 hx with rfl | hx
    · simp only
      intro he
      exact hne (T.uniqPP t1 t l1 l p1 p h0 hl hc1 hp he.symm)
    · exact T.uniqHP x hx t1 l1 p1 h0 hc1
  · intro t1 t2 l1 l2 p1 p2 h1 h2 hc1 hc2 he
    exact T.uniqPP t1 t2 l1 l2 p1 p2 (key t1 l1 p1 h1 hc1).2 (key t2 l2 p2 h2 hc2).2 hc1 hc2 he
  · rw [hhist]
    refine List.pairwise_cons.2 ⟨?_, T.uniqHH⟩
    intro y hy
    simp only
    exact fun he => T.uniqHP y hy t l p hl hp he.symm

/-! ## `PInv` -/

theorem PcPh.of_not_isT {s s' : BinX.State} {g g' : Ghost} {pc : Pc} (hT : ¬ isT pc) (h : PcPh s g pc)
    (hmono : g.ph = .post → g'.ph = .post) : PcPh s' g' pc := by
  cases pc <;> first | exact absurd trivial hT | exact fun ht => hmono (h ht)

theorem PcPh.of_isT {s s' : BinX.State} {g : Ghost} {pc : Pc} (h : PcPh s g pc)
    (hcells : ∀ lo hg, g.ph = .mid lo hg → s'.lowCell = s.lowCell ∧ s'.highCell = s.highCell) (hT : isT pc) :
    PcPh s' g pc := by
  cases pc <;> first | exact False.elim hT | exact h | skip
  · obtain ⟨h1, h2, h3⟩ := h
    obtain ⟨e1, e2⟩ := hcells _ _ h1
    exact ⟨h1, by rw [e1]; exact h2, by rw [e2]; exact h3⟩
  · obtain ⟨lo, h1, h2, h3⟩ := h
    obtain ⟨e1, e2⟩ := hcells _ _ h1
    exact ⟨lo, h1, by rw [e1]; exact h2, by rw [e2]; exact h3⟩
  · obtain ⟨lo, hg, h1, h2, h3⟩ := h
    obtain ⟨e1, e2⟩ := hcells _ _ h1
    exact ⟨lo, hg, h1, by rw [e1]; exact h2, by rw [e2]; exact h3⟩

/-- memory effects of threads other than the resizing one do not change the ghost state, nor the
new cells before the forwarding -/
def WStep (s s' : BinX.State) (g g' : Ghost) : Prop :=
  g' = g ∧ ∀ lo hg, g.ph = .mid lo hg → s'.lowCell = s.lowCell ∧ s'.highCell = s.highCell

theorem WStep.of_same {s s' : BinX.State} {g : Ghost} (hL : s'.lowCell = s.lowCell) (hH : s'.highCell = s.highCell) :
    WStep s s' g g := ⟨rfl, fun _ _ _ => ⟨hL, hH⟩⟩

theorem WStep.of_active {s s' : BinX.State} {g : Ghost} {id : CellId} (act : Active g id) : WStep s s' g g :=
  ⟨rfl, fun lo hg hp => absurd hp (act.ne_mid lo hg)⟩

theorem pinv_step {s s' : State} {g g' : Ghost} {t : Nat} {l l' : Local} (I : Inv s g)
    (hl : s.threads[t]? = some l) (m : MemStep (mem s) (mem s') (vcell l) g g')
    (hthr : s'.threads = s.threads.set t l')
    (hres : s'.resizing = s.resizing ∨ (s'.resizing = true ∧ s.resizing = false))
    (hlT : isT l.pc ∨ WStep (mem s) (mem s') g g')
    (hself : PcPh (mem s') g' l'.pc)
    (hT : isT l'.pc → isT l.pc ∨ s.resizing = false)
    (hresz : isT l'.pc → s'.resizing = true)
    (hmid : ∀ lo hg, g'.ph = .mid lo hg → (isMidPc l.pc ∨ g.ph ≠ g'.ph) → isMidPc l'.pc) : PInv s' g' := by
  have P := I.ph
  refine ⟨?_, ?_, ?_, ?_, ?_⟩
  · intro t1 l1 h1
    rw [hthr] at h1
    rcases get_set h1 with ⟨rfl, rfl⟩ | ⟨hne, h1⟩
    · exact hself
    · have hold := P.pcPh t1 l1 h1
      by_cases hT1 : isT l1.pc
      · rcases hlT with hlT | hlT
        · exact absurd (P.uniqT t1 t l1 l h1 hl hT1 hlT) hne
        · obtain ⟨rfl, hcells⟩ := hlT
          exact hold.of_isT hcells hT1
      · exact hold.of_not_isT hT1 m.post_mono
  · intro t1 t2 l1 l2 h1 h2 hT1 hT2
    rw [hthr] at h1 h2
    rcases get_set h1 with ⟨e1, e1'⟩ | ⟨hne1, h1'⟩ <;> rcases get_set h2 with ⟨e2, e2'⟩ | ⟨hne2, h2'⟩
    · rw [e1, e2]
    · subst e1 e1'
      rcases hT hT1 with h | h
      · exact P.uniqT _ _ _ _ hl h2' h hT2
      · have := P.resz t2 l2 h2' hT2
        rw [h] at this; cases this
    · subst e2 e2'
      rcases hT hT2 with h | h
      · exact P.uniqT _ _ _ _ h1' hl hT1 h
      · have := P.resz t1 l1 h1' hT1
        rw [h] at this; cases this
    · exact P.uniqT _ _ _ _ h1' h2' hT1 hT2
  · intro t1 l1 h1 hT1
    rw [hthr] at h1
    rcases get_set h1 with ⟨rfl, rfl⟩ | ⟨hne, h1⟩
    · exact hresz hT1
    · have := P.resz t1 l1 h1 hT1
      rcases hres with h | h
      · rw [h]; exact this
      · exact h.1
  · intro hr
    have hr0 : s.resizing = false := by
      rcases hres with h | h
      · rw [← h]; exact hr
      · rw [h.1] at hr; cases hr
    rcases hlT with hlT | hlT
    · have := P.resz t l hl hlT
      rw [hr0] at this; cases this
    · obtain ⟨rfl, -⟩ := hlT
      exact P.noResz hr0
  · intro lo hg hp
    by_cases hgg : g.ph = g'.ph
    · obtain ⟨t1, l1, h1, hm1⟩ := P.midHas lo hg (by rw [hgg]; exact hp)
      by_cases ht : t1 = t
      · subst ht
        rw [hl] at h1; cases h1
        exact ⟨t1, l', by rw [hthr]; exact get_set_self hl, hmid lo hg hp (Or.inl hm1)⟩
      · exact ⟨t1, l1, by rw [hthr, get_set_ne ht]; exact h1, hm1⟩
    · exact ⟨t, l', by rw [hthr]; exact get_set_self hl, hmid lo hg hp (Or.inr hgg)⟩

/-! ## `LInv` -/

theorem linv_step {s s' : State} {g g' : Ghost} {t : Nat} {l l' : Local} (I : Inv s g)
    (hl : s.threads[t]? = some l) (m : MemStep (mem s) (mem s') (vcell l) g g')
    (hthr : s'.threads = s.threads.set t l')
    (hlock : ∀ (t1 : Nat) (l1 : Local) (h1 : Nat), t1 ≠ t → s.threads[t1]? = some l1 → Holds l1.pc h1 →
      (BinX.nodeAt (mem s').heap h1).lock = (BinX.nodeAt (mem s).heap h1).lock)
    (hselfH : ∀ h, Holds l'.pc h → h < (mem s').heap.length ∧ (BinX.nodeAt (mem s').heap h).lock = some t)
    (hselfV : ∀ id h, vcell l' = some (id, h) → BinX.getCell (mem s') id = .node h ∧ Holds l'.pc h) : LInv s' := by
  have L := I.lock
  have hlen := m.len_le I.heap
  refine ⟨?_, ?_⟩
  · intro t1 l1 h1 hl1 hh
    rw [hthr] at hl1
    rcases get_set hl1 with ⟨rfl, rfl⟩ | ⟨hne, hl1⟩
    · exact hselfH h1 hh
    · obtain ⟨h2, h3⟩ := L.lockHeld t1 l1 h1 hl1 hh
      exact ⟨by omega, by rw [hlock t1 l1 h1 hne hl1 hh]; exact h3⟩
  · intro t1 l1 id h1 hl1 hv
    rw [hthr] at hl1
    rcases get_set hl1 with ⟨rfl, rfl⟩ | ⟨hne, hl1⟩
    · exact hselfV id h1 hv
    · obtain ⟨h2, h3⟩ := L.validated t1 l1 id h1 hl1 hv
      obtain ⟨hc, -, -⟩ := I.frame hl m hne hl1 hv
      exact ⟨by rw [hc]; exact h2, h3⟩

/-! ## `WInv` -/

theorem WalkOK.congr {s s' : BinX.State} {p : Pending} {pc : Pc} (w : WalkOK s p pc)
    (hf : ∀ tab, tabOf pc = some tab → BinX.cellOf s' (cT tab) p.key = BinX.cellOf s (cT tab) p.key ∧
      BinX.chainH s'.heap (BinX.cellOf s (cT tab) p.key) = BinX.chainH s.heap (BinX.cellOf s (cT tab) p.key) ∧
      ∀ j ∈ BinX.chainH s.heap (BinX.cellOf s (cT tab) p.key), (BinX.nodeAt s'.heap j).key = (BinX.nodeAt s.heap j).key ∧
        (BinX.nodeAt s'.heap j).next = (BinX.nodeAt s.heap j).next) : WalkOK s' p pc := by
  cases pc with
  | wFind tab h pred cur =>
    obtain ⟨h1, h2, h3⟩ := hf tab rfl
    show BinX.Walk s'.heap (BinX.chainH s'.heap (BinX.cellOf s' (cT tab) p.key)) p.key pred cur
    rw [h1, h2]
    exact BinX.Walk.congr w (fun j hj => (h3 j hj).1)
  | wStore tab h pred hit hnext =>
    obtain ⟨h1, h2, h3⟩ := hf tab rfl
    obtain ⟨w1, w2⟩ := w
    refine ⟨?_, ?_⟩
    · show BinX.Walk s'.heap (BinX.chainH s'.heap (BinX.cellOf s' (cT tab) p.key)) p.key pred hit
      rw [h1, h2]
      exact BinX.Walk.congr w1 (fun j hj => (h3 j hj).1)
    · intro i hi
      subst hi
      obtain ⟨e1, e2⟩ := h3 i w1.cur_mem
      rw [e1, e2]; exact w2 i rfl
  | _ => trivial

theorem winv_step {s s' : State} {g g' : Ghost} {t : Nat} {l l' : Local} (I : Inv s g)
    (hl : s.threads[t]? = some l) (m : MemStep (mem s) (mem s') (vcell l) g g')
    (hthr : s'.threads = s.threads.set t l')
    (hself : ∀ p, l'.call = some p → WalkOK (mem s') p l'.pc) : WInv s' := by
  refine ⟨?_⟩
  intro t1 l1 p1 hl1 hc1
  rw [hthr] at hl1
  rcases get_set hl1 with ⟨rfl, rfl⟩ | ⟨hne, hl1⟩
  · exact hself p1 hc1
  · have hold := I.walk.walk t1 l1 p1 hl1 hc1
    obtain ⟨pc1, call1⟩ := l1
    simp only at hc1 hold
    subst hc1
    cases pc1 with
    | wFind tab h pred cur =>
      obtain ⟨e1, e2, e3⟩ := I.frame hl m hne hl1 (vcell_wFind (l := ⟨.wFind tab h pred cur, some p1⟩) rfl rfl)
      refine hold.congr ?_
      intro tab' htab
      cases htab
      rw [BinX.cellOf_eq, BinX.cellOf_eq, e1]
      unfold BinX.chId at e2 e3
      rw [e1] at e2
      exact ⟨rfl, e2, e3⟩
    | wStore tab h pred hit hnext =>
      obtain ⟨e1, e2, e3⟩ := I.frame hl m hne hl1 (vcell_wStore (l := ⟨.wStore tab h pred hit hnext, some p1⟩) rfl rfl)
      refine hold.congr ?_
      intro tab' htab
      cases htab
      rw [BinX.cellOf_eq, BinX.cellOf_eq, e1]
      unfold BinX.chId at e2 e3
      rw [e1] at e2
      exact ⟨rfl, e2, e3⟩
    | _ => trivial

end Flurry.Proto.BinXC
