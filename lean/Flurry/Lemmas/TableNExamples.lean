import Flurry.Lemmas.TableN
/-! # Proto/TableN: non-vacuity — a concrete reachable quiescent table, one lineage resized TWICE, the other once

Two lineages (`m = 2`: key `k` in lineage `k % 2` under the local name `k / 2`, so keys 0, 2, 4, 6 are
the local keys 0, 1, 2, 3 of lineage 0 and keys 1, 3, 5, 7 those of lineage 1), two threads, 114
transitions on one clock.

* **before**: thread 0 inserts keys 0 and 2 (lineage 0: CAS into the empty cell, then an append under
  the head lock) while thread 1 inserts keys 1 and 3 (lineage 1);
* **lineage 0 is resized by thread 0** (generation 0 → 1; the one cell is split: node 1 — the last run —
  is re-used, node 0 is copied); thread 1's `get(2)` is invoked after the resize started, loads
  generation 0 and the old cell, stands on node 0 of the old list while the low cell, the high cell and
  the forwarding marker are stored (`example_during`), walks on in the old list and returns after the
  commit of thread 0;
* **lineage 1 is resized by thread 1** (0 → 1) — thread 0's `insert(3)` is invoked when lineage 0 is at
  generation 1 and lineage 1 still at generation 0 (`example_between`), and completes in generation 0 of
  lineage 1 before thread 1 takes the head lock;
* **lineage 0 is resized AGAIN, by thread 1** (1 → 2, cell 1 first, then cell 0) — thread 0's `insert(4)`
  (local key 2: cell `(1,0)`, after the split cell `(2,2)`) is invoked during this resize, finds node 2 at
  the head of cell `(1,0)`, waits for the lock that the resizing thread holds, gets it after the
  forwarding marker is stored, fails its re-check, unlocks, looks at the cell again, follows the marker
  into generation 2 and CASes into the empty cell `(2,2)` after the commit (`example_second_resize`);
* **after**: `get(2)` (lineage 0, generation 2), `remove(1)` (lineage 1, generation 1), `insert(6)`
  (lineage 0, cell `(2,3)`, a new key in the newest table), `get(3)` (lineage 1).

The final state is reachable and quiescent; lineage 0 is at generation 2 (generations 0 and 1 forwarded),
lineage 1 at generation 1 — the lineages ARE at different generations, which the model allows and the code
does not (header of `Proto/TableN.lean`); the map history holds the eleven calls under their ORIGINAL
keys with times on ONE clock (calls of different lineages overlap), and the abstract map is
`{0 ↦ (10,100), 2 ↦ (20,200), 3 ↦ (41,401), 4 ↦ (50,500), 6 ↦ (60,600)}`. `step` refuses a call on a key of
another lineage and a thread that is busy in another lineage — in particular a thread that is in the
middle of the resize of one lineage cannot start the resize of another. -/
namespace Flurry.Proto.TableN
open Flurry.Lin Flurry.LinMap
open Flurry.Proto.BinX (Cell)

/-- `(lineage, thread, invocation (key of the table), resize, pick)` -/
abbrev Sch := Nat × Nat × Option (Nat × KOp) × Bool × Nat

def run (S : State) : List Sch → Option State
  | [] => some S
  | (i, t, inv, rz, pick) :: rest =>
    match step S i t inv rz pick with
    | some S' => run S' rest
    | none => none

theorem run_reachable {m n : Nat} : ∀ (sched : List Sch) {S S' : State},
    Reachable m n S → run S sched = some S' → Reachable m n S'
  | [], S, S', hr, h => by
    simp only [run, Option.some.injEq] at h
    exact h ▸ hr
  | (i, t, inv, rz, pick) :: rest, S, S', hr, h => by
    simp only [run] at h
    cases hs : step S i t inv rz pick with
    | none => rw [hs] at h; cases h
    | some S1 =>
      rw [hs] at h
      exact run_reachable rest (Reachable.step i t inv rz pick hr hs) h

/-- thread `t` starts a call on key `k` (of the table) in lineage `i` -/
abbrev call (i t k : Nat) (op : KOp) : List Sch := [(i, t, some (k, op), false, 0)]
/-- `n` further steps of thread `t` in lineage `i` -/
abbrev go (i t n : Nat) : List Sch := List.replicate n (i, t, none, false, 0)
/-- thread `t` starts a resize of lineage `i` (allocates its next generation) -/
abbrev resize (i t : Nat) : List Sch := [(i, t, none, true, 0)]
/-- the resizing thread `t` of lineage `i` turns to cell `j` of the current generation and takes `n` more steps -/
abbrev xfer (i t j n : Nat) : List Sch := [(i, t, none, false, j)] ++ go i t n

def exBefore : List Sch :=
  call 0 0 0 (.ins 10 100) ++ call 1 1 1 (.ins 11 101) ++ go 0 0 3 ++ go 1 1 3 ++
  call 0 0 2 (.ins 20 200) ++ call 1 1 3 (.ins 30 300) ++ go 1 1 8 ++ go 0 0 8

/-- thread 0 starts the resize of lineage 0 (`tNext`, `tCell`); thread 1 calls `get(2)` and loads the
generation and the old cell; thread 0 locks, re-checks, splits, stores low, high and the marker -/
def exResize0a : List Sch :=
  resize 0 0 ++ xfer 0 0 0 1 ++ call 0 1 2 .get ++ go 0 1 2 ++ go 0 0 6

/-- … thread 1 walks on in the old list, thread 0 unlocks and commits, thread 1 finds its key -/
def exResize0 : List Sch := exResize0a ++ go 0 1 1 ++ go 0 0 3 ++ go 0 1 1

/-- thread 0 updates key 3 in generation 0 of lineage 1; thread 1 resizes lineage 1 -/
def exResize1 : List Sch :=
  call 1 0 3 (.ins 41 401) ++ go 1 0 1 ++ resize 1 1 ++ xfer 1 1 0 1 ++ go 1 0 7 ++ go 1 1 9

/-- thread 1 starts the SECOND resize of lineage 0 and transfers cell `(1,1)`; thread 0 calls `insert(4)`
and loads generation 1 and the head of cell `(1,0)`; thread 1 locks that head, splits, stores low, high -/
def exResize2a : List Sch :=
  resize 0 1 ++ xfer 0 1 1 8 ++ call 0 0 4 (.ins 50 500) ++ go 0 0 2 ++ xfer 0 1 0 6

/-- … thread 1 stores the marker and unlocks; thread 0 locks, fails the re-check, unlocks; thread 1
commits; thread 0 follows the marker and CASes into the empty cell `(2,2)` -/
def exResize2 : List Sch := exResize2a ++ go 0 1 2 ++ go 0 0 3 ++ go 0 1 2 ++ go 0 0 3

def exAfter : List Sch :=
  call 0 0 2 .get ++ call 1 1 1 .rm ++ go 0 0 3 ++ go 1 1 7 ++
  call 0 1 6 (.ins 60 600) ++ call 1 0 3 .get ++ go 0 1 3 ++ go 1 0 3

def exSchedule : List Sch := exBefore ++ exResize0 ++ exResize1 ++ exResize2 ++ exAfter

def exHist : MHistory :=
  [ ⟨0, ⟨0, .ins 10 100, .none, 1, 5⟩⟩, ⟨2, ⟨0, .ins 20 200, .none, 9, 26⟩⟩,
    ⟨2, ⟨1, .get, .some 20 200, 30, 43⟩⟩, ⟨4, ⟨0, .ins 50 500, .none, 75, 94⟩⟩,
    ⟨2, ⟨0, .get, .some 20 200, 95, 99⟩⟩, ⟨6, ⟨1, .ins 60 600, .none, 107, 111⟩⟩,
    ⟨1, ⟨1, .ins 11 101, .none, 2, 8⟩⟩, ⟨3, ⟨1, .ins 30 300, .none, 10, 18⟩⟩,
    ⟨3, ⟨0, .ins 41 401, .some 30 300, 44, 55⟩⟩, ⟨1, ⟨1, .rm, .some 11 101, 96, 106⟩⟩,
    ⟨3, ⟨0, .get, .some 41 401, 108, 114⟩⟩ ]

/-- the abstract map on the keys `0 … 7` -/
def exAbs : List KSt :=
  [some (10, 100), none, some (20, 200), some (41, 401), some (50, 500), none, some (60, 600), none]

/-- per lineage: the cells of all generations, the generation of the table pointer, a resize is running, clock -/
def shape (S : State) : List (List (List Cell) × Nat × Bool × Nat) :=
  S.bins.map fun b => (b.tabs, b.cur, b.resizing, b.now)

/-- lineage 0: generations 0 and 1 forwarded, generation 2 current; lineage 1: generation 0 forwarded,
generation 1 current -/
def exShape : List (List (List Cell) × Nat × Bool × Nat) :=
  [([[.moved], [.moved, .moved], [.node 2, .node 1, .node 3, .node 4]], 2, false, 114),
   ([[.moved], [.empty, .node 1]], 1, false, 114)]

def exCheck : Bool :=
  match run (init 2 2) exSchedule with
  | some S =>
    S.bins.all (fun b => b.threads.all (fun l => l.pc == .idle)) && mhist S == exHist &&
      (List.range 8).map (absMap S) == exAbs && shape S == exShape
  | none => false

set_option maxRecDepth 4000 in
theorem exCheck_true : exCheck = true := by decide

/-- a reachable quiescent table with two lineages, one resized twice and one once, whose history holds
calls on keys of both lineages before, during and after the resizes -/
theorem example_state :
    ∃ S : State, Reachable 2 2 S ∧ quiescent S ∧ mhist S = exHist ∧ (List.range 8).map (absMap S) = exAbs ∧
      shape S = exShape := by
  have h := exCheck_true
  unfold exCheck at h
  cases hrun : run (init 2 2) exSchedule with
  | none => rw [hrun] at h; cases h
  | some S =>
    rw [hrun] at h
    simp only [Bool.and_eq_true, List.all_eq_true, beq_iff_eq] at h
    obtain ⟨⟨⟨hq, hh⟩, ha⟩, hs⟩ := h
    exact ⟨S, run_reachable exSchedule Reachable.init hrun, fun b hb l hl => hq b hb l hl, hh, ha, hs⟩

/-- the lineages of that state are at different generations: lineage 0 at generation 2, lineage 1 at generation 1 -/
theorem example_generations : ∃ S : State, Reachable 2 2 S ∧ quiescent S ∧ S.bins.map (·.cur) = [2, 1] := by
  obtain ⟨S, hr, hq, -, -, hs⟩ := example_state
  refine ⟨S, hr, hq, ?_⟩
  have h2 : (shape S).map (·.2.1) = S.bins.map (·.cur) := by
    unfold shape
    rw [List.map_map]
    rfl
  rw [← h2, hs]
  rfl

/-- during the first resize of lineage 0 (clock 38): the two cells of generation 1 and the forwarding
marker are stored, the table pointer still is generation 0, the resizing thread holds the head lock, and
the reader stands on node 0 of the old list; lineage 1 is untouched -/
def exDuring : Bool :=
  match run (init 2 2) (exBefore ++ exResize0a) with
  | some S =>
    shape S == [([[.moved], [.node 2, .node 1]], 0, true, 38), ([[.node 0]], 0, false, 38)] &&
      (S.bins.map fun b => b.threads.map (·.pc)) == [[.tUnlock 0 0, .rNode (some 0)], [.idle, .idle]]
  | none => false

set_option maxRecDepth 4000 in
theorem example_during : exDuring = true := by decide

/-- lineages at different generations (clock 44): lineage 0 is at generation 1, lineage 1 at generation 0
(not even allocated the next one) and thread 0 has just been invoked there -/
def exBetween : Bool :=
  match run (init 2 2) (exBefore ++ exResize0 ++ call 1 0 3 (.ins 41 401)) with
  | some S =>
    shape S == [([[.moved], [.node 2, .node 1]], 1, false, 44), ([[.node 0]], 0, false, 44)] &&
      (S.bins.map fun b => b.threads.map (·.pc)) == [[.idle, .idle], [.wTable, .idle]]
  | none => false

set_option maxRecDepth 4000 in
theorem example_between : exBetween = true := by decide

/-- during the SECOND resize of lineage 0 (clock 84): cell `(1,1)` is forwarded, cell `(1,0)` is split
into `(2,0)` and `(2,2)` but not yet forwarded; thread 0 (`insert(4)`) is about to lock the head of
`(1,0)`, which the resizing thread holds; lineage 1 is at generation 1 -/
def exSecond : Bool :=
  match run (init 2 2) (exBefore ++ exResize0 ++ exResize1 ++ exResize2a) with
  | some S =>
    shape S == [([[.moved], [.node 2, .moved], [.node 2, .node 1, .empty, .empty]], 1, true, 84),
                ([[.moved], [.node 2, .node 1]], 1, false, 84)] &&
      (S.bins.map fun b => b.threads.map (·.pc)) == [[.wLock 1 2, .tStoreMoved 0 2], [.idle, .idle]]
  | none => false

set_option maxRecDepth 4000 in
theorem example_second_resize : exSecond = true := by decide

/-- refused: a call on a key of another lineage (key 1 belongs to lineage 1, key 2 to lineage 0); a
thread that is busy in another lineage — with a call, or in the middle of a resize (so a thread resizes
the lineages one at a time; another thread may resize another lineage meanwhile) -/
theorem example_refused :
    (step (init 2 2) 0 0 (some (1, .ins 1 1)) false 0).isNone = true ∧
    (step (init 2 2) 1 0 (some (2, .ins 1 1)) false 0).isNone = true ∧
    (run (init 2 2) (call 0 0 2 (.ins 1 1) ++ call 1 0 1 .get)).isNone = true ∧
    (run (init 2 2) (call 0 0 2 (.ins 1 1) ++ go 1 0 1)).isNone = true ∧
    (run (init 2 2) (resize 0 0 ++ go 0 0 1 ++ resize 1 0)).isNone = true ∧
    (run (init 2 2) (resize 0 0 ++ go 0 0 1 ++ resize 1 1 ++ go 1 1 1 ++ go 0 0 1)).isSome = true := by decide

end Flurry.Proto.TableN
