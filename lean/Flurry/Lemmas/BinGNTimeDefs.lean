import Flurry.Lemmas.BinGNGenStepR
/-! # Proto/BinGN: threads, calls and times (definitions, frame lemmas)

`TInv s`: a thread has a call in flight iff its program counter is a reader's or a writer's; readers' program
counters go with read operations; the history is well-timed (`inv ≤ resp ≤ now`), pending calls were invoked in
the past, and all invocation stamps (completed and pending) are pairwise distinct. -/
namespace Flurry.Proto.BinGN
open Flurry.Lin

def readerPc : Pc → Bool
  | .rTable _ | .rCell _ _ | .rNode _ | .rFirst _ | .rState _ _ | .rLin _ _ | .rCas _ _ _ | .rTree _
  | .rRelease _ _ | .rVal _ | .lFirst _ | .lNode _ => true
  | _ => false

/-- program counters without a call in flight: idle, treeify, the resizing thread -/
def noCallPc : Pc → Bool
  | .idle | .kTable _ | .kCell _ _ | .kLock _ _ _ | .kCheck _ _ _ | .kBuild _ _ _ | .kStore _ _ _ _ | .kUnlock _
  | .xNext | .xCell _ | .xCasMoved _ | .xLock _ _ | .xCheck _ _ | .xBuild _ _ | .yMutex _ _ | .yCheck _ _
  | .yBuild _ _ | .xStoreLow _ _ _ _ | .xStoreHigh _ _ _ | .xStoreMoved _ _ | .xUnlock _ | .xCommit => true
  | _ => false

structure TInv (s : State) : Prop where
  opOK : ∀ (t : Nat) (l : Local) (p : Pending), s.threads[t]? = some l → l.call = some p →
    isReader p.op = readerPc l.pc
  callOK : ∀ (t : Nat) (l : Local), s.threads[t]? = some l → (l.call = none ↔ noCallPc l.pc = true)
  histTime : ∀ x ∈ s.hist, x.2.inv ≤ x.2.resp ∧ x.2.resp ≤ s.now
  pendTime : ∀ (t : Nat) (l : Local) (p : Pending), s.threads[t]? = some l → l.call = some p → p.inv ≤ s.now
  uniqHP : ∀ x ∈ s.hist, ∀ (t : Nat) (l : Local) (p : Pending), s.threads[t]? = some l → l.call = some p →
    x.2.inv ≠ p.inv
  uniqPP : ∀ (t t' : Nat) (l l' : Local) (p p' : Pending), s.threads[t]? = some l → s.threads[t']? = some l' →
    l.call = some p → l'.call = some p' → p.inv = p'.inv → t = t'
  uniqHH : s.hist.Pairwise (fun x y => x.2.inv ≠ y.2.inv)

/-- a transition that neither starts nor completes a call -/
theorem tinv_move {s s' : State} {t : Nat} {l l' : Local} (T : TInv s) (hl : s.threads[t]? = some l)
    (hthr : s'.threads = s.threads.set t l') (hhist : s'.hist = s.hist) (hnow : s'.now = s.now + 1)
    (hcall : l'.call = l.call)
    (hcls : noCallPc l'.pc = noCallPc l.pc ∧ (noCallPc l.pc = false → readerPc l'.pc = readerPc l.pc)) :
    TInv s' := by
  have hget : ∀ (t1 : Nat) (l1 : Local), s'.threads[t1]? = some l1 →
      (t1 = t ∧ l1 = l') ∨ (t1 ≠ t ∧ s.threads[t1]? = some l1) := by
    intro t1 l1 h; rw [hthr] at h; exact get_set h
  -- every thread of `s'` has a counterpart in `s` with the same call
  have hback : ∀ (t1 : Nat) (l1 : Local), s'.threads[t1]? = some l1 → ∃ l0 : Local, s.threads[t1]? = some l0 ∧ l1.call = l0.call ∧
      noCallPc l1.pc = noCallPc l0.pc ∧ (noCallPc l0.pc = false → readerPc l1.pc = readerPc l0.pc) := by
    intro t1 l1 h
    rcases hget t1 l1 h with ⟨rfl, rfl⟩ | ⟨_, h0⟩
    · exact ⟨l, hl, hcall, hcls.1, hcls.2⟩
    · exact ⟨l1, h0, rfl, rfl, fun _ => rfl⟩
  refine ⟨?_, ?_, ?_, ?_, ?_, ?_, ?_⟩
  · intro t1 l1 p h hp
    obtain ⟨l0, h0, e1, e2, e3⟩ := hback t1 l1 h
    rw [e1] at hp
    have hnc : noCallPc l0.pc = false := by
      cases hx : noCallPc l0.pc with
      | false => rfl
      | true => have := (T.callOK t1 l0 h0).2 hx; rw [this] at hp; cases hp
    rw [e3 hnc]; exact T.opOK t1 l0 p h0 hp
  · intro t1 l1 h
    obtain ⟨l0, h0, e1, e2, _⟩ := hback t1 l1 h
    rw [e1, e2]; exact T.callOK t1 l0 h0
  · intro x hx
    rw [hhist] at hx
    have := T.histTime x hx
    rw [hnow]; omega
  · intro t1 l1 p h hp
    obtain ⟨l0, h0, e1, _, _⟩ := hback t1 l1 h
    rw [e1] at hp
    have := T.pendTime t1 l0 p h0 hp
    rw [hnow]; omega
  · intro x hx t1 l1 p h hp
    rw [hhist] at hx
    obtain ⟨l0, h0, e1, _, _⟩ := hback t1 l1 h
    rw [e1] at hp
    exact T.uniqHP x hx t1 l0 p h0 hp
  · intro t1 t2 l1 l2 p1 p2 h1 h2 hp1 hp2 he
    obtain ⟨l0, h0, e1, _, _⟩ := hback t1 l1 h1
    obtain ⟨l0', h0', e1', _, _⟩ := hback t2 l2 h2
    rw [e1] at hp1; rw [e1'] at hp2
    exact T.uniqPP t1 t2 l0 l0' p1 p2 h0 h0' hp1 hp2 he
  · rw [hhist]; exact T.uniqHH

/-- a call completes -/
theorem tinv_finish {s s1 : State} {t : Nat} {l : Local} {p : Pending} {res : KRes} (T : TInv s)
    (hl : s.threads[t]? = some l) (hp : l.call = some p) (hthr : s1.threads = s.threads) (hhist : s1.hist = s.hist)
    (hnow : s1.now = s.now + 1) : TInv (finish s1 t p res) := by
  have hthr' : (finish s1 t p res).threads = s.threads.set t { pc := .idle, call := none } := by
    show s1.threads.set _ _ = _; rw [hthr]
  have hhist' : (finish s1 t p res).hist =
      (p.key, { tid := t, op := p.op, res := res, inv := p.inv, resp := s1.now }) :: s.hist := by
    show _ :: s1.hist = _; rw [hhist]
  have hnow' : (finish s1 t p res).now = s.now + 1 := hnow
  have hget : ∀ (t1 : Nat) (l1 : Local), (finish s1 t p res).threads[t1]? = some l1 →
      (t1 = t ∧ l1 = { pc := .idle, call := none }) ∨ (t1 ≠ t ∧ s.threads[t1]? = some l1) := by
    intro t1 l1 h; rw [hthr'] at h; exact get_set h
  have hpt := T.pendTime t l p hl hp
  refine ⟨?_, ?_, ?_, ?_, ?_, ?_, ?_⟩
  · intro t1 l1 q h hq
    rcases hget t1 l1 h with ⟨rfl, rfl⟩ | ⟨_, h0⟩
    · cases hq
    · exact T.opOK t1 l1 q h0 hq
  · intro t1 l1 h
    rcases hget t1 l1 h with ⟨rfl, rfl⟩ | ⟨_, h0⟩
    · exact ⟨fun _ => rfl, fun _ => rfl⟩
    · exact T.callOK t1 l1 h0
  · intro x hx
    rw [hhist'] at hx
    rw [hnow']
    rcases List.mem_cons.1 hx with rfl | hx
    · show p.inv ≤ s1.now ∧ s1.now ≤ s.now + 1
      rw [hnow]; omega
    · have := T.histTime x hx; omega
  · intro t1 l1 q h hq
    rw [hnow']
    rcases hget t1 l1 h with ⟨rfl, rfl⟩ | ⟨_, h0⟩
    · cases hq
    · have := T.pendTime t1 l1 q h0 hq; omega
  · intro x hx t1 l1 q h hq
    rw [hhist'] at hx
    rcases hget t1 l1 h with ⟨rfl, rfl⟩ | ⟨n1, h0⟩
    · cases hq
    · rcases List.mem_cons.1 hx with rfl | hx
      · show p.inv ≠ q.inv
        intro he
        exact n1 (T.uniqPP t1 t l1 l q p h0 hl hq hp he.symm)
      · exact T.uniqHP x hx t1 l1 q h0 hq
  · intro t1 t2 l1 l2 p1 p2 h1 h2 hp1 hp2 he
    rcases hget t1 l1 h1 with ⟨rfl, rfl⟩ | ⟨_, h0⟩
    · cases hp1
    · rcases hget t2 l2 h2 with ⟨rfl, rfl⟩ | ⟨_, h0'⟩
      · cases hp2
      · exact T.uniqPP t1 t2 l1 l2 p1 p2 h0 h0' hp1 hp2 he
  · rw [hhist']
    refine List.pairwise_cons.2 ⟨?_, T.uniqHH⟩
    intro y hy
    show p.inv ≠ y.2.inv
    exact fun he => T.uniqHP y hy t l p hl hp he.symm

/-- the thread-local state right after an invocation -/
def invLocal (k : Nat) (op : KOp) (lo : Bool) (now : Nat) : Local :=
  { pc := if isReader op then .rTable lo else .wTable, call := some ⟨k, op, now⟩ }

/-- a call is invoked by an idle thread -/
theorem tinv_invoke {s : State} {t : Nat} {l : Local} {k : Nat} {op : KOp} {lo : Bool} (T : TInv s)
    (hl : s.threads[t]? = some l) :
    TInv (setT (tick s) t (invLocal k op lo (s.now + 1))) := by
  have hget : ∀ (t1 : Nat) (l1 : Local), (s.threads.set t (invLocal k op lo (s.now + 1)))[t1]? = some l1 →
      (t1 = t ∧ l1 = invLocal k op lo (s.now + 1)) ∨ (t1 ≠ t ∧ s.threads[t1]? = some l1) :=
    fun t1 l1 h => get_set h
  refine ⟨?_, ?_, ?_, ?_, ?_, ?_, ?_⟩
  · intro t1 l1 q h hq
    rcases hget t1 l1 h with ⟨rfl, rfl⟩ | ⟨_, h0⟩
    · cases hq
      show isReader op = readerPc (if isReader op then Pc.rTable lo else .wTable)
      cases isReader op <;> rfl
    · exact T.opOK t1 l1 q h0 hq
  · intro t1 l1 h
    rcases hget t1 l1 h with ⟨rfl, rfl⟩ | ⟨_, h0⟩
    · refine ⟨fun h => ?_, fun h => ?_⟩
      · cases h
      · exfalso
        have : noCallPc (if isReader op then Pc.rTable lo else .wTable) = true := h
        cases hr : isReader op <;> rw [hr] at this <;> cases this
    · exact T.callOK t1 l1 h0
  · intro x hx
    have := T.histTime x hx
    show x.2.inv ≤ x.2.resp ∧ x.2.resp ≤ s.now + 1
    omega
  · intro t1 l1 q h hq
    show q.inv ≤ s.now + 1
    rcases hget t1 l1 h with ⟨rfl, rfl⟩ | ⟨_, h0⟩
    · cases hq; exact Nat.le_refl _
    · have := T.pendTime t1 l1 q h0 hq; omega
  · intro x hx t1 l1 q h hq
    have hx' := T.histTime x hx
    rcases hget t1 l1 h with ⟨rfl, rfl⟩ | ⟨_, h0⟩
    · cases hq
      show x.2.inv ≠ s.now + 1
      omega
    · exact T.uniqHP x hx t1 l1 q h0 hq
  · intro t1 t2 l1 l2 p1 p2 h1 h2 hp1 hp2 he
    rcases hget t1 l1 h1 with ⟨rfl, rfl⟩ | ⟨_, h0⟩
    · rcases hget t2 l2 h2 with ⟨rfl, rfl⟩ | ⟨_, h0'⟩
      · rfl
      · cases hp1
        have := T.pendTime t2 l2 p2 h0' hp2
        have he' : s.now + 1 = p2.inv := he
        omega
    · rcases hget t2 l2 h2 with ⟨rfl, rfl⟩ | ⟨_, h0'⟩
      · cases hp2
        have := T.pendTime t1 l1 p1 h0 hp1
        have he' : p1.inv = s.now + 1 := he
        omega
      · exact T.uniqPP t1 t2 l1 l2 p1 p2 h0 h0' hp1 hp2 he
  · exact T.uniqHH

end Flurry.Proto.BinGN
