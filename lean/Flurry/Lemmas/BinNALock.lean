import Flurry.Lemmas.BinNAInvStep
/-! # Proto/BinNA: a lock word names a thread that is in the critical section of that cell (side invariant)

`PcOK` (in `Inv`) says: a thread in a critical section on cell `(g, j)` finds its own id in the lock
word of `(g, j)` — hence mutual exclusion. This file proves the converse: `LInv`: whenever the lock
word of a cell is `some t`, thread `t` is in a critical section on exactly that cell (`HoldsAt`); so no
lock word is left behind, in particular none in a forwarded table. -/
namespace Flurry.Proto.BinNA
open Flurry.Lin

/-- the thread is in a critical section on cell `(g, j)` -/
def HoldsAt (s : State) (l : Local) (g j : Nat) : Prop :=
  match l.pc, l.call with
  | .wCheck g', some p => g' = g ∧ ix g' p.key = j
  | .wStore g', some p => g' = g ∧ ix g' p.key = j
  | .wUnlock g' _ _, some p => g' = g ∧ ix g' p.key = j
  | .tCheck j', _ => s.cur = g ∧ j' = j
  | .tStoreLow j' _ _, _ => s.cur = g ∧ j' = j
  | .tStoreHigh j' _, _ => s.cur = g ∧ j' = j
  | .tStoreMoved j', _ => s.cur = g ∧ j' = j
  | .tUnlock j', _ => s.cur = g ∧ j' = j
  | _, _ => False

def LInv (s : State) : Prop :=
  ∀ g j t, getLock s g j = some t → ∃ l, s.threads[t]? = some l ∧ HoldsAt s l g j

theorem HoldsAt.congr {s s' : State} {l : Local} {g j : Nat} (hc : s'.cur = s.cur) (h : HoldsAt s l g j) :
    HoldsAt s' l g j := by
  unfold HoldsAt at h ⊢
  rw [hc]; exact h

theorem HoldsAt.of_not_isT {s s' : State} {l : Local} {g j : Nat} (hT : ¬ isT l.pc) (h : HoldsAt s l g j) :
    HoldsAt s' l g j := by
  obtain ⟨pc, call⟩ := l
  cases pc <;> cases call <;> first | exact h | exact absurd trivial hT | exact False.elim h

theorem linv_gen {s s' : State} {t : Nat} {l l' : Local} (L : LInv s) (hl : s.threads[t]? = some l)
    (hthr : s'.threads = s.threads.set t l')
    (hoth : ∀ (t1 : Nat) (l1 : Local), t1 ≠ t → s.threads[t1]? = some l1 → ∀ g j, HoldsAt s l1 g j → HoldsAt s' l1 g j)
    (hlocks : ∀ g j t0, getLock s' g j = some t0 →
      (getLock s g j = some t0 ∧ (t0 = t → HoldsAt s l g j → HoldsAt s' l' g j)) ∨ (t0 = t ∧ HoldsAt s' l' g j)) :
    LInv s' := by
  have hl' : s'.threads[t]? = some l' := by rw [hthr]; exact get_set_self hl
  intro g j t0 h
  rcases hlocks g j t0 h with ⟨h0, hs⟩ | ⟨rfl, hs⟩
  · obtain ⟨l0, hl0, hh⟩ := L g j t0 h0
    by_cases ht : t0 = t
    · subst ht
      rw [hl] at hl0; cases hl0
      exact ⟨l', hl', hs rfl hh⟩
    · exact ⟨l0, by rw [hthr, get_set_ne ht]; exact hl0, hoth t0 l0 ht hl0 g j hh⟩
  · exact ⟨l', hl', hs⟩

/-- transitions that change no lock word and keep `cur` -/
theorem linv_nolock {s s' : State} {t : Nat} {l l' : Local} (L : LInv s) (hl : s.threads[t]? = some l)
    (hthr : s'.threads = s.threads.set t l') (hc : s'.cur = s.cur) (hlk : s'.locks = s.locks)
    (hself : ∀ g j, HoldsAt s l g j → HoldsAt s' l' g j) : LInv s' :=
  linv_gen L hl hthr (fun _ _ _ _ _ _ h => h.congr hc)
    (fun g j t0 h => Or.inl ⟨by rw [← getLock_congr hlk]; exact h, fun _ hh => hself g j hh⟩)

theorem HoldsAt.of_pc {s : State} {l : Local} {g j : Nat} (h : HoldsAt s l g j) :
    (∃ g' p, l.call = some p ∧ (l.pc = .wCheck g' ∨ l.pc = .wStore g' ∨ ∃ r b, l.pc = .wUnlock g' r b) ∧
      g' = g ∧ ix g' p.key = j) ∨
    (∃ j', (l.pc = .tCheck j' ∨ (∃ lo hi, l.pc = .tStoreLow j' lo hi) ∨ (∃ hi, l.pc = .tStoreHigh j' hi) ∨
      l.pc = .tStoreMoved j' ∨ l.pc = .tUnlock j') ∧ s.cur = g ∧ j' = j) := by
  obtain ⟨pc, call⟩ := l
  cases pc <;> cases call <;> first | exact False.elim h | skip
  case wCheck.some g' p => exact Or.inl ⟨g', p, rfl, Or.inl rfl, h⟩
  case wStore.some g' p => exact Or.inl ⟨g', p, rfl, Or.inr (Or.inl rfl), h⟩
  case wUnlock.some g' r b p => exact Or.inl ⟨g', p, rfl, Or.inr (Or.inr ⟨r, b, rfl⟩), h⟩
  all_goals first
    | exact Or.inr ⟨_, Or.inl rfl, h⟩
    | exact Or.inr ⟨_, Or.inr (Or.inl ⟨_, _, rfl⟩), h⟩
    | exact Or.inr ⟨_, Or.inr (Or.inr (Or.inl ⟨_, rfl⟩)), h⟩
    | exact Or.inr ⟨_, Or.inr (Or.inr (Or.inr (Or.inl rfl))), h⟩
    | exact Or.inr ⟨_, Or.inr (Or.inr (Or.inr (Or.inr rfl))), h⟩

/-- a program counter outside every critical section holds nothing -/
def noCS : Pc → Prop
  | .wCheck _ | .wStore _ | .wUnlock _ _ _ | .tCheck _ | .tStoreLow _ _ _ | .tStoreHigh _ _ | .tStoreMoved _
  | .tUnlock _ => False
  | _ => True

theorem not_holds_of_noCS {s : State} {l : Local} {g j : Nat} (h : noCS l.pc) : ¬ HoldsAt s l g j := by
  obtain ⟨pc, call⟩ := l
  intro hh
  cases pc <;> cases call <;> first | exact h | exact hh

theorem Move.cs {s : State} {p : Pending} {pc pc' : Pc} (h : Move s p pc pc') :
    noCS pc ∨ ∃ g, pc = .wCheck g ∧ (pc' = .wStore g ∨ pc' = .wUnlock g .none true) := by
  cases h <;> first | exact Or.inl trivial | exact Or.inr ⟨_, rfl, Or.inl rfl⟩ | exact Or.inr ⟨_, rfl, Or.inr rfl⟩

theorem TMove.cs {s : State} {pc pc' : Pc} (h : TMove s pc pc') :
    noCS pc ∨ ∃ j lo hi, pc = .tCheck j ∧ pc' = .tStoreLow j lo hi := by
  cases h <;> first | exact Or.inl trivial | exact Or.inr ⟨_, _, _, rfl, rfl⟩

theorem Fin.cs {s : State} {p : Pending} {pc : Pc} {res : KRes} (h : Fin s p pc res) : noCS pc := by
  cases h <;> trivial

theorem lstep {s s' : State} {t : Nat} {l : Local} (I : Inv s) (L : LInv s) (hl : s.threads[t]? = some l)
    (hstep : StepK s t l s') : LInv s' := by
  have hpc0 := I.pc t l hl
  cases hstep with
  | idle hpc => exact linv_nolock L hl rfl rfl rfl (fun _ _ h => h)
  | invoke k' op hpc =>
    exact linv_nolock L hl rfl rfl rfl (fun _ _ h => absurd h (not_holds_of_noCS (by rw [hpc]; trivial)))
  | resize hpc hr =>
    refine linv_gen (l' := { l with pc := .tNext }) L hl rfl (fun _ _ _ _ _ _ h => h.congr rfl) ?_
    intro g j t0 h
    refine Or.inl ⟨?_, fun _ hh => absurd hh (not_holds_of_noCS (by rw [hpc]; trivial))⟩
    have h' : ((s.locks ++ [List.replicate (2 ^ (s.cur + 1)) none]).getD g []).getD j none = some t0 := h
    rw [getD2_append_replicate] at h'
    exact h'
  | move p pc' hp hm =>
    refine linv_nolock (l' := { l with pc := pc' }) L hl rfl rfl rfl ?_
    intro g j h
    rcases hm.cs with hn | ⟨g0, h1, h2⟩
    · exact absurd h (not_holds_of_noCS hn)
    · obtain ⟨pc, call⟩ := l
      simp only at hp h1 h2; subst hp h1
      rcases h2 with rfl | rfl <;> exact h
  | tmove pc' hp hm =>
    refine linv_nolock (l' := { l with pc := pc' }) L hl rfl rfl rfl ?_
    intro g j h
    rcases hm.cs with hn | ⟨j0, lo, hi, h1, h2⟩
    · exact absurd h (not_holds_of_noCS hn)
    · obtain ⟨pc, call⟩ := l
      simp only at hp h1 h2; subst hp h1 h2
      exact h
  | acq g0 j0 pc' ha hfree =>
    refine linv_gen (l' := { l with pc := pc' }) L hl rfl (fun _ _ _ _ _ _ h => h.congr rfl) ?_
    intro g j t0 h
    have e1 : getLock (setT (setLock (tick s) g0 j0 (some t)) t { l with pc := pc' }) g j =
        getLock (setLock s g0 j0 (some t)) g j := rfl
    rw [e1, getLock_setLock] at h
    split at h
    · rename_i hh
      obtain ⟨rfl, rfl, _⟩ := hh
      cases h
      refine Or.inr ⟨rfl, ?_⟩
      obtain ⟨pc, call⟩ := l
      cases ha with
      | w hp hpc => simp only at hp hpc; subst hp hpc; exact ⟨rfl, rfl⟩
      | t hp hpc => simp only at hp hpc; subst hp hpc; exact ⟨rfl, rfl⟩
    · refine Or.inl ⟨h, fun _ hh => absurd hh (not_holds_of_noCS ?_)⟩
      cases ha with
      | w _ hpc => rw [hpc]; trivial
      | t _ hpc => rw [hpc]; trivial
  | rel g0 j0 pc' hrel =>
    refine linv_gen (l' := { l with pc := pc' }) L hl rfl (fun _ _ _ _ _ _ h => h.congr rfl) ?_
    intro g j t0 h
    have e1 : getLock (setT (setLock (tick s) g0 j0 none) t { l with pc := pc' }) g j =
        getLock (setLock s g0 j0 none) g j := rfl
    rw [e1, getLock_setLock] at h
    split at h
    · cases h
    · rename_i hne
      refine Or.inl ⟨h, ?_⟩
      intro ht hh
      subst ht
      exfalso
      -- the releasing thread holds exactly `(g0, j0)`
      have hbound : g0 < s.tabs.length ∧ j0 < 2 ^ g0 ∧ g = g0 ∧ j = j0 := by
        obtain ⟨pc, call⟩ := l
        cases hrel with
        | @w g1 p res hp hpc =>
          simp only at hp hpc; subst hp hpc
          exact ⟨I.inb hpc0.1, ix_lt _ _, hh.1.symm, hh.2.symm⟩
        | @tFail j1 hp hpc _ =>
          simp only at hp hpc; subst hp hpc
          exact ⟨by have := I.len_ge; omega, hpc0.2.1, hh.1.symm, hh.2.symm⟩
        | @t j1 hp hpc =>
          simp only at hp hpc; subst hp hpc
          exact ⟨by have := I.len_ge; omega, hpc0.2.1, hh.1.symm, hh.2.symm⟩
      obtain ⟨hg, hj, rfl, rfl⟩ := hbound
      exact hne ⟨rfl, rfl, by rw [I.lrow hg]; exact hj⟩
  | fin p res hp hf =>
    exact linv_nolock (l' := { pc := .idle, call := none }) L hl rfl rfl rfl
      (fun _ _ h => absurd h (not_holds_of_noCS hf.cs))
  | cas p g0 v vi hp hpc hc hop =>
    exact linv_nolock (l' := { pc := .idle, call := none }) L hl rfl rfl rfl
      (fun _ _ h => absurd h (not_holds_of_noCS (by rw [hpc]; trivial)))
  | store p g0 hp hpc =>
    refine linv_nolock (l' := { l with pc := .wUnlock g0 (storeRes s g0 p) false }) L hl rfl rfl rfl ?_
    intro g j h
    obtain ⟨pc, call⟩ := l
    simp only at hp hpc; subst hp hpc
    exact h
  | unlockFin p g0 res hp hpc =>
    rw [hpc, keyOf_some hp] at hpc0
    refine linv_gen (l' := { pc := .idle, call := none }) L hl rfl (fun _ _ _ _ _ _ h => h.congr rfl) ?_
    intro g j t0 h
    have e1 : getLock (finish (setLock (tick s) g0 (ix g0 p.key) none) t p res) g j =
        getLock (setLock s g0 (ix g0 p.key) none) g j := rfl
    rw [e1, getLock_setLock] at h
    split at h
    · cases h
    · rename_i hne
      refine Or.inl ⟨h, ?_⟩
      intro ht hh
      exfalso
      obtain ⟨pc, call⟩ := l
      simp only at hp hpc; subst hp hpc
      obtain ⟨rfl, rfl⟩ := hh
      exact hne ⟨rfl, rfl, by rw [I.lrow (I.inb hpc0.1)]; exact ix_lt _ _⟩
  | casMoved j hp hpc hc =>
    exact linv_nolock (l' := { l with pc := .tNext }) L hl rfl rfl rfl
      (fun _ _ h => absurd h (not_holds_of_noCS (by rw [hpc]; trivial)))
  | storeLow j lo hi hp hpc =>
    refine linv_nolock (l' := { l with pc := .tStoreHigh j hi }) L hl rfl rfl rfl ?_
    intro g j' h
    obtain ⟨pc, call⟩ := l
    simp only at hpc; subst hpc
    exact h
  | storeHigh j hi hp hpc =>
    refine linv_nolock (l' := { l with pc := .tStoreMoved j }) L hl rfl rfl rfl ?_
    intro g j' h
    obtain ⟨pc, call⟩ := l
    simp only at hpc; subst hpc
    exact h
  | storeMoved j hp hpc =>
    refine linv_nolock (l' := { l with pc := .tUnlock j }) L hl rfl rfl rfl ?_
    intro g j' h
    obtain ⟨pc, call⟩ := l
    simp only at hpc; subst hpc
    exact h
  | commit hp hpc =>
    have hT : isT l.pc := by rw [hpc]; trivial
    refine linv_gen (l' := { l with pc := .idle }) L hl rfl ?_ ?_
    · intro t1 l1 hne h1 g j hh
      exact hh.of_not_isT (fun hT1 => hne (I.uniqT t1 t l1 l h1 hl hT1 hT))
    · intro g j t0 h
      exact Or.inl ⟨h, fun _ hh => absurd hh (not_holds_of_noCS (by rw [hpc]; trivial))⟩

theorem linv_init (n : Nat) : LInv (init n) := by
  intro g j t h
  have : getLock (init n) g j = none := by
    unfold getLock
    cases g with
    | zero => cases j <;> rfl
    | succ g => rfl
  rw [this] at h; cases h

theorem reachable_linv {n : Nat} {s : State} (hr : Reachable n s) : LInv s := by
  induction hr with
  | init => exact linv_init n
  | @step s s' t inv rz pick hr hs ih =>
    cases hl : s.threads[t]? with
    | none => unfold step stepG at hs; rw [hl] at hs; cases hs
    | some l => exact lstep (reachable_inv hr) ih hl (step_stepK hl hs)

end Flurry.Proto.BinNA
