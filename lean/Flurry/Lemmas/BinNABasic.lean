import Flurry.Lemmas.BinNAStep
/-! # Proto/BinNA: basic facts (cells, locks, indices, bin contents) and the invariants (definitions)

* `getCell_setCell`, `getLock_setLock`, frames of `setT` / `finish` / `tick`;
* arithmetic of the cell indices: `ix_succ` (the child of a key's cell), `ix_ix`;
* bin contents: `lookup_filter` (splitting), `lookup_newContent_self/_ne` (the writer's store);
* `TInv` (times, unique invocation stamps — as `Proto/BinX`), `Shape`, `Fwd` ("a thread may work in
  generation `g`"), `PcOK` (what a program counter knows), `Inv` (the structural invariant). -/
namespace Flurry.Proto.BinNA
open Flurry.Lin

/-! ## lists -/

theorem get_set {α : Type} {l : List α} {t t' : Nat} {a b : α} (h : (l.set t a)[t']? = some b) :
    (t' = t ∧ b = a) ∨ (t' ≠ t ∧ l[t']? = some b) := by
  rw [List.getElem?_set] at h
  by_cases htt : t = t'
  · rw [if_pos htt] at h
    split at h
    · cases h; exact Or.inl ⟨htt.symm, rfl⟩
    · cases h
  · rw [if_neg htt] at h
    exact Or.inr ⟨fun e => htt e.symm, h⟩

theorem get_set_self {α : Type} {l : List α} {t : Nat} {a b : α} (h : l[t]? = some b) :
    (l.set t a)[t]? = some a := by
  rw [List.getElem?_set, if_pos rfl, if_pos (List.getElem?_eq_some_iff.1 h).1]

theorem get_set_ne {α : Type} {l : List α} {t t' : Nat} {a : α} (h : t' ≠ t) :
    (l.set t a)[t']? = l[t']? := by
  rw [List.getElem?_set, if_neg (fun e => h e.symm)]

theorem getD2_modify_set {α : Type} (tabs : List (List α)) (g j g' j' : Nat) (c d : α) :
    ((tabs.modify g (fun row => row.set j c)).getD g' []).getD j' d =
      if g' = g ∧ j' = j ∧ j < (tabs.getD g []).length then c else (tabs.getD g' []).getD j' d := by
  simp only [List.getD_eq_getElem?_getD, List.getElem?_modify]
  by_cases hg : g = g'
  · subst hg
    cases h : tabs[g]? with
    | none => simp
    | some row =>
      simp only [if_true, Option.getD_some]
      by_cases hj : j = j'
      · subst hj
        by_cases hlt : j < row.length
        · simp [hlt]
        · simp [hlt]
      · have : ¬ (j' = j) := fun e => hj e.symm
        simp [hj, this]
  · have : ¬ (g' = g) := fun e => hg e.symm
    simp [hg, this]

theorem len2_modify_set {α : Type} (tabs : List (List α)) (g j g' : Nat) (c : α) :
    ((tabs.modify g (fun row => row.set j c)).getD g' []).length = (tabs.getD g' []).length := by
  simp only [List.getD_eq_getElem?_getD, List.getElem?_modify]
  by_cases hg : g = g'
  · subst hg
    cases h : tabs[g]? with
    | none => simp
    | some row => simp
  · simp [hg]

theorem getD2_append_replicate {α : Type} (tabs : List (List α)) (n g j : Nat) (d : α) :
    ((tabs ++ [List.replicate n d]).getD g []).getD j d = (tabs.getD g []).getD j d := by
  simp only [List.getD_eq_getElem?_getD]
  rcases Nat.lt_trichotomy g tabs.length with h | h | h
  · rw [List.getElem?_append_left h]
  · subst h
    rw [List.getElem?_append_right (Nat.le_refl _)]
    simp only [Nat.sub_self, List.getElem?_cons_zero, Option.getD_some, List.getElem?_replicate,
      List.getElem?_eq_none (Nat.le_refl _), Option.getD_none, List.getElem?_nil]
    split <;> rfl
  · rw [List.getElem?_append_right (Nat.le_of_lt h)]
    have : g - tabs.length = (g - tabs.length - 1) + 1 := by omega
    rw [this]
    simp [List.getElem?_eq_none (Nat.le_of_lt h)]

/-! ## cells and locks -/

theorem getCell_setCell (s : State) (g j g' j' : Nat) (c : Cell) :
    getCell (setCell s g j c) g' j' =
      if g' = g ∧ j' = j ∧ j < (s.tabs.getD g []).length then c else getCell s g' j' :=
  getD2_modify_set s.tabs g j g' j' c .empty

theorem getLock_setLock (s : State) (g j g' j' : Nat) (x : Option Nat) :
    getLock (setLock s g j x) g' j' =
      if g' = g ∧ j' = j ∧ j < (s.locks.getD g []).length then x else getLock s g' j' :=
  getD2_modify_set s.locks g j g' j' x none

theorem getCell_oob {s : State} {g j : Nat} (h : s.tabs.length ≤ g) : getCell s g j = .empty := by
  unfold getCell
  simp [List.getD_eq_getElem?_getD, List.getElem?_eq_none h]

theorem pow_pos' (g : Nat) : 0 < 2 ^ g := Nat.two_pow_pos g

/-! ## indices -/

theorem ix_lt (g k : Nat) : ix g k < 2 ^ g := Nat.mod_lt _ (pow_pos' g)

theorem ix_succ (g k : Nat) : ix (g + 1) k = if hiBit g k then ix g k + 2 ^ g else ix g k := by
  unfold ix hiBit
  rw [Nat.mod_pow_succ]
  have : k / 2 ^ g % 2 < 2 := Nat.mod_lt _ (by omega)
  by_cases h : k / 2 ^ g % 2 = 1
  · simp [h]
  · have h0 : k / 2 ^ g % 2 = 0 := by omega
    simp [h0]

theorem ix_ix (g k : Nat) : ix (g + 1) k % 2 ^ g = ix g k := by
  unfold ix
  exact Nat.mod_mod_of_dvd k ⟨2, by rw [Nat.pow_succ]⟩

theorem ix_mod (g k : Nat) : ix g k % 2 ^ g = ix g k := Nat.mod_eq_of_lt (ix_lt g k)

/-! ## bin contents -/

theorem lookup_filter (k : Nat) (q : Nat → Bool) (xs : List Entry) :
    lookup k (xs.filter (fun e => q e.1)) = if q k then lookup k xs else none := by
  unfold lookup
  induction xs with
  | nil => simp
  | cons e xs ih =>
    simp only [List.filter_cons]
    by_cases he : e.1 = k
    · subst he
      cases hq : q e.1 <;> simp [hq] at ih ⊢
      · exact ih
    · cases hq : q e.1 <;> simp [he] at ih ⊢ <;> exact ih

theorem lookup_splitLo (g k : Nat) (xs : List Entry) :
    lookup k (splitLo g xs) = if hiBit g k then none else lookup k xs := by
  unfold splitLo
  rw [lookup_filter k (fun a => !hiBit g a)]
  cases hiBit g k <;> rfl

theorem lookup_splitHi (g k : Nat) (xs : List Entry) :
    lookup k (splitHi g xs) = if hiBit g k then lookup k xs else none :=
  lookup_filter k (fun a => hiBit g a) xs

theorem cellAbs_mkCell (k : Nat) (xs : List Entry) : cellAbs k (mkCell xs) = lookup k xs := by
  cases xs <;> rfl

theorem mkCell_ne_moved (xs : List Entry) : mkCell xs ≠ .moved := by
  cases xs <;> simp [mkCell]

theorem cellAbs_content {k : Nat} {c : Cell} (h : c ≠ .moved) : cellAbs k c = lookup k (content c) := by
  cases c with
  | empty => rfl
  | list xs => rfl
  | moved => exact absurd rfl h

theorem lookup_cons (k : Nat) (e : Entry) (xs : List Entry) :
    lookup k (e :: xs) = if e.1 = k then some e.2 else lookup k xs := by
  unfold lookup
  rw [List.find?_cons]
  by_cases h : e.1 = k
  · simp [h]
  · have hb : (e.1 == k) = false := by simpa using h
    simp [h, hb]

theorem lookup_map_put (k k' : Nat) (v : Nat × Nat) (xs : List Entry) :
    lookup k' (xs.map (fun e => if e.1 == k then (k, v) else e)) =
      if k' = k then (lookup k xs).map (fun _ => v) else lookup k' xs := by
  induction xs with
  | nil => simp [lookup]
  | cons e xs ih =>
    simp only [List.map_cons, lookup_cons, ih]
    by_cases he : e.1 = k <;> by_cases hk : k' = k
    · subst hk; simp [he]
    · have h1 : ¬ k = k' := fun h => hk h.symm
      have h2 : ¬ e.1 = k' := fun h => hk (h.symm.trans he)
      simp [he, hk, h1]
    · subst hk; simp [he]
    · simp [he, hk]

theorem lookup_append_single (k k' : Nat) (v : Nat × Nat) (xs : List Entry) :
    lookup k' (xs ++ [(k, v)]) = match lookup k' xs with | some w => some w | none => if k' = k then some v else none := by
  unfold lookup
  rw [List.find?_append]
  cases h : xs.find? (fun e => e.1 == k') with
  | some w => simp
  | none =>
    by_cases hk : k' = k
    · subst hk; simp
    · have : ¬ (k = k') := fun e => hk e.symm
      simp [hk, this]

theorem lookup_newContent_self (k : Nat) (xs : List Entry) (st : KSt) :
    lookup k (newContent k xs st) = st := by
  cases st with
  | none =>
    show lookup k (xs.filter (fun e => !(e.1 == k))) = none
    rw [lookup_filter k (fun a => !(a == k))]
    simp
  | some v =>
    show lookup k (if (lookup k xs).isSome then xs.map (fun e => if e.1 == k then (k, v) else e)
      else xs ++ [(k, v)]) = some v
    split
    · rename_i h
      rw [lookup_map_put, if_pos rfl]
      cases h2 : lookup k xs with
      | none => rw [h2] at h; cases h
      | some w => rfl
    · rename_i h
      rw [lookup_append_single]
      cases h2 : lookup k xs with
      | none => simp
      | some w => rw [h2] at h; simp at h

theorem lookup_newContent_ne {k k' : Nat} (hne : k' ≠ k) (xs : List Entry) (st : KSt) :
    lookup k' (newContent k xs st) = lookup k' xs := by
  cases st with
  | none =>
    show lookup k' (xs.filter (fun e => !(e.1 == k))) = lookup k' xs
    rw [lookup_filter k' (fun a => !(a == k))]
    simp [hne]
  | some v =>
    show lookup k' (if (lookup k xs).isSome then xs.map (fun e => if e.1 == k then (k, v) else e)
      else xs ++ [(k, v)]) = lookup k' xs
    split
    · rw [lookup_map_put, if_neg hne]
    · rw [lookup_append_single]
      cases h2 : lookup k' xs with
      | none => simp [hne]
      | some w => rfl

/-! ## threads: times and invocation stamps (as `Proto/BinX`) -/

def PcOp : Pc → KOp → Prop
  | .rTable, op => isReader op = true
  | .rCell _, op => isReader op = true
  | .wTable, op => isReader op = false
  | .wCell _, op => isReader op = false
  | .wCas _, op => isReader op = false
  | .wLock _, op => isReader op = false
  | .wCheck _, op => isReader op = false
  | .wStore _, op => isReader op = false
  | .wUnlock _ _ _, op => isReader op = false
  | _, _ => True

/-- program counters of the resizing thread -/
def isT : Pc → Prop
  | .tNext | .tCell _ | .tCasMoved _ | .tLock _ | .tCheck _ | .tStoreLow _ _ _ | .tStoreHigh _ _
  | .tStoreMoved _ | .tUnlock _ | .tCommit => True
  | _ => False

/-- program counters of a call in flight -/
def isOp : Pc → Prop
  | .rTable | .rCell _ | .wTable | .wCell _ | .wCas _ | .wLock _ | .wCheck _ | .wStore _
  | .wUnlock _ _ _ => True
  | _ => False

structure TInv (s : State) : Prop where
  opOK : ∀ (t : Nat) (l : Local) (p : Pending), s.threads[t]? = some l → l.call = some p → PcOp l.pc p.op
  callOK : ∀ (t : Nat) (l : Local), s.threads[t]? = some l → (isOp l.pc ↔ l.call.isSome)
  histTime : ∀ x ∈ s.hist, x.2.inv ≤ x.2.resp ∧ x.2.resp ≤ s.now
  pendTime : ∀ (t : Nat) (l : Local) (p : Pending), s.threads[t]? = some l → l.call = some p → p.inv ≤ s.now
  uniqHP : ∀ x ∈ s.hist, ∀ (t : Nat) (l : Local) (p : Pending), s.threads[t]? = some l → l.call = some p →
    x.2.inv ≠ p.inv
  uniqPP : ∀ (t t' : Nat) (l l' : Local) (p p' : Pending), s.threads[t]? = some l → s.threads[t']? = some l' →
    l.call = some p → l'.call = some p' → p.inv = p'.inv → t = t'
  uniqHH : s.hist.Pairwise (fun x y => x.2.inv ≠ y.2.inv)

/-- a transition that keeps the pending call of the thread -/
theorem tinv_keep {s s' : State} {t : Nat} {l l' : Local} (T : TInv s)
    (hl : s.threads[t]? = some l) (hthr : s'.threads = s.threads.set t l') (hnow : s'.now = s.now + 1)
    (hhist : s'.hist = s.hist) (hcall : l'.call = l.call)
    (hpc : ∀ p, l.call = some p → PcOp l'.pc p.op) (hop : isOp l'.pc ↔ isOp l.pc) : TInv s' := by
  have key : ∀ (t1 : Nat) (l1 : Local) (p1 : Pending), s'.threads[t1]? = some l1 → l1.call = some p1 →
      ∃ l0, s.threads[t1]? = some l0 ∧ l0.call = some p1 ∧ (PcOp l0.pc p1.op → PcOp l1.pc p1.op) := by
    intro t1 l1 p1 h1 hc1
    rw [hthr] at h1
    rcases get_set h1 with ⟨rfl, rfl⟩ | ⟨_, h1⟩
    · exact ⟨l, hl, hcall ▸ hc1, fun _ => hpc p1 (hcall ▸ hc1)⟩
    · exact ⟨l1, h1, hc1, id⟩
  refine ⟨?_, ?_, ?_, ?_, ?_, ?_, ?_⟩
  · intro t1 l1 p1 h1 hc1
    obtain ⟨l0, h0, hc0, himp⟩ := key t1 l1 p1 h1 hc1
    exact himp (T.opOK t1 l0 p1 h0 hc0)
  · intro t1 l1 h1
    rw [hthr] at h1
    rcases get_set h1 with ⟨rfl, rfl⟩ | ⟨_, h1⟩
    · rw [hop, hcall]; exact T.callOK _ l hl
    · exact T.callOK t1 l1 h1
  · intro x hx
    rw [hhist] at hx
    have := T.histTime x hx
    omega
  · intro t1 l1 p1 h1 hc1
    obtain ⟨l0, h0, hc0, -⟩ := key t1 l1 p1 h1 hc1
    have := T.pendTime t1 l0 p1 h0 hc0
    omega
  · intro x hx t1 l1 p1 h1 hc1
    rw [hhist] at hx
    obtain ⟨l0, h0, hc0, -⟩ := key t1 l1 p1 h1 hc1
    exact T.uniqHP x hx t1 l0 p1 h0 hc0
  · intro t1 t2 l1 l2 p1 p2 h1 h2 hc1 hc2 he
    obtain ⟨l01, h01, hc01, -⟩ := key t1 l1 p1 h1 hc1
    obtain ⟨l02, h02, hc02, -⟩ := key t2 l2 p2 h2 hc2
    exact T.uniqPP t1 t2 l01 l02 p1 p2 h01 h02 hc01 hc02 he
  · rw [hhist]; exact T.uniqHH

/-- an invocation -/
theorem tinv_invoke {s s' : State} {t : Nat} {l l' : Local} {k : Nat} {op : KOp} (T : TInv s)
    (hl : s.threads[t]? = some l) (hthr : s'.threads = s.threads.set t l') (hnow : s'.now = s.now + 1)
    (hhist : s'.hist = s.hist) (hcall : l'.call = some ⟨k, op, s.now + 1⟩)
    (hpc : PcOp l'.pc op) (hop : isOp l'.pc) : TInv s' := by
  have key : ∀ (t1 : Nat) (l1 : Local) (p1 : Pending), s'.threads[t1]? = some l1 → l1.call = some p1 →
      (t1 = t ∧ l1 = l' ∧ p1 = ⟨k, op, s.now + 1⟩) ∨ (t1 ≠ t ∧ s.threads[t1]? = some l1) := by
    intro t1 l1 p1 h1 hc1
    rw [hthr] at h1
    rcases get_set h1 with ⟨rfl, rfl⟩ | ⟨hne, h1⟩
    · rw [hcall] at hc1; cases hc1
      exact Or.inl ⟨rfl, rfl, rfl⟩
    · exact Or.inr ⟨hne, h1⟩
  refine ⟨?_, ?_, ?_, ?_, ?_, ?_, ?_⟩
  · intro t1 l1 p1 h1 hc1
    rcases key t1 l1 p1 h1 hc1 with ⟨rfl, rfl, rfl⟩ | ⟨_, h0⟩
    · exact hpc
    · exact T.opOK t1 l1 p1 h0 hc1
  · intro t1 l1 h1
    rw [hthr] at h1
    rcases get_set h1 with ⟨rfl, rfl⟩ | ⟨_, h1⟩
    · rw [hcall]; exact ⟨fun _ => rfl, fun _ => hop⟩
    · exact T.callOK t1 l1 h1
  · intro x hx
    rw [hhist] at hx
    have := T.histTime x hx
    omega
  · intro t1 l1 p1 h1 hc1
    rcases key t1 l1 p1 h1 hc1 with ⟨rfl, rfl, rfl⟩ | ⟨_, h0⟩
    · simp only; omega
    · have := T.pendTime t1 l1 p1 h0 hc1
      omega
  · intro x hx t1 l1 p1 h1 hc1
    rw [hhist] at hx
    rcases key t1 l1 p1 h1 hc1 with ⟨rfl, rfl, rfl⟩ | ⟨_, h0⟩
    · have := T.histTime x hx
      simp only; omega
    · exact T.uniqHP x hx t1 l1 p1 h0 hc1
  · intro t1 t2 l1 l2 p1 p2 h1 h2 hc1 hc2 he
    rcases key t1 l1 p1 h1 hc1 with ⟨rfl, rfl, rfl⟩ | ⟨hne1, h01⟩ <;>
      rcases key t2 l2 p2 h2 hc2 with ⟨rfl, rfl, rfl⟩ | ⟨hne2, h02⟩
    · rfl
    · have := T.pendTime t2 l2 p2 h02 hc2
      simp only at he; omega
    · have := T.pendTime t1 l1 p1 h01 hc1
      simp only at he; omega
    · exact T.uniqPP t1 t2 l1 l2 p1 p2 h01 h02 hc1 hc2 he
  · rw [hhist]; exact T.uniqHH

/-- a call completes -/
theorem tinv_finish {s s' : State} {t : Nat} {l l' : Local} {p : Pending} {res : KRes} (T : TInv s)
    (hl : s.threads[t]? = some l) (hp : l.call = some p)
    (hthr : s'.threads = s.threads.set t l') (hnow : s'.now = s.now + 1)
    (hhist : s'.hist = (p.key, ⟨t, p.op, res, p.inv, s.now + 1⟩) :: s.hist) (hcall : l'.call = none)
    (hop : ¬ isOp l'.pc) : TInv s' := by
  have key : ∀ (t1 : Nat) (l1 : Local) (p1 : Pending), s'.threads[t1]? = some l1 → l1.call = some p1 →
      t1 ≠ t ∧ s.threads[t1]? = some l1 := by
    intro t1 l1 p1 h1 hc1
    rw [hthr] at h1
    rcases get_set h1 with ⟨rfl, rfl⟩ | ⟨hne, h1⟩
    · rw [hcall] at hc1; cases hc1
    · exact ⟨hne, h1⟩
  have hpi := T.pendTime t l p hl hp
  refine ⟨?_, ?_, ?_, ?_, ?_, ?_, ?_⟩
  · intro t1 l1 p1 h1 hc1
    exact T.opOK t1 l1 p1 (key t1 l1 p1 h1 hc1).2 hc1
  · intro t1 l1 h1
    rw [hthr] at h1
    rcases get_set h1 with ⟨rfl, rfl⟩ | ⟨_, h1⟩
    · rw [hcall]; exact ⟨fun h => absurd h hop, fun h => by cases h⟩
    · exact T.callOK t1 l1 h1
  · intro x hx
    rw [hhist] at hx
    rcases List.mem_cons.1 hx with rfl | hx
    · simp only; omega
    · have := T.histTime x hx
      omega
  · intro t1 l1 p1 h1 hc1
    have := T.pendTime t1 l1 p1 (key t1 l1 p1 h1 hc1).2 hc1
    omega
  · intro x hx t1 l1 p1 h1 hc1
    obtain ⟨hne, h0⟩ := key t1 l1 p1 h1 hc1
    rw [hhist] at hx
    rcases List.mem_cons.1 hx with rfl | hx
    · simp only
      intro he
      exact hne (T.uniqPP t1 t l1 l p1 p h0 hl hc1 hp he.symm)
    · exact T.uniqHP x hx t1 l1 p1 h0 hc1
  · intro t1 t2 l1 l2 p1 p2 h1 h2 hc1 hc2 he
    exact T.uniqPP t1 t2 l1 l2 p1 p2 (key t1 l1 p1 h1 hc1).2 (key t2 l2 p2 h2 hc2).2 hc1 hc2 he
  · rw [hhist]
    refine List.pairwise_cons.2 ⟨?_, T.uniqHH⟩
    intro y hy
    simp only
    exact fun he => T.uniqHP y hy t l p hl hp he.symm

/-! ## the structural invariant (definitions) -/

structure Shape (s : State) : Prop where
  len : s.tabs.length = s.cur + 1 + (if s.resizing = true then 1 else 0)
  llen : s.locks.length = s.tabs.length
  row : ∀ g, g < s.tabs.length → (s.tabs.getD g []).length = 2 ^ g
  lrow : ∀ g, g < s.tabs.length → (s.locks.getD g []).length = 2 ^ g

/-- a thread may work on cell `(g, j)`: `g` is at most the generation being filled, and then the
parent cell has been forwarded -/
def Fwd (s : State) (g j : Nat) : Prop :=
  g ≤ s.cur + 1 ∧ (g = s.cur + 1 → getCell s s.cur (j % 2 ^ s.cur) = .moved)

def keyOf (l : Local) : Nat := match l.call with | some p => p.key | none => 0

/-- what the program counter of thread `t` (working on key `key`) knows about the shared state -/
def PcOK (s : State) (t key : Nat) : Pc → Prop
  | .idle | .rTable | .wTable => True
  | .rCell g | .wCell g | .wCas g | .wLock g => Fwd s g (ix g key)
  | .wCheck g | .wUnlock g _ _ => Fwd s g (ix g key) ∧ getLock s g (ix g key) = some t
  | .wStore g => Fwd s g (ix g key) ∧ getLock s g (ix g key) = some t ∧
      isList (getCell s g (ix g key)) = true
  | .tNext => s.resizing = true
  | .tCommit => s.resizing = true ∧ ∀ j, j < 2 ^ s.cur → getCell s s.cur j = .moved
  | .tCell j | .tCasMoved j | .tLock j => s.resizing = true ∧ j < 2 ^ s.cur
  | .tCheck j | .tUnlock j => s.resizing = true ∧ j < 2 ^ s.cur ∧ getLock s s.cur j = some t
  | .tStoreLow j lo hi => s.resizing = true ∧ j < 2 ^ s.cur ∧ getLock s s.cur j = some t ∧
      ∃ xs, getCell s s.cur j = .list xs ∧ lo = mkCell (splitLo s.cur xs) ∧ hi = mkCell (splitHi s.cur xs) ∧
        getCell s (s.cur + 1) j = .empty ∧ getCell s (s.cur + 1) (j + 2 ^ s.cur) = .empty
  | .tStoreHigh j hi => s.resizing = true ∧ j < 2 ^ s.cur ∧ getLock s s.cur j = some t ∧
      ∃ xs, getCell s s.cur j = .list xs ∧ getCell s (s.cur + 1) j = mkCell (splitLo s.cur xs) ∧
        hi = mkCell (splitHi s.cur xs) ∧ getCell s (s.cur + 1) (j + 2 ^ s.cur) = .empty
  | .tStoreMoved j => s.resizing = true ∧ j < 2 ^ s.cur ∧ getLock s s.cur j = some t ∧
      ∃ xs, getCell s s.cur j = .list xs ∧ getCell s (s.cur + 1) j = mkCell (splitLo s.cur xs) ∧
        getCell s (s.cur + 1) (j + 2 ^ s.cur) = mkCell (splitHi s.cur xs)

/-- the resizing thread has stored (some of) the children of cell `j` but not yet the marker -/
def MidAt : Pc → Nat → Prop
  | .tStoreHigh j _, j' => j = j'
  | .tStoreMoved j, j' => j = j'
  | _, _ => False

structure Inv (s : State) : Prop where
  shape : Shape s
  thr : TInv s
  /-- every cell of an older generation is a forwarding marker (for ever) -/
  old : ∀ g j, g < s.cur → j < 2 ^ g → getCell s g j = .moved
  /-- no cell of a generation above the current one is a marker -/
  newer : ∀ g j, s.cur < g → getCell s g j ≠ .moved
  noRz : s.resizing = false → ∀ j, getCell s s.cur j ≠ .moved
  /-- the children of a cell that is not forwarded are empty unless the resizer is just storing them -/
  child : ∀ j', getCell s s.cur (j' % 2 ^ s.cur) ≠ .moved →
    (∀ (t : Nat) (l : Local), s.threads[t]? = some l → ¬ MidAt l.pc (j' % 2 ^ s.cur)) → getCell s (s.cur + 1) j' = .empty
  pc : ∀ (t : Nat) (l : Local), s.threads[t]? = some l → PcOK s t (keyOf l) l.pc
  uniqT : ∀ (t t' : Nat) (l l' : Local), s.threads[t]? = some l → s.threads[t']? = some l' → isT l.pc → isT l'.pc → t = t'

end Flurry.Proto.BinNA
