import Flurry.Lemmas.SeqOpsCap
/-! # O8, `no_growth_with_room` with a hypothesis on the *inputs*: fewer than 8 of the inserted
keys hash to any one bin of the table `with_capacity(c)` allocates -/
namespace Flurry.Seq
open Flurry Flurry.Gen

theorem nodup_subset_length_le {α : Type} [DecidableEq α] :
    ∀ (l₁ l₂ : List α), l₁.Nodup → (∀ a ∈ l₁, a ∈ l₂) → l₁.length ≤ l₂.length := by
  intro l₁
  induction l₁ with
  | nil => intro l₂ _ _; exact Nat.zero_le _
  | cons a l₁ ih =>
    intro l₂ hn hs
    obtain ⟨ha, hn'⟩ := List.nodup_cons.1 hn
    have hmem : a ∈ l₂ := hs a (by simp)
    have := ih (l₂.erase a) hn' (by
      intro b hb
      have hne : b ≠ a := fun e => ha (e ▸ hb)
      exact (List.mem_erase_of_ne hne).2 (hs b (by simp [hb])))
    rw [List.length_erase_of_mem hmem] at this
    have hpos : 0 < l₂.length := List.length_pos_of_mem hmem
    simp only [List.length_cons]
    omega

theorem Ref.insertAll_isSome {items : List (Nat × Nat × Nat × Nat)} {r : Ref} {k : Nat}
    (h : (Ref.insertAll items r k).isSome = true) :
    (r k).isSome = true ∨ k ∈ items.map (·.1) := by
  by_cases hk : k ∈ items.map (·.1)
  · exact Or.inr hk
  · left
    rw [Ref.insertAll_of_not_mem items r k] at h
    · exact h
    · intro it hit he
      exact hk (List.mem_map.2 ⟨it, hit, he⟩)

/-- the number of the given keys that the hash sends to bin `i` of a table of `n` bins -/
def keysInBin (hash : Nat → Nat) (n i : Nat) (keys : List Nat) : Nat :=
  (keys.filter (fun k => bini (hash k) n == i)).length

theorem keysInBin_append (hash : Nat → Nat) (n i : Nat) (l₁ l₂ : List Nat) :
    keysInBin hash n i (l₁ ++ l₂) = keysInBin hash n i l₁ + keysInBin hash n i l₂ := by
  simp [keysInBin, List.filter_append]

/-- a bin holds at most as many nodes as present keys hash to it -/
theorem bin_length_le {m : Map} {t : Table} (hg : Good m) (ht : m.table = some t)
    (keys : List Nat) (hkeys : ∀ k, (absMap m k).isSome = true → k ∈ keys) (i : Nat) :
    (tableBin t i).nodes.length ≤ keysInBin m.hash t.length i keys := by
  have htw := hg.1.tableWF ht
  by_cases hi : i < t.length
  · have hnd : ((tableBin t i).nodes.map (·.key)).Nodup := (htw.bin i).keysNodup
    have := nodup_subset_length_le ((tableBin t i).nodes.map (·.key))
      (keys.filter (fun k => bini (m.hash k) t.length == i)) hnd (by
        intro k hk
        obtain ⟨nd, hnd, rfl⟩ := List.mem_map.1 hk
        have hok := htw.nodeOk hnd
        have hmem : nd ∈ entries m := by
          rw [entries_eq ht]; exact mem_flatMap_nodes.2 ⟨i, hi, hnd⟩
        rw [List.mem_filter]
        refine ⟨hkeys _ ((absMap_isSome_iff hg nd.key).2 (List.mem_map.2 ⟨nd, hmem, rfl⟩)), ?_⟩
        rw [← hok.1, hok.2]; exact beq_self_eq_true i)
    rw [List.length_map] at this
    exact this
  · rw [tableBin_of_le (by omega)]; exact Nat.zero_le _

/-- **O8 `no_growth_with_room`, on inputs**: at most `c` inserts into `with_capacity(c)`
(`0 < c < 2^29`) such that fewer than 8 (`TREEIFY_THRESHOLD`) of the inserted keys hash to any one
of the `presizeCap c` bins never resize. -/
theorem no_growth_with_room_hash (hash : Nat → Nat) (c : Nat) (hc0 : 0 < c)
    (hc : c < MAXIMUM_CAPACITY / 2) :
    ∀ (n : Nat) (items : List (Nat × Nat × Nat × Nat)), items.length = n → items.length ≤ c →
    (∀ i, keysInBin hash (presizeCap c) i (items.map (·.1)) < TREEIFY_THRESHOLD) →
    tableLen (putAll items (withCapacity hash c)) = presizeCap c ∧
    (putAll items (withCapacity hash c)).resizes = 0 := by
  intro n
  induction n using Nat.strongRecOn with
  | _ n ih =>
    intro items hn hlen hbins
    refine no_growth_with_room_bins hash c hc0 hc items hlen ?_
    intro pre it post he
    have hlt : pre.length < n := by rw [← hn, he]; simp
    have hle : ∀ i, keysInBin hash (presizeCap c) i (pre.map (·.1)) ≤
        keysInBin hash (presizeCap c) i (items.map (·.1)) := by
      intro i; rw [he, List.map_append, keysInBin_append]; omega
    obtain ⟨hl, -⟩ := ih pre.length hlt pre rfl (by omega)
      (fun i => Nat.lt_of_le_of_lt (hle i) (hbins i))
    have hg := putAll_good pre (good_withCapacity hash c)
    have hhash : (putAll pre (withCapacity hash c)).hash = hash := by
      rw [(putAll_spec pre (good_withCapacity hash c)).2.2.1, withCapacity_hash]
    intro t ht i
    have hkeys : ∀ k, (absMap (putAll pre (withCapacity hash c)) k).isSome = true →
        k ∈ pre.map (·.1) := by
      intro k hk
      rw [putAll_absMap pre (good_withCapacity hash c), absMap_withCapacity] at hk
      rcases Ref.insertAll_isSome hk with h | h
      · cases h
      · exact h
    have := bin_length_le hg ht (pre.map (·.1)) hkeys i
    rw [hhash, ← tableLen_of_some ht, hl] at this
    exact Nat.lt_of_le_of_lt this (Nat.lt_of_le_of_lt (hle i) (hbins i))

end Flurry.Seq
