import Flurry.Lemmas.BinGNPLock
import Flurry.Lemmas.BinGNPGhostL
import Flurry.Lemmas.BinGNPShape
/-! # Proto/BinGN (port of `Lemmas/BinGInvQ.lean`): the quiet path — transitions that touch lock words and program counters only

The transitions that leave every `TreeBin` alone (`Move`, `KMove`, `Fin`, idle / maint / invoke / resizeStart /
xcommit). Every such transition establishes `Eff s s'` and leaves every abstract state alone.

What differs from BinG:
* `resizeStart` appends a generation to `tabs` (no cell changes its reading) and `xcommit` changes `cur`: neither is
  `Quiet` in the sense of `Lemmas/BinGNPInvBasic.lean` (`s'.tabs = s.tabs`, `s'.cur = s.cur`). The generic part is
  therefore done for `QuietC s s'` (fields `cells : ∀ id, cellAt s' id = cellAt s id`, `heap`, `tlen`, `first`;
  `Quiet.toC`); the lemmas of `BinGNPInvBasic` about `Quiet` are repeated for `QuietC` (`QuietC.*`, `*.quietC`),
  those that mention `cur` take `hcur : s'.cur = s.cur`. The BinG names (`Quiet.kstep`, …, `xinv_q`, `dinv_q`,
  `eff_of_quiet`) are kept for `Quiet`, the general versions are `QuietC.kstep`, …, `xinv_qC`, `dinv_qC`,
  `eff_of_quietC`.
* `XInv s'`: every lemma takes `XS' : XShape s'` and shows `plan` only (`xinv_q`, `xinv_of_facts`, `eff_quiet_step`,
  every `eff_*`). `XFacts` shrinks to `pend`, `src` (`Move.xfacts`, `KMove.xfacts` no longer need `HInv`).
* `PrivBin s b` names the cell under transfer by the program counter (`privBin_of_pend`, `XPc.quiet`).
* `Inv.not_priv` / `Inv.ref_of_cellOf` ("the `TreeBin` a thread finds in the cell it loads is published") do NOT follow
  from `Inv` in BinGN (as far as `Inv` knows, a `TreeBin` planned by the transfer of another cell could be an empty
  `TreeBin` of this cell). They are replaced by the hypothesis `PubRead s` of `Move.lfacts` / `eff_move`;
  `pubRead_of_planSep : Inv s → PlanSep s → PubRead s` reduces it to the separation property `PlanSep s` (a pending
  `TreeBin` of the transfer of `(cur, j)` is in no cell but `(cur, j)` and its children), which the top-level induction
  has to carry in addition to `Inv`. `KMove.lfacts` / `eff_kmove` do not need it (the reader is the resizing thread).
* `eff_quiet_core` takes `hcells : ∀ id, cellAt s' id = cellAt s id` and `hcur` (so that it covers `resizeStart`,
  `cellAt_alloc`); `eff_xcommit` is proved directly (`lk_step_gen` / `mx_step_gen` / `rw_cell`, `cidOf_others`; the live
  cell id of every key is unchanged: `XInv.post`, `XInv.newNotMoved`).
* not ported: `Quiet.hinv'` (`QuietC.hinv'` takes the `binsDistinct` clause of `s'` as a hypothesis instead),
  `cell0_of_cellOf_moved`, `Inv.not_priv`, `Inv.ref_of_cellOf`; `Quiet.liveId_eq`, `liveCell_congr` are in
  `BinGNPInvBasic`. -/
namespace Flurry.Proto.BinGNP
open Flurry.Lin
open Flurry.Proto.BinK (nodeAt binAt lockSet isInsert NextOK IsChain IsSeg chainOf CInv absL HeapEqv get_set
  get_set_self get_set_ne nodeAt_of_some getElem?_nodeAt binAt_modify binAt_modify_self binAt_modify_ne
  heapEqv_lockSet chainOf_isChain)

/-! ## `QuietC`: `Quiet` with "every cell reads the same" instead of "same tables", and without `cur` -/

structure QuietC (s s' : State) : Prop where
  cells : ∀ id, cellAt s' id = cellAt s id
  heap : Flurry.Proto.BinK.HeapEqv s.heap s'.heap
  tlen : s'.tbins.length = s.tbins.length
  first : ∀ b, (binAt s'.tbins b).first = (binAt s.tbins b).first

theorem QuietC.cellAt_eq {s s' : State} (q : QuietC s s') (id : Cid) : cellAt s' id = cellAt s id :=
  q.cells id

theorem QuietC.cellOf_eq {s s' : State} (q : QuietC s s') (tab : Nat) (k : Nat) : cellOf s' tab k = cellOf s tab k := by
  rw [BinGNP.cellOf_eq, BinGNP.cellOf_eq, q.cellAt_eq]

theorem QuietC.startOf_eq {s s' : State} (q : QuietC s s') (c : Cell) : startOf s'.tbins c = startOf s.tbins c := by
  cases c with
  | empty => rfl
  | list h => rfl
  | tree b => exact q.first b
  | moved => rfl

theorem QuietC.key_eq {s s' : State} (q : QuietC s s') (j : Nat) : (nodeAt s'.heap j).key = (nodeAt s.heap j).key :=
  (q.heap.2 j).1

theorem QuietC.val_eq {s s' : State} (q : QuietC s s') (j : Nat) : (nodeAt s'.heap j).val = (nodeAt s.heap j).val :=
  (q.heap.2 j).2.1

theorem QuietC.next_eq {s s' : State} (q : QuietC s s') (j : Nat) : (nodeAt s'.heap j).next = (nodeAt s.heap j).next :=
  (q.heap.2 j).2.2.1

theorem QuietC.inTree_eq {s s' : State} (q : QuietC s s') (j : Nat) :
    (nodeAt s'.heap j).inTree = (nodeAt s.heap j).inTree :=
  (q.heap.2 j).2.2.2.1

theorem QuietC.owner_eq {s s' : State} (q : QuietC s s') (j : Nat) :
    (nodeAt s'.heap j).owner = (nodeAt s.heap j).owner :=
  (q.heap.2 j).2.2.2.2

theorem QuietC.hlen {s s' : State} (q : QuietC s s') : s'.heap.length = s.heap.length := q.heap.1

/-- the chain from any start -/
theorem QuietC.chainOf_eq {s s' : State} (q : QuietC s s') (H : HInv s) (st : Option Nat) :
    chainOf s'.heap st = chainOf s.heap st :=
  chainOf_congr' H.nextOK q.heap st

/-- the list of any structure (no validity of its start is needed) -/
theorem QuietC.chainC_eq {s s' : State} (q : QuietC s s') (H : HInv s) (c : Cell) : chainC s' c = chainC s c := by
  unfold chainC
  rw [q.startOf_eq, q.chainOf_eq H]

theorem QuietC.chainC_cell {s s' : State} (q : QuietC s s') (H : HInv s) (id : Cid) :
    chainC s' (cellAt s' id) = chainC s (cellAt s id) := by
  rw [q.cellAt_eq, q.chainC_eq H]

theorem QuietC.chainOfBin_eq {s s' : State} (q : QuietC s s') (H : HInv s) (b : Nat) :
    chainOfBin s' b = chainOfBin s b := by
  rw [BinGNP.chainOfBin_eq, BinGNP.chainOfBin_eq]; exact q.chainC_eq H _

theorem QuietC.chainC_list {s s' : State} (q : QuietC s s') (H : HInv s) (h : Nat) :
    chainC s' (.list h) = chainC s (.list h) := q.chainC_eq H _

theorem QuietC.treeOf_iff {s s' : State} (q : QuietC s s') (c : Cell) (j : Nat) : treeOf s' c j ↔ treeOf s c j := by
  unfold treeOf
  rw [q.hlen, q.inTree_eq, q.owner_eq]

theorem QuietC.cinv {s s' : State} (q : QuietC s s') (H : HInv s) {c : Cell}
    (C : CInv s.heap (startOf s.tbins c) (treeOf s c)) : CInv s'.heap (startOf s'.tbins c) (treeOf s' c) := by
  refine ⟨H.nextOK.congr q.heap, ?_, ?_⟩
  · intro h hh
    rw [q.startOf_eq] at hh
    rw [q.hlen]; exact C.startOK h hh
  · intro a b ha hb hab
    rw [q.startOf_eq, q.chainOf_eq H] at ha hb
    rw [q.key_eq, q.key_eq] at hab
    refine C.keysDistinct a b ?_ ?_ hab
    · rcases ha with h | h
      · exact Or.inl h
      · exact Or.inr ((q.treeOf_iff c a).1 h)
    · rcases hb with h | h
      · exact Or.inl h
      · exact Or.inr ((q.treeOf_iff c b).1 h)

theorem QuietC.hinv' {s s' : State} (q : QuietC s s') (H : HInv s)
    (hbd : ∀ (id id' : Cid) b, cellAt s id = .tree b → cellAt s id' = .tree b → id = id' ∨
      ∃ j0, Reusing s' b j0 ∧ ((id = (s'.cur, j0) ∧ id'.1 = s'.cur + 1 ∧ id'.2 % 2 ^ s'.cur = j0) ∨
        (id' = (s'.cur, j0) ∧ id.1 = s'.cur + 1 ∧ id.2 % 2 ^ s'.cur = j0))) : HInv s' := by
  refine ⟨?_, ?_, ?_, ?_, ?_, ?_, ?_⟩
  · intro id
    rw [q.cellAt_eq]
    exact q.cinv H (H.cinv id)
  · intro j b hj
    rw [q.owner_eq] at hj
    rw [q.tlen]; exact H.ownerOK j b hj
  · intro b h hh
    rw [q.first] at hh
    rw [q.hlen]; exact H.firstOK b h hh
  · intro id b hb
    rw [q.cellAt_eq] at hb
    rw [q.tlen]; exact H.cellOK id b hb
  · intro id j hj
    rw [q.chainC_cell H] at hj
    rw [q.owner_eq, q.cellAt_eq]
    exact H.chainOwner id j hj
  · intro id j hj
    rw [q.chainC_cell H, q.cellAt_eq, q.treeOf_iff] at hj
    rw [q.key_eq]
    exact H.side id j hj
  · intro id id' b h1 h2
    rw [q.cellAt_eq] at h1 h2
    exact hbd id id' b h1 h2

theorem QuietC.hinv {s s' : State} (q : QuietC s s') (H : HInv s) (hcur : s'.cur = s.cur)
    (hre : ∀ b j0, Reusing s b j0 → Reusing s' b j0) : HInv s' := by
  refine q.hinv' H ?_
  intro id id' b h1 h2
  rcases H.binsDistinct id id' b h1 h2 with h | ⟨j0, hr, h⟩
  · exact Or.inl h
  · exact Or.inr ⟨j0, hre b j0 hr, by rw [hcur]; exact h⟩

/-- only a *fresh* `TreeBin` of the structure (`old ≠ .tree b`) has to be unchanged -/
theorem QuietC.copyOK' {s s' : State} (q : QuietC s s') (H : HInv s) {old : Cell} {sel : Nat → Bool} {C : Cell}
    (hb : ∀ b, C = .tree b → old ≠ .tree b → binAt s'.tbins b = binAt s.tbins b)
    (h : CopyOK s old sel C) : CopyOK s' old sel C := by
  have eC : chainC s' C = chainC s C := q.chainC_eq H C
  have eO : chainC s' old = chainC s old := q.chainC_eq H old
  have hk : ∀ j, (nodeAt s'.heap j).key = (nodeAt s.heap j).key := q.key_eq
  have hv : ∀ j, (nodeAt s'.heap j).val = (nodeAt s.heap j).val := q.val_eq
  have ho : ∀ j, (nodeAt s'.heap j).owner = (nodeAt s.heap j).owner := q.owner_eq
  have hi : ∀ j, (nodeAt s'.heap j).inTree = (nodeAt s.heap j).inTree := q.inTree_eq
  have ht : ∀ j, treeOf s' C j ↔ treeOf s C j := q.treeOf_iff C
  refine ⟨h.notMoved, q.cinv H h.cinv, ?_, ?_, ?_, ?_, ?_, ?_, ?_, ?_⟩
  · intro b hb'
    rw [q.tlen]; exact h.cellOK b hb'
  · intro j hj
    rw [eC] at hj
    rw [ho]; exact h.chainOwner j hj
  · intro j hj
    rw [eC, ht] at hj
    rw [hk]; exact h.selOK j hj
  · intro j hj hjo
    rw [eC] at hj
    rw [eO] at hjo
    obtain ⟨i, hi1, hi2, hi3, hi4⟩ := h.src j hj hjo
    refine ⟨i, by rw [eO]; exact hi1, by rw [hk, hk]; exact hi2, by rw [hv, hv]; exact hi3, ?_⟩
    intro r hr hrc
    rw [eO] at hr ⊢
    rw [eC] at hrc
    exact hi4 r hr hrc
  · intro i hi1 hsel
    rw [eO] at hi1
    rw [hk] at hsel
    obtain ⟨j, hj1, hj2, hj3, hj4⟩ := h.cover i hi1 hsel
    refine ⟨j, by rw [eC]; exact hj1, by rw [hk, hk]; exact hj2, by rw [hv, hv]; exact hj3, ?_⟩
    rw [eO]; exact hj4
  · intro r hr hrc i hi1 hsub
    rw [eO] at hr hi1 hsub
    rw [eC] at hrc ⊢
    exact h.suffix r hr hrc i hi1 hsub
  · intro i c hi1 hc hsub
    rw [eO] at hi1 hc ⊢
    rw [eC] at hsub
    exact h.order i c hi1 hc hsub
  · intro b hCb hob
    obtain ⟨f1, f2, f3⟩ := h.fresh b hCb hob
    refine ⟨by rw [hb b hCb hob]; exact f1, ?_, ?_⟩
    · intro j hj
      rw [q.hlen] at hj
      rw [ho, eC]; exact f2 j hj
    · intro j hj
      rw [eC] at hj
      rw [hi]; exact f3 j hj

theorem QuietC.copyOK {s s' : State} (q : QuietC s s') (H : HInv s) {old : Cell} {sel : Nat → Bool} {C : Cell}
    (hb : ∀ b, C = .tree b → binAt s'.tbins b = binAt s.tbins b)
    (h : CopyOK s old sel C) : CopyOK s' old sel C :=
  q.copyOK' H (fun b hC _ => hb b hC) h

/-- only the *fresh* `TreeBin`s of the plan (not the re-used old one) have to be unchanged -/
theorem QuietC.plan' {s s' : State} (q : QuietC s s') (H : HInv s) (hcur : s'.cur = s.cur) {j : Nat} {lo hi : Cell}
    (hlo : ∀ b, lo = .tree b → cellAt s (s.cur, j) ≠ .tree b → binAt s'.tbins b = binAt s.tbins b)
    (hhi : ∀ b, hi = .tree b → cellAt s (s.cur, j) ≠ .tree b → binAt s'.tbins b = binAt s.tbins b)
    (h : Plan s j lo hi) : Plan s' j lo hi := by
  refine ⟨?_, ?_, h.distinct⟩
  · rw [q.cellAt_eq, hcur]; exact q.copyOK' H hlo h.low
  · rw [q.cellAt_eq, hcur]; exact q.copyOK' H hhi h.high

theorem QuietC.plan {s s' : State} (q : QuietC s s') (H : HInv s) (hcur : s'.cur = s.cur) {j : Nat} {lo hi : Cell}
    (hlo : ∀ b, lo = .tree b → binAt s'.tbins b = binAt s.tbins b)
    (hhi : ∀ b, hi = .tree b → binAt s'.tbins b = binAt s.tbins b)
    (h : Plan s j lo hi) : Plan s' j lo hi :=
  q.plan' H hcur (fun b hC _ => hlo b hC) (fun b hC _ => hhi b hC) h

theorem QuietC.liveId_eq {s s' : State} (q : QuietC s s') (hcur : s'.cur = s.cur) (k : Nat) : liveId s' k = liveId s k := by
  unfold liveId; rw [hcur, q.cellAt_eq]

theorem QuietC.find_eq {s s' : State} (q : QuietC s s') (b k : Nat) : treeFind s' b k = treeFind s b k := by
  rw [treeFind_def, treeFind_def, q.hlen]
  congr 1
  funext i
  rw [q.key_eq, q.inTree_eq, q.owner_eq]

theorem Walk.quietC {s s' : State} (q : QuietC s s') (H : HInv s) {h key : Nat} {pred cur : Option Nat}
    (w : Walk s h key pred cur) : Walk s' h key pred cur := by
  obtain ⟨l1, l2, hch, hcur, hpred, hkeys⟩ := w
  refine ⟨l1, l2, by rw [q.chainOf_eq H, hch], hcur, hpred, ?_⟩
  intro j hj
  rw [q.key_eq]
  exact hkeys j hj

theorem FreshOK.quietC {s s' : State} (q : QuietC s s') {b : Nat} {p : Pending} (h : FreshOK s b p) : FreshOK s' b p := by
  intro j hj ho hin
  rw [q.hlen] at hj
  rw [q.owner_eq] at ho
  rw [q.inTree_eq] at hin
  rw [q.key_eq]
  exact h j hj ho hin

theorem RemOK.quietC {s s' : State} (q : QuietC s s') (H : HInv s) {b : Nat} {p : Pending} {i : Nat} {res : KRes}
    (h : RemOK s b p i res) : RemOK s' b p i res := by
  obtain ⟨h1, h2, h3, h4⟩ := h
  exact ⟨by rw [q.chainOfBin_eq H]; exact h1, by rw [q.inTree_eq]; exact h2,
    by rw [q.key_eq]; exact h3, by rw [q.val_eq]; exact h4⟩

theorem PcInv.quietC {s s' : State} (q : QuietC s s') (H : HInv s) {p : Pending} {pc : Pc} (h : PcInv s p pc) :
    PcInv s' p pc := by
  cases pc <;> try exact trivial
  case rNode cur =>
    cases cur with
    | none => trivial
    | some c => simp only [PcInv] at h ⊢; rw [q.hlen]; exact h
  case rState b cur =>
    cases cur with
    | none => trivial
    | some c => simp only [PcInv] at h ⊢; rw [q.hlen]; exact h
  case rLin b c => simp only [PcInv] at h ⊢; rw [q.hlen]; exact h
  case rCas b c r => simp only [PcInv] at h ⊢; rw [q.hlen]; exact h
  case lNode cur =>
    cases cur with
    | none => trivial
    | some c => simp only [PcInv] at h ⊢; rw [q.hlen]; exact h
  case rVal i => exact h
  case wFind tab h0 pred cur => exact Walk.quietC q H h
  case wStore tab h0 pred hit hnext =>
    simp only [PcInv] at h ⊢
    refine ⟨Walk.quietC q H h.1, ?_⟩
    intro i hi
    rw [q.key_eq, q.next_eq]
    exact h.2 i hi
  case tVal tab b i v res =>
    simp only [PcInv] at h ⊢
    rw [q.chainOfBin_eq H, q.key_eq, q.val_eq]
    exact h
  case lrTry tab b k res =>
    cases k with
    | insert => exact FreshOK.quietC q h
    | remove i => exact RemOK.quietC q H h
  case lrLoop tab b k res =>
    cases k with
    | insert => exact FreshOK.quietC q h
    | remove i => exact RemOK.quietC q H h
  case tPrependLocked tab b => exact FreshOK.quietC q h
  case tTreeLinkLocked tab b x =>
    simp only [PcInv] at h ⊢
    rw [q.chainOfBin_eq H, q.key_eq, q.inTree_eq]
    exact ⟨h.1, h.2.1, h.2.2.1, FreshOK.quietC q h.2.2.2⟩
  case tUnlinkLocked tab b i res => exact RemOK.quietC q H h
  case tRestructure tab b i res =>
    simp only [PcInv] at h ⊢
    rw [q.chainOfBin_eq H, q.hlen, q.inTree_eq, q.owner_eq]
    exact h

/-- the private `TreeBin` of a treeify -/
theorem KInv.quietC {s s' : State} (q : QuietC s s') (H : HInv s) {pc : Pc}
    (hb : ∀ tab k h b, pc = .kStore tab k h b → binAt s'.tbins b = binAt s.tbins b)
    (h : KInv s pc) : KInv s' pc := by
  cases pc <;> try exact trivial
  case kStore tab k h0 b =>
    simp only [KInv] at h ⊢
    refine ⟨q.copyOK H (fun b' hb' => by cases hb'; exact hb tab k h0 b rfl) h.1, ?_⟩
    intro id
    rw [q.cellAt_eq]; exact h.2 id

/-- the `pend` list of a program counter depends on the cells only -/
theorem QuietC.pend_eq {s s' : State} (q : QuietC s s') (hcur : s'.cur = s.cur) (pc : Pc) : pend s' pc = pend s pc := by
  cases pc <;> simp only [pend, q.cellAt_eq, hcur]

/-- private nodes of a treeify after a step of thread `t` that does not enter or leave `kStore` -/
theorem QuietC.privK_iff {s s' : State} {t : Nat} {l l' : Local} (q : QuietC s s')
    (hthr : s'.threads = s.threads.set t l') (hl : s.threads[t]? = some l)
    (hk : ∀ tab k h b, l'.pc = .kStore tab k h b ↔ l.pc = .kStore tab k h b) (j : Nat) :
    PrivK s' j ↔ PrivK s j := by
  unfold PrivK
  constructor
  · rintro ⟨t1, l1, tab, k, h, b, h1, hpc, ho⟩
    rw [q.owner_eq] at ho
    rw [hthr] at h1
    rcases get_set h1 with ⟨rfl, rfl⟩ | ⟨_, h1⟩
    · exact ⟨t1, l, tab, k, h, b, hl, (hk tab k h b).1 hpc, ho⟩
    · exact ⟨t1, l1, tab, k, h, b, h1, hpc, ho⟩
  · rintro ⟨t1, l1, tab, k, h, b, h1, hpc, ho⟩
    rw [← q.owner_eq] at ho
    by_cases ht : t1 = t
    · subst ht
      rw [hl] at h1; cases h1
      exact ⟨t1, l', tab, k, h, b, by rw [hthr]; exact get_set_self hl, (hk tab k h b).2 hpc, ho⟩
    · exact ⟨t1, l1, tab, k, h, b, by rw [hthr, get_set_ne ht]; exact h1, hpc, ho⟩

/-- private nodes of the transfer after a step of thread `t` that keeps its `pend` list and its cell -/
theorem QuietC.privX_iff {s s' : State} {t : Nat} {l l' : Local} (q : QuietC s s') (H : HInv s) (hcur : s'.cur = s.cur)
    (hthr : s'.threads = s.threads.set t l') (hl : s.threads[t]? = some l)
    (hpend : pend s' l'.pc = pend s l.pc) (hx : xPc l'.pc = xPc l.pc) (hxi : xIdx l'.pc = xIdx l.pc) (j : Nat) :
    PrivX s' j ↔ PrivX s j := by
  unfold PrivX
  constructor
  · rintro ⟨t1, l1, C, h1, hx1, hC, hj, hn⟩
    rw [q.chainC_eq H] at hj
    have hn' : ∀ j0, xIdx l1.pc = some j0 → j ∉ chainC s (cellAt s (s.cur, j0)) := by
      intro j0 h0
      have := hn j0 h0
      rw [hcur, q.chainC_cell H] at this
      exact this
    rw [hthr] at h1
    rcases get_set h1 with ⟨rfl, rfl⟩ | ⟨_, h1⟩
    · exact ⟨t1, l, C, hl, hx ▸ hx1, hpend ▸ hC, hj, hxi ▸ hn'⟩
    · exact ⟨t1, l1, C, h1, hx1, q.pend_eq hcur _ ▸ hC, hj, hn'⟩
  · rintro ⟨t1, l1, C, h1, hx1, hC, hj, hn⟩
    rw [← q.chainC_eq H] at hj
    have hn' : ∀ j0, xIdx l1.pc = some j0 → j ∉ chainC s' (cellAt s' (s'.cur, j0)) := by
      intro j0 h0
      rw [hcur, q.chainC_cell H]
      exact hn j0 h0
    by_cases ht : t1 = t
    · subst ht
      rw [hl] at h1; cases h1
      exact ⟨t1, l', C, by rw [hthr]; exact get_set_self hl, hx ▸ hx1, hpend ▸ hC, hj, hxi ▸ hn'⟩
    · exact ⟨t1, l1, C, by rw [hthr, get_set_ne ht]; exact h1, hx1, by rw [q.pend_eq hcur]; exact hC, hj, hn'⟩

/-- nodes that may still be written or linked: unchanged by a quiet step of thread `t` that keeps
its `pend` list and its cell and does not enter or leave `kStore` / the resize -/
theorem QuietC.used_iff {s s' : State} {t : Nat} {l l' : Local} (q : QuietC s s') (H : HInv s) (hcur : s'.cur = s.cur)
    (hthr : s'.threads = s.threads.set t l') (hl : s.threads[t]? = some l)
    (hpend : pend s' l'.pc = pend s l.pc) (hx : xPc l'.pc = xPc l.pc) (hxi : xIdx l'.pc = xIdx l.pc)
    (hk : ∀ tab k h b, l'.pc = .kStore tab k h b ↔ l.pc = .kStore tab k h b) (j : Nat) :
    Used s' j ↔ Used s j := by
  unfold Used
  rw [q.privK_iff hthr hl hk, q.privX_iff H hcur hthr hl hpend hx hxi]
  constructor
  · rintro (⟨id, hj⟩ | h)
    · exact Or.inl ⟨id, by rw [q.chainC_cell H] at hj; exact hj⟩
    · exact Or.inr h
  · rintro (⟨id, hj⟩ | h)
    · exact Or.inl ⟨id, by rw [q.chainC_cell H]; exact hj⟩
    · exact Or.inr h

theorem QuietC.used_of {s s' : State} {t : Nat} {l l' : Local} (q : QuietC s s') (H : HInv s) (hcur : s'.cur = s.cur)
    (hthr : s'.threads = s.threads.set t l') (hl : s.threads[t]? = some l)
    (hpend : pend s' l'.pc = pend s l.pc) (hx : xPc l'.pc = xPc l.pc) (hxi : xIdx l'.pc = xIdx l.pc)
    (hk : ∀ tab k h b, l'.pc = .kStore tab k h b ↔ l.pc = .kStore tab k h b) :
    ∀ j, Used s' j → Used s j :=
  fun j => (q.used_iff H hcur hthr hl hpend hx hxi hk j).1

theorem Quiet.toC {s s' : State} (q : Quiet s s') : QuietC s s' := ⟨q.cellAt_eq, q.heap, q.tlen, q.first⟩

/-- allocating a generation of empty cells changes no cell (a missing cell reads as `empty`) -/
theorem cellAt_alloc {s s' : State} {n : Nat} (h : s'.tabs = s.tabs ++ [List.replicate n .empty]) (id : Cid) :
    cellAt s' id = cellAt s id := by
  rw [cellAt_def, cellAt_def, h]
  by_cases hg : id.1 < s.tabs.length
  · rw [List.getElem?_append_left hg]
  · rw [List.getElem?_append_right (by omega), List.getElem?_eq_none (l := s.tabs) (by omega)]
    by_cases h0 : id.1 - s.tabs.length = 0
    · rw [h0]
      simp only [List.getElem?_cons_zero, Option.getD_some, Option.getD_none, List.getElem?_nil]
      by_cases hj : id.2 < n
      · rw [List.getElem?_replicate_of_lt hj]; rfl
      · rw [List.getElem?_eq_none (by simp; omega)]; rfl
    · have : ([List.replicate n (.empty : Cell)] : List (List Cell))[id.1 - s.tabs.length]? = none :=
        List.getElem?_eq_none (by simp; omega)
      rw [this]

/-! ## generic consequences of `QuietC` (and of `Quiet`) -/

theorem QuietC.inCell_iff {s s' : State} (q : QuietC s s') (b : Nat) : InCell s' b ↔ InCell s b := by
  unfold InCell
  constructor
  · rintro ⟨id, h⟩; exact ⟨id, by rw [q.cellAt_eq] at h; exact h⟩
  · rintro ⟨id, h⟩; exact ⟨id, by rw [q.cellAt_eq]; exact h⟩

theorem QuietC.absTree_eq {s s' : State} (q : QuietC s s') (b k : Nat) : absTree s' b k = absTree s b k := by
  unfold absTree
  rw [q.find_eq]
  cases treeFind s b k with
  | none => rfl
  | some i => simp only; rw [q.val_eq]

theorem QuietC.LC_eq' {s s' : State} (q : QuietC s s') (H : HInv s) {k : Nat} (hlc : liveCell s' k = liveCell s k) :
    LC s' k = LC s k := by
  unfold LC; rw [hlc, q.chainC_eq H]

theorem QuietC.abs_eq' {s s' : State} (q : QuietC s s') (H : HInv s) {k : Nat} (hlc : liveCell s' k = liveCell s k) :
    absOf s' k = absOf s k := by
  rw [BinGNP.absOf_eq, BinGNP.absOf_eq, q.LC_eq' H hlc]
  unfold absL
  have : (fun i => (nodeAt s'.heap i).key == k) = (fun i => (nodeAt s.heap i).key == k) := by
    funext i; rw [q.key_eq]
  rw [this]
  cases (LC s k).find? (fun i => (nodeAt s.heap i).key == k) with
  | none => rfl
  | some i => simp only [Option.map_some]; rw [q.val_eq]

theorem QuietC.kstep {s s' : State} (q : QuietC s s') (H : HInv s) (hlc : ∀ k, liveCell s' k = liveCell s k)
    (hused : ∀ j, Used s' j → Used s j) (k : Nat) : KStep s s' k :=
  KStep.of_same (by rw [q.hlen]; exact Nat.le_refl _) (fun j _ => ⟨q.key_eq j, q.val_eq j, q.next_eq j⟩)
    (q.LC_eq' H (hlc k)) (fun j _ => hused j)
    (fun c hc => by
      obtain ⟨id, hc, hne⟩ := hc
      exact ⟨id, by rw [q.chainC_cell H]; exact hc, hne⟩)

/-- the thread that moves has no pending structure afterwards: no dead node comes to life -/
theorem QuietC.used_of_nil {s s' : State} {t : Nat} {l' : Local} (q : QuietC s s') (H : HInv s)
    (hcur : s'.cur = s.cur)
    (hthr : s'.threads = s.threads.set t l') (hp : pend s l'.pc = []) : ∀ j, Used s' j → Used s j := by
  rintro j (⟨id, hj⟩ | ⟨t1, l1, tab, k, h, b, h1, hpc, ho⟩ | ⟨t1, l1, C, h1, hx1, hC, hj, hn⟩)
  · exact Or.inl ⟨id, by rw [q.chainC_cell H] at hj; exact hj⟩
  · rw [hthr] at h1
    rcases get_set h1 with ⟨rfl, rfl⟩ | ⟨_, h1⟩
    · rw [hpc] at hp; cases hp
    · exact Or.inr (Or.inl ⟨t1, l1, tab, k, h, b, h1, hpc, by rw [← q.owner_eq]; exact ho⟩)
  · rw [hthr] at h1
    rw [q.pend_eq hcur] at hC
    rcases get_set h1 with ⟨rfl, rfl⟩ | ⟨_, h1⟩
    · rw [hp] at hC; cases hC
    · refine Or.inr (Or.inr ⟨t1, l1, C, h1, hx1, hC, by rw [q.chainC_eq H] at hj; exact hj, ?_⟩)
      intro j0 h0
      have := hn j0 h0
      rw [hcur, q.chainC_cell H] at this; exact this

theorem QuietC.privBin_of {s s' : State} {t : Nat} {l' : Local} (q : QuietC s s') (hcur : s'.cur = s.cur)
    (hthr : s'.threads = s.threads.set t l') (hp : pend s l'.pc = []) {b : Nat} (h : PrivBin s' b) : PrivBin s b := by
  obtain ⟨t1, l1, h1, hC, h0⟩ := h
  rw [q.pend_eq hcur] at hC
  rw [hthr] at h1
  rcases get_set h1 with ⟨rfl, rfl⟩ | ⟨_, h1⟩
  · rw [hp] at hC; cases hC
  · exact ⟨t1, l1, h1, hC, fun j hj => by have := h0 j hj; rw [hcur, q.cellAt_eq] at this; exact this⟩

/-- a planned / pending structure that is a fresh `TreeBin` is an unpublished `TreeBin` -/
theorem privBin_of_pend {s : State} {t : Nat} {l : Local} {b : Nat} (hl : s.threads[t]? = some l)
    (hC : (.tree b : Cell) ∈ pend s l.pc) (h0 : ∀ j, xIdx l.pc = some j → cellAt s (s.cur, j) ≠ .tree b) : PrivBin s b :=
  ⟨t, l, hl, hC, h0⟩

theorem XPc.quietC {s s' : State} (q : QuietC s s') (H : HInv s) (hcur : s'.cur = s.cur) {pc : Pc}
    (hb : ∀ b, (.tree b : Cell) ∈ pend s pc → (∀ j, xIdx pc = some j → cellAt s (s.cur, j) ≠ .tree b) →
      binAt s'.tbins b = binAt s.tbins b)
    (h : XPc s pc) : XPc s' pc := by
  cases pc <;> try exact trivial
  case xStoreLow j unl lo hi =>
    simp only [XPc] at h ⊢
    refine q.plan' H hcur ?_ ?_ h
    · intro b hlo h0
      exact hb b (by subst hlo; simp [pend]) (fun j' hj' => by have := Option.some.inj hj'; subst this; exact h0)
    · intro b hhi h0
      exact hb b (by subst hhi; simp [pend]) (fun j' hj' => by have := Option.some.inj hj'; subst this; exact h0)
  case xStoreHigh j unl hi =>
    simp only [XPc] at h ⊢
    rw [hcur, q.cellAt_eq]
    refine q.plan' H hcur ?_ ?_ h
    · intro b hlo h0
      exact hb b (by simp [pend, hlo]) (fun j' hj' => by have := Option.some.inj hj'; subst this; exact h0)
    · intro b hhi h0
      exact hb b (by subst hhi; simp [pend]) (fun j' hj' => by have := Option.some.inj hj'; subst this; exact h0)
  case xStoreMoved j unl =>
    simp only [XPc] at h ⊢
    rw [hcur, q.cellAt_eq, q.cellAt_eq]
    refine q.plan' H hcur ?_ ?_ h
    · intro b hlo h0
      exact hb b (by simp [pend, hlo]) (fun j' hj' => by have := Option.some.inj hj'; subst this; exact h0)
    · intro b hhi h0
      exact hb b (by simp [pend, hhi]) (fun j' hj' => by have := Option.some.inj hj'; subst this; exact h0)

/-- a pc without a pending structure is not past a store of a transfer -/
theorem lowStored_pend {s : State} {pc : Pc} (h : pend s pc = []) : lowStored pc = none ∧ highStored pc = none := by
  cases pc <;> simp [pend] at h <;> simp [lowStored, highStored]

theorem not_kStore_of_pend {s : State} {pc : Pc} (h : pend s pc = []) (tab : Nat) (k h0 b : Nat) :
    pc ≠ .kStore tab k h0 b := by
  intro e; rw [e] at h; cases h

theorem not_store_of_pend {s : State} {pc : Pc} (h : pend s pc = []) :
    (∀ j u hi, pc ≠ .xStoreHigh j u hi) ∧ (∀ j u, pc ≠ .xStoreMoved j u) := by
  constructor
  · intro j u hi e; rw [e] at h; cases h
  · intro j u e; rw [e] at h; cases h

theorem xpc_of_pend_nil {s s' : State} {pc : Pc} (h : pend s pc = []) : XPc s' pc := by
  cases pc <;> simp [pend] at h <;> exact trivial

theorem xpc_of_not_x {s : State} {pc : Pc} (h : xPc pc = false) : XPc s pc := by
  cases pc <;> first | exact trivial | cases h

theorem pend_of_not_x {s s' : State} {pc : Pc} (h : xPc pc = false) : pend s' pc = pend s pc ∧ xIdx pc = none := by
  cases pc <;> first | exact ⟨rfl, rfl⟩ | cases h

/-! ## `XInv` after a quiet transition: only `plan` has to be shown -/

theorem xinv_qC {s s' : State} {t : Nat} {l' : Local} (I : Inv s)
    (q : QuietC s s') (hcur : s'.cur = s.cur) (hthr : s'.threads = s.threads.set t l') (XS' : XShape s')
    (hplan : XPc s' l'.pc)
    (hbin : ∀ b, PrivBin s b → binAt s'.tbins b = binAt s.tbins b) : XInv s' := by
  refine XS'.xinv ?_
  intro t1 l1 h1
  rw [hthr] at h1
  rcases get_set h1 with ⟨rfl, rfl⟩ | ⟨_, h1⟩
  · exact hplan
  · refine (I.rsz.plan t1 l1 h1).quietC q I.heap hcur ?_
    intro b hC h0
    exact hbin b (privBin_of_pend h1 hC h0)

/-! ## `DInv` after a quiet transition -/

theorem dinv_qC {s s' : State} {t : Nat} {l l' : Local} (I : Inv s) (hl : s.threads[t]? = some l)
    (q : QuietC s s') (hthr : s'.threads = s.threads.set t l')
    (hsrc : (∀ tab b j res, l.pc ≠ .tRestructure tab b j res) ∧ (∀ tab b res, l.pc ≠ .tUntreeify tab b res) ∧
      (∀ tab b j, l.pc ≠ .tTreeLinkLocked tab b j))
    (hks : ∀ tab k h b, l'.pc ≠ .kStore tab k h b)
    (hnew : ∀ p, l'.call = some p → PcInv s p l'.pc)
    (hbin : ∀ b, PrivBin s b → binAt s'.tbins b = binAt s.tbins b) : DInv s' := by
  have H := I.heap
  refine ⟨?_, ?_, ?_, ?_⟩
  · intro t1 l1 p1 h1 hc1
    rw [hthr] at h1
    rcases get_set h1 with ⟨rfl, rfl⟩ | ⟨_, h1⟩
    · exact (hnew p1 hc1).quietC q H
    · exact (I.data.pcInv t1 l1 p1 h1 hc1).quietC q H
  · intro t1 l1 h1
    rw [hthr] at h1
    rcases get_set h1 with ⟨rfl, rfl⟩ | ⟨hne, h1⟩
    · cases hpc : l1.pc <;> simp only [KInv]
      exact absurd hpc (hks _ _ _ _)
    · have hk := I.data.kInv t1 l1 h1
      refine hk.quietC q H ?_
      intro tab k h b hpc
      exact hbin b (privBin_of_pend h1 (by rw [hpc]; simp [pend]) (fun j hj => by rw [hpc] at hj; cases hj))
  · intro id b hc j hj ho hin hnc
    rw [q.cellAt_eq] at hc
    rw [q.hlen] at hj
    rw [q.owner_eq] at ho
    rw [q.inTree_eq] at hin
    rw [q.chainOfBin_eq H] at hnc
    obtain ⟨t0, l0, h0, hpc0⟩ := I.data.treeSub id b hc j hj ho hin hnc
    by_cases ht : t0 = t
    · subst ht
      rw [hl] at h0; cases h0
      rcases hpc0 with ⟨tab, res, hpc0⟩ | ⟨tab, res, hpc0⟩
      · exact absurd hpc0 (hsrc.1 tab b j res)
      · exact absurd hpc0 (hsrc.2.1 tab b res)
    · exact ⟨t0, l0, by rw [hthr, get_set_ne ht]; exact h0, hpc0⟩
  · intro id b hc j hj hin
    rw [q.cellAt_eq] at hc
    rw [q.chainOfBin_eq H] at hj
    rw [q.inTree_eq] at hin
    obtain ⟨t0, l0, tab, h0, hpc0⟩ := I.data.chainSub id b hc j hj hin
    by_cases ht : t0 = t
    · subst ht
      rw [hl] at h0; cases h0
      exact absurd hpc0 (hsrc.2.2 tab b j)
    · exact ⟨t0, l0, tab, by rw [hthr, get_set_ne ht]; exact h0, hpc0⟩

/-! ## `Eff` of a quiet transition -/

theorem eff_of_quietC {s s' : State} (H : HInv s) (I' : Inv s') (q : QuietC s s')
    (hlid : ∀ k, liveId s' k = liveId s k)
    (hlc : ∀ k, liveCell s' k = liveCell s k) (hused : ∀ j, Used s' j → Used s j)
    (hdead : ∀ b, ¬ InCell s b → (binAt s.tbins b).writer = true → (binAt s'.tbins b).writer = true) :
    Eff s s' ∧ ∀ k, absOf s' k = absOf s k := by
  refine ⟨⟨I', q.kstep H hlc hused, ?_, ?_, ?_, ?_⟩, fun k => q.abs_eq' H (hlc k)⟩
  · intro b _ hne; exact absurd (q.first b) hne
  · intro b k _ hne; exact absurd (q.absTree_eq b k) hne
  · intro b k hc
    left
    rw [hlid, q.cellAt_eq]; exact hc
  · intro b _ hnc _
    exact ⟨fun h => hnc ((q.inCell_iff b).1 h), hdead b hnc⟩

/-- the live cells after a transition that keeps the reading of every cell and the live cell ids -/
theorem liveCell_of_liveId {s s' : State} (X : XInv s) (X' : XInv s') (hcells : ∀ id, cellAt s' id = cellAt s id)
    (hlid : ∀ k, liveId s' k = liveId s k) (k : Nat) : liveCell s' k = liveCell s k := by
  rw [liveCell_eq X' k, liveCell_eq X k, hlid k, hcells]

/-! ### the BinG names, for `Quiet` -/

theorem Quiet.inCell_iff {s s' : State} (q : Quiet s s') (b : Nat) : InCell s' b ↔ InCell s b := q.toC.inCell_iff b

theorem Quiet.absTree_eq {s s' : State} (q : Quiet s s') (b k : Nat) : absTree s' b k = absTree s b k :=
  q.toC.absTree_eq b k

theorem Quiet.LC_eq' {s s' : State} (q : Quiet s s') (H : HInv s) {k : Nat} (hlc : liveCell s' k = liveCell s k) :
    LC s' k = LC s k := q.toC.LC_eq' H hlc

theorem Quiet.abs_eq' {s s' : State} (q : Quiet s s') (H : HInv s) {k : Nat} (hlc : liveCell s' k = liveCell s k) :
    absOf s' k = absOf s k := q.toC.abs_eq' H hlc

theorem Quiet.kstep {s s' : State} (q : Quiet s s') (H : HInv s) (hlc : ∀ k, liveCell s' k = liveCell s k)
    (hused : ∀ j, Used s' j → Used s j) (k : Nat) : KStep s s' k := q.toC.kstep H hlc hused k

theorem Quiet.used_of_nil {s s' : State} {t : Nat} {l' : Local} (q : Quiet s s') (H : HInv s)
    (hthr : s'.threads = s.threads.set t l') (hp : pend s l'.pc = []) : ∀ j, Used s' j → Used s j :=
  q.toC.used_of_nil H q.cur hthr hp

theorem Quiet.privBin_of {s s' : State} {t : Nat} {l' : Local} (q : Quiet s s')
    (hthr : s'.threads = s.threads.set t l') (hp : pend s l'.pc = []) {b : Nat} (h : PrivBin s' b) : PrivBin s b :=
  q.toC.privBin_of q.cur hthr hp h

theorem XPc.quiet {s s' : State} (q : Quiet s s') (H : HInv s) {pc : Pc}
    (hb : ∀ b, (.tree b : Cell) ∈ pend s pc → (∀ j, xIdx pc = some j → cellAt s (s.cur, j) ≠ .tree b) →
      binAt s'.tbins b = binAt s.tbins b)
    (h : XPc s pc) : XPc s' pc := h.quietC q.toC H q.cur hb

theorem xinv_q {s s' : State} {t : Nat} {l' : Local} (I : Inv s)
    (q : Quiet s s') (hthr : s'.threads = s.threads.set t l') (XS' : XShape s')
    (hplan : XPc s' l'.pc)
    (hbin : ∀ b, PrivBin s b → binAt s'.tbins b = binAt s.tbins b) : XInv s' :=
  xinv_qC I q.toC q.cur hthr XS' hplan hbin

theorem dinv_q {s s' : State} {t : Nat} {l l' : Local} (I : Inv s) (hl : s.threads[t]? = some l)
    (q : Quiet s s') (hthr : s'.threads = s.threads.set t l')
    (hsrc : (∀ tab b j res, l.pc ≠ .tRestructure tab b j res) ∧ (∀ tab b res, l.pc ≠ .tUntreeify tab b res) ∧
      (∀ tab b j, l.pc ≠ .tTreeLinkLocked tab b j))
    (hks : ∀ tab k h b, l'.pc ≠ .kStore tab k h b)
    (hnew : ∀ p, l'.call = some p → PcInv s p l'.pc)
    (hbin : ∀ b, PrivBin s b → binAt s'.tbins b = binAt s.tbins b) : DInv s' :=
  dinv_qC I hl q.toC hthr hsrc hks hnew hbin

theorem eff_of_quiet {s s' : State} (H : HInv s) (I' : Inv s') (q : Quiet s s')
    (hlc : ∀ k, liveCell s' k = liveCell s k) (hused : ∀ j, Used s' j → Used s j)
    (hdead : ∀ b, ¬ InCell s b → (binAt s.tbins b).writer = true → (binAt s'.tbins b).writer = true) :
    Eff s s' ∧ ∀ k, absOf s' k = absOf s k :=
  eff_of_quietC H I' q.toC q.liveId_eq hlc hused hdead

/-! ## facts about the old and the new program counter of a quiet transition -/

/-- what the bookkeeping of pending structures needs to know (the generation structure of `XInv s'` comes from
`XShape s'`) -/
structure XFacts (s : State) (pc pc' : Pc) : Prop where
  pend : pend s pc = [] ∧ pend s pc' = []
  src : (∀ tab b j res, pc ≠ .tRestructure tab b j res) ∧ (∀ tab b res, pc ≠ .tUntreeify tab b res) ∧
    (∀ tab b j, pc ≠ .tTreeLinkLocked tab b j)

/-- mutex, read lock and write lock are kept -/
structure MFacts (pc pc' : Pc) : Prop where
  hm : holdsMutex pc' = holdsMutex pc
  hr : holdsRead pc' = holdsRead pc
  wrl : ∀ b, holdsMutex pc = some b → wr pc' = wr pc ∧ (isLoop pc = true → isLoop pc' = true)


/-- a validated new pc sees its structure in its cell; a referenced `TreeBin` is published -/
structure LFacts (s : State) (l l' : Local) : Prop where
  vL : ∀ h, validL l'.pc = some h → cellAt s (cidOf s l') = .list h
  vT : ∀ b, validT l'.pc = some b → cellAt s (cidOf s l') = .tree b
  ref : ∀ b, binRef l'.pc = some b → binRef l.pc = some b ∨ (b < s.tbins.length ∧ ¬ PrivBin s b)

set_option linter.unusedSimpArgs false in
theorem Move.xfacts {s : State} {t : Nat} {p : Pending} {pc pc' : Pc} {hp : List NodeS}
    (hm : Move s t p pc pc' hp) : XFacts s pc pc' := by
  cases hm
  case rCellTree lo tab b hc =>
    cases lo <;> refine ⟨⟨?_, ?_⟩, ⟨?_, ?_, ?_⟩⟩ <;> simp_all [pend]
  all_goals
    refine ⟨⟨?_, ?_⟩, ⟨?_, ?_, ?_⟩⟩ <;> simp_all [pend]

set_option linter.unusedSimpArgs false in
theorem Move.mfacts {s : State} {t : Nat} {p : Pending} {pc pc' : Pc} {hp : List NodeS}
    (hm : Move s t p pc pc' hp) : MFacts pc pc' := by
  cases hm
  case rCellTree lo tab b hc =>
    cases lo <;> refine ⟨?_, ?_, ?_⟩ <;> simp_all [holdsMutex, holdsRead, wr, isLoop]
  all_goals
    refine ⟨?_, ?_, ?_⟩ <;> simp_all [holdsMutex, holdsRead, wr, isLoop]

set_option linter.unusedSimpArgs false in
theorem Fin.xfacts {s : State} {p : Pending} {pc : Pc} {res : KRes} {hp : List NodeS}
    (hf : Fin s p pc res hp) : XFacts s pc .idle := by
  cases hf
  all_goals
    refine ⟨⟨?_, ?_⟩, ⟨?_, ?_, ?_⟩⟩ <;> simp_all [pend]

set_option linter.unusedSimpArgs false in
theorem Fin.mfacts {s : State} {p : Pending} {pc : Pc} {res : KRes} {hp : List NodeS}
    (hf : Fin s p pc res hp) : MFacts pc .idle := by
  cases hf
  all_goals
    refine ⟨?_, ?_, ?_⟩ <;> simp_all [holdsMutex, holdsRead, wr, isLoop]

set_option linter.unusedSimpArgs false in
theorem KMove.xfacts {s : State} {t : Nat} {pc pc' : Pc} {hp : List NodeS}
    (hk : KMove s t pc pc' hp) : XFacts s pc pc' := by
  cases hk
  all_goals
    refine ⟨⟨?_, ?_⟩, ⟨?_, ?_, ?_⟩⟩ <;> simp_all [pend]

set_option linter.unusedSimpArgs false in
theorem KMove.mfacts {s : State} {t : Nat} {pc pc' : Pc} {hp : List NodeS}
    (hk : KMove s t pc pc' hp) : MFacts pc pc' := by
  cases hk
  all_goals
    refine ⟨?_, ?_, ?_⟩ <;> simp_all [holdsMutex, holdsRead, wr, isLoop, unlL, unlT]

/-! ## the lock words -/

/-- what a transition does to the lock words of the nodes -/
def LockKind (s : State) (t : Nat) (pc pc' : Pc) (hp : List NodeS) : Prop :=
  (hp = s.heap ∧ holdsLock pc' = holdsLock pc) ∨
  (∃ h0, hp = lockSet s.heap h0 (some t) ∧ h0 < s.heap.length ∧ (nodeAt s.heap h0).lock = none ∧
    holdsLock pc = none ∧ holdsLock pc' = some h0) ∨
  (∃ h0, hp = lockSet s.heap h0 none ∧ holdsLock pc = some h0 ∧ holdsLock pc' = none)

theorem Move.lockKind {s : State} {t : Nat} {p : Pending} {pc pc' : Pc} {hp : List NodeS}
    (hm : Move s t p pc pc' hp) : LockKind s t pc pc' hp := by
  cases hm
  case wLock tab h n hn hlk =>
    exact Or.inr (Or.inl ⟨h, rfl, (List.getElem?_eq_some_iff.1 hn).1, by rw [nodeAt_of_some hn]; exact hlk, rfl, rfl⟩)
  case wUnlockRetry tab h res => exact Or.inr (Or.inr ⟨h, rfl, rfl, rfl⟩)
  case rCellTree lo tab b hc => cases lo <;> exact Or.inl ⟨rfl, rfl⟩
  all_goals exact Or.inl ⟨rfl, rfl⟩

theorem Fin.lockKind {s : State} {t : Nat} {p : Pending} {pc : Pc} {res : KRes} {hp : List NodeS}
    (hf : Fin s p pc res hp) : LockKind s t pc .idle hp := by
  cases hf
  case wUnlockFin tab h => exact Or.inr (Or.inr ⟨h, rfl, rfl, rfl⟩)
  all_goals exact Or.inl ⟨rfl, rfl⟩

theorem KMove.lockKind {s : State} {t : Nat} {pc pc' : Pc} {hp : List NodeS}
    (hk : KMove s t pc pc' hp) : LockKind s t pc pc' hp := by
  cases hk
  case kLock tab k h n hn hlk =>
    exact Or.inr (Or.inl ⟨h, rfl, (List.getElem?_eq_some_iff.1 hn).1, by rw [nodeAt_of_some hn]; exact hlk, rfl, rfl⟩)
  case xLock j h n hn hlk =>
    exact Or.inr (Or.inl ⟨h, rfl, (List.getElem?_eq_some_iff.1 hn).1, by rw [nodeAt_of_some hn]; exact hlk, rfl, rfl⟩)
  case kUnlock h => exact Or.inr (Or.inr ⟨h, rfl, rfl, rfl⟩)
  case xCheckFail j h hc => exact Or.inr (Or.inr ⟨h, rfl, rfl, rfl⟩)
  case xUnlockL h => exact Or.inr (Or.inr ⟨h, rfl, rfl, rfl⟩)
  all_goals exact Or.inl ⟨rfl, rfl⟩

theorem LockKind.heapEqv {s : State} {t : Nat} {pc pc' : Pc} {hp : List NodeS} (k : LockKind s t pc pc' hp) :
    HeapEqv s.heap hp := by
  rcases k with ⟨rfl, -⟩ | ⟨h0, rfl, -⟩ | ⟨h0, rfl, -⟩
  · exact HeapEqv.refl _
  · exact heapEqv_lockSet _ _ _
  · exact heapEqv_lockSet _ _ _

theorem LockKind.lockFun {s s' : State} {t : Nat} {l : Local} {pc' : Pc} (L : LInv s)
    (hl : s.threads[t]? = some l) (k : LockKind s t l.pc pc' s'.heap) :
    LockFun s s' t l.pc pc' ∧
      ∀ h, holdsLock pc' = some h → holdsLock l.pc = some h ∨ (nodeAt s.heap h).lock = none := by
  rcases k with ⟨hh, e⟩ | ⟨h0, hh, hlt, hfree, e0, e1⟩ | ⟨h0, hh, e0, e1⟩
  · exact ⟨lockfun_same L hl e (fun h => by rw [hh]), fun h hp => Or.inl (e ▸ hp)⟩
  · refine ⟨lockfun_acq e0 e1 hlt hh, fun h hp => Or.inr ?_⟩
    rw [e1] at hp; cases hp; exact hfree
  · refine ⟨lockfun_rel L hl e0 e1 hh, fun h hp => ?_⟩
    rw [e1] at hp; cases hp

/-! ## the transitions that leave every `TreeBin` alone -/

/-- the generic part: `HInv`, `TInv`, `XInv` of the successor state are given; the cells read the same and `cur`
is unchanged (the tables may have grown: `resizeStart`) -/
theorem eff_quiet_core {s s' : State} {t : Nat} {l l' : Local} (I : Inv s) (hl : s.threads[t]? = some l)
    (htb : s'.tbins = s.tbins) (hcells : ∀ id, cellAt s' id = cellAt s id) (hcur : s'.cur = s.cur)
    (hthr : s'.threads = s.threads.set t l')
    (hH : QuietC s s' → HInv s') (T' : TInv s') (hX : QuietC s s' → XInv s')
    (k : LockKind s t l.pc l'.pc s'.heap) (hpend : pend s l'.pc = [])
    (hsrc : (∀ tab b j res, l.pc ≠ .tRestructure tab b j res) ∧ (∀ tab b res, l.pc ≠ .tUntreeify tab b res) ∧
      (∀ tab b j, l.pc ≠ .tTreeLinkLocked tab b j))
    (M : MFacts l.pc l'.pc) (F : LFacts s l l')
    (hnew : ∀ p, l'.call = some p → PcInv s p l'.pc) :
    Eff s s' ∧ ∀ k, absOf s' k = absOf s k := by
  have L := I.lock
  have H := I.heap
  have q : QuietC s s' := ⟨hcells, k.heapEqv, by rw [htb], fun b => by rw [htb]⟩
  obtain ⟨hlf, hacq⟩ := k.lockFun L hl
  have L' : LInv s' := linv_same L hl hcells hthr hcur (by rw [htb])
    (fun b => by rw [htb]; exact ⟨rfl, rfl, rfl, rfl⟩) hlf hacq F.vL F.vT M.hm M.hr
    (fun b hb _ => M.wrl b hb) F.ref (fun b _ h => q.privBin_of hcur hthr hpend h)
  have D' : DInv s' := dinv_qC I hl q hthr hsrc (not_kStore_of_pend hpend) hnew (fun b _ => by rw [htb])
  have X' := hX q
  exact eff_of_quietC H ⟨hH q, T', X', L', D'⟩ q (q.liveId_eq hcur)
    (liveCell_of_liveId I.rsz X' hcells (q.liveId_eq hcur))
    (q.used_of_nil H hcur hthr hpend) (fun b _ hw => by rw [htb]; exact hw)

/-- `XInv` after a quiet transition, from `XFacts` -/
theorem xinv_of_facts {s s' : State} {t : Nat} {l l' : Local} (I : Inv s)
    (q : QuietC s s') (hcur : s'.cur = s.cur) (hthr : s'.threads = s.threads.set t l') (XS' : XShape s')
    (X : XFacts s l.pc l'.pc) (hbin : ∀ b, PrivBin s b → binAt s'.tbins b = binAt s.tbins b) : XInv s' :=
  xinv_qC I q hcur hthr XS' (xpc_of_pend_nil X.pend.2) hbin

theorem eff_quiet_step {s s' : State} {t : Nat} {l l' : Local} (I : Inv s) (hl : s.threads[t]? = some l)
    (htb : s'.tbins = s.tbins) (htabs : s'.tabs = s.tabs) (hcur : s'.cur = s.cur)
    (hthr : s'.threads = s.threads.set t l') (T' : TInv s') (XS' : XShape s')
    (k : LockKind s t l.pc l'.pc s'.heap) (X : XFacts s l.pc l'.pc) (M : MFacts l.pc l'.pc) (F : LFacts s l l')
    (hnew : ∀ p, l'.call = some p → PcInv s p l'.pc) :
    Eff s s' ∧ ∀ k, absOf s' k = absOf s k :=
  eff_quiet_core I hl htb (fun id => by unfold cellAt Flurry.Proto.BinGN.cellAt; rw [htabs]) hcur hthr
    (fun q => q.hinv I.heap hcur (reusing_of_set_pc hthr hl (not_store_of_pend X.pend.1))) T'
    (fun q => xinv_of_facts (l := l) I q hcur hthr XS' X (fun b _ => by rw [htb]))
    k X.pend.2 X.src M F hnew

/-! ## what the new program counter of a `Move` / `KMove` knows -/

/-- [hypothesis of `Move.lfacts` / `eff_move`] the `TreeBin` a thread finds in the cell of its key in the generation
it works in is published. In BinG this is `Inv.not_priv` / `Inv.ref_of_cellOf`; in BinGN it does not follow from
`Inv` (a `TreeBin` planned by the transfer of another cell could be an EMPTY `TreeBin` of this cell as far as `Inv`
knows: `HInv.side` separates two cells by the keys of their nodes only). -/
def PubRead (s : State) : Prop :=
  ∀ (t : Nat) (l : Local) (g b : Nat), s.threads[t]? = some l → tabOf l.pc = some g →
    cellOf s g (keyOf l) = .tree b → ¬ PrivBin s b

theorem Move.lfacts {s : State} {t : Nat} {p : Pending} {l : Local} {pc' : Pc} {hp : List NodeS}
    (hm : Move s t p l.pc pc' hp) (I : Inv s) (P : PubRead s) (hl : s.threads[t]? = some l) (hcall : l.call = some p) :
    LFacts s l { l with pc := pc' } := by
  have L := I.lock
  obtain ⟨pc, call⟩ := l
  simp only at hm hcall
  subst hcall
  refine ⟨?_, ?_, ?_⟩

  · cases hm with
    | @wCheckOk tab h hc =>
      intro h' hv
      simp [validL] at hv; subst hv
      show cellAt s (idOf tab p.key) = _
      rw [← BinGNP.cellOf_eq]; exact hc
    | @wFindEnd tab h pred =>
      intro h' hv
      simp [validL] at hv; subst hv
      exact (L.vL t _ _ hl rfl :)
    | @wFindHit tab h pred c n hn hk =>
      intro h' hv
      simp [validL] at hv; subst hv
      exact (L.vL t _ _ hl rfl :)
    | @wFindNext tab h pred c n hn hk =>
      intro h' hv
      simp [validL] at hv; subst hv
      exact (L.vL t _ _ hl rfl :)
    | @rCellTree lo tab b hc => intro h' hv; cases lo <;> simp [validL] at hv
    | _ => intro h' hv; simp [validL] at hv
  · cases hm with
    | @tCheckOk tab b hc =>
      intro b' hv
      simp [validT] at hv; subst hv
      show cellAt s (idOf tab p.key) = _
      rw [← BinGNP.cellOf_eq]; exact hc
    | @findVal tab b i v res hf hs =>
      intro b' hv
      simp [validT] at hv; subst hv
      exact (L.vT t _ _ hl rfl :)
    | @findInsert tab b hf hi =>
      intro b' hv
      simp [validT] at hv; subst hv
      exact (L.vT t _ _ hl rfl :)
    | @findRemove tab b i res hf hs =>
      intro b' hv
      simp [validT] at hv; subst hv
      exact (L.vT t _ _ hl rfl :)
    | @lrTryFail tab b k res =>
      intro b' hv
      simp [validT] at hv; subst hv
      exact (L.vT t _ _ hl rfl :)
    | @rCellTree lo tab b hc => intro b' hv; cases lo <;> simp [validT] at hv
    | _ => intro b' hv; simp [validT] at hv
  · cases hm with
    | @rCellTree lo tab b hc =>
      intro b' hb
      right
      cases lo <;>
        (simp [binRef] at hb; subst hb
         exact ⟨I.heap.cellOK (idOf tab p.key) _ hc, P t _ tab _ hl rfl hc⟩)
    | @wCellTree tab b hc =>
      intro b' hb
      right
      simp [binRef] at hb; subst hb
      exact ⟨I.heap.cellOK (idOf tab p.key) _ hc, P t _ tab _ hl rfl hc⟩
    | _ =>
      intro b' hb
      first
        | (simp [binRef] at hb; done)
        | (left; simpa [binRef] using hb)

theorem KMove.lfacts {s : State} {t : Nat} {l : Local} {pc' : Pc} {hp : List NodeS}
    (hk : KMove s t l.pc pc' hp) (I : Inv s) (hl : s.threads[t]? = some l) (hcall : l.call = none) :
    LFacts s l { l with pc := pc' } := by
  have L := I.lock
  obtain ⟨pc, call⟩ := l
  simp only at hk hcall
  subst hcall
  refine ⟨?_, ?_, ?_⟩
  · cases hk with
    | @kCheckOk tab k h hc =>
      intro h' hv
      simp [validL] at hv; subst hv
      show cellAt s (idOf tab k) = _
      rw [← BinGNP.cellOf_eq]; exact hc
    | @xCheckOk j h hc =>
      intro h' hv
      simp [validL] at hv; subst hv
      exact hc
    | _ => intro h' hv; simp [validL] at hv
  · cases hk with
    | @yCheckOk j b hc =>
      intro b' hv
      simp [validT] at hv; subst hv
      exact hc
    | _ => intro b' hv; simp [validT] at hv
  · cases hk with
    | @xCellTree j b hc =>
      intro b' hb
      right
      simp [binRef] at hb; subst hb
      refine ⟨I.heap.cellOK (s.cur, j) b hc, ?_⟩
      have same : ∀ (t1 : Nat) (l1 : Local), s.threads[t1]? = some l1 → xPc l1.pc = true → l1.pc = .xCell j := by
        intro t1 l1 h1 hx
        have := I.rsz.uniqX t1 t l1 _ h1 hl hx rfl
        subst this; rw [hl] at h1; cases h1; rfl
      rintro ⟨t1, l1, h1, hC, h0⟩
      have hk := I.data.kInv t1 l1 h1
      cases hpc : l1.pc with
      | kStore tab k h b' =>
        rw [hpc] at hC hk
        simp only [KInv] at hk
        simp [pend] at hC
        subst hC
        exact hk.2 _ hc
      | xStoreLow j1 unl lo hi => have := same t1 l1 h1 (by rw [hpc]; rfl); rw [hpc] at this; cases this
      | xStoreHigh j1 unl hi => have := same t1 l1 h1 (by rw [hpc]; rfl); rw [hpc] at this; cases this
      | xStoreMoved j1 unl => have := same t1 l1 h1 (by rw [hpc]; rfl); rw [hpc] at this; cases this
      | _ => rw [hpc] at hC; simp [pend] at hC
    | _ =>
      intro b' hb
      first
        | (simp [binRef] at hb; done)
        | (left; simpa [binRef] using hb)

theorem lfacts_idle (s : State) (l : Local) : LFacts s l { pc := .idle, call := none } :=
  ⟨fun h hv => by simp [validL] at hv, fun b hv => by simp [validT] at hv, fun b hb => by simp [binRef] at hb⟩

/-! ## what the new program counter of a `Move` knows -/

theorem treeFind_some {s : State} {b k i : Nat} (h : treeFind s b k = some i) :
    i < s.heap.length ∧ (nodeAt s.heap i).owner = some b ∧ (nodeAt s.heap i).inTree = true ∧
      (nodeAt s.heap i).key = k := by
  rw [treeFind_def] at h
  have h1 := List.mem_of_find?_eq_some h
  have h2 := List.find?_some h
  simp only [Bool.and_eq_true, beq_iff_eq] at h2
  exact ⟨List.mem_range.1 h1, h2.1.1, h2.1.2, h2.2⟩

theorem treeFind_none {s : State} {b k : Nat} (h : treeFind s b k = none) :
    ∀ j, j < s.heap.length → (nodeAt s.heap j).owner = some b → (nodeAt s.heap j).inTree = true →
      (nodeAt s.heap j).key ≠ k := by
  rw [treeFind_def, List.find?_eq_none] at h
  intro j hj ho hin hk
  have := h j (List.mem_range.2 hj)
  simp only [Bool.and_eq_true, beq_iff_eq, not_and] at this
  exact this ⟨ho, hin⟩ hk

/-- while thread `t` holds the validated mutex of `TreeBin` `b` at a pc other than the exceptional
ones, every tree node of `b` is on its list -/
theorem Inv.tree_sub_chain {s : State} (I : Inv s) {t : Nat} {l : Local} {b : Nat} (hl : s.threads[t]? = some l)
    (hv : validT l.pc = some b) (h1 : ∀ tab j res, l.pc ≠ .tRestructure tab b j res)
    (h2 : ∀ tab res, l.pc ≠ .tUntreeify tab b res) :
    ∀ j, j < s.heap.length → (nodeAt s.heap j).owner = some b → (nodeAt s.heap j).inTree = true →
      j ∈ chainOfBin s b := by
  intro j hj ho hin
  apply Classical.byContradiction
  intro hnc
  have hc := I.lock.vT t l b hl hv
  obtain ⟨t', l', hl', hpc⟩ := I.data.treeSub _ b hc j hj ho hin hnc
  have hm' : holdsMutex l'.pc = some b := by
    rcases hpc with ⟨tab, res, hpc⟩ | ⟨tab, res, hpc⟩ <;> rw [hpc] <;> rfl
  have e1 := (I.lock.mx t l b hl).1 (holdsMutex_of_validT hv)
  have e2 := (I.lock.mx t' l' b hl').1 hm'
  rw [e1] at e2
  have := Option.some.inj e2
  subst this
  rw [hl] at hl'; cases hl'
  rcases hpc with ⟨tab, res, hpc⟩ | ⟨tab, res, hpc⟩
  · exact h1 tab j res hpc
  · exact h2 tab res hpc

theorem Inv.chain_sub_tree {s : State} (I : Inv s) {t : Nat} {l : Local} {b : Nat} (hl : s.threads[t]? = some l)
    (hv : validT l.pc = some b) (h1 : ∀ tab j, l.pc ≠ .tTreeLinkLocked tab b j) :
    ∀ j ∈ chainOfBin s b, (nodeAt s.heap j).inTree = true := by
  intro j hj
  cases hin : (nodeAt s.heap j).inTree with
  | true => rfl
  | false =>
    have hc := I.lock.vT t l b hl hv
    obtain ⟨t', l', tab, hl', hpc⟩ := I.data.chainSub _ b hc j hj hin
    have hm' : holdsMutex l'.pc = some b := by rw [hpc]; rfl
    have e1 := (I.lock.mx t l b hl).1 (holdsMutex_of_validT hv)
    have e2 := (I.lock.mx t' l' b hl').1 hm'
    rw [e1] at e2
    have := Option.some.inj e2
    subst this
    rw [hl] at hl'; cases hl'
    exact absurd hpc (h1 tab j)

theorem Walk.start {s : State} (H : HInv s) {h : Nat} (hlt : h < s.heap.length) (key : Nat) :
    Walk s h key none (some h) := by
  have hch := chainOf_isChain H.nextOK (some h) (fun i hi => by cases hi; exact hlt)
  obtain ⟨l, hl⟩ := IsChain.start_some hch
  exact ⟨[], h :: l, by rw [hl]; rfl, rfl, rfl, fun j hj => by cases hj⟩

theorem Walk.next {s : State} (H : HInv s) {h key : Nat} {pred : Option Nat} {c : Nat} {n : NodeS}
    (hlt : h < s.heap.length) (w : Walk s h key pred (some c)) (hn : s.heap[c]? = some n) (hk : n.key ≠ key) :
    Walk s h key (some c) n.next := by
  obtain ⟨l1, l2, hch, hcur, -, hkeys⟩ := w
  cases l2 with
  | nil => cases hcur
  | cons c' l2' =>
    cases hcur
    have hchain := chainOf_isChain H.nextOK (some h) (fun i hi => by cases hi; exact hlt)
    rw [hch] at hchain
    have hnx := hchain.next_eq hn
    refine ⟨l1 ++ [c], l2', by rw [hch]; simp, hnx, by simp, ?_⟩
    intro j hj
    rcases List.mem_append.1 hj with hj | hj
    · exact hkeys j hj
    · have : j = c := by simpa using hj
      subst this
      rw [nodeAt_of_some hn]; exact hk

theorem Walk.cur_mem {s : State} {h key : Nat} {pred : Option Nat} {i : Nat} (w : Walk s h key pred (some i)) :
    i ∈ chainOf s.heap (some h) := by
  obtain ⟨l1, l2, hch, hcur, -, -⟩ := w
  cases l2 with
  | nil => cases hcur
  | cons c l2' => cases hcur; rw [hch]; simp

theorem next_lt {s : State} (H : HInv s) {c : Nat} {n : NodeS} (hn : s.heap[c]? = some n) {b : Nat}
    (hb : n.next = some b) : b < s.heap.length := (H.nextOK c n b hn hb).1

theorem Move.pcInv {s : State} {t : Nat} {p : Pending} {l : Local} {pc' : Pc} {hp : List NodeS}
    (hm : Move s t p l.pc pc' hp) (I : Inv s) (hl : s.threads[t]? = some l) (hpc : l.call = some p) :
    PcInv s p pc' := by
  have h0 := I.data.pcInv t l p hl hpc
  have H := I.heap
  obtain ⟨pc, call⟩ := l
  simp only at hm h0 hpc
  cases hm with
  | rTable => simp only [PcInv]
  | rCellMoved _ => simp only [PcInv]
  | @rCellList lo tab h hc =>
    simp only [PcInv]
    rw [BinGNP.cellOf_eq] at hc
    exact (H.cinv (idOf tab p.key)).startOK h (by rw [hc]; rfl)
  | @rCellTree lo tab b hc => cases lo <;> simp only [PcInv, if_true, Bool.false_eq_true, if_false]
  | @rNodeNext c n hn hk =>
    cases hnx : n.next with
    | none => simp only [PcInv]
    | some b => simp only [PcInv]; exact next_lt H hn hnx
  | @rFirst b =>
    cases hf : (binAt s.tbins b).first with
    | none => simp only [PcInv]
    | some h => simp only [PcInv]; exact H.firstOK b h hf
  | rLinMode _ => simp only [PcInv] at h0 ⊢; exact h0
  | rTreeMode _ => simp only [PcInv] at h0 ⊢; exact h0
  | @rLinNext b c n hn hk =>
    cases hnx : n.next with
    | none => simp only [PcInv]
    | some b' => simp only [PcInv]; exact next_lt H hn hnx
  | rLinHit _ _ hop => simp only [PcInv]; exact hop
  | rCasFail => simp only [PcInv] at h0 ⊢; exact h0
  | rTree => simp only [PcInv]
  | @lFirst b =>
    cases hf : (binAt s.tbins b).first with
    | none => simp only [PcInv]
    | some h => simp only [PcInv]; exact H.firstOK b h hf
  | @lNext c n hn hk =>
    cases hnx : n.next with
    | none => simp only [PcInv]
    | some b => simp only [PcInv]; exact next_lt H hn hnx
  | lHit _ _ hop => simp only [PcInv]; exact hop
  | wTable => simp only [PcInv]
  | wCellMoved _ => simp only [PcInv]
  | wCellCas _ _ => simp only [PcInv]
  | wCellList _ => simp only [PcInv]
  | wCellTree _ => simp only [PcInv]
  | wCasFail _ => simp only [PcInv]
  | wLock _ _ => simp only [PcInv]
  | @wCheckOk tab h hc =>
    simp only [PcInv]
    exact Walk.start H (I.lock.lock_lt hl rfl) p.key
  | wCheckFail _ => simp only [PcInv]
  | wFindEnd =>
    simp only [PcInv] at h0 ⊢
    exact ⟨h0, fun i hi => by cases hi⟩
  | @wFindHit tab h pred c n hn hk =>
    simp only [PcInv] at h0 ⊢
    refine ⟨h0, ?_⟩
    intro i hi
    cases hi
    rw [nodeAt_of_some hn]
    exact ⟨hk, rfl⟩
  | @wFindNext tab h pred c n hn hk =>
    simp only [PcInv] at h0 ⊢
    exact h0.next H (I.lock.lock_lt hl rfl) hn hk
  | wUnlockRetry => simp only [PcInv]
  | tCheckOk _ => simp only [PcInv]
  | tCheckFail _ => simp only [PcInv]
  | @findVal tab b i v res hf hspec =>
    obtain ⟨hi, ho, hin, hk⟩ := treeFind_some hf
    simp only [PcInv]
    exact ⟨I.tree_sub_chain hl rfl (by intro tab j res; simp) (by intro tab res; simp) i hi ho hin, hk, hspec⟩
  | @findInsert tab b hf _ => simp only [PcInv]; exact treeFind_none hf
  | @findRemove tab b i res hf hspec =>
    obtain ⟨hi, ho, hin, hk⟩ := treeFind_some hf
    simp only [PcInv, RemOK]
    exact ⟨I.tree_sub_chain hl rfl (by intro tab j res; simp) (by intro tab res; simp) i hi ho hin, hin, hk, hspec⟩
  | findDone _ => simp only [PcInv]
  | @lrTryFail tab b k res =>
    cases k with
    | insert => simp only [PcInv] at h0 ⊢; exact h0
    | remove i => simp only [PcInv] at h0 ⊢; exact h0

set_option linter.unusedSimpArgs false in
theorem Move.tfacts {s : State} {t : Nat} {p : Pending} {pc pc' : Pc} {hp : List NodeS}
    (hm : Move s t p pc pc' hp) : readerPc pc' = readerPc pc ∧ noCallPc pc' = false := by
  cases hm
  case rCellTree lo tab b hc => cases lo <;> simp [readerPc, noCallPc, kPc, xPc]
  all_goals simp [readerPc, noCallPc, kPc, xPc]

set_option linter.unusedSimpArgs false in
theorem KMove.tfacts {s : State} {t : Nat} {pc pc' : Pc} {hp : List NodeS}
    (hk : KMove s t pc pc' hp) : noCallPc pc' = true := by
  cases hk <;> simp [noCallPc, kPc, xPc]

theorem noCall_false_of_call {s : State} (T : TInv s) {t : Nat} {l : Local} {p : Pending}
    (hl : s.threads[t]? = some l) (hp : l.call = some p) : noCallPc l.pc = false := by
  cases h : noCallPc l.pc with
  | false => rfl
  | true => have := (T.callOK t l hl).2 h; rw [hp] at this; cases this


/-! ## the transitions -/

theorem eff_move {s : State} {t : Nat} {l : Local} {p : Pending} {pc' : Pc} {hp' : List NodeS} (I : Inv s)
    (P : PubRead s) (hl : s.threads[t]? = some l) (hp : l.call = some p) (hm : Move s t p l.pc pc' hp') :
    let s' := setT (qst s hp' s.tbins) t { l with pc := pc' }
    XShape s' → Eff s s' ∧ ∀ k, absOf s' k = absOf s k := by
  intro s' XS'
  obtain ⟨f1, f2⟩ := hm.tfacts
  have hno := noCall_false_of_call I.thr hl hp
  refine eff_quiet_step (l' := { l with pc := pc' }) I hl rfl rfl rfl rfl ?_ XS' hm.lockKind
    hm.xfacts hm.mfacts (hm.lfacts I P hl hp) ?_
  · refine tinv_keep (l' := { l with pc := pc' }) I.thr hl rfl rfl rfl rfl ?_ ?_
    · show l.call = none ↔ noCallPc pc' = true
      rw [hp, f2]; simp
    · intro p1 hp1 _
      show isReader p1.op = readerPc pc'
      rw [f1]
      exact I.thr.opOK t l p1 hl hp1 hno
  · intro p1 hp1
    have : p1 = p := by
      have h : l.call = some p1 := hp1
      rw [hp] at h; exact (Option.some.inj h).symm
    subst this
    exact hm.pcInv I hl hp

theorem eff_kmove {s : State} {t : Nat} {l : Local} {pc' : Pc} {hp' : List NodeS} (I : Inv s)
    (hl : s.threads[t]? = some l) (hc : l.call = none) (hm : KMove s t l.pc pc' hp') :
    let s' := setT (qst s hp' s.tbins) t { l with pc := pc' }
    XShape s' → Eff s s' ∧ ∀ k, absOf s' k = absOf s k := by
  intro s' XS'
  refine eff_quiet_step (l' := { l with pc := pc' }) I hl rfl rfl rfl rfl ?_ XS' hm.lockKind
    hm.xfacts hm.mfacts (hm.lfacts I hl hc) ?_
  · refine tinv_keep (l' := { l with pc := pc' }) I.thr hl rfl rfl rfl rfl ?_ ?_
    · show l.call = none ↔ noCallPc pc' = true
      rw [hc, hm.tfacts]; simp
    · intro p1 hp1
      rw [hc] at hp1; cases hp1
  · intro p1 hp1
    have h : l.call = some p1 := hp1
    rw [hc] at h; cases h

theorem eff_fin {s : State} {t : Nat} {l : Local} {p : Pending} {res : KRes} {hp' : List NodeS} (I : Inv s)
    (hl : s.threads[t]? = some l) (hp : l.call = some p) (hf : Fin s p l.pc res hp') :
    let s' := finish (qst s hp' s.tbins) t p res
    XShape s' → Eff s s' ∧ ∀ k, absOf s' k = absOf s k := by
  intro s' XS'
  refine eff_quiet_step (l' := { pc := .idle, call := none }) I hl rfl rfl rfl rfl ?_ XS' hf.lockKind
    hf.xfacts hf.mfacts (lfacts_idle s l) ?_
  · exact tinv_finish (l' := { pc := .idle, call := none }) I.thr hl hp rfl rfl rfl rfl rfl
  · intro p1 hp1; cases hp1

theorem xPc_of_xPre {pc : Pc} (h : xPre pc = true) : xPc pc = true := by
  cases pc <;> simp [xPre] at h <;> rfl

theorem xfacts_idle (s : State) (pc' : Pc) (hp : pend s pc' = []) : XFacts s .idle pc' := by
  refine ⟨⟨rfl, hp⟩, ⟨?_, ?_, ?_⟩⟩
  · intro _ _ _ _ h; cases h
  · intro _ _ _ h; cases h
  · intro _ _ _ h; cases h

set_option linter.unusedSimpArgs false in
theorem mfacts_idle (pc' : Pc) (h1 : holdsMutex pc' = none) (h2 : holdsRead pc' = none) : MFacts .idle pc' := by
  refine ⟨?_, ?_, ?_⟩ <;> simp_all [holdsMutex, holdsRead]

theorem eff_idle {s : State} {t : Nat} {l : Local} (I : Inv s) (hl : s.threads[t]? = some l) (hpc : l.pc = .idle)
    (XS' : XShape (setT (tick s) t l)) :
    Eff s (setT (tick s) t l) ∧ ∀ k, absOf (setT (tick s) t l) k = absOf s k := by
  refine eff_quiet_step (l' := l) I hl rfl rfl rfl rfl ?_ XS' (Or.inl ⟨rfl, rfl⟩) ?_ ?_ ?_ ?_
  · exact tinv_keep (l' := l) I.thr hl rfl rfl rfl rfl (I.thr.callOK t l hl) (fun p hp => I.thr.opOK t l p hl hp)
  · rw [hpc]; exact xfacts_idle s .idle rfl
  · rw [hpc]; exact mfacts_idle .idle rfl rfl
  · refine ⟨?_, ?_, ?_⟩ <;> intro x hx <;> rw [hpc] at hx <;> cases hx
  · intro p1 hp1; exact I.data.pcInv t l p1 hl hp1

theorem call_none_of_idle {s : State} (T : TInv s) {t : Nat} {l : Local} (hl : s.threads[t]? = some l)
    (hpc : l.pc = .idle) : l.call = none := (T.callOK t l hl).2 (by rw [hpc]; rfl)

theorem eff_maint {s : State} {t : Nat} {l : Local} (I : Inv s) (hl : s.threads[t]? = some l) (k0 : Nat)
    (hpc : l.pc = .idle) :
    let s' := setT (tick s) t { l with pc := .kTable k0 }
    XShape s' → Eff s s' ∧ ∀ k, absOf s' k = absOf s k := by
  intro s' XS'
  have hc := call_none_of_idle I.thr hl hpc
  refine eff_quiet_step (l' := { l with pc := .kTable k0 }) I hl rfl rfl rfl rfl ?_ XS'
    (Or.inl ⟨rfl, by rw [hpc]; rfl⟩) ?_ ?_ ?_ ?_
  · refine tinv_keep (l' := { l with pc := .kTable k0 }) I.thr hl rfl rfl rfl rfl ?_ ?_
    · show l.call = none ↔ noCallPc (.kTable k0) = true
      rw [hc]; simp [noCallPc, kPc]
    · intro p hp; rw [hc] at hp; cases hp
  · rw [hpc]; exact xfacts_idle s _ rfl
  · rw [hpc]; exact mfacts_idle _ rfl rfl
  · refine ⟨?_, ?_, ?_⟩ <;> intro x hx <;> cases hx
  · intro p1 hp1
    have h : l.call = some p1 := hp1
    rw [hc] at h; cases h

theorem eff_invoke {s : State} {t : Nat} {l : Local} (I : Inv s) (hl : s.threads[t]? = some l) (k0 : Nat) (op : KOp)
    (lo : Bool) (hpc : l.pc = .idle) :
    let s' := setT (tick s) t { pc := if isReader op then .rTable lo else .wTable, call := some ⟨k0, op, s.now + 1⟩ }
    XShape s' → Eff s s' ∧ ∀ k, absOf s' k = absOf s k := by
  intro s' XS'
  refine eff_quiet_step (l' := { pc := if isReader op then .rTable lo else .wTable, call := some ⟨k0, op, s.now + 1⟩ })
    I hl rfl rfl rfl rfl ?_ XS' (Or.inl ⟨rfl, by rw [hpc]; cases isReader op <;> rfl⟩) ?_ ?_ ?_ ?_
  · refine tinv_invoke (l' := { pc := if isReader op then .rTable lo else .wTable, call := some ⟨k0, op, s.now + 1⟩ })
      I.thr hl rfl rfl rfl rfl ?_ ?_
    · show noCallPc (if isReader op then .rTable lo else .wTable) = false
      cases isReader op <;> rfl
    · intro _
      show isReader op = readerPc (if isReader op then .rTable lo else .wTable)
      cases isReader op <;> rfl
  · rw [hpc]
    show XFacts s .idle (if isReader op then .rTable lo else .wTable)
    cases isReader op <;> exact xfacts_idle s _ rfl
  · rw [hpc]
    show MFacts .idle (if isReader op then .rTable lo else .wTable)
    cases isReader op <;> exact mfacts_idle _ rfl rfl
  · refine ⟨?_, ?_, ?_⟩
    · intro x hx
      have hx' : validL (if isReader op then (.rTable lo : Pc) else .wTable) = some x := hx
      cases hr : isReader op <;> rw [hr] at hx' <;> simp [validL] at hx'
    · intro x hx
      have hx' : validT (if isReader op then (.rTable lo : Pc) else .wTable) = some x := hx
      cases hr : isReader op <;> rw [hr] at hx' <;> simp [validT] at hx'
    · intro x hx
      have hx' : binRef (if isReader op then (.rTable lo : Pc) else .wTable) = some x := hx
      cases hr : isReader op <;> rw [hr] at hx' <;> simp [binRef] at hx'
  · intro p1 _
    show PcInv s p1 (if isReader op then .rTable lo else .wTable)
    cases isReader op <;> simp [PcInv]

theorem lfacts_of_none (s : State) (l l' : Local) (h1 : validL l'.pc = none) (h2 : validT l'.pc = none)
    (h3 : binRef l'.pc = none) : LFacts s l l' := by
  refine ⟨?_, ?_, ?_⟩
  · intro h hv; rw [h1] at hv; cases hv
  · intro b hv; rw [h2] at hv; cases hv
  · intro b hb; rw [h3] at hb; cases hb

theorem src_idle : (∀ (tab b j : Nat) (res : KRes), (.idle : Pc) ≠ .tRestructure tab b j res) ∧
    (∀ (tab b : Nat) (res : KRes), (.idle : Pc) ≠ .tUntreeify tab b res) ∧
    (∀ (tab b j : Nat), (.idle : Pc) ≠ .tTreeLinkLocked tab b j) :=
  ⟨fun _ _ _ _ h => (by cases h), fun _ _ _ h => (by cases h), fun _ _ _ h => by cases h⟩

/-- `resizeStart` allocates generation `cur + 1` (all cells `empty`): every cell reads as before -/
theorem eff_resizeStart {s : State} {t : Nat} {l : Local} (I : Inv s) (hl : s.threads[t]? = some l)
    (hpc : l.pc = .idle) (_hr : s.resizing = false) :
    let s' : State := { (setT (tick s) t { l with pc := .xNext }) with
      resizing := true, tabs := s.tabs ++ [List.replicate (2 ^ (s.cur + 1)) .empty] }
    XShape s' → Eff s s' ∧ ∀ k, absOf s' k = absOf s k := by
  intro s' XS'
  have hc := call_none_of_idle I.thr hl hpc
  refine eff_quiet_core (l' := { l with pc := .xNext }) I hl rfl (cellAt_alloc (s := s) (s' := s') rfl) rfl rfl
    (fun q => q.hinv I.heap rfl (reusing_of_set_pc (s' := s') (l' := { l with pc := .xNext }) rfl hl
      (by rw [hpc]; exact ⟨fun _ _ _ h => (by cases h), fun _ _ h => by cases h⟩))) ?_ ?_
    (Or.inl ⟨rfl, by rw [hpc]; rfl⟩) rfl ?_ ?_
    (lfacts_of_none s l _ rfl rfl rfl) ?_
  · refine tinv_keep (l' := { l with pc := .xNext }) I.thr hl rfl rfl rfl rfl ?_ ?_
    · show l.call = none ↔ noCallPc .xNext = true
      rw [hc]; simp [noCallPc, xPc]
    · intro p hp; rw [hc] at hp; cases hp
  · intro q
    exact xinv_qC (l' := { l with pc := .xNext }) I q rfl rfl XS' trivial (fun b _ => rfl)
  · rw [hpc]; exact src_idle
  · rw [hpc]; exact mfacts_idle _ rfl rfl
  · intro p1 hp1
    have h : l.call = some p1 := hp1
    rw [hc] at h; cases h

/-- `xcommit` switches to generation `cur + 1`: every cell of generation `cur` is forwarded, so the live cell of
every key is the same cell before and after -/
theorem eff_xcommit {s : State} {t : Nat} {l : Local} (I : Inv s) (hl : s.threads[t]? = some l)
    (hc : l.call = none) (hpc : l.pc = .xCommit) :
    let s' : State := { (setT (tick s) t { l with pc := .idle }) with cur := s.cur + 1, resizing := false }
    XShape s' → Eff s s' ∧ ∀ k, absOf s' k = absOf s k := by
  intro s' XS'
  have X := I.rsz
  have H := I.heap
  have L := I.lock
  have hthr : s'.threads = s.threads.set t { l with pc := .idle } := rfl
  have hxl : xPc l.pc = true := by rw [hpc]; rfl
  have q : QuietC s s' := ⟨fun _ => rfl, HeapEqv.refl _, rfl, fun _ => rfl⟩
  have noX : ∀ (t1 : Nat) (l1 : Local), s'.threads[t1]? = some l1 → xPc l1.pc = false := by
    intro t1 l1 h1
    rw [hthr] at h1
    rcases get_set h1 with ⟨rfl, rfl⟩ | ⟨hne, h1⟩
    · rfl
    · cases hx : xPc l1.pc with
      | false => rfl
      | true => exact absurd (X.uniqX t1 t l1 l h1 hl hx hxl) hne
  have noRe : ∀ b j0, ¬ Reusing s b j0 := by
    rintro b j0 ⟨t1, l1, h1, hr⟩
    have hx : xPc l1.pc = true := by
      rcases hr with ⟨hi, hr⟩ | hr <;> rw [hr] <;> rfl
    have := X.uniqX t1 t l1 l h1 hl hx hxl
    subst this
    rw [hl] at h1; cases h1
    rcases hr with ⟨hi, hr⟩ | hr <;> rw [hpc] at hr <;> cases hr
  have H' : HInv s' := by
    refine q.hinv' H ?_
    intro id id' b h1 h2
    rcases H.binsDistinct id id' b h1 h2 with h | ⟨j0, hr, _⟩
    · exact Or.inl h
    · exact absurd hr (noRe b j0)
  have T' : TInv s' := by
    refine tinv_keep (l' := { l with pc := .idle }) I.thr hl rfl rfl rfl rfl ?_ ?_
    · show l.call = none ↔ noCallPc .idle = true
      rw [hc]; simp [noCallPc]
    · intro p hp; rw [hc] at hp; cases hp
  have X' : XInv s' := XS'.xinv (fun t1 l1 h1 => xpc_of_not_x (noX t1 l1 h1))
  have hcid : ∀ (t1 : Nat) (l1 : Local), t1 ≠ t → s.threads[t1]? = some l1 → cidOf s' l1 = cidOf s l1 :=
    fun t1 l1 hne h1 => cidOf_others X hl hxl hne h1
  have hpriv : ∀ b, PrivBin s' b → PrivBin s b := by
    rintro b ⟨t1, l1, h1, hC, h0⟩
    obtain ⟨e1, e2⟩ := pend_of_not_x (s := s) (s' := s') (noX t1 l1 h1)
    rw [e1] at hC
    rw [hthr] at h1
    rcases get_set h1 with ⟨rfl, rfl⟩ | ⟨_, h1⟩
    · simp [pend] at hC
    · exact ⟨t1, l1, h1, hC, fun j hj => by rw [e2] at hj; cases hj⟩
  have hm : holdsMutex (.idle : Pc) = holdsMutex l.pc := by rw [hpc]; rfl
  have L' : LInv s' := by
    refine LInv.of_parts
      (lk_step_gen (l' := { l with pc := .idle }) L hl rfl hcid
        (lockfun_same (s' := s') L hl (by rw [hpc]; rfl) (fun h => rfl))
        (fun h hh => by cases hh) (fun h hv => by cases hv) (fun id => Or.inl rfl))
      (mx_step_gen (l' := { l with pc := .idle }) L hl rfl hcid
        (mutexfun_same (s' := s') L hl hm (fun b => rfl))
        (fun b hb => by cases hb) (fun b hv => by cases hv) (fun id => Or.inl rfl))
      (rw_cell (l' := { l with pc := .idle }) L hl rfl rfl (fun id b hcell => Or.inl ⟨id, hcell⟩)
        (fun b hb => by rw [hpc] at hb; cases hb) (by rw [hpc]; rfl) (fun b hb => by cases hb)
        (fun b _ h => hpriv b h))
  have D' : DInv s' := by
    refine dinv_qC (l' := { l with pc := .idle }) I hl q rfl ?_ (fun _ _ _ _ h => by cases h) ?_ (fun b _ => rfl)
    · rw [hpc]
      exact ⟨fun _ _ _ _ h => (by cases h), fun _ _ _ h => (by cases h), fun _ _ _ h => by cases h⟩
    · intro p1 hp1
      have h : l.call = some p1 := hp1
      rw [hc] at h; cases h
  have hlid : ∀ k, liveId s' k = liveId s k := by
    intro k
    have hmv : cellAt s (idOf s.cur k) = .moved := X.post t l hl hpc _ (mod_lt_pow' k s.cur)
    rw [liveId_moved hmv]
    have hn : ¬ cellAt s' (idOf s'.cur k) = .moved := X.newNotMoved (k % 2 ^ (s.cur + 1))
    unfold liveId
    exact if_neg hn
  have hused : ∀ j, Used s' j → Used s j := by
    rintro j (⟨id, hj⟩ | ⟨t1, l1, tab, k, h, b, h1, hpc1, ho⟩ | ⟨t1, l1, C, h1, hx1, -⟩)
    · exact Or.inl ⟨id, hj⟩
    · rw [hthr] at h1
      rcases get_set h1 with ⟨rfl, rfl⟩ | ⟨_, h1⟩
      · cases hpc1
      · exact Or.inr (Or.inl ⟨t1, l1, tab, k, h, b, h1, hpc1, ho⟩)
    · rw [noX t1 l1 h1] at hx1; cases hx1
  exact eff_of_quietC H ⟨H', T', X', L', D'⟩ q hlid (liveCell_of_liveId X X' (fun _ => rfl) hlid) hused
    (fun b _ hw => hw)

/-! ## `PubRead` from a separation property of the planned `TreeBin`s -/

/-- [not part of `Inv`] a `TreeBin` pending in the transfer of cell `(cur, j)` is in no cell but `(cur, j)` (the re-used
bin) and its two children (once stored). It holds in the model (planned bins are fresh: `≥ tbins.length` when built),
but `Inv` does not record it. -/
def PlanSep (s : State) : Prop :=
  ∀ (t : Nat) (l : Local) (j b : Nat), s.threads[t]? = some l → xIdx l.pc = some j → (.tree b : Cell) ∈ pend s l.pc →
    ∀ id : Cid, cellAt s id = .tree b → id = (s.cur, j) ∨ id = (s.cur + 1, j) ∨ id = (s.cur + 1, j + 2 ^ s.cur)

theorem pubRead_of_planSep {s : State} (I : Inv s) (S : PlanSep s) : PubRead s := by
  intro t l g b hl hg hc
  have hcell : cellAt s (idOf g (keyOf l)) = .tree b := hc
  rintro ⟨t1, l1, h1, hC, h0⟩
  have hk := I.data.kInv t1 l1 h1
  have X := I.rsz
  have key : ∀ j, xIdx l1.pc = some j → xPre l1.pc = true → False := by
    intro j hj hpre
    have hjlt := X.idx t1 l1 j h1 hj
    have hnm := X.pre t1 l1 j h1 hpre hj
    have htn := X.tabNew t l g hl hg
    have hmod : ∀ k : Nat, (k % 2 ^ (s.cur + 1) = j ∨ k % 2 ^ (s.cur + 1) = j + 2 ^ s.cur) → k % 2 ^ s.cur = j := by
      intro k hk
      have e : (k % 2 ^ (s.cur + 1)) % 2 ^ s.cur = k % 2 ^ s.cur :=
        Nat.mod_mod_of_dvd k ⟨2, by rw [Nat.pow_succ]⟩
      rcases hk with hk | hk
      · rw [hk, Nat.mod_eq_of_lt hjlt] at e; exact e.symm
      · rw [hk, Nat.add_mod_right, Nat.mod_eq_of_lt hjlt] at e; exact e.symm
    rcases S t1 l1 j b h1 hj hC (idOf g (keyOf l)) hcell with e | e | e
    · rw [e] at hcell; exact h0 j hj hcell
    · have e1 : g = s.cur + 1 := congrArg Prod.fst e
      have e2 : keyOf l % 2 ^ g = j := congrArg Prod.snd e
      subst e1
      have hm := htn.2 rfl
      have : idOf s.cur (keyOf l) = (s.cur, j) := by
        unfold idOf; rw [hmod _ (Or.inl e2)]
      rw [this] at hm
      exact hnm hm
    · have e1 : g = s.cur + 1 := congrArg Prod.fst e
      have e2 : keyOf l % 2 ^ g = j + 2 ^ s.cur := congrArg Prod.snd e
      subst e1
      have hm := htn.2 rfl
      have : idOf s.cur (keyOf l) = (s.cur, j) := by
        unfold idOf; rw [hmod _ (Or.inr e2)]
      rw [this] at hm
      exact hnm hm
  cases hpc : l1.pc with
  | kStore tab k h b' =>
    rw [hpc] at hC hk
    simp only [KInv] at hk
    simp [pend] at hC
    subst hC
    exact hk.2 _ hcell
  | xStoreLow j1 unl lo hi => exact key j1 (by rw [hpc]; rfl) (by rw [hpc]; rfl)
  | xStoreHigh j1 unl hi => exact key j1 (by rw [hpc]; rfl) (by rw [hpc]; rfl)
  | xStoreMoved j1 unl => exact key j1 (by rw [hpc]; rfl) (by rw [hpc]; rfl)
  | _ => rw [hpc] at hC; simp [pend] at hC

end Flurry.Proto.BinGNP
