import Flurry.Lemmas.BinNInvAux
import Flurry.Lemmas.BinNInvDefs
import Flurry.Lemmas.BinNHMInvDefs
/-! # Proto/BinNH — port of the `Proto/BinN` lemma file of the same name to the heap invariant with ONE
MID-TRANSFER CELL PER HELPER (`Lemmas/BinNHMDefs.lean`); statements about `BinN.State`. Original header: auxiliary lemmas for the preservation of the structural invariant -/
namespace Flurry.Proto.BinNHM
open Flurry.Proto.BinN
open Flurry.Lin
open Flurry.Proto.BinX (NodeS Cell Pending dflt chainFrom cellHead cellOfHead nodeAt nodeAt_of_some getElem?_nodeAt
  nodeAt_append_left IsSeg IsChain chainH absIn KeysDistinct Walk get_set get_set_self get_set_ne)

/-- growing the heap changes no chain -/
theorem chId_of_ext {s s' : State} {G G' : Ghost} (H : HInv s G) (H' : HInv s' G') {ext : List NodeS}
    (hh : s'.heap = s.heap ++ ext) (ht : s'.tabs = s.tabs) (id : CellId) : chId s' id = chId s id := by
  refine H'.chId_eq ?_
  rw [getCell_congr ht, hh]
  exact (H.isChain id).append_heap ext

end Flurry.Proto.BinNHM
