import Flurry.Lemmas.BinNGhost
import Flurry.Lemmas.BinNSurgeryDefs
import Flurry.Lemmas.BinNHMSurgeryDefs
import Flurry.Lemmas.BinNExt
/-! # Proto/BinNH — port of the `Proto/BinN` lemma file of the same name to the heap invariant with ONE
MID-TRANSFER CELL PER HELPER (`Lemmas/BinNHMDefs.lean`); statements about `BinN.State`. Original header: the hindsight invariant of the readers (C01, C10)

As in `Lemmas/BinXGhost.lean`, for a fixed key `k`: `A τ` = abstract state of `k` after global step `τ`.

`Good G A k inv s cur`: the hindsight justification of a lock-free reader (invoked at `inv`) holding the
pointer `cur`:
* `absent`: `cur = none` and at some time in `[inv, now]` the key was absent;
* `on`: `cur` is on the live chain of `k` and no node before it (in `ord`) has key `k`;
* `foreign`: `cur` is on the chain of a cell `id` in which `k` does not live — the reader came there through
  the list of an ancestor cell that has been split since (possibly several generations ago) — and at some
  time in `[inv, now]` the key was absent;
* `off`: `cur` is dead: its fields are frozen; if it has key `k` its value was the abstract value at some
  time in `[inv, now]`, otherwise its successor is `Good` again.

`Good.step`: `Good` survives every `HeapStep`; `Good.moved`: it survives the store of a forwarding marker
(in any generation); `Good.cleared`: it survives the store that empties a cell. -/
namespace Flurry.Proto.BinNHM
open Flurry.Proto.BinN
open Flurry.Lin
open Flurry.Proto.BinX (NodeS Cell Pending dflt chainFrom cellHead cellOfHead nodeAt nodeAt_of_some getElem?_nodeAt
  IsSeg IsChain chainH chainH_empty chainH_moved absIn absIn_eq_none_iff absIn_eq_some_iff KeysDistinct)

namespace HInv
variable {s : State} {G : Ghost}

theorem LC_isChain (H : HInv s G) (k : Nat) : IsChain s.heap (cellHead (liveCell s k)) (LC s k) := by
  rw [H.LC_eq, H.liveCell_eq]; exact H.isChain _

theorem LC_lt (H : HInv s G) {k i : Nat} (hi : i ∈ LC s k) : i < s.heap.length :=
  (H.LC_isChain k).lt_length i hi

theorem LC_keys (H : HInv s G) (k : Nat) : KeysDistinct s.heap (LC s k) := by
  rw [H.LC_eq]; exact H.keys _

theorem absOf_none_iff (_H : HInv s G) {k : Nat} : absOf s k = none ↔ ∀ i ∈ LC s k, (nodeAt s.heap i).key ≠ k := by
  rw [absOf_eq]; exact absIn_eq_none_iff

theorem absOf_some_iff (H : HInv s G) {k : Nat} {v : Nat × Nat} :
    absOf s k = some v ↔ ∃ i ∈ LC s k, (nodeAt s.heap i).key = k ∧ (nodeAt s.heap i).val = v := by
  rw [absOf_eq]; exact absIn_eq_some_iff (H.LC_keys k)

end HInv

/-! ## the hindsight justification of a reader -/

inductive Good (G : Ghost) (A : Nat → KSt) (k inv : Nat) (s : State) : Option Nat → Prop
  | absent {τ : Nat} : inv ≤ τ → τ ≤ s.now → A τ = none → Good G A k inv s none
  | on {c : Nat} : c ∈ LC s k → (∀ i ∈ LC s k, ord G.cr i < ord G.cr c → (nodeAt s.heap i).key ≠ k) →
      Good G A k inv s (some c)
  | foreign {c τ : Nat} {id : CellId} : c ∈ chId s id → ¬ keyOn id k → inv ≤ τ → τ ≤ s.now → A τ = none →
      Good G A k inv s (some c)
  | off {c : Nat} : ¬ Live s G c → c < s.heap.length →
      ((nodeAt s.heap c).key ≠ k → Good G A k inv s (nodeAt s.heap c).next) →
      ((nodeAt s.heap c).key = k → ∃ τ, inv ≤ τ ∧ τ ≤ s.now ∧ A τ = some (nodeAt s.heap c).val) →
      Good G A k inv s (some c)

/-- the successor of a chain node whose predecessors (and itself) do not have key `k` is `Good` -/
theorem Good.of_succ {A : Nat → KSt} {k inv : Nat} {s : State} {G : Ghost} (H : HInv s G)
    (hA : A s.now = absOf s k) (hinv : inv ≤ s.now) {c : Nat} (hc : c ∈ LC s k)
    (hbefore : ∀ i ∈ LC s k, ord G.cr i < ord G.cr c → (nodeAt s.heap i).key ≠ k)
    (hk : (nodeAt s.heap c).key ≠ k) : Good G A k inv s (nodeAt s.heap c).next := by
  have hn := getElem?_nodeAt (H.LC_lt hc)
  have hle : ∀ i ∈ LC s k, ord G.cr i ≤ ord G.cr c → (nodeAt s.heap i).key ≠ k := by
    intro i hi hic
    rcases Int.lt_or_eq_of_le hic with hlt | heq
    · exact hbefore i hi hlt
    · rw [ord_inj heq]; exact hk
  cases hnx : (nodeAt s.heap c).next with
  | none =>
    have h1 := (H.LC_isChain k).succ_noneN H.nextOK hc hn hnx
    refine .absent hinv (Nat.le_refl _) ?_
    rw [hA, H.absOf_none_iff]
    intro i hi
    exact hle i hi (h1 i hi)
  | some b =>
    obtain ⟨hb, h1⟩ := (H.LC_isChain k).succ_someN H.nextOK hc hn hnx
    refine .on hb ?_
    intro i hi hib
    exact hle i hi (h1 i hi hib)

/-- the pointer loaded from the (live) cell -/
theorem Good.cell {A : Nat → KSt} {k inv : Nat} {s : State} {G : Ghost} (H : HInv s G) {h : Nat}
    (hcell : liveCell s k = .node h) : Good G A k inv s (some h) := by
  have hC := H.LC_isChain k
  rw [hcell] at hC
  cases hl : LC s k with
  | nil => rw [hl] at hC; cases hC
  | cons a l =>
    rw [hl] at hC
    obtain ⟨ha, -⟩ := IsSeg.cons_iff.1 hC
    cases ha
    refine .on (by rw [hl]; simp) ?_
    intro i hi hih
    have hs := hC.sortedN H.nextOK
    rw [hl] at hi
    rcases List.mem_cons.1 hi with rfl | hi
    · omega
    · have := (List.pairwise_cons.1 hs).1 i hi
      omega

/-- the pointer loaded from the `next` cell of a node with another key -/
theorem Good.next {A : Nat → KSt} {k inv : Nat} {s : State} {G : Ghost} (H : HInv s G)
    (hA : A s.now = absOf s k) (hinv : inv ≤ s.now) {c : Nat} (hg : Good G A k inv s (some c))
    (hk : (nodeAt s.heap c).key ≠ k) : Good G A k inv s (nodeAt s.heap c).next := by
  cases hg with
  | on hc hbefore => exact Good.of_succ H hA hinv hc hbefore hk
  | @foreign _ τ id hc hno h1 h2 h3 =>
    have hn := getElem?_nodeAt (H.chain_lt hc)
    cases hnx : (nodeAt s.heap c).next with
    | none => exact .absent h1 h2 h3
    | some b =>
      obtain ⟨hb, -⟩ := (H.isChain id).succ_someN H.nextOK hc hn hnx
      exact .foreign hb hno h1 h2 h3
  | off _ _ hnext _ => exact hnext hk

/-- a reader that finds key `k` in node `c` -/
theorem Good.hit {A : Nat → KSt} {k inv : Nat} {s : State} {G : Ghost} (H : HInv s G)
    (hA : A s.now = absOf s k) (hinv : inv ≤ s.now) {c : Nat} (hg : Good G A k inv s (some c))
    (hk : (nodeAt s.heap c).key = k) :
    ∃ τ, inv ≤ τ ∧ τ ≤ s.now ∧ A τ = some (nodeAt s.heap c).val := by
  cases hg with
  | on hc _ =>
    exact ⟨s.now, hinv, Nat.le_refl _, by rw [hA]; exact H.absOf_some_iff.2 ⟨c, hc, hk, rfl⟩⟩
  | @foreign _ _ id hc hno _ _ _ =>
    exfalso
    have := H.side id c hc
    rw [hk] at this
    exact hno this
  | off _ _ _ hval => exact hval hk

theorem Good.miss {G : Ghost} {A : Nat → KSt} {k inv : Nat} {s : State} (hg : Good G A k inv s none) :
    ∃ τ, inv ≤ τ ∧ τ ≤ s.now ∧ A τ = none := by
  cases hg with
  | absent h1 h2 h3 => exact ⟨_, h1, h2, h3⟩

/-- **hindsight**: the justification of a reader survives every transition that is a `HeapStep` -/
theorem Good.step {A A' : Nat → KSt} {k inv : Nat} {s s' : State} {G G' : Ghost} {cur : Option Nat}
    (hg : Good G A k inv s cur) (H : HInv s G) (H' : HInv s' G') (hs : HeapStep s s' G G')
    (hnow : s'.now = s.now + 1) (hA' : ∀ τ, τ ≤ s.now → A' τ = A τ) (hA : A s.now = absOf s k)
    (hinv : inv ≤ s.now) : Good G' A' k inv s' cur := by
  -- a chain node that stays on the chain stays justified
  have hon : ∀ (c : Nat), c ∈ LC s k → c ∈ LC s' k →
      (∀ i ∈ LC s k, ord G.cr i < ord G.cr c → (nodeAt s.heap i).key ≠ k) →
      ∀ i ∈ LC s' k, ord G'.cr i < ord G'.cr c → (nodeAt s'.heap i).key ≠ k := by
    intro c hc hc' hbefore i hi hic
    have hcl := H.LC_lt hc
    rcases hs.lc k i hi with hi0 | ⟨hi0, hncp⟩
    · have hil := H.LC_lt hi0
      rw [hs.key i hil]
      rw [hs.ordS i hil, hs.ordS c hcl] at hic
      exact hbefore i hi0 hic
    · exfalso
      rw [ord_not_copy hncp, hs.ordS c hcl] at hic
      have := ord_le_self G.cr c
      omega
  induction hg with
  | absent h1 h2 h3 => exact .absent h1 (by omega) (by rw [hA' _ h2]; exact h3)
  | @on c hc hbefore =>
    have hcl := H.LC_lt hc
    by_cases hc' : c ∈ LC s' k
    · exact .on hc' (hon c hc hc' hbefore)
    · obtain ⟨hval, hnext, hdead, hrest⟩ := hs.unl k c hc hc'
      have hkey := hs.key c hcl
      refine .off hdead (by have := hs.len; omega) ?_ ?_
      · intro hk
        rw [hkey] at hk
        rw [hnext]
        have hn := getElem?_nodeAt hcl
        have hle : ∀ i ∈ LC s k, ord G.cr i ≤ ord G.cr c → (nodeAt s.heap i).key ≠ k := by
          intro i hi hic
          rcases Int.lt_or_eq_of_le hic with hlt | heq
          · exact hbefore i hi hlt
          · rw [ord_inj heq]; exact hk
        cases hnx : (nodeAt s.heap c).next with
        | none =>
          have h1 := (H.LC_isChain k).succ_noneN H.nextOK hc hn hnx
          refine .absent (τ := s.now) hinv (by omega) ?_
          rw [hA' _ (Nat.le_refl _), hA, H.absOf_none_iff]
          intro i hi
          exact hle i hi (h1 i hi)
        | some b =>
          obtain ⟨hb, h1⟩ := (H.LC_isChain k).succ_someN H.nextOK hc hn hnx
          have hcb := (H.nextOK c _ b hn hnx).1
          have hbc : b ≠ c := by intro h; rw [h] at hcb; omega
          have hb' : b ∈ LC s' k := hrest b hb hbc
          refine .on hb' (hon b hb hb' ?_)
          intro i hi hib
          exact hle i hi (h1 i hi hib)
      · intro hk
        rw [hkey] at hk
        refine ⟨s.now, hinv, by omega, ?_⟩
        rw [hA' _ (Nat.le_refl _), hA, hval]
        exact H.absOf_some_iff.2 ⟨c, hc, hk, rfl⟩
  | @foreign c τ id hc hno h1 h2 h3 =>
    have h3' : A' τ = none := by rw [hA' _ h2]; exact h3
    have hcl := H.chain_lt hc
    by_cases hc' : c ∈ chId s' id
    · exact .foreign hc' hno h1 (by omega) h3'
    · obtain ⟨hval, hnext, hdead, hrest⟩ := hs.unlC id c hc hc'
      have hkey := hs.key c hcl
      have hside : (nodeAt s.heap c).key ≠ k := by
        intro hk
        have := H.side id c hc
        rw [hk] at this
        exact hno this
      refine .off hdead (by have := hs.len; omega) ?_ (fun hk => absurd (hkey ▸ hk) hside)
      intro _
      rw [hnext]
      have hn := getElem?_nodeAt hcl
      cases hnx : (nodeAt s.heap c).next with
      | none => exact .absent h1 (by omega) h3'
      | some b =>
        obtain ⟨hb, -⟩ := (H.isChain id).succ_someN H.nextOK hc hn hnx
        have hcb := (H.nextOK c _ b hn hnx).1
        have hbc : b ≠ c := by intro h; rw [h] at hcb; omega
        exact .foreign (hrest b hb hbc) hno h1 (by omega) h3'
  | @off c hc hcl _ hval ih =>
    obtain ⟨hv, hn, hdead⟩ := hs.off c hcl hc
    have hkey := hs.key c hcl
    refine .off hdead (by have := hs.len; omega) ?_ ?_
    · intro hk
      rw [hkey] at hk
      rw [hn]
      exact ih hk
    · intro hk
      rw [hkey] at hk
      obtain ⟨τ, h1, h2, h3⟩ := hval hk
      exact ⟨τ, h1, by omega, by rw [hA' _ h2, hv]; exact h3⟩

end Flurry.Proto.BinNHM
