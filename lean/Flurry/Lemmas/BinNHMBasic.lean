import Flurry.Lemmas.BinNBasic
import Flurry.Lemmas.BinNDefs
import Flurry.Lemmas.BinNHMDefs
import Flurry.Lemmas.BinNChain
/-! # Proto/BinNH — port of the `Proto/BinN` lemma file of the same name to the heap invariant with ONE
MID-TRANSFER CELL PER HELPER (`Lemmas/BinNHMDefs.lean`); statements about `BinN.State`. Original header: basic consequences of the heap invariant (C01, C10) -/
namespace Flurry.Proto.BinNHM
open Flurry.Proto.BinN
open Flurry.Lin
open Flurry.Proto.BinX (NodeS Cell Pending dflt chainFrom cellHead cellOfHead nodeAt IsSeg IsChain chainH chainH_empty
  chainH_moved absIn KeysDistinct cellHead_cellOfHead cellOfHead_ne_moved)

theorem GenInv.shape {s : State} (I : GenInv s) : Shape s := ⟨I.len, I.rows, I.old, I.nextOK, I.curMoved⟩

theorem getCell_mk (s : State) (g j : Nat) : getCell s (g, j) = cellAt s g j := rfl

theorem keyOn_cellId (g k : Nat) : keyOn (cellId g k) k := rfl

theorem chainOfCell_eq (s : State) (c : Cell) : chainOfCell s c = chainH s.heap c := rfl

namespace Shape
variable {s : State}

theorem cur_lt (S : Shape s) : s.cur < s.tabs.length := by
  have := S.len
  omega

/-- a cell that is outside the tables reads as `empty` -/
theorem cell_of_gen_gt (S : Shape s) {g j : Nat} (hg : s.cur + 1 < g) : cellAt s g j = .empty := by
  have hlen : s.tabs.length ≤ g := by
    have := S.len
    split at this <;> omega
  unfold cellAt
  have e : s.tabs.getD g [] = [] := by rw [getD_eq, List.getElem?_eq_none hlen]; rfl
  rw [e]; rfl

theorem cell_next_of_not_resizing (S : Shape s) (hr : s.resizing = false) (j : Nat) :
    cellAt s (s.cur + 1) j = .empty := by
  have hlen : s.tabs.length ≤ s.cur + 1 := by
    have := S.len
    rw [hr] at this
    simp at this
    omega
  unfold cellAt
  have e : s.tabs.getD (s.cur + 1) [] = [] := by rw [getD_eq, List.getElem?_eq_none hlen]; rfl
  rw [e]; rfl

/-- a cell whose index is out of range reads as `empty` -/
theorem cell_of_idx_ge (S : Shape s) {g j : Nat} (hj : 2 ^ g ≤ j) : cellAt s g j = .empty := by
  unfold cellAt
  cases hr : s.tabs[g]? with
  | none =>
    have e : s.tabs.getD g [] = [] := by rw [getD_eq, hr]; rfl
    rw [e]; rfl
  | some row =>
    have e : s.tabs.getD g [] = row := by rw [getD_eq, hr]; rfl
    have := S.rows g row hr
    rw [e, getD_eq, List.getElem?_eq_none (by omega)]; rfl

/-- a lookup that starts now follows at most one forwarding marker -/
theorem liveCell_eq (S : Shape s) (k : Nat) : liveCell s k = getCell s (liveId s k) := by
  unfold liveCell liveId
  obtain ⟨f, hf⟩ : ∃ f, s.tabs.length = f + 1 := ⟨s.tabs.length - 1, by have := S.cur_lt; omega⟩
  rw [hf]
  by_cases hm : cellOf s s.cur k = .moved
  · rw [if_pos hm, liveFrom_of_moved s k f s.cur hm]
    exact liveFrom_of_not_moved s k f _ (S.nextNM _)
  · rw [if_neg hm]
    exact liveFrom_of_not_moved s k _ _ hm

end Shape

namespace HInv
variable {s : State} {G : Ghost}

theorem isChain (H : HInv s G) (id : CellId) : IsChain s.heap (cellHead (getCell s id)) (chId s id) :=
  chainH_isChain H.nextOK (H.head id)

theorem chId_eq (H : HInv s G) {id : CellId} {l : List Nat} (h : IsChain s.heap (cellHead (getCell s id)) l) :
    chId s id = l := chainH_eq H.nextOK h

theorem chain_lt (H : HInv s G) {id : CellId} {i : Nat} (hi : i ∈ chId s id) : i < s.heap.length :=
  (H.isChain id).lt_length i hi

theorem chain_nodup (H : HInv s G) (id : CellId) : (chId s id).Nodup := (H.isChain id).nodupN H.nextOK

theorem liveCell_eq (H : HInv s G) (k : Nat) : liveCell s k = getCell s (liveId s k) := H.shape.liveCell_eq k

theorem LC_eq (H : HInv s G) (k : Nat) : LC s k = chId s (liveId s k) := by
  unfold LC; rw [chainOfCell_eq, H.liveCell_eq]; rfl

end HInv

theorem chId_of_empty {s : State} {id : CellId} (h : getCell s id = .empty) : chId s id = [] := by
  unfold chId; rw [h]; exact chainH_empty _

theorem chId_of_moved {s : State} {id : CellId} (h : getCell s id = .moved) : chId s id = [] := by
  unfold chId; rw [h]; exact chainH_moved _

/-- keys of two different cells that can both be non-empty and one of which is active are different -/
theorem keyOn_mod {g g' j k : Nat} (hg : g ≤ g') (h : k % 2 ^ g' = j) : k % 2 ^ g = j % 2 ^ g := by
  rw [← h]
  exact (Nat.mod_mod_of_dvd k (Nat.pow_dvd_pow 2 hg)).symm

/-- the chain of an active cell is disjoint from the other chains -/
theorem HInv.disjoint {s : State} {G : Ghost} (H : HInv s G) {id id' : CellId} (act : Active s G id)
    (hne : id' ≠ id) {i : Nat} (hi : i ∈ chId s id) : i ∉ chId s id' := by
  intro hi'
  obtain ⟨g, j⟩ := id
  obtain ⟨g', j'⟩ := id'
  have k1 : (nodeAt s.heap i).key % 2 ^ g = j := H.side _ i hi
  have k2 : (nodeAt s.heap i).key % 2 ^ g' = j' := H.side _ i hi'
  have S := H.shape
  -- the other cell is not empty and not forwarded
  have hne' : getCell s (g', j') ≠ .empty := fun h => by rw [chId_of_empty h] at hi'; cases hi'
  have hnm' : getCell s (g', j') ≠ .moved := fun h => by rw [chId_of_moved h] at hi'; cases hi'
  have hj' : j' < 2 ^ g' := by
    rcases Nat.lt_or_ge j' (2 ^ g') with h | h
    · exact h
    · exact absurd (S.cell_of_idx_ge h) hne'
  have hg' : g' = s.cur ∨ g' = s.cur + 1 := by
    rcases Nat.lt_or_ge g' s.cur with h | h
    · exact absurd (S.old g' j' h hj') hnm'
    · rcases Nat.lt_or_ge (s.cur + 1) g' with h2 | h2
      · exact absurd (S.cell_of_gen_gt h2) hne'
      · omega
  rcases act with ⟨hg, hj, hnm, hmid⟩ | ⟨hg, hj, hpar⟩
  · -- an unsplit cell of `cur`
    simp only at hg hj hnm hmid
    subst hg
    rcases hg' with rfl | rfl
    · apply hne
      rw [k1] at k2
      rw [k2]
    · -- a non-empty child: its parent is forwarded or being split
      have hpar := keyOn_mod (Nat.le_succ s.cur) k2
      rw [k1] at hpar
      by_cases hm : cellAt s s.cur (j' % 2 ^ s.cur) = .moved
      · rw [← hpar] at hm; exact hnm hm
      · by_cases hmi : IsMid G (j' % 2 ^ s.cur)
        · rw [← hpar] at hmi; exact hmid hmi
        · exact hne' (H.nextEmpty j' hm hmi)
  · -- a child of a forwarded cell
    simp only at hg hj hpar
    subst hg
    rcases hg' with rfl | h
    · have hp := keyOn_mod (Nat.le_succ s.cur) k1
      rw [k2] at hp
      rw [← hp] at hpar
      exact hnm' hpar
    · have : g' = s.cur + 1 := h
      subst this
      apply hne
      rw [k1] at k2
      rw [k2]

/-- for an active cell and a key that lives in it, the live chain of the key is the chain of the cell -/
theorem HInv.liveId_of_active {s : State} {G : Ghost} (H : HInv s G) {id : CellId} (act : Active s G id)
    {k : Nat} (hk : keyOn id k) : liveId s k = id := by
  obtain ⟨g, j⟩ := id
  unfold keyOn at hk
  simp only at hk
  unfold liveId
  rcases act with ⟨hg, hj, hnm, -⟩ | ⟨hg, hj, hpar⟩
  · simp only at hg hnm
    subst hg
    have : cellOf s s.cur k ≠ .moved := by unfold cellOf; rw [hk]; exact hnm
    rw [if_neg this]
    unfold cellId; rw [hk]
  · simp only at hg hpar
    subst hg
    have hp := keyOn_mod (Nat.le_succ s.cur) hk
    have : cellOf s s.cur k = .moved := by unfold cellOf; rw [hp]; exact hpar
    rw [if_pos this]
    unfold cellId; rw [hk]

/-- for an active cell and a key that does not live in it, the live chain of the key is another one -/
theorem HInv.liveId_ne_of_active {s : State} {G : Ghost} (_H : HInv s G) {id : CellId} (_act : Active s G id)
    {k : Nat} (hk : ¬ keyOn id k) : liveId s k ≠ id := by
  intro h
  apply hk
  unfold liveId at h
  split at h <;> (rw [← h]; exact keyOn_cellId _ _)

/-- an active cell is not forwarded -/
theorem Active.notMoved {s : State} {G : Ghost} {id : CellId} (S : Shape s) (act : Active s G id) :
    getCell s id ≠ .moved := by
  obtain ⟨g, j⟩ := id
  rcases act with ⟨_, _, hnm, _⟩ | ⟨hg, _, _⟩
  · exact hnm
  · simp only at hg
    subst hg
    exact S.nextNM j

end Flurry.Proto.BinNHM
