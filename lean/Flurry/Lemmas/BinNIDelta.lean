import Flurry.Lemmas.BinNIReach
/-! # Proto/BinN: every transition that leaves `absOf k = some v` unchanged is a `Delta k` on the nodes (C07) -/
namespace Flurry.Proto.BinN
open Flurry.Lin
open Flurry.Proto.BinX (NodeS Cell Pending isReader dflt chainFrom cellHead cellOfHead nodeAt nodeAt_of_some getElem?_nodeAt
  IsSeg IsChain chainH Walk)

theorem stepK_delta {s s' : State} {G : Ghost} {t : Nat} {l : Local} {pick : Nat} (I : Inv s G)
    (hl : s.threads[t]? = some l) (h : StepK s t l pick s') {k : Nat} {v : Nat × Nat}
    (hv : absOf s k = some v) : Delta k s.heap s'.heap := by
  have T := I.gen.thr t l hl
  have H := I.heap
  cases h with
  | lockMove p hh x pc' hp hm => exact delta_modify k s.heap hh _ (fun m => ⟨rfl, rfl⟩)
  | tlockMove hh x pc' hp hm => exact delta_modify k s.heap hh _ (fun m => ⟨rfl, rfl⟩)
  | unlockFin p g hh res hp hpc => exact delta_modify k s.heap hh _ (fun m => ⟨rfl, rfl⟩)
  | cas p g v1 vi1 hp hpc hc hop => exact delta_append k s.heap _
  | build j hh hp hpc =>
    obtain ⟨ext, hext⟩ := splitBinB_ext (bitAt s.cur) s.heap (chainFrom s.heap s.heap.length (some hh))
    show Delta k s.heap (splitBinB (bitAt s.cur) s.heap (chainFrom s.heap s.heap.length (some hh))).1
    rw [hext]
    exact delta_append k s.heap ext
  | store p g hh pred hit hnext hp hpc =>
    obtain ⟨pc, call⟩ := l
    simp only at hp hpc
    subst hp hpc
    have hv0 : vcell s.cur { pc := Pc.wStore g hh pred hit hnext, call := some p } = some (g, p.key % 2 ^ g, hh) := rfl
    have act := I.active_of_vcell hl rfl rfl (fun h => h) hv0
    obtain ⟨hcell, -⟩ := T.valid _ _ _ hv0
    have hwr : isReader p.op = false := I.thr.opOK t _ p hl rfl
    have hw := I.walk.walk t _ p hl rfl
    obtain ⟨-, -, -, -, -, hspec, -⟩ := store_effect (s := tick s) (H.sameMem (SameMem.tick s)) p hwr
      (act.sameMem (SameMem.tick s)) (h := hh) hcell hw.1 hw.2
    refine storeAt_delta (tick s) g p pred hit hnext k ?_ ?_
    · intro hnone v1 vi1 hop hkey
      subst hnone
      have h2 := congrArg Prod.snd hspec
      simp only at h2
      rw [absOf_sameMem (SameMem.tick s), hkey, hv, storeAt_res_append _ _ _ _ _ hop] at h2
      exact spec_res_present v hop h2
    · intro i pr hi hpred
      have hchain : IsChain s.heap (cellHead (getCell s (cellId g p.key))) (chId s (cellId g p.key)) := H.isChain _
      obtain ⟨npr, ni, a, b, c⟩ := walk_pred_hit hchain hw.1 hi hpred
      refine ⟨npr, ni, a, b, c, ?_⟩
      rw [(hw.2 i hi).2]
      exact congrArg NodeS.next (nodeAt_of_some c)
  | _ => exact delta_same k s.heap

end Flurry.Proto.BinN
