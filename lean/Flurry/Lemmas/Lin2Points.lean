import Flurry.Lemmas.Lin2Search
/-! # Linearization points, sanity lemmas of the per-key specification, examples

(C13 port of `Flurry/Lemmas/LinPoints.lean` to the per-key operations of `Flurry/Lin2.lean`, i.e. with `retain`'s conditional removal `condRm`; below, "`Proto/Bin`" / `Base.` is `Flurry.Proto.BinR.Base` (`Proto/BinRBase.lean`) and "`Proto/BinW`" is `Flurry.Proto.BinR` (`Proto/BinR.lean`), which in addition has the `retain` visit steps.)
-/
namespace Flurry.Lin2

/-! ## `replay2` lemmas -/

theorem replay_append (h : History2) : ∀ (o₁ o₂ : List Nat) (st : KSt),
    replay2 h (o₁ ++ o₂) st = (replay2 h o₁ st).bind (replay2 h o₂)
  | [], o₂, st => by simp [replay2]
  | i :: o₁, o₂, st => by
    cases hc : h[i]? with
    | none => simp [replay2, hc]
    | some c =>
      rw [List.cons_append, replay_cons_some hc, replay_cons_some hc]
      split
      · exact replay_append h o₁ o₂ _
      · simp

/-- extending the history at the end does not disturb a successful replay2 -/
theorem replay_append_history (h l : History2) : ∀ (o : List Nat) (st fin : KSt),
    replay2 h o st = some fin → replay2 (h ++ l) o st = some fin
  | [], st, fin, hr => by simpa [replay2] using hr
  | i :: o, st, fin, hr => by
    obtain ⟨c, hc, hres, hr'⟩ := replay_cons_eq_some hr
    have hi : i < h.length := (List.getElem?_eq_some_iff.1 hc).1
    have hc' : (h ++ l)[i]? = some c := by rw [List.getElem?_append_left hi]; exact hc
    rw [replay_cons_some hc', if_pos hres]
    exact replay_append_history h l o _ fin hr'

/-! ## Target 3: linearization points -/

/-- **Target 3** (`lin_of_points`): if every call `i` has a point `pt i` inside its interval
`[inv, resp]` and replaying the calls in strictly increasing order of their points succeeds, the
history is linearizable.  (Distinctness of the points is the strictness of `hsorted`; `inv ≤ resp`
follows from `hpt`.) -/
theorem lin_of_points {h : History2} {init fin : KSt} (pt : Nat → Nat) (order : List Nat)
    (hpt : ∀ (i : Nat) (hi : i < h.length), h[i].inv ≤ pt i ∧ pt i ≤ h[i].resp)
    (hperm : order.Perm (List.range h.length))
    (hsorted : order.Pairwise (fun a b => pt a < pt b))
    (hrep : replay2 h order init = some fin) : Linearizable2 h init fin := by
  refine linearizable_iff_pairwise.2 ⟨order, hperm, ?_, hrep⟩
  refine hsorted.imp_of_mem ?_
  intro a b ha hb hab
  have ha' : a < h.length := List.mem_range.1 (hperm.subset ha)
  have hb' : b < h.length := List.mem_range.1 (hperm.subset hb)
  refine rtOk_iff.2 ⟨h[a], h[b], List.getElem?_eq_getElem ha', List.getElem?_eq_getElem hb', ?_⟩
  have h1 := hpt a ha'
  have h2 := hpt b hb'
  omega

/-- the call indices of `h` sorted by their points -/
def pointOrder (h : History2) (pt : Nat → Nat) : List Nat :=
  (List.range h.length).mergeSort (fun a b => decide (pt a ≤ pt b))

theorem pointOrder_perm (h : History2) (pt : Nat → Nat) :
    (pointOrder h pt).Perm (List.range h.length) := List.mergeSort_perm _ _

theorem pointOrder_sorted (h : History2) (pt : Nat → Nat)
    (hinj : ∀ i j, i < h.length → j < h.length → pt i = pt j → i = j) :
    (pointOrder h pt).Pairwise (fun a b => pt a < pt b) := by
  have hle : (pointOrder h pt).Pairwise (fun a b => decide (pt a ≤ pt b) = true) :=
    List.pairwise_mergeSort (le := fun a b => decide (pt a ≤ pt b))
      (by intro a b c; simp only [decide_eq_true_eq]; omega)
      (by intro a b; simp only [Bool.or_eq_true, decide_eq_true_eq]; omega) _
  have hnd : (pointOrder h pt).Pairwise (· ≠ ·) :=
    (pointOrder_perm h pt).nodup_iff.2 List.nodup_range
  refine (hle.and hnd).imp_of_mem ?_
  intro a b ha hb hab
  have ha' : a < h.length := List.mem_range.1 ((pointOrder_perm h pt).subset ha)
  have hb' : b < h.length := List.mem_range.1 ((pointOrder_perm h pt).subset hb)
  have h1 : pt a ≤ pt b := by simpa using hab.1
  have h2 : pt a ≠ pt b := fun he => hab.2 (hinj a b ha' hb' he)
  omega

/-- **Target 3**, self-contained form: points inside the intervals, pairwise distinct, and the
replay2 in point order succeeds. -/
theorem lin_of_points_sorted {h : History2} {init fin : KSt} (pt : Nat → Nat)
    (hpt : ∀ (i : Nat) (hi : i < h.length), h[i].inv ≤ pt i ∧ pt i ≤ h[i].resp)
    (hinj : ∀ i j, i < h.length → j < h.length → pt i = pt j → i = j)
    (hrep : replay2 h (pointOrder h pt) init = some fin) : Linearizable2 h init fin :=
  lin_of_points pt _ hpt (pointOrder_perm h pt) (pointOrder_sorted h pt hinj) hrep

/-! ## Target 4: sanity of the specification -/

/-- a completed `ins` is seen by a following `get`; after `rm` the key is gone -/
theorem spec_read_after_ins (st : KSt) (v vi : Nat) :
    (specStep2 (specStep2 st (.ins v vi)).1 .get).2 = .some v vi ∧
    (specStep2 (specStep2 st .rm).1 .get).2 = .none ∧
    (specStep2 (specStep2 st .rm).1 .has).2 = .bool false := ⟨rfl, rfl, rfl⟩

theorem spec_has_after_ins (st : KSt) (v vi : Nat) :
    (specStep2 (specStep2 st (.ins v vi)).1 .has).2 = .bool true := rfl

/-- `tryIns` on a present key leaves the state unchanged and reports the current value -/
theorem spec_tryIns_keeps (v0 vi0 v vi : Nat) :
    specStep2 (some (v0, vi0)) (.tryIns v vi) = (some (v0, vi0), .exists_ v0 vi0) := rfl

theorem spec_tryIns_absent (v vi : Nat) :
    specStep2 none (.tryIns v vi) = (some (v, vi), .none) := rfl

/-- reads do not change the state -/
theorem spec_reads_pure (st : KSt) :
    (specStep2 st .get).1 = st ∧ (specStep2 st .has).1 = st := ⟨rfl, rfl⟩

/-- no resurrection: only `ins`/`tryIns` make an absent key present -/
theorem spec_absent_stays {op : KOp2} (hop : (specStep2 none op).1 ≠ none) :
    (∃ v vi, op = .ins v vi) ∨ (∃ v vi, op = .tryIns v vi) := by
  cases op <;> simp [specStep2] at hop ⊢

/-- the value of a present key changes only by `ins`, `rm`, `cipInc`, `cipRm` -/
theorem spec_present_change {st : KSt} {op : KOp2} (hst : st.isSome = true)
    (hop : (specStep2 st op).1 ≠ st) :
    (∃ v vi, op = .ins v vi) ∨ op = .rm ∨ (∃ n, op = .cipInc n) ∨ op = .cipRm ∨
      (∃ vi, op = .condRm vi) := by
  cases st with
  | none => simp at hst
  | some p => cases op <;> simp [specStep2] at hop ⊢

theorem replay_cipInc {h : History2} (hall : ∀ c ∈ h, ∃ n, c.op = .cipInc n) :
    ∀ (order : List Nat) (v vi : Nat) (fin : KSt),
      replay2 h order (some (v, vi)) = some fin → ∃ vi', fin = some (v + order.length, vi')
  | [], v, vi, fin, hr => by
    simp only [replay2, Option.some.injEq] at hr
    exact ⟨vi, by simp [← hr]⟩
  | i :: rest, v, vi, fin, hr => by
    obtain ⟨c, hc, _, hr'⟩ := replay_cons_eq_some hr
    obtain ⟨n, hn⟩ := hall c (List.mem_of_getElem? hc)
    rw [hn] at hr'
    obtain ⟨vi', hfin⟩ := replay_cipInc hall rest (v + 1) n fin hr'
    exact ⟨vi', by rw [hfin, List.length_cons]; congr 2; omega⟩

/-- concurrent increments are never lost (C08's counter) -/
theorem spec_cipInc_counts {h : History2} {v vi : Nat} {fin : KSt}
    (hl : Linearizable2 h (some (v, vi)) fin) (hall : ∀ c ∈ h, ∃ n, c.op = .cipInc n) :
    ∃ vi', fin = some (v + h.length, vi') := by
  obtain ⟨order, hperm, _, hrep⟩ := hl
  obtain ⟨vi', hfin⟩ := replay_cipInc hall order v vi fin hrep
  have : order.length = h.length := by simpa using hperm.length_eq
  exact ⟨vi', by rw [hfin, this]⟩

/-- on an absent key an increment does nothing -/
theorem spec_cipInc_absent (n : Nat) : specStep2 none (.cipInc n) = (none, .none) := rfl

/-- a `get` that may be ordered after every call of `h` and reads the final state can be appended -/
theorem lin_snoc_get {h : History2} {init fin : KSt} {c : Call2}
    (hl : Linearizable2 h init fin) (hop : c.op = .get) (hres : c.res = resOf fin)
    (hlast : ∀ d ∈ h, d.inv ≤ c.resp) : Linearizable2 (h ++ [c]) init fin := by
  obtain ⟨order, hperm, hpw, hrep⟩ := linearizable_iff_pairwise.1 hl
  have hlt : ∀ i ∈ order, i < h.length := fun i hi => List.mem_range.1 (hperm.subset hi)
  have hcn : (h ++ [c])[h.length]? = some c := by simp
  refine linearizable_iff_pairwise.2 ⟨order ++ [h.length], ?_, ?_, ?_⟩
  · rw [List.length_append, List.length_singleton, List.range_succ]
    exact hperm.append_right _
  · refine List.pairwise_append.2 ⟨?_, by simp, ?_⟩
    · refine hpw.imp_of_mem ?_
      intro i j hi hj hij
      obtain ⟨a, b, ha, hb, hab⟩ := rtOk_iff.1 hij
      refine rtOk_iff.2 ⟨a, b, ?_, ?_, hab⟩
      · rw [List.getElem?_append_left (hlt i hi)]; exact ha
      · rw [List.getElem?_append_left (hlt j hj)]; exact hb
    · intro i hi j hj
      have hj' : j = h.length := by simpa using hj
      subst hj'
      have hi' := hlt i hi
      refine rtOk_iff.2 ⟨h[i], c, ?_, hcn, ?_⟩
      · rw [List.getElem?_append_left hi']; exact List.getElem?_eq_getElem hi'
      · have := hlast h[i] (List.getElem_mem hi')
        omega
  · rw [replay_append, replay_append_history h [c] order init fin hrep]
    simp only [Option.bind_some]
    rw [replay_cons_some hcn, hop]
    simp [specStep2, hres, replay2]

/-- **`lin_final_read`** (needs well-formed intervals, see the counterexample below): a final
`get` invoked after every call of `h` responded, answering the final state, keeps the history
linearizable with the same final state. -/
theorem lin_final_read {h : History2} {init fin : KSt} {c : Call2}
    (hl : Linearizable2 h init fin) (hop : c.op = .get) (hres : c.res = resOf fin)
    (hafter : ∀ d ∈ h, d.resp < c.inv)
    (hwf : ∀ d ∈ h, d.inv ≤ d.resp) (hc : c.inv ≤ c.resp) :
    Linearizable2 (h ++ [c]) init fin := by
  refine lin_snoc_get hl hop hres ?_
  intro d hd
  have := hafter d hd
  have := hwf d hd
  omega

/-! ## Target 5: examples -/

/-- `ins` overlapping a `get` that already sees the value, then `rm` -/
def exLin : History2 :=
  [ ⟨0, .ins 1 10, .none, 0, 3⟩, ⟨1, .get, .some 1 10, 1, 2⟩, ⟨0, .rm, .some 1 10, 4, 5⟩ ]

example : validate exLin [0, 1, 2] none none = true := by decide
example : Linearizable2 exLin none none := validate_sound (by decide : validate exLin [0, 1, 2] none none = true)
example : search exLin none none = some [0, 1, 2] := by decide
/-- the order with the `get` first is rejected (it would read `none`) -/
example : validate exLin [1, 0, 2] none none = false := by decide
/-- an order violating real time is rejected -/
example : validate exLin [2, 0, 1] none none = false := by decide

/-- a `get` returns a value whose `ins` was invoked only after the `get` responded -/
def exNotLin : History2 :=
  [ ⟨0, .get, .some 1 10, 0, 1⟩, ⟨1, .ins 1 10, .none, 2, 3⟩, ⟨0, .has, .bool true, 4, 5⟩ ]

example : search exNotLin none (some (1, 10)) = none := by decide
example : ¬ Linearizable2 exNotLin none (some (1, 10)) := search_eq_none_iff.1 (by decide)
example : ¬ Linearizable2 exNotLin none (some (1, 10)) := by decide

/-- a lost update: two concurrent increments that both report `6` -/
def exLost : History2 :=
  [ ⟨0, .cipInc 1, .some 6 1, 0, 3⟩, ⟨1, .cipInc 2, .some 6 2, 1, 2⟩ ]

example : ∀ fin, fin ∈ [none, some (6, 1), some (6, 2), some (7, 1), some (7, 2)] →
    search exLost (some (5, 0)) fin = none := by decide
example : search [⟨0, .cipInc 1, .some 6 1, 0, 3⟩, ⟨1, .cipInc 2, .some 7 2, 1, 2⟩] (some (5, 0)) (some (7, 2))
    = some [0, 1] := by decide

/-- `lin_final_read` fails without `inv ≤ resp`: a call with `resp < inv` both "responded before"
and "was invoked after" the final read -/
def exBadInterval : History2 := [ ⟨0, .get, .none, 5, 0⟩ ]

example : Linearizable2 exBadInterval none none := by decide
example : ∀ d ∈ exBadInterval, d.resp < (⟨1, .get, .none, 1, 2⟩ : Call2).inv := by decide
example : ¬ Linearizable2 (exBadInterval ++ [⟨1, .get, .none, 1, 2⟩]) none none := by decide

end Flurry.Lin2
