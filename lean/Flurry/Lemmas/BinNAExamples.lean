import Flurry.Proto.BinNA
import Flurry.Lemmas.LinSearch
/-! # Proto/BinNA: the model exercised by execution (random schedule explorer) and kernel-checked runs

* `run`, `verdict`, `of_verdict`, `run_reachable`, `ReachableNoCheck`: schedules
  `(thread, invocation, rz, pick)` executed by `step` / `stepG false`, decided by the complete search of
  `Lemmas/LinSearch.lean`;
* `explore`: a seeded random scheduler (any number of threads, `ins / rm / get / has / tryIns / cipInc` on
  a few keys with different low bits, up to three successive resizes started at random, random `pick`,
  one thread per run is "slow": skipped with 0–98 % while it has a call in flight, so that it falls one
  or two generations behind), which drains every thread to `idle` and then decides
  `Linearizable (callsOn s k) none (absOf s k)` for every key; it counts the runs that end in generation
  ≥ 1 / ≥ 2 / = 3, the loads of a cell one / two or more generations behind the table pointer
  (`rCell g` / `wCell g` with `g < cur` / `g + 2 ≤ cur`), the failed re-checks (`wUnlock _ _ true`) and
  the locks taken on a cell that was forwarded meanwhile, and returns the first schedule that is not
  linearizable;
* kernel-checked runs (`decide`): a reader and a writer that loaded the table pointer of generation 0,
  sleep through TWO complete resizes and then follow marker after marker (`schedStale2`); the
  refutation of `stepG false` (`schedLost`: the writer stores into the forwarded cell and overwrites the
  marker) and the same interleaving with the re-check.

Exploration actually run before any proof (`lake env lean --run` of a small `main` outside the project;
18 configurations of 2 000 schedules: threads 2 / 3 / 4 × keys `[0,1,2,3]` / `[0,1,2,5]` × 150 / 200 / 300
random steps + drain; up to 12 (16 for 300 steps) calls, up to 3 resizes):

| threads | runs | quiescent | longest per-key history | final `cur` ≥ 1 / ≥ 2 / = 3 | loads ≥ 1 / ≥ 2 generations behind (readers, writers) | failed re-checks | locks on a forwarded cell |
| 2 | 12 000 | 12 000 | 11 | 11 594 / 10 424 / 7 259 |  9 406 / 1 212 (170, 1 042) |  4 484 |  4 017 |
| 3 | 12 000 | 12 000 | 12 | 11 873 / 11 133 / 7 408 | 15 405 / 1 205 (190, 1 015) | 11 849 | 10 850 |
| 4 | 12 000 | 12 000 | 12 | 11 919 / 10 901 / 5 779 | 19 923 /   851 (123,   728) | 17 850 | 16 429 |

36 000 schedules of `step`: every run drained to quiescence, EVERY per-key history linearizable.
With `stepG false` (no re-check) 1 500 schedules (500 each with 2 / 3 / 4 threads, 200 steps):
111 / 241 / 295 runs end quiescent with a non-linearizable per-key history (every 2nd to 5th run); 159 / 347 / 440 locks were taken on a forwarded cell. -/
namespace Flurry.Proto.BinNA
open Flurry.Lin

/-- one scheduler decision: thread, invocation, `rz`, `pick` -/
abbrev Sched := List (Nat × Option (Nat × KOp) × Bool × Nat)

abbrev StepFn := State → Nat → Option (Nat × KOp) → Bool → Nat → Option State

/-- run a schedule (`none` if some step is not enabled) -/
def run (f : StepFn) : State → Sched → Option State
  | s, [] => some s
  | s, (t, inv, rz, pick) :: rest =>
    match f s t inv rz pick with
    | none => none
    | some s' => run f s' rest

/-- reachability in the variant without the re-check of the locked cell -/
inductive ReachableNoCheck (nthreads : Nat) : State → Prop
  | init : ReachableNoCheck nthreads (init nthreads)
  | step {s s' : State} (t : Nat) (inv : Option (Nat × KOp)) (rz : Bool) (pick : Nat) :
      ReachableNoCheck nthreads s → stepG false s t inv rz pick = some s' → ReachableNoCheck nthreads s'

theorem run_reachable {n : Nat} : ∀ (sc : Sched) {s s' : State}, Reachable n s → run step s sc = some s' →
    Reachable n s'
  | [], s, s', hr, h => by simp only [run, Option.some.injEq] at h; exact h ▸ hr
  | (t, inv, rz, pick) :: rest, s, s', hr, h => by
    simp only [run] at h
    cases hs : step s t inv rz pick with
    | none => rw [hs] at h; cases h
    | some s1 => rw [hs] at h; exact run_reachable rest (.step t inv rz pick hr hs) h

theorem run_reachableNoCheck {n : Nat} : ∀ (sc : Sched) {s s' : State}, ReachableNoCheck n s →
    run (stepG false) s sc = some s' → ReachableNoCheck n s'
  | [], s, s', hr, h => by simp only [run, Option.some.injEq] at h; exact h ▸ hr
  | (t, inv, rz, pick) :: rest, s, s', hr, h => by
    simp only [run] at h
    cases hs : stepG false s t inv rz pick with
    | none => rw [hs] at h; cases h
    | some s1 => rw [hs] at h; exact run_reachableNoCheck rest (.step t inv rz pick hr hs) h

def quiescentB (s : State) : Bool := s.threads.all (fun l => l.pc == .idle)

theorem quiescentB_iff (s : State) : quiescentB s = true ↔ quiescent s := by
  unfold quiescentB quiescent
  simp [List.all_eq_true]

def linB (s : State) (k : Nat) : Bool := (search (callsOn s k) none (absOf s k)).isSome

theorem linB_iff (s : State) (k : Nat) : linB s k = true ↔ Linearizable (callsOn s k) none (absOf s k) :=
  search_isSome_iff

theorem linB_false_iff (s : State) (k : Nat) :
    linB s k = false ↔ ¬ Linearizable (callsOn s k) none (absOf s k) := by
  rw [← linB_iff]; cases linB s k <;> simp

/-- is the final state quiescent, and does the exhaustive search find a linearization of the history of
key `k` ending in the abstract content of the key -/
def verdict (f : StepFn) (n : Nat) (sc : Sched) (k : Nat) : Option (Bool × Bool) :=
  (run f (init n) sc).map fun s => (quiescentB s, linB s k)

theorem of_verdict {f : StepFn} {n : Nat} {sc : Sched} {k : Nat} {b : Bool}
    (h : verdict f n sc k = some (true, b)) :
    ∃ s, run f (init n) sc = some s ∧ quiescent s ∧ linB s k = b := by
  unfold verdict at h
  cases hr : run f (init n) sc with
  | none => rw [hr] at h; cases h
  | some s =>
    rw [hr] at h
    simp only [Option.map_some, Option.some.injEq, Prod.mk.injEq] at h
    exact ⟨s, rfl, (quiescentB_iff s).1 h.1, h.2⟩

/-! ## the explorer (`#eval` only) -/

def rngNext (x : Nat) : Nat := (x * 6364136223846793005 + 1442695040888963407) % 18446744073709551616
/-- a number below `n` from the high bits -/
def rngPick (x n : Nat) : Nat := (x / 4294967296) % n

structure Cfg where
  nthreads : Nat := 3
  keys : List Nat := [0, 1, 2, 3]
  /-- random steps before the drain -/
  steps : Nat := 200
  /-- calls started at most -/
  calls : Nat := 12
  /-- resizes started at most -/
  resizes : Nat := 3
  /-- percentages for an idle thread -/
  pResize : Nat := 12
  pCall : Nat := 70
  /-- per run one thread is "slow": while it has a call in flight it is skipped with one of these
  percentages (chosen at random per run) -/
  slowPcts : List Nat := [0, 50, 80, 90, 95, 98]
  noCheck : Bool := false

def mkOp (r : Nat) (vi : Nat) : KOp :=
  match r % 12 with
  | 0 | 1 | 2 | 3 => .ins (vi % 7) vi
  | 4 | 5 => .rm
  | 6 | 7 => .get
  | 8 => .has
  | 9 => .tryIns (vi % 7) vi
  | 10 => .cipInc vi
  | _ => .get

/-- event counters -/
structure Cnt where
  /-- a thread loads a cell of generation `g < cur` (`rCell g` / `wCell g`) -/
  stale1 : Nat := 0
  /-- … of generation `g` with `g + 2 ≤ cur` -/
  stale2 : Nat := 0
  /-- … of these, by a reader / by a writer -/
  stale2r : Nat := 0
  stale2w : Nat := 0
  /-- `wUnlock _ _ true` reached: the re-check under the lock failed -/
  failed : Nat := 0
  /-- a step was not enabled (lock held) -/
  blocked : Nat := 0
  /-- a writer acquired the lock of a cell that is `moved` by now -/
  lockedMoved : Nat := 0
deriving Repr

def Cnt.event (c : Cnt) (s s' : State) (t : Nat) : Cnt :=
  let l := s.threads.getD t {}
  let l' := s'.threads.getD t {}
  let c := match l.pc with
    | .rCell g =>
      let c := if g < s.cur then { c with stale1 := c.stale1 + 1 } else c
      if g + 2 ≤ s.cur then { c with stale2 := c.stale2 + 1, stale2r := c.stale2r + 1 } else c
    | .wCell g =>
      let c := if g < s.cur then { c with stale1 := c.stale1 + 1 } else c
      if g + 2 ≤ s.cur then { c with stale2 := c.stale2 + 1, stale2w := c.stale2w + 1 } else c
    | _ => c
  let c := match l'.pc with
    | .wUnlock _ _ true => { c with failed := c.failed + 1 }
    | .wCheck g =>
      match l'.call with
      | some p => if getCell s' g (ix g p.key) == .moved then { c with lockedMoved := c.lockedMoved + 1 } else c
      | none => c
    | _ => c
  c

/-- one random schedule: returns the executed schedule, the final state and the counters -/
def oneRun (cfg : Cfg) (seed : Nat) (cnt : Cnt) : Sched × State × Cnt := Id.run do
  let f : StepFn := stepG (!cfg.noCheck)
  let mut s := init cfg.nthreads
  let mut rng := seed
  let mut sc : Array (Nat × Option (Nat × KOp) × Bool × Nat) := #[]
  let mut cnt := cnt
  let mut calls := 0
  let mut resizes := 0
  rng := rngNext rng
  let slow := rngPick rng cfg.nthreads
  rng := rngNext rng
  let slowPct := cfg.slowPcts.getD (rngPick rng (max cfg.slowPcts.length 1)) 0
  for _ in [0:cfg.steps] do
    rng := rngNext rng
    let t := rngPick rng cfg.nthreads
    rng := rngNext rng
    let l := s.threads.getD t {}
    let mut a : Nat × Option (Nat × KOp) × Bool × Nat := (t, none, false, 0)
    if l.pc == .idle then
      let r := rngPick rng 100
      rng := rngNext rng
      if r < cfg.pResize && !s.resizing && resizes < cfg.resizes && t != slow then
        a := (t, none, true, 0)
        resizes := resizes + 1
      else if r < cfg.pResize + cfg.pCall && calls < cfg.calls then
        let k := cfg.keys.getD (rngPick rng cfg.keys.length) 0
        rng := rngNext rng
        let op := mkOp (rngPick rng 12) (100 + calls)
        a := (t, some (k, op), false, 0)
        calls := calls + 1
      else continue
    else
      if t == slow && l.call.isSome && rngPick rng 100 < slowPct then continue
      rng := rngNext rng
      a := (t, none, false, rngPick rng 8)
    match f s a.1 a.2.1 a.2.2.1 a.2.2.2 with
    | none => cnt := { cnt with blocked := cnt.blocked + 1 }
    | some s' =>
      cnt := cnt.event s s' t
      sc := sc.push a
      s := s'
  -- drain
  for _ in [0:400] do
    if quiescentB s then break
    for t in [0:cfg.nthreads] do
      let l := s.threads.getD t {}
      if l.pc != .idle then
        rng := rngNext rng
        let a : Nat × Option (Nat × KOp) × Bool × Nat := (t, none, false, rngPick rng 8)
        match f s a.1 a.2.1 a.2.2.1 a.2.2.2 with
        | none => cnt := { cnt with blocked := cnt.blocked + 1 }
        | some s' =>
          cnt := cnt.event s s' t
          sc := sc.push a
          s := s'
  return (sc.toList, s, cnt)

structure Out where
  cnt : Cnt := {}
  bad : Option (Sched × Nat) := none
  nbad : Nat := 0
  runs : Nat := 0
  quiescentRuns : Nat := 0
  maxHist : Nat := 0
  maxSched : Nat := 0
  cur1 : Nat := 0
  cur2 : Nat := 0
  cur3 : Nat := 0

def explore (cfg : Cfg) (seed0 nruns : Nat) : Out := Id.run do
  let mut o : Out := {}
  for i in [0:nruns] do
    let (sc, s, cnt') := oneRun cfg (rngNext (seed0 + 7919 * i)) o.cnt
    o := { o with cnt := cnt', runs := o.runs + 1, maxSched := max o.maxSched sc.length }
    if quiescentB s then
      o := { o with quiescentRuns := o.quiescentRuns + 1 }
      let mut isBad := false
      for k in cfg.keys do
        let h := callsOn s k
        if h.length > o.maxHist then o := { o with maxHist := h.length }
        if !linB s k then
          isBad := true
          if o.bad.isNone then o := { o with bad := some (sc, k) }
      if isBad then o := { o with nbad := o.nbad + 1 }
    if s.cur ≥ 1 then o := { o with cur1 := o.cur1 + 1 }
    if s.cur ≥ 2 then o := { o with cur2 := o.cur2 + 1 }
    if s.cur == 3 then o := { o with cur3 := o.cur3 + 1 }
  return o

def Out.report (o : Out) : String :=
  s!"runs {o.runs}, drained to quiescence {o.quiescentRuns}, longest per-key history {o.maxHist}, " ++
  s!"longest schedule {o.maxSched}, final cur ≥ 1: {o.cur1}, ≥ 2: {o.cur2}, = 3: {o.cur3}, " ++
  s!"loads of a cell one or more generations behind: {o.cnt.stale1}, two or more: {o.cnt.stale2} " ++
  s!"(readers {o.cnt.stale2r}, writers {o.cnt.stale2w}), failed re-checks: {o.cnt.failed}, " ++
  s!"locks taken on a forwarded cell: {o.cnt.lockedMoved}, blocked steps: {o.cnt.blocked}, " ++
  (match o.bad with
   | none => "ALL LINEARIZABLE"
   | some (sc, k) => s!"NOT LINEARIZABLE in {o.nbad} runs, first on key {k}: {repr sc}")

/-- a small sample at build time (the totals actually run: see the file header) -/
def sample : Out := explore { nthreads := 3, steps := 200 } 11 200
/-- … and the variant without the re-check -/
def sampleNoCheck : Out := explore { nthreads := 3, steps := 200, noCheck := true } 11 60

#eval IO.println ((sample.report.take 600).toString)
#eval IO.println s!"noCheck: {sampleNoCheck.runs} runs, {sampleNoCheck.quiescentRuns} quiescent, not linearizable: {sampleNoCheck.nbad}"

/-! ## kernel-checked runs -/

/-- `n` further steps of thread `t` (`pick = p`) -/
def rep (t n : Nat) (p : Nat := 0) : Sched := List.replicate n (t, none, false, p)
def call (t k : Nat) (op : KOp) : Sched := [(t, some (k, op), false, 0)]
/-- thread `t` starts the next resize -/
def rz (t : Nat) : Sched := [(t, none, true, 0)]

/-- thread 0: `insert(1)` (CAS into the empty cell), `insert(0)` (appended under the lock) -/
def setup : Sched := call 0 1 (.ins 5 100) ++ rep 0 3 ++ call 0 0 (.ins 6 101) ++ rep 0 6

/-- four threads: thread 0 performs the calls, thread 1 is the slow reader, thread 3 the slow writer,
thread 2 resizes twice. -/
def schedStale2A : Sched :=
  setup ++ call 1 1 .get ++ rep 1 1 ++ call 3 1 (.ins 7 102) ++ rep 3 1

def schedStale2B : Sched :=
  schedStale2A ++ rz 2 ++ rep 2 10 ++
  call 0 3 (.ins 8 103) ++ rep 0 6 ++ call 0 1 .get ++ rep 0 2 ++
  rz 2 ++ rep 2 8 ++ rep 2 8 1 ++ rep 2 2 ++
  call 0 1 (.ins 9 104) ++ rep 0 6 ++ call 0 1 .get ++ rep 0 2

def schedStale2 : Sched := schedStale2B ++ rep 1 3 ++ rep 3 7

/-- both slow threads loaded the table pointer of generation 0 BEFORE the first resize started … -/
theorem stale2_before :
    (run step (init 4) schedStale2A).map (fun s => (s.threads.map (·.pc), s.cur, s.resizing, s.tabs)) =
      some ([.idle, .rCell 0, .idle, .wCell 0], 0, false, [[.list [(1, 5, 100), (0, 6, 101)]]]) := by
  decide

/-- … and still hold it after the SECOND commit: two generations behind, every cell of generations 0
and 1 is a forwarding marker -/
theorem stale2_asleep :
    (run step (init 4) schedStale2B).map (fun s => (s.threads.map (·.pc), s.cur, s.resizing, s.tabs)) =
      some ([.idle, .rCell 0, .idle, .wCell 0], 2, false,
        [[.moved], [.moved, .moved],
         [.list [(0, 6, 101)], .list [(1, 9, 104)], .empty, .list [(3, 8, 103)]]]) := by
  decide

theorem verdict_stale2 : verdict step 4 schedStale2 1 = some (true, true) := by decide

/-- all keys of the run -/
theorem verdict_stale2_keys : ∀ k ∈ [0, 1, 2, 3], verdict step 4 schedStale2 k = some (true, true) := by decide

/-- the slow `get` (invoked at 12) follows the markers of generations 0 and 1 and returns (68) the
value of generation 2; the slow `insert` (invoked at 14) follows them too, locks the cell of generation
2 and returns (75) the previous value it found there -/
theorem stale2_history :
    (run step (init 4) schedStale2).map (fun s => (callsOn s 1, absOf s 1, s.cur, s.tabs)) =
      some ([⟨0, .ins 5 100, .none, 1, 4⟩, ⟨0, .get, .some 5 100, 34, 36⟩, ⟨0, .ins 9 104, .some 5 100, 56, 62⟩,
             ⟨0, .get, .some 9 104, 63, 65⟩, ⟨1, .get, .some 9 104, 12, 68⟩, ⟨3, .ins 7 102, .some 9 104, 14, 75⟩],
        some (7, 102), 2,
        [[.moved], [.moved, .moved],
         [.list [(0, 6, 101)], .list [(1, 7, 102)], .empty, .list [(3, 8, 103)]]]) := by
  decide

/-- the run over two resizes with threads two generations behind is reachable, quiescent and
linearizable on every key it touches -/
theorem stale2_reachable :
    ∃ s, run step (init 4) schedStale2 = some s ∧ Reachable 4 s ∧ quiescent s ∧ s.cur = 2 ∧
      ∀ k ∈ [0, 1, 2, 3], Linearizable (callsOn s k) none (absOf s k) := by
  obtain ⟨s, hr, hq, -⟩ := of_verdict verdict_stale2
  refine ⟨s, hr, run_reachable _ .init hr, hq, ?_, ?_⟩
  · have := stale2_history
    rw [hr] at this
    simp only [Option.map_some, Option.some.injEq, Prod.mk.injEq] at this
    exact this.2.2.1
  · intro k hk
    obtain ⟨s', hr', -, hl⟩ := of_verdict (verdict_stale2_keys k hk)
    rw [hr] at hr'
    cases hr'
    exact (linB_iff s k).1 hl

/-! ### the re-check under the lock is load-bearing across the forwarding

Three threads: thread 0 `insert(1)`; thread 1 calls `insert(1)`, loads the table pointer and the cell
(a list) and is about to take the lock (`wLock 0`), then sleeps; thread 2 resizes: locks the cell,
splits it, stores the children, stores the marker, unlocks, commits. Thread 1 now takes the lock of the
forwarded cell. Without the re-check (`stepG false`) it replaces the MARKER by the list `[1 ↦ 7]`
(`content moved = []`) and returns "no previous value"; `get(1)` in the current table still returns 5. -/

def schedLost : Sched :=
  call 0 1 (.ins 5 100) ++ rep 0 3 ++ call 1 1 (.ins 7 102) ++ rep 1 2 ++ rz 2 ++ rep 2 10 ++ rep 1 4 ++
  call 0 1 .get ++ rep 0 2

/-- the same, and thread 1 is given the steps it needs to start over in the next generation -/
def schedLostLong : Sched := schedLost ++ rep 1 5

theorem verdict_lost_noCheck : verdict (stepG false) 3 schedLost 1 = some (true, false) := by decide

theorem verdict_lost_check : verdict step 3 schedLostLong 1 = some (true, true) := by decide

/-- the writer is at `wLock 0` when the resize starts, and the cell is forwarded when it gets the lock -/
theorem lost_window :
    (run step (init 3) (call 0 1 (.ins 5 100) ++ rep 0 3 ++ call 1 1 (.ins 7 102) ++ rep 1 2 ++ rz 2 ++
        rep 2 10 ++ rep 1 1)).map (fun s => (s.threads.map (·.pc), s.cur, s.tabs, getLock s 0 0)) =
      some ([.idle, .wCheck 0, .idle], 1, [[.moved], [.empty, .list [(1, 5, 100)]]], some 1) := by
  decide

/-- without the re-check: the marker of generation 0 is overwritten by a list, `insert(1) = 7` returns
`none` although `insert(1) = 5` returned before it was invoked, and the later `get(1)` returns 5 -/
theorem lost_noCheck_history :
    (run (stepG false) (init 3) schedLost).map (fun s => (callsOn s 1, absOf s 1, s.cur, s.tabs)) =
      some ([⟨0, .ins 5 100, .none, 1, 4⟩, ⟨1, .ins 7 102, .none, 5, 22⟩, ⟨0, .get, .some 5 100, 23, 25⟩],
        some (5, 100), 1, [[.list [(1, 7, 102)]], [.empty, .list [(1, 5, 100)]]]) := by
  decide

/-- with the re-check the slow insert unlocks, follows the marker and updates generation 1 -/
theorem lost_check_history :
    (run step (init 3) schedLostLong).map (fun s => (callsOn s 1, absOf s 1, s.cur, s.tabs)) =
      some ([⟨0, .ins 5 100, .none, 1, 4⟩, ⟨0, .get, .some 5 100, 23, 25⟩, ⟨1, .ins 7 102, .some 5 100, 5, 30⟩],
        some (7, 102), 1, [[.moved], [.empty, .list [(1, 7, 102)]]]) := by
  decide

/-- **the re-check is load-bearing**: without it, a reachable quiescent state (after a complete resize)
whose history of key 1 is not linearizable -/
theorem noCheck_not_linearizable :
    ∃ s, ReachableNoCheck 3 s ∧ quiescent s ∧ s.cur = 1 ∧
      ¬ Linearizable (callsOn s 1) none (absOf s 1) := by
  obtain ⟨s, hr, hq, hs⟩ := of_verdict verdict_lost_noCheck
  refine ⟨s, run_reachableNoCheck _ .init hr, hq, ?_, (linB_false_iff s 1).1 hs⟩
  have := lost_noCheck_history
  rw [hr] at this
  simp only [Option.map_some, Option.some.injEq, Prod.mk.injEq] at this
  exact this.2.2.1

/-- hence per-key linearizability at quiescence is false for the variant without the re-check -/
theorem noCheck_refutes :
    ¬ ∀ (n : Nat) (s : State), ReachableNoCheck n s → quiescent s → ∀ k,
      Linearizable (callsOn s k) none (absOf s k) := by
  intro hall
  obtain ⟨s, hr, hq, -, hn⟩ := noCheck_not_linearizable
  exact hn (hall 3 s hr hq 1)

/-- the same interleaving with the re-check is reachable, quiescent and linearizable -/
theorem lost_check_reachable :
    ∃ s, run step (init 3) schedLostLong = some s ∧ Reachable 3 s ∧ quiescent s ∧
      Linearizable (callsOn s 1) none (absOf s 1) := by
  obtain ⟨s, hr, hq, hl⟩ := of_verdict verdict_lost_check
  exact ⟨s, hr, run_reachable _ .init hr, hq, (linB_iff s 1).1 hl⟩

end Flurry.Proto.BinNA
