import Flurry.Lemmas.BinNHFull
/-! # Proto/BinNH: every transition preserves the complete invariant and the ghost invariant (C01, C10) -/
namespace Flurry.Proto.BinNH
open Flurry.Lin
open Flurry.Proto.BinX (NodeS Cell Pending isReader dflt chainFrom cellHead cellOfHead get_set get_set_self get_set_ne
  cellOfHead_ne_moved nodeAt chainH nextA)
open Flurry.Proto.BinN (cellAt cellOf putCell setNode allMoved splitBinB bitAt lockAt LockSame GenInv ThrOK isT
  Holds vcell genOfPc cellT StepK tick setT finish TInv WInv getCell chId CellId)
open Flurry.Proto.BinNHM (Ghost IsMid HInv MemStep GInv Good)

/-- an idle thread has no call in flight -/
theorem call_none_of_idle {n : BinN.State} (T : TInv n) {t : Nat} {l : BinN.Local} (hl : n.threads[t]? = some l)
    (hi : l.pc = .idle) : l.call = none := by
  have := T.callOK t l hl
  rw [hi] at this
  cases hc : l.call with
  | none => rfl
  | some p => rw [hc] at this; exact (this.2 rfl).elim

/-- the frame lemma for the link between a helper's program counter and the ghost -/
theorem PcMidH.frame {n n' : BinN.State} {G G' : Ghost} {pc : HPc} (h : PcMidH n G pc) (hc : n'.cur = n.cur)
    (hf : ∀ j lo hg fr, isMidH pc j → G.mid j = some (lo, hg, fr) → G'.mid j = some (lo, hg, fr) ∧
      cellAt n' (n.cur + 1) j = cellAt n (n.cur + 1) j ∧
      cellAt n' (n.cur + 1) (j + 2 ^ n.cur) = cellAt n (n.cur + 1) (j + 2 ^ n.cur)) : PcMidH n' G' pc := by
  cases pc with
  | storeLow j h lo hg =>
    obtain ⟨fr, a, b, c⟩ := h
    obtain ⟨a', e1, e2⟩ := hf j lo hg fr rfl a
    exact ⟨fr, a', by rw [hc, e1]; exact b, by rw [hc, e2]; exact c⟩
  | storeHigh j h hg =>
    obtain ⟨lo, fr, a, b, c⟩ := h
    obtain ⟨a', e1, e2⟩ := hf j lo hg fr rfl a
    exact ⟨lo, fr, a', by rw [hc, e1]; exact b, by rw [hc, e2]; exact c⟩
  | storeMoved j h =>
    obtain ⟨lo, hg, fr, a, b, c⟩ := h
    obtain ⟨a', e1, e2⟩ := hf j lo hg fr rfl a
    exact ⟨lo, hg, fr, a', by rw [hc, e1]; exact b, by rw [hc, e2]; exact c⟩
  | next => trivial
  | cell _ => trivial
  | casMoved _ => trivial
  | lock _ _ => trivial
  | check _ _ => trivial
  | build _ _ => trivial
  | unlock _ _ => trivial
  | commit => trivial

/-- two helpers in the middle phase on the same cell are the same thread -/
theorem Full.mid_unique {s : State} {G : Ghost} (F : Full s G) {t t1 : Nat} {hp hp1 : Helper} {j : Nat}
    (hh : s.hs[t]? = some (some hp)) (hh1 : s.hs[t1]? = some (some hp1)) (hm : isMidH hp.pc j)
    (hm1 : isMidH hp1.pc j) : t = t1 := by
  obtain ⟨h, hv⟩ := isMidH_hvalid hm
  obtain ⟨h1, hv1⟩ := isMidH_hvalid hm1
  have H := F.base.hok t hp hh
  have H1 := F.base.hok t1 hp1 hh1
  obtain ⟨e, -⟩ := H.valid_cur F.base.gen hv
  obtain ⟨e1, -⟩ := H1.valid_cur F.base.gen hv1
  have c := H.valid j h hv
  have c1 := H1.valid j h1 hv1
  rw [e] at c
  rw [e1, c] at c1
  cases c1
  have a := (H.held h (hvalid_holds hv).1).2
  have b := (H1.held h (hvalid_holds hv1).1).2
  rw [a] at b
  exact Option.some.inj b

/-- assembling the complete invariant and the ghost invariant after a transition of the helper part of `t` -/
theorem full_helper {k : Nat} {s : State} {G G' : Ghost} {A : Nat → KSt} {pt : Nat → Nat} {t : Nat} {l : BinN.Local}
    {n' : BinN.State} {ho : Option Helper} (F : Full s G) (g : GInv k s.n G A pt)
    (hl : s.n.threads[t]? = some l) (hidle : l.pc = .idle) (B' : Inv (setH s t n' ho))
    (hthr : n'.threads = s.n.threads) (hnow : n'.now = s.n.now + 1) (hhist : n'.hist = s.n.hist)
    (H' : HInv n' G') (m : MemStep s.n n' G G') (habs : ∀ k, BinN.absOf n' k = BinN.absOf s.n k)
    (hfr : ∀ (t1 : Nat) (l1 : BinN.Local) (g j h : Nat), t1 ≠ t → s.n.threads[t1]? = some l1 →
      vcell s.n.cur l1 = some (g, j, h) → ¬ isT l1.pc →
      cellAt n' g j = cellAt s.n g j ∧ chainH n'.heap (cellAt s.n g j) = chainH s.n.heap (cellAt s.n g j) ∧
      ∀ i ∈ chainH s.n.heap (cellAt s.n g j), (nodeAt n'.heap i).key = (nodeAt s.n.heap i).key ∧
        (nodeAt n'.heap i).next = (nodeAt s.n.heap i).next)
    (hmidw : ∀ j, IsMid G' j → ∀ (t1 : Nat) (l1 : BinN.Local) (h : Nat), s.n.threads[t1]? = some l1 →
      vcell n'.cur l1 ≠ some (n'.cur, j, h))
    (hpc : ∀ (t1 : Nat) (hp : Helper), (s.hs.set t ho)[t1]? = some (some hp) → PcMidH n' G' hp.pc)
    (hmh : ∀ j, IsMid G' j → ∃ (t1 : Nat) (hp : Helper), (s.hs.set t ho)[t1]? = some (some hp) ∧ isMidH hp.pc j) :
    ∃ A', Full (setH s t n' ho) G' ∧ GInv k n' G' A' pt ∧ ∀ k', BinN.absOf n' k' = BinN.absOf s.n k' := by
  have hthr' : n'.threads = s.n.threads.set t l := by rw [hthr]; exact (set_self_of_get hl).symm
  have hc := call_none_of_idle F.inv.thr hl hidle
  have T' : TInv n' := BinN.tinv_keep F.inv.thr hl hthr' hnow hhist rfl (fun p hp => F.inv.thr.opOK t l p hl hp) Iff.rfl
  have W' : WInv n' := BinNHM.winv_frame F.inv.walk hthr' hfr (fun p hp => by rw [hc] at hp; cases hp)
  have I' : BinNHM.Inv n' G' := by
    refine ⟨B'.gen, H', T', W', ?_, ?_⟩
    · intro t1 l1 h1; rw [hthr] at h1; exact F.inv.noT t1 l1 h1
    · intro j hm t1 l1 h h1; rw [hthr] at h1; exact hmidw j hm t1 l1 h h1
  refine ⟨nextA A s.n.now (BinN.absOf n' k), ⟨B', I', hpc, hmh⟩, ?_, habs⟩
  exact BinNHM.ginv_quiet_nocall g F.inv.thr (m.carries F.inv.heap H' hnow g.core.hA) hl hthr' hnow hhist (habs k) hc hc

/-- the walks of the writers survive a transition that changes neither the tables nor any key or `next` -/
theorem hfr_quiet {n n' : BinN.State} (ht : n'.tabs = n.tabs) (hch : ∀ id, chId n' id = chId n id)
    (hn : ∀ j, (nodeAt n'.heap j).key = (nodeAt n.heap j).key ∧ (nodeAt n'.heap j).next = (nodeAt n.heap j).next) :
    ∀ (t1 : Nat) (l1 : BinN.Local) (g j h : Nat) (t : Nat), t1 ≠ t → n.threads[t1]? = some l1 →
      vcell n.cur l1 = some (g, j, h) → ¬ isT l1.pc →
      cellAt n' g j = cellAt n g j ∧ chainH n'.heap (cellAt n g j) = chainH n.heap (cellAt n g j) ∧
      ∀ i ∈ chainH n.heap (cellAt n g j), (nodeAt n'.heap i).key = (nodeAt n.heap i).key ∧
        (nodeAt n'.heap i).next = (nodeAt n.heap i).next :=
  fun _ _ g j _ _ _ _ _ _ => BinNHM.hfr_same ht hch hn g j

/-- **the transitions of the readers and writers** -/
theorem full_rw {k : Nat} {s : State} {G : Ghost} {A : Nat → KSt} {pt : Nat → Nat} {t : Nat} {l : BinN.Local}
    {n' : BinN.State} (F : Full s G) (g : GInv k s.n G A pt) (hl : s.n.threads[t]? = some l)
    (hh : s.hs[t]? = some none) (K : StepK s.n t l 0 n') (E : RWEff s.n t n') (B' : Inv { s with n := n' }) :
    ∃ A' pt', Full { s with n := n' } G ∧ GInv k n' G A' pt' := by
  have hlk := F.rw_not_lock hh
  obtain ⟨A', pt', I', g'⟩ := BinNHM.ginv_step g F.inv hl K hlk E.res
  obtain ⟨-, -, -, hfr⟩ := BinNHM.stepK_inv F.inv hl K hlk E.res
  refine ⟨A', pt', ⟨B', I', ?_, F.midHas⟩, g'⟩
  intro t1 hp h1
  refine (F.pcMid t1 hp h1).frame E.cur ?_
  intro j lo hg fr _ hm
  obtain ⟨-, e1, e2⟩ := hfr j lo hg fr hm
  exact ⟨hm, e1, e2⟩

/-- no reader / writer holds a validated lock on the cell a helper holds a validated lock on -/
theorem Full.no_rw_on_helper_cell {s : State} {G : Ghost} (F : Full s G) {t : Nat} {hp : Helper} {j h : Nat}
    (hh : s.hs[t]? = some (some hp)) (hv : hvalid hp.pc = some (j, h)) :
    ∀ (t1 : Nat) (l1 : BinN.Local) (h' : Nat), s.n.threads[t1]? = some l1 → vcell s.n.cur l1 ≠ some (s.n.cur, j, h') := by
  intro t1 l1 h' h1 hv1
  have H := F.base.hok t hp hh
  obtain ⟨e, -⟩ := H.valid_cur F.base.gen hv
  have c := H.valid j h hv
  rw [e] at c
  obtain ⟨c1, hh1⟩ := (F.base.gen.thr t1 l1 h1).valid _ _ _ hv1
  rw [c] at c1
  cases c1
  have a := ((F.base.gen.thr t1 l1 h1).held h hh1).2
  rw [(H.held h (hvalid_holds hv).1).2] at a
  cases a
  have := F.base.hidle t hp l1 hh h1
  obtain ⟨pc1, call1⟩ := l1
  simp only at this
  subst this
  cases hv1

/-- transitions of a helper part that change neither the tables nor any key or `next`, outside the middle phase -/
theorem full_quiet {k : Nat} {s : State} {G : Ghost} {A : Nat → KSt} {pt : Nat → Nat} {t : Nat} {l : BinN.Local}
    {hp : Helper} {n' : BinN.State} {po : Option HPc} (F : Full s G) (g : GInv k s.n G A pt)
    (hl : s.n.threads[t]? = some l) (hh : s.hs[t]? = some (some hp))
    (B' : Inv (setH s t n' (po.map fun pc' => ⟨hp.g, pc'⟩)))
    (hnm : ¬ midPc hp.pc) (hnm' : ∀ pc', po = some pc' → ¬ midPc pc')
    (hthr : n'.threads = s.n.threads) (hnow : n'.now = s.n.now + 1) (hhist : n'.hist = s.n.hist)
    (ht : n'.tabs = s.n.tabs) (hc : n'.cur = s.n.cur)
    (H' : HInv n' G) (m : MemStep s.n n' G G) (habs : ∀ k, BinN.absOf n' k = BinN.absOf s.n k)
    (hch : ∀ id, chId n' id = chId s.n id)
    (hn : ∀ j, (nodeAt n'.heap j).key = (nodeAt s.n.heap j).key ∧ (nodeAt n'.heap j).next = (nodeAt s.n.heap j).next) :
    ∃ A', Full (setH s t n' (po.map fun pc' => ⟨hp.g, pc'⟩)) G ∧ GInv k n' G A' pt ∧
      ∀ k', BinN.absOf n' k' = BinN.absOf s.n k' := by
  have hidle := F.base.hidle t hp l hh hl
  have hcell : ∀ g j, cellAt n' g j = cellAt s.n g j := fun g j => by rw [BinN.cellAt_eq, BinN.cellAt_eq, ht]
  refine full_helper F g hl hidle B' hthr hnow hhist H' m habs
    (fun t1 l1 g j h _ _ _ _ => BinNHM.hfr_same ht hch hn g j) ?_ ?_ ?_
  · intro j hm t1 l1 h h1
    rw [hc]; exact F.inv.midw j hm t1 l1 h h1
  · intro t1 hp1 h1
    rcases get_set h1 with ⟨-, e⟩ | ⟨-, h1⟩
    · cases po with
      | none => cases e
      | some pc' => cases e; exact pcMidH_of_not_mid _ _ (hnm' pc' rfl)
    · exact (F.pcMid t1 hp1 h1).frame hc (fun j lo hg fr _ hm => ⟨hm, hcell _ _, hcell _ _⟩)
  · intro j hm
    obtain ⟨t1, hp1, h1, hm1⟩ := F.midHas j hm
    have ne : t1 ≠ t := by
      rintro rfl
      rw [hh] at h1; cases h1
      exact hnm (isMidH_midPc hm1)
    exact ⟨t1, hp1, by rw [get_set_ne ne]; exact h1, hm1⟩

theorem pcMidH_isMid {n : BinN.State} {G : Ghost} {pc : HPc} {j : Nat} (h : PcMidH n G pc) (hm : isMidH pc j) :
    IsMid G j := by
  cases pc <;> first | exact hm.elim | skip
  · obtain ⟨fr, a, -⟩ := h; cases hm; exact BinNHM.isMid_of a
  · obtain ⟨lo, fr, a, -⟩ := h; cases hm; exact BinNHM.isMid_of a
  · obtain ⟨lo, hg, fr, a, -⟩ := h; cases hm; exact BinNHM.isMid_of a

/-- the other helpers in their middle phase work on other cells than `j0`, the cell the acting helper is in its
middle phase on, or a cell that is not recorded as being split -/
theorem Full.others_ne {s : State} {G : Ghost} (F : Full s G) {t : Nat} {hp : Helper} (hh : s.hs[t]? = some (some hp))
    {j0 : Nat} (h0 : isMidH hp.pc j0 ∨ G.mid j0 = none) :
    ∀ (t1 : Nat) (hp1 : Helper), t1 ≠ t → s.hs[t1]? = some (some hp1) → ¬ isMidH hp1.pc j0 := by
  intro t1 hp1 ne h1 hm1
  rcases h0 with hm | hn
  · exact ne (F.mid_unique hh h1 hm hm1).symm
  · exact BinNHM.not_isMid_of_none hn (pcMidH_isMid (F.pcMid t1 hp1 h1) hm1)

/-- the link between the other helpers' program counters and the ghost survives a transition that leaves the
splits and the children of the cells other than `j0` alone -/
theorem Full.others_pc {s : State} {G G' : Ghost} (F : Full s G) {t : Nat} {n' : BinN.State} {j0 : Nat}
    (hne : ∀ (t1 : Nat) (hp1 : Helper), t1 ≠ t → s.hs[t1]? = some (some hp1) → ¬ isMidH hp1.pc j0)
    (hc : n'.cur = s.n.cur) (hG : ∀ j x, j ≠ j0 → G.mid j = some x → G'.mid j = some x)
    (hcells : ∀ j, j ≠ j0 → j < 2 ^ s.n.cur → cellAt n' (s.n.cur + 1) j = cellAt s.n (s.n.cur + 1) j ∧
      cellAt n' (s.n.cur + 1) (j + 2 ^ s.n.cur) = cellAt s.n (s.n.cur + 1) (j + 2 ^ s.n.cur)) :
    ∀ (t1 : Nat) (hp1 : Helper), t1 ≠ t → s.hs[t1]? = some (some hp1) → PcMidH n' G' hp1.pc := by
  intro t1 hp1 ne h1
  refine (F.pcMid t1 hp1 h1).frame hc ?_
  intro j lo hg fr hmj hm
  have jne : j ≠ j0 := fun e => hne t1 hp1 ne h1 (e ▸ hmj)
  have hj := (F.inv.heap.mid j lo hg fr hm).1
  exact ⟨hG j _ jne hm, (hcells j jne hj).1, (hcells j jne hj).2⟩

/-- every recorded split belongs to a helper in its middle phase, after a transition of helper `t` on cell `j0` -/
theorem Full.others_mh {s : State} {G G' : Ghost} (F : Full s G) {t : Nat} {hp : Helper} {ho : Option Helper}
    (hh : s.hs[t]? = some (some hp)) {j0 : Nat} (hsel : ∀ j, isMidH hp.pc j → j = j0)
    (hG : ∀ j, IsMid G' j → j ≠ j0 → IsMid G j)
    (hj0 : IsMid G' j0 → ∃ hp', ho = some hp' ∧ isMidH hp'.pc j0) :
    ∀ j, IsMid G' j → ∃ (t1 : Nat) (hp1 : Helper), (s.hs.set t ho)[t1]? = some (some hp1) ∧ isMidH hp1.pc j := by
  intro j hm
  by_cases e : j = j0
  · subst e
    obtain ⟨hp', e1, e2⟩ := hj0 hm
    exact ⟨t, hp', by rw [get_set_self hh, e1], e2⟩
  · obtain ⟨t1, hp1, h1, hm1⟩ := F.midHas j (hG j hm e)
    have ne : t1 ≠ t := by
      rintro rfl
      rw [hh] at h1; cases h1
      exact e (hsel j hm1)
    exact ⟨t1, hp1, by rw [get_set_ne ne]; exact h1, hm1⟩

end Flurry.Proto.BinNH
