import Flurry.Lemmas.BinGNGenStepR
/-! # Proto/BinGN: the generation invariant — list-bin writers and treeify -/
namespace Flurry.Proto.BinGN
open Flurry.Lin

macro "ls" : tactic =>
  `(tactic| first
    | exact LockSame.refl _
    | exact LockSame.modify _ _ _ (fun _ => rfl)
    | exact LockSame.append _ _
    | exact (LockSame.append _ _).trans (LockSame.modify _ _ _ (fun _ => rfl))
    | exact copyChain_lockSame _ _ _)

macro "ms" : tactic =>
  `(tactic| first
    | exact MutexSame.refl _
    | exact MutexSame.modify _ _ _ (fun _ => rfl)
    | exact MutexSame.append _ _)

/-- the new descriptor knows nothing more than the old one; no lock word, mutex or cell changes -/
theorem geninv_weak {s s' : State} {t : Nat} {l l' : Local} (I : GenInv s) (hl : s.threads[t]? = some l)
    (hthr : s'.threads = s.threads.set t l') (hcur : s'.cur = s.cur) (hres : s'.resizing = s.resizing)
    (htabs : s'.tabs = s.tabs) (hN : LockSame s.heap s'.heap) (hM : MutexSame s.tbins s'.tbins)
    (le : (desc s.cur l').le (desc s.cur l)) : GenInv s' :=
  geninv_move I hl hthr hcur hres htabs hN hM le.isX ((I.thr t l hl).weaken le)

/-- a store into cell `(g0, j0)` by a thread whose new descriptor knows nothing more than the old one -/
theorem geninv_put' {s s' : State} {t : Nat} {l l' : Local} {g0 j0 : Nat} {c : Cell} (I : GenInv s)
    (hl : s.threads[t]? = some l)
    (hthr : s'.threads = s.threads.set t l') (hcur : s'.cur = s.cur) (hres : s'.resizing = s.resizing)
    (htabs : s'.tabs = s.tabs.modify g0 (fun row => row.set j0 c))
    (hold : cellAt s g0 j0 ≠ .moved ∨ c = .moved)
    (hc : c = .moved → g0 = s.cur ∧ s.resizing = true)
    (hother : ∀ t1 l1 c1, t1 ≠ t → s.threads[t1]? = some l1 → (desc s.cur l1).valid ≠ some (g0, j0, c1))
    (hN : LockSame s.heap s'.heap) (hM : MutexSame s.tbins s'.tbins)
    (hcb : ∀ b, c = .tree b → b < s'.tbins.length)
    (le : (desc s.cur l').le (desc s.cur l))
    (hv : ∀ g j c1, (desc s.cur l').valid = some (g, j, c1) → ¬ (g = g0 ∧ j = j0)) : GenInv s' := by
  have hne : ∀ g j, ¬ (g = g0 ∧ j = j0) → cellAt s' g j = cellAt s g j := by
    intro g j h
    rw [cellAt_eq, cellAt_eq, htabs]
    exact cellT_put_ne _ _ h
  have hself' : cellAt s' g0 j0 = c ∨ cellAt s' g0 j0 = cellAt s g0 j0 := by
    rw [cellAt_eq, cellAt_eq, htabs]
    exact cellT_put_self _ _ _ _
  refine geninv_put I hl hthr hcur hres htabs hold hc hother (.of_same hN) (.of_same hM) hM.1 hcb le.isX ?_
  refine ((I.thr t l hl).weaken le).transport hcur hres ?_ ?_ hN hM
  · intro g j hm
    by_cases h : g = g0 ∧ j = j0
    · obtain ⟨rfl, rfl⟩ := h
      rcases hself' with e | e
      · rcases hold with h1 | h1
        · exact absurd hm h1
        · rw [e]; exact h1
      · rw [e]; exact hm
    · rw [hne g j h]; exact hm
  · intro g j c1 hv1
    exact hne g j (hv g j c1 hv1)

/-- a new descriptor that holds the same locks and may know a validated cell -/
theorem POK.mkV {s : State} {t : Nat} {D D' : Desc} (h : POK s t D)
    (isX : D'.isX = true → D.isX = true) (gen : D'.gen = none ∨ D'.gen = D.gen)
    (idx : D'.idx = none ∨ D'.idx = D.idx) (commit : D'.commit = true → D.commit = true)
    (hN : D'.holdN = D.holdN) (hM : D'.holdM = D.holdM)
    (valid : ∀ g j c, D'.valid = some (g, j, c) → cellAt s g j = c ∧
      ((∃ h, c = .list h ∧ D'.holdN = some h) ∨ (∃ b, c = .tree b ∧ D'.holdM = some b)))
    (plan : D'.plan = []) : POK s t D' := by
  refine ⟨fun hx => h.tres (isX hx), ?_, ?_, fun hc => h.commit (commit hc), ?_, ?_, valid, ?_⟩
  · intro g k hg
    rcases gen with e | e
    · rw [e] at hg; cases hg
    · rw [e] at hg; exact h.gen g k hg
  · intro j hj
    rcases idx with e | e
    · rw [e] at hj; cases hj
    · rw [e] at hj; exact h.idx j hj
  · rw [hN]; exact h.heldN
  · rw [hM]; exact h.heldM
  · rw [plan]; intro c hc; cases hc

/-- a lock word changes: acquired by `t` (it was free) or released by `t` (it held it) -/
theorem geninv_lockN {s s' : State} {t : Nat} {l l' : Local} {h : Nat} {x : Option Nat} (I : GenInv s)
    (hl : s.threads[t]? = some l)
    (hthr : s'.threads = s.threads.set t l') (hcur : s'.cur = s.cur) (hres : s'.resizing = s.resizing)
    (htabs : s'.tabs = s.tabs) (hheap : s'.heap = s.heap.modify h (fun m => { m with lock := x }))
    (htb : s'.tbins = s.tbins)
    (hfree : lockAt s.heap h = none ∨ lockAt s.heap h = some t)
    (isX : (desc s.cur l').isX = true → (desc s.cur l).isX = true)
    (gen : (desc s.cur l').gen = none ∨ (desc s.cur l').gen = (desc s.cur l).gen)
    (idx : (desc s.cur l').idx = none ∨ (desc s.cur l').idx = (desc s.cur l).idx)
    (commit : (desc s.cur l').commit = true → (desc s.cur l).commit = true)
    (hN' : (desc s.cur l').holdN = none ∨ ((desc s.cur l').holdN = some h ∧ x = some t ∧ h < s.heap.length))
    (hM' : (desc s.cur l').holdM = none) (valid' : (desc s.cur l').valid = none)
    (plan' : ∀ c ∈ (desc s.cur l').plan, c ∈ (desc s.cur l).plan) : GenInv s' := by
  refine geninv_same I hl hthr hcur hres htabs (by rw [hheap]; exact .of_modify hfree)
    (by rw [htb]; exact .of_same (.refl _)) (by rw [htb]; exact Nat.le_refl _) isX ?_
  refine (I.thr t l hl).update htabs hcur hres (by rw [htb]; exact Nat.le_refl _) isX gen idx commit ?_ ?_ (Or.inl valid')
    (fun c hc => Or.inl (plan' c hc))
  · intro y hy
    rcases hN' with e | ⟨e, rfl, hh⟩
    · rw [e] at hy; cases hy
    · rw [e] at hy; cases hy
      rw [hheap]
      exact ⟨by simpa using hh, lockAt_modify_self _ hh⟩
  · intro y hy; rw [hM'] at hy; cases hy

theorem geninv_lockM {s s' : State} {t : Nat} {l l' : Local} {b : Nat} {x : Option Nat} (I : GenInv s)
    (hl : s.threads[t]? = some l)
    (hthr : s'.threads = s.threads.set t l') (hcur : s'.cur = s.cur) (hres : s'.resizing = s.resizing)
    (htabs : s'.tabs = s.tabs) (hheap : s'.heap = s.heap)
    (htb : s'.tbins = s.tbins.modify b (fun m => { m with mutex := x }))
    (hfree : mutexAt s.tbins b = none ∨ mutexAt s.tbins b = some t)
    (isX : (desc s.cur l').isX = true → (desc s.cur l).isX = true)
    (gen : (desc s.cur l').gen = none ∨ (desc s.cur l').gen = (desc s.cur l).gen)
    (idx : (desc s.cur l').idx = none ∨ (desc s.cur l').idx = (desc s.cur l).idx)
    (commit : (desc s.cur l').commit = true → (desc s.cur l).commit = true)
    (hN' : (desc s.cur l').holdN = none)
    (hM' : (desc s.cur l').holdM = none ∨ ((desc s.cur l').holdM = some b ∧ x = some t ∧ b < s.tbins.length))
    (valid' : (desc s.cur l').valid = none)
    (plan' : ∀ c ∈ (desc s.cur l').plan, c ∈ (desc s.cur l).plan) : GenInv s' := by
  refine geninv_same I hl hthr hcur hres htabs (by rw [hheap]; exact .of_same (.refl _))
    (by rw [htb]; exact .of_modify hfree) (by rw [htb]; simp) isX ?_
  refine (I.thr t l hl).update htabs hcur hres (by rw [htb]; simp) isX gen idx commit ?_ ?_ (Or.inl valid')
    (fun c hc => Or.inl (plan' c hc))
  · intro y hy; rw [hN'] at hy; cases hy
  · intro y hy
    rcases hM' with e | ⟨e, rfl, hh⟩
    · rw [e] at hy; cases hy
    · rw [e] at hy; cases hy
      rw [htb]
      exact ⟨by simpa using hh, mutexAt_modify_self _ hh⟩

theorem cellOfHead_ne_moved (x : Option Nat) : cellOfHead x ≠ .moved := by cases x <;> simp [BinG.cellOfHead]
theorem cellOfHead_ne_tree (x : Option Nat) (b : Nat) : cellOfHead x ≠ .tree b := by cases x <;> simp [BinG.cellOfHead]

/-- what the list writer's store does to the shared state besides the node contents -/
theorem storeAt_shape (s : State) (g : Nat) (p : Pending) (pred hit hnext : Option Nat) :
    (storeAt s g p pred hit hnext).1.threads = s.threads ∧ (storeAt s g p pred hit hnext).1.cur = s.cur ∧
    (storeAt s g p pred hit hnext).1.resizing = s.resizing ∧ (storeAt s g p pred hit hnext).1.tbins = s.tbins ∧
    LockSame s.heap (storeAt s g p pred hit hnext).1.heap ∧
    ((storeAt s g p pred hit hnext).1.tabs = s.tabs ∨
      ∃ c, c ≠ .moved ∧ (∀ b, c ≠ .tree b) ∧
        (storeAt s g p pred hit hnext).1.tabs = s.tabs.modify g (fun row => row.set (p.key % 2 ^ g) c)) := by
  have hm : ∀ (i : Nat) (f : NodeS → NodeS), (∀ n, (f n).lock = n.lock) → LockSame s.heap (s.heap.modify i f) :=
    fun i f hf => LockSame.modify _ _ _ hf
  have ha : ∀ (n : NodeS) (i : Nat) (f : NodeS → NodeS), (∀ n, (f n).lock = n.lock) →
      LockSame s.heap ((s.heap ++ [n]).modify i f) :=
    fun n i f hf => (LockSame.append _ _).trans (LockSame.modify _ _ _ hf)
  unfold storeAt
  cases p.op <;> cases hit <;> cases pred <;> cases hnext <;>
    refine ⟨rfl, rfl, rfl, rfl, ?_, ?_⟩ <;>
    first
      | exact LockSame.refl _
      | exact hm _ _ (fun _ => rfl)
      | exact ha _ _ _ (fun _ => rfl)
      | exact LockSame.append _ _
      | exact Or.inl rfl
      | exact Or.inr ⟨_, by simp, by simp, rfl⟩

section
variable {s s' : State} {t : Nat} {inv : Option (Nat × KOp)} {lo : Bool} {mt : Option Nat} {rz sm sm2 : Bool}
  {pick : Nat} {p : Pending}

/-- all branches are pc moves after which the thread knows nothing more -/
macro "wk_all" I:ident hl:ident hs:ident : tactic =>
  `(tactic| (open_step $hs $hl; repeat' split at $hs:ident
             all_goals first
               | (cases $hs:ident; done)
               | (cases $hs:ident; exact geninv_weak $I $hl rfl rfl rfl rfl (by ls) (by ms) (by dle))))

theorem step_wTable (I : GenInv s) (hl : s.threads[t]? = some { pc := .wTable, call := some p })
    (hs : step s t inv lo mt rz sm sm2 pick = some s') : GenInv s' := by
  open_step hs hl
  cases hs
  exact geninv_move I hl rfl rfl rfl rfl (.refl _) (.refl _) (fun h => by cases h) (POK.ofGen (cur_gen s p.key))

theorem step_wCell {g : Nat} (I : GenInv s) (hl : s.threads[t]? = some { pc := .wCell g, call := some p })
    (hs : step s t inv lo mt rz sm sm2 pick = some s') : GenInv s' := by
  have T := I.thr t _ hl
  open_step hs hl
  split at hs
  · split at hs
    · cases hs; exact geninv_weak I hl rfl rfl rfl rfl (by ls) (by ms) (by dle)
    · cases hs; exact geninv_weak I hl rfl rfl rfl rfl (by ls) (by ms) (by dle)
    · cases hs; rd_done I hl
  · rename_i hm
    cases hs
    exact geninv_move I hl rfl rfl rfl rfl (.refl _) (.refl _) (fun h => by cases h)
      (POK.ofGen (gen_follow I (T.gen g p.key rfl) hm))
  · cases hs; exact geninv_weak I hl rfl rfl rfl rfl (by ls) (by ms) (by dle)
  · rename_i b hb
    cases hs
    exact geninv_move I hl rfl rfl rfl rfl (.refl _) (.refl _) (fun h => by cases h)
      (POK.ofGenB (T.gen g p.key rfl) (I.bins _ _ b hb))

theorem step_wCas {g : Nat} (I : GenInv s) (hl : s.threads[t]? = some { pc := .wCas g, call := some p })
    (hs : step s t inv lo mt rz sm sm2 pick = some s') : GenInv s' := by
  have T := I.thr t _ hl
  open_step hs hl
  split at hs
  · rename_i hc _
    cases hs
    have hc' : cellAt s g (p.key % 2 ^ g) = .empty := hc
    refine geninv_put' (g0 := g) (j0 := p.key % 2 ^ g) (c := .list s.heap.length) I hl rfl rfl rfl rfl
      (Or.inl (by rw [hc']; simp)) (fun h => by cases h) ?_ (by ls) (by ms) (fun b h => by cases h) (by dle)
      (fun g j c h => by cases h)
    intro t1 l1 c1 _ h1
    exact no_valid_of_plain I (by rw [hc']; simp) t1 l1 c1 h1
  · rename_i hc _
    cases hs
    have hc' : cellAt s g (p.key % 2 ^ g) = .empty := hc
    refine geninv_put' (g0 := g) (j0 := p.key % 2 ^ g) (c := .list s.heap.length) I hl rfl rfl rfl rfl
      (Or.inl (by rw [hc']; simp)) (fun h => by cases h) ?_ (by ls) (by ms) (fun b h => by cases h) (by dle)
      (fun g j c h => by cases h)
    intro t1 l1 c1 _ h1
    exact no_valid_of_plain I (by rw [hc']; simp) t1 l1 c1 h1
  · cases hs; exact geninv_weak I hl rfl rfl rfl rfl (by ls) (by ms) (by dle)

theorem step_wLock {g h : Nat} (I : GenInv s) (hl : s.threads[t]? = some { pc := .wLock g h, call := some p })
    (hs : step s t inv lo mt rz sm sm2 pick = some s') : GenInv s' := by
  open_step hs hl
  split at hs
  · cases hs
  · rename_i n hn
    split at hs
    · cases hs
    · rename_i hfree
      cases hs
      have hh : h < s.heap.length := (List.getElem?_eq_some_iff.1 hn).1
      have hf : lockAt s.heap h = none := by
        rw [lockAt_of_some hn]; cases hx : n.lock with
        | none => rfl
        | some y => rw [hx] at hfree; simp at hfree
      exact geninv_lockN (h := h) (x := some t) I hl rfl rfl rfl rfl rfl rfl (Or.inl hf) (fun h => by cases h)
        (Or.inr rfl) (Or.inl rfl) (fun h => by cases h) (Or.inr ⟨rfl, rfl, hh⟩) rfl rfl (fun c hc => by cases hc)

theorem step_wCheck {g h : Nat} (I : GenInv s) (hl : s.threads[t]? = some { pc := .wCheck g h, call := some p })
    (hs : step s t inv lo mt rz sm sm2 pick = some s') : GenInv s' := by
  have T := I.thr t _ hl
  open_step hs hl
  split at hs
  · rename_i hc
    cases hs
    have hc' : cellAt s g (p.key % 2 ^ g) = .list h := by
      have := hc; simp only [beq_iff_eq] at this; exact this
    refine geninv_move I hl rfl rfl rfl rfl (.refl _) (.refl _) (fun h => by cases h) ?_
    refine T.mkV (fun h => by cases h) (Or.inr rfl) (Or.inl rfl) (fun h => by cases h) rfl rfl ?_ rfl
    intro g' j' c' hv
    simp only [desc, descPc, keyOf, Option.some.injEq, Prod.mk.injEq] at hv
    obtain ⟨rfl, rfl, rfl⟩ := hv
    exact ⟨hc', Or.inl ⟨h, rfl, rfl⟩⟩
  · cases hs; exact geninv_weak I hl rfl rfl rfl rfl (by ls) (by ms) (by dle)

theorem step_wFind {g h : Nat} {pred cur : Option Nat} (I : GenInv s)
    (hl : s.threads[t]? = some { pc := .wFind g h pred cur, call := some p })
    (hs : step s t inv lo mt rz sm sm2 pick = some s') : GenInv s' := by
  cases cur <;> wk_all I hl hs

theorem step_wStore {g h : Nat} {pred hit hnext : Option Nat} (I : GenInv s)
    (hl : s.threads[t]? = some { pc := .wStore g h pred hit hnext, call := some p })
    (hs : step s t inv lo mt rz sm sm2 pick = some s') : GenInv s' := by
  have T := I.thr t _ hl
  open_step hs hl
  cases hs
  obtain ⟨e1, e2, e3, e4, e6, e7⟩ := storeAt_shape (tick s) g p pred hit hnext
  have hv0 : (desc s.cur { pc := Pc.wStore g h pred hit hnext, call := some p }).valid =
      some (g, p.key % 2 ^ g, .list h) := rfl
  obtain ⟨hcell, -⟩ := T.valid _ _ _ hv0
  have hthr : (setT (storeAt (tick s) g p pred hit hnext).1 t
      { pc := .wUnlock g h (storeAt (tick s) g p pred hit hnext).2 false, call := some p }).threads =
      s.threads.set t { pc := .wUnlock g h (storeAt (tick s) g p pred hit hnext).2 false, call := some p } := by
    show (storeAt _ _ _ _ _ _).1.threads.set _ _ = _; rw [e1]; rfl
  have hM : MutexSame s.tbins (storeAt (tick s) g p pred hit hnext).1.tbins := by rw [e4]; exact .refl _
  rcases e7 with e7 | ⟨c, hcm, hct, e7⟩
  · exact geninv_weak I hl hthr e2 e3 e7 e6 hM (by dle)
  · refine geninv_put' (g0 := g) (j0 := p.key % 2 ^ g) (c := c) I hl hthr e2 e3 e7
      (Or.inl (by rw [hcell]; simp)) (fun h => absurd h hcm) (no_valid_of_mutex I hl hv0) e6 hM
      (fun b h => absurd h (hct b)) (by dle) (fun g j c h => by cases h)

theorem step_wUnlock {g h : Nat} {res : KRes} {retry : Bool} (I : GenInv s)
    (hl : s.threads[t]? = some { pc := .wUnlock g h res retry, call := some p })
    (hs : step s t inv lo mt rz sm sm2 pick = some s') : GenInv s' := by
  have T := I.thr t _ hl
  have hheld := (T.heldN h rfl).2
  open_step hs hl
  split at hs
  · cases hs
    exact geninv_lockN (h := h) (x := none) I hl rfl rfl rfl rfl rfl rfl (Or.inr hheld) (fun h => by cases h)
      (Or.inr rfl) (Or.inl rfl) (fun h => by cases h) (Or.inl rfl) rfl rfl (fun c hc => by cases hc)
  · cases hs
    exact geninv_lockN (h := h) (x := none) I hl rfl rfl rfl rfl rfl rfl (Or.inr hheld) (fun h => by cases h)
      (Or.inl rfl) (Or.inl rfl) (fun h => by cases h) (Or.inl rfl) rfl rfl (fun c hc => by cases hc)

/-! ## treeify -/

theorem step_kTable {k : Nat} (I : GenInv s) (hl : s.threads[t]? = some { pc := .kTable k, call := none })
    (hs : step s t inv lo mt rz sm sm2 pick = some s') : GenInv s' := by
  open_step hs hl
  cases hs
  exact geninv_move I hl rfl rfl rfl rfl (.refl _) (.refl _) (fun h => by cases h) (POK.ofGen (cur_gen s k))

theorem step_kCell {g k : Nat} (I : GenInv s) (hl : s.threads[t]? = some { pc := .kCell g k, call := none })
    (hs : step s t inv lo mt rz sm sm2 pick = some s') : GenInv s' := by
  have T := I.thr t _ hl
  open_step hs hl
  split at hs
  · cases hs; exact geninv_weak I hl rfl rfl rfl rfl (by ls) (by ms) (by dle)
  · rename_i hm
    cases hs
    exact geninv_move I hl rfl rfl rfl rfl (.refl _) (.refl _) (fun h => by cases h)
      (POK.ofGen (gen_follow I (T.gen g k rfl) hm))
  · cases hs; rd_done I hl

theorem step_kLock {g k h : Nat} (I : GenInv s) (hl : s.threads[t]? = some { pc := .kLock g k h, call := none })
    (hs : step s t inv lo mt rz sm sm2 pick = some s') : GenInv s' := by
  open_step hs hl
  split at hs
  · cases hs
  · rename_i n hn
    split at hs
    · cases hs
    · rename_i hfree
      cases hs
      have hh : h < s.heap.length := (List.getElem?_eq_some_iff.1 hn).1
      have hf : lockAt s.heap h = none := by
        rw [lockAt_of_some hn]; cases hx : n.lock with
        | none => rfl
        | some y => rw [hx] at hfree; simp at hfree
      exact geninv_lockN (h := h) (x := some t) I hl rfl rfl rfl rfl rfl rfl (Or.inl hf) (fun h => by cases h)
        (Or.inr rfl) (Or.inl rfl) (fun h => by cases h) (Or.inr ⟨rfl, rfl, hh⟩) rfl rfl (fun c hc => by cases hc)

theorem step_kCheck {g k h : Nat} (I : GenInv s) (hl : s.threads[t]? = some { pc := .kCheck g k h, call := none })
    (hs : step s t inv lo mt rz sm sm2 pick = some s') : GenInv s' := by
  have T := I.thr t _ hl
  open_step hs hl
  split at hs
  · rename_i hc
    cases hs
    have hc' : cellAt s g (k % 2 ^ g) = .list h := by
      have := hc; simp only [beq_iff_eq] at this; exact this
    refine geninv_move I hl rfl rfl rfl rfl (.refl _) (.refl _) (fun h => by cases h) ?_
    refine T.mkV (fun h => by cases h) (Or.inr rfl) (Or.inl rfl) (fun h => by cases h) rfl rfl ?_ rfl
    intro g' j' c' hv
    simp only [desc, descPc, keyOf, Option.some.injEq, Prod.mk.injEq] at hv
    obtain ⟨rfl, rfl, rfl⟩ := hv
    exact ⟨hc', Or.inl ⟨h, rfl, rfl⟩⟩
  · cases hs; exact geninv_weak I hl rfl rfl rfl rfl (by ls) (by ms) (by dle)

theorem step_kBuild {g k h : Nat} (I : GenInv s) (hl : s.threads[t]? = some { pc := .kBuild g k h, call := none })
    (hs : step s t inv lo mt rz sm sm2 pick = some s') : GenInv s' := by
  have T := I.thr t _ hl
  open_step hs hl
  cases hs
  have hN : LockSame s.heap (copyChain s.heap (chainFrom s.heap s.heap.length (some h))
      (fun src nx => ⟨src.key, src.val, nx, none, true, some s.tbins.length⟩)).1 := copyChain_lockSame _ _ _
  have hlen : s.tbins.length ≤ (s.tbins ++ [({ first := (copyChain s.heap (chainFrom s.heap s.heap.length (some h))
      (fun src nx => ⟨src.key, src.val, nx, none, true, some s.tbins.length⟩)).2 } : TBin)]).length := by simp
  refine geninv_same I hl rfl rfl rfl rfl (.of_same hN) (.of_same (MutexSame.append _ _)) hlen
    (fun h => by cases h) ?_
  refine T.update rfl rfl rfl hlen (fun h => by cases h) (Or.inr rfl) (Or.inl rfl) (fun h => by cases h)
    ?_ ?_ (Or.inr ⟨rfl, rfl, rfl⟩) ?_
  · intro x hx
    obtain ⟨a, b⟩ := T.heldN x hx
    exact ⟨Nat.lt_of_lt_of_le a hN.1, (hN.2 x a).trans b⟩
  · intro x hx; cases hx
  · intro c hc
    have : c = .tree s.tbins.length := by simpa [desc, descPc] using hc
    subst this
    refine Or.inr ⟨by simp, fun b e => ?_⟩
    cases e
    show s.tbins.length < (s.tbins ++ [_]).length
    simp

theorem step_kStore {g k h b : Nat} (I : GenInv s) (hl : s.threads[t]? = some { pc := .kStore g k h b, call := none })
    (hs : step s t inv lo mt rz sm sm2 pick = some s') : GenInv s' := by
  have T := I.thr t _ hl
  open_step hs hl
  cases hs
  have hv0 : (desc s.cur { pc := Pc.kStore g k h b, call := none }).valid = some (g, k % 2 ^ g, .list h) := rfl
  obtain ⟨hcell, -⟩ := T.valid _ _ _ hv0
  have hb := (T.plan (.tree b) (by simp [desc, descPc])).2 b rfl
  exact geninv_put' (g0 := g) (j0 := k % 2 ^ g) (c := .tree b) I hl rfl rfl rfl rfl
    (Or.inl (by rw [hcell]; simp)) (fun h => by cases h) (no_valid_of_mutex I hl hv0) (by ls) (by ms)
    (fun b' e => by cases e; exact hb) (by dle) (fun g j c h => by cases h)

theorem step_kUnlock {h : Nat} (I : GenInv s) (hl : s.threads[t]? = some { pc := .kUnlock h, call := none })
    (hs : step s t inv lo mt rz sm sm2 pick = some s') : GenInv s' := by
  have T := I.thr t _ hl
  have hheld := (T.heldN h rfl).2
  open_step hs hl
  cases hs
  exact geninv_lockN (h := h) (x := none) I hl rfl rfl rfl rfl rfl rfl (Or.inr hheld) (fun h => by cases h)
    (Or.inl rfl) (Or.inl rfl) (fun h => by cases h) (Or.inl rfl) rfl rfl (fun c hc => by cases hc)

end
end Flurry.Proto.BinGN
