import Flurry.Lemmas.TableGNL
import Flurry.Props.C11BinGNDrain
/-! # Proto/TableGN, termination: the drain theorem of `Proto/BinGN` lifted to the whole table
(port of the drain part of `Lemmas/TableGP.lean`)

* `TQStep`: a table step with `inv = none`, `mt = none`, `rz = false` of a thread that is not `idle` in the lineage
  it steps in, with the `pick` restriction of `BinGNP.QStep` (the resizing thread at `xNext` is handed a cell that is
  not yet forwarded, if there is one); `TQRun`; `Gmu = Σ gmu`, `DrainBound = Σ drainBound`;
* `TQStep.effect`: one lineage makes a `BinGNP.QStep`, every other lineage ticks; `TQStep.gmu_lt`;
* `tqrun_bounded`, `tqstep_of_not_quiescent`, `tqrun_maximal_quiescent`, `tdrain_exists`, `no_infinite_tqrun`;
* `PendOrAns`, `tqrun_pendOrAns`, `answered_mhist`. -/
namespace Flurry.Proto.TableGND
open Flurry.Lin Flurry.LinMap Flurry.Proto.TableGN Flurry.Proto.TableGNL
open Flurry.Proto.TableN (lineageOf localKey globalKey inLineage localInv)

/-- a quiet step of the table: a thread that is not `idle` in lineage `i` takes a step there; no call, treeify or
resize is started. The scheduler restriction on `pick` is that of `BinGNP.QStep`, for the lineage that steps. -/
def TQStep (S S' : State) : Prop :=
  ∃ (i t : Nat) (b : BinGN.State) (l : BinGN.Local) (lo sm sm2 : Bool) (pick : Nat), S.bins[i]? = some b ∧
    b.threads[t]? = some l ∧ l.pc ≠ .idle ∧
    (l.pc = .xNext → BinGN.allMoved b b.cur = false → BinGNP.cellAt b (b.cur, pick % 2 ^ b.cur) ≠ .moved) ∧
    step S i t none lo none false sm sm2 pick = some S'

/-- `k` quiet steps of the table -/
inductive TQRun : State → Nat → State → Prop
  | nil (S : State) : TQRun S 0 S
  | cons {S S1 S2 : State} {k : Nat} : TQStep S S1 → TQRun S1 k S2 → TQRun S (k + 1) S2

/-- the global measure of the table: the sum of the lineages' measures -/
def Gmu (S : State) : Nat := (S.bins.map BinGNP.gmu).sum

/-- the explicit bound of `Gmu` -/
def DrainBound (S : State) : Nat := (S.bins.map BinGNP.drainBound).sum

/-- **`gmu` does not read the clock** -/
theorem gmu_tick_aux (b : BinGN.State) : BinGNP.gmu (tick b) = BinGNP.gmu b := rfl

theorem drainBound_tick (b : BinGN.State) : BinGNP.drainBound (tick b) = BinGNP.drainBound b := rfl

/-- a quiet step of the table is a quiet step of one lineage and a tick of all others -/
theorem TQStep.effect {S S' : State} (h : TQStep S S') :
    ∃ (i : Nat) (b b' : BinGN.State), S.bins[i]? = some b ∧ BinGNP.QStep b b' ∧
      S' = { bins := (S.bins.map tick).set i b' } := by
  obtain ⟨i, t, b, l, lo, sm, sm2, pick, hb, hl, hne, hpk, hs⟩ := h
  obtain ⟨b0, b', hb0, _, _, _, hs', rfl⟩ := step_eq_some hs
  rw [hb] at hb0
  cases hb0
  exact ⟨i, b, b', hb, ⟨t, l, lo, sm, sm2, pick, hl, hne, hpk, hs'⟩, rfl⟩

theorem TQStep.reachable {m n : Nat} {S S' : State} (hr : Reachable m n S) (h : TQStep S S') : Reachable m n S' := by
  obtain ⟨i, t, b, l, lo, sm, sm2, pick, _, _, _, _, hs⟩ := h
  exact Reachable.step i t none lo none false sm sm2 pick hr hs

theorem TQRun.reachable {m n : Nat} {S S' : State} {k : Nat} (hr : Reachable m n S) (h : TQRun S k S') :
    Reachable m n S' := by
  induction h with
  | nil => exact hr
  | cons h1 _ ih => exact ih (h1.reachable hr)

theorem TQRun.snoc {S S1 S2 : State} {k : Nat} (h : TQRun S k S1) (h2 : TQStep S1 S2) : TQRun S (k + 1) S2 := by
  induction h with
  | nil => exact .cons h2 (.nil _)
  | cons h1 _ ih => exact .cons h1 (ih h2)

theorem sum_map_tick (f : BinGN.State → Nat) (hf : ∀ b, f (tick b) = f b) (L : List BinGN.State) :
    ((L.map tick).map f).sum = (L.map f).sum := by
  rw [List.map_map]
  congr 1
  apply List.map_congr_left
  intro b _
  exact hf b

/-- **every quiet step of the table strictly decreases `Gmu`** -/
theorem TQStep.gmu_lt {m n : Nat} {S S' : State} (hr : Reachable m n S) (h : TQStep S S') : Gmu S' < Gmu S := by
  obtain ⟨i, b, b', hb, hq, rfl⟩ := h.effect
  have hrb := (reachable_tblInv hr).reach i b hb
  have hlt := hq.gmu_lt hrb
  have hi : (S.bins.map tick)[i]? = some (tick b) := by rw [List.getElem?_map, hb]; rfl
  have := BinGNP.sum_set_add_le BinGNP.gmu BinGNP.gmu 1 (S.bins.map tick) i (tick b) b' hi
    (fun _ _ _ _ => Nat.le_refl _) (by rw [gmu_tick_aux]; omega)
  rw [sum_map_tick BinGNP.gmu gmu_tick_aux] at this
  unfold Gmu
  show (((S.bins.map tick).set i b').map BinGNP.gmu).sum < _
  omega

theorem tqrun_bounded {m n : Nat} {S S' : State} {k : Nat} (hr : Reachable m n S) (h : TQRun S k S') :
    k + Gmu S' ≤ Gmu S := by
  induction h with
  | nil => omega
  | cons h1 _ ih =>
    have := h1.gmu_lt hr
    have := ih (h1.reachable hr)
    omega

theorem Gmu_le_DrainBound {m n : Nat} {S : State} (hr : Reachable m n S) : Gmu S ≤ DrainBound S := by
  unfold Gmu DrainBound
  apply BinGNP.sum_map_le_of
  intro b hb
  obtain ⟨i, hi⟩ := List.mem_iff_getElem?.1 hb
  exact BinGNP.gmu_le_drainBound ((reachable_tblInv hr).reach i b hi)

/-- **the table does not get in the way of a quiet lineage step**: a `BinGNP.QStep` of lineage `i` of a reachable
table is a `TQStep` of the table; lineage `i` makes that step, every other lineage ticks -/
theorem tqstep_of_qstep {m n : Nat} {S : State} (hr : Reachable m n S) {i : Nat} {b b' : BinGN.State}
    (hb : S.bins[i]? = some b) (hq : BinGNP.QStep b b') : TQStep S { bins := (S.bins.map tick).set i b' } := by
  obtain ⟨t, l, lo, sm, sm2, pick, hl, hne, hpk, hs⟩ := hq
  have he := idleElse_of_active hr hb hl hne
  have hstep : step S i t none lo none false sm sm2 pick = some { bins := (S.bins.map tick).set i b' } :=
    step_lift (inv := none) (mt := none) hb he rfl rfl hs
  exact ⟨i, t, b, l, lo, sm, sm2, pick, hb, hl, hne, hpk, hstep⟩

/-- a table that is not quiescent has a quiet step (`BinGNP.qstep_of_not_quiescent` lifted: the `pick` restriction
never disables the resizing thread) -/
theorem tqstep_of_not_quiescent {m n : Nat} {S : State} (hr : Reachable m n S) (hq : ¬ quiescent S) :
    ∃ S', TQStep S S' := by
  obtain ⟨i, b, hb, hnq⟩ := not_quiescent_lineage hq
  have hrb := (reachable_tblInv hr).reach i b hb
  obtain ⟨b', hq'⟩ := BinGNP.qstep_of_not_quiescent hrb hnq
  exact ⟨_, tqstep_of_qstep hr hb hq'⟩

/-- a quiescent table has no quiet step -/
theorem no_tqstep_of_quiescent {S S' : State} (hq : quiescent S) : ¬ TQStep S S' := by
  rintro ⟨i, t, b, l, lo, sm, sm2, pick, hb, hl, hne, _⟩
  exact hne (hq b (List.mem_of_getElem? hb) l (List.mem_iff_getElem?.2 ⟨t, hl⟩))

theorem tqrun_maximal_quiescent {m n : Nat} {S S' : State} {k : Nat} (hr : Reachable m n S) (h : TQRun S k S')
    (hmax : ∀ S'', ¬ TQStep S' S'') : quiescent S' := by
  apply Classical.byContradiction
  intro hq
  obtain ⟨S'', h''⟩ := tqstep_of_not_quiescent (h.reachable hr) hq
  exact hmax S'' h''

theorem tdrain_exists {m n : Nat} : ∀ (c : Nat) {S : State}, Reachable m n S → Gmu S ≤ c →
    ∃ k S', TQRun S k S' ∧ quiescent S'
  | 0, S, hr, hm => by
    by_cases hq : quiescent S
    · exact ⟨0, S, .nil S, hq⟩
    · obtain ⟨S', h'⟩ := tqstep_of_not_quiescent hr hq
      have := h'.gmu_lt hr
      omega
  | c + 1, S, hr, hm => by
    by_cases hq : quiescent S
    · exact ⟨0, S, .nil S, hq⟩
    · obtain ⟨S1, h1⟩ := tqstep_of_not_quiescent hr hq
      have := h1.gmu_lt hr
      obtain ⟨k, S', hrun, hq'⟩ := tdrain_exists c (h1.reachable hr) (by omega)
      exact ⟨k + 1, S', .cons h1 hrun, hq'⟩

theorem no_infinite_tqrun {m n : Nat} {S : State} (hr : Reachable m n S) (f : Nat → State) (h0 : f 0 = S)
    (hstep : ∀ i, TQStep (f i) (f (i + 1))) : False := by
  have hrun : ∀ k, TQRun S k (f k) := by
    intro k
    induction k with
    | zero => rw [h0]; exact .nil S
    | succ k ih => exact ih.snoc (hstep k)
  have := tqrun_bounded hr (hrun (Gmu S + 1))
  omega

/-! ## every call returns -/

/-- the call `p` of thread `t` is still in flight in the lineage, or it has been answered there -/
def PendOrAns (b : BinGN.State) (t : Nat) (p : BinGN.Pending) : Prop :=
  (∃ l1, b.threads[t]? = some l1 ∧ l1.call = some p) ∨ BinGNP.Answered b t p

theorem qstep_pendOrAns {n : Nat} {b b' : BinGN.State} (hr : BinGN.Reachable n b) (h : BinGNP.QStep b b') {t : Nat}
    {p : BinGN.Pending} (hpa : PendOrAns b t p) : PendOrAns b' t p := by
  rcases hpa with ⟨l0, hl0, hp⟩ | ⟨res, resp, hm⟩
  · rcases h.call_kept hr hl0 hp with ⟨l1, hl1, hp1, _⟩ | ⟨l1, hl1, hp1, _⟩ | ⟨res, hh⟩
    · exact Or.inl ⟨l1, hl1, hp1⟩
    · exact Or.inl ⟨l1, hl1, hp1⟩
    · exact Or.inr ⟨res, _, by rw [hh]; exact List.mem_cons_self⟩
  · exact Or.inr ⟨res, resp, h.hist_mono _ hm⟩

theorem tick_pendOrAns {b : BinGN.State} {t : Nat} {p : BinGN.Pending} (hpa : PendOrAns b t p) :
    PendOrAns (tick b) t p := hpa

theorem tqstep_pendOrAns {m n : Nat} {S S' : State} (hr : Reachable m n S) (h : TQStep S S') {j t : Nat}
    {bj : BinGN.State} {p : BinGN.Pending} (hj : S.bins[j]? = some bj) (hpa : PendOrAns bj t p) :
    ∃ bj', S'.bins[j]? = some bj' ∧ PendOrAns bj' t p := by
  obtain ⟨i, b, b', hb, hq, rfl⟩ := h.effect
  obtain ⟨h1, h2⟩ := bins_after b' hb
  by_cases hji : j = i
  · subst hji
    rw [hb] at hj
    cases hj
    exact ⟨b', h1, qstep_pendOrAns ((reachable_tblInv hr).reach j _ hb) hq hpa⟩
  · exact ⟨tick bj, h2 j bj hji hj, tick_pendOrAns hpa⟩

theorem tqrun_pendOrAns {m n : Nat} {S S' : State} {k : Nat} (hr : Reachable m n S) (h : TQRun S k S') {j t : Nat}
    {bj : BinGN.State} {p : BinGN.Pending} (hj : S.bins[j]? = some bj) (hpa : PendOrAns bj t p) :
    ∃ bj', S'.bins[j]? = some bj' ∧ PendOrAns bj' t p := by
  induction h generalizing bj with
  | nil => exact ⟨bj, hj, hpa⟩
  | cons h1 _ ih =>
    obtain ⟨b1, hb1, hpa1⟩ := tqstep_pendOrAns hr h1 hj hpa
    exact ih (h1.reachable hr) hb1 hpa1

/-- an answer in lineage `j` is an entry of the map history, under the key of the table `globalKey m j p.key` -/
theorem answered_mhist {S : State} {j t : Nat} {bj : BinGN.State} {p : BinGN.Pending} (hj : S.bins[j]? = some bj)
    (ha : BinGNP.Answered bj t p) :
    ∃ res resp, (⟨globalKey S.bins.length j p.key,
      { tid := t, op := p.op, res := res, inv := p.inv, resp := resp }⟩ : MCall) ∈ mhist S := by
  obtain ⟨res, resp, hm⟩ := ha
  refine ⟨res, resp, ?_⟩
  unfold mhist
  rw [List.mem_flatten]
  have hjl : j < S.bins.length := (List.getElem?_eq_some_iff.1 hj).1
  refine ⟨binCalls S.bins.length j bj, List.mem_map.2 ⟨j, List.mem_range.2 hjl, by rw [getD_of_get hj]⟩, ?_⟩
  unfold binCalls
  exact List.mem_map.2 ⟨_, List.mem_reverse.2 hm, rfl⟩

/-- in a quiescent lineage of a reachable table a call that is pending-or-answered is answered -/
theorem answered_of_quiescent {n : Nat} {b : BinGN.State} (hr : BinGN.Reachable n b) (hq : BinGN.quiescent b)
    {t : Nat} {p : BinGN.Pending} (hpa : PendOrAns b t p) : BinGNP.Answered b t p := by
  rcases hpa with ⟨l1, hl1, hp1⟩ | ha
  · exfalso
    have hidle : l1.pc = .idle := hq l1 (List.mem_iff_getElem?.2 ⟨t, hl1⟩)
    have := ((BinGNP.reachable_inv hr).thr.callOK t l1 hl1).2 (by rw [hidle]; rfl)
    rw [hp1] at this
    cases this
  · exact ha

end Flurry.Proto.TableGND
