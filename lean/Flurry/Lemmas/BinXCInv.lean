import Flurry.Lemmas.BinXCThreads
/-! # Proto/BinXC: the structural invariant holds in every reachable state (C01, C03, C04)

`stepK_inv`: every transition preserves `Inv` (heap invariant of the projected memory, thread-level
invariants, and `RInv`: retired nodes are dead); `reachable_inv`. -/
namespace Flurry.Proto.BinXC
open Flurry.Lin
open Flurry.Proto.BinX (Ghost Phase CellId CR Active MemStep get_set get_set_self get_set_ne)

/-! ## facts about the pure moves -/

theorem Move.holds {s : State} {p : Pending} {pc pc' : Pc} (hm : Move s p pc pc') {h : Nat}
    (hh : Holds pc' h) : Holds pc h := by
  cases hm <;> first | exact hh | exact False.elim hh

theorem Move.isOp {s : State} {p : Pending} {pc pc' : Pc} (hm : Move s p pc pc') :
    isOp pc' ∧ isOp pc ∧ ¬ isT pc ∧ ¬ isT pc' := by
  cases hm <;> exact ⟨trivial, trivial, id, id⟩

theorem Move.pcOp {s : State} {p : Pending} {pc pc' : Pc} (hm : Move s p pc pc') {op : KOp}
    (hp : PcOp pc op) : PcOp pc' op := by
  cases hm <;> exact hp

theorem CMove.holds {s : State} {pc pc' : Pc} (hm : CMove s pc pc') {h : Nat}
    (hh : Holds pc' h) : Holds pc h := by
  cases hm <;> first | exact hh | exact False.elim hh

theorem CMove.isOp {s : State} {pc pc' : Pc} (hm : CMove s pc pc') :
    isOp pc' ∧ isOp pc ∧ ¬ isT pc ∧ ¬ isT pc' ∧ isC pc ∧ isC pc' := by
  cases hm <;> exact ⟨trivial, trivial, id, id, trivial, trivial⟩

theorem CMove.pcOp {s : State} {pc pc' : Pc} (hm : CMove s pc pc') {op : KOp}
    (hp : PcOp pc op) : PcOp pc' op := by
  cases hm with
  | table => exact hp
  | cellMoved _ _ => exact hp
  | cellNode hi _ => exact ⟨hp, hi⟩
  | waitGo _ => exact hp
  | waitStay _ => exact hp
  | checkOk _ => exact hp
  | checkFail _ => exact hp

theorem TMove.isT {s : State} {pc pc' : Pc} (hm : TMove s pc pc') : isT pc ∧ isT pc' ∧ ¬ isOp pc ∧ ¬ isOp pc' := by
  cases hm <;> exact ⟨trivial, trivial, id, id⟩

theorem curNew_mem {s : State} {g : Ghost} (H : BinX.HInv (mem s) g) (h : s.cur = .new) : g.ph = .post :=
  H.curNew (by rw [mem_cur, h]; rfl)

theorem cell0_moved_mem {s : State} {g : Ghost} (H : BinX.HInv (mem s) g) (h : s.cell0 = .moved) : g.ph = .post :=
  H.post_of_moved (by rw [mem_cell0, h]; rfl)

theorem Move.pcPh {s : State} {g : Ghost} (H : BinX.HInv (mem s) g) {p : Pending} {pc pc' : Pc} (hm : Move s p pc pc')
    (hp : PcPh (mem s) g pc) : PcPh (mem s) g pc' := by
  cases hm with
  | rTable =>
    intro ht
    simp only [tabOf, Option.some.injEq] at ht
    exact curNew_mem H ht
  | wTable =>
    intro ht
    simp only [tabOf, Option.some.injEq] at ht
    exact curNew_mem H ht
  | @rCellMoved tab hc =>
    intro _
    cases tab with
    | old => exact cell0_moved_mem H hc
    | new => exact hp rfl
  | @wCellMoved tab hc =>
    intro _
    cases tab with
    | old => exact cell0_moved_mem H hc
    | new => exact hp rfl
  | rCellNode _ => intro ht; cases ht
  | rNext _ _ => intro ht; cases ht
  | wCellEmpty _ _ => exact hp
  | wCellNode _ => exact hp
  | casFail => exact hp
  | checkOk _ => exact hp
  | checkFail _ => exact hp
  | findEnd => exact hp
  | findHit _ _ => exact hp
  | findNext _ _ => exact hp

theorem CMove.pcPh {s : State} {g : Ghost} (H : BinX.HInv (mem s) g) {pc pc' : Pc} (hm : CMove s pc pc')
    (hp : PcPh (mem s) g pc) : PcPh (mem s) g pc' := by
  cases hm with
  | table =>
    intro ht
    simp only [tabOf, Option.some.injEq] at ht
    exact curNew_mem H ht
  | cellMoved _ _ => intro ht; cases ht
  | cellNode _ _ => exact hp
  | waitGo hc => intro _; exact curNew_mem H hc
  | waitStay _ => exact hp
  | checkOk _ => exact hp
  | checkFail _ => exact hp

theorem heap_get_mem {s : State} {c : Nat} {n : NodeS} (hn : s.heap[c]? = some n) :
    (mem s).heap[c]? = some (cN n) := by
  rw [mem_heap, List.getElem?_map, hn]; rfl

theorem Move.walk {s : State} {g : Ghost} (H : BinX.HInv (mem s) g) {p : Pending} {pc pc' : Pc} (hm : Move s p pc pc')
    (hw : WalkOK (mem s) p pc) : WalkOK (mem s) p pc' := by
  cases hm with
  | @checkOk tab h hc =>
    show BinX.Walk _ _ _ _ _
    have hc' : BinX.cellOf (mem s) (cT tab) p.key = .node h := by rw [cellOf_mem, hc]; rfl
    rw [hc']
    rw [BinX.cellOf_eq] at hc'
    obtain ⟨l', hl'⟩ := BinX.chainH_node H.nextOK (H.headOK _ h hc')
    rw [hl']
    exact BinX.Walk.start p.key
  | findEnd => exact ⟨hw, fun i hi => by cases hi⟩
  | @findHit tab h pred c n hn hk =>
    exact ⟨hw, fun i hi => by cases hi; rw [BinX.nodeAt_of_some (heap_get_mem hn)]; exact ⟨hk, rfl⟩⟩
  | @findNext tab h pred c n hn hk =>
    show BinX.Walk _ _ _ _ _
    have hC := H.isChain (BinX.cellId (cT tab) p.key)
    unfold BinX.chId at hC
    rw [← BinX.cellOf_eq] at hC
    exact BinX.Walk.next hC hw (heap_get_mem hn) hk
  | rTable => trivial
  | rCellMoved _ => trivial
  | rCellNode _ => trivial
  | rNext _ _ => trivial
  | wTable => trivial
  | wCellEmpty _ _ => trivial
  | wCellMoved _ => trivial
  | wCellNode _ => trivial
  | casFail => trivial
  | checkFail _ => trivial

theorem Move.vcell {s : State} {p : Pending} {pc pc' : Pc} {call : Option Pending} (hm : Move s p pc pc')
    (hc : call = some p) {id : CellId} {h : Nat} (hv : vcell ⟨pc', call⟩ = some (id, h)) :
    vcell ⟨pc, call⟩ = some (id, h) ∨ (BinX.getCell (mem s) id = .node h) := by
  subst hc
  cases hm with
  | @checkOk tab h' hcell =>
    right
    simp only [BinXC.vcell, Option.some.injEq, Prod.mk.injEq] at hv
    obtain ⟨rfl, rfl⟩ := hv
    rw [← BinX.cellOf_eq, cellOf_mem, hcell]; rfl
  | findEnd => left; exact hv
  | findHit _ _ => left; exact hv
  | findNext _ _ => left; exact hv
  | rTable => cases hv
  | rCellMoved _ => cases hv
  | rCellNode _ => cases hv
  | rNext _ _ => cases hv
  | wTable => cases hv
  | wCellEmpty _ _ => cases hv
  | wCellMoved _ => cases hv
  | wCellNode _ => cases hv
  | casFail => cases hv
  | checkFail _ => cases hv

theorem CMove.vcell {s : State} {pc pc' : Pc} {call : Option Pending} (hm : CMove s pc pc')
    {id : CellId} {h : Nat} (hv : vcell ⟨pc', call⟩ = some (id, h)) :
    BinX.getCell (mem s) id = .node h := by
  cases hm with
  | @checkOk tab idx h' hcell =>
    simp only [BinXC.vcell, Option.some.injEq, Prod.mk.injEq] at hv
    obtain ⟨rfl, rfl⟩ := hv
    rw [cellAt_mem, hcell]; rfl
  | table => cases call <;> cases hv
  | cellMoved _ _ => cases call <;> cases hv
  | cellNode _ _ => cases call <;> cases hv
  | waitGo _ => cases call <;> cases hv
  | waitStay _ => cases call <;> cases hv
  | checkFail _ => cases call <;> cases hv

theorem CMove.walk {s : State} {m : BinX.State} {p : Pending} {pc pc' : Pc} (hm : CMove s pc pc') : WalkOK m p pc' := by
  cases hm <;> trivial

/-- the lock words of the nodes held by other threads do not change: transitions that keep all lock words -/
theorem lock_frame_quiet {s : State} {m' : BinX.State} {g : Ghost} {t : Nat} (I : Inv s g)
    (hq : ∀ j, j < (mem s).heap.length → (BinX.nodeAt m'.heap j).lock = (BinX.nodeAt (mem s).heap j).lock) :
    ∀ (t1 : Nat) (l1 : Local) (h1 : Nat), t1 ≠ t → s.threads[t1]? = some l1 → Holds l1.pc h1 →
      (BinX.nodeAt m'.heap h1).lock = (BinX.nodeAt (mem s).heap h1).lock := by
  intro t1 l1 h1 _ hl1 hh
  exact hq h1 (I.lock.lockHeld t1 l1 h1 hl1 hh).1

/-- ... and lock / unlock of a node that is free or held by the stepping thread -/
theorem lock_frame_mod {s : State} {m' : BinX.State} {g : Ghost} {t : Nat} (I : Inv s g) {i : Nat} {x : Option Nat}
    (hh : m'.heap = (mem s).heap.modify i (fun m => { m with lock := x }))
    (hx : (BinX.nodeAt (mem s).heap i).lock = none ∨ (BinX.nodeAt (mem s).heap i).lock = some t) :
    ∀ (t1 : Nat) (l1 : Local) (h1 : Nat), t1 ≠ t → s.threads[t1]? = some l1 → Holds l1.pc h1 →
      (BinX.nodeAt m'.heap h1).lock = (BinX.nodeAt (mem s).heap h1).lock := by
  intro t1 l1 h1 hne hl1 hh1
  obtain ⟨hlt, hmine⟩ := I.lock.lockHeld t1 l1 h1 hl1 hh1
  rw [hh, BinX.nodeAt_modify]
  split
  · rename_i hc
    obtain ⟨rfl, _⟩ := hc
    rcases hx with h2 | h2
    · rw [hmine] at h2; cases h2
    · rw [hmine] at h2; cases h2; exact absurd rfl hne
  · rfl

/-- retired nodes stay dead (transitions that retire nothing) -/
theorem rinv_same {s s' : State} {g g' : Ghost} {v : Option (CellId × Nat)} (I : Inv s g)
    (m : MemStep (mem s) (mem s') v g g') (hret : s'.retired = s.retired) : RInv s' g' := by
  refine ⟨?_⟩
  intro i hi
  rw [hret] at hi
  obtain ⟨h1, h2⟩ := I.ret.dead i hi
  have h1' : i < (mem s).heap.length := by simpa using h1
  have hlen := m.len_le I.heap
  exact ⟨by have : (mem s').heap.length = s'.heap.length := by simp
            omega, m.dead I.heap i h1' h2⟩

/-- assembling the invariant after a transition -/
theorem inv_step {s s' : State} {g g' : Ghost} {t : Nat} {l l' : Local} (I : Inv s g)
    (hl : s.threads[t]? = some l) (m : MemStep (mem s) (mem s') (vcell l) g g')
    (hthr : s'.threads = s.threads.set t l') (T' : TInv s') (R' : RInv s' g')
    (hres : s'.resizing = s.resizing ∨ (s'.resizing = true ∧ s.resizing = false))
    (hlT : isT l.pc ∨ WStep (mem s) (mem s') g g')
    (hself : PcPh (mem s') g' l'.pc)
    (hT : isT l'.pc → isT l.pc ∨ s.resizing = false)
    (hresz : isT l'.pc → s'.resizing = true)
    (hmid : ∀ lo hg, g'.ph = .mid lo hg → (isMidPc l.pc ∨ g.ph ≠ g'.ph) → isMidPc l'.pc)
    (hlock : ∀ (t1 : Nat) (l1 : Local) (h1 : Nat), t1 ≠ t → s.threads[t1]? = some l1 → Holds l1.pc h1 →
      (BinX.nodeAt (mem s').heap h1).lock = (BinX.nodeAt (mem s).heap h1).lock)
    (hselfH : ∀ h, Holds l'.pc h → h < (mem s').heap.length ∧ (BinX.nodeAt (mem s').heap h).lock = some t)
    (hselfV : ∀ id h, vcell l' = some (id, h) → BinX.getCell (mem s') id = .node h ∧ Holds l'.pc h)
    (hselfW : ∀ p, l'.call = some p → WalkOK (mem s') p l'.pc) : MemStep (mem s) (mem s') (vcell l) g g' ∧ Inv s' g' :=
  ⟨m, m.hinv I.heap, T', pinv_step I hl m hthr hres hlT hself hT hresz hmid,
    linv_step I hl m hthr hlock hselfH hselfV, winv_step I hl m hthr hselfW, R', m.newCells I.heap I.nm⟩

theorem PcPh.cells {s s' : BinX.State} {g : Ghost} {pc : Pc} (hp : PcPh s g pc)
    (hL : s'.lowCell = s.lowCell) (hH : s'.highCell = s.highCell) : PcPh s' g pc := by
  cases pc <;> first | exact hp | skip
  · obtain ⟨h1, h2, h3⟩ := hp; exact ⟨h1, by rw [hL]; exact h2, by rw [hH]; exact h3⟩
  · obtain ⟨lo, h1, h2, h3⟩ := hp; exact ⟨lo, h1, by rw [hL]; exact h2, by rw [hH]; exact h3⟩
  · obtain ⟨lo, hg, h1, h2, h3⟩ := hp; exact ⟨lo, hg, h1, by rw [hL]; exact h2, by rw [hH]; exact h3⟩

/-- obligations of a transition that does not touch the memory -/
theorem inv_same {s s' : State} {g : Ghost} {t : Nat} {l l' : Local} (I : Inv s g)
    (hl : s.threads[t]? = some l)
    (hh : (mem s').heap = (mem s).heap) (h0 : (mem s').cell0 = (mem s).cell0) (hL : (mem s').lowCell = (mem s).lowCell)
    (hH : (mem s').highCell = (mem s).highCell) (hc : (mem s').cur = (mem s).cur) (hret : s'.retired = s.retired)
    (hthr : s'.threads = s.threads.set t l') (T' : TInv s')
    (hres : s'.resizing = s.resizing ∨ (s'.resizing = true ∧ s.resizing = false))
    (hself : PcPh (mem s) g l'.pc)
    (hT : isT l'.pc → isT l.pc ∨ s.resizing = false)
    (hresz : isT l'.pc → s'.resizing = true)
    (hmid : isMidPc l.pc → isMidPc l'.pc)
    (hselfH : ∀ h, Holds l'.pc h → Holds l.pc h)
    (hselfV : ∀ id h, vcell l' = some (id, h) → (vcell l = some (id, h) ∨ BinX.getCell (mem s) id = .node h) ∧ Holds l'.pc h)
    (hselfW : ∀ p, l'.call = some p → WalkOK (mem s) p l'.pc) : MemStep (mem s) (mem s') (vcell l) g g ∧ Inv s' g := by
  have hcell : ∀ id, BinX.getCell (mem s') id = BinX.getCell (mem s) id := by
    intro id; cases id <;> assumption
  refine inv_step I hl (.same hh h0 hL hH hc) hthr T' (rinv_same (v := vcell l) I (.same hh h0 hL hH hc) hret) hres (Or.inr (.of_same hL hH)) (hself.cells hL hH) hT hresz ?_
    (lock_frame_quiet I (fun j _ => by rw [hh])) ?_ ?_ ?_
  · intro lo hg _ hm
    rcases hm with hm | hm
    · exact hmid hm
    · exact absurd rfl hm
  · intro h hh'
    obtain ⟨h1, h2⟩ := I.lock.lockHeld t l h hl (hselfH h hh')
    exact ⟨by rw [hh]; exact h1, by rw [hh]; exact h2⟩
  · intro id h hv
    obtain ⟨h1, h2⟩ := hselfV id h hv
    refine ⟨?_, h2⟩
    rw [hcell]
    rcases h1 with h1 | h1
    · exact (I.lock.validated t l id h hl h1).1
    · exact h1
  · intro p hp
    refine (hselfW p hp).congr ?_
    intro tab _
    rw [BinX.cellOf_eq, BinX.cellOf_eq, hcell, hh]
    exact ⟨rfl, rfl, fun j _ => ⟨rfl, rfl⟩⟩

/-! ## the memory-changing transitions on the projected memory -/

theorem nodeAt_mem_of_some {s : State} {h : Nat} {n : NodeS} (hn : s.heap[h]? = some n) :
    BinX.nodeAt (mem s).heap h = cN n := BinX.nodeAt_of_some (heap_get_mem hn)

theorem mem_lock_heap (s : State) (h : Nat) (x : Option Nat) :
    (mem (setNode s h (fun m => { m with lock := x }))).heap = (mem s).heap.modify h (fun m => { m with lock := x }) := by
  rw [mem_setNode_lock]; rfl

theorem mem_retireHit (s : State) (op : KOp) (hit : Option Nat) : mem (retireHit s op hit) = mem s := by
  unfold retireHit; split <;> rfl

theorem retireHit_frame (s : State) (op : KOp) (hit : Option Nat) :
    (retireHit s op hit).threads = s.threads ∧ (retireHit s op hit).hist = s.hist ∧
    (retireHit s op hit).now = s.now ∧ (retireHit s op hit).resizing = s.resizing := by
  unfold retireHit; split <;> exact ⟨rfl, rfl, rfl, rfl⟩

theorem retireHit_retired (s : State) (op : KOp) (hit : Option Nat) :
    (retireHit s op hit).retired = s.retired ∨
    ∃ i, hit = some i ∧ (op = .rm ∨ op = .cipRm) ∧ (retireHit s op hit).retired = i :: s.retired := by
  unfold retireHit
  split
  · exact Or.inr ⟨_, rfl, Or.inl rfl, rfl⟩
  · exact Or.inr ⟨_, rfl, Or.inr rfl, rfl⟩
  · exact Or.inl rfl

/-- the successful CAS into an empty cell -/
theorem cas_mem {s : State} {g : Ghost} (I : Inv s g) {t : Nat} {l : Local} {p : Pending} {tab : Tab} {v vi : Nat}
    (hl : s.threads[t]? = some l) (hpc : l.pc = .wCas tab) (hc : cellOf s tab p.key = .empty) :
    Active g (BinX.cellId (cT tab) p.key) ∧
    BinX.Effect (mem s) (mem (finish (setCell { tick s with heap := s.heap ++ [⟨p.key, (v, vi), none, none⟩] } tab p.key
      (.node s.heap.length)) t p .none)) g (BinX.cellId (cT tab) p.key) ∧
    (∀ k, BinX.absOf (mem (finish (setCell { tick s with heap := s.heap ++ [⟨p.key, (v, vi), none, none⟩] } tab p.key
      (.node s.heap.length)) t p .none)) k = if p.key = k then some (v, vi) else BinX.absOf (mem s) k) ∧
    BinX.getCell (mem s) (BinX.cellId (cT tab) p.key) = .empty := by
  have hc' : BinX.getCell (mem s) (BinX.cellId (cT tab) p.key) = .empty := by
    rw [← BinX.cellOf_eq, cellOf_mem, hc]; rfl
  have act := I.active_of_empty (k := p.key) hl (by rw [hpc]; exact id) (by rw [hpc]; rfl) hc'
  have hms : mem (finish (setCell { tick s with heap := s.heap ++ [⟨p.key, (v, vi), none, none⟩] } tab p.key
      (.node s.heap.length)) t p .none) =
      BinX.setCell { BinX.tick (mem s) with heap := (mem s).heap ++ [⟨p.key, (v, vi), none, none⟩] } (cT tab) p.key
        (.node (mem s).heap.length) := by
    rw [mem_finish, mem_setCell]
    have : mem { tick s with heap := s.heap ++ [⟨p.key, (v, vi), none, none⟩] } =
        { BinX.tick (mem s) with heap := (mem s).heap ++ [⟨p.key, (v, vi), none, none⟩] } := by
      simp [mem, tick, BinX.tick, cN]
    rw [this]
    simp [cC]
  rw [hms]
  obtain ⟨f1, f2, f3, f4, f5, f6⟩ := BinX.setCell_frame { BinX.tick (mem s) with heap := (mem s).heap ++ [⟨p.key, (v, vi), none, none⟩] }
    (cT tab) p.key (.node (mem s).heap.length)
  obtain ⟨he, habs⟩ := BinX.cas_effect (s := mem s) (s' := BinX.setCell { BinX.tick (mem s) with heap := (mem s).heap ++ [⟨p.key, (v, vi), none, none⟩] } (cT tab) p.key
      (.node (mem s).heap.length)) (new := ⟨p.key, (v, vi), none, none⟩) I.heap act hc' rfl
      (BinX.keyOn_cellId (cT tab) p.key) f1 (by
        intro id'
        have := BinX.getCell_setCell { BinX.tick (mem s) with heap := (mem s).heap ++ [⟨p.key, (v, vi), none, none⟩] } (cT tab) p.key
          (.node (mem s).heap.length) id'
        have e2 : BinX.getCell { BinX.tick (mem s) with heap := (mem s).heap ++ [⟨p.key, (v, vi), none, none⟩] } id' = BinX.getCell (mem s) id' := by
          cases id' <;> rfl
        rw [e2] at this
        exact this) f5
  exact ⟨act, he, habs, hc'⟩

/-- the store of a validated writer -/
theorem store_mem {s : State} {g : Ghost} (I : Inv s g) {t : Nat} {l : Local} {p : Pending} {tab : Tab}
    {h : Nat} {pred hit hnext : Option Nat} (hl : s.threads[t]? = some l) (hp : l.call = some p)
    (hpc : l.pc = .wStore tab h pred hit hnext) {l' : Local} :
    Active g (BinX.cellId (cT tab) p.key) ∧
    BinX.Effect (mem s) (mem (setT (retireHit (storeAt (tick s) tab p pred hit hnext).1 p.op hit) t l')) g
      (BinX.cellId (cT tab) p.key) ∧
    specStep (BinX.absOf (mem s) p.key) p.op =
      (BinX.absOf (mem (setT (retireHit (storeAt (tick s) tab p pred hit hnext).1 p.op hit) t l')) p.key,
        (storeAt (tick s) tab p pred hit hnext).2) ∧
    (∀ k, k ≠ p.key → BinX.absOf (mem (setT (retireHit (storeAt (tick s) tab p pred hit hnext).1 p.op hit) t l')) k =
      BinX.absOf (mem s) k) ∧
    RInv (setT (retireHit (storeAt (tick s) tab p pred hit hnext).1 p.op hit) t l') g := by
  obtain ⟨act, he, -, -, -, -, hspec, hother⟩ := I.store_ok hl hp hpc
  obtain ⟨hm1, hm2⟩ := storeAt_mem (tick s) tab p pred hit hnext
  have hms : mem (setT (retireHit (storeAt (tick s) tab p pred hit hnext).1 p.op hit) t l') =
      (BinX.storeAt (BinX.tick (mem s)) (cT tab) (cP p) pred hit hnext).1 := by
    rw [mem_setT, mem_retireHit, hm1, mem_tick]
  have hat : ∀ k, BinX.absOf (BinX.tick (mem s)) k = BinX.absOf (mem s) k := BinX.absOf_congr rfl rfl rfl rfl rfl
  have he' : BinX.Effect (mem s) (mem (setT (retireHit (storeAt (tick s) tab p pred hit hnext).1 p.op hit) t l')) g
      (BinX.cellId (cT tab) p.key) := by
    rw [hms]; exact he.of_tick
  have hspec' : specStep (BinX.absOf (mem s) p.key) p.op =
      (BinX.absOf (mem (setT (retireHit (storeAt (tick s) tab p pred hit hnext).1 p.op hit) t l')) p.key,
        (storeAt (tick s) tab p pred hit hnext).2) := by
    rw [hms, hm2, mem_tick, ← hat]; exact hspec
  refine ⟨act, he', hspec', ?_, ?_⟩
  · intro k hk
    rw [hms, ← hat]; exact hother k hk
  · -- retired nodes are dead
    obtain ⟨C', u, hs, -⟩ := he'
    have H' := BinX.hinv_update I.heap act u
    have mstep : MemStep (mem s) (mem (setT (retireHit (storeAt (tick s) tab p pred hit hnext).1 p.op hit) t l'))
        (vcell l) g g := .upd _ act ⟨C', u, hs, by
          obtain ⟨_, _, _, hlk⟩ := he.of_tick
          rw [hms]; exact hlk⟩ (Or.inr ⟨h, vcell_wStore hp hpc⟩)
    obtain ⟨-, -, -, -, hr⟩ := storeAt_frame (tick s) tab p pred hit hnext
    rcases retireHit_retired (storeAt (tick s) tab p pred hit hnext).1 p.op hit with hret | ⟨i, rfl, hop, hret⟩
    · exact rinv_same I mstep (by show (retireHit _ p.op hit).retired = _; rw [hret, hr]; rfl)
    · have hold := rinv_same (s' := setT (storeAt (tick s) tab p pred (some i) hnext).1 t l') I
        (by rw [show mem (setT (storeAt (tick s) tab p pred (some i) hnext).1 t l') =
            mem (setT (retireHit (storeAt (tick s) tab p pred (some i) hnext).1 p.op (some i)) t l') from by
              rw [mem_setT, mem_setT, mem_retireHit]]
            exact mstep) (by show (storeAt (tick s) tab p pred (some i) hnext).1.retired = _; rw [hr]; rfl)
      refine ⟨?_⟩
      intro j hj
      have hj' : j ∈ i :: (storeAt (tick s) tab p pred (some i) hnext).1.retired := by
        have : (setT (retireHit (storeAt (tick s) tab p pred (some i) hnext).1 p.op (some i)) t l').retired =
            i :: (storeAt (tick s) tab p pred (some i) hnext).1.retired := hret
        rw [this] at hj; exact hj
      rcases List.mem_cons.1 hj' with rfl | hj'
      · -- the unlinked node
        have hw := I.walk.walk t l p hl hp
        rw [hpc] at hw
        have hmemC : j ∈ BinX.chId (mem s) (BinX.cellId (cT tab) p.key) := by
          have := hw.1.cur_mem
          rw [BinX.cellOf_eq] at this
          exact this
        have hkey : (BinX.nodeAt (mem s).heap j).key = p.key := (hw.2 j rfl).1
        have hjl := I.heap.chain_lt hmemC
        have hlc : j ∈ BinX.LC (mem s) p.key := by
          rw [I.heap.LC_eq, I.heap.liveId_of_active act (BinX.keyOn_cellId _ _)]; exact hmemC
        have hnone : BinX.absOf (mem (setT (retireHit (storeAt (tick s) tab p pred (some j) hnext).1 p.op (some j)) t l')) p.key = none := by
          have hfst : (specStep (BinX.absOf (mem s) p.key) p.op).1 = none := by
            rcases hop with hop | hop <;> (rw [hop]; rfl)
          have := congrArg Prod.fst hspec'
          rw [hfst] at this
          exact this.symm
        have hnot : j ∉ BinX.LC (mem (setT (retireHit (storeAt (tick s) tab p pred (some j) hnext).1 p.op (some j)) t l')) p.key := by
          intro hin
          have := (H'.absOf_none_iff.1 hnone) j hin
          rw [hs.key j hjl] at this
          exact this hkey
        have hlen := hs.len
        refine ⟨?_, (hs.unl p.key j hlc hnot).2.2.1⟩
        have e1 : (mem s).heap.length = s.heap.length := by simp
        have e2 : (mem (setT (retireHit (storeAt (tick s) tab p pred (some j) hnext).1 p.op (some j)) t l')).heap.length =
            (setT (retireHit (storeAt (tick s) tab p pred (some j) hnext).1 p.op (some j)) t l').heap.length := by simp
        omega
      · have := hold.dead j hj'
        have e : mem (setT (storeAt (tick s) tab p pred (some i) hnext).1 t l') =
            mem (setT (retireHit (storeAt (tick s) tab p pred (some i) hnext).1 p.op (some i)) t l') := by
          rw [mem_setT, mem_setT, mem_retireHit]
        rw [e] at this
        refine ⟨?_, this.2⟩
        have h1 := this.1
        have e3 : (setT (retireHit (storeAt (tick s) tab p pred (some i) hnext).1 p.op (some i)) t l').heap =
            (setT (storeAt (tick s) tab p pred (some i) hnext).1 t l').heap := by
          show (retireHit _ _ _).heap = _
          unfold retireHit; split <;> rfl
        rw [e3]; exact h1

theorem chId_mem_node {s : State} {id : CellId} {h : Nat} (hc : BinX.getCell (mem s) id = .node h) :
    BinX.chId (mem s) id = chainFrom s.heap s.heap.length (some h) := by
  unfold BinX.chId BinX.chainH
  rw [hc, mem_heap, List.length_map, chainFrom_map]
  rfl

/-- the store of `clear`: the cell becomes empty, its chain is retired -/
theorem cstore_mem {s : State} {g : Ghost} (I : Inv s g) {t : Nat} {l : Local} {tab : Tab} {idx h : Nat}
    (hl : s.threads[t]? = some l) (hpc : l.pc = .cStore tab idx h) {l' : Local} :
    Active g (cellIdAt tab idx) ∧
    MemStep (mem s) (mem (setT { setCellAt (tick s) tab idx .empty with
      retired := chainFrom s.heap s.heap.length (some h) ++ (setCellAt (tick s) tab idx .empty).retired } t l'))
      (vcell l) g g ∧
    (∀ k, BinX.absOf (mem (setT { setCellAt (tick s) tab idx .empty with
      retired := chainFrom s.heap s.heap.length (some h) ++ (setCellAt (tick s) tab idx .empty).retired } t l')) k =
      if BinX.liveId (mem s) k = cellIdAt tab idx then none else BinX.absOf (mem s) k) ∧
    RInv (setT { setCellAt (tick s) tab idx .empty with
      retired := chainFrom s.heap s.heap.length (some h) ++ (setCellAt (tick s) tab idx .empty).retired } t l') g := by
  have hv := vcell_cStore hpc
  have act := I.active_of_vcell hl hv (by rw [hpc]; exact id)
  obtain ⟨hc, -⟩ := I.lock.validated t l _ h hl hv
  have hms : mem (setT { setCellAt (tick s) tab idx .empty with
      retired := chainFrom s.heap s.heap.length (some h) ++ (setCellAt (tick s) tab idx .empty).retired } t l') =
      BinX.putCell (BinX.tick (mem s)) (cellIdAt tab idx) .empty := by
    show mem (setCellAt (tick s) tab idx .empty) = _
    rw [mem_setCellAt, mem_tick]; rfl
  obtain ⟨f1, -, -, -, f5, -⟩ := BinX.putCell_frame (BinX.tick (mem s)) (cellIdAt tab idx) .empty
  obtain ⟨u, habs⟩ := BinX.clear_update (s := mem s) (s' := BinX.putCell (BinX.tick (mem s)) (cellIdAt tab idx) .empty)
    I.heap act f1 (by
      intro id'
      rw [BinX.getCell_putCell, BinX.getCell_tick]) f5
  have mstep : MemStep (mem s) (BinX.putCell (BinX.tick (mem s)) (cellIdAt tab idx) .empty) (vcell l) g g :=
    .clear _ h act u f1 hv
  rw [hms]
  refine ⟨act, mstep, habs, ⟨?_⟩⟩
  intro j hj
  have hret : (setT { setCellAt (tick s) tab idx .empty with
      retired := chainFrom s.heap s.heap.length (some h) ++ (setCellAt (tick s) tab idx .empty).retired } t l').retired =
      chainFrom s.heap s.heap.length (some h) ++ s.retired := by
    show _ ++ (setCellAt (tick s) tab idx .empty).retired = _
    rw [(setCellAt_frame (tick s) tab idx .empty).2.2.2.2.2]; rfl
  have hheap : (setT { setCellAt (tick s) tab idx .empty with
      retired := chainFrom s.heap s.heap.length (some h) ++ (setCellAt (tick s) tab idx .empty).retired } t l').heap = s.heap := by
    show (setCellAt (tick s) tab idx .empty).heap = _
    rw [(setCellAt_frame (tick s) tab idx .empty).1]; rfl
  rw [hret] at hj
  rw [hheap, hms]
  rcases List.mem_append.1 hj with hj | hj
  · rw [← chId_mem_node hc] at hj
    have hlt := I.heap.chain_lt hj
    exact ⟨by simpa using hlt, fun hl => (u.live_of_cleared I.heap act hl).2 hj⟩
  · obtain ⟨h1, h2⟩ := I.ret.dead j hj
    exact ⟨h1, mstep.dead I.heap j (by simpa using h1) h2⟩

/-- the forwarding retires the copied nodes: they are dead -/
theorem moved_rinv {s : State} {g : Ghost} (I : Inv s g) {h : Nat} {lo hg : Option Nat} {s' : State}
    (hp : g.ph = .mid lo hg) (hc0 : (mem s).cell0 = .node h)
    (hlow : (mem s).lowCell = BinX.cellOfHead lo) (hhigh : (mem s).highCell = BinX.cellOfHead hg)
    (m : MemStep (mem s) (mem s') (some (.c0, h)) g ⟨.post, g.cr⟩)
    (hh : (mem s').heap = (mem s).heap) (h0 : (mem s').cell0 = .moved) (hL : (mem s').lowCell = (mem s).lowCell)
    (hH : (mem s').highCell = (mem s).highCell) (hheap : s'.heap = s.heap)
    (hret : s'.retired = copiedOf s h ++ s.retired) : RInv s' ⟨.post, g.cr⟩ := by
  refine ⟨?_⟩
  intro j hj
  rw [hret] at hj
  rw [hheap]
  have hO : BinX.chO (mem s) = chainFrom s.heap s.heap.length (some h) := chId_mem_node (id := .c0) hc0
  rcases List.mem_append.1 hj with hj | hj
  · have hj' : j ∈ (BinX.chO (mem s)).take (BinX.lastRunStart (mem s).heap (BinX.chO (mem s))) := by
      rw [hO, mem_heap, lastRunStart_mem]; exact hj
    obtain ⟨n1, n2⟩ := BinX.copied_dead I.heap hp hlow hhigh hj'
    have hlt : j < (mem s).heap.length := I.heap.chain_lt (id := .c0) (List.mem_of_mem_take hj')
    refine ⟨by simpa using hlt, ?_⟩
    intro hl
    rcases BinX.live_of_moved hh h0 hL hH hl with h | h
    · exact n1 h
    · exact n2 h
  · obtain ⟨h1, h2⟩ := I.ret.dead j hj
    exact ⟨h1, m.dead I.heap j (by simpa using h1) h2⟩

theorem isMidPc_isT {pc : Pc} (h : isMidPc pc) : isT pc := by
  cases pc <;> first | trivial | exact False.elim h

theorem PcPh.of_tab {s s' : BinX.State} {g g' : Ghost} {pc pc' : Pc} (hp : PcPh s g pc) (hT : ¬ isT pc) (hT' : ¬ isT pc')
    (htab : tabOf pc' = tabOf pc) (hmono : g.ph = .post → g'.ph = .post) : PcPh s' g' pc' := by
  have h1 : tabOf pc = some .new → g.ph = .post := by
    cases pc <;> first | exact absurd trivial hT | exact hp
  cases pc' <;> first | exact absurd trivial hT' | exact fun ht => hmono (h1 (htab ▸ ht))

theorem PcPh.idle (s : BinX.State) (g : Ghost) : PcPh s g .idle := fun h => by cases h

theorem invoke_pc (op : KOp) :
    (if isReader op then Pc.rTable else Pc.wTable) = .rTable ∨ (if isReader op then Pc.rTable else Pc.wTable) = .wTable := by
  cases isReader op
  · right; rfl
  · left; rfl

theorem tinv_of_frame {s s1 s' : State} (T : TInv s1) (h1 : s1.threads = s.threads) (h2 : s1.hist = s.hist)
    (h3 : s1.now = s.now) (hs' : s'.threads = s.threads ∧ s'.hist = s.hist ∧ s'.now = s.now) : TInv s' := by
  obtain ⟨e1, e2, e3⟩ := hs'
  exact ⟨by rw [e1, ← h1]; exact T.opOK, by rw [e1, ← h1]; exact T.callOK, by rw [e2, e3, ← h2, ← h3]; exact T.histTime,
    by rw [e1, e3, ← h1, ← h3]; exact T.pendTime, by rw [e1, e2, ← h1, ← h2]; exact T.uniqHP,
    by rw [e1, ← h1]; exact T.uniqPP, by rw [e2, ← h2]; exact T.uniqHH⟩

/-- **every transition preserves the structural invariant** -/
theorem stepK_inv {s s' : State} {g : Ghost} {t : Nat} {l : Local} (I : Inv s g)
    (hl : s.threads[t]? = some l) (hk : StepK s t l s') : ∃ g', MemStep (mem s) (mem s') (vcell l) g g' ∧ Inv s' g' := by
  have T := I.thr
  have H := I.heap
  cases hk with
  | idle hpc =>
    refine ⟨g, inv_same I hl rfl rfl rfl rfl rfl rfl rfl
      (tinv_keep T hl rfl rfl rfl rfl (fun p hp => T.opOK t l p hl hp) Iff.rfl) (Or.inl rfl)
      (I.ph.pcPh t l hl) (fun h => Or.inl h) (fun h => I.ph.resz t l hl h) id (fun h hh => hh)
      (fun id h hv => ⟨Or.inl hv, vcell_holds hv⟩) (fun p hp => I.walk.walk t l p hl hp)⟩
  | invoke k op hpc =>
    have hcases := invoke_pc op
    refine ⟨g, inv_same (l' := { pc := if isReader op then .rTable else .wTable, call := some ⟨k, op, s.now + 1⟩ })
      I hl rfl rfl rfl rfl rfl rfl rfl
      (tinv_invoke T hl rfl rfl rfl rfl ?_ ?_) (Or.inl rfl) ?_ ?_ ?_ ?_ ?_ ?_ ?_⟩
    · cases hr : isReader op <;> simp [PcOp, hr]
    · rcases hcases with h | h <;> (show isOp (if isReader op then Pc.rTable else Pc.wTable); rw [h]; trivial)
    · show PcPh (mem s) g (if isReader op then Pc.rTable else Pc.wTable)
      rcases hcases with h | h <;> (rw [h]; intro ht; cases ht)
    · intro hT; exfalso; revert hT
      show ¬ isT (if isReader op then Pc.rTable else Pc.wTable)
      rcases hcases with h | h <;> (rw [h]; exact id)
    · intro hT; exfalso; revert hT
      show ¬ isT (if isReader op then Pc.rTable else Pc.wTable)
      rcases hcases with h | h <;> (rw [h]; exact id)
    · intro hm; rw [hpc] at hm; exact False.elim hm
    · intro h hh; exfalso; revert hh
      show ¬ Holds (if isReader op then Pc.rTable else Pc.wTable) h
      rcases hcases with h' | h' <;> (rw [h']; exact id)
    · intro id h hv; exfalso; revert hv
      show vcell ⟨if isReader op then Pc.rTable else Pc.wTable, _⟩ = some (id, h) → False
      rcases hcases with h' | h' <;> (rw [h']; intro hv; cases hv)
    · intro p _
      show WalkOK (mem s) p (if isReader op then Pc.rTable else Pc.wTable)
      rcases hcases with h' | h' <;> (rw [h']; trivial)
  | clearStart hpc =>
    refine ⟨g, inv_same (l' := { pc := .cTable, call := some ⟨0, .cipRm, s.now + 1⟩ })
      I hl rfl rfl rfl rfl rfl rfl rfl
      (tinv_invoke T hl rfl rfl rfl rfl rfl trivial) (Or.inl rfl) (fun ht => by cases ht) (fun h => False.elim h)
      (fun h => False.elim h) (by intro hm; rw [hpc] at hm; exact False.elim hm) (fun h hh => False.elim hh)
      (fun id h hv => by cases hv) (fun p _ => trivial)⟩
  | cmove p pc' hp hm =>
    obtain ⟨o1, o2, o3, o4, o5, o6⟩ := hm.isOp
    refine ⟨g, inv_same (l' := { l with pc := pc' }) I hl rfl rfl rfl rfl rfl rfl rfl
      (tinv_keep T hl rfl rfl rfl rfl (fun p' hp' => hm.pcOp (T.opOK t l p' hl hp'))
        ⟨fun _ => o2, fun _ => o1⟩) (Or.inl rfl) (hm.pcPh H (I.ph.pcPh t l hl))
      (fun h => absurd h o4) (fun h => absurd h o4) (fun h => absurd (isMidPc_isT h) o3)
      (fun h hh => hm.holds hh) ?_ (fun p' _ => hm.walk)⟩
    intro id h hv
    obtain ⟨pc, call⟩ := l
    simp only at hp hm hv
    exact ⟨Or.inr (hm.vcell hv), vcell_holds hv⟩
  | cEmpty p tab idx hp hpc hi hc =>
    have hph := I.ph.pcPh t l hl
    rw [hpc] at hph
    refine ⟨g, inv_same (l' := { l with pc := .cCell tab (idx + 1) }) I hl rfl rfl rfl rfl rfl rfl rfl
      (tinv_keep T hl rfl rfl rfl rfl (fun p' hp' => by have := T.opOK t l p' hl hp'; rw [hpc] at this; exact this)
        (by rw [hpc]; exact ⟨fun _ => trivial, fun _ => trivial⟩)) (Or.inl rfl) (hph.of_tab id id rfl id)
      (fun h => False.elim h) (fun h => False.elim h) (by intro hm; rw [hpc] at hm; exact False.elim hm)
      (fun h hh => False.elim hh) (fun id h hv => by cases hq : l.call <;> (simp only [vcell] at hv; cases hv))
      (fun p' _ => trivial)⟩
  | cFin p tab idx hp hpc hi =>
    refine ⟨g, inv_same (l' := { pc := .idle, call := none }) I hl rfl rfl rfl rfl rfl rfl rfl
      (tinv_finish (ko := none) (op := .cipRm) (res := .none) T hl hp rfl rfl rfl rfl id) (Or.inl rfl)
      (PcPh.idle _ g) (fun h => False.elim h)
      (fun h => False.elim h) (by intro hm; rw [hpc] at hm; exact False.elim hm) (fun h hh => False.elim hh)
      (fun id h hv => by cases hv) (fun p' hp' => by cases hp')⟩
  | cStore p tab idx h hp hpc =>
    obtain ⟨act, mstep, -, R'⟩ := cstore_mem (l' := { l with pc := .cUnlock tab idx h false }) I hl hpc
    obtain ⟨f1, f2, f3, f4, f5, f6⟩ := setCellAt_frame (tick s) tab idx .empty
    obtain ⟨hlt, hmine⟩ := I.lock.lockHeld t l h hl (by rw [hpc]; rfl)
    have hheap : (mem (setT { setCellAt (tick s) tab idx .empty with
        retired := chainFrom s.heap s.heap.length (some h) ++ (setCellAt (tick s) tab idx .empty).retired } t
        { l with pc := .cUnlock tab idx h false })).heap = (mem s).heap := by
      show (mem (setCellAt (tick s) tab idx .empty)).heap = _
      rw [mem_setCellAt]; exact (BinX.putCell_frame _ _ _).1
    have hph := I.ph.pcPh t l hl
    rw [hpc] at hph
    refine ⟨g, inv_step (l' := { l with pc := .cUnlock tab idx h false }) I hl mstep
      (by show (setCellAt (tick s) tab idx .empty).threads.set t _ = _; rw [f2]; rfl)
      (tinv_keep (l' := { l with pc := .cUnlock tab idx h false }) T hl
        (by show (setCellAt (tick s) tab idx .empty).threads.set t _ = _; rw [f2]; rfl)
        (by show (setCellAt (tick s) tab idx .empty).now = _; rw [f4]; rfl)
        (by show (setCellAt (tick s) tab idx .empty).hist = _; rw [f3]; rfl) rfl
        (fun p' hp' => by have := T.opOK t l p' hl hp'; rw [hpc] at this; exact this)
        (by rw [hpc]; exact ⟨fun _ => trivial, fun _ => trivial⟩)) R'
      (Or.inl (by show (setCellAt (tick s) tab idx .empty).resizing = _; rw [f5]; rfl))
      (Or.inr (.of_active act)) (hph.of_tab id id rfl id) (fun h => False.elim h) (fun h => False.elim h)
      (fun lo hg hp' => absurd hp' (act.ne_mid lo hg))
      (lock_frame_quiet I (fun j _ => by rw [hheap])) ?_
      (fun id h hv => by cases hq : l.call <;> (simp only [vcell] at hv; cases hv)) (fun p' _ => trivial)⟩
    intro h' hh
    have : h = h' := hh
    subst this
    rw [hheap]
    exact ⟨hlt, hmine⟩
  | resize hpc hr =>
    refine ⟨g, inv_same (l' := { l with pc := .tCell }) I hl rfl rfl rfl rfl rfl rfl rfl
      (tinv_keep T hl rfl rfl rfl rfl (fun _ _ => trivial) (by rw [hpc]; exact ⟨fun h => h, fun h => h⟩))
      (Or.inr ⟨rfl, hr⟩) (I.ph.noResz hr) (fun _ => Or.inr hr) (fun _ => rfl)
      (by intro hm; rw [hpc] at hm; exact False.elim hm) (fun h hh => False.elim hh)
      (fun id h hv => by cases hv) (fun p _ => trivial)⟩
  | move p pc' hp hm =>
    obtain ⟨o1, o2, o3, o4⟩ := hm.isOp
    refine ⟨g, inv_same (l' := { l with pc := pc' }) I hl rfl rfl rfl rfl rfl rfl rfl
      (tinv_keep T hl rfl rfl rfl rfl (fun p' hp' => hm.pcOp (T.opOK t l p' hl hp'))
        ⟨fun _ => o2, fun _ => o1⟩) (Or.inl rfl) (hm.pcPh H (I.ph.pcPh t l hl))
      (fun h => absurd h o4) (fun h => absurd h o4) (fun h => absurd (isMidPc_isT h) o3)
      (fun h hh => hm.holds hh) ?_ ?_⟩
    · intro id h hv
      obtain ⟨pc, call⟩ := l
      simp only at hp hm hv
      exact ⟨hm.vcell hp hv, vcell_holds hv⟩
    · intro p' hp'
      simp only at hp'
      rw [hp] at hp'; cases hp'
      exact hm.walk H (I.walk.walk t l p hl hp)
  | tmove pc' hp hm =>
    obtain ⟨pc, call⟩ := l
    simp only at hp hm
    subst hp
    obtain ⟨o1, o2, o3, o4⟩ := hm.isT
    have hph := I.ph.pcPh t _ hl
    refine ⟨g, inv_same (l' := { pc := pc', call := none }) I hl rfl rfl rfl rfl rfl rfl rfl
      (tinv_keep T hl rfl rfl rfl rfl (fun p' hp' => by cases hp')
        ⟨fun h => absurd h o4, fun h => absurd h o3⟩) (Or.inl rfl) ?_
      (fun _ => Or.inl o1) (fun _ => I.ph.resz t _ hl o1) ?_ ?_ ?_ ?_⟩
    · cases hm with
      | cellEmpty _ => exact hph
      | cellNode _ => exact hph
      | cellMoved hc => exact absurd (show (mem s).cell0 = .moved by rw [mem_cell0, hc]; rfl) (H.pre hph).2.1
      | casFail _ => exact hph
      | checkOk _ => exact hph
    · intro hmid
      cases hm <;> exact False.elim hmid
    · intro h hh
      cases hm <;> first | exact False.elim hh | exact hh
    · intro id h hv
      cases hm with
      | cellEmpty _ => cases hv
      | cellNode _ => cases hv
      | cellMoved _ => cases hv
      | casFail _ => cases hv
      | @checkOk h' hc =>
        simp only [vcell, Option.some.injEq, Prod.mk.injEq] at hv
        obtain ⟨rfl, rfl⟩ := hv
        exact ⟨Or.inr (show (mem s).cell0 = .node h' by rw [mem_cell0, hc]; rfl), rfl⟩
    · intro p' hp'
      cases hp'
  | lockMove p h x pc' hp hm =>
    obtain ⟨pc, call⟩ := l
    simp only at hp hm
    subst hp
    have hph := I.ph.pcPh t _ hl
    have hheap : (mem (setT (setNode (tick s) h (fun m => { m with lock := x })) t { pc := pc', call := some p })).heap =
        (mem s).heap.modify h (fun m => { m with lock := x }) := mem_lock_heap (tick s) h x
    have hlen : ((mem s).heap.modify h (fun m => { m with lock := x })).length = (mem s).heap.length := List.length_modify ..
    have m : MemStep (mem s) (mem (setT (setNode (tick s) h (fun m => { m with lock := x })) t { pc := pc', call := some p }))
        (vcell ⟨pc, some p⟩) g g := .lock h x hheap rfl rfl rfl rfl
    refine ⟨g, inv_step (l' := { pc := pc', call := some p }) I hl m rfl
      (tinv_keep T hl rfl rfl rfl rfl ?_ ?_) (rinv_same I m rfl) (Or.inl rfl) (Or.inr (.of_same rfl rfl)) ?_ ?_ ?_ ?_ ?_ ?_ ?_ ?_⟩
    · intro p' hp'
      have := T.opOK t _ p' hl hp'
      cases hm with
      | lock _ _ => exact this
      | unlockRetry => exact this
      | cLock _ _ => exact this
      | cUnlock => exact this.1
    · cases hm <;> exact ⟨fun _ => trivial, fun _ => trivial⟩
    · cases hm <;> exact hph.of_tab id id rfl id
    · intro hT; cases hm <;> exact False.elim hT
    · intro hT; cases hm <;> exact False.elim hT
    · intro lo hg _ hmid
      rcases hmid with hmid | hmid
      · cases hm <;> exact False.elim hmid
      · exact absurd rfl hmid
    · cases hm with
      | lock hn hlk => exact lock_frame_mod I hheap (Or.inl (by rw [nodeAt_mem_of_some hn]; exact hlk))
      | cLock hn hlk => exact lock_frame_mod I hheap (Or.inl (by rw [nodeAt_mem_of_some hn]; exact hlk))
      | unlockRetry => exact lock_frame_mod I hheap (Or.inr (I.lock.lockHeld t _ h hl rfl).2)
      | cUnlock => exact lock_frame_mod I hheap (Or.inr (I.lock.lockHeld t _ h hl rfl).2)
    · intro h' hh
      have key : ∀ n, s.heap[h]? = some n → h = h' →
          h' < (mem (setT (setNode (tick s) h (fun m => { m with lock := x })) t { pc := pc', call := some p })).heap.length ∧
          (BinX.nodeAt (mem (setT (setNode (tick s) h (fun m => { m with lock := x })) t { pc := pc', call := some p })).heap h').lock = x := by
        intro n hn he
        subst he
        have hlt : h < (mem s).heap.length := by
          have := (List.getElem?_eq_some_iff.1 hn).1
          simpa using this
        refine ⟨by rw [hheap, hlen]; exact hlt, ?_⟩
        rw [hheap, BinX.nodeAt_modify, if_pos ⟨rfl, hlt⟩]
      cases hm with
      | lock hn hlk => exact key _ hn hh
      | cLock hn hlk => exact key _ hn hh
      | unlockRetry => exact False.elim hh
      | cUnlock => exact False.elim hh
    · intro id h' hv
      cases hm <;> cases hv
    · intro p' _
      cases hm <;> trivial
  | tlockMove h x pc' hp hm =>
    obtain ⟨pc, call⟩ := l
    simp only at hp hm
    subst hp
    have hph := I.ph.pcPh t _ hl
    have hheap : (mem (setT (setNode (tick s) h (fun m => { m with lock := x })) t { pc := pc', call := none })).heap =
        (mem s).heap.modify h (fun m => { m with lock := x }) := mem_lock_heap (tick s) h x
    have hlen : ((mem s).heap.modify h (fun m => { m with lock := x })).length = (mem s).heap.length := List.length_modify ..
    have hT0 : isT pc := by cases hm <;> trivial
    have m : MemStep (mem s) (mem (setT (setNode (tick s) h (fun m => { m with lock := x })) t { pc := pc', call := none }))
        (vcell ⟨pc, none⟩) g g := .lock h x hheap rfl rfl rfl rfl
    refine ⟨g, inv_step (l' := { pc := pc', call := none }) I hl m rfl
      (tinv_keep T hl rfl rfl rfl rfl ?_ ?_) (rinv_same I m rfl) (Or.inl rfl) (Or.inl hT0) ?_ ?_ ?_ ?_ ?_ ?_ ?_ ?_⟩
    · intro p' hp'; cases hp'
    · cases hm <;> exact ⟨fun h => False.elim h, fun h => False.elim h⟩
    · cases hm <;> exact hph
    · intro _; exact Or.inl hT0
    · intro _; exact I.ph.resz t _ hl hT0
    · intro lo hg _ hmid
      rcases hmid with hmid | hmid
      · cases hm <;> exact False.elim hmid
      · exact absurd rfl hmid
    · cases hm with
      | lock hn hlk => exact lock_frame_mod I hheap (Or.inl (by rw [nodeAt_mem_of_some hn]; exact hlk))
      | checkFail _ => exact lock_frame_mod I hheap (Or.inr (I.lock.lockHeld t _ h hl rfl).2)
      | unlock => exact lock_frame_mod I hheap (Or.inr (I.lock.lockHeld t _ h hl rfl).2)
    · intro h' hh
      cases hm with
      | lock hn hlk =>
        have : h = h' := hh
        subst this
        have hlt : h < (mem s).heap.length := by
          have := (List.getElem?_eq_some_iff.1 hn).1
          simpa using this
        refine ⟨by rw [hheap, hlen]; exact hlt, ?_⟩
        rw [hheap, BinX.nodeAt_modify, if_pos ⟨rfl, hlt⟩]
      | checkFail _ => exact False.elim hh
      | unlock => exact False.elim hh
    · intro id h' hv
      cases hm <;> cases hv
    · intro p' hp'
      cases hp'
  | fin p res hp hf =>
    obtain ⟨pc, call⟩ := l
    simp only at hp hf
    subst hp
    refine ⟨g, inv_same (l' := { pc := .idle, call := none }) I hl rfl rfl rfl rfl rfl rfl rfl
      (tinv_finish T hl rfl rfl rfl rfl rfl id) (Or.inl rfl) (PcPh.idle _ g) (fun h => False.elim h)
      (fun h => False.elim h) ?_ (fun h hh => False.elim hh) (fun id h hv => by cases hv) (fun p' hp' => by cases hp')⟩
    intro hmid
    cases hf <;> exact False.elim hmid
  | cas p tab v vi hp hpc hc hop =>
    obtain ⟨act, he, -, hc'⟩ := cas_mem (v := v) (vi := vi) I hl hpc hc
    obtain ⟨f1, f2, f3, f4, f5, f6⟩ := setCell_frame { tick s with heap := s.heap ++ [⟨p.key, (v, vi), none, none⟩] }
      tab p.key (.node s.heap.length)
    have hlk : ∀ j, j < (mem s).heap.length → (BinX.nodeAt (mem (finish (setCell { tick s with heap := s.heap ++ [⟨p.key, (v, vi), none, none⟩] } tab p.key (.node s.heap.length)) t p .none)).heap j).lock = (BinX.nodeAt (mem s).heap j).lock := by
      obtain ⟨_, _, _, h⟩ := he; exact h
    have m : MemStep (mem s) (mem (finish (setCell { tick s with heap := s.heap ++ [⟨p.key, (v, vi), none, none⟩] } tab p.key (.node s.heap.length)) t p .none))
        (vcell l) g g := .upd _ act he (Or.inl hc')
    refine ⟨g, inv_step (l' := { pc := .idle, call := none }) I hl m
      (by show (setCell _ tab p.key _).threads.set t _ = _; rw [f2]; rfl)
      (tinv_finish (l' := { pc := .idle, call := none }) T hl hp
        (by show (setCell _ tab p.key _).threads.set t _ = _; rw [f2]; rfl)
        (by show (setCell _ tab p.key _).now = _; rw [f4]; rfl)
        (by show _ :: (setCell _ tab p.key _).hist = _; rw [f3, f4]; rfl) rfl id)
      (rinv_same I m (by show (setCell _ tab p.key _).retired = _; rw [f6]; rfl))
      (Or.inl (by show (setCell _ tab p.key _).resizing = _; rw [f5]; rfl))
      (Or.inr (.of_active act)) (PcPh.idle _ g) (fun h => False.elim h) (fun h => False.elim h)
      ?_ (lock_frame_quiet I hlk) (fun h hh => False.elim hh) (fun id h hv => by cases hv) (fun p' hp' => by cases hp')⟩
    intro lo hg hp'; exact absurd hp' (act.ne_mid lo hg)
  | store p tab h pred hit hnext hp hpc =>
    obtain ⟨act, he', -, -, R'⟩ := store_mem (l' := { l with pc := .wUnlock tab h (storeAt (tick s) tab p pred hit hnext).2 false }) I hl hp hpc
    obtain ⟨hthr, hhist, hnow, hres, -⟩ := storeAt_frame (tick s) tab p pred hit hnext
    obtain ⟨r1, r2, r3, r4⟩ := retireHit_frame (storeAt (tick s) tab p pred hit hnext).1 p.op hit
    have hlk : ∀ j, j < (mem s).heap.length → (BinX.nodeAt (mem (setT (retireHit (storeAt (tick s) tab p pred hit hnext).1 p.op hit) t { l with pc := .wUnlock tab h (storeAt (tick s) tab p pred hit hnext).2 false })).heap j).lock = (BinX.nodeAt (mem s).heap j).lock := by
      obtain ⟨_, _, _, h⟩ := he'; exact h
    have hlen : (mem s).heap.length ≤ (mem (setT (retireHit (storeAt (tick s) tab p pred hit hnext).1 p.op hit) t { l with pc := .wUnlock tab h (storeAt (tick s) tab p pred hit hnext).2 false })).heap.length := by
      obtain ⟨_, u, _, _⟩ := he'; exact u.len
    obtain ⟨hlt, hmine⟩ := I.lock.lockHeld t l h hl (by rw [hpc]; rfl)
    refine ⟨g, inv_step (l' := { l with pc := .wUnlock tab h (storeAt (tick s) tab p pred hit hnext).2 false })
      I hl (.upd _ act he' (Or.inr ⟨h, vcell_wStore hp hpc⟩))
      (by show (retireHit _ _ _).threads.set t _ = _; rw [r1, hthr]; rfl)
      (tinv_keep (l' := { l with pc := .wUnlock tab h (storeAt (tick s) tab p pred hit hnext).2 false }) T hl
        (by show (retireHit _ _ _).threads.set t _ = _; rw [r1, hthr]; rfl)
        (by show (retireHit _ _ _).now = _; rw [r3, hnow]; rfl)
        (by show (retireHit _ _ _).hist = _; rw [r2, hhist]; rfl) rfl
        (fun p' hp' => by have := T.opOK t l p' hl hp'; rw [hpc] at this; exact this)
        (by rw [hpc]; exact ⟨fun _ => trivial, fun _ => trivial⟩)) R'
      (Or.inl (by show (retireHit _ _ _).resizing = _; rw [r4, hres]; rfl))
      (Or.inr (.of_active act)) ?_ (fun h => False.elim h) (fun h => False.elim h)
      ?_ (lock_frame_quiet I hlk) ?_ (fun id h hv => by cases hv) (fun p' hp' => trivial)⟩
    · have := I.ph.pcPh t l hl
      rw [hpc] at this
      exact this.of_tab id id rfl id
    · intro lo hg hp'; exact absurd hp' (act.ne_mid lo hg)
    · intro h' hh
      have : h = h' := hh
      subst this
      exact ⟨by omega, by rw [hlk h hlt]; exact hmine⟩
  | unlockFin p tab h res hp hpc =>
    have hheap : (mem (finish (setNode (tick s) h (fun m => { m with lock := none })) t p res)).heap =
        (mem s).heap.modify h (fun m => { m with lock := none }) := mem_lock_heap (tick s) h none
    have m : MemStep (mem s) (mem (finish (setNode (tick s) h (fun m => { m with lock := none })) t p res))
        (vcell l) g g := .lock h none hheap rfl rfl rfl rfl
    refine ⟨g, inv_step (l' := { pc := .idle, call := none }) I hl m rfl
      (tinv_finish T hl hp rfl rfl rfl rfl id) (rinv_same I m rfl) (Or.inl rfl) (Or.inr (.of_same rfl rfl)) (PcPh.idle _ g)
      (fun h => False.elim h) (fun h => False.elim h) ?_
      (lock_frame_mod I hheap (Or.inr (I.lock.lockHeld t l h hl (by rw [hpc]; rfl)).2))
      (fun h hh => False.elim hh) (fun id h hv => by cases hv) (fun p' hp' => by cases hp')⟩
    intro lo hg _ hmid
    rcases hmid with hmid | hmid
    · rw [hpc] at hmid; exact False.elim hmid
    · exact absurd rfl hmid
  | casMoved hp hpc hc =>
    have hph := I.ph.pcPh t l hl
    rw [hpc] at hph
    have hT0 : isT l.pc := by rw [hpc]; trivial
    have m : MemStep (mem s) (mem { (setT (tick s) t { l with pc := .tCommit }) with cell0 := .moved }) (vcell l) g ⟨.post, g.cr⟩ :=
      .casMoved hph (show (mem s).cell0 = .empty by rw [mem_cell0, hc]; rfl) rfl rfl rfl rfl rfl
    refine ⟨_, inv_step (l' := { l with pc := .tCommit }) I hl m rfl
      (tinv_of_frame (s1 := setT (tick s) t { l with pc := .tCommit })
        (tinv_keep T hl rfl rfl rfl rfl (fun p' hp' => by rw [hp] at hp'; cases hp')
          (by rw [hpc]; exact ⟨fun h => False.elim h, fun h => False.elim h⟩)) rfl rfl rfl ⟨rfl, rfl, rfl⟩)
      (rinv_same I m rfl)
      (Or.inl rfl) (Or.inl hT0) rfl (fun _ => Or.inl hT0) (fun _ => I.ph.resz t l hl hT0)
      (fun lo hg hp' => by cases hp') (lock_frame_quiet I (fun j _ => rfl)) (fun h hh => False.elim hh)
      (fun id h hv => by cases hv) (fun p' hp' => by simp only at hp'; rw [hp] at hp'; cases hp')⟩
  | build h hp hpc =>
    have hph := I.ph.pcPh t l hl
    rw [hpc] at hph
    have hT0 : isT l.pc := by rw [hpc]; trivial
    have hv : vcell l = some (.c0, h) := vcell_t (Or.inl hpc)
    obtain ⟨hc, -⟩ := I.lock.validated t l _ h hl hv
    obtain ⟨hlt, hmine⟩ := I.lock.lockHeld t l h hl (by rw [hpc]; rfl)
    have hcf : BinX.chainFrom (mem s).heap (mem s).heap.length (some h) = chainFrom s.heap s.heap.length (some h) := by
      rw [mem_heap, List.length_map, chainFrom_map]
    have hsb : BinX.splitBin (mem s).heap (BinX.chainFrom (mem s).heap (mem s).heap.length (some h)) =
        ((splitBin s.heap (chainFrom s.heap s.heap.length (some h))).1.map cN, (splitBin s.heap (chainFrom s.heap s.heap.length (some h))).2) := by
      rw [hcf, mem_heap, splitBin_mem]
    have hheap : (mem (setT { tick s with heap := (splitBin s.heap (chainFrom s.heap s.heap.length (some h))).1 } t { l with pc := .tStoreLow h (splitBin s.heap (chainFrom s.heap s.heap.length (some h))).2.1 (splitBin s.heap (chainFrom s.heap s.heap.length (some h))).2.2 })).heap =
        (BinX.splitBin (mem s).heap (BinX.chainFrom (mem s).heap (mem s).heap.length (some h))).1 := by
      rw [hsb]; rfl
    have m : MemStep (mem s) (mem (setT { tick s with heap := (splitBin s.heap (chainFrom s.heap s.heap.length (some h))).1 } t { l with pc := .tStoreLow h (splitBin s.heap (chainFrom s.heap s.heap.length (some h))).2.1 (splitBin s.heap (chainFrom s.heap s.heap.length (some h))).2.2 }))
        (vcell l) g _ := .build h hph hv hc hheap rfl rfl rfl rfl
    obtain ⟨-, -, -, hnode, hlen⟩ := BinX.build_effect (s' := mem (setT { tick s with heap := (splitBin s.heap (chainFrom s.heap s.heap.length (some h))).1 } t { l with pc := .tStoreLow h (splitBin s.heap (chainFrom s.heap s.heap.length (some h))).2.1 (splitBin s.heap (chainFrom s.heap s.heap.length (some h))).2.2 }))
      H hph hc hheap rfl rfl rfl rfl
    obtain ⟨-, -, hlow, hhigh⟩ := H.pre hph
    refine ⟨_, inv_step (l' := { l with pc := .tStoreLow h (splitBin s.heap (chainFrom s.heap s.heap.length (some h))).2.1 (splitBin s.heap (chainFrom s.heap s.heap.length (some h))).2.2 })
      I hl m rfl
      (tinv_of_frame (s1 := setT (tick s) t { l with pc := .tStoreLow h (splitBin s.heap (chainFrom s.heap s.heap.length (some h))).2.1 (splitBin s.heap (chainFrom s.heap s.heap.length (some h))).2.2 })
        (tinv_keep T hl rfl rfl rfl rfl (fun p' hp' => by rw [hp] at hp'; cases hp')
          (by rw [hpc]; exact ⟨fun h => False.elim h, fun h => False.elim h⟩)) rfl rfl rfl ⟨rfl, rfl, rfl⟩)
      (rinv_same I m rfl)
      (Or.inl rfl) (Or.inl hT0) ⟨by rw [hsb], hlow, hhigh⟩ (fun _ => Or.inl hT0) (fun _ => I.ph.resz t l hl hT0)
      (fun lo hg _ _ => trivial) (lock_frame_quiet I (fun j hj => by rw [hnode j hj])) ?_ ?_
      (fun p' hp' => by simp only at hp'; rw [hp] at hp'; cases hp')⟩
    · intro h' hh
      have : h = h' := hh
      subst this
      exact ⟨Nat.lt_of_lt_of_le hlt hlen, by rw [hnode h hlt]; exact hmine⟩
    · intro id h' hv'
      simp only [vcell, Option.some.injEq, Prod.mk.injEq] at hv'
      obtain ⟨rfl, rfl⟩ := hv'
      exact ⟨hc, rfl⟩
  | storeLow h lo hg hp hpc =>
    have hph := I.ph.pcPh t l hl
    rw [hpc] at hph
    have hT0 : isT l.pc := by rw [hpc]; trivial
    have hv : vcell l = some (.c0, h) := vcell_t (Or.inr (Or.inl ⟨lo, hg, hpc⟩))
    obtain ⟨hc, -⟩ := I.lock.validated t l _ h hl hv
    obtain ⟨hlt, hmine⟩ := I.lock.lockHeld t l h hl (by rw [hpc]; rfl)
    have hcl : cC (cellOfHead lo) = BinX.cellOfHead lo := by cases lo <;> rfl
    have m : MemStep (mem s) (mem { (setT (tick s) t { l with pc := .tStoreHigh h hg }) with lowCell := cellOfHead lo }) (vcell l) g g :=
      .storeNew lo hg hph.1 rfl rfl (Or.inr ⟨hph.2.1, hcl⟩) (Or.inl rfl) rfl
    refine ⟨g, inv_step (l' := { l with pc := .tStoreHigh h hg }) I hl m rfl
      (tinv_of_frame (s1 := setT (tick s) t { l with pc := .tStoreHigh h hg })
        (tinv_keep T hl rfl rfl rfl rfl (fun p' hp' => by rw [hp] at hp'; cases hp')
          (by rw [hpc]; exact ⟨fun h => False.elim h, fun h => False.elim h⟩)) rfl rfl rfl ⟨rfl, rfl, rfl⟩)
      (rinv_same I m rfl)
      (Or.inl rfl) (Or.inl hT0) ⟨lo, hph.1, hcl, hph.2.2⟩ (fun _ => Or.inl hT0) (fun _ => I.ph.resz t l hl hT0)
      (fun lo hg _ _ => trivial) (lock_frame_quiet I (fun j _ => rfl)) ?_ ?_
      (fun p' hp' => by simp only at hp'; rw [hp] at hp'; cases hp')⟩
    · intro h' hh
      have : h = h' := hh
      subst this
      exact ⟨hlt, hmine⟩
    · intro id h' hv'
      simp only [vcell, Option.some.injEq, Prod.mk.injEq] at hv'
      obtain ⟨rfl, rfl⟩ := hv'
      exact ⟨hc, rfl⟩
  | storeHigh h hg hp hpc =>
    have hph := I.ph.pcPh t l hl
    rw [hpc] at hph
    obtain ⟨lo, h1, h2, h3⟩ := hph
    have hT0 : isT l.pc := by rw [hpc]; trivial
    have hv : vcell l = some (.c0, h) := vcell_t (Or.inr (Or.inr (Or.inl ⟨hg, hpc⟩)))
    obtain ⟨hc, -⟩ := I.lock.validated t l _ h hl hv
    obtain ⟨hlt, hmine⟩ := I.lock.lockHeld t l h hl (by rw [hpc]; rfl)
    have hcl : cC (cellOfHead hg) = BinX.cellOfHead hg := by cases hg <;> rfl
    have m : MemStep (mem s) (mem { (setT (tick s) t { l with pc := .tStoreMoved h }) with highCell := cellOfHead hg }) (vcell l) g g :=
      .storeNew lo hg h1 rfl rfl (Or.inl rfl) (Or.inr ⟨h3, hcl⟩) rfl
    refine ⟨g, inv_step (l' := { l with pc := .tStoreMoved h }) I hl m rfl
      (tinv_of_frame (s1 := setT (tick s) t { l with pc := .tStoreMoved h })
        (tinv_keep T hl rfl rfl rfl rfl (fun p' hp' => by rw [hp] at hp'; cases hp')
          (by rw [hpc]; exact ⟨fun h => False.elim h, fun h => False.elim h⟩)) rfl rfl rfl ⟨rfl, rfl, rfl⟩)
      (rinv_same I m rfl)
      (Or.inl rfl) (Or.inl hT0) ⟨lo, hg, h1, h2, hcl⟩ (fun _ => Or.inl hT0) (fun _ => I.ph.resz t l hl hT0)
      (fun lo hg _ _ => trivial) (lock_frame_quiet I (fun j _ => rfl)) ?_ ?_
      (fun p' hp' => by simp only at hp'; rw [hp] at hp'; cases hp')⟩
    · intro h' hh
      have : h = h' := hh
      subst this
      exact ⟨hlt, hmine⟩
    · intro id h' hv'
      simp only [vcell, Option.some.injEq, Prod.mk.injEq] at hv'
      obtain ⟨rfl, rfl⟩ := hv'
      exact ⟨hc, rfl⟩
  | storeMoved h hp hpc =>
    have hph := I.ph.pcPh t l hl
    rw [hpc] at hph
    obtain ⟨lo, hg, h1, h2, h3⟩ := hph
    have hT0 : isT l.pc := by rw [hpc]; trivial
    have hv : vcell l = some (.c0, h) := vcell_t (Or.inr (Or.inr (Or.inr hpc)))
    obtain ⟨hc, -⟩ := I.lock.validated t l _ h hl hv
    obtain ⟨hlt, hmine⟩ := I.lock.lockHeld t l h hl (by rw [hpc]; rfl)
    have m : MemStep (mem s) (mem { (setT (tick s) t { l with pc := .tUnlock h }) with cell0 := .moved, retired := copiedOf s h ++ s.retired })
        (vcell l) g ⟨.post, g.cr⟩ := .moved h lo hg h1 hv h2 h3 rfl rfl rfl rfl rfl
    refine ⟨_, inv_step (l' := { l with pc := .tUnlock h }) I hl m rfl
      (tinv_of_frame (s1 := setT (tick s) t { l with pc := .tUnlock h })
        (tinv_keep T hl rfl rfl rfl rfl (fun p' hp' => by rw [hp] at hp'; cases hp')
          (by rw [hpc]; exact ⟨fun h => False.elim h, fun h => False.elim h⟩)) rfl rfl rfl ⟨rfl, rfl, rfl⟩)
      (moved_rinv I h1 hc h2 h3 (hv ▸ m) rfl rfl rfl rfl rfl rfl)
      (Or.inl rfl) (Or.inl hT0) rfl (fun _ => Or.inl hT0) (fun _ => I.ph.resz t l hl hT0)
      (fun lo hg hp' => by cases hp') (lock_frame_quiet I (fun j _ => rfl)) ?_ (fun id h hv => by cases hv)
      (fun p' hp' => by simp only at hp'; rw [hp] at hp'; cases hp')⟩
    intro h' hh
    have : h = h' := hh
    subst this
    exact ⟨hlt, hmine⟩
  | commit hp hpc =>
    have hph := I.ph.pcPh t l hl
    rw [hpc] at hph
    have hT0 : isT l.pc := by rw [hpc]; trivial
    have m : MemStep (mem s) (mem { (setT (tick s) t { l with pc := .idle }) with cur := .new }) (vcell l) g g :=
      .commit hph rfl rfl rfl rfl
    refine ⟨g, inv_step (l' := { l with pc := .idle }) I hl m rfl
      (tinv_of_frame (s1 := setT (tick s) t { l with pc := .idle })
        (tinv_keep T hl rfl rfl rfl rfl (fun p' hp' => by rw [hp] at hp'; cases hp')
          (by rw [hpc]; exact ⟨fun h => False.elim h, fun h => False.elim h⟩)) rfl rfl rfl ⟨rfl, rfl, rfl⟩)
      (rinv_same I m rfl)
      (Or.inl rfl) (Or.inl hT0) (PcPh.idle _ g) (fun h => False.elim h) (fun h => False.elim h)
      ?_ (lock_frame_quiet I (fun j _ => rfl)) (fun h hh => False.elim hh) (fun id h hv => by cases hv)
      (fun p' hp' => by simp only at hp'; rw [hp] at hp'; cases hp')⟩
    intro lo hg hp' _
    rw [hph] at hp'; cases hp'


theorem init_thread {n t : Nat} {l : Local} (hl : (init n).threads[t]? = some l) : l = {} := by
  simp only [init, List.getElem?_replicate] at hl
  split at hl
  · cases hl; rfl
  · cases hl

theorem mem_init (n : Nat) : mem (init n) = { (BinX.init 0) with now := 0 } := rfl

theorem init_inv (n : Nat) : Inv (init n) {} := by
  refine ⟨?_, ⟨?_, ?_, ?_, ?_, ?_, ?_, ?_⟩, ⟨?_, ?_, ?_, ?_, ?_⟩, ⟨?_, ?_⟩, ⟨?_⟩, ⟨?_⟩, ⟨by simp [init, cC], by simp [init, cC]⟩⟩
  · exact (BinX.init_inv 0).heap
  · intro t l p hl hc; rw [init_thread hl] at hc; cases hc
  · intro t l hl; rw [init_thread hl]; exact ⟨fun h => False.elim h, fun h => by cases h⟩
  · intro x hx; simp [init] at hx
  · intro t l p hl hc; rw [init_thread hl] at hc; cases hc
  · intro x hx; simp [init] at hx
  · intro t t' l l' p p' hl _ hc; rw [init_thread hl] at hc; cases hc
  · simp [init]
  · intro t l hl; rw [init_thread hl]; exact PcPh.idle _ _
  · intro t t' l l' hl _ hT; rw [init_thread hl] at hT; exact False.elim hT
  · intro t l hl hT; rw [init_thread hl] at hT; exact False.elim hT
  · intro _; rfl
  · intro lo hg h; cases h
  · intro t l h hl hh; rw [init_thread hl] at hh; exact False.elim hh
  · intro t l id h hl hv; rw [init_thread hl] at hv; cases hv
  · intro t l p hl hc; rw [init_thread hl] at hc; cases hc
  · intro i hi; simp [init] at hi

theorem step_inv {s s' : State} {g : Ghost} {t : Nat} {inv : Option (Nat × KOp)} {rz cl : Bool} (I : Inv s g)
    (hs : step s t inv rz cl = some s') : ∃ g', Inv s' g' := by
  cases hl : s.threads[t]? with
  | none => unfold step stepG at hs; rw [hl] at hs; cases hs
  | some l =>
    obtain ⟨g', -, I'⟩ := stepK_inv I hl (step_stepK hl hs)
    exact ⟨g', I'⟩

theorem reachable_inv {n : Nat} {s : State} (hr : Reachable n s) : ∃ g, Inv s g := by
  induction hr with
  | init => exact ⟨_, init_inv n⟩
  | step t inv rz cl _ hs ih =>
    obtain ⟨g, I⟩ := ih
    exact step_inv I hs

/-- everything an operation that starts now can reach is live -/
theorem reachableNow_live {s : State} (cr : CR) {i : Nat} (hi : i ∈ reachableNow s) : BinX.Live (mem s) cr i := by
  unfold reachableNow at hi
  rw [List.mem_flatMap] at hi
  obtain ⟨c, hc, hic⟩ := hi
  rw [← chainH_mem] at hic
  have hcases : c = s.cell0 ∨ c = s.lowCell ∨ c = s.highCell := by
    unfold startCells at hc
    split at hc
    · simp at hc; rcases hc with h | h
      · exact Or.inr (Or.inl h)
      · exact Or.inr (Or.inr h)
    · split at hc
      · simp at hc; exact hc
      · simp at hc; exact Or.inl hc
  rcases hcases with rfl | rfl | rfl
  · exact Or.inl hic
  · exact Or.inr (Or.inl hic)
  · exact Or.inr (Or.inr (Or.inl hic))

end Flurry.Proto.BinXC
