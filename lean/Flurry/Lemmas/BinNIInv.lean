import Flurry.Lemmas.BinNIMono
/-! # Proto/BinNI: the invariant of the iterators; every yield was present (C07)

`Was nt s τ k v`: on the run that led to `s`, the state at time `τ` had `absOf k = some v`.
`IInv`: the structural invariant of `Proto/BinN` on the shared part; an iterating thread is idle in the
shared part; the pointer of every iterator is justified (`IGood`); every cell in `todo` is of a generation
`≤ cur + 1`, and of generation `cur + 1` only behind a forwarding marker (so a cell that is found not
forwarded is the live cell of its keys); every yield is justified. -/
namespace Flurry.Proto.BinNI
open Flurry.Lin
open Flurry.Proto.BinX (NodeS Cell Pending isReader dflt chainFrom cellHead cellOfHead nodeAt nodeAt_of_some get_set chainH)
open Flurry.Proto.BinN (Ghost Inv HInv MemStep StepK cellAt LC Live IGood chId getCell liveId cellId cellOf keyOn)

def Was (nt : Nat) (s : State) (τ k : Nat) (v : Nat × Nat) : Prop :=
  ∃ s₁, Reachable nt s₁ ∧ Steps s₁ s ∧ s₁.n.now = τ ∧ absOf s₁ k = some v

/-- a pending cell is of a generation `≤ cur + 1`, and of generation `cur + 1` only behind a forwarding marker -/
def TodoOK (n : BinN.State) (c : Nat × Nat) : Prop :=
  c.1 ≤ n.cur + 1 ∧ (c.1 = n.cur + 1 → cellAt n n.cur (c.2 % 2 ^ n.cur) = .moved)

structure IInv (nt : Nat) (s : State) (G : Ghost) : Prop where
  inv : Inv s.n G
  idle : ∀ (t : Nat) (it : Iter), s.its[t]? = some (some it) →
    ∃ l : BinN.Local, s.n.threads[t]? = some l ∧ l.pc = BinN.Pc.idle
  good : ∀ (t : Nat) (it : Iter), s.its[t]? = some (some it) →
    it.t0 ≤ s.n.now ∧ IGood (Was nt s) G it.t0 s.n it.ptr ∧ ∀ c ∈ it.todo, TodoOK s.n c
  yl : ∀ y ∈ s.yields, ∃ τ, y.t0 ≤ τ ∧ τ ≤ y.time ∧ Was nt s τ y.key y.val

/-- a cell that an iterator finds with a list is the live cell of the keys of that list -/
theorem head_live {n : BinN.State} {G : Ghost} (H : HInv n G) {g j hd : Nat} (ht : TodoOK n (g, j))
    (hc : cellAt n g j = .node hd) : hd ∈ LC n (nodeAt n.heap hd).key := by
  have hlt := H.head (g, j) hd hc
  have hmem : hd ∈ chId n (g, j) := by
    unfold chId; rw [show getCell n (g, j) = .node hd from hc]
    obtain ⟨l, hl⟩ := BinN.chainH_node H.nextOK hlt
    rw [hl]; simp
  obtain ⟨hg, hj⟩ := H.nonempty_cell hmem
  have hk : (nodeAt n.heap hd).key % 2 ^ g = j := H.side _ hd hmem
  have hlive : liveId n (nodeAt n.heap hd).key = (g, j) := by
    unfold liveId
    rcases hg with rfl | rfl
    · have : cellOf n n.cur (nodeAt n.heap hd).key ≠ .moved := by unfold cellOf; rw [hk, hc]; simp
      rw [if_neg this]; unfold cellId; rw [hk]
    · have h2 : (nodeAt n.heap hd).key % 2 ^ n.cur = j % 2 ^ n.cur := BinN.keyOn_mod (Nat.le_succ _) hk
      have : cellOf n n.cur (nodeAt n.heap hd).key = .moved := by unfold cellOf; rw [h2]; exact ht.2 rfl
      rw [if_pos this]; unfold cellId; rw [hk]
  rw [H.LC_eq, hlive]; exact hmem

/-- the children of a forwarded cell -/
theorem children_ok {n : BinN.State} (S : BinN.Shape n) {g j : Nat} (hc : cellAt n g j = .moved) :
    TodoOK n (g + 1, j) ∧ TodoOK n (g + 1, j + 2 ^ g) := by
  have hg : g ≤ n.cur := by
    rcases Nat.lt_or_ge n.cur g with h | h
    · exfalso
      rcases Nat.lt_or_ge (n.cur + 1) g with h2 | h2
      · rw [S.cell_of_gen_gt h2] at hc; cases hc
      · have : g = n.cur + 1 := by omega
        subst this; exact S.nextNM j hc
    · exact h
  have hj : j < 2 ^ g := by
    rcases Nat.lt_or_ge j (2 ^ g) with h | h
    · exact h
    · rw [S.cell_of_idx_ge h] at hc; cases hc
  refine ⟨⟨by show g + 1 ≤ _; omega, fun h => ?_⟩, ⟨by show g + 1 ≤ _; omega, fun h => ?_⟩⟩
  · have : g = n.cur := by simpa using h
    subst this
    show cellAt n n.cur (j % 2 ^ n.cur) = _
    rw [Nat.mod_eq_of_lt hj]; exact hc
  · have : g = n.cur := by simpa using h
    subst this
    show cellAt n n.cur ((j + 2 ^ n.cur) % 2 ^ n.cur) = _
    rw [BinN.high_mod j _ hj]; exact hc

theorem init_iinv (nt : Nat) : IInv nt (init nt) {} := by
  refine ⟨BinN.init_inv nt, ?_, ?_, ?_⟩
  · intro t it h
    have : (List.replicate nt (none : Option Iter))[t]? = some (some it) := h
    rw [List.getElem?_replicate] at this
    split at this <;> cases this
  · intro t it h
    have : (List.replicate nt (none : Option Iter))[t]? = some (some it) := h
    rw [List.getElem?_replicate] at this
    split at this <;> cases this
  · intro y hy; cases hy

theorem iinv_step {nt : Nat} {s s' : State} {G : Ghost} {t : Nat} {mk : Bool} {inv : Option (Nat × KOp)} {rz : Bool}
    {pick : Nat} (hr : Reachable nt s) (I : IInv nt s G) (hs : step s t mk inv rz pick = some s') :
    ∃ G', IInv nt s' G' := by
  obtain ⟨inv', rz', pick', hn⟩ := step_n hs
  cases hl : s.n.threads[t]? with
  | none => unfold BinN.step BinN.stepG at hn; rw [hl] at hn; cases hn
  | some l =>
  have hk := BinN.step_stepK hl hn
  obtain ⟨G', I', m, -⟩ := BinN.stepK_inv I.inv hl hk
  obtain ⟨hnow, l', hthr⟩ := stepK_frame hk
  obtain ⟨hcur, hmono⟩ := BinN.stepK_mono I.inv hl hk
  have hst : Steps s s' := .tail t mk inv rz pick (.refl s) hs
  have hWas : ∀ τ k v, Was nt s τ k v → Was nt s' τ k v := by
    rintro τ k v ⟨s₁, h1, h2, h3, h4⟩
    exact ⟨s₁, h1, h2.trans hst, h3, h4⟩
  have hWnow : ∀ k v, BinN.absOf s.n k = some v → Was nt s' s.n.now k v := fun k v h => ⟨s, hr, hst, rfl, h⟩
  have hWself : ∀ k v, BinN.absOf s.n k = some v → Was nt s s.n.now k v := fun k v h => ⟨s, hr, .refl s, rfl, h⟩
  have carried : ∀ (t0 : Nat) (ptr : Option Nat), t0 ≤ s.n.now → IGood (Was nt s) G t0 s.n ptr →
      IGood (Was nt s') G' t0 s'.n ptr :=
    fun t0 ptr h0 h => h.carry m I.inv.heap I'.heap hnow h0 hWas hWnow
  have todoC : ∀ c, TodoOK s.n c → TodoOK s'.n c := by
    rintro c ⟨h1, h2⟩
    rcases hcur with e | e
    · exact ⟨by rw [e]; exact h1, fun hg => by rw [e] at hg ⊢; exact hmono _ _ (h2 hg)⟩
    · exact ⟨by omega, fun hg => by omega⟩
  have other : ∀ t' it', t' ≠ t → s.its[t']? = some (some it') →
      (∃ l, s'.n.threads[t']? = some l ∧ l.pc = .idle) ∧
      (it'.t0 ≤ s'.n.now ∧ IGood (Was nt s') G' it'.t0 s'.n it'.ptr ∧ ∀ c ∈ it'.todo, TodoOK s'.n c) := by
    intro t' it' hne hi
    obtain ⟨l0, h1, h2⟩ := I.idle t' it' hi
    obtain ⟨g1, g2, g3⟩ := I.good t' it' hi
    refine ⟨⟨l0, ?_, h2⟩, by omega, carried _ _ g1 g2, fun c hc => todoC c (g3 c hc)⟩
    rw [hthr, List.getElem?_set_ne (Ne.symm hne)]; exact h1
  have ylC : ∀ y ∈ s.yields, ∃ τ, y.t0 ≤ τ ∧ τ ≤ y.time ∧ Was nt s' τ y.key y.val := by
    intro y hy
    obtain ⟨τ, h1, h2, h3⟩ := I.yl y hy
    exact ⟨τ, h1, h2, hWas _ _ _ h3⟩
  refine ⟨G', ?_⟩
  rcases step_cases hs with ⟨hi, -, n', -, rfl⟩ | ⟨hi, -, l0, hl0, hpc0, rfl⟩ | ⟨it, n', hi, hn', hit⟩
  · -- a transition of `BinN`
    have hne : ∀ t' it', s.its[t']? = some (some it') → t' ≠ t := by
      intro t' it' h e; rw [e, hi] at h; cases h
    exact ⟨I', fun t' it' h => (other t' it' (hne t' it' h) h).1, fun t' it' h => (other t' it' (hne t' it' h) h).2, ylC⟩
  · -- creation
    refine ⟨I', ?_, ?_, ylC⟩
    · intro t' it' h
      rcases get_set h with ⟨rfl, e⟩ | ⟨hne, h⟩
      · exact ⟨l0, hl0, hpc0⟩
      · exact (other t' it' hne h).1
    · intro t' it' h
      rcases get_set h with ⟨rfl, e⟩ | ⟨hne, h⟩
      · cases e
        refine ⟨Nat.le_refl _, .none, ?_⟩
        intro c hc
        obtain ⟨j, -, rfl⟩ := List.mem_map.1 hc
        exact ⟨by show s.n.cur ≤ s.n.cur + 1; omega, fun h => by have : s.n.cur = s.n.cur + 1 := h; omega⟩
      · exact (other t' it' hne h).2
  · -- a step of an iterator
    obtain ⟨l0, hl0, hpc0⟩ := I.idle t it hi
    rw [idle_step hl0 hpc0] at hn'
    cases hn'
    obtain ⟨g1, g2, g3⟩ := I.good t it hi
    have H := I.inv.heap
    obtain ⟨hsn, hcase⟩ := iterStep_cases hit
    have thrT : ∃ l, s'.n.threads[t]? = some l ∧ l.pc = .idle := by rw [hsn]; exact ⟨l0, hl0, hpc0⟩
    rcases hcase with ⟨c, nd, hptr, hnd, hits, hyl, -⟩ | ⟨hptr, htodo, hits, hyl, -⟩ |
      ⟨g, j, rest, ptr', todo', hptr, htodo, hits, hyl, -, hcell⟩
    · -- yield
      have hnd' : nodeAt s.n.heap c = nd := nodeAt_of_some hnd
      rw [hptr] at g2
      refine ⟨I', ?_, ?_, ?_⟩
      · intro t' it' h
        rw [hits] at h
        rcases get_set h with ⟨rfl, e⟩ | ⟨hne, h⟩
        · exact thrT
        · exact (other t' it' hne h).1
      · intro t' it' h
        rw [hits] at h
        rcases get_set h with ⟨rfl, e⟩ | ⟨hne, h⟩
        · cases e
          refine ⟨by show it.t0 ≤ _; omega, ?_, fun c hc => todoC c (g3 c hc)⟩
          have := g2.next H
          rw [hnd'] at this
          exact carried _ _ g1 this
        · exact (other t' it' hne h).2
      · intro y hy
        rw [hyl] at hy
        rcases List.mem_cons.1 hy with rfl | hy
        · obtain ⟨τ, h1, h2, h3⟩ := g2.hit H g1 hWself
          rw [hnd'] at h3
          exact ⟨τ, h1, by show τ ≤ s.n.now + 1; omega, hWas _ _ _ h3⟩
        · exact ylC y hy
    · -- the end
      refine ⟨I', ?_, ?_, by rw [hyl]; exact ylC⟩
      · intro t' it' h
        rw [hits] at h
        rcases get_set h with ⟨rfl, e⟩ | ⟨hne, h⟩
        · cases e
        · exact (other t' it' hne h).1
      · intro t' it' h
        rw [hits] at h
        rcases get_set h with ⟨rfl, e⟩ | ⟨hne, h⟩
        · cases e
        · exact (other t' it' hne h).2
    · -- the load of a cell
      rw [htodo] at g3
      have hgj := g3 (g, j) (by simp)
      have hrest : ∀ c ∈ rest, TodoOK s.n c := fun c hc => g3 c (by simp [hc])
      refine ⟨I', ?_, ?_, by rw [hyl]; exact ylC⟩
      · intro t' it' h
        rw [hits] at h
        rcases get_set h with ⟨rfl, e⟩ | ⟨hne, h⟩
        · exact thrT
        · exact (other t' it' hne h).1
      · intro t' it' h
        rw [hits] at h
        rcases get_set h with ⟨rfl, e⟩ | ⟨hne, h⟩
        · cases e
          refine ⟨by show it.t0 ≤ _; omega, ?_, ?_⟩
          · show IGood _ _ _ _ ptr'
            rcases hcell with ⟨-, rfl, -⟩ | ⟨hd, hc, rfl, -⟩ | ⟨-, rfl, -⟩
            · exact .none
            · exact carried _ _ g1 (.on (head_live H hgj hc))
            · exact .none
          · show ∀ c ∈ todo', TodoOK s'.n c
            rcases hcell with ⟨-, -, rfl⟩ | ⟨hd, -, -, rfl⟩ | ⟨hc, -, rfl⟩
            · exact fun c hc => todoC c (hrest c hc)
            · exact fun c hc => todoC c (hrest c hc)
            · obtain ⟨k1, k2⟩ := children_ok H.shape hc
              intro c hc'
              rcases List.mem_cons.1 hc' with rfl | hc'
              · exact todoC _ k1
              · rcases List.mem_cons.1 hc' with rfl | hc'
                · exact todoC _ k2
                · exact todoC c (hrest c hc')
        · exact (other t' it' hne h).2

/-- the invariant holds in every reachable state -/
theorem reachable_iinv {nt : Nat} {s : State} (hr : Reachable nt s) : ∃ G, IInv nt s G := by
  induction hr with
  | init => exact ⟨_, init_iinv nt⟩
  | step t mk inv rz pick hr hs ih =>
    obtain ⟨G, I⟩ := ih
    exact iinv_step hr I hs

end Flurry.Proto.BinNI
