import Flurry.Props.C01BinW
import Flurry.Lemmas.LinSearch
/-! # Proto/BinW: the re-check of the bin cell is load-bearing (C01)

Two concrete schedules of two threads. Under `stepNoCheck` (a writer trusts the mutex it took without
re-reading the bin cell) both end in a quiescent state whose history is **not** linearizable:

* `schedDoubleRemove`: `insert(0)`; then two `remove(0)` that both loaded the same head. The first
  unlinks the node and unlocks; the second takes the mutex of the *unlinked* node, walks from it,
  "finds" the key and unlinks again: both removes return the value of the single insert.
* `schedLostInsert`: `insert(0)`; then `remove(0)` and `insert(1)` that both loaded the same head. The
  remove empties the bin; the insert locks the unlinked node, walks it, and appends its new node behind
  the unlinked node: `insert(1)` returns "was absent", yet a later `get(1)` finds nothing.

Under `step` (with the re-check) the very same schedules end in linearizable states: the second
writer sees that the bin cell no longer holds the node it locked, unlocks and starts over. -/
namespace Flurry.Proto.BinW
open Flurry.Lin

abbrev Sched := List (Nat × Option (Nat × KOp))

/-- run a schedule (`none` if some step is not enabled) -/
def run (f : State → Nat → Option (Nat × KOp) → Option State) : State → Sched → Option State
  | s, [] => some s
  | s, (t, inv) :: rest =>
    match f s t inv with
    | none => none
    | some s' => run f s' rest

/-- reachability in the variant without the re-check -/
inductive ReachableNoCheck (nthreads : Nat) : State → Prop
  | init : ReachableNoCheck nthreads (init nthreads)
  | step {s s' : State} (t : Nat) (inv : Option (Nat × KOp)) :
      ReachableNoCheck nthreads s → stepNoCheck s t inv = some s' → ReachableNoCheck nthreads s'

theorem run_reachable {n : Nat} : ∀ (sc : Sched) {s s' : State}, Reachable n s → run step s sc = some s' →
    Reachable n s'
  | [], s, s', hr, h => by simp only [run, Option.some.injEq] at h; exact h ▸ hr
  | (t, inv) :: rest, s, s', hr, h => by
    simp only [run] at h
    cases hs : step s t inv with
    | none => rw [hs] at h; cases h
    | some s1 => rw [hs] at h; exact run_reachable rest (.step t inv hr hs) h

theorem run_reachableNoCheck {n : Nat} : ∀ (sc : Sched) {s s' : State}, ReachableNoCheck n s →
    run stepNoCheck s sc = some s' → ReachableNoCheck n s'
  | [], s, s', hr, h => by simp only [run, Option.some.injEq] at h; exact h ▸ hr
  | (t, inv) :: rest, s, s', hr, h => by
    simp only [run] at h
    cases hs : stepNoCheck s t inv with
    | none => rw [hs] at h; cases h
    | some s1 => rw [hs] at h; exact run_reachableNoCheck rest (.step t inv hr hs) h

/-- what we look at in the final state: is it quiescent, and does the exhaustive search find a
linearization of the history of key `k` ending in the abstract content of the bin -/
def verdict (f : State → Nat → Option (Nat × KOp) → Option State) (n : Nat) (sc : Sched) (k : Nat) :
    Option (Bool × Bool) :=
  (run f (init n) sc).map fun s =>
    (s.threads.all (fun l => l.pc == .idle), (search (callsOn s k) none (absOf s k)).isSome)

theorem of_verdict {f : State → Nat → Option (Nat × KOp) → Option State} {n : Nat} {sc : Sched} {k : Nat}
    {b : Bool} (h : verdict f n sc k = some (true, b)) :
    ∃ s, run f (init n) sc = some s ∧ quiescent s ∧ (search (callsOn s k) none (absOf s k)).isSome = b := by
  unfold verdict at h
  cases hr : run f (init n) sc with
  | none => rw [hr] at h; cases h
  | some s =>
    rw [hr] at h
    simp only [Option.map_some, Option.some.injEq, Prod.mk.injEq] at h
    refine ⟨s, rfl, ?_, h.2⟩
    intro l hl
    have := List.all_eq_true.1 h.1 l hl
    simpa using this

/-- `insert(0)` by thread 0 (lock-free CAS into the empty bin); `remove(0)` by both threads, both
load the head; thread 0 locks, walks, unlinks, unlocks; then thread 1 locks the node it saw -/
def schedDoubleRemove : Sched :=
  [ (0, some (0, .ins 5 100)), (0, none), (0, none),
    (0, some (0, .rm)), (1, some (0, .rm)),
    (0, none), (1, none),
    (0, none), (0, none), (0, none), (0, none), (0, none),
    (1, none), (1, none), (1, none), (1, none), (1, none) ]

/-- `insert(0)`; `remove(0)` by thread 0 and `insert(1)` by thread 1, both load the head; thread 0
empties the bin; thread 1 locks the node it saw and goes on; finally `get(1)` by thread 0 -/
def schedLostInsert : Sched :=
  [ (0, some (0, .ins 5 100)), (0, none), (0, none),
    (0, some (0, .rm)), (1, some (1, .ins 7 101)),
    (0, none), (1, none),
    (0, none), (0, none), (0, none), (0, none), (0, none),
    (1, none), (1, none), (1, none), (1, none), (1, none), (1, none),
    (0, some (1, .get)), (0, none), (0, none) ]

theorem verdict_doubleRemove_noCheck : verdict stepNoCheck 2 schedDoubleRemove 0 = some (true, false) := by
  decide

theorem verdict_doubleRemove_check : verdict step 2 schedDoubleRemove 0 = some (true, true) := by
  decide

theorem verdict_lostInsert_noCheck : verdict stepNoCheck 2 schedLostInsert 1 = some (true, false) := by
  decide

theorem verdict_lostInsert_check : verdict step 2 schedLostInsert 1 = some (true, true) := by
  decide

/-- the histories, for the reader: without the re-check both removes return the inserted value -/
theorem doubleRemove_noCheck_history :
    (run stepNoCheck (init 2) schedDoubleRemove).map (fun s => (callsOn s 0, absOf s 0)) =
      some ([⟨0, .ins 5 100, .none, 1, 3⟩, ⟨0, .rm, .some 5 100, 4, 12⟩, ⟨1, .rm, .some 5 100, 5, 17⟩], none) := by
  decide

theorem doubleRemove_check_history :
    (run step (init 2) schedDoubleRemove).map (fun s => (callsOn s 0, absOf s 0)) =
      some ([⟨0, .ins 5 100, .none, 1, 3⟩, ⟨0, .rm, .some 5 100, 4, 12⟩, ⟨1, .rm, .none, 5, 16⟩], none) := by
  decide

/-- without the re-check the insert of key 1 "succeeds" into an unlinked node: the bin stays empty -/
theorem lostInsert_noCheck_history :
    (run stepNoCheck (init 2) schedLostInsert).map (fun s => (callsOn s 1, absOf s 1, s.head)) =
      some ([⟨1, .ins 7 101, .none, 5, 18⟩, ⟨0, .get, .none, 19, 21⟩], none, none) := by
  decide

theorem lostInsert_check_history :
    (run step (init 2) schedLostInsert).map (fun s => (callsOn s 1, absOf s 1)) =
      some ([⟨1, .ins 7 101, .none, 5, 17⟩, ⟨0, .get, .some 7 101, 19, 21⟩], some (7, 101)) := by
  decide

/-- **the re-check is load-bearing (1)**: without it, a reachable quiescent state whose history of
key 0 is not linearizable (two removes return the value of one insert) -/
theorem noCheck_not_linearizable_doubleRemove :
    ∃ s, ReachableNoCheck 2 s ∧ quiescent s ∧ ¬ Lin.Linearizable (callsOn s 0) none (absOf s 0) := by
  obtain ⟨s, hr, hq, hs⟩ := of_verdict verdict_doubleRemove_noCheck
  refine ⟨s, run_reachableNoCheck _ .init hr, hq, search_eq_none_iff.1 ?_⟩
  cases h : search (callsOn s 0) none (absOf s 0) with
  | none => rfl
  | some o => rw [h] at hs; cases hs

/-- **the re-check is load-bearing (2)**: without it, a reachable quiescent state whose history of
key 1 is not linearizable (a completed insert is lost) -/
theorem noCheck_not_linearizable_lostInsert :
    ∃ s, ReachableNoCheck 2 s ∧ quiescent s ∧ ¬ Lin.Linearizable (callsOn s 1) none (absOf s 1) := by
  obtain ⟨s, hr, hq, hs⟩ := of_verdict verdict_lostInsert_noCheck
  refine ⟨s, run_reachableNoCheck _ .init hr, hq, search_eq_none_iff.1 ?_⟩
  cases h : search (callsOn s 1) none (absOf s 1) with
  | none => rfl
  | some o => rw [h] at hs; cases hs

/-- the same schedules with the re-check: every step is enabled, the final state is quiescent and
(as `binw_linearizable_quiescent` says it must be) linearizable — the search finds the witness -/
theorem check_doubleRemove :
    ∃ s, run step (init 2) schedDoubleRemove = some s ∧ Reachable 2 s ∧ quiescent s ∧
      (search (callsOn s 0) none (absOf s 0)).isSome = true := by
  obtain ⟨s, hr, hq, hs⟩ := of_verdict verdict_doubleRemove_check
  exact ⟨s, hr, run_reachable _ .init hr, hq, hs⟩

theorem check_lostInsert :
    ∃ s, run step (init 2) schedLostInsert = some s ∧ Reachable 2 s ∧ quiescent s ∧
      (search (callsOn s 1) none (absOf s 1)).isSome = true := by
  obtain ⟨s, hr, hq, hs⟩ := of_verdict verdict_lostInsert_check
  exact ⟨s, hr, run_reachable _ .init hr, hq, hs⟩

/-- hence the theorem `binw_linearizable_quiescent` is false for the variant without the re-check -/
theorem noCheck_refutes :
    ¬ ∀ (n : Nat) (s : State), ReachableNoCheck n s → quiescent s → ∀ k,
      Lin.Linearizable (callsOn s k) none (absOf s k) := by
  intro hall
  obtain ⟨s, hr, hq, hn⟩ := noCheck_not_linearizable_doubleRemove
  exact hn (hall 2 s hr hq 0)

end Flurry.Proto.BinW
