import Flurry.Lemmas.SeqOpsUpd
/-! # O1: `put` (`insert` / `try_insert`) -/
namespace Flurry.Seq
open Flurry Flurry.Gen
open Flurry.RB (upd)

/-- the bin count that `put` hands to the treeify test (and to `addCount`) -/
def putBinCount (k : Nat) (m0 : Map) : Nat :=
  match (initTable m0).table with
  | none => 0
  | some t =>
    match tableBin t (bini (m0.hash k) t.length) with
    | .empty => 0
    | .list ns => listBinCount (m0.hash k) k ns 0
    | .tree _ _ => 2

/-- what a lookup of `k` finds after `put k ki v vi nr` -/
def putNew (k ki v vi : Nat) (nr : Bool) (m : Map) : Node :=
  match get k m with
  | none => { hash := m.hash k, key := k, ki := ki, val := v, vi := vi }
  | some old => if nr then old else { old with val := v, vi := vi }

/-- what `put k _ _ _ nr` answers -/
def putOut (k : Nat) (nr : Bool) (m : Map) : Out :=
  match get k m with
  | none => .none
  | some old => if nr then .exists_ old.val old.vi else .some old.val old.vi

/-- `put` first makes sure the table exists -/
theorem put_initTable (k ki v vi : Nat) (nr : Bool) {m : Map} (hg : Good m) :
    put k ki v vi nr m = put k ki v vi nr (initTable m) := by
  unfold put
  simp only [initTable_idem hg, initTable_hash]

theorem putBinCount_initTable (k : Nat) {m : Map} (hg : Good m) :
    putBinCount k (initTable m) = putBinCount k m := by
  unfold putBinCount
  simp only [initTable_idem hg, initTable_hash]

/-- the side condition under which `put` leaves the table, the threshold and the resize counter
alone: no crowded bin in a small table, and (for a new key) the new count is below the threshold -/
def PutNoGrow (k : Nat) (m : Map) : Prop :=
  (treeifyCond (putBinCount k m) = false ∨ treeifyTooSmall (tableLen m) = false) ∧
    ((get k m).isSome ∨ m.count + 1 < m.sizeCtl ∨ tableLen m = MAXIMUM_CAPACITY)

theorem put_spec_some (k ki v vi : Nat) (nr : Bool) {m : Map} {t : Table} (hw : WF m)
    (ht : m.table = some t) :
    UpdPost m (put k ki v vi nr m).1 k (some (putNew k ki v vi nr m))
      (if (get k m).isSome then 0 else 1) (PutNoGrow k m) ∧
    (put k ki v vi nr m).2 = putOut k nr m := by
  have htw := hw.tableWF ht
  have hget := get_eq_find ht htw k
  have hinit := initTable_of_wf_some hw ht
  have hlen := tableLen_of_some ht
  unfold put
  simp only [hinit, ht]
  split
  next hb =>
    -- empty bin
    have hf : (tableBin t (bini (m.hash k) t.length)).find (m.hash k) k = none := by rw [hb]; rfl
    have hg : get k m = none := hget.trans hf
    have hp := insert_post hw ht hf (nd := ⟨m.hash k, k, ki, v, vi⟩) rfl rfl false 0
    simp only [hb, insertBin, Bool.false_eq_true, ↓reduceIte] at hp
    simp only [putNew, putOut, hg, Option.isSome_none, Bool.false_eq_true, ↓reduceIte]
    refine ⟨hp.mono ?_, trivial⟩
    rintro ⟨-, h2⟩
    refine ⟨Or.inl trivial, ?_⟩
    rw [hg, hlen] at h2
    simpa using h2
  next ns hb =>
    -- list bin
    split
    next old hfo =>
      have hf : (tableBin t (bini (m.hash k) t.length)).find (m.hash k) k = some old := by
        rw [hb]; exact hfo
      have hg : get k m = some old := hget.trans hf
      simp only [putNew, putOut, hg, Option.isSome_some, ↓reduceIte]
      cases nr with
      | true =>
        simp only [↓reduceIte]
        have hp := UpdPost.refl (Good.of_some hw ht) k (PutNoGrow k m)
        rw [hg] at hp
        exact ⟨hp, trivial⟩
      | false =>
        have hp := update_post hw ht v vi hf (treeifyCond (listBinCount (m.hash k) k ns 0))
        simp only [hb, setValBin] at hp
        simp only [Bool.false_eq_true, ↓reduceIte]
        refine ⟨hp.mono ?_, trivial⟩
        rintro ⟨h1, -⟩
        rw [hlen] at h1
        simpa [putBinCount, hinit, ht, hb] using h1
    next hfo =>
      have hf : (tableBin t (bini (m.hash k) t.length)).find (m.hash k) k = none := by
        rw [hb]; exact hfo
      have hg : get k m = none := hget.trans hf
      have hp := insert_post hw ht hf (nd := ⟨m.hash k, k, ki, v, vi⟩) rfl rfl
        (treeifyCond (listBinCount (m.hash k) k ns 0)) (listBinCount (m.hash k) k ns 0)
      simp only [hb, insertBin] at hp
      simp only [putNew, putOut, hg, Option.isSome_none, Bool.false_eq_true, ↓reduceIte]
      refine ⟨hp.mono ?_, trivial⟩
      rintro ⟨h1, h2⟩
      rw [hg, hlen] at h2
      rw [hlen] at h1
      exact ⟨by simpa [putBinCount, hinit, ht, hb] using h1, by simpa using h2⟩
  next tr order hb =>
    -- tree bin
    split
    next old hfo =>
      have hf : (tableBin t (bini (m.hash k) t.length)).find (m.hash k) k = some old := by
        rw [hb]; exact hfo
      have hg : get k m = some old := hget.trans hf
      simp only [putNew, putOut, hg, Option.isSome_some, ↓reduceIte]
      cases nr with
      | true =>
        simp only [↓reduceIte]
        have hp := UpdPost.refl (Good.of_some hw ht) k (PutNoGrow k m)
        rw [hg] at hp
        exact ⟨hp, trivial⟩
      | false =>
        have hp := update_post hw ht v vi hf (treeifyCond 2)
        simp only [hb, setValBin] at hp
        simp only [Bool.false_eq_true, ↓reduceIte]
        refine ⟨hp.mono ?_, trivial⟩
        rintro ⟨h1, -⟩
        rw [hlen] at h1
        simpa [putBinCount, hinit, ht, hb] using h1
    next hfo =>
      have hf : (tableBin t (bini (m.hash k) t.length)).find (m.hash k) k = none := by
        rw [hb]; exact hfo
      have hg : get k m = none := hget.trans hf
      have hp := insert_post hw ht hf (nd := ⟨m.hash k, k, ki, v, vi⟩) rfl rfl false 2
      simp only [hb, insertBin, Bool.false_eq_true, ↓reduceIte] at hp
      simp only [putNew, putOut, hg, Option.isSome_none, Bool.false_eq_true, ↓reduceIte]
      refine ⟨hp.mono ?_, trivial⟩
      rintro ⟨-, h2⟩
      refine ⟨Or.inl trivial, ?_⟩
      rw [hg, hlen] at h2
      simpa using h2

/-- the abstract map after an update described by `UpdPost` -/
theorem UpdPost.absMap_apply {m r : Map} {k : Nat} {new : Option Node} {dc : Int} {G : Prop}
    (h : UpdPost m r k new dc G) (k' : Nat) :
    absMap r k' = if k' = k then new.map (fun nd => (nd.ki, nd.val, nd.vi)) else absMap m k' := by
  by_cases hk : k' = k
  · subst hk; simp only [absMap, h.get_same, ↓reduceIte]
  · simp only [absMap, h.get_other k' hk, hk, ↓reduceIte]

theorem putNew_initTable (k ki v vi : Nat) (nr : Bool) (m : Map) :
    putNew k ki v vi nr (initTable m) = putNew k ki v vi nr m := by
  simp only [putNew, (initTable_same m).2.1 k, initTable_hash]

theorem putOut_initTable (k : Nat) (nr : Bool) (m : Map) :
    putOut k nr (initTable m) = putOut k nr m := by
  simp only [putOut, (initTable_same m).2.1 k]

/-- **O1**: `put` on a `Good` state, in terms of lookups -/
theorem put_spec (k ki v vi : Nat) (nr : Bool) {m : Map} (hg : Good m) :
    UpdPost m (put k ki v vi nr m).1 k (some (putNew k ki v vi nr m))
      (if (get k m).isSome then 0 else 1) (m.table ≠ none ∧ PutNoGrow k m) ∧
    (put k ki v vi nr m).2 = putOut k nr m := by
  cases ht : m.table with
  | some t =>
    obtain ⟨h1, h2⟩ := put_spec_some k ki v vi nr hg.1 ht
    exact ⟨h1.mono (fun g => g.2), h2⟩
  | none =>
    obtain ⟨t1, ht1⟩ := initTable_table_some m
    obtain ⟨h1, h2⟩ := put_spec_some k ki v vi nr hg.init.1 ht1
    rw [← put_initTable k ki v vi nr hg, putNew_initTable, (initTable_same m).2.1 k] at h1
    rw [← put_initTable k ki v vi nr hg, putOut_initTable] at h2
    refine ⟨⟨h1.good, h1.hash.trans (initTable_hash m), h1.get_same, ?_,
      by rw [h1.count, initTable_count], ?_, ?_, ?_⟩, h2⟩
    · intro k' hne; rw [h1.get_other k' hne, (initTable_same m).2.1 k']
    · exact Nat.le_trans (initTable_tableLen_le m) h1.len_le
    · have := h1.resizes_le; rwa [initTable_resizes] at this
    · rintro ⟨hne, -⟩; exact absurd rfl hne

theorem put_good (k ki v vi : Nat) (nr : Bool) {m : Map} (hg : Good m) :
    Good (put k ki v vi nr m).1 := (put_spec k ki v vi nr hg).1.good

/-- **O1**: the abstract map after `put` -/
theorem put_absMap (k ki v vi : Nat) (nr : Bool) {m : Map} (hg : Good m) :
    absMap (put k ki v vi nr m).1 =
      if nr = true ∧ (absMap m k).isSome = true then absMap m else (absMap m).insert k ki v vi := by
  obtain ⟨h, -⟩ := put_spec k ki v vi nr hg
  funext k'
  rw [h.absMap_apply k']
  by_cases hk : k' = k
  · subst hk
    simp only [↓reduceIte, putNew, absMap_isSome]
    cases hgk : get k' m with
    | none => simp [Ref.insert, absMap, hgk]
    | some old => cases nr <;> simp [Ref.insert, absMap, hgk]
  · simp only [hk, ↓reduceIte]
    split
    · rfl
    · simp [Ref.insert, hk]

/-- **O1**: the answer of `put` -/
theorem put_out (k ki v vi : Nat) (nr : Bool) {m : Map} (hg : Good m) :
    (put k ki v vi nr m).2 =
      match absMap m k with
      | none => .none
      | some (_, v0, vi0) => if nr then .exists_ v0 vi0 else .some v0 vi0 := by
  rw [(put_spec k ki v vi nr hg).2, putOut, absMap]
  cases get k m <;> rfl

/-- **O1**: `insert` agrees with the reference map -/
theorem step_ins (k ki v vi : Nat) {m : Map} (hg : Good m) :
    Good (step m (.ins k ki v vi)).1 ∧
    absMap (step m (.ins k ki v vi)).1 = (Ref.step (absMap m) (.ins k ki v vi)).1 ∧
    (step m (.ins k ki v vi)).2 = (Ref.step (absMap m) (.ins k ki v vi)).2 := by
  refine ⟨put_good k ki v vi false hg, ?_, ?_⟩
  · simp only [step, Ref.step, put_absMap k ki v vi false hg]
    simp
  · simp only [step, Ref.step, put_out k ki v vi false hg]
    cases absMap m k with
    | none => rfl
    | some x => obtain ⟨_, _, _⟩ := x; rfl

/-- **O1**: `try_insert` agrees with the reference map -/
theorem step_tryIns (k ki v vi : Nat) {m : Map} (hg : Good m) :
    Good (step m (.tryIns k ki v vi)).1 ∧
    absMap (step m (.tryIns k ki v vi)).1 = (Ref.step (absMap m) (.tryIns k ki v vi)).1 ∧
    (step m (.tryIns k ki v vi)).2 = (Ref.step (absMap m) (.tryIns k ki v vi)).2 := by
  refine ⟨put_good k ki v vi true hg, ?_, ?_⟩
  · simp only [step, Ref.step, put_absMap k ki v vi true hg]
    cases absMap m k with
    | none => simp
    | some x => obtain ⟨_, _, _⟩ := x; simp
  · simp only [step, Ref.step, put_out k ki v vi true hg]
    cases absMap m k with
    | none => rfl
    | some x => obtain ⟨_, _, _⟩ := x; rfl

/-- `insert` of a key that is present keeps the key instance stored first (C02 `first_key_kept`) -/
theorem put_keeps_first_key (k ki' v vi : Nat) (nr : Bool) {m : Map} (hg : Good m) {ki v0 vi0 : Nat}
    (hpre : absMap m k = some (ki, v0, vi0)) :
    ∃ v1 vi1, absMap (put k ki' v vi nr m).1 k = some (ki, v1, vi1) := by
  rw [put_absMap k ki' v vi nr hg]
  split
  · exact ⟨v0, vi0, hpre⟩
  · exact ⟨v, vi, by simp [Ref.insert, hpre]⟩

end Flurry.Seq
