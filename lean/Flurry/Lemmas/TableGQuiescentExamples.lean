import Flurry.Lemmas.TableGExamples
import Flurry.Lemmas.TableGQuiescent
/-! # Proto/TableG at quiescence: kernel-checked instances (C05, non-vacuity)

The run of `Lemmas/TableGExamples.lean` (two lineages, two threads), looked at through `entries`:
* at its end (clock 100): both lineages transferred — lineage 0 by a list split, lineage 1 by a tree-bin
  split into two fresh `TreeBin`s — and committed; the iterator yields the four keys 0, 1, 5 (lineage 0)
  and 3 (lineage 1) with the values of the abstract map; key 2 was removed after the resize;
* in the middle (clock 49, also quiescent): lineage 0 is committed, lineage 1 has not been touched —
  the iterator walks the two cells of the next table in lineage 0 and the old cell (a `TreeBin`) in
  lineage 1. -/
namespace Flurry.Proto.TableG
open Flurry.Lin Flurry.LinMap

def quiescentB (S : State) : Bool := S.bins.all (fun b => b.threads.all (fun l => l.pc == .idle))

theorem quiescentB_iff (S : State) : quiescentB S = true ↔ quiescent S := by
  unfold quiescentB quiescent BinG.quiescent
  simp [List.all_eq_true]

/-- every lock word of every node free; mutex, write lock, waiter bit and readers of every `TreeBin` clear -/
def unlockedB (S : State) : Bool :=
  S.bins.all fun b => b.heap.all (fun n => n.lock.isNone) &&
    b.tbins.all (fun x => x.mutex.isNone && !x.writer && !x.waiter && x.readers == 0)

def exEndCheck : Bool :=
  match run (init 2 2) exSchedule with
  | some S =>
    quiescentB S && entries S == [(0, (30, 300)), (1, (10, 100)), (5, (50, 500)), (3, (41, 401))] &&
      S.bins.map BinG.liveCells == [[.list 1, .list 2], [.tree 1, .tree 2]] &&
      (List.range 6).map (absMap S) == exAbs && unlockedB S
  | none => false

set_option maxRecDepth 2000 in
theorem exEndCheck_true : exEndCheck = true := by decide

def exMidCheck : Bool :=
  match run (init 2 2) (exBefore ++ exResize0) with
  | some S =>
    quiescentB S && entries S == [(0, (30, 300)), (1, (10, 100)), (2, (20, 200)), (3, (40, 400))] &&
      S.bins.map BinG.liveCells == [[.list 1, .list 2], [.tree 0]] &&
      shape S == [(.moved, .list 1, .list 2, .new, true, 49), (.tree 0, .empty, .empty, .old, false, 49)] &&
      (List.range 6).map (absMap S) == [some (30, 300), some (10, 100), some (20, 200), some (40, 400), none, none] &&
      unlockedB S
  | none => false

set_option maxRecDepth 2000 in
theorem exMidCheck_true : exMidCheck = true := by decide

/-- the end of the run: a reachable quiescent table, both lineages resized (one of them by a tree-bin
transfer), with its entries and its abstract map on the keys `0 … 5` -/
theorem example_end :
    ∃ S : State, Reachable 2 2 S ∧ quiescent S ∧
      entries S = [(0, (30, 300)), (1, (10, 100)), (5, (50, 500)), (3, (41, 401))] ∧
      S.bins.map BinG.liveCells = [[.list 1, .list 2], [.tree 1, .tree 2]] ∧
      (List.range 6).map (absMap S) = exAbs := by
  have h := exEndCheck_true
  unfold exEndCheck at h
  cases hrun : run (init 2 2) exSchedule with
  | none => rw [hrun] at h; cases h
  | some S =>
    rw [hrun] at h
    simp only [Bool.and_eq_true, beq_iff_eq] at h
    obtain ⟨⟨⟨⟨hq, he⟩, hl⟩, ha⟩, -⟩ := h
    exact ⟨S, run_reachable exSchedule Reachable.init hrun, (quiescentB_iff S).1 hq, he, hl, ha⟩

/-- the middle of the run: a reachable quiescent table with one lineage resized and the other not -/
theorem example_mid :
    ∃ S : State, Reachable 2 2 S ∧ quiescent S ∧
      entries S = [(0, (30, 300)), (1, (10, 100)), (2, (20, 200)), (3, (40, 400))] ∧
      S.bins.map BinG.liveCells = [[.list 1, .list 2], [.tree 0]] ∧
      shape S = [(.moved, .list 1, .list 2, .new, true, 49), (.tree 0, .empty, .empty, .old, false, 49)] := by
  have h := exMidCheck_true
  unfold exMidCheck at h
  cases hrun : run (init 2 2) (exBefore ++ exResize0) with
  | none => rw [hrun] at h; cases h
  | some S =>
    rw [hrun] at h
    simp only [Bool.and_eq_true, beq_iff_eq] at h
    obtain ⟨⟨⟨⟨⟨hq, he⟩, hl⟩, hs⟩, -⟩, -⟩ := h
    exact ⟨S, run_reachable _ Reachable.init hrun, (quiescentB_iff S).1 hq, he, hl, hs⟩

end Flurry.Proto.TableG
