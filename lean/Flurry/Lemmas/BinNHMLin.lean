import Flurry.Lemmas.BinNLin
import Flurry.Lemmas.BinNInvStep
import Flurry.Lemmas.BinNHMInvStep
/-! # Proto/BinNH — port of the `Proto/BinN` lemma file of the same name to the heap invariant with ONE
MID-TRANSFER CELL PER HELPER (`Lemmas/BinNHMDefs.lean`); statements about `BinN.State`. Original header: the ghost invariant holds in every reachable state (C01, C10)

`ginv_step`: every transition preserves `∃ G A pt, Inv ∧ GInv`. Linearization points: lock-holding writers at
their single store (`wStore`), the lock-free insert at its successful CAS, writers and readers that see an
empty cell at that load, readers *in hindsight* (`Good`). The transfers, allocations and commits have no
point: none of their steps changes the abstract state of any key. -/
namespace Flurry.Proto.BinNHM
open Flurry.Proto.BinN
open Flurry.Lin
open Flurry.Proto.BinX (NodeS Cell Pending isReader dflt nodeAt nodeAt_of_some get_set get_set_self get_set_ne
  nextA nextA_old nextA_new updPt updPt_self updPt_ne CallOK Sim isReader_eq_isRead mem_singleton_key chainH_empty)

theorem AbsEff.quiet_of {s s' : State} {l : Local} (ae : AbsEff s s' l) (h1 : ∀ g, l.pc ≠ .wCas g)
    (h2 : ∀ g h pr hi hn, l.pc ≠ .wStore g h pr hi hn) : ∀ k, absOf s' k = absOf s k := by
  cases ae with
  | quiet h => exact h
  | cas p g v vi _ hpc _ _ _ => exact absurd hpc (h1 g)
  | store p g h pr hi hn _ hpc _ _ => exact absurd hpc (h2 g h pr hi hn)

theorem absOf_of_empty {s : State} {k : Nat} (h : liveCell s k = .empty) : absOf s k = none := by
  rw [absOf_eq]
  unfold LC
  rw [h, chainOfCell_eq, chainH_empty]; rfl

/-- the point of a call that completes without a store of its own -/
theorem fin_point {k : Nat} {s : State} {G : Ghost} {A : Nat → KSt} {pt : Nat → Nat} {t : Nat} {l : Local}
    {p : Pending} {res : KRes}
    (g : GInv k s G A pt) (I : Inv s G) (hl : s.threads[t]? = some l) (hp : l.call = some p)
    (hk : p.key = k) (hf : Fin s p l.pc res) :
    ∃ τ0, p.inv ≤ τ0 ∧ τ0 ≤ s.now + 1 ∧
      (isRead p.op = true →
        specStep (nextA A s.now (absOf s k) τ0) p.op = (nextA A s.now (absOf s k) τ0, res)) ∧
      (isRead p.op = false → τ0 = s.now + 1 ∧
        specStep (nextA A s.now (absOf s k) s.now) p.op = (nextA A s.now (absOf s k) (s.now + 1), res)) := by
  have hop := I.thr.opOK t l p hl hp
  have hpi := I.thr.pendTime t l p hl hp
  obtain ⟨pc, call⟩ := l
  simp only at hp hf hop
  subst hp
  cases hf with
  | @rEmpty g' hc =>
    have hrd : isRead p.op = true := by rw [← isReader_eq_isRead]; exact hop
    have hlive := I.gen.live_of_gen hl rfl (g := g') rfl (by rw [hc]; simp)
    rw [hc] at hlive
    have hnone : absOf s k = none := by rw [← hk]; exact absOf_of_empty hlive
    refine ⟨s.now, hpi, by omega, ?_, fun h => by rw [hrd] at h; cases h⟩
    intro _
    rw [nextA_old (Nat.le_refl _), g.core.hA, hnone]
    exact missRes_spec hrd
  | miss =>
    have hrd : isRead p.op = true := by rw [← isReader_eq_isRead]; exact hop
    obtain ⟨τ, h1, h2, h3⟩ := (g.readers t _ p none hl rfl hk rfl).miss
    refine ⟨τ, h1, by omega, ?_, fun h => by rw [hrd] at h; cases h⟩
    intro _
    rw [nextA_old h2, h3]
    exact missRes_spec hrd
  | @hit c n hn hkey =>
    have hrd : isRead p.op = true := by rw [← isReader_eq_isRead]; exact hop
    have hnode := nodeAt_of_some hn
    obtain ⟨τ, h1, h2, h3⟩ := (g.readers t _ p (some c) hl rfl hk rfl).hit I.heap g.core.hA hpi
      (by rw [hnode, hkey, hk])
    refine ⟨τ, h1, by omega, ?_, fun h => by rw [hrd] at h; cases h⟩
    intro _
    rw [nextA_old h2, h3, hnode]
    exact hitRes_spec hrd n
  | @wEmpty g' hc hnot =>
    have hwr : isRead p.op = false := by rw [← isReader_eq_isRead]; exact hop
    have hlive := I.gen.live_of_gen hl rfl (g := g') rfl (by rw [hc]; simp)
    rw [hc] at hlive
    have hnone : absOf s k = none := by rw [← hk]; exact absOf_of_empty hlive
    refine ⟨s.now + 1, by omega, Nat.le_refl _, fun h => (by rw [hwr] at h; cases h), fun _ => ⟨rfl, ?_⟩⟩
    rw [nextA_old (Nat.le_refl _), nextA_new, g.core.hA, hnone]
    cases hop' : p.op with
    | ins v vi => exact absurd ⟨v, vi, Or.inl hop'⟩ hnot
    | tryIns v vi => exact absurd ⟨v, vi, Or.inr hop'⟩ hnot
    | get => rw [hop'] at hwr; cases hwr
    | has => rw [hop'] at hwr; cases hwr
    | rm => rfl
    | cipInc nvi => rfl
    | cipRm => rfl

/-- the store of a validated writer is the specification step on its own key and leaves every other key alone -/
theorem Inv.store_abs {s : State} {G : Ghost} (I : Inv s G) {t : Nat} {l : Local} {p : Pending} {g h : Nat}
    {pred hit hnext : Option Nat} (hl : s.threads[t]? = some l) (hp : l.call = some p)
    (hpc : l.pc = .wStore g h pred hit hnext) :
    specStep (absOf s p.key) p.op =
      (absOf (storeAt (tick s) g p pred hit hnext).1 p.key, (storeAt (tick s) g p pred hit hnext).2) ∧
    ∀ k, k ≠ p.key → absOf (storeAt (tick s) g p pred hit hnext).1 k = absOf s k := by
  obtain ⟨pc, call⟩ := l
  simp only at hp hpc
  subst hp hpc
  have T := I.gen.thr t _ hl
  have hv0 : vcell s.cur { pc := Pc.wStore g h pred hit hnext, call := some p } = some (g, p.key % 2 ^ g, h) := rfl
  have act := I.active_of_vcell hl rfl rfl (fun h => h) hv0
  obtain ⟨hcell, -⟩ := T.valid _ _ _ hv0
  have hwr : isReader p.op = false := I.thr.opOK t _ p hl rfl
  have hw := I.walk.walk t _ p hl rfl
  obtain ⟨-, -, -, -, -, hspec, hoth⟩ := store_effect (s := tick s) (I.heap.sameMem (SameMem.tick s)) p hwr
    (act.sameMem (SameMem.tick s)) (h := h) hcell hw.1 hw.2
  refine ⟨?_, ?_⟩
  · rw [absOf_sameMem (SameMem.tick s)] at hspec
    exact hspec
  · intro k hk
    rw [hoth k hk, absOf_sameMem (SameMem.tick s)]

/-- **every transition preserves the structural and the ghost invariant** -/
theorem ginv_step {k : Nat} {s s' : State} {G : Ghost} {A : Nat → KSt} {pt : Nat → Nat} {t : Nat} {l : Local}
    {pick : Nat} (g : GInv k s G A pt) (I : Inv s G) (hl : s.threads[t]? = some l) (hstep : StepK s t l pick s')
    (hlk : ∀ j h, IsMid G j → cellAt s s.cur j = .node h → lockAt s.heap h ≠ some t)
    (hrz : s'.resizing = s.resizing) :
    ∃ A' pt', Inv s' G ∧ GInv k s' G A' pt' := by
  obtain ⟨I', m, ae, -⟩ := stepK_inv I hl hstep hlk hrz
  have hnT := I.noT t l hl
  have H := I.heap
  have T := I.thr
  have hcar := fun hnow => m.carries (k := k) (A := A) (x := absOf s' k) H I'.heap hnow g.core.hA
  cases hstep with
  | idle hpc =>
    have habs : ∀ k, absOf (setT (tick s) t l) k = absOf s k := absOf_congr' rfl rfl rfl
    have he : ∀ now, extOf k now t l = none := fun now =>
      extOf_none_of_pc (by rw [hpc]; intro g h res; simp)
    refine ⟨_, _, I', ginv_quiet (hnew := []) g T (hcar rfl) hl rfl rfl rfl (by simp) (habs k) (he _) (he _) ?_⟩
    intro p cur _ _ hc
    rw [hpc] at hc; cases hc
  | invoke k' op hpc =>
    have habs : ∀ k, absOf (setT (tick s) t
        { pc := if isReader op then .rTable else .wTable, call := some ⟨k', op, s.now + 1⟩ }) k = absOf s k :=
      absOf_congr' rfl rfl rfl
    refine ⟨_, _, I', ginv_quiet (hnew := []) g T (hcar rfl) hl rfl rfl rfl (by simp) (habs k)
      (extOf_none_of_pc (by rw [hpc]; intro g h res; simp))
      (extOf_none_of_pc (by intro g h res; cases isReader op <;> simp)) ?_⟩
    intro p cur _ _ hc
    cases hr : isReader op <;> simp [hr] at hc
  | resize hpc hr => rw [hr] at hrz; cases hrz
  | move p pc' hp hm =>
    have habs : ∀ k, absOf (setT (tick s) t { l with pc := pc' }) k = absOf s k := absOf_congr' rfl rfl rfl
    refine ⟨_, _, I', ginv_quiet (hnew := []) g T (hcar rfl) hl rfl rfl rfl (by simp) (habs k)
      (extOf_none_of_pc hm.not_ext.1) (extOf_none_of_pc hm.not_ext.2) ?_⟩
    intro p1 cur hc1 hk1 hpc1
    simp only at hc1 hpc1
    have hpp : p1 = p := by rw [hp] at hc1; exact (Option.some.inj hc1).symm
    subst hpp
    have hpi := I.thr.pendTime t l p1 hl hp
    refine ⟨hpi, ?_⟩
    rcases hm.good hpc1 with ⟨g', h, hpc, hcell, rfl⟩ | ⟨c, n, hpc, hn, hne, rfl⟩
    · have hlive := I.gen.live_of_gen hl hp (g := g') (by rw [hpc]; rfl) (by rw [hcell]; simp)
      rw [hcell, hk1] at hlive
      exact Good.cell H hlive
    · have hnode := nodeAt_of_some hn
      have := (g.readers t l p1 (some c) hl hp hk1 hpc).next H g.core.hA hpi (by rw [hnode, ← hk1]; exact hne)
      rw [hnode] at this
      exact this
  | tmove pc' hp hm => obtain ⟨pc, call⟩ := l; cases hm <;> exact absurd trivial hnT
  | lockMove p h x pc' hp hm =>
    have habs := ae.quiet_of (by intro g hpc; rw [hpc] at hm; cases hm) (by intro g h a b c hpc; rw [hpc] at hm; cases hm)
    refine ⟨_, _, I', ginv_quiet (hnew := []) g T (hcar rfl) hl rfl rfl rfl (by simp) (habs k)
      (extOf_none_of_pc hm.not_ext.1) (extOf_none_of_pc hm.not_ext.2.1) ?_⟩
    intro p1 cur _ _ hpc1
    exact absurd hpc1 (hm.not_ext.2.2 cur)
  | tlockMove h x pc' hp hm => obtain ⟨pc, call⟩ := l; cases hm <;> exact absurd trivial hnT
  | fin p res hp hf =>
    have habs : ∀ k, absOf (finish (tick s) t p res) k = absOf s k := absOf_congr' rfl rfl rfl
    by_cases hk : p.key = k
    · obtain ⟨τ0, h1, h2, h3, h4⟩ := fin_point g I hl hp hk hf
      refine ⟨_, _, I', ginv_new (hnew := [(p.key, ⟨t, p.op, res, p.inv, s.now + 1⟩)]) (τ0 := τ0)
        (c0 := ⟨t, p.op, res, p.inv, s.now + 1⟩) g T (hcar rfl) hl hp rfl rfl rfl
        (extOf_none_of_pc hf.not_ext) ?_ ?_ rfl ?_ ?_ ?_ ?_⟩
      · rintro c' (hc' | hc')
        · exact (mem_singleton_key hc').2
        · rw [extOf_idle] at hc'; cases hc'
      · refine mem_callsOnExt.2 (Or.inl ?_)
        show (k, _) ∈ (p.key, _) :: s.hist
        rw [hk]; exact List.mem_cons_self
      · rw [habs k]
        refine ⟨?_, ?_, ?_, ?_⟩
        · show p.inv ≤ updPt pt p.inv τ0 p.inv
          rw [updPt_self]; exact h1
        · show updPt pt p.inv τ0 p.inv ≤ s.now + 1
          rw [updPt_self]; exact h2
        · show isRead p.op = true → specStep (nextA A s.now (absOf s k) (updPt pt p.inv τ0 p.inv)) p.op = (_, res)
          rw [updPt_self]; exact h3
        · show isRead p.op = false → 1 ≤ updPt pt p.inv τ0 p.inv ∧
            specStep (nextA A s.now (absOf s k) (updPt pt p.inv τ0 p.inv - 1)) p.op = (nextA A s.now (absOf s k) (updPt pt p.inv τ0 p.inv), res)
          rw [updPt_self]
          intro hw
          obtain ⟨rfl, h5⟩ := h4 hw
          exact ⟨by omega, by rw [Nat.add_sub_cancel]; exact h5⟩
      · intro hw; exact (h4 hw).1
      · intro hne; exact absurd (habs k) hne
      · intro p1 cur hc1; cases hc1
    · refine ⟨_, _, I', ginv_quiet (hnew := [(p.key, ⟨t, p.op, res, p.inv, s.now + 1⟩)]) g T (hcar rfl) hl rfl rfl rfl
        ?_ (habs k) (extOf_none_of_pc hf.not_ext) (extOf_idle _ _ _) ?_⟩
      · intro c hc; exact hk (mem_singleton_key hc).1.symm
      · intro p1 cur hc1; cases hc1
  | cas p g0 v vi hp hpc hc hop =>
    have habs : ∀ k, absOf (finish (setCell { tick s with heap := s.heap ++ [⟨p.key, (v, vi), none, none⟩] } g0 p.key
        (.node s.heap.length)) t p .none) k = if p.key = k then some (v, vi) else absOf s k :=
      (cas_finish_effect (t := t) H p (I.active_of_empty hl hp (by rw [hpc]; rfl) hc) hc (v, vi)).2
    have hthr : (finish (setCell { tick s with heap := s.heap ++ [⟨p.key, (v, vi), none, none⟩] }
        g0 p.key (.node s.heap.length)) t p .none).threads = s.threads.set t { pc := .idle, call := none } := rfl
    have hnow : (finish (setCell { tick s with heap := s.heap ++ [⟨p.key, (v, vi), none, none⟩] }
        g0 p.key (.node s.heap.length)) t p .none).now = s.now + 1 := rfl
    have hhist : (finish (setCell { tick s with heap := s.heap ++ [⟨p.key, (v, vi), none, none⟩] }
        g0 p.key (.node s.heap.length)) t p .none).hist = [(p.key, ⟨t, p.op, .none, p.inv, s.now + 1⟩)] ++ s.hist := rfl
    have hwr : isRead p.op = false := by
      rw [← isReader_eq_isRead]; rcases hop with h | h <;> rw [h] <;> rfl
    have hpi := I.thr.pendTime t l p hl hp
    by_cases hk : p.key = k
    · have hnone : absOf s k = none := by
        have hlive := I.gen.live_of_gen hl hp (g := g0) (by rw [hpc]; rfl) (by rw [hc]; simp)
        rw [hc] at hlive
        rw [← hk]; exact absOf_of_empty hlive
      refine ⟨_, _, I', ginv_new (hnew := [(p.key, ⟨t, p.op, .none, p.inv, s.now + 1⟩)]) (τ0 := s.now + 1)
        (c0 := ⟨t, p.op, .none, p.inv, s.now + 1⟩) g T (hcar hnow) hl hp hthr hnow hhist
        (extOf_none_of_pc (by rw [hpc]; intro g h res; simp)) ?_ ?_ rfl ?_ (fun _ => rfl) (fun _ => hwr) ?_⟩
      · rintro c' (hc' | hc')
        · exact (mem_singleton_key hc').2
        · rw [extOf_idle] at hc'; cases hc'
      · refine mem_callsOnExt.2 (Or.inl ?_)
        rw [hhist, hk]; exact List.mem_cons_self
      · rw [habs k, if_pos hk]
        refine ⟨?_, ?_, ?_, ?_⟩
        · show p.inv ≤ updPt pt p.inv (s.now + 1) p.inv
          rw [updPt_self]; omega
        · show updPt pt p.inv (s.now + 1) p.inv ≤ s.now + 1
          rw [updPt_self]; exact Nat.le_refl _
        · intro hr; rw [hwr] at hr; cases hr
        · show isRead p.op = false → 1 ≤ updPt pt p.inv (s.now + 1) p.inv ∧
            specStep (nextA A s.now (some (v, vi)) (updPt pt p.inv (s.now + 1) p.inv - 1)) p.op =
              (nextA A s.now (some (v, vi)) (updPt pt p.inv (s.now + 1) p.inv), .none)
          rw [updPt_self]
          intro _
          refine ⟨by omega, ?_⟩
          rw [Nat.add_sub_cancel, nextA_old (Nat.le_refl _), nextA_new, g.core.hA, hnone]
          rcases hop with hop | hop <;> rw [hop] <;> rfl
      · intro p1 cur hc1; cases hc1
    · refine ⟨_, _, I', ginv_quiet (hnew := [(p.key, ⟨t, p.op, .none, p.inv, s.now + 1⟩)]) g T (hcar hnow) hl hthr hnow hhist
        ?_ (by rw [habs k, if_neg hk]) (extOf_none_of_pc (by rw [hpc]; intro g h res; simp)) (extOf_idle _ _ _) ?_⟩
      · intro c hc; exact hk (mem_singleton_key hc).1.symm
      · intro p1 cur hc1; cases hc1
  | store p g0 h pred hit hnext hp hpc =>
    obtain ⟨hspec, hother⟩ := I.store_abs hl hp hpc
    have hop := I.thr.opOK t l p hl hp
    rw [hpc] at hop
    have hwr : isRead p.op = false := by rw [← isReader_eq_isRead]; exact hop
    have hpi := I.thr.pendTime t l p hl hp
    obtain ⟨e1, -, -, e4, e5, -, -⟩ := storeAt_shape (tick s) g0 p pred hit hnext
    have hthr' : (setT (storeAt (tick s) g0 p pred hit hnext).1 t
        { l with pc := .wUnlock g0 h (storeAt (tick s) g0 p pred hit hnext).2 false }).threads =
        s.threads.set t { l with pc := .wUnlock g0 h (storeAt (tick s) g0 p pred hit hnext).2 false } := by
      show (storeAt (tick s) g0 p pred hit hnext).1.threads.set t _ = _
      rw [e1]; rfl
    have hnow' : (setT (storeAt (tick s) g0 p pred hit hnext).1 t
        { l with pc := .wUnlock g0 h (storeAt (tick s) g0 p pred hit hnext).2 false }).now = s.now + 1 := e4
    have hhist' : (setT (storeAt (tick s) g0 p pred hit hnext).1 t
        { l with pc := .wUnlock g0 h (storeAt (tick s) g0 p pred hit hnext).2 false }).hist = [] ++ s.hist := e5
    have habs : ∀ k, absOf (setT (storeAt (tick s) g0 p pred hit hnext).1 t
        { l with pc := .wUnlock g0 h (storeAt (tick s) g0 p pred hit hnext).2 false }) k =
        absOf (storeAt (tick s) g0 p pred hit hnext).1 k :=
      absOf_congr' rfl rfl rfl
    by_cases hk : p.key = k
    · have hext : extOf k (s.now + 1) t { l with pc := .wUnlock g0 h (storeAt (tick s) g0 p pred hit hnext).2 false } =
          some ⟨t, p.op, (storeAt (tick s) g0 p pred hit hnext).2, p.inv, s.now + 1⟩ :=
        extOf_eq_some.2 ⟨g0, h, _, p, rfl, hp, hk, rfl⟩
      refine ⟨_, _, I', ginv_new (hnew := []) (τ0 := s.now + 1)
        (c0 := ⟨t, p.op, (storeAt (tick s) g0 p pred hit hnext).2, p.inv, s.now + 1⟩) g T (hcar hnow') hl hp hthr' hnow' hhist'
        (extOf_none_of_pc (by rw [hpc]; intro g h res; simp)) ?_ ?_ rfl ?_ (fun _ => rfl) (fun _ => hwr) ?_⟩
      · rintro c' (hc' | hc')
        · cases hc'
        · rw [hext] at hc'; cases hc'; rfl
      · refine mem_callsOnExt.2 (Or.inr ⟨t, { l with pc := .wUnlock g0 h (storeAt (tick s) g0 p pred hit hnext).2 false }, ?_, ?_⟩)
        · rw [hthr']; exact get_set_self hl
        · rw [hnow']; exact hext
      · rw [habs k]
        refine ⟨?_, ?_, ?_, ?_⟩
        · show p.inv ≤ updPt pt p.inv (s.now + 1) p.inv
          rw [updPt_self]; omega
        · show updPt pt p.inv (s.now + 1) p.inv ≤ s.now + 1
          rw [updPt_self]; exact Nat.le_refl _
        · intro hr; rw [hwr] at hr; cases hr
        · show isRead p.op = false → 1 ≤ updPt pt p.inv (s.now + 1) p.inv ∧
            specStep (nextA A s.now _ (updPt pt p.inv (s.now + 1) p.inv - 1)) p.op =
              (nextA A s.now _ (updPt pt p.inv (s.now + 1) p.inv), (storeAt (tick s) g0 p pred hit hnext).2)
          rw [updPt_self]
          intro _
          refine ⟨by omega, ?_⟩
          rw [Nat.add_sub_cancel, nextA_old (Nat.le_refl _), nextA_new, g.core.hA, ← hk]
          exact hspec
      · intro p1 cur _ _ hc1; cases hc1
    · refine ⟨_, _, I', ginv_quiet (hnew := []) g T (hcar hnow') hl hthr' hnow' hhist' (by simp)
        (by rw [habs k]; exact hother k (fun h => hk h.symm))
        (extOf_none_of_pc (by rw [hpc]; intro g h res; simp)) (extOf_none_of_key (p := p) hp hk) ?_⟩
      intro p1 cur _ _ hc1; cases hc1
  | unlockFin p g0 h res hp hpc =>
    have habs := ae.quiet_of (by rw [hpc]; intro g; simp) (by rw [hpc]; intro g h a b c; simp)
    by_cases hk : p.key = k
    · have hext : extOf k s.now t l = some ⟨t, p.op, res, p.inv, s.now⟩ :=
        extOf_eq_some.2 ⟨g0, h, res, p, hpc, hp, hk, rfl⟩
      have hsim : Sim ⟨t, p.op, res, p.inv, s.now⟩ ⟨t, p.op, res, p.inv, s.now + 1⟩ :=
        ⟨rfl, rfl, rfl, rfl, Nat.le_succ _⟩
      have hold : (⟨t, p.op, res, p.inv, s.now⟩ : Call) ∈ callsOnExt s k :=
        mem_callsOnExt.2 (Or.inr ⟨t, l, hl, hext⟩)
      have hnew : (⟨t, p.op, res, p.inv, s.now + 1⟩ : Call) ∈
          callsOnExt (finish (setNode (tick s) h (fun m => { m with lock := none })) t p res) k := by
        refine mem_callsOnExt.2 (Or.inl ?_)
        show (k, _) ∈ (p.key, _) :: s.hist
        rw [hk]; exact List.mem_cons_self
      refine ⟨_, _, I', ⟨g.core.frame (i0 := 0) (pt' := pt) T rfl (fun _ _ => rfl) ?_ ?_ (fun hne => absurd (habs k) hne),
        readers_step (l' := { pc := .idle, call := none }) g T (hcar rfl) rfl ?_⟩⟩
      · intro c hc
        rcases ext_forward (s' := finish (setNode (tick s) h (fun m => { m with lock := none })) t p res)
          (l' := { pc := .idle, call := none })
          (hnew := [(p.key, ⟨t, p.op, res, p.inv, s.now + 1⟩)]) hl rfl rfl rfl c hc with h | h
        · exact h
        · rw [hext] at h; cases h
          exact ⟨_, hnew, hsim⟩
      · intro c' hc'
        rcases ext_backward (s := s) (l' := { pc := .idle, call := none })
          (hnew := [(p.key, ⟨t, p.op, res, p.inv, s.now + 1⟩)]) rfl rfl rfl c' hc' with h | h | h
        · exact Or.inl h
        · have := (mem_singleton_key h).2; subst this
          exact Or.inl ⟨_, hold, hsim⟩
        · rw [extOf_idle] at h; cases h
      · intro p1 cur hc1; cases hc1
    · refine ⟨_, _, I', ginv_quiet (hnew := [(p.key, ⟨t, p.op, res, p.inv, s.now + 1⟩)])
        (l' := { pc := .idle, call := none }) g T (hcar rfl) hl rfl rfl rfl
        ?_ (habs k) (extOf_none_of_key (p := p) hp hk) (extOf_idle _ _ _) ?_⟩
      · intro c hc; exact hk (mem_singleton_key hc).1.symm
      · intro p1 cur hc1; cases hc1
  | casMoved j hp hpc hc => rw [hpc] at hnT; exact absurd trivial hnT
  | build j h hp hpc => rw [hpc] at hnT; exact absurd trivial hnT
  | storeLow j h lo hg hp hpc => rw [hpc] at hnT; exact absurd trivial hnT
  | storeHigh j h hg hp hpc => rw [hpc] at hnT; exact absurd trivial hnT
  | storeMoved j h hp hpc => rw [hpc] at hnT; exact absurd trivial hnT
  | commit hp hpc => rw [hpc] at hnT; exact absurd trivial hnT

/-! ## the invariants hold initially -/

theorem init_hinv (n : Nat) : HInv (init n) {} := by
  have hch : ∀ id, chId (init n) id = [] := by
    intro id
    unfold chId BinX.chainH init
    cases hc : BinX.cellHead (getCell { threads := List.replicate n {} } id) <;> rfl
  have hcell : ∀ g j, cellAt (init n) g j = .empty := by
    intro g j
    show cellT [[Cell.empty]] g j = _
    unfold cellT
    cases g with
    | zero => cases j <;> simp
    | succ g => simp
  refine ⟨(init_geninv n).shape, ?_, ?_, ?_, ?_, ?_, ?_, ?_, ?_⟩
  · intro i m j hi; cases hi
  · intro i hi; cases hi
  · intro j lo hg fr hm; cases hm
  · intro id h hc
    have := hcell id.1 id.2
    unfold getCell at hc
    rw [this] at hc; cases hc
  · intro id; rw [hch]; intro a ha; cases ha
  · intro id; rw [hch]; intro a ha; cases ha
  · intro j' _ _; exact hcell _ _
  · intro j lo hg fr hm; cases hm

theorem init_inv (n : Nat) : Inv (init n) {} := by
  refine ⟨init_geninv n, init_hinv n, init_tinv n, ⟨?_⟩, ?_, ?_⟩
  · intro t l p hl hc
    rw [init_thread hl] at hc; cases hc
  · intro t l hl
    rw [init_thread hl]; exact fun h => h
  · intro j hm; cases hm

theorem init_ginv (n k : Nat) : GInv k (init n) {} (fun _ => none) id := by
  refine ⟨init_gcore n k, ?_⟩
  intro t l p cur hl hc
  rw [init_thread hl] at hc
  cases hc

end Flurry.Proto.BinNHM
