import Flurry.Lemmas.BinKStore
/-! # Proto/BinK: every transition preserves the structural invariant (C01, a bin that changes its kind)

`inv_store`: the generic part for a store of the (unique) validated thread, or of the CAS into the
empty cell: all other threads are not validated, so what their program counters know survives. Then the
ten stores one by one, `stepK_inv`, `init_inv`, `reachable_inv`. -/
namespace Flurry.Proto.BinK
open Flurry.Lin

/-- what the program counter of a thread that is not validated knows survives a store -/
theorem pcInv_nonvalid {s s' : State} {p : Pending} {pc : Pc} (h1 : validL pc = none) (h2 : validT pc = none)
    (h : PcInv s p pc) (hlen : s.heap.length ≤ s'.heap.length) : PcInv s' p pc := by
  cases pc <;> simp [validL] at h1 <;> simp [validT] at h2 <;> simp only [PcInv] at h ⊢
  case rNode cur =>
    cases cur with
    | none => trivial
    | some c => exact Nat.lt_of_lt_of_le h hlen
  case rState b cur =>
    cases cur with
    | none => trivial
    | some c => exact Nat.lt_of_lt_of_le h hlen
  case rLin b c => omega
  case rCas b c r => omega
  case rVal i => exact h
  case lNode cur =>
    cases cur with
    | none => trivial
    | some c => exact Nat.lt_of_lt_of_le h hlen

theorem kInv_nonvalid {s' : State} {pc : Pc} (h1 : validL pc = none) : KInv s' pc := by
  cases pc <;> simp [validL] at h1 <;> simp only [KInv]

/-- a store of the validated thread (or the CAS into the empty cell) -/
theorem inv_store {s s' : State} {t : Nat} {l l' : Local} (I : Inv s) (hl : s.threads[t]? = some l)
    (hv : validated l.pc = true ∨ s.cell = .empty) (hthr : s'.threads = s.threads.set t l')
    (H' : HInv s') (T' : TInv s') (L' : LInv s') (hlen : s.heap.length ≤ s'.heap.length)
    (hself : ∀ p, l'.call = some p → PcInv s' p l'.pc) (hkself : KInv s' l'.pc)
    (htree : ∀ b, s'.cell = .tree b → ∀ j, j < s'.heap.length → (nodeAt s'.heap j).owner = some b →
      (nodeAt s'.heap j).inTree = true → j ∉ liveChain s' →
      (∃ res, l'.pc = .tRestructure b j res) ∨ (∃ res, l'.pc = .tUntreeify b res))
    (hchain : ∀ b, s'.cell = .tree b → ∀ j ∈ liveChain s', (nodeAt s'.heap j).inTree = false →
      l'.pc = .tTreeLinkLocked b j) : Inv s' := by
  have hself' : s'.threads[t]? = some l' := by rw [hthr]; exact get_set_self hl
  refine ⟨H', T', L', ?_, ?_, ?_, ?_⟩
  · intro t1 l1 p1 h1 hc1
    rw [hthr] at h1
    rcases get_set h1 with ⟨rfl, rfl⟩ | ⟨hne, h1⟩
    · exact hself p1 hc1
    · obtain ⟨e1, e2⟩ := others_not_valid I.lock hl hv hne h1
      exact pcInv_nonvalid e1 e2 (I.data.pcInv t1 l1 p1 h1 hc1) hlen
  · intro t1 l1 h1
    rw [hthr] at h1
    rcases get_set h1 with ⟨rfl, rfl⟩ | ⟨hne, h1⟩
    · exact hkself
    · exact kInv_nonvalid (others_not_valid I.lock hl hv hne h1).1
  · intro b hc j hj ho hin hnc
    exact ⟨t, l', hself', htree b hc j hj ho hin hnc⟩
  · intro b hc j hj hin
    exact ⟨t, l', hself', hchain b hc j hj hin⟩

theorem validated_of_validT {pc : Pc} {b : Nat} (h : validT pc = some b) : validated pc = true := by
  unfold validated; rw [h]; simp

theorem validated_of_validL {pc : Pc} {h0 : Nat} (h : validL pc = some h0) : validated pc = true := by
  unfold validated; rw [h]; simp

/-- the lock invariant after a store that leaves lock words, the bin cell and the synchronisation
words alone -/
theorem linv_data {s s' : State} {t : Nat} {l l' : Local} (I : Inv s) (hl : s.threads[t]? = some l)
    (hcell : s'.cell = s.cell) (hthr : s'.threads = s.threads.set t l')
    (htlen : s'.tbins.length = s.tbins.length)
    (hsync : ∀ b, (binAt s'.tbins b).mutex = (binAt s.tbins b).mutex ∧
      (binAt s'.tbins b).writer = (binAt s.tbins b).writer ∧ (binAt s'.tbins b).waiter = (binAt s.tbins b).waiter ∧
      (binAt s'.tbins b).readers = (binAt s.tbins b).readers)
    (hlock : ∀ h, (nodeAt s'.heap h).lock = (nodeAt s.heap h).lock)
    (e1 : holdsLock l'.pc = holdsLock l.pc) (F : LFacts s l.pc l'.pc) : LInv s' :=
  linv_same I.lock I.heap hl hcell hthr htlen hsync (lockfun_same I.lock hl e1 hlock)
    (fun _ hp => Or.inl (e1 ▸ hp)) F

theorem priv_same {s s' : State} {t : Nat} {l l' : Local} (hl : s.threads[t]? = some l)
    (hthr : s'.threads = s.threads.set t l') (hks : ∀ h b, l'.pc ≠ .kStore h b)
    (hown : ∀ j, j < s.heap.length → (nodeAt s'.heap j).owner = (nodeAt s.heap j).owner) :
    ∀ j, j < s.heap.length → Priv s' j → Priv s j :=
  priv_mono hl hthr (fun h b e => absurd e (hks h b)) hown

/-! ## the stores of the tree form -/

/-- the value store of a tree-bin writer (`tVal`) -/
theorem tval_facts {s : State} {t : Nat} {l : Local} {p : Pending} {b i : Nat} {v : Nat × Nat} {res : KRes}
    (I : Inv s) (hl : s.threads[t]? = some l) (hp : l.call = some p) (hpc : l.pc = .tVal b i v res) :
    let s' := setT (setNode (tick s) i (fun n => { n with val := v })) t { l with pc := .tUnlockM b res false }
    Inv s' ∧ HeapStep s.heap (liveChain s) (Priv s) s'.heap (liveChain s') (Priv s') ∧
      ∀ k, absOf s' k = if (nodeAt s.heap i).key = k then some v else absOf s k := by
  intro s'
  have h0 := I.data.pcInv t l p hl hp
  rw [hpc] at h0
  simp only [PcInv] at h0
  obtain ⟨hi, hkey0, hspec⟩ := h0
  have hvT : validT l.pc = some b := by rw [hpc]; rfl
  have hcell := I.lock.vT t l b hl hvT
  have hP : ∀ j, j < s.heap.length → Priv s' j → Priv s j :=
    priv_same (l' := { l with pc := .tUnlockM b res false }) hl rfl (by simp) (fun j _ => by
      show (nodeAt (s.heap.modify i _) j).owner = _
      rw [nodeAt_modify]; split <;> rfl)
  obtain ⟨H', hs, hlc, hnode, habs⟩ := sval_store (s' := s') I.heap hi rfl rfl rfl hP
  have hsub := I.tree_sub_chain hl hvT (by rw [hpc]; intro j res; simp) (by rw [hpc]; intro res; simp)
  have hsup := I.chain_sub_tree hl hvT (by rw [hpc]; intro j; simp)
  have hfield : ∀ j, (nodeAt s'.heap j).inTree = (nodeAt s.heap j).inTree ∧
      (nodeAt s'.heap j).owner = (nodeAt s.heap j).owner ∧ (nodeAt s'.heap j).lock = (nodeAt s.heap j).lock := by
    intro j; rw [hnode]; split <;> exact ⟨rfl, rfl, rfl⟩
  have hlen : s'.heap.length = s.heap.length := by show (s.heap.modify i _).length = _; rw [List.length_modify]
  refine ⟨?_, hs, habs⟩
  refine inv_store (l' := { l with pc := .tUnlockM b res false }) I hl (Or.inl (validated_of_validT hvT)) rfl H' ?_ ?_
    (by omega) (by intro p1 _; simp only [PcInv]) (by simp only [KInv]) ?_ ?_
  · refine tinv_keep (l' := { l with pc := .tUnlockM b res false }) I.thr hl rfl rfl rfl rfl ?_
    intro p1 hp1 _ _
    have := I.thr.opOK t l p1 hl hp1 (by rw [hpc]; simp) (by rw [hpc]; rfl)
    rw [hpc] at this
    exact this
  · refine linv_data (l' := { l with pc := .tUnlockM b res false }) I hl rfl rfl rfl (fun b' => ⟨rfl, rfl, rfl, rfl⟩)
      (fun h => (hfield h).2.2) (by rw [hpc]; rfl) ?_
    rw [hpc]
    constructor <;> simp [validL, validT, holdsMutex, holdsRead, wr, isLoop, binRef]
  · intro b' hc' j hj ho hin hnc
    have hc'' : s.cell = .tree b' := hc'
    rw [hcell] at hc''; cases hc''
    rw [(hfield j).1] at hin; rw [(hfield j).2.1] at ho; rw [hlc] at hnc; rw [hlen] at hj
    exact absurd (hsub j hj ho hin) hnc
  · intro b' _ j hj hin
    rw [(hfield j).1] at hin; rw [hlc] at hj
    rw [hsup j hj] at hin; cases hin

/-- linking the freshly prepended node into the tree (`tTreeLinkLocked`) -/
theorem treeLink_facts {s : State} {t : Nat} {l : Local} {p : Pending} {b x : Nat}
    (I : Inv s) (hl : s.threads[t]? = some l) (hp : l.call = some p) (hpc : l.pc = .tTreeLinkLocked b x) :
    let s' := setT (setNode (tick s) x (fun n => { n with inTree := true })) t { l with pc := .tUnlockRoot b .none }
    Inv s' ∧ HeapStep s.heap (liveChain s) (Priv s) s'.heap (liveChain s') (Priv s') ∧
      ∀ k, absOf s' k = absOf s k := by
  intro s'
  have h0 := I.data.pcInv t l p hl hp
  rw [hpc] at h0
  simp only [PcInv] at h0
  obtain ⟨hx, hxin, hxk, hfresh⟩ := h0
  have hvT : validT l.pc = some b := by rw [hpc]; rfl
  have hcell := I.lock.vT t l b hl hvT
  have hP : ∀ j, j < s.heap.length → Priv s' j → Priv s j :=
    priv_same (l' := { l with pc := .tUnlockRoot b .none }) hl rfl (by simp) (fun j _ => by
      show (nodeAt (s.heap.modify x _) j).owner = _
      rw [nodeAt_modify]; split <;> rfl)
  obtain ⟨H', hs, hlc, hlen, hnode, habs⟩ := sflag_store (s' := s') (x := true) I.heap rfl rfl rfl (fun _ => hx) hP
  have hsub := I.tree_sub_chain hl hvT (by rw [hpc]; intro j res; simp) (by rw [hpc]; intro res; simp)
  have hfield : ∀ j, (nodeAt s'.heap j).owner = (nodeAt s.heap j).owner ∧ (nodeAt s'.heap j).lock = (nodeAt s.heap j).lock ∧
      (j ≠ x → (nodeAt s'.heap j).inTree = (nodeAt s.heap j).inTree) := by
    intro j; rw [hnode]; split
    · rename_i h; exact ⟨rfl, rfl, fun hne => absurd h.1 hne⟩
    · exact ⟨rfl, rfl, fun _ => rfl⟩
  refine ⟨?_, hs, habs⟩
  refine inv_store (l' := { l with pc := .tUnlockRoot b .none }) I hl (Or.inl (validated_of_validT hvT)) rfl H' ?_ ?_
    (by omega) (by intro p1 _; simp only [PcInv]) (by simp only [KInv]) ?_ ?_
  · refine tinv_keep (l' := { l with pc := .tUnlockRoot b .none }) I.thr hl rfl rfl rfl rfl ?_
    intro p1 hp1 _ _
    have := I.thr.opOK t l p1 hl hp1 (by rw [hpc]; simp) (by rw [hpc]; rfl)
    rw [hpc] at this
    exact this
  · refine linv_data (l' := { l with pc := .tUnlockRoot b .none }) I hl rfl rfl rfl (fun b' => ⟨rfl, rfl, rfl, rfl⟩)
      (fun h => (hfield h).2.1) (by rw [hpc]; rfl) ?_
    rw [hpc]
    constructor <;> simp [validL, validT, holdsMutex, holdsRead, wr, isLoop, binRef]
  · intro b' hc' j hj ho hin hnc
    have hc'' : s.cell = .tree b' := hc'
    rw [hcell] at hc''; cases hc''
    rw [hlc] at hnc; rw [hlen] at hj
    by_cases hjx : j = x
    · subst hjx; exact absurd hx hnc
    · rw [(hfield j).2.2 hjx] at hin; rw [(hfield j).1] at ho
      exact absurd (hsub j hj ho hin) hnc
  · intro b' _ j hj hin
    rw [hlc] at hj
    exfalso
    by_cases hjx : j = x
    · subst hjx
      rw [hnode, if_pos ⟨rfl, I.heap.chain_lt hj⟩] at hin
      cases hin
    · rw [(hfield j).2.2 hjx] at hin
      obtain ⟨t0, l0, h0, hpc0⟩ := I.data.chainSub b hcell j hj hin
      have := I.lock.valid_unique hl h0 (validated_of_validT hvT) (by rw [hpc0]; rfl)
      subst this
      rw [hl] at h0; cases h0
      rw [hpc] at hpc0; cases hpc0
      exact hjx rfl

/-- taking the unlinked node out of the tree (`tRestructure`) -/
theorem untree_facts {s : State} {t : Nat} {l : Local} {p : Pending} {b i : Nat} {res : KRes}
    (I : Inv s) (hl : s.threads[t]? = some l) (hp : l.call = some p) (hpc : l.pc = .tRestructure b i res) :
    let s' := setT (setNode (tick s) i (fun n => { n with inTree := false })) t { l with pc := .tUnlockRoot b res }
    Inv s' ∧ HeapStep s.heap (liveChain s) (Priv s) s'.heap (liveChain s') (Priv s') ∧
      ∀ k, absOf s' k = absOf s k := by
  intro s'
  have h0 := I.data.pcInv t l p hl hp
  rw [hpc] at h0
  simp only [PcInv] at h0
  obtain ⟨hi, hin0, hil, hio⟩ := h0
  have hvT : validT l.pc = some b := by rw [hpc]; rfl
  have hcell := I.lock.vT t l b hl hvT
  have hP : ∀ j, j < s.heap.length → Priv s' j → Priv s j :=
    priv_same (l' := { l with pc := .tUnlockRoot b res }) hl rfl (by simp) (fun j _ => by
      show (nodeAt (s.heap.modify i _) j).owner = _
      rw [nodeAt_modify]; split <;> rfl)
  obtain ⟨H', hs, hlc, hlen, hnode, habs⟩ := sflag_store (s' := s') (x := false) I.heap rfl rfl rfl
    (fun h => by cases h) hP
  have hsup := I.chain_sub_tree hl hvT (by rw [hpc]; intro j; simp)
  have hfield : ∀ j, (nodeAt s'.heap j).owner = (nodeAt s.heap j).owner ∧ (nodeAt s'.heap j).lock = (nodeAt s.heap j).lock ∧
      (j ≠ i → (nodeAt s'.heap j).inTree = (nodeAt s.heap j).inTree) := by
    intro j; rw [hnode]; split
    · rename_i h; exact ⟨rfl, rfl, fun hne => absurd h.1 hne⟩
    · exact ⟨rfl, rfl, fun _ => rfl⟩
  refine ⟨?_, hs, habs⟩
  refine inv_store (l' := { l with pc := .tUnlockRoot b res }) I hl (Or.inl (validated_of_validT hvT)) rfl H' ?_ ?_
    (by omega) (by intro p1 _; simp only [PcInv]) (by simp only [KInv]) ?_ ?_
  · refine tinv_keep (l' := { l with pc := .tUnlockRoot b res }) I.thr hl rfl rfl rfl rfl ?_
    intro p1 hp1 _ _
    have := I.thr.opOK t l p1 hl hp1 (by rw [hpc]; simp) (by rw [hpc]; rfl)
    rw [hpc] at this
    exact this
  · refine linv_data (l' := { l with pc := .tUnlockRoot b res }) I hl rfl rfl rfl (fun b' => ⟨rfl, rfl, rfl, rfl⟩)
      (fun h => (hfield h).2.1) (by rw [hpc]; rfl) ?_
    rw [hpc]
    constructor <;> simp [validL, validT, holdsMutex, holdsRead, wr, isLoop, binRef]
  · intro b' hc' j hj ho hin hnc
    have hc'' : s.cell = .tree b' := hc'
    rw [hcell] at hc''; cases hc''
    rw [hlc] at hnc; rw [hlen] at hj
    exfalso
    by_cases hji : j = i
    · subst hji
      rw [hnode, if_pos ⟨rfl, hil⟩] at hin
      cases hin
    · rw [(hfield j).2.2 hji] at hin; rw [(hfield j).1] at ho
      obtain ⟨t0, l0, h0, hpc0⟩ := I.data.treeSub b hcell j hj ho hin hnc
      have hv0 : validated l0.pc = true := by
        rcases hpc0 with ⟨r, e⟩ | ⟨r, e⟩ <;> rw [e] <;> rfl
      have := I.lock.valid_unique hl h0 (validated_of_validT hvT) hv0
      subst this
      rw [hl] at h0; cases h0
      rw [hpc] at hpc0
      rcases hpc0 with ⟨r, e⟩ | ⟨r, e⟩
      · cases e; exact hji rfl
      · cases e
  · intro b' _ j hj hin
    rw [hlc] at hj
    have hji : j ≠ i := fun e => hi (e ▸ hj)
    rw [(hfield j).2.2 hji, hsup j hj] at hin; cases hin

theorem liveStart_tree {s : State} {b : Nat} (hc : s.cell = .tree b) : liveStart s = (binAt s.tbins b).first := by
  unfold liveStart; rw [hc]

theorem liveOwner_tree {s : State} {b : Nat} (hc : s.cell = .tree b) : liveOwner s = some b := by
  unfold liveOwner; rw [hc]

theorem liveTree_iff_tree {s : State} {b : Nat} (hc : s.cell = .tree b) (j : Nat) :
    liveTree s j ↔ j < s.heap.length ∧ (nodeAt s.heap j).inTree = true ∧ (nodeAt s.heap j).owner = some b := by
  unfold liveTree
  constructor
  · rintro ⟨h1, h2, b', h3, h4⟩
    rw [hc] at h3; cases h3
    exact ⟨h1, h2, h4⟩
  · rintro ⟨h1, h2, h3⟩
    exact ⟨h1, h2, b, hc, h3⟩

theorem liveTree_not_tree {s : State} (hc : ∀ b, s.cell ≠ .tree b) (j : Nat) : ¬ liveTree s j := by
  rintro ⟨_, _, b, h3, _⟩
  exact hc b h3

/-- the insertion of a new key into the tree bin: the store to `first` (`tPrependLocked`) -/
theorem prepend_facts {s : State} {t : Nat} {l : Local} {p : Pending} {b v vi : Nat}
    (I : Inv s) (hl : s.threads[t]? = some l) (hp : l.call = some p) (hpc : l.pc = .tPrependLocked b) :
    let new : NodeS := ⟨p.key, (v, vi), (binAt s.tbins b).first, none, false, some b⟩
    let s' := setT
        (setBin { heap := s.heap ++ [new], tbins := s.tbins, cell := s.cell, threads := s.threads, hist := s.hist,
                  now := s.now + 1 } b (fun y => { y with first := some s.heap.length })) t
        { l with pc := .tTreeLinkLocked b s.heap.length }
    Inv s' ∧ HeapStep s.heap (liveChain s) (Priv s) s'.heap (liveChain s') (Priv s') ∧
      (absOf s p.key = none) ∧
      ∀ k, absOf s' k = if p.key = k then some (v, vi) else absOf s k := by
  intro new s'
  have h0 := I.data.pcInv t l p hl hp
  rw [hpc] at h0
  simp only [PcInv, FreshOK] at h0
  have hvT : validT l.pc = some b := by rw [hpc]; rfl
  have hcell := I.lock.vT t l b hl hvT
  have hb0 := (I.lock.refOK t l b hl (by rw [hpc]; rfl)).1
  have H := I.heap
  have hsub := I.tree_sub_chain hl hvT (by rw [hpc]; intro j res; simp) (by rw [hpc]; intro res; simp)
  have hsup := I.chain_sub_tree hl hvT (by rw [hpc]; intro j; simp)
  have hheap : s'.heap = s.heap ++ [new] := rfl
  have htb : s'.tbins = s.tbins.modify b (fun y => { y with first := some s.heap.length }) := rfl
  have hcell' : s'.cell = .tree b := hcell
  have hold : ∀ j, j < s.heap.length → nodeAt s'.heap j = nodeAt s.heap j := fun j hj => nodeAt_append_left _ hj
  have hnew : nodeAt s'.heap s.heap.length = new := nodeAt_append_new _ _
  have hlen : s'.heap.length = s.heap.length + 1 := by rw [hheap]; simp
  have hfr : ∀ j, (j ∈ liveChain s ∨ liveTree s j) → (nodeAt s.heap j).key ≠ p.key := by
    intro j hj
    rcases hj with hj | hj
    · have ho := H.chainOwner j hj
      rw [liveOwner_tree hcell] at ho
      exact h0 j (H.chain_lt hj) ho (hsup j hj)
    · obtain ⟨h1, h2, h3⟩ := (liveTree_iff_tree hcell j).1 hj
      exact h0 j h1 h3 h2
  have hT : ∀ j, liveTree s' j → j < s.heap.length ∧ liveTree s j := by
    intro j hj
    obtain ⟨h1, h2, h3⟩ := (liveTree_iff_tree hcell' j).1 hj
    have hjl : j < s.heap.length := by
      apply Classical.byContradiction
      intro hn
      have : j = s.heap.length := by omega
      subst this
      rw [hnew] at h2; cases h2
    rw [hold j hjl] at h2 h3
    exact ⟨hjl, (liveTree_iff_tree hcell j).2 ⟨hjl, h2, h3⟩⟩
  have hP : ∀ j, j < s.heap.length → Priv s' j → Priv s j :=
    priv_same (l' := { l with pc := .tTreeLinkLocked b s.heap.length }) hl rfl (by simp)
      (fun j hj => by rw [hold j hj])
  have hO : ∀ j b', (nodeAt s'.heap j).owner = some b' → b' < s'.tbins.length := by
    intro j b' hj
    rw [htb, List.length_modify]
    by_cases hjl : j < s.heap.length
    · rw [hold j hjl] at hj; exact H.ownerOK j b' hj
    · by_cases hj2 : j = s.heap.length
      · subst hj2; rw [hnew] at hj; cases hj; exact hb0
      · rw [nodeAt_ge (by omega)] at hj; cases hj
  have hF : ∀ b' h, (binAt s'.tbins b').first = some h → h < s'.heap.length := by
    intro b' h hf
    rw [hlen]
    rw [htb, binAt_modify] at hf
    split at hf
    · cases hf; omega
    · have := H.firstOK b' h hf; omega
  have hC : ∀ b', s'.cell = .tree b' → b' < s'.tbins.length := by
    intro b' hc'
    rw [htb, List.length_modify]
    exact H.cellOK b' hc'
  obtain ⟨H', hs, hlc, habs⟩ := sprepend_store (s' := s') (new := new) H hheap
    (by rw [liveStart_tree hcell', htb, binAt_modify_self _ hb0])
    (by rw [liveStart_tree hcell]) hfr hT hP hO hF hC
    (by rw [liveOwner_tree hcell, liveOwner_tree hcell']) (by rw [liveOwner_tree hcell'])
  have habs0 : absOf s p.key = none := by
    rw [absOf_eq, absL_eq_none_iff]
    intro j hj; exact hfr j (Or.inl hj)
  refine ⟨?_, hs, habs0, habs⟩
  refine inv_store (l' := { l with pc := .tTreeLinkLocked b s.heap.length }) I hl
    (Or.inl (validated_of_validT hvT)) rfl H' ?_ ?_ (by omega) ?_ (by simp only [KInv]) ?_ ?_
  · refine tinv_keep (l' := { l with pc := .tTreeLinkLocked b s.heap.length }) I.thr hl rfl rfl rfl rfl ?_
    intro p1 hp1 _ _
    have := I.thr.opOK t l p1 hl hp1 (by rw [hpc]; simp) (by rw [hpc]; rfl)
    rw [hpc] at this
    exact this
  · refine linv_data (l' := { l with pc := .tTreeLinkLocked b s.heap.length }) I hl rfl rfl
      (by rw [htb, List.length_modify]) ?_ ?_ (by rw [hpc]; rfl) ?_
    · intro b'
      rw [htb, binAt_modify]
      split <;> exact ⟨rfl, rfl, rfl, rfl⟩
    · intro h
      by_cases hh : h < s.heap.length
      · rw [hold h hh]
      · by_cases hh2 : h = s.heap.length
        · subst hh2; rw [hnew, nodeAt_ge (Nat.le_refl _)]; rfl
        · rw [nodeAt_ge (by omega), nodeAt_ge (by omega)]
    · rw [hpc]
      constructor <;> simp [validL, validT, holdsMutex, holdsRead, wr, isLoop, binRef]
  · intro p1 hp1
    have : p1 = p := by
      have h : l.call = some p1 := hp1
      rw [hp] at h; exact (Option.some.inj h).symm
    subst this
    simp only [PcInv, FreshOK]
    refine ⟨by rw [hlc]; exact List.mem_cons_self, by rw [hnew], by rw [hnew], ?_⟩
    intro j hj ho hin
    rw [hlen] at hj
    by_cases hjl : j < s.heap.length
    · rw [hold j hjl] at ho hin ⊢
      exact h0 j hjl ho hin
    · have : j = s.heap.length := by omega
      subst this
      rw [hnew] at hin; cases hin
  · intro b' hc' j hj ho hin hnc
    have hc'' : s.cell = .tree b' := hc'
    rw [hcell] at hc''; cases hc''
    rw [hlen] at hj
    exfalso
    by_cases hjl : j < s.heap.length
    · rw [hold j hjl] at ho hin
      exact hnc (by rw [hlc]; exact List.mem_cons_of_mem _ (hsub j hjl ho hin))
    · have : j = s.heap.length := by omega
      subst this
      rw [hnew] at hin; cases hin
  · intro b' hc' j hj hin
    have hc'' : s.cell = .tree b' := hc'
    rw [hcell] at hc''; cases hc''
    rw [hlc] at hj
    rcases List.mem_cons.1 hj with hj | hj
    · rw [hj]
    · rw [hold j (H.chain_lt hj), hsup j hj] at hin; cases hin

theorem liveChain_tree {s : State} {b : Nat} (hc : s.cell = .tree b) : liveChain s = chainOfBin s b := by
  unfold liveChain; rw [hc]

theorem liveChain_list {s : State} {h : Nat} (hc : s.cell = .list h) :
    liveChain s = chainFrom s.heap s.heap.length (some h) := by
  unfold liveChain; rw [hc]

/-- the shape of the state after the list unlink of the live node `i` of the live `TreeBin` `b` -/
theorem unlinkOf_shape {s : State} (H : HInv s) {b i : Nat} (hcell : s.cell = .tree b) (hb0 : b < s.tbins.length)
    (hi : i ∈ liveChain s) :
    (unlinkOf (tick s) b i).cell = s.cell ∧ (unlinkOf (tick s) b i).now = s.now + 1 ∧
      (unlinkOf (tick s) b i).hist = s.hist ∧ (unlinkOf (tick s) b i).threads = s.threads ∧
      (unlinkOf (tick s) b i).tbins.length = s.tbins.length ∧
      (∀ b', (binAt (unlinkOf (tick s) b i).tbins b').mutex = (binAt s.tbins b').mutex ∧
        (binAt (unlinkOf (tick s) b i).tbins b').writer = (binAt s.tbins b').writer ∧
        (binAt (unlinkOf (tick s) b i).tbins b').waiter = (binAt s.tbins b').waiter ∧
        (binAt (unlinkOf (tick s) b i).tbins b').readers = (binAt s.tbins b').readers) ∧
      (∀ b' h, (binAt (unlinkOf (tick s) b i).tbins b').first = some h → h < s.heap.length) ∧
      ((∃ l2, liveChain s = i :: l2 ∧ (unlinkOf (tick s) b i).heap = s.heap ∧
          liveStart (unlinkOf (tick s) b i) = (nodeAt s.heap i).next) ∨
        (∃ l1 pr l2, liveChain s = l1 ++ pr :: i :: l2 ∧
          (unlinkOf (tick s) b i).heap = s.heap.modify pr (fun m => { m with next := (nodeAt s.heap i).next }) ∧
          liveStart (unlinkOf (tick s) b i) = liveStart s)) := by
  have hlcb : chainOfBin (tick s) b = liveChain s := (liveChain_tree hcell).symm
  have hil := H.chain_lt hi
  rcases predOf_cases H.nodup hi with ⟨l2, hch, hpr⟩ | ⟨l1, pr, l2, hch, hpr⟩
  · have hU : unlinkOf (tick s) b i = setBin (tick s) b (fun y => { y with first := (nodeAt s.heap i).next }) := by
      unfold unlinkOf; rw [hlcb, hpr]; rfl
    rw [hU]
    have hb : ∀ b', binAt (setBin (tick s) b (fun y => { y with first := (nodeAt s.heap i).next })).tbins b' =
        if b = b' ∧ b' < s.tbins.length then { binAt s.tbins b' with first := (nodeAt s.heap i).next }
        else binAt s.tbins b' := fun b' => binAt_modify _ _ _ _
    refine ⟨rfl, rfl, rfl, rfl, by show (s.tbins.modify b _).length = _; rw [List.length_modify], ?_, ?_,
      Or.inl ⟨l2, hch, rfl, ?_⟩⟩
    · intro b'
      rw [hb]
      split <;> exact ⟨rfl, rfl, rfl, rfl⟩
    · intro b' h hf
      rw [hb] at hf
      split at hf
      · exact (H.cinv.nextOK i _ h (getElem?_nodeAt hil) hf).1
      · exact H.firstOK b' h hf
    · rw [liveStart_tree (b := b) (by exact hcell), hb, if_pos ⟨rfl, hb0⟩]
  · have hU : unlinkOf (tick s) b i = setNode (tick s) pr (fun m => { m with next := (nodeAt s.heap i).next }) := by
      unfold unlinkOf; rw [hlcb, hpr]; rfl
    rw [hU]
    refine ⟨rfl, rfl, rfl, rfl, rfl, fun b' => ⟨rfl, rfl, rfl, rfl⟩, fun b' h hf => H.firstOK b' h hf,
      Or.inr ⟨l1, pr, l2, hch, rfl, ?_⟩⟩
    exact liveStart_congr rfl (fun _ _ => rfl)

/-- the removal from the tree bin: the list unlink (`tUnlinkLocked`) -/
theorem unlink_facts {s : State} {t : Nat} {l : Local} {p : Pending} {b i : Nat} {res : KRes} (small : Bool)
    (I : Inv s) (hl : s.threads[t]? = some l) (hp : l.call = some p) (hpc : l.pc = .tUnlinkLocked b i res) :
    let s' := setT (unlinkOf (tick s) b i) t
      { l with pc := if small then .tUntreeify b res else .tRestructure b i res }
    Inv s' ∧ HeapStep s.heap (liveChain s) (Priv s) s'.heap (liveChain s') (Priv s') ∧
      s'.now = s.now + 1 ∧ s'.hist = s.hist ∧
      s'.threads = s.threads.set t { l with pc := if small then .tUntreeify b res else .tRestructure b i res } ∧
      ∀ k, absOf s' k = if (nodeAt s.heap i).key = k then none else absOf s k := by
  intro s'
  have h0 := I.data.pcInv t l p hl hp
  rw [hpc] at h0
  simp only [PcInv, RemOK] at h0
  obtain ⟨hi, hin0, hkey0, hspec⟩ := h0
  have hvT : validT l.pc = some b := by rw [hpc]; rfl
  have hcell := I.lock.vT t l b hl hvT
  have hb0 := (I.lock.refOK t l b hl (by rw [hpc]; rfl)).1
  have H := I.heap
  have hsub := I.tree_sub_chain hl hvT (by rw [hpc]; intro j res; simp) (by rw [hpc]; intro res; simp)
  have hsup := I.chain_sub_tree hl hvT (by rw [hpc]; intro j; simp)
  have hil := H.chain_lt hi
  obtain ⟨hc', hnow, hhist, hthr0, htlen, hsync, hF, hcase⟩ := unlinkOf_shape H hcell hb0 hi
  have hc' : s'.cell = s.cell := hc'
  have hnow : s'.now = s.now + 1 := hnow
  have hhist : s'.hist = s.hist := hhist
  have hthr : s'.threads = s.threads.set t { l with pc := if small then .tUntreeify b res else .tRestructure b i res } := by
    show (unlinkOf (tick s) b i).threads.set t _ = _
    rw [hthr0]
  have htlen : s'.tbins.length = s.tbins.length := htlen
  have hsync : ∀ b', (binAt s'.tbins b').mutex = (binAt s.tbins b').mutex ∧
      (binAt s'.tbins b').writer = (binAt s.tbins b').writer ∧ (binAt s'.tbins b').waiter = (binAt s.tbins b').waiter ∧
      (binAt s'.tbins b').readers = (binAt s.tbins b').readers := hsync
  have hF : ∀ b' h, (binAt s'.tbins b').first = some h → h < s.heap.length := hF
  have hcase : (∃ l2, liveChain s = i :: l2 ∧ s'.heap = s.heap ∧ liveStart s' = (nodeAt s.heap i).next) ∨
      (∃ l1 pr l2, liveChain s = l1 ++ pr :: i :: l2 ∧
        s'.heap = s.heap.modify pr (fun m => { m with next := (nodeAt s.heap i).next }) ∧
        liveStart s' = liveStart s) := hcase
  have hheapO : ∀ j, j < s.heap.length → (nodeAt s'.heap j).owner = (nodeAt s.heap j).owner := by
    intro j _
    rcases hcase with ⟨l2, _, hh, _⟩ | ⟨l1, pr, l2, _, hh, _⟩
    · rw [hh]
    · rw [hh, nodeAt_modify]; split <;> rfl
  have hfields0 : ∀ j, (nodeAt s'.heap j).inTree = (nodeAt s.heap j).inTree ∧
      (nodeAt s'.heap j).owner = (nodeAt s.heap j).owner := by
    intro j
    rcases hcase with ⟨l2, _, hh, _⟩ | ⟨l1, pr, l2, _, hh, _⟩
    · rw [hh]; exact ⟨rfl, rfl⟩
    · rw [hh, nodeAt_modify]; split <;> exact ⟨rfl, rfl⟩
  have hlen0 : s'.heap.length = s.heap.length := by
    rcases hcase with ⟨l2, _, hh, _⟩ | ⟨l1, pr, l2, _, hh, _⟩
    · rw [hh]
    · rw [hh, List.length_modify]
  have hks : ∀ h b', (if small then Pc.tUntreeify b res else Pc.tRestructure b i res) ≠ .kStore h b' := by
    intro h b'; cases small <;> simp
  have hP : ∀ j, j < s.heap.length → Priv s' j → Priv s j :=
    priv_same (l' := { l with pc := if small then .tUntreeify b res else .tRestructure b i res }) hl hthr hks hheapO
  have hT : ∀ j, liveTree s' j → liveTree s j := by
    intro j hj
    exact liveTree_of hc' (fun h => hlen0 ▸ h) (fun h => (hfields0 j).1 ▸ h) (hfields0 j).2 hj
  obtain ⟨H', hs, hmem, hlen, hf, habs⟩ := sunlink_store (s' := s') H hcase hT hP
    (fun j b' hj => by rw [htlen]; exact H.ownerOK j b' hj) hF
    (fun b' hb' => by rw [hc'] at hb'; rw [htlen]; exact H.cellOK b' hb') (liveOwner_congr hc')
  refine ⟨?_, hs, hnow, hhist, hthr, habs⟩
  refine inv_store (l' := { l with pc := if small then .tUntreeify b res else .tRestructure b i res }) I hl
    (Or.inl (validated_of_validT hvT)) hthr H' ?_ ?_ (by omega) ?_ ?_ ?_ ?_
  · refine tinv_keep (l' := { l with pc := if small then .tUntreeify b res else .tRestructure b i res })
      I.thr hl hthr hnow hhist rfl ?_
    intro p1 hp1 _ _
    have := I.thr.opOK t l p1 hl hp1 (by rw [hpc]; simp) (by rw [hpc]; rfl)
    rw [hpc] at this
    cases small <;> exact this
  · refine linv_data (l' := { l with pc := if small then .tUntreeify b res else .tRestructure b i res }) I hl hc' hthr
      htlen hsync (fun h => (hf h).2.2.2.2) (by rw [hpc]; cases small <;> rfl) ?_
    rw [hpc]
    cases small <;> constructor <;> simp [validL, validT, holdsMutex, holdsRead, wr, isLoop, binRef]
  · intro p1 hp1
    cases small with
    | true => simp only [if_true, PcInv]
    | false =>
      simp only [Bool.false_eq_true, if_false, PcInv]
      refine ⟨fun h => ((hmem i).1 h).2 rfl, by rw [(hf i).2.2.1]; exact hin0, by rw [hlen]; exact hil, ?_⟩
      rw [(hf i).2.2.2.1]
      have := H.chainOwner i hi
      rw [liveOwner_tree hcell] at this
      exact this
  · cases small <;> simp only [if_true, Bool.false_eq_true, if_false, KInv]
  · intro b' hcb j hj ho hin hnc
    rw [hc', hcell] at hcb; cases hcb
    rw [hlen] at hj
    rw [(hf j).2.2.1] at hin; rw [(hf j).2.2.2.1] at ho
    have hjc := hsub j hj ho hin
    have hji : j = i := by
      apply Classical.byContradiction
      intro hne
      exact hnc ((hmem j).2 ⟨hjc, hne⟩)
    subst hji
    cases small with
    | true => exact Or.inr ⟨res, rfl⟩
    | false => exact Or.inl ⟨res, rfl⟩
  · intro b' _ j hj hin
    rw [(hf j).2.2.1, hsup j ((hmem j).1 hj).1] at hin; cases hin

theorem cnt_set_same (q : Pc → Bool) (ls : List Local) (i : Nat) (old new : Local) (h : ls[i]? = some old)
    (hq : q old.pc = q new.pc) : cnt q (ls.set i new) = cnt q ls := by
  have := cnt_set q ls i old new h
  rw [hq] at this
  omega

theorem getD_range' (a n j : Nat) (hj : j < n) : (List.range' a n).getD j 0 = a + j := by
  rw [List.getD_eq_getElem?_getD, List.getElem?_range' hj]; simp

/-- untreeify: the list of the `TreeBin` is copied into fresh plain nodes and stored into the cell -/
theorem untreeify_facts {s : State} {t : Nat} {l : Local} {p : Pending} {b : Nat} {res : KRes}
    (I : Inv s) (hl : s.threads[t]? = some l) (_hp : l.call = some p) (hpc : l.pc = .tUntreeify b res) :
    let s' := setT (untreeifyOf (tick s) b) t { l with pc := .tUnlockM b res false }
    Inv s' ∧ HeapStep s.heap (liveChain s) (Priv s) s'.heap (liveChain s') (Priv s') ∧
      ∀ k, absOf s' k = absOf s k := by
  intro s'
  have hvT : validT l.pc = some b := by rw [hpc]; rfl
  have hcell := I.lock.vT t l b hl hvT
  have hb0 := (I.lock.refOK t l b hl (by rw [hpc]; rfl)).1
  have H := I.heap
  have L := I.lock
  have hC : chainOfBin s b = liveChain s := (liveChain_tree hcell).symm
  let mk : NodeS → Option Nat → NodeS := fun src nx => ⟨src.key, src.val, nx, none, false, none⟩
  have hheap : s'.heap = s.heap ++ copiesOf s.heap (liveChain s) mk := by
    show (copyChain s.heap (chainOfBin s b) mk).1 = _
    rw [copyChain_eq, hC]
  have hcellv : s'.cell = if (liveChain s).length = 0 then Cell.empty else Cell.list s.heap.length := by
    show (match (copyChain s.heap (chainOfBin s b) mk).2 with | some h => Cell.list h | none => Cell.empty) = _
    rw [copyChain_eq, hC]
    by_cases hn : (liveChain s).length = 0 <;> simp [hn]
  have hnt : ∀ b', s'.cell ≠ .tree b' := by
    intro b'; rw [hcellv]; split <;> simp
  have hst' : liveStart s' = if (liveChain s).length = 0 then none else some s.heap.length := by
    unfold liveStart; rw [hcellv]
    by_cases hn : (liveChain s).length = 0 <;> simp [hn]
  have hlo' : liveOwner s' = none := by
    unfold liveOwner; rw [hcellv]
    by_cases hn : (liveChain s).length = 0 <;> simp [hn]
  have hlen : s'.heap.length = s.heap.length + (liveChain s).length := by
    rw [hheap, List.length_append, copiesOf_length]
  have hold : ∀ j, j < s.heap.length → nodeAt s'.heap j = nodeAt s.heap j := by
    intro j hj; rw [hheap]; exact nodeAt_append_left _ hj
  have hnewn : ∀ j, j < (liveChain s).length → nodeAt s'.heap (s.heap.length + j) =
      mk (nodeAt s.heap ((liveChain s).getD j 0))
        (if j + 1 < (liveChain s).length then some (s.heap.length + j + 1) else none) := by
    intro j hj; rw [hheap]; exact copiesOf_get _ _ _ hj
  have hok' : NextOK s'.heap := by rw [hheap]; exact nextOK_copies H.cinv.nextOK _ _ (fun _ _ => rfl)
  have hch' : IsChain s'.heap (liveStart s') (List.range' s.heap.length (liveChain s).length) := by
    rw [hst', hheap]; exact copiesOf_isChain _ _ _ (fun _ _ => rfl)
  have hP : ∀ j, j < s.heap.length → Priv s' j → Priv s j :=
    priv_same (l' := { l with pc := .tUnlockM b res false }) hl rfl (by simp) (fun j hj => by rw [hold j hj])
  have hmemr : ∀ j, j ∈ List.range' s.heap.length (liveChain s).length →
      ∃ k, k < (liveChain s).length ∧ j = s.heap.length + k := by
    intro j hj
    rw [List.mem_range'_1] at hj
    exact ⟨j - s.heap.length, by omega, by omega⟩
  obtain ⟨H', hs, hlc, habs⟩ := sconvert_store (s' := s') (L' := List.range' s.heap.length (liveChain s).length) H hok'
    (by omega) hold hch' (by simp)
    (by
      intro j hj
      rw [getD_range' _ _ _ hj, hnewn j hj]
      exact ⟨rfl, rfl⟩)
    (by
      intro j hj
      obtain ⟨k, hk, rfl⟩ := hmemr j hj
      refine ⟨fun h => ?_, Or.inl (by omega)⟩
      have := H.chain_lt h
      omega)
    (fun j hj => absurd hj (liveTree_not_tree hnt j)) hP
    (by
      intro j b' hj
      show b' < s.tbins.length
      by_cases hjl : j < s.heap.length
      · rw [hold j hjl] at hj; exact H.ownerOK j b' hj
      · by_cases hj2 : j < s'.heap.length
        · obtain ⟨k, hk, rfl⟩ : ∃ k, k < (liveChain s).length ∧ j = s.heap.length + k :=
            ⟨j - s.heap.length, by omega, by omega⟩
          rw [hnewn k hk] at hj; cases hj
        · rw [nodeAt_ge (by omega)] at hj; cases hj)
    (by
      intro b' h hf
      have : (binAt s.tbins b').first = some h := hf
      have := H.firstOK b' h this
      omega)
    (fun b' hb' => absurd hb' (hnt b'))
    (by
      intro j hj
      obtain ⟨k, hk, rfl⟩ := hmemr j hj
      rw [hnewn k hk, hlo'])
  refine ⟨?_, hs, habs⟩
  have hmt := (L.mx t l b hl).1 (holdsMutex_of_validT hvT)
  have hwr : (binAt s.tbins b).writer = true := by
    have := (L.bitsSome b t l hcell hl hmt).1
    rw [hpc] at this; exact this
  have hlock : ∀ h, (nodeAt s'.heap h).lock = (nodeAt s.heap h).lock := by
    intro h
    by_cases hh : h < s.heap.length
    · rw [hold h hh]
    · rw [nodeAt_ge (Nat.le_of_not_lt hh)]
      by_cases hh2 : h < s'.heap.length
      · obtain ⟨k, hk, rfl⟩ : ∃ k, k < (liveChain s).length ∧ h = s.heap.length + k :=
          ⟨h - s.heap.length, by omega, by omega⟩
        rw [hnewn k hk]; rfl
      · rw [nodeAt_ge (by omega)]
  have hvv := validated_of_validT hvT
  refine inv_store (l' := { l with pc := .tUnlockM b res false }) I hl (Or.inl hvv) rfl H' ?_ ?_
    (by omega) (by intro p1 _; simp only [PcInv]) (by simp only [KInv])
    (fun b' hc' => absurd hc' (hnt b')) (fun b' hc' => absurd hc' (hnt b'))
  · refine tinv_keep (l' := { l with pc := .tUnlockM b res false }) I.thr hl rfl rfl rfl rfl ?_
    intro p1 hp1 _ _
    have := I.thr.opOK t l p1 hl hp1 (by rw [hpc]; simp) (by rw [hpc]; rfl)
    rw [hpc] at this
    exact this
  · refine LInv.of_parts
      (lk_step (l' := { l with pc := .tUnlockM b res false }) L hl rfl
        (lockfun_same L hl (by rw [hpc]; rfl) hlock) (fun h hh => by simp [holdsLock] at hh)
        (fun h hh => by simp [validL] at hh) (Or.inr (Or.inl hvv)))
      (mx_step (l' := { l with pc := .tUnlockM b res false }) L hl rfl
        (mutexfun_same L hl (by rw [hpc]; rfl) (fun _ => rfl)) (fun b' hb' => by rw [hpc]; exact Or.inl hb')
        (fun b' hb' => by simp [validT] at hb') (Or.inr (Or.inl hvv)))
      (rw_cell (l' := { l with pc := .tUnlockM b res false }) L H hl rfl rfl
        (fun b' hc' => absurd hc' (hnt b')) ?_ (by rw [hpc]; rfl) (by rw [hpc]; intro b' hb'; exact Or.inl hb')
        (by rw [hpc]; intro h b' e; cases e) (by intro h b' e; cases e))
    intro b' _ _ hcs
    rw [hcell] at hcs; cases hcs
    exact hwr

/-- treeify: the list is copied into a fresh, private `TreeBin` (`kBuild`) -/
theorem kbuild_facts {s : State} {t : Nat} {l : Local} {h : Nat}
    (I : Inv s) (hl : s.threads[t]? = some l) (hcall : l.call = none) (hpc : l.pc = .kBuild h) :
    let s' := setT (buildOf (tick s) h) t { l with pc := .kStore h s.tbins.length }
    Inv s' ∧ HeapStep s.heap (liveChain s) (Priv s) s'.heap (liveChain s') (Priv s') ∧
      ∀ k, absOf s' k = absOf s k := by
  intro s'
  have hvL : validL l.pc = some h := by rw [hpc]; rfl
  have hcell := I.lock.vL t l h hl hvL
  have H := I.heap
  have L := I.lock
  have hC : chainFrom s.heap s.heap.length (some h) = liveChain s := (liveChain_list hcell).symm
  let mk : NodeS → Option Nat → NodeS := fun src nx => ⟨src.key, src.val, nx, none, true, some s.tbins.length⟩
  have hheap : s'.heap = s.heap ++ copiesOf s.heap (liveChain s) mk := by
    show (copyChain s.heap (chainFrom s.heap s.heap.length (some h)) mk).1 = _
    rw [copyChain_eq, hC]
  have htb : s'.tbins = s.tbins ++ [{ first := if (liveChain s).length = 0 then none else some s.heap.length }] := by
    show s.tbins ++ [{ first := (copyChain s.heap (chainFrom s.heap s.heap.length (some h)) mk).2 }] = _
    rw [copyChain_eq, hC]
  have hcell' : s'.cell = .list h := hcell
  have hnt : ∀ b', s'.cell ≠ .tree b' := by intro b'; rw [hcell']; simp
  have hnt0 : ∀ b', s.cell ≠ .tree b' := by intro b'; rw [hcell]; simp
  have hlen : s'.heap.length = s.heap.length + (liveChain s).length := by
    rw [hheap, List.length_append, copiesOf_length]
  have htlen : s'.tbins.length = s.tbins.length + 1 := by rw [htb]; simp
  have hold : ∀ j, j < s.heap.length → nodeAt s'.heap j = nodeAt s.heap j := by
    intro j hj; rw [hheap]; exact nodeAt_append_left _ hj
  have hnewn : ∀ j, j < (liveChain s).length → nodeAt s'.heap (s.heap.length + j) =
      mk (nodeAt s.heap ((liveChain s).getD j 0))
        (if j + 1 < (liveChain s).length then some (s.heap.length + j + 1) else none) := by
    intro j hj; rw [hheap]; exact copiesOf_get _ _ _ hj
  have hnode : ∀ j, j < s'.heap.length → ¬ j < s.heap.length →
      ∃ k, k < (liveChain s).length ∧ j = s.heap.length + k := by
    intro j h1 h2; exact ⟨j - s.heap.length, by omega, by omega⟩
  have hbold : ∀ b', b' < s.tbins.length → binAt s'.tbins b' = binAt s.tbins b' := by
    intro b' hb'; rw [htb]; exact binAt_append_left _ hb'
  have hbnew : binAt s'.tbins s.tbins.length =
      { first := if (liveChain s).length = 0 then none else some s.heap.length } := by
    rw [htb]; exact binAt_append_new _ _
  have hok' : NextOK (s.heap ++ copiesOf s.heap (liveChain s) mk) := nextOK_copies H.cinv.nextOK _ _ (fun _ _ => rfl)
  have hself' : s'.threads[t]? = some { l with pc := .kStore h s.tbins.length } := get_set_self hl
  have hP : ∀ j, j < s.heap.length → Priv s' j → Priv s j := by
    rintro j hj ⟨t1, l1, h1, b1, hl1, hpc1, ho⟩
    rw [hold j hj] at ho
    have hl1' : (s.threads.set t { l with pc := .kStore h s.tbins.length })[t1]? = some l1 := hl1
    rcases get_set hl1' with ⟨rfl, rfl⟩ | ⟨_, hl1'⟩
    · cases hpc1
      have := H.ownerOK j _ ho
      omega
    · exact ⟨t1, l1, h1, b1, hl1', hpc1, ho⟩
  obtain ⟨H', hs, hlc, habs⟩ := sgrow_store (s' := s') H hheap hok' rfl
    (fun b' hb' => absurd hb' (hnt0 b')) (fun j hj => absurd hj (liveTree_not_tree hnt j)) hP
    (by
      intro j b' hj
      rw [htlen]
      by_cases hjl : j < s.heap.length
      · rw [hold j hjl] at hj; have := H.ownerOK j b' hj; omega
      · by_cases hj2 : j < s'.heap.length
        · obtain ⟨k, hk, rfl⟩ := hnode j hj2 hjl
          rw [hnewn k hk] at hj; cases hj; omega
        · rw [nodeAt_ge (by omega)] at hj; cases hj)
    (by
      intro b' h' hf
      by_cases hb' : b' < s.tbins.length
      · rw [hbold b' hb'] at hf; have := H.firstOK b' h' hf; omega
      · by_cases hb2 : b' = s.tbins.length
        · subst hb2
          rw [hbnew] at hf
          simp only at hf
          split at hf
          · cases hf
          · cases hf; omega
        · rw [binAt_ge (by omega)] at hf; cases hf)
    (fun b' hb' => absurd hb' (hnt b'))
  refine ⟨?_, hs, habs⟩
  have hlock : ∀ h', (nodeAt s'.heap h').lock = (nodeAt s.heap h').lock := by
    intro h'
    by_cases hh : h' < s.heap.length
    · rw [hold h' hh]
    · rw [nodeAt_ge (Nat.le_of_not_lt hh)]
      by_cases hh2 : h' < s'.heap.length
      · obtain ⟨k, hk, rfl⟩ := hnode h' hh2 hh
        rw [hnewn k hk]; rfl
      · rw [nodeAt_ge (by omega)]
  have hsyncold : ∀ b', (binAt s'.tbins b').mutex = (binAt s.tbins b').mutex ∧
      (binAt s'.tbins b').writer = (binAt s.tbins b').writer ∧ (binAt s'.tbins b').waiter = (binAt s.tbins b').waiter ∧
      (binAt s'.tbins b').readers = (binAt s.tbins b').readers := by
    intro b'
    by_cases hb' : b' < s.tbins.length
    · rw [hbold b' hb']; exact ⟨rfl, rfl, rfl, rfl⟩
    · rw [binAt_ge (Nat.le_of_not_lt hb')]
      by_cases hb2 : b' = s.tbins.length
      · subst hb2; rw [hbnew]; exact ⟨rfl, rfl, rfl, rfl⟩
      · rw [binAt_ge (by omega)]; exact ⟨rfl, rfl, rfl, rfl⟩
  have hvv := validated_of_validL hvL
  -- no other thread is at `kStore`
  have hnoks : ∀ t1 l1 h1 b1, t1 ≠ t → s.threads[t1]? = some l1 → l1.pc ≠ .kStore h1 b1 := by
    intro t1 l1 h1 b1 hne hl1 hpc1
    have := (others_not_valid L hl (Or.inl hvv) hne hl1).1
    rw [hpc1] at this; cases this
  -- the chain of the new bin
  have hchb : chainOfBin s' s.tbins.length = List.range' s.heap.length (liveChain s).length := by
    rw [chainOfBin_eq, hbnew, hheap]
    exact chainOf_eq hok' (copiesOf_isChain _ _ _ (fun _ _ => rfl))
  refine inv_store (l' := { l with pc := .kStore h s.tbins.length }) I hl (Or.inl hvv) rfl H' ?_ ?_
    (by omega) ?_ ?_ (fun b' hc' => absurd hc' (hnt b')) (fun b' hc' => absurd hc' (hnt b'))
  · refine tinv_keep (l' := { l with pc := .kStore h s.tbins.length }) I.thr hl rfl rfl rfl rfl ?_
    intro p1 hp1
    rw [hcall] at hp1; cases hp1
  · refine LInv.of_parts
      (lk_step (l' := { l with pc := .kStore h s.tbins.length }) L hl rfl
        (lockfun_same L hl (by rw [hpc]; rfl) hlock) (fun h' hh => by rw [hpc]; exact Or.inl hh)
        (fun h' hh => by simp [validL] at hh; subst hh; exact hcell') (Or.inl rfl))
      (mx_step (l' := { l with pc := .kStore h s.tbins.length }) L hl rfl
        (mutexfun_same L hl (by rw [hpc]; rfl) (fun b' => (hsyncold b').1)) (fun b' hb' => by simp [holdsMutex] at hb')
        (fun b' hb' => by simp [validT] at hb') (Or.inl rfl)) ?_
    refine ⟨fun b' hc' => absurd hc' (hnt b'), fun b' _ _ hc' => absurd hc' (hnt b'), ?_, ?_, ?_, ?_⟩
    · intro b' hb'
      rw [htlen] at hb'
      have h1 := cnt_set_same (fun pc => holdsRead pc == some b') s.threads t l
        { l with pc := .kStore h s.tbins.length } hl (by rw [hpc]; rfl)
      rw [(hsyncold b').2.2.2]
      show _ = cnt _ (s.threads.set t _)
      rw [h1]
      by_cases hb2 : b' < s.tbins.length
      · exact L.rd b' hb2
      · rw [binAt_ge (Nat.le_of_not_lt hb2)]
        have hz : cnt (fun pc => holdsRead pc == some b') s.threads = 0 := by
          apply cnt_zero_of
          intro l1 hl1
          obtain ⟨t1, hl1'⟩ := List.mem_iff_getElem?.1 hl1
          cases hr : holdsRead l1.pc with
          | none => simp
          | some b1 =>
            have := (L.refOK t1 l1 b1 hl1' (binRef_of_holdsRead hr)).1
            simp
            intro e; subst e; omega
        rw [hz]; rfl
    · intro b' hw
      rw [(hsyncold b').2.1] at hw
      rw [(hsyncold b').2.2.2]
      exact L.wrd b' hw
    · intro b' hb' _
      rw [htlen] at hb'
      by_cases hb2 : b' < s.tbins.length
      · rw [(hsyncold b').2.1]
        rcases L.dead b' hb2 (hnt0 b') with h1 | ⟨t1, l1, h1, hl1, hpc1⟩
        · exact Or.inl h1
        · by_cases ht : t1 = t
          · subst ht; rw [hl] at hl1; cases hl1; rw [hpc] at hpc1; cases hpc1
          · exact absurd hpc1 (hnoks t1 l1 h1 b' ht hl1)
      · have : b' = s.tbins.length := by omega
        subst this
        exact Or.inr ⟨t, _, h, hself', rfl⟩
    · intro t1 l1 b' hl1 hr
      have hl1' : (s.threads.set t { l with pc := .kStore h s.tbins.length })[t1]? = some l1 := hl1
      rcases get_set hl1' with ⟨rfl, rfl⟩ | ⟨hne, hl1'⟩
      · simp [binRef] at hr
      · obtain ⟨hlt, _⟩ := L.refOK t1 l1 b' hl1' hr
        refine ⟨by omega, ?_⟩
        intro t2 l2 h2 hl2 hpc2
        have hl2' : (s.threads.set t { l with pc := .kStore h s.tbins.length })[t2]? = some l2 := hl2
        rcases get_set hl2' with ⟨rfl, rfl⟩ | ⟨hne2, hl2'⟩
        · cases hpc2; omega
        · exact hnoks t2 l2 h2 b' hne2 hl2' hpc2
  · intro p1 hp1
    have : l.call = some p1 := hp1
    rw [hcall] at this; cases this
  · simp only [KInv]
    refine ⟨by omega, ?_, ?_, ?_, ?_, ?_⟩
    · rw [hbnew]
    · rw [hchb, hlc]; simp
    · intro j hj
      rw [hlc] at hj ⊢
      rw [hchb, getD_range' _ _ _ hj, hnewn j hj]
      have hjl : (liveChain s).getD j 0 < s.heap.length := by
        have : (liveChain s).getD j 0 = (liveChain s)[j] := by simp [List.getD_eq_getElem?_getD, hj]
        rw [this]; exact H.chain_lt (List.getElem_mem hj)
      rw [hold _ hjl]
      exact ⟨rfl, rfl⟩
    · intro j hj
      rw [hchb, List.mem_range'_1]
      by_cases hjl : j < s.heap.length
      · rw [hold j hjl]
        constructor
        · intro ho; have := H.ownerOK j _ ho; omega
        · intro hr; omega
      · obtain ⟨k, hk, rfl⟩ := hnode j hj hjl
        rw [hnewn k hk]
        exact ⟨fun _ => by omega, fun _ => rfl⟩
    · intro j hj
      rw [hchb, List.mem_range'_1] at hj
      obtain ⟨k, hk, rfl⟩ : ∃ k, k < (liveChain s).length ∧ j = s.heap.length + k :=
        ⟨j - s.heap.length, by omega, by omega⟩
      rw [hnewn k hk]

/-- treeify: the private `TreeBin` is stored into the cell (`kStore`) -/
theorem kstore_facts {s : State} {t : Nat} {l : Local} {h b : Nat}
    (I : Inv s) (hl : s.threads[t]? = some l) (hcall : l.call = none) (hpc : l.pc = .kStore h b) :
    let s' : State := { (setT (tick s) t { l with pc := .kUnlock h }) with cell := .tree b }
    Inv s' ∧ HeapStep s.heap (liveChain s) (Priv s) s'.heap (liveChain s') (Priv s') ∧
      ∀ k, absOf s' k = absOf s k := by
  intro s'
  have hvL : validL l.pc = some h := by rw [hpc]; rfl
  have hcell := I.lock.vL t l h hl hvL
  have H := I.heap
  have L := I.lock
  have hB := I.data.kInv t l hl
  rw [hpc] at hB
  simp only [KInv] at hB
  have hcell' : s'.cell = .tree b := rfl
  have hlo : liveOwner s = none := by unfold liveOwner; rw [hcell]
  have hP : ∀ j, j < s.heap.length → Priv s' j → Priv s j :=
    priv_same (s' := s') (l' := { l with pc := .kUnlock h }) hl rfl (by simp) (fun j _ => rfl)
  have hchb : chainOfBin s' b = chainOfBin s b := rfl
  obtain ⟨H', hs, hlc, habs⟩ := sconvert_store (s' := s') (L' := chainOfBin s b) H H.cinv.nextOK (Nat.le_refl _)
    (fun j _ => rfl) (by rw [liveStart_tree hcell']; exact H.binChain b) hB.len hB.kv
    (by
      intro j hj
      have hjl := (H.binChain b).lt_length j hj
      have ho := (hB.own j hjl).2 hj
      refine ⟨fun hc => ?_, Or.inr ⟨t, l, h, b, hl, hpc, ho⟩⟩
      have := H.chainOwner j hc
      rw [ho, hlo] at this; cases this)
    (by
      intro j hj
      obtain ⟨h1, h2, h3⟩ := (liveTree_iff_tree hcell' j).1 hj
      exact (hB.own j h1).1 h3)
    hP H.ownerOK H.firstOK
    (by intro b' hb'; rw [hcell'] at hb'; cases hb'; exact hB.lt)
    (by
      intro j hj
      rw [liveOwner_tree hcell']
      exact (hB.own j ((H.binChain b).lt_length j hj)).2 hj)
  refine ⟨?_, hs, habs⟩
  have hvv := validated_of_validL hvL
  have hfr := hB.fresh
  refine inv_store (s' := s') (l' := { l with pc := .kUnlock h }) I hl (Or.inl hvv) rfl H' ?_ ?_
    (Nat.le_refl _) ?_ (by simp only [KInv]) ?_ ?_
  · refine tinv_keep (s' := s') (l' := { l with pc := .kUnlock h }) I.thr hl rfl rfl rfl rfl ?_
    intro p1 hp1
    rw [hcall] at hp1; cases hp1
  · refine LInv.of_parts
      (lk_step (s' := s') (l' := { l with pc := .kUnlock h }) L hl rfl
        (lockfun_same L hl (by rw [hpc]; rfl) (fun _ => rfl)) (fun h' hh => by rw [hpc]; exact Or.inl hh)
        (fun h' hh => by simp [validL] at hh) (Or.inr (Or.inl hvv)))
      (mx_step (s' := s') (l' := { l with pc := .kUnlock h }) L hl rfl
        (mutexfun_same L hl (by rw [hpc]; rfl) (fun _ => rfl)) (fun b' hb' => by simp [holdsMutex] at hb')
        (fun b' hb' => by simp [validT] at hb') (Or.inr (Or.inl hvv)))
      (rw_cell (s' := s') (l' := { l with pc := .kUnlock h }) L H hl rfl rfl ?_ ?_ (by rw [hpc]; rfl)
        (by intro b' hb'; simp [binRef] at hb')
        (by rw [hpc]; intro h' b' e; cases e; exact Or.inr rfl) (by intro h' b' e; cases e))
    · intro b' hc'
      rw [hcell'] at hc'; cases hc'
      rw [hfr]
      exact ⟨rfl, rfl, rfl⟩
    · intro b' _ _ hcs
      rw [hcell] at hcs; cases hcs
  · intro p1 hp1
    have : l.call = some p1 := hp1
    rw [hcall] at this; cases this
  · intro b' hc' j hj ho hin hnc
    rw [hcell'] at hc'; cases hc'
    exact absurd (by rw [hlc]; exact (hB.own j hj).1 ho) hnc
  · intro b' hc' j hj hin
    rw [hlc] at hj
    have : (nodeAt s.heap j).inTree = true := hB.inTree j hj
    have hin' : (nodeAt s.heap j).inTree = false := hin
    rw [this] at hin'; cases hin'

/-! ## the stores of the list form -/

/-- the CAS into the empty cell (`wCas`) -/
theorem cas_facts {s : State} {t : Nat} {l : Local} {p : Pending} {v vi : Nat}
    (I : Inv s) (hl : s.threads[t]? = some l) (hp : l.call = some p) (hpc : l.pc = .wCas) (hcell : s.cell = .empty) :
    let new : NodeS := ⟨p.key, (v, vi), none, none, false, none⟩
    let s' := finish { heap := s.heap ++ [new], tbins := s.tbins, cell := .list s.heap.length, threads := s.threads,
                       hist := s.hist, now := s.now + 1 } t p .none
    Inv s' ∧ HeapStep s.heap (liveChain s) (Priv s) s'.heap (liveChain s') (Priv s') ∧
      (absOf s p.key = none) ∧
      ∀ k, absOf s' k = if p.key = k then some (v, vi) else absOf s k := by
  intro new s'
  have H := I.heap
  have L := I.lock
  have hnt0 : ∀ b', s.cell ≠ .tree b' := by intro b'; rw [hcell]; simp
  have hcell' : s'.cell = .list s.heap.length := rfl
  have hnt : ∀ b', s'.cell ≠ .tree b' := by intro b'; rw [hcell']; simp
  have hch0 : liveChain s = [] := by
    rw [liveChain_eq]
    have : liveStart s = none := by unfold liveStart; rw [hcell]
    rw [this, chainOf_none]
  have hold : ∀ j, j < s.heap.length → nodeAt s'.heap j = nodeAt s.heap j := fun j hj => nodeAt_append_left _ hj
  have hnew : nodeAt s'.heap s.heap.length = new := nodeAt_append_new _ _
  have hlen : s'.heap.length = s.heap.length + 1 := by show (s.heap ++ [new]).length = _; simp
  have hP : ∀ j, j < s.heap.length → Priv s' j → Priv s j :=
    priv_same (s' := s') (l' := { pc := .idle, call := none }) hl rfl (by simp) (fun j hj => by rw [hold j hj])
  have hfr : ∀ j, (j ∈ liveChain s ∨ liveTree s j) → (nodeAt s.heap j).key ≠ new.key := by
    intro j hj
    rcases hj with hj | hj
    · rw [hch0] at hj; cases hj
    · exact absurd hj (liveTree_not_tree hnt0 j)
  obtain ⟨H', hs, hlc, habs⟩ := sprepend_store (s' := s') (new := new) H rfl
    (by unfold liveStart; rw [hcell']) (by unfold liveStart; rw [hcell]) hfr
    (fun j hj => absurd hj (liveTree_not_tree hnt j)) hP
    (by
      intro j b' hj
      show b' < s.tbins.length
      by_cases hjl : j < s.heap.length
      · rw [hold j hjl] at hj; exact H.ownerOK j b' hj
      · by_cases hj2 : j = s.heap.length
        · subst hj2; rw [hnew] at hj; cases hj
        · rw [nodeAt_ge (by omega)] at hj; cases hj)
    (by
      intro b' h hf
      have : (binAt s.tbins b').first = some h := hf
      have := H.firstOK b' h this
      omega)
    (fun b' hb' => absurd hb' (hnt b'))
    (by unfold liveOwner; rw [hcell', hcell]) (by unfold liveOwner; rw [hcell'])
  have habs0 : absOf s p.key = none := by
    rw [absOf_eq, absL_eq_none_iff]
    intro j hj; rw [hch0] at hj; cases hj
  refine ⟨?_, hs, habs0, habs⟩
  have hlock : ∀ h', (nodeAt s'.heap h').lock = (nodeAt s.heap h').lock := by
    intro h'
    by_cases hh : h' < s.heap.length
    · rw [hold h' hh]
    · rw [nodeAt_ge (Nat.le_of_not_lt hh)]
      by_cases hh2 : h' = s.heap.length
      · subst hh2; rw [hnew]; rfl
      · rw [nodeAt_ge (by omega)]
  refine inv_store (s' := s') (l' := { pc := .idle, call := none }) I hl (Or.inr hcell) rfl H' ?_ ?_
    (by omega) (by intro p1 hp1; cases hp1) (by simp only [KInv])
    (fun b' hc' => absurd hc' (hnt b')) (fun b' hc' => absurd hc' (hnt b'))
  · exact tinv_finish (s' := s') (l' := { pc := .idle, call := none }) I.thr hl hp rfl rfl rfl rfl
  · refine LInv.of_parts
      (lk_step (s' := s') (l' := { pc := .idle, call := none }) L hl rfl
        (lockfun_same L hl (by rw [hpc]; rfl) hlock) (fun h' hh => by simp [holdsLock] at hh)
        (fun h' hh => by simp [validL] at hh) (Or.inr (Or.inr hcell)))
      (mx_step (s' := s') (l' := { pc := .idle, call := none }) L hl rfl
        (mutexfun_same L hl (by rw [hpc]; rfl) (fun _ => rfl)) (fun b' hb' => by simp [holdsMutex] at hb')
        (fun b' hb' => by simp [validT] at hb') (Or.inr (Or.inr hcell)))
      (rw_gen (s' := s') (l' := { pc := .idle, call := none }) L H hl rfl
        (fun b' => ⟨fun e => absurd e (hnt b'), fun e => absurd e (hnt0 b')⟩) rfl (fun b' => ⟨rfl, rfl, rfl⟩)
        (fun b' _ => by rw [hpc]; rfl) (fun b' hw => L.wrd b' hw)
        (fun b' hb' => by rw [hpc] at hb'; simp [holdsMutex] at hb')
        (fun b' hb' => by simp [binRef] at hb') (fun h' b' => by rw [hpc]; simp))

/-- what the remembered positions of a walk are in terms of the live chain -/
theorem Walk.shape {s : State} (H : HInv s) {key : Nat} {pred hit : Option Nat}
    (w : Walk s key pred hit) (hk : ∀ i, hit = some i → (nodeAt s.heap i).key = key) :
    (hit = none → absOf s key = none ∧ (pred = none → liveChain s = []) ∧
      ∀ pr, pred = some pr → ∃ l1, liveChain s = l1 ++ [pr]) ∧
    (∀ i, hit = some i → i ∈ liveChain s ∧ absOf s key = some (nodeAt s.heap i).val ∧
      (pred = none → ∃ l2, liveChain s = i :: l2) ∧
      ∀ pr, pred = some pr → ∃ l1 l2, liveChain s = l1 ++ pr :: i :: l2) := by
  obtain ⟨l1, l2, hch, hcur, hpred, hkeys⟩ := w
  constructor
  · intro hn
    subst hn
    have hl2 : l2 = [] := by
      cases l2 with
      | nil => rfl
      | cons a l => cases hcur
    subst hl2
    rw [List.append_nil] at hch
    refine ⟨?_, ?_, ?_⟩
    · rw [absOf_eq, absL_eq_none_iff, hch]; exact hkeys
    · intro hp
      subst hp
      rw [hch]
      exact List.getLast?_eq_none_iff.1 hpred.symm
    · intro pr hp
      subst hp
      rw [hch]
      rcases List.eq_nil_or_concat l1 with rfl | ⟨l1', x, rfl⟩
      · cases hpred
      · simp only [List.concat_eq_append, List.getLast?_append, List.getLast?_singleton, Option.some_or,
          Option.some.injEq] at hpred
        subst hpred
        exact ⟨l1', by simp⟩
  · intro i hi
    subst hi
    cases l2 with
    | nil => cases hcur
    | cons c l2' =>
      simp only [List.head?_cons, Option.some.injEq] at hcur
      subst hcur
      have hi : i ∈ liveChain s := by rw [hch]; simp
      refine ⟨hi, ?_, ?_, ?_⟩
      · rw [absOf_eq, absL_eq_some_iff H.distinct]
        exact ⟨i, hi, hk i rfl, rfl⟩
      · intro hp
        subst hp
        have : l1 = [] := List.getLast?_eq_none_iff.1 hpred.symm
        subst this
        exact ⟨l2', hch⟩
      · intro pr hp
        subst hp
        rcases List.eq_nil_or_concat l1 with rfl | ⟨l1', x, rfl⟩
        · cases hpred
        · simp only [List.concat_eq_append, List.getLast?_append, List.getLast?_singleton, Option.some_or,
            Option.some.injEq] at hpred
          subst hpred
          exact ⟨l1', l2', by rw [hch]; simp⟩

/-- the generic part of the preservation of the invariant by the store of a list-bin writer -/
theorem inv_lstore {s s' : State} {t : Nat} {l : Local} {p : Pending} {h : Nat} {pred hit hnext : Option Nat}
    {res : KRes} (I : Inv s) (hl : s.threads[t]? = some l) (_hp : l.call = some p)
    (hpc : l.pc = .wStore h pred hit hnext)
    (hthr : s'.threads = s.threads.set t { l with pc := .wUnlock h res false })
    (hnow : s'.now = s.now + 1) (hhist : s'.hist = s.hist) (htb : s'.tbins = s.tbins)
    (hnt : ∀ b, s'.cell ≠ .tree b) (hlock : ∀ h', (nodeAt s'.heap h').lock = (nodeAt s.heap h').lock)
    (hlen : s.heap.length ≤ s'.heap.length) (H' : HInv s') : Inv s' := by
  have L := I.lock
  have hvL : validL l.pc = some h := by rw [hpc]; rfl
  have hcell := L.vL t l h hl hvL
  have hnt0 : ∀ b', s.cell ≠ .tree b' := by intro b'; rw [hcell]; simp
  have hvv := validated_of_validL hvL
  refine inv_store (l' := { l with pc := .wUnlock h res false }) I hl (Or.inl hvv) hthr H' ?_ ?_ hlen
    (by intro p1 _; simp only [PcInv]) (by simp only [KInv])
    (fun b' hc' => absurd hc' (hnt b')) (fun b' hc' => absurd hc' (hnt b'))
  · refine tinv_keep (l' := { l with pc := .wUnlock h res false }) I.thr hl hthr hnow hhist rfl ?_
    intro p1 hp1 _ _
    have := I.thr.opOK t l p1 hl hp1 (by rw [hpc]; simp) (by rw [hpc]; rfl)
    rw [hpc] at this
    exact this
  · refine LInv.of_parts
      (lk_step (l' := { l with pc := .wUnlock h res false }) L hl hthr
        (lockfun_same L hl (by rw [hpc]; rfl) hlock) (fun h' hh => by rw [hpc]; exact Or.inl hh)
        (fun h' hh => by simp [validL] at hh) (Or.inr (Or.inl hvv)))
      (mx_step (l' := { l with pc := .wUnlock h res false }) L hl hthr
        (mutexfun_same L hl (by rw [hpc]; rfl) (fun _ => by rw [htb])) (fun b' hb' => by simp [holdsMutex] at hb')
        (fun b' hb' => by simp [validT] at hb') (Or.inr (Or.inl hvv)))
      (rw_gen (l' := { l with pc := .wUnlock h res false }) L I.heap hl hthr
        (fun b' => ⟨fun e => absurd e (hnt b'), fun e => absurd e (hnt0 b')⟩) (by rw [htb])
        (fun b' => by rw [htb]; exact ⟨rfl, rfl, rfl⟩)
        (fun b' _ => by rw [htb, hpc]; rfl) (fun b' hw => by rw [htb]; exact L.wrd b' hw)
        (fun b' hb' => by rw [hpc] at hb'; simp [holdsMutex] at hb')
        (fun b' hb' => by simp [binRef] at hb') (fun h' b' => by rw [hpc]; simp))

/-- the state after a list-bin insertion through the remembered predecessor -/
def appendOf (s : State) (p : Pending) (pred : Option Nat) (v vi : Nat) : State :=
  match pred with
  | some l => setNode { s with heap := s.heap ++ [⟨p.key, (v, vi), none, none, false, none⟩] } l
      (fun n => { n with next := some s.heap.length })
  | none => { s with heap := s.heap ++ [⟨p.key, (v, vi), none, none, false, none⟩], cell := .list s.heap.length }

/-- the state after a list-bin removal through the remembered predecessor and successor -/
def unlinkL (s : State) (pred hnext : Option Nat) : State :=
  match pred with
  | some pr => setNode s pr (fun m => { m with next := hnext })
  | none => { s with cell := match hnext with | some x => .list x | none => .empty }

theorem storeAt_eq (s : State) (p : Pending) (pred hit hnext : Option Nat) :
    storeAt s p pred hit hnext =
      match p.op, hit with
      | .ins v vi, some i => (setNode s i (fun n => { n with val := (v, vi) }), resOf (some (nodeAt s.heap i).val))
      | .ins v vi, none => (appendOf s p pred v vi, .none)
      | .tryIns _ _, some i => (s, .exists_ (nodeAt s.heap i).val.1 (nodeAt s.heap i).val.2)
      | .tryIns v vi, none => (appendOf s p pred v vi, .none)
      | .rm, some i => (unlinkL s pred hnext, resOf (some (nodeAt s.heap i).val))
      | .rm, none => (s, .none)
      | .cipInc nvi, some i =>
        (setNode s i (fun m => { m with val := ((nodeAt s.heap i).val.1 + 1, nvi) }), .some ((nodeAt s.heap i).val.1 + 1) nvi)
      | .cipInc _, none => (s, .none)
      | .cipRm, some _ => (unlinkL s pred hnext, .none)
      | .cipRm, none => (s, .none)
      | .get, _ => (s, .none)
      | .has, _ => (s, .none) := by
  unfold storeAt appendOf unlinkL nodeAt
  cases p.op <;> cases hit <;> cases pred <;> rfl

/-- the result of a list-bin store -/
def LStoreOK (s s' : State) (p : Pending) (res : KRes) : Prop :=
  Inv s' ∧ HeapStep s.heap (liveChain s) (Priv s) s'.heap (liveChain s') (Priv s') ∧
    (∀ k, k ≠ p.key → absOf s' k = absOf s k) ∧ specStep (absOf s p.key) p.op = (absOf s' p.key, res)

theorem lstore_same {s : State} {t : Nat} {l : Local} {p : Pending} {h : Nat} {pred hit hnext : Option Nat}
    {res : KRes} (I : Inv s) (hl : s.threads[t]? = some l) (hp : l.call = some p)
    (hpc : l.pc = .wStore h pred hit hnext)
    (hspec : specStep (absOf s p.key) p.op = (absOf s p.key, res)) :
    LStoreOK s (setT (tick s) t { l with pc := .wUnlock h res false }) p res := by
  have H := I.heap
  have q : Quiet s (setT (tick s) t { l with pc := .wUnlock h res false }) :=
    ⟨rfl, HeapEqv.refl _, rfl, fun _ => rfl⟩
  refine ⟨?_, ?_, fun k _ => q.abs_eq H k, by rw [q.abs_eq H]; exact hspec⟩
  · refine inv_lstore (s' := setT (tick s) t { l with pc := .wUnlock h res false }) I hl hp hpc rfl rfl rfl rfl ?_
      (fun _ => rfl) (Nat.le_refl _) (q.hinv H)
    have hcell := I.lock.vL t l h hl (by rw [hpc]; rfl)
    intro b' hb'
    have : s.cell = .tree b' := hb'
    rw [hcell] at this; cases this
  · rw [q.chain_eq H]
    exact HeapStep.of_same (Nat.le_refl _) (fun j _ => ⟨rfl, rfl, rfl⟩)
      (priv_same (l' := { l with pc := .wUnlock h res false }) hl rfl (by simp) (fun _ _ => rfl))

theorem lstore_val {s : State} {t : Nat} {l : Local} {p : Pending} {h i : Nat} {pred hnext : Option Nat}
    {v : Nat × Nat} {res : KRes} (I : Inv s) (hl : s.threads[t]? = some l) (hp : l.call = some p)
    (hpc : l.pc = .wStore h pred (some i) hnext)
    (hspec : specStep (some (nodeAt s.heap i).val) p.op = (some v, res)) :
    LStoreOK s (setT (setNode (tick s) i (fun n => { n with val := v })) t { l with pc := .wUnlock h res false }) p res := by
  have H := I.heap
  have h0 := I.data.pcInv t l p hl hp
  rw [hpc] at h0
  simp only [PcInv] at h0
  obtain ⟨w, hk⟩ := h0
  obtain ⟨-, hsh⟩ := w.shape H (fun j hj => (hk j hj).1)
  obtain ⟨hi, habs0, -, -⟩ := hsh i rfl
  have hcell := I.lock.vL t l h hl (by rw [hpc]; rfl)
  have hP := priv_same (s' := setT (setNode (tick s) i (fun n => { n with val := v })) t { l with pc := .wUnlock h res false })
    (l' := { l with pc := .wUnlock h res false }) hl rfl (by simp) (fun j _ => by
      show (nodeAt (s.heap.modify i _) j).owner = _
      rw [nodeAt_modify]; split <;> rfl)
  obtain ⟨H', hs, hlc, hnode, habs⟩ := sval_store
    (s' := setT (setNode (tick s) i (fun n => { n with val := v })) t { l with pc := .wUnlock h res false })
    H hi rfl rfl rfl hP
  refine ⟨?_, hs, ?_, ?_⟩
  · refine inv_lstore I hl hp hpc rfl rfl rfl rfl ?_ ?_ ?_ H'
    · intro b' hb'
      have : s.cell = .tree b' := hb'
      rw [hcell] at this; cases this
    · intro h'; rw [hnode]; split <;> rfl
    · show s.heap.length ≤ (s.heap.modify i _).length
      rw [List.length_modify]; exact Nat.le_refl _
  · intro k hk'
    rw [habs k, if_neg]
    rw [(hk i rfl).1]; exact fun e => hk' e.symm
  · rw [habs p.key, if_pos (hk i rfl).1, habs0]
    exact hspec

theorem lstore_append {s : State} {t : Nat} {l : Local} {p : Pending} {h : Nat} {pred hnext : Option Nat}
    {v vi : Nat} (I : Inv s) (hl : s.threads[t]? = some l) (hp : l.call = some p)
    (hpc : l.pc = .wStore h pred none hnext) (hop : p.op = .ins v vi ∨ p.op = .tryIns v vi) :
    LStoreOK s (setT (appendOf (tick s) p pred v vi) t { l with pc := .wUnlock h .none false }) p .none := by
  have H := I.heap
  have h0 := I.data.pcInv t l p hl hp
  rw [hpc] at h0
  simp only [PcInv] at h0
  obtain ⟨w, hk⟩ := h0
  obtain ⟨hsh, -⟩ := w.shape H (fun j hj => (hk j hj).1)
  obtain ⟨habs0, hnil, hlast⟩ := hsh rfl
  have hcell := I.lock.vL t l h hl (by rw [hpc]; rfl)
  have hnt0 : ∀ b', s.cell ≠ .tree b' := by intro b'; rw [hcell]; simp
  cases pred with
  | none =>
    exfalso
    have := hnil rfl
    have hch := H.isChain
    have hst : liveStart s = some h := by unfold liveStart; rw [hcell]
    rw [hst, this] at hch
    cases hch
  | some pr =>
    obtain ⟨l1, hch⟩ := hlast pr rfl
    let new : NodeS := ⟨p.key, (v, vi), none, none, false, none⟩
    let s' := setT (appendOf (tick s) p (some pr) v vi) t { l with pc := .wUnlock h .none false }
    have hheap : s'.heap = (s.heap ++ [new]).modify pr (fun m => { m with next := some s.heap.length }) := rfl
    have hcell' : s'.cell = s.cell := rfl
    have hnt : ∀ b', s'.cell ≠ .tree b' := by intro b'; rw [hcell']; exact hnt0 b'
    have hprl : pr < s.heap.length := H.chain_lt (by rw [hch]; simp)
    have hold : ∀ j, j < s.heap.length → (nodeAt s'.heap j).owner = (nodeAt s.heap j).owner ∧
        (nodeAt s'.heap j).lock = (nodeAt s.heap j).lock := by
      intro j hj
      rw [hheap, nodeAt_modify]
      split
      · rw [nodeAt_append_left _ hj]; exact ⟨rfl, rfl⟩
      · rw [nodeAt_append_left _ hj]; exact ⟨rfl, rfl⟩
    have hP := priv_same (s' := s') (l' := { l with pc := .wUnlock h .none false }) hl rfl (by simp)
      (fun j hj => (hold j hj).1)
    have hfr : ∀ j, (j ∈ liveChain s ∨ liveTree s j) → (nodeAt s.heap j).key ≠ new.key := by
      intro j hj
      rcases hj with hj | hj
      · rw [absOf_eq, absL_eq_none_iff] at habs0; exact habs0 j hj
      · exact absurd hj (liveTree_not_tree hnt0 j)
    obtain ⟨H', hs, hlc, habs⟩ := sappend_store (s' := s') (new := new) H hch hheap rfl rfl rfl hfr
      (fun j hj => absurd hj (liveTree_not_tree hnt j)) hP
      (by show none = liveOwner s; unfold liveOwner; rw [hcell]) (fun b' hb' => by cases hb')
    refine ⟨?_, hs, ?_, ?_⟩
    · refine inv_lstore (s' := s') I hl hp hpc rfl rfl rfl rfl hnt ?_ ?_ H'
      · intro h'
        by_cases hh : h' < s.heap.length
        · exact (hold h' hh).2
        · rw [nodeAt_ge (Nat.le_of_not_lt hh), hheap, nodeAt_modify_ne _ (by omega)]
          by_cases hh2 : h' = s.heap.length
          · subst hh2; rw [nodeAt_append_new]; rfl
          · rw [nodeAt_ge (by simp; omega)]
      · rw [hheap]; simp
    · intro k hk'
      rw [habs k, if_neg (fun e => hk' e.symm)]
    · rw [habs p.key, if_pos rfl, habs0]
      rcases hop with hop | hop <;> rw [hop] <;> rfl

theorem lstore_unlink {s : State} {t : Nat} {l : Local} {p : Pending} {h i : Nat} {pred hnext : Option Nat}
    {res : KRes} (I : Inv s) (hl : s.threads[t]? = some l) (hp : l.call = some p)
    (hpc : l.pc = .wStore h pred (some i) hnext)
    (hspec : specStep (some (nodeAt s.heap i).val) p.op = (none, res)) :
    LStoreOK s (setT (unlinkL (tick s) pred hnext) t { l with pc := .wUnlock h res false }) p res := by
  have H := I.heap
  have h0 := I.data.pcInv t l p hl hp
  rw [hpc] at h0
  simp only [PcInv] at h0
  obtain ⟨w, hk⟩ := h0
  obtain ⟨-, hsh⟩ := w.shape H (fun j hj => (hk j hj).1)
  obtain ⟨hi, habs0, hhead, hmid⟩ := hsh i rfl
  obtain ⟨hkey, hnx⟩ := hk i rfl
  have hcell := I.lock.vL t l h hl (by rw [hpc]; rfl)
  have hnt0 : ∀ b', s.cell ≠ .tree b' := by intro b'; rw [hcell]; simp
  have hil := H.chain_lt hi
  let s' := setT (unlinkL (tick s) pred hnext) t { l with pc := .wUnlock h res false }
  have hshape : s'.tbins = s.tbins ∧ (∀ b', s'.cell ≠ .tree b') ∧ s'.now = s.now + 1 ∧ s'.hist = s.hist ∧
      s'.threads = s.threads.set t { l with pc := .wUnlock h res false } ∧
      ((∃ l2, liveChain s = i :: l2 ∧ s'.heap = s.heap ∧ liveStart s' = (nodeAt s.heap i).next) ∨
        (∃ l1 pr l2, liveChain s = l1 ++ pr :: i :: l2 ∧
          s'.heap = s.heap.modify pr (fun m => { m with next := (nodeAt s.heap i).next }) ∧
          liveStart s' = liveStart s)) := by
    cases pred with
    | none =>
      obtain ⟨l2, hch⟩ := hhead rfl
      refine ⟨rfl, ?_, rfl, rfl, rfl, Or.inl ⟨l2, hch, rfl, ?_⟩⟩
      · intro b'
        show (match hnext with | some x => Cell.list x | none => Cell.empty) ≠ _
        cases hnext <;> simp
      · rw [← hnx]
        clear hnx hk w hpc
        cases hnext <;> rfl
    | some pr =>
      obtain ⟨l1, l2, hch⟩ := hmid pr rfl
      refine ⟨rfl, fun b' => hnt0 b', rfl, rfl, rfl, Or.inr ⟨l1, pr, l2, hch, ?_, ?_⟩⟩
      · show s.heap.modify pr (fun m => { m with next := hnext }) = _
        rw [hnx]
      · exact liveStart_congr rfl (fun _ _ => rfl)
  obtain ⟨htb, hnt, hnow, hhist, hthr, hcase⟩ := hshape
  have hfields0 : ∀ j, (nodeAt s'.heap j).inTree = (nodeAt s.heap j).inTree ∧
      (nodeAt s'.heap j).owner = (nodeAt s.heap j).owner := by
    intro j
    rcases hcase with ⟨l2, _, hh, _⟩ | ⟨l1, pr, l2, _, hh, _⟩
    · rw [hh]; exact ⟨rfl, rfl⟩
    · rw [hh, nodeAt_modify]; split <;> exact ⟨rfl, rfl⟩
  have hP := priv_same (s' := s') (l' := { l with pc := .wUnlock h res false }) hl hthr (by simp)
    (fun j _ => (hfields0 j).2)
  have hlo : liveOwner s' = liveOwner s := by
    have h1 : liveOwner s = none := by unfold liveOwner; rw [hcell]
    rw [h1]
    unfold liveOwner
    cases hc : s'.cell with
    | tree b' => exact absurd hc (hnt b')
    | empty => rfl
    | list x => rfl
  obtain ⟨H', hs, hmem, hlen, hf, habs⟩ := sunlink_store (s' := s') H hcase
    (fun j hj => absurd hj (liveTree_not_tree hnt j)) hP
    (fun j b' hj => by rw [htb]; exact H.ownerOK j b' hj)
    (fun b' h' hf => by rw [htb] at hf; exact H.firstOK b' h' hf)
    (fun b' hb' => absurd hb' (hnt b')) hlo
  refine ⟨?_, hs, ?_, ?_⟩
  · exact inv_lstore (s' := s') I hl hp hpc hthr hnow hhist htb hnt (fun h' => (hf h').2.2.2.2) (by omega) H'
  · intro k hk'
    rw [habs k, if_neg]
    rw [hkey]; exact fun e => hk' e.symm
  · rw [habs p.key, if_pos hkey, habs0]
    exact hspec

/-- **the single store of a list-bin writer** (`wStore`) -/
theorem store_facts {s : State} {t : Nat} {l : Local} {p : Pending} {h : Nat} {pred hit hnext : Option Nat}
    (I : Inv s) (hl : s.threads[t]? = some l) (hp : l.call = some p) (hpc : l.pc = .wStore h pred hit hnext) :
    LStoreOK s (setT (storeAt (tick s) p pred hit hnext).1 t
      { l with pc := .wUnlock h (storeAt (tick s) p pred hit hnext).2 false }) p
      (storeAt (tick s) p pred hit hnext).2 := by
  have H := I.heap
  have hrd : isReader p.op = false := by
    have := I.thr.opOK t l p hl hp (by rw [hpc]; simp) (by rw [hpc]; rfl)
    rw [hpc] at this; exact this
  have h0 := I.data.pcInv t l p hl hp
  rw [hpc] at h0
  simp only [PcInv] at h0
  obtain ⟨w, hk⟩ := h0
  obtain ⟨hshN, hshS⟩ := w.shape H (fun j hj => (hk j hj).1)
  have hX := storeAt_eq (tick s) p pred hit hnext
  have hheap : (tick s).heap = s.heap := rfl
  cases hop : p.op with
  | get => rw [hop] at hrd; cases hrd
  | has => rw [hop] at hrd; cases hrd
  | ins v vi =>
    cases hit with
    | some i =>
      rw [hop] at hX; simp only at hX; rw [hX, hheap]
      exact lstore_val I hl hp hpc (by rw [hop]; rfl)
    | none =>
      rw [hop] at hX; simp only at hX; rw [hX]
      exact lstore_append I hl hp hpc (Or.inl hop)
  | tryIns v vi =>
    cases hit with
    | some i =>
      rw [hop] at hX; simp only at hX; rw [hX, hheap]
      refine lstore_same I hl hp hpc ?_
      rw [(hshS i rfl).2.1, hop]
      have : ∀ x : Nat × Nat, specStep (some x) (.tryIns v vi) = (some x, .exists_ x.1 x.2) := fun ⟨_, _⟩ => rfl
      exact this _
    | none =>
      rw [hop] at hX; simp only at hX; rw [hX]
      exact lstore_append I hl hp hpc (Or.inr hop)
  | rm =>
    cases hit with
    | some i =>
      rw [hop] at hX; simp only at hX; rw [hX, hheap]
      exact lstore_unlink I hl hp hpc (by rw [hop]; rfl)
    | none =>
      rw [hop] at hX; simp only at hX; rw [hX]
      refine lstore_same I hl hp hpc ?_
      rw [(hshN rfl).1, hop]; rfl
  | cipInc nvi =>
    cases hit with
    | some i =>
      rw [hop] at hX; simp only at hX; rw [hX, hheap]
      refine lstore_val I hl hp hpc ?_
      rw [hop]
      have : ∀ x : Nat × Nat, specStep (some x) (.cipInc nvi) = (some (x.1 + 1, nvi), .some (x.1 + 1) nvi) :=
        fun ⟨_, _⟩ => rfl
      exact this _
    | none =>
      rw [hop] at hX; simp only at hX; rw [hX]
      refine lstore_same I hl hp hpc ?_
      rw [(hshN rfl).1, hop]; rfl
  | cipRm =>
    cases hit with
    | some i =>
      rw [hop] at hX; simp only at hX; rw [hX]
      exact lstore_unlink I hl hp hpc (by rw [hop]; rfl)
    | none =>
      rw [hop] at hX; simp only at hX; rw [hX]
      refine lstore_same I hl hp hpc ?_
      rw [(hshN rfl).1, hop]; rfl

/-! ## every transition preserves the invariant -/

/-- **every transition preserves the structural invariant** -/
theorem stepK_inv {s s' : State} {t : Nat} {l : Local} (I : Inv s) (hl : s.threads[t]? = some l)
    (hk : StepK s t l s') : Inv s' := by
  cases hk with
  | idle hpc => exact inv_idle I hl hpc
  | maint hpc => exact inv_maint I hl hpc
  | invoke k op lo hpc => exact inv_invoke I hl hpc k op lo
  | move p pc' hp hpc hm => exact inv_move I hl hpc hm
  | bmove p pc' tb hpc hm => exact inv_bmove I hl hpc hm
  | kmove pc' hp hpc hm => exact inv_kmove I hl hpc hm
  | fin p res hp hpc hf => exact inv_fin I hl hpc hf
  | bfin p res tb hpc hf => exact inv_bfin I hl hpc hf
  | cas p v vi hp hpc hc hop => exact (cas_facts I hl hp hpc hc).1
  | store p h pred hit hnext hp hpc => exact (store_facts I hl hp hpc).1
  | tval p b i v res hp hpc => exact (tval_facts I hl hp hpc).1
  | prepend p b v vi hp hpc hop => exact (prepend_facts I hl hp hpc).1
  | treeLink p b x hp hpc => exact (treeLink_facts I hl hp hpc).1
  | unlink p b i res small hp hpc => exact (unlink_facts small I hl hp hpc).1
  | untree p b i res hp hpc => exact (untree_facts I hl hp hpc).1
  | untreeify p b res hp hpc => exact (untreeify_facts I hl hp hpc).1
  | kbuild h hc hpc => exact (kbuild_facts I hl hc hpc).1
  | kstore h b hc hpc => exact (kstore_facts I hl hc hpc).1

theorem init_threads {n t : Nat} {l : Local} (h : (init n).threads[t]? = some l) : l = {} := by
  simp only [init, List.getElem?_replicate] at h
  split at h
  · cases h; rfl
  · cases h

theorem init_inv (n : Nat) : Inv (init n) := by
  have hchain : liveChain (init n) = [] := by simp [liveChain, init]
  have hst : liveStart (init n) = none := rfl
  have hthr : ∀ (t : Nat) (l : Local), (init n).threads[t]? = some l → l.pc = .idle ∧ l.call = none := by
    intro t l hl; rw [init_threads hl]; exact ⟨rfl, rfl⟩
  have hnt : ∀ b, (init n).cell ≠ .tree b := by intro b; simp [init]
  refine ⟨⟨⟨?_, ?_, ?_⟩, ?_, ?_, ?_, ?_⟩, ⟨?_, ?_, ?_, ?_, ?_, ?_⟩, ⟨?_, ?_, ?_, ?_, ?_, ?_, ?_, ?_, ?_, ?_, ?_, ?_⟩,
    ⟨?_, ?_, ?_, ?_⟩⟩
  · intro i n' j h; simp [init] at h
  · intro h hh; rw [hst] at hh; cases hh
  · intro i j hi
    rcases hi with hi | hi
    · rw [hst, chainOf_none] at hi; cases hi
    · exact absurd hi (liveTree_not_tree hnt i)
  · intro j b hj
    have : nodeAt (init n).heap j = dflt := nodeAt_ge (by simp [init])
    rw [this] at hj; cases hj
  · intro b h hf
    have : binAt (init n).tbins b = dfltB := binAt_ge (by simp [init])
    rw [this] at hf; cases hf
  · intro b hb; exact absurd hb (hnt b)
  · intro j hj; rw [hchain] at hj; cases hj
  · intro t l p hl hc; rw [(hthr t l hl).2] at hc; cases hc
  · intro x hx; simp [init] at hx
  · intro t l p hl hc; rw [(hthr t l hl).2] at hc; cases hc
  · intro x hx; simp [init] at hx
  · intro t t' l l' p p' hl _ hc; rw [(hthr t l hl).2] at hc; cases hc
  · simp [init]
  · intro t l h hl
    rw [(hthr t l hl).1]
    have : nodeAt (init n).heap h = dflt := nodeAt_ge (by simp [init])
    rw [this]
    constructor
    · intro e; cases e
    · intro e; cases e
  · intro h x hx
    have : nodeAt (init n).heap h = dflt := nodeAt_ge (by simp [init])
    rw [this] at hx; cases hx
  · intro t l h hl hv; rw [(hthr t l hl).1] at hv; cases hv
  · intro t l b hl
    rw [(hthr t l hl).1]
    have : binAt (init n).tbins b = dfltB := binAt_ge (by simp [init])
    rw [this]
    constructor
    · intro e; cases e
    · intro e; cases e
  · intro b x hx
    have : binAt (init n).tbins b = dfltB := binAt_ge (by simp [init])
    rw [this] at hx; cases hx
  · intro t l b hl hv; rw [(hthr t l hl).1] at hv; cases hv
  · intro b hb; exact absurd hb (hnt b)
  · intro b t l hb; exact absurd hb (hnt b)
  · intro b hb; simp [init] at hb
  · intro b hw
    have : binAt (init n).tbins b = dfltB := binAt_ge (by simp [init])
    rw [this] at hw; cases hw
  · intro b hb; simp [init] at hb
  · intro t l b hl hr; rw [(hthr t l hl).1] at hr; cases hr
  · intro t l p hl hc; rw [(hthr t l hl).2] at hc; cases hc
  · intro t l hl; rw [(hthr t l hl).1]; simp only [KInv]
  · intro b hb; exact absurd hb (hnt b)
  · intro b hb; exact absurd hb (hnt b)

theorem step_inv {s s' : State} {t : Nat} {inv : Option (Nat × KOp)} {lo mt sm : Bool} (I : Inv s)
    (hs : step s t inv lo mt sm = some s') : Inv s' := by
  cases hl : s.threads[t]? with
  | none => unfold step stepG at hs; rw [hl] at hs; cases hs
  | some l => exact stepK_inv I hl (step_stepK hl hs)

theorem reachable_inv {n : Nat} {s : State} (hr : Reachable n s) : Inv s := by
  induction hr with
  | init => exact init_inv n
  | step t inv lo mt sm _ hs ih => exact step_inv ih hs

end Flurry.Proto.BinK
