import Flurry.Props.C11BinGN
import Flurry.Lemmas.BinGNExamples
/-! # C11 / C12 for `Proto/BinGN`: non-vacuity, evaluated by the kernel (`decide`)

A reader that loaded the table pointer one resize ago, while the NEXT resize is in the middle of moving the
`TreeBin` it is going to read (mutex held by the resizing thread) and a writer is queued on that mutex. -/
namespace Flurry.Proto.BinGNProg
open Flurry.Lin
open Flurry.Proto.BinGN
open Flurry.Proto.BinGNP

/-- thread 0: `insert(0)`, `insert(4)`; thread 1 treeifies (`TreeBin` 0 over nodes 2, 3) — `setupLow`; thread 1 invokes
`get(4)` and loads the table pointer (generation 0), then sleeps at `rCell false 0`; thread 3 resizes `0 → 1` (bin 0 is
re-used in `(1,0)`), commits, starts the resize `1 → 2`, takes the mutex of bin 0, splits, stores both children and is
suspended at `xStoreMoved` — **mid-transfer, holding the mutex**; thread 2 invokes `remove(0)`, loads `(1,0) = tree 0`
and **waits for the mutex** at `tMutex 1 0`. -/
def midSched : Sched :=
  setupLow ++ call 1 4 .get ++ rep 1 1 ++
  rz 3 ++ xferTree 3 0 false false ++ commit 3 ++
  rz 3 ++ [{ t := 3, pick := 0 }] ++ rep 3 6 ++ call 2 0 .rm ++ rep 2 2

def midState : Option State := run step (init 4) midSched

/-- one more step of the transfer: `(1,0)` is forwarded, the mutex is not yet released (`xUnlock`) -/
def fwdState : Option State := run step (init 4) (midSched ++ rep 3 1)

set_option maxRecDepth 16384 in
theorem midState_spec : ∃ s, midState = some s ∧ Reachable 4 s ∧ ¬ quiescent s ∧
    s.threads = [ { pc := .idle, call := none },
                  { pc := .rCell false 0, call := some ⟨4, .get, 22⟩ },
                  { pc := .tMutex 1 0, call := some ⟨0, .rm, 44⟩ },
                  { pc := .xStoreMoved 0 (.inr 0), call := none } ] ∧
    s.tabs = [[.moved], [.tree 0, .empty], [.tree 0, .empty, .empty, .empty]] ∧
    s.tbins = [{ first := some 2, mutex := some 3, writer := false, waiter := false, readers := 0 }] ∧
    s.cur = 1 ∧ s.resizing = true := by
  have h : (midState.map fun s => (s.threads, s.tabs, s.tbins, s.cur, s.resizing)) =
      some ([ { pc := .idle, call := none },
              { pc := .rCell false 0, call := some ⟨4, .get, 22⟩ },
              { pc := .tMutex 1 0, call := some ⟨0, .rm, 44⟩ },
              { pc := .xStoreMoved 0 (.inr 0), call := none } ],
            [[.moved], [.tree 0, .empty], [.tree 0, .empty, .empty, .empty]],
            [{ first := some 2, mutex := some 3, writer := false, waiter := false, readers := 0 }], 1, true) := by
    decide
  cases hs : midState with
  | none => rw [hs] at h; cases h
  | some s =>
    rw [hs] at h
    simp only [Option.map_some, Option.some.injEq, Prod.mk.injEq] at h
    obtain ⟨h1, h2, h3, h4, h5⟩ := h
    refine ⟨s, rfl, run_reachable midSched Reachable.init hs, ?_, h1, h2, h3, h4, h5⟩
    intro hq
    have := hq _ (List.mem_iff_getElem?.2 ⟨1, by rw [h1]; rfl⟩)
    cases this

set_option maxRecDepth 16384 in
/-- in that state the *writer* `remove(0)` is blocked (it waits for the mutex); the other three threads can move -/
example : (midState.map fun s => (List.range 4).map fun t => (act step s { t := t }).isSome) =
    some [true, true, false, true] := by decide

set_option maxRecDepth 16384 in
/-- the reader, running alone, follows the forwarding marker of generation 0, finds `tree 0` in `(1,0)` (not yet
forwarded), takes the read lock although the mutex is held, and answers `some (6, 101)` in 8 steps — within
`soloBound = 3 + 4 * 4 + 10 = 29` -/
example : (midState.bind fun s => (runSolo 1 false false 8 s).map fun s' =>
      (soloBound s, s'.threads[1]?, s'.hist.head?)) =
    some (29, some { pc := .idle, call := none },
      some (4, { tid := 1, op := .get, res := .some 6 101, inv := 22, resp := 54 })) := by decide

set_option maxRecDepth 16384 in
/-- … while the transfer still holds the mutex where it was suspended -/
example : (midState.bind fun s => (runSolo 1 false false 8 s).map fun s' => (s'.threads[3]?, s'.tbins)) =
    some (some { pc := .xStoreMoved 0 (.inr 0), call := none },
      [{ first := some 2, mutex := some 3, writer := false, waiter := false, readers := 0 }]) := by decide

set_option maxRecDepth 16384 in
/-- with `(1,0)` forwarded as well and the mutex still held (`xUnlock`) … -/
example : (fwdState.map fun s => (s.tabs, s.threads[3]?)) =
    some ([[.moved], [.moved, .empty], [.tree 0, .empty, .empty, .empty]],
      some { pc := .xUnlock (.inr 0), call := none }) := by decide

set_option maxRecDepth 16384 in
/-- … the reader follows TWO forwarding markers (`(0,0) → (1,0) → (2,0)`): 9 steps -/
example : (fwdState.bind fun s => (runSolo 1 false false 9 s).map fun s' => (s'.threads[1]?, s'.hist.head?)) =
    some (some { pc := .idle, call := none },
      some (4, { tid := 1, op := .get, res := .some 6 101, inv := 22, resp := 56 })) := by decide

/-- the general theorems instantiated at `midState`: the reader terminates alone; the queued writer is `Blocked`, waits
for another thread, and some thread that is not idle can move -/
example : ∃ s, midState = some s ∧
    (∃ k, k ≤ soloBound s ∧ ∃ (s' : State) (p : Pending) (res : KRes) (resp : Nat),
      runSolo 1 false false k s = some s' ∧ s'.threads[1]? = some { pc := .idle, call := none } ∧
      s'.threads[3]? = some { pc := .xStoreMoved 0 (.inr 0), call := none } ∧
      s'.hist = (p.key, { tid := 1, op := p.op, res := res, inv := p.inv, resp := resp }) :: s.hist) ∧
    Blocked s (.tMutex 1 0) ∧
    (∃ (t' : Nat) (l' : Local), t' ≠ 2 ∧ s.threads[t']? = some l' ∧ l'.pc ≠ .idle) ∧
    (∃ (t : Nat) (l : Local), s.threads[t]? = some l ∧ l.pc ≠ .idle ∧ Enabled s t) := by
  obtain ⟨s, hs, hr, hq, hthr, _, htb, _, _⟩ := midState_spec
  have h1 : s.threads[1]? = some { pc := .rCell false 0, call := some ⟨4, .get, 22⟩ } := by rw [hthr]; rfl
  have h2 : s.threads[2]? = some { pc := .tMutex 1 0, call := some ⟨0, .rm, 44⟩ } := by rw [hthr]; rfl
  have h3 : s.threads[3]? = some { pc := .xStoreMoved 0 (.inr 0), call := none } := by rw [hthr]; rfl
  have hb : Blocked s (.tMutex 1 0) := by
    show (Flurry.Proto.BinK.binAt s.tbins 0).mutex.isSome = true
    rw [htb]; rfl
  obtain ⟨k, hk, s', p, res, resp, _, hrun, hf, hidle, hh⟩ := reader_solo_terminates hr h1 rfl false false
  obtain ⟨t', l', hne, hl', hni, _⟩ := blocked_waits_for_other hr h2 hb
  exact ⟨s, hs, ⟨k, hk, s', p, res, resp, hrun, hidle, (hf.others 3 (by decide)).trans h3, hh⟩, hb,
    ⟨t', l', hne, hl', hni⟩, binGN_never_stuck_all hr hq⟩

end Flurry.Proto.BinGNProg
