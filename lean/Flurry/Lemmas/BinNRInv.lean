import Flurry.Lemmas.BinNRFacts
/-! # Proto/BinNR: the reclamation invariant and its preservation (C03, C04)

`RInv s G` (with `Inv s.n G` of `Proto/BinN`):
* `j1` a node that has been unlinked (`unl i = some u`) is not `Live` (in no chain, not in a list under construction);
* `j2` **the reader invariant**: every node index in a program counter is reachable from a cell, or was unlinked
  while the thread was under its current guard (`t ∈ u`);
* `j3` the `next` field of an unlinked node leads to a reachable node or to a node unlinked later
  (`u_j ⊆ u_i`): whoever may hold `j` is awaited for `i` as well;
* `j4` `unl` and `life`: only unlinked nodes are retired; `waitFor ⊇ u`; freed only when `u = []`;
* `j5` `u` only contains threads under a guard; `j7` retire obligations are unlinked nodes of guarded threads. -/
namespace Flurry.Proto.BinNR
open Flurry.Lin
open Flurry.Proto.BinX (NodeS Cell Pending isReader dflt chainFrom cellHead cellOfHead nodeAt nodeAt_of_some getElem?_nodeAt
  IsSeg IsChain chainH chainH_empty chainH_moved get_set get_set_self get_set_ne Walk)
open Flurry.Proto.BinN (Pc Local cellAt cellOf chainOfCell Ghost Inv HInv MemStep HeapStep Live chId getCell CellId
  StepK chId_of_moved tick setT setNode putCell storeAt finish stepK_inv step_stepK)

structure RInv (s : State) (G : Ghost) : Prop where
  inv : Inv s.n G
  j1 : ∀ i u, s.unl i = some u → ¬ Live s.n G i ∧ i < s.n.heap.length
  j2 : ∀ t l i, s.n.threads[t]? = some l → i ∈ holds l.pc → Live0 s.n i ∨ ∃ u, s.unl i = some u ∧ t ∈ u
  j3 : ∀ j uj i, s.unl j = some uj → (nodeAt s.n.heap j).next = some i →
    Live0 s.n i ∨ ∃ ui, s.unl i = some ui ∧ uj ⊆ ui
  j4n : ∀ i, s.unl i = none → s.life i = .live
  j4r : ∀ i w, s.life i = .retired w → ∃ u, s.unl i = some u ∧ u ⊆ w
  j4f : ∀ i, s.life i = .freed → s.unl i = some []
  j5 : ∀ i u, s.unl i = some u → ∀ t ∈ u, guarded s.n t = true
  j7 : ∀ t i, i ∈ s.pend t → (s.unl i).isSome = true ∧ guarded s.n t = true

theorem mem_guardedSet {n : BinN.State} {t : Nat} : t ∈ guardedSet n ↔ guarded n t = true := by
  unfold guardedSet
  rw [List.mem_filter, List.mem_range]
  constructor
  · exact fun h => h.2
  · intro h
    refine ⟨?_, h⟩
    unfold guarded at h
    cases ht : n.threads[t]? with
    | none => rw [ht] at h; cases h
    | some l => exact (List.getElem?_eq_some_iff.1 ht).1

theorem guarded_of_holds {n : BinN.State} {t : Nat} {l : Local} {i : Nat} (hl : n.threads[t]? = some l)
    (hi : i ∈ holds l.pc) : guarded n t = true := by
  unfold guarded
  rw [hl]
  obtain ⟨pc, call⟩ := l
  cases pc <;> first | (simp [holds] at hi; done) | simp

theorem shrinkLife_live {g : Nat → Bool} {x : Life} : shrinkLife g x = .live ↔ x = .live := by
  cases x <;> simp [shrinkLife]

theorem shrinkLife_freed {g : Nat → Bool} {x : Life} : shrinkLife g x = .freed ↔ x = .freed := by
  cases x <;> simp [shrinkLife]

theorem shrinkLife_retired {g : Nat → Bool} {x : Life} {w' : List Nat} (h : shrinkLife g x = .retired w') :
    ∃ w, x = .retired w ∧ w' = w.filter g := by
  cases x with
  | live => simp [shrinkLife] at h
  | freed => simp [shrinkLife] at h
  | retired w => simp only [shrinkLife, Life.retired.injEq] at h; exact ⟨w, rfl, h.symm⟩

theorem filter_subset_filter {g : Nat → Bool} {a b : List Nat} (h : a ⊆ b) : a.filter g ⊆ b.filter g := by
  intro x hx
  rw [List.mem_filter] at hx ⊢
  exact ⟨h hx.1, hx.2⟩

/-- **a `BinN` step preserves the reclamation invariant**, provided the nodes it hands to `retire` are made
unreachable by it (`hRB`: proved in `Lemmas/BinNRRetired.lean`) -/
theorem RInv.base {s : State} {G : Ghost} (R : RInv s G) {t : Nat} {l : Local} {pick : Nat} {n' : BinN.State}
    (hl : s.n.threads[t]? = some l) (hK : StepK s.n t l pick n')
    (hRB : ∀ i ∈ retiredBy false s.n t, Live0 s.n i ∧ ¬ Live0 n' i ∧ guarded s.n t = true) :
    ∃ G', RInv (afterBase false s t n') G' := by
  obtain ⟨G', I', m, -⟩ := stepK_inv R.inv hl hK
  obtain ⟨l', hthr, hacq⟩ := acquire hK
  have H := R.inv.heap
  have hlen := memStep_len m
  -- the ghost after the step
  have hnr : ∀ i u, s.unl i = some u → (reach s.n i && !reach n' i) = false := by
    intro i u hu
    have : ¬ Live0 s.n i := fun h => (R.j1 i u hu).1 h.live
    have : reach s.n i = false := by
      cases hr : reach s.n i with
      | false => rfl
      | true => exact absurd ((reach_iff _ _).1 hr) this
    rw [this]; rfl
  have U1 : ∀ i u, s.unl i = some u → (afterBase false s t n').unl i = some (u.filter (guarded n')) := by
    intro i u hu
    show (if (reach s.n i && !reach n' i) = true then _ else _) = _
    rw [hnr i u hu, hu]; rfl
  have U2 : ∀ i, Live0 s.n i → ¬ Live0 n' i → (afterBase false s t n').unl i = some (guardedSet n') := by
    intro i h0 h1
    show (if (reach s.n i && !reach n' i) = true then _ else _) = _
    have a : reach s.n i = true := (reach_iff _ _).2 h0
    have b : reach n' i = false := by
      cases hr : reach n' i with
      | false => rfl
      | true => exact absurd ((reach_iff _ _).1 hr) h1
    rw [a, b]; rfl
  have U3 : ∀ i u', (afterBase false s t n').unl i = some u' →
      (Live0 s.n i ∧ ¬ Live0 n' i ∧ u' = guardedSet n') ∨ (∃ u, s.unl i = some u ∧ u' = u.filter (guarded n')) := by
    intro i u' hu'
    have hu'' : (if (reach s.n i && !reach n' i) = true then some (guardedSet n')
        else (s.unl i).map (·.filter (guarded n'))) = some u' := hu'
    by_cases hc : (reach s.n i && !reach n' i) = true
    · rw [if_pos hc] at hu''
      simp only [Bool.and_eq_true, Bool.not_eq_true', Option.some.injEq] at hc hu''
      left
      refine ⟨(reach_iff _ _).1 hc.1, ?_, hu''.symm⟩
      intro h
      rw [(reach_iff _ _).2 h] at hc
      cases hc.2
    · rw [if_neg hc] at hu''
      right
      cases hu : s.unl i with
      | none => rw [hu] at hu''; cases hu''
      | some u => rw [hu] at hu''; simp only [Option.map_some, Option.some.injEq] at hu''; exact ⟨u, rfl, hu''.symm⟩
  have hgs : ∀ u : List Nat, u.filter (guarded n') ⊆ guardedSet n' := by
    intro u x hx
    exact mem_guardedSet.2 (List.mem_filter.1 hx).2
  -- how a justification is carried over the step
  have TR : ∀ t1 i, guarded n' t1 = true → (Live0 s.n i ∨ ∃ u, s.unl i = some u ∧ t1 ∈ u) →
      Live0 n' i ∨ ∃ u', (afterBase false s t n').unl i = some u' ∧ t1 ∈ u' := by
    intro t1 i hg h
    rcases h with h0 | ⟨u, hu, htu⟩
    · by_cases h1 : Live0 n' i
      · exact Or.inl h1
      · exact Or.inr ⟨_, U2 i h0 h1, mem_guardedSet.2 hg⟩
    · exact Or.inr ⟨_, U1 i u hu, List.mem_filter.2 ⟨htu, hg⟩⟩
  have hother : ∀ t1, t1 ≠ t → n'.threads[t1]? = s.n.threads[t1]? := by
    intro t1 hne; rw [hthr]; exact get_set_ne hne
  have hgother : ∀ t1, t1 ≠ t → guarded n' t1 = guarded s.n t1 := by
    intro t1 hne; unfold guarded; rw [hother t1 hne]
  -- the retire obligations after the step
  have hpend1 : ∀ i, i ∈ s.pend t ++ retiredBy false s.n t →
      (∃ u', (afterBase false s t n').unl i = some u' ∧ u' ⊆ guardedSet n') ∧ guarded s.n t = true := by
    intro i hi
    rcases List.mem_append.1 hi with hi | hi
    · obtain ⟨h1, h2⟩ := R.j7 t i hi
      cases hu : s.unl i with
      | none => rw [hu] at h1; cases h1
      | some u => exact ⟨⟨_, U1 i u hu, hgs u⟩, h2⟩
    · obtain ⟨h0, h1, h2⟩ := hRB i hi
      exact ⟨⟨_, U2 i h0 h1, fun _ h => h⟩, h2⟩
  refine ⟨G', ⟨I', ?_, ?_, ?_, ?_, ?_, ?_, ?_, ?_⟩⟩
  · -- j1
    intro i u' hu'
    rcases U3 i u' hu' with ⟨h0, h1, -⟩ | ⟨u, hu, -⟩
    · exact ⟨(leave_step m h0 h1).1, Nat.lt_of_lt_of_le (h0.lt H) hlen⟩
    · obtain ⟨hd, hlt⟩ := R.j1 i u hu
      exact ⟨(dead_step m hlt hd).1, Nat.lt_of_lt_of_le hlt hlen⟩
  · -- j2
    intro t1 l1 i h1 hi
    have hg := guarded_of_holds h1 hi
    refine TR t1 i hg ?_
    have h1' : (s.n.threads.set t l')[t1]? = some l1 := by rw [← hthr]; exact h1
    rcases get_set h1' with ⟨rfl, rfl⟩ | ⟨hne, h1''⟩
    · rcases hacq i hi with h | ⟨id, hc⟩ | ⟨c, hc, n, hn, hnx⟩
      · exact R.j2 t1 l i hl h
      · exact Or.inl (Live0.head H hc)
      · have hnx' : (nodeAt s.n.heap c).next = some i := by rw [nodeAt_of_some hn]; exact hnx
        rcases R.j2 t1 l c hl hc with h0 | ⟨u, hu, htu⟩
        · exact Or.inl (h0.succ H hnx')
        · rcases R.j3 c u i hu hnx' with h0 | ⟨ui, hui, hsub⟩
          · exact Or.inl h0
          · exact Or.inr ⟨ui, hui, hsub htu⟩
    · exact R.j2 t1 l1 i h1'' hi
  · -- j3
    intro j uj' i huj hnx
    have hnx : (nodeAt n'.heap j).next = some i := hnx
    show Live0 n' i ∨ _
    rcases U3 j uj' huj with ⟨h0, h1, rfl⟩ | ⟨u, hu, rfl⟩
    · rw [(leave_step m h0 h1).2] at hnx
      have hi0 := h0.succ H hnx
      by_cases hi1 : Live0 n' i
      · exact Or.inl hi1
      · exact Or.inr ⟨_, U2 i hi0 hi1, fun _ h => h⟩
    · obtain ⟨hd, hlt⟩ := R.j1 j u hu
      rw [(dead_step m hlt hd).2] at hnx
      rcases R.j3 j u i hu hnx with hi0 | ⟨ui, hui, hsub⟩
      · by_cases hi1 : Live0 n' i
        · exact Or.inl hi1
        · exact Or.inr ⟨_, U2 i hi0 hi1, hgs u⟩
      · exact Or.inr ⟨_, U1 i ui hui, filter_subset_filter hsub⟩
  · -- j4n
    intro i hu
    have hnone : s.unl i = none := by
      cases h : s.unl i with
      | none => rfl
      | some u => rw [U1 i u h] at hu; cases hu
    show (if ((guarded s.n t && !guarded n' t) && (s.pend t ++ retiredBy false s.n t).contains i) = true then _
      else shrinkLife _ (s.life i)) = Life.live
    by_cases hc : ((guarded s.n t && !guarded n' t) && (s.pend t ++ retiredBy false s.n t).contains i) = true
    · simp only [Bool.and_eq_true, List.contains_iff_mem] at hc
      obtain ⟨⟨u', h1, -⟩, -⟩ := hpend1 i hc.2
      rw [h1] at hu; cases hu
    · rw [if_neg hc, shrinkLife_live]; exact R.j4n i hnone
  · -- j4r
    intro i w' hw
    have hw' : (if ((guarded s.n t && !guarded n' t) && (s.pend t ++ retiredBy false s.n t).contains i) = true
      then Life.retired (guardedSet n') else shrinkLife (guarded n') (s.life i)) = Life.retired w' := hw
    by_cases hc : ((guarded s.n t && !guarded n' t) && (s.pend t ++ retiredBy false s.n t).contains i) = true
    · rw [if_pos hc] at hw'
      simp only [Bool.and_eq_true, List.contains_iff_mem] at hc
      cases hw'
      exact (hpend1 i hc.2).1
    · rw [if_neg hc] at hw'
      obtain ⟨w, hlw, rfl⟩ := shrinkLife_retired hw'
      obtain ⟨u, hu, hsub⟩ := R.j4r i w hlw
      exact ⟨_, U1 i u hu, filter_subset_filter hsub⟩
  · -- j4f
    intro i hf
    have hf' : (if ((guarded s.n t && !guarded n' t) && (s.pend t ++ retiredBy false s.n t).contains i) = true
      then Life.retired (guardedSet n') else shrinkLife (guarded n') (s.life i)) = Life.freed := hf
    by_cases hc : ((guarded s.n t && !guarded n' t) && (s.pend t ++ retiredBy false s.n t).contains i) = true
    · rw [if_pos hc] at hf'; cases hf'
    · rw [if_neg hc, shrinkLife_freed] at hf'
      rw [U1 i [] (R.j4f i hf')]; rfl
  · -- j5
    intro i u' hu' t1 ht1
    rcases U3 i u' hu' with ⟨-, -, rfl⟩ | ⟨u, -, rfl⟩
    · exact mem_guardedSet.1 ht1
    · exact (List.mem_filter.1 ht1).2
  · -- j7
    intro t1 i hi
    have hi' : i ∈ (if t1 = t then (if (guarded s.n t && !guarded n' t) = true then []
        else s.pend t ++ retiredBy false s.n t) else s.pend t1) := hi
    by_cases ht : t1 = t
    · subst ht
      rw [if_pos rfl] at hi'
      by_cases he : (guarded s.n t1 && !guarded n' t1) = true
      · rw [if_pos he] at hi'; cases hi'
      · rw [if_neg he] at hi'
        obtain ⟨⟨u', h1, -⟩, h2⟩ := hpend1 i hi'
        refine ⟨by rw [h1]; rfl, ?_⟩
        rw [h2] at he
        cases hg : guarded n' t1 with
        | true => exact hg
        | false => rw [hg] at he; exact absurd rfl he
    · rw [if_neg ht] at hi'
      obtain ⟨h1, h2⟩ := R.j7 t1 i hi'
      refine ⟨?_, by show guarded n' t1 = true; rw [hgother t1 ht]; exact h2⟩
      cases hu : s.unl i with
      | none => rw [hu] at h1; cases h1
      | some u => rw [U1 i u hu]; rfl

/-- `retire` preserves the invariant -/
theorem RInv.retire {s s' : State} {G : Ghost} (R : RInv s G) {t i : Nat}
    (hs : stepG false s t (.retire i) = some s') : RInv s' G := by
  unfold stepG at hs
  simp only at hs
  split at hs
  · rename_i hc
    cases hs
    have hi : i ∈ s.pend t := by simpa using hc
    obtain ⟨h1, h2⟩ := R.j7 t i hi
    refine ⟨R.inv, R.j1, R.j2, R.j3, ?_, ?_, ?_, R.j5, ?_⟩
    · intro j hu
      show (if j = i then _ else s.life j) = Life.live
      by_cases hj : j = i
      · subst hj; rw [hu] at h1; cases h1
      · rw [if_neg hj]; exact R.j4n j hu
    · intro j w hw
      have hw' : (if j = i then Life.retired (guardedSet s.n) else s.life j) = Life.retired w := hw
      by_cases hj : j = i
      · subst hj
        rw [if_pos rfl] at hw'
        cases hw'
        cases hu : s.unl j with
        | none => rw [hu] at h1; cases h1
        | some u => exact ⟨u, rfl, fun x hx => mem_guardedSet.2 (R.j5 j u hu x hx)⟩
      · rw [if_neg hj] at hw'; exact R.j4r j w hw'
    · intro j hf
      have hf' : (if j = i then Life.retired (guardedSet s.n) else s.life j) = Life.freed := hf
      by_cases hj : j = i
      · rw [if_pos hj] at hf'; cases hf'
      · rw [if_neg hj] at hf'; exact R.j4f j hf'
    · intro t1 j hj
      have hj' : j ∈ (if t1 = t then (s.pend t).erase i else s.pend t1) := hj
      by_cases ht : t1 = t
      · subst ht
        rw [if_pos rfl] at hj'
        exact R.j7 t1 j (List.mem_of_mem_erase hj')
      · rw [if_neg ht] at hj'; exact R.j7 t1 j hj'
  · cases hs

/-- `free` preserves the invariant -/
theorem RInv.free {s s' : State} {G : Ghost} (R : RInv s G) {t i : Nat}
    (hs : stepG false s t (.free i) = some s') : RInv s' G := by
  unfold stepG at hs
  simp only at hs
  split at hs
  · rename_i hc
    cases hs
    obtain ⟨u, hu, hsub⟩ := R.j4r i [] hc
    have hu0 : u = [] := by
      cases u with
      | nil => rfl
      | cons a _ => exact absurd (hsub List.mem_cons_self) (by simp)
    subst hu0
    refine ⟨R.inv, R.j1, R.j2, R.j3, ?_, ?_, ?_, R.j5, R.j7⟩
    · intro j hj
      show (if j = i then Life.freed else s.life j) = Life.live
      by_cases hji : j = i
      · subst hji; rw [hu] at hj; cases hj
      · rw [if_neg hji]; exact R.j4n j hj
    · intro j w hw
      have hw' : (if j = i then Life.freed else s.life j) = Life.retired w := hw
      by_cases hji : j = i
      · rw [if_pos hji] at hw'; cases hw'
      · rw [if_neg hji] at hw'; exact R.j4r j w hw'
    · intro j hf
      have hf' : (if j = i then Life.freed else s.life j) = Life.freed := hf
      by_cases hji : j = i
      · subst hji; exact hu
      · rw [if_neg hji] at hf'; exact R.j4f j hf'
  · cases hs

theorem RInv.init (n : Nat) : RInv (init n) {} := by
  refine ⟨BinN.init_inv n, ?_, ?_, ?_, ?_, ?_, ?_, ?_, ?_⟩
  · intro i u h; cases h
  · intro t l i hl hi
    have := BinN.init_thread hl
    subst this
    simp [holds] at hi
  · intro j uj i h; cases h
  · intro i _; rfl
  · intro i w h; cases h
  · intro i h; cases h
  · intro i u h; cases h
  · intro t i h; cases h

end Flurry.Proto.BinNR
