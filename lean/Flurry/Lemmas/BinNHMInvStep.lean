import Flurry.Lemmas.BinNInvStep
import Flurry.Lemmas.BinNInv
import Flurry.Lemmas.BinNHMInv
/-! # Proto/BinNH — port of the `Proto/BinN` lemma file of the same name to the heap invariant with ONE
MID-TRANSFER CELL PER HELPER (`Lemmas/BinNHMDefs.lean`); statements about `BinN.State`. Original header: every transition preserves the structural invariant — the case analysis (C01, C10) -/
namespace Flurry.Proto.BinNHM
open Flurry.Proto.BinN
open Flurry.Lin
open Flurry.Proto.BinX (NodeS Cell Pending isReader dflt chainFrom cellHead cellOfHead nodeAt nodeAt_of_some getElem?_nodeAt
  nodeAt_append_left IsSeg IsChain chainH absIn KeysDistinct Walk get_set get_set_self get_set_ne cellOfHead_ne_moved)

/-- a program counter that holds no validated lock -/
theorem vcell_none_of {cur : Nat} {l : Local} (h : ∀ g h pr c, l.pc ≠ .wFind g h pr c)
    (h' : ∀ g h pr hi hn, l.pc ≠ .wStore g h pr hi hn) (hT : ¬ isT l.pc) : vcell cur l = none := by
  obtain ⟨pc, call⟩ := l
  cases pc <;> first | exact absurd trivial hT | rfl | (cases call <;> rfl) | exact absurd rfl (h _ _ _ _) |
    exact absurd rfl (h' _ _ _ _ _)

/-- **the transitions of the readers and writers preserve the structural invariant** (the ghost does not change).
`hlk`: the acting thread does not hold the bin lock of a cell that is being split (a helper does);
`hrz`: the transition is not the start of a resize (those are transitions of the helper parts). The cell that is
being split and its two children are not touched. -/
theorem stepK_inv {s s' : State} {G : Ghost} {t : Nat} {l : Local} {pick : Nat} (I : Inv s G)
    (hl : s.threads[t]? = some l) (hstep : StepK s t l pick s')
    (hlk : ∀ j h, IsMid G j → cellAt s s.cur j = .node h → lockAt s.heap h ≠ some t)
    (hrz : s'.resizing = s.resizing) :
    Inv s' G ∧ MemStep s s' G G ∧ AbsEff s s' l ∧
    (∀ j lo hg fr, G.mid j = some (lo, hg, fr) → cellAt s' s.cur j = cellAt s s.cur j ∧
      cellAt s' (s.cur + 1) j = cellAt s (s.cur + 1) j ∧
      cellAt s' (s.cur + 1) (j + 2 ^ s.cur) = cellAt s (s.cur + 1) (j + 2 ^ s.cur)) := by
  have Gn' := stepK_geninv I.gen hl hstep
  have Tn' := stepK_tinv I.thr hl hstep
  have S' := Gn'.shape
  have H := I.heap
  have T := I.gen.thr t l hl
  have hnT := I.noT t l hl
  have same : ∀ {s'' : State}, s''.tabs = s.tabs → ∀ j lo hg fr, G.mid j = some (lo, hg, fr) →
      cellAt s'' s.cur j = cellAt s s.cur j ∧ cellAt s'' (s.cur + 1) j = cellAt s (s.cur + 1) j ∧
      cellAt s'' (s.cur + 1) (j + 2 ^ s.cur) = cellAt s (s.cur + 1) (j + 2 ^ s.cur) := by
    intro s'' ht j lo hg fr _
    have hcell : ∀ g j, cellAt s'' g j = cellAt s g j := fun g j => by rw [cellAt_eq, cellAt_eq, ht]
    exact ⟨hcell _ _, hcell _ _, hcell _ _⟩
  have none_new : ∀ {l' : Local}, vcell s.cur l' = none → ∀ j h, IsMid G j → vcell s.cur l' ≠ some (s.cur, j, h) := by
    intro l' h j h0 _ hv; rw [h] at hv; cases hv
  cases hstep with
  | idle hpc =>
    obtain ⟨a, b, c⟩ := inv_same (l' := l) I hl Gn' Tn' ⟨rfl, rfl, rfl, rfl⟩ rfl hnT
      (fun j h hm => I.midw j hm t l h hl) (fun p _ => by rw [hpc]; trivial)
    exact ⟨a, b, c, same rfl⟩
  | invoke k op hpc =>
    obtain ⟨a, b, c⟩ := inv_same (l := l) I hl Gn' Tn' ⟨rfl, rfl, rfl, rfl⟩ rfl
      (by cases isReader op <;> exact fun h => h)
      (none_new (by cases isReader op <;> rfl)) (by intro p _; cases isReader op <;> trivial)
    exact ⟨a, b, c, same rfl⟩
  | resize hpc hr =>
    rw [hr] at hrz; cases hrz
  | move p pc' hp hm =>
    obtain ⟨pc, call⟩ := l
    simp only at hp hm
    subst hp
    have hT' : ¬ isT pc' := by cases hm <;> exact fun h => h
    have hnew : ∀ j h, IsMid G j → vcell s.cur { pc := pc', call := some p } ≠ some (s.cur, j, h) := by
      intro j h0 hmid hv
      cases hm with
      | @checkOk g h hc =>
        simp only [vcell, Option.some.injEq, Prod.mk.injEq] at hv
        obtain ⟨rfl, rfl, rfl⟩ := hv
        exact hlk _ _ hmid hc (T.held _ rfl).2
      | findEnd => exact I.midw j hmid t _ h0 hl hv
      | findHit _ _ => exact I.midw j hmid t _ h0 hl hv
      | findNext _ _ => exact I.midw j hmid t _ h0 hl hv
      | rTable => cases hv
      | rCellMoved _ => cases hv
      | rCellNode _ => cases hv
      | rNext _ _ => cases hv
      | wTable => cases hv
      | wCellEmpty _ _ => cases hv
      | wCellMoved _ => cases hv
      | wCellNode _ => cases hv
      | casFail => cases hv
      | checkFail _ => cases hv
    obtain ⟨a, b, c⟩ := inv_same (l := ⟨pc, some p⟩) I hl Gn' Tn' ⟨rfl, rfl, rfl, rfl⟩ rfl hT' hnew
      (by intro p' hp'; cases hp'; exact Move.walk H hm (I.walk.walk t _ p hl rfl))
    exact ⟨a, b, c, same rfl⟩
  | tmove pc' hp hm =>
    obtain ⟨pc, call⟩ := l
    cases hm <;> exact absurd trivial hnT
  | lockMove p h x pc' hp hm =>
    obtain ⟨pc, call⟩ := l
    simp only at hp hm
    subst hp
    obtain ⟨a, b, c⟩ := inv_lock (l := ⟨pc, some p⟩) (l' := ⟨pc', some p⟩) I hl Gn' Tn' rfl rfl rfl rfl rfl
      (by cases hm <;> exact fun h => h) (none_new (by cases hm <;> rfl)) (by intro p' _; cases hm <;> trivial)
    exact ⟨a, b, c, same rfl⟩
  | tlockMove h x pc' hp hm =>
    obtain ⟨pc, call⟩ := l
    cases hm <;> exact absurd trivial hnT
  | fin p res hp hf =>
    obtain ⟨pc, call⟩ := l
    simp only at hp hf
    subst hp
    obtain ⟨a, b, c⟩ := inv_same (l := ⟨pc, some p⟩) (l' := { pc := .idle, call := none }) I hl Gn' Tn'
      ⟨rfl, rfl, rfl, rfl⟩ rfl (fun h => h) (none_new rfl) (fun p hp' => by cases hp')
    exact ⟨a, b, c, same rfl⟩
  | cas p g v vi hp hpc hc hop =>
    obtain ⟨pc, call⟩ := l
    simp only at hp hpc
    subst hp hpc
    have act := I.active_of_empty hl rfl rfl hc
    obtain ⟨e, habs⟩ := cas_finish_effect (t := t) H p act hc (v, vi)
    have e0 := e
    obtain ⟨C', u, -, -⟩ := e0
    obtain ⟨I', m⟩ := inv_update (l' := { pc := .idle, call := none }) I hl Gn' Tn' act e rfl (fun h => h) (none_new rfl)
      (fun t1 l1 h _ h1 => no_vcell_of_not_node I.gen (by show ∀ h, cellOf s g p.key ≠ _; rw [hc]; simp) t1 l1 h h1)
      (fun p hp' => by cases hp')
    exact ⟨I', m, .cas p g v vi rfl rfl hc hop habs, fun j lo hg fr hm => u.mid_cells H act hm⟩
  | store p g h pred hit hnext hp hpc =>
    obtain ⟨pc, call⟩ := l
    simp only at hp hpc
    subst hp hpc
    have hv0 : vcell s.cur { pc := Pc.wStore g h pred hit hnext, call := some p } = some (g, p.key % 2 ^ g, h) := rfl
    have act := I.active_of_vcell hl rfl rfl (fun h => h) hv0
    obtain ⟨hcell, -⟩ := T.valid _ _ _ hv0
    have hwr : isReader p.op = false := I.thr.opOK t _ p hl rfl
    have hw := I.walk.walk t _ p hl rfl
    obtain ⟨e, hthr, -, -, -, hspec, hoth⟩ := store_effect (s := tick s) (H.sameMem (SameMem.tick s)) p hwr
      (act.sameMem (SameMem.tick s)) (h := h) hcell hw.1 hw.2
    have mt : SameMem (tick s) s := ⟨rfl, rfl, rfl, rfl⟩
    have e' := e.congr mt (SameMem.setT _ t { pc := .wUnlock g h (storeAt (tick s) g p pred hit hnext).2 false, call := some p })
    have hthr' : (setT (storeAt (tick s) g p pred hit hnext).1 t
        { pc := .wUnlock g h (storeAt (tick s) g p pred hit hnext).2 false, call := some p }).threads =
        s.threads.set t { pc := .wUnlock g h (storeAt (tick s) g p pred hit hnext).2 false, call := some p } := by
      show (storeAt _ _ _ _ _ _).1.threads.set _ _ = _
      rw [hthr]; rfl
    have e0 := e'
    obtain ⟨C', u, -, -⟩ := e0
    obtain ⟨I', m⟩ := inv_update I hl Gn' Tn' act e' hthr' (fun h => h) (none_new rfl)
      (no_vcell_of_mutex I.gen hl hv0) (fun p _ => trivial)
    refine ⟨I', m, .store p g h pred hit hnext rfl rfl ?_ ?_, fun j lo hg fr hm => u.mid_cells H act hm⟩
    · rw [absOf_sameMem (SameMem.setT _ _ _)]
      rw [absOf_sameMem (SameMem.tick s)] at hspec
      exact hspec
    · intro k hk
      rw [absOf_sameMem (SameMem.setT _ _ _), hoth k hk, absOf_sameMem (SameMem.tick s)]
  | unlockFin p g h res hp hpc =>
    obtain ⟨pc, call⟩ := l
    simp only at hp hpc
    subst hp hpc
    obtain ⟨a, b, c⟩ := inv_lock (l := ⟨.wUnlock g h res false, some p⟩) (l' := { pc := .idle, call := none }) I hl Gn' Tn'
      rfl rfl rfl rfl rfl (fun h => h) (none_new rfl) (fun p hp' => by cases hp')
    exact ⟨a, b, c, same rfl⟩
  | casMoved j hp hpc hc => rw [hpc] at hnT; exact absurd trivial hnT
  | build j h hp hpc => rw [hpc] at hnT; exact absurd trivial hnT
  | storeLow j h lo hg hp hpc => rw [hpc] at hnT; exact absurd trivial hnT
  | storeHigh j h hg hp hpc => rw [hpc] at hnT; exact absurd trivial hnT
  | storeMoved j h hp hpc => rw [hpc] at hnT; exact absurd trivial hnT
  | commit hp hpc => rw [hpc] at hnT; exact absurd trivial hnT

end Flurry.Proto.BinNHM
