import Flurry.Proto.TableNH
import Flurry.Lemmas.TableN
import Flurry.Props.C01BinNHLin
/-! # Proto/TableNH: a table through any number of COOPERATIVE resizes is linearizable as a MAP (C01)

The construction of `Lemmas/TableN.lean` over `Proto/BinNH` lineages. A `tick` of a lineage IS a transition
of `Proto/BinNH`: the step of a thread that is idle there, is not a resizing thread there, and starts
nothing — no call, no resize (`BinNH.step b t none false false 0 = some (tick b)`, `tick_is_step`), and
`TableNH.step` lets thread `t` act in lineage `i` only while it is idle (in that sense) in every other
lineage. Hence every lineage of a reachable table is literally `BinNH.Reachable` (`TblInv.reach`); the key
translation lemmas are those of `Lemmas/TableN.lean`. -/
namespace Flurry.Proto.TableNH
open Flurry.Lin Flurry.LinMap
open Flurry.Proto.BinX (get_set get_set_ne)
open Flurry.Proto.TableN (lineageOf localKey globalKey inLineage localInv)

/-- **a tick is a transition of the lineage**: the step of a thread that is idle there (no call, not a
resizing thread) and starts nothing (no call, no resize) -/
theorem tick_is_step {b : BinNH.State} {t : Nat} (h : idleIn b t = true) :
    BinNH.step b t none false false 0 = some (tick b) := by
  unfold idleIn at h
  split at h
  · rename_i l hl hh
    obtain ⟨pc, call⟩ := l
    simp only [beq_iff_eq] at h
    subst h
    unfold BinNH.step BinNH.stepG
    simp only [hl, hh]
    rfl
  · cases h

/-- the invariant of the table -/
structure TblInv (m n : Nat) (S : State) : Prop where
  len : S.bins.length = m
  reach : ∀ (j : Nat) (b : BinNH.State), S.bins[j]? = some b → BinNH.Reachable n b

theorem init_bin {m n j : Nat} {b : BinNH.State} (h : (init m n).bins[j]? = some b) : b = BinNH.init n := by
  have hm : b ∈ List.replicate m (BinNH.init n) := List.mem_iff_getElem?.mpr ⟨j, h⟩
  exact (List.mem_replicate.1 hm).2

theorem init_tblInv (m n : Nat) : TblInv m n (init m n) := by
  refine ⟨by simp [init], ?_⟩
  intro j b h
  rw [init_bin h]
  exact BinNH.Reachable.init

/-- `step`, spelled out -/
theorem step_eq_some {S S' : State} {i t : Nat} {inv : Option (Nat × KOp)} {rz leave : Bool} {pick : Nat}
    (hs : step S i t inv rz leave pick = some S') :
    ∃ b b', S.bins[i]? = some b ∧
      ((List.range S.bins.length).all fun j => j == i || idleIn (S.bins.getD j (BinNH.init 0)) t) = true ∧
      (∀ k op, inv = some (k, op) → lineageOf S.bins.length k = i) ∧
      BinNH.step b t (localInv S.bins.length inv) rz leave pick = some b' ∧
      S' = { bins := (S.bins.map tick).set i b' } := by
  unfold step at hs
  simp only at hs
  cases hb : S.bins[i]? with
  | none => rw [hb] at hs; cases hs
  | some b =>
    rw [hb] at hs
    simp only at hs
    cases h1 : ((List.range S.bins.length).all fun j => j == i || idleIn (S.bins.getD j (BinNH.init 0)) t) with
    | false => rw [h1] at hs; simp at hs
    | true =>
      rw [h1] at hs
      simp only [Bool.not_true, Bool.false_eq_true, if_false] at hs
      cases h2 : inLineage S.bins.length i (inv.map (·.1)) with
      | false => rw [h2] at hs; simp at hs
      | true =>
        rw [h2] at hs
        simp only [Bool.not_true, Bool.false_eq_true, if_false] at hs
        cases h4 : BinNH.step b t (localInv S.bins.length inv) rz leave pick with
        | none => rw [h4] at hs; cases hs
        | some b' =>
          rw [h4] at hs
          simp only [Option.some.injEq] at hs
          refine ⟨b, b', rfl, rfl, ?_, h4, hs.symm⟩
          intro k op hi
          subst hi
          simpa [inLineage] using h2

/-- a call is started in the lineage of its key, under its local name -/
theorem step_call {S S' : State} {i t k : Nat} {op : KOp} {rz leave : Bool} {pick : Nat}
    (hs : step S i t (some (k, op)) rz leave pick = some S') :
    lineageOf S.bins.length k = i ∧ ∃ b b', S.bins[i]? = some b ∧
      BinNH.step b t (some (localKey S.bins.length k, op)) rz leave pick = some b' ∧ S'.bins[i]? = some b' := by
  obtain ⟨b, b', hb, -, hkey, hb', rfl⟩ := step_eq_some hs
  refine ⟨hkey k op rfl, b, b', hb, hb', ?_⟩
  show ((S.bins.map tick).set i b')[i]? = some b'
  have hi : i < (S.bins.map tick).length := by
    rw [List.length_map]; exact (List.getElem?_eq_some_iff.1 hb).1
  rw [List.getElem?_set_self hi]

/-- the lineages after a step: lineage `i` made its transition, every other lineage ticked and
thread `t` is idle there -/
theorem step_bins {S : State} {i t : Nat} {b b' : BinNH.State} (hb : S.bins[i]? = some b)
    (hidle : ((List.range S.bins.length).all fun j => j == i || idleIn (S.bins.getD j (BinNH.init 0)) t) = true) :
    ∀ (j : Nat) (c : BinNH.State), ((S.bins.map tick).set i b')[j]? = some c →
      (j = i ∧ c = b') ∨ (j ≠ i ∧ ∃ b0, S.bins[j]? = some b0 ∧ c = tick b0 ∧ idleIn b0 t = true) := by
  intro j c hc
  rcases get_set hc with ⟨rfl, rfl⟩ | ⟨hne, hc⟩
  · exact Or.inl ⟨rfl, rfl⟩
  · rw [List.getElem?_map] at hc
    cases hj : S.bins[j]? with
    | none => rw [hj] at hc; cases hc
    | some b0 =>
      rw [hj] at hc
      simp only [Option.map_some, Option.some.injEq] at hc
      have hjl : j < S.bins.length := (List.getElem?_eq_some_iff.1 hj).1
      have := List.all_eq_true.1 hidle j (List.mem_range.2 hjl)
      have hd : S.bins.getD j (BinNH.init 0) = b0 := by
        rw [List.getD_eq_getElem?_getD, hj]; rfl
      rw [hd] at this
      simp only [Bool.or_eq_true, beq_iff_eq] at this
      rcases this with h | h
      · exact absurd h hne
      · exact Or.inr ⟨hne, b0, rfl, hc.symm, h⟩

theorem step_tblInv {m n : Nat} {S S' : State} {i t : Nat} {inv : Option (Nat × KOp)} {rz leave : Bool} {pick : Nat}
    (I : TblInv m n S) (hs : step S i t inv rz leave pick = some S') : TblInv m n S' := by
  obtain ⟨b, b', hb, hidle, _, hb', rfl⟩ := step_eq_some hs
  have hget := step_bins hb hidle (b' := b')
  refine ⟨?_, ?_⟩
  · show ((S.bins.map tick).set i b').length = m
    rw [List.length_set, List.length_map]; exact I.len
  · intro j c hc
    rcases hget j c hc with ⟨rfl, rfl⟩ | ⟨_, b0, hj, rfl, hid⟩
    · exact BinNH.Reachable.step t _ rz leave pick (I.reach j b hb) hb'
    · exact BinNH.Reachable.step t none false false 0 (I.reach j b0 hj) (tick_is_step hid)

theorem reachable_tblInv {m n : Nat} {S : State} (hr : Reachable m n S) : TblInv m n S := by
  induction hr with
  | init => exact init_tblInv m n
  | step i t inv rz leave pick _ hs ih => exact step_tblInv ih hs

/-! ## the history of the map, key by key -/

/-- the projection of the map history on key `k` is the history of local key `k / m` in lineage `k % m` -/
theorem proj_mhist {m n : Nat} (hm : 0 < m) {S : State} (I : TblInv m n S) {k : Nat} {b : BinNH.State}
    (hb : S.bins[lineageOf m k]? = some b) : proj (mhist S) k = BinNH.callsOn b (localKey m k) := by
  have hlt : lineageOf m k < m := Nat.mod_lt _ hm
  have hd : S.bins.getD (lineageOf m k) (BinNH.init 0) = b := by
    rw [List.getD_eq_getElem?_getD, hb]; rfl
  unfold mhist
  rw [TableN.proj_flatten, List.map_map, I.len]
  rw [TableN.flatten_single ((fun x => proj x k) ∘ fun i => binCalls m i (S.bins.getD i (BinNH.init 0)))
    (List.range m) (lineageOf m k) (lineageOf m k) (by rw [List.getElem?_range hlt])]
  · show proj (TableN.binCalls m (lineageOf m k) (S.bins.getD (lineageOf m k) (BinNH.init 0)).n) k = _
    rw [hd]
    exact TableN.proj_binCalls_own hm b.n k
  · intro j c hj hne
    have hjm : j < m := by
      have := (List.getElem?_eq_some_iff.1 hj).1
      simpa using this
    rw [List.getElem?_range hjm] at hj
    cases hj
    exact TableN.proj_binCalls_other hjm _ hne

theorem bin_of_key {m n : Nat} (hm : 0 < m) {S : State} (I : TblInv m n S) (k : Nat) :
    ∃ b, S.bins[lineageOf m k]? = some b ∧ S.bins.getD (lineageOf S.bins.length k) (BinNH.init 0) = b := by
  have hlt : lineageOf m k < S.bins.length := by rw [I.len]; exact Nat.mod_lt _ hm
  refine ⟨S.bins[lineageOf m k], List.getElem?_eq_getElem hlt, ?_⟩
  rw [I.len, List.getD_eq_getElem?_getD, List.getElem?_eq_getElem hlt]
  rfl

theorem tableNH_key_linearizable_aux {m n : Nat} (hm : 0 < m) {S : State} (hr : Reachable m n S)
    (hq : quiescent S) (k : Nat) : Linearizable (proj (mhist S) k) none (absMap S k) := by
  have I := reachable_tblInv hr
  obtain ⟨b, hb, hd⟩ := bin_of_key hm I k
  rw [proj_mhist hm I hb]
  unfold absMap
  rw [hd, I.len]
  exact BinNH.binNH_linearizable_quiescent (I.reach _ b hb) (hq b (List.mem_of_getElem? hb)) (localKey m k)

/-- every call of the map history is a call of some lineage `i < m`, under the translated key -/
theorem mem_mhist {S : State} {c : MCall} (hc : c ∈ mhist S) :
    ∃ i b q, S.bins[i]? = some b ∧ (q, c.call) ∈ b.n.hist ∧ c.key = globalKey S.bins.length i q := by
  unfold mhist at hc
  rw [List.mem_flatten] at hc
  obtain ⟨l, hl, hcl⟩ := hc
  obtain ⟨i, hi, rfl⟩ := List.mem_map.1 hl
  have hilt : i < S.bins.length := List.mem_range.1 hi
  unfold binCalls TableN.binCalls at hcl
  obtain ⟨e, he, rfl⟩ := List.mem_map.1 hcl
  rw [List.mem_reverse] at he
  refine ⟨i, S.bins[i], e.1, List.getElem?_eq_getElem hilt, ?_, rfl⟩
  rw [List.getD_eq_getElem?_getD, List.getElem?_eq_getElem hilt] at he
  exact he

/-- every call of the map history on key `k` is recorded in lineage `k % m`, under the local name `k / m` -/
theorem mhist_own_lineage {m n : Nat} {S : State} (I : TblInv m n S) {c : MCall} (hc : c ∈ mhist S) :
    ∃ b, S.bins[lineageOf m c.key]? = some b ∧ (localKey m c.key, c.call) ∈ b.n.hist := by
  obtain ⟨i, b, q, hb, hmem, hk⟩ := mem_mhist hc
  rw [I.len] at hk
  have hi : i < m := I.len ▸ (List.getElem?_eq_some_iff.1 hb).1
  rw [hk, TableN.lineageOf_globalKey hi, TableN.localKey_globalKey hi]
  exact ⟨b, hb, hmem⟩

/-- no call of the map history responds before it is invoked -/
theorem mhist_wf {m n : Nat} {S : State} (hr : Reachable m n S) : ∀ c ∈ mhist S, c.call.inv ≤ c.call.resp := by
  have I := reachable_tblInv hr
  intro c hc
  obtain ⟨i, b, q, hb, hmem, -⟩ := mem_mhist hc
  obtain ⟨G, A, pt, F, -⟩ := BinNH.reachable_full (I.reach i b hb) 0
  exact (F.inv.thr.histTime (q, c.call) hmem).1

theorem tableNH_map_linearizable_aux {m n : Nat} (hm : 0 < m) {S : State} (hr : Reachable m n S)
    (hq : quiescent S) : MapLinearizable (mhist S) (fun _ => none) (absMap S) :=
  Flurry.LinMap.map_linearizable_of_proj (mhist_wf hr) (fun k => tableNH_key_linearizable_aux hm hr hq k)

end Flurry.Proto.TableNH
