import Flurry.Proto.BinNR
import Flurry.Lemmas.BinNLin
/-! # Proto/BinNR: reachability from the cells (`Live0`) and what a `BinN` transition does to it (C03, C04) -/
namespace Flurry.Proto.BinNR
open Flurry.Lin
open Flurry.Proto.BinX (NodeS Cell Pending dflt chainFrom cellHead cellOfHead nodeAt nodeAt_of_some getElem?_nodeAt
  IsSeg IsChain chainH chainH_empty chainH_moved get_set get_set_self get_set_ne)
open Flurry.Proto.BinN (Pc Local cellAt cellOf chainOfCell Ghost Inv HInv MemStep HeapStep Live chId getCell CellId
  StepK chId_of_moved)

/-- node `i` is in the chain of some cell (of any generation): a lookup that loads a cell now can reach it -/
def Live0 (n : BinN.State) (i : Nat) : Prop := ∃ id : CellId, i ∈ chId n id

theorem Live0.live {n : BinN.State} {G : Ghost} {i : Nat} (h : Live0 n i) : Live n G i := Or.inl h

theorem Live0.lt {n : BinN.State} {G : Ghost} (H : HInv n G) {i : Nat} (h : Live0 n i) : i < n.heap.length := by
  obtain ⟨id, hi⟩ := h
  exact H.chain_lt hi

/-- reachability is closed under `next` -/
theorem Live0.succ {n : BinN.State} {G : Ghost} (H : HInv n G) {j i : Nat} (h : Live0 n j)
    (hn : (nodeAt n.heap j).next = some i) : Live0 n i := by
  obtain ⟨id, hj⟩ := h
  exact ⟨id, ((H.isChain id).succ_someN H.nextOK hj (getElem?_nodeAt (H.chain_lt hj)) hn).1⟩

/-- the head of a cell is reachable -/
theorem Live0.head {n : BinN.State} {G : Ghost} (H : HInv n G) {id : CellId} {h : Nat}
    (hc : getCell n id = .node h) : Live0 n h := by
  obtain ⟨l, hl⟩ := BinN.chainH_node H.nextOK (H.head id h hc)
  exact ⟨id, by unfold chId; rw [hc, hl]; exact List.mem_cons_self⟩

theorem reach_iff (n : BinN.State) (i : Nat) : reach n i = true ↔ Live0 n i := by
  unfold reach Live0
  simp only [List.any_eq_true, List.contains_iff_mem]
  constructor
  · rintro ⟨row, hrow, c, hc, hi⟩
    obtain ⟨g, hg, rfl⟩ := List.getElem_of_mem hrow
    obtain ⟨j, hj, rfl⟩ := List.getElem_of_mem hc
    refine ⟨(g, j), ?_⟩
    have : getCell n (g, j) = (n.tabs[g])[j] := by
      unfold getCell cellAt
      simp [List.getD_eq_getElem?_getD, hg, hj]
    unfold chId
    rw [this]
    exact hi
  · rintro ⟨⟨g, j⟩, hi⟩
    unfold chId getCell cellAt at hi
    simp only [List.getD_eq_getElem?_getD] at hi
    cases hg : n.tabs[g]? with
    | none => rw [hg] at hi; simp [chainH_empty] at hi
    | some row =>
      rw [hg] at hi
      simp only [Option.getD_some] at hi
      cases hj : row[j]? with
      | none => rw [hj] at hi; simp [chainH_empty] at hi
      | some c =>
        rw [hj] at hi
        exact ⟨row, List.mem_of_getElem? hg, c, List.mem_of_getElem? hj, hi⟩

end Flurry.Proto.BinNR
