import Flurry.Lemmas.LinLocalGen
import Flurry.Lemmas.LinSearch
/-! # Locality (Herlihy & Wing) for the map object

`map_linearizable_of_proj` (per-key linearizable ⇒ map linearizable),
`proj_linearizable_of_map` (the converse), `untouched_of_map`.

Both `Linearizable` and `MapLinearizable` are first brought into "list of calls" form
(`linearizable_iff_linL`, `mapLinearizable_iff_mlinL`, via `LinGen.glinI_iff_glinL`). In that form

* the converse direction filters the global order to one key (`mlinL_proj`);
* the hard direction peels off, by induction on the number of calls, a call that may go first:
  among the heads of the chosen per-key orders the one with the least invocation time
  (`mlinL_of_proj`). No other remaining call `d` responded before it was invoked: the head `c'` of
  `d`'s own key precedes-or-equals `d` in that key's order, so `inv c ≤ inv c' ≤ resp d`
  (for `d = c'` this is where `inv ≤ resp` is used). -/
namespace Flurry.LinMap
open Flurry.Lin Flurry.LinGen

/-! ## list forms -/

/-- one checked step of a key -/
def kstep (st : KSt) (c : Call) : Option KSt :=
  if (specStep st c.op).2 = c.res then some (specStep st c.op).1 else none

/-- one checked step of the map -/
def mstep (m : MSt) (c : MCall) : Option MSt :=
  if (mspecStep m c.key c.call.op).2 = c.call.res then some (mspecStep m c.key c.call.op).1 else none

def krt (a b : Call) : Prop := ¬ (b.resp < a.inv)
def mrt (a b : MCall) : Prop := ¬ (b.call.resp < a.call.inv)

theorem replay_eq_runI (h : History) : ∀ (order : List Nat) (st : KSt),
    replay h order st = runI kstep h order st
  | [], st => rfl
  | i :: rest, st => by
    cases hc : h[i]? with
    | none => simp [replay, runI, hc]
    | some c =>
      simp only [replay, runI, hc, kstep]
      split
      · simpa using replay_eq_runI h rest _
      · simp

theorem mreplay_eq_runI (h : MHistory) : ∀ (order : List Nat) (m : MSt),
    mreplay h order m = runI mstep h order m
  | [], m => rfl
  | i :: rest, m => by
    cases hc : h[i]? with
    | none => simp [mreplay, runI, hc]
    | some c =>
      simp only [mreplay, runI, hc, mstep]
      split
      · simpa using mreplay_eq_runI h rest _
      · simp

/-- per-key linearizability, list form -/
def LinL (h : History) (init fin : KSt) : Prop :=
  ∃ l : List Call, l.Perm h ∧ l.Pairwise krt ∧ runL kstep l init = some fin

/-- map linearizability, list form -/
def MLinL (h : MHistory) (init fin : MSt) : Prop :=
  ∃ l : List MCall, l.Perm h ∧ l.Pairwise mrt ∧ ∃ m, runL mstep l init = some m ∧ ∀ k, m k = fin k

theorem linearizable_iff_linL {h : History} {init fin : KSt} :
    Linearizable h init fin ↔ LinL h init fin := by
  have h1 : Linearizable h init fin ↔ GLinI kstep krt h init (· = fin) := by
    unfold Linearizable GLinI
    simp only [replay_eq_runI, krt]
    constructor
    · rintro ⟨o, hp, hrt, hr⟩; exact ⟨o, hp, hrt, fin, hr, rfl⟩
    · rintro ⟨o, hp, hrt, m, hr, rfl⟩; exact ⟨o, hp, hrt, hr⟩
  rw [h1, glinI_iff_glinL]
  unfold GLinL LinL
  constructor
  · rintro ⟨l, hp, hrt, m, hr, rfl⟩; exact ⟨l, hp, hrt, hr⟩
  · rintro ⟨l, hp, hrt, hr⟩; exact ⟨l, hp, hrt, fin, hr, rfl⟩

theorem mapLinearizable_iff_mlinL {h : MHistory} {init fin : MSt} :
    MapLinearizable h init fin ↔ MLinL h init fin := by
  have h1 : MapLinearizable h init fin ↔ GLinI mstep mrt h init (fun m => ∀ k, m k = fin k) := by
    unfold MapLinearizable GLinI
    simp only [mreplay_eq_runI, mrt]
  rw [h1, glinI_iff_glinL]
  rfl

/-! ## projections -/

theorem proj_cons_self (c : MCall) (h : MHistory) : proj (c :: h) c.key = c.call :: proj h c.key := by
  simp [proj]

theorem proj_cons_ne {c : MCall} {k : Nat} (hk : c.key ≠ k) (h : MHistory) :
    proj (c :: h) k = proj h k := by
  simp [proj, hk]

theorem mem_proj {h : MHistory} {k : Nat} {c : Call} : c ∈ proj h k ↔ (⟨k, c⟩ : MCall) ∈ h := by
  simp only [proj, List.mem_map, List.mem_filter, beq_iff_eq]
  constructor
  · rintro ⟨d, ⟨hd, rfl⟩, rfl⟩; exact hd
  · intro hc; exact ⟨⟨k, c⟩, ⟨hc, rfl⟩, rfl⟩

theorem proj_perm {l h : MHistory} (hp : l.Perm h) (k : Nat) : (proj l k).Perm (proj h k) :=
  (hp.filter _).map _

theorem proj_pairwise {l : MHistory} (hp : l.Pairwise mrt) (k : Nat) : (proj l k).Pairwise krt := by
  unfold proj
  rw [List.pairwise_map]
  exact (hp.filter _).imp (fun h => h)

theorem mstep_eq_some {m m' : MSt} {c : MCall} (hs : mstep m c = some m') :
    kstep (m c.key) c.call = some (m' c.key) ∧ ∀ k, k ≠ c.key → m' k = m k := by
  unfold mstep at hs
  split at hs
  · rename_i hres
    cases hs
    refine ⟨?_, ?_⟩
    · simp only [mspecStep] at hres
      simp [kstep, hres, mspecStep]
    · intro k hk
      simp [mspecStep, hk]
  · cases hs

theorem mstep_of_kstep {m : MSt} {k : Nat} {c : Call} {s : KSt} (hs : kstep (m k) c = some s) :
    ∃ m', mstep m ⟨k, c⟩ = some m' ∧ m' k = s ∧ ∀ k', k' ≠ k → m' k' = m k' := by
  unfold kstep at hs
  split at hs
  · rename_i hres
    cases hs
    refine ⟨(mspecStep m k c.op).1, ?_, ?_, ?_⟩
    · simp [mstep, mspecStep, hres]
    · simp [mspecStep]
    · intro k' hk'; simp [mspecStep, hk']
  · cases hs

/-- the run of the map restricted to one key is the run of the projection -/
theorem runL_proj (k : Nat) : ∀ (l : List MCall) (m m' : MSt),
    runL mstep l m = some m' → runL kstep (proj l k) (m k) = some (m' k)
  | [], m, m', hr => by
    simp only [runL, Option.some.injEq] at hr
    subst hr; rfl
  | c :: l, m, m', hr => by
    simp only [runL] at hr
    cases hs : mstep m c with
    | none => simp [hs] at hr
    | some m1 =>
      rw [hs] at hr
      simp only [Option.bind_some] at hr
      have ih := runL_proj k l m1 m' hr
      obtain ⟨h1, h2⟩ := mstep_eq_some hs
      by_cases hk : c.key = k
      · subst hk
        rw [proj_cons_self]
        simp only [runL, h1, Option.bind_some]
        exact ih
      · rw [proj_cons_ne hk, ← h2 k (Ne.symm hk)]
        exact ih

/-- map linearizable ⇒ per-key linearizable (list form) -/
theorem mlinL_proj {h : MHistory} {init fin : MSt} (hm : MLinL h init fin) (k : Nat) :
    LinL (proj h k) (init k) (fin k) := by
  obtain ⟨l, hp, hpw, m, hr, hfin⟩ := hm
  refine ⟨proj l k, proj_perm hp k, proj_pairwise hpw k, ?_⟩
  rw [← hfin k]
  exact runL_proj k l init m hr

/-! ## the hard direction -/

theorem exists_min {α : Type} (f : α → Nat) : ∀ (l : List α), l ≠ [] → ∃ x ∈ l, ∀ y ∈ l, f x ≤ f y
  | [], h => absurd rfl h
  | [a], _ => ⟨a, by simp, by simp⟩
  | a :: b :: l, _ => by
    obtain ⟨x, hx, hmin⟩ := exists_min f (b :: l) (by simp)
    by_cases hax : f a ≤ f x
    · refine ⟨a, by simp, ?_⟩
      intro y hy
      rcases List.mem_cons.1 hy with rfl | hy
      · exact Nat.le_refl _
      · exact Nat.le_trans hax (hmin y hy)
    · refine ⟨x, List.mem_cons_of_mem _ hx, ?_⟩
      intro y hy
      rcases List.mem_cons.1 hy with rfl | hy
      · omega
      · exact hmin y hy

theorem linL_nil {init fin : KSt} (hl : LinL [] init fin) : fin = init := by
  obtain ⟨l, hp, _, hr⟩ := hl
  have : l = [] := List.Perm.eq_nil hp
  subst this
  simpa [runL] using hr.symm

/-- per-key linearizable ⇒ map linearizable (list form), by induction on the number of calls -/
theorem mlinL_of_proj : ∀ (n : Nat) (h : MHistory) (init fin : MSt), h.length = n →
    (∀ c ∈ h, c.call.inv ≤ c.call.resp) →
    (∀ k, LinL (proj h k) (init k) (fin k)) → MLinL h init fin
  | 0, h, init, fin, hn, _, hk => by
    have : h = [] := List.eq_nil_of_length_eq_zero hn
    subst this
    refine ⟨[], List.Perm.refl _, List.Pairwise.nil, init, rfl, ?_⟩
    intro k
    exact (linL_nil (hk k)).symm
  | n + 1, h, init, fin, hn, hwf, hk => by
    -- choose the per-key orders
    obtain ⟨L, hL⟩ := Classical.skolem.1 hk
    have hmemL : ∀ (k : Nat) (c : Call), c ∈ L k ↔ (⟨k, c⟩ : MCall) ∈ h := by
      intro k c
      rw [← mem_proj]
      exact (hL k).1.mem_iff
    -- the candidates: the heads of the per-key orders
    let H := h.filter (fun d => decide ((L d.key).head? = some d.call))
    have hH : ∀ d, d ∈ H ↔ d ∈ h ∧ (L d.key).head? = some d.call := by
      intro d; simp [H]
    -- the head of the order of the key of any call is a candidate
    have hhead : ∀ d ∈ h, ∃ c' t', L d.key = c' :: t' ∧ (⟨d.key, c'⟩ : MCall) ∈ H := by
      intro d hd
      have hdL : d.call ∈ L d.key := (hmemL d.key d.call).2 hd
      cases hLk : L d.key with
      | nil => rw [hLk] at hdL; simp at hdL
      | cons c' t' =>
        refine ⟨c', t', rfl, (hH _).2 ⟨?_, ?_⟩⟩
        · exact (hmemL d.key c').1 (by rw [hLk]; simp)
        · simp [hLk]
    have hHne : H ≠ [] := by
      cases h with
      | nil => simp at hn
      | cons d0 h0 =>
        obtain ⟨c', t', _, hc'⟩ := hhead d0 (by simp)
        exact List.ne_nil_of_mem hc'
    obtain ⟨x, hxH, hmin⟩ := exists_min (fun d : MCall => d.call.inv) H hHne
    obtain ⟨hxh, hxhead⟩ := (hH x).1 hxH
    obtain ⟨ks, c⟩ := x
    simp only at hxhead hmin
    -- the order of key `ks` is `c :: t`
    obtain ⟨t, hLks⟩ : ∃ t, L ks = c :: t := by
      cases hLk : L ks with
      | nil => rw [hLk] at hxhead; simp at hxhead
      | cons c' t' =>
        rw [hLk] at hxhead
        simp only [List.head?_cons, Option.some.injEq] at hxhead
        subst hxhead
        exact ⟨t', rfl⟩
    obtain ⟨hpks, hpwks, hrunks⟩ := hL ks
    rw [hLks] at hpks hpwks hrunks
    -- the first step
    simp only [runL] at hrunks
    cases hs : kstep (init ks) c with
    | none => simp [hs] at hrunks
    | some s1 =>
      rw [hs] at hrunks
      simp only [Option.bind_some] at hrunks
      obtain ⟨init', hms, hi1, hi2⟩ := mstep_of_kstep hs
      -- the remaining history
      have hperm : h.Perm (⟨ks, c⟩ :: h.erase ⟨ks, c⟩) := List.perm_cons_erase hxh
      have hlen : (h.erase ⟨ks, c⟩).length = n := by
        rw [List.length_erase_of_mem hxh, hn]; rfl
      have hwf' : ∀ d ∈ h.erase ⟨ks, c⟩, d.call.inv ≤ d.call.resp :=
        fun d hd => hwf d (List.mem_of_mem_erase hd)
      have hk' : ∀ k, LinL (proj (h.erase ⟨ks, c⟩) k) (init' k) (fin k) := by
        intro k
        have hpk := proj_perm hperm k
        by_cases hkk : k = ks
        · subst hkk
          have h1 : proj (⟨k, c⟩ :: h.erase ⟨k, c⟩) k = c :: proj (h.erase ⟨k, c⟩) k :=
            proj_cons_self ⟨k, c⟩ _
          rw [h1] at hpk
          refine ⟨t, List.Perm.cons_inv (hpks.trans hpk), (List.pairwise_cons.1 hpwks).2, ?_⟩
          rw [hi1]; exact hrunks
        · have h1 : proj (⟨ks, c⟩ :: h.erase ⟨ks, c⟩) k = proj (h.erase ⟨ks, c⟩) k :=
            proj_cons_ne (c := ⟨ks, c⟩) (Ne.symm hkk) _
          rw [h1] at hpk
          obtain ⟨hp1, hp2, hp3⟩ := hL k
          refine ⟨L k, hp1.trans hpk, hp2, ?_⟩
          rw [hi2 k hkk]; exact hp3
      obtain ⟨l', hl'p, hl'pw, m, hl'r, hl'fin⟩ :=
        mlinL_of_proj n (h.erase ⟨ks, c⟩) init' fin hlen hwf' hk'
      refine ⟨⟨ks, c⟩ :: l', (List.Perm.cons _ hl'p).trans hperm.symm, ?_, m, ?_, hl'fin⟩
      · refine List.pairwise_cons.2 ⟨?_, hl'pw⟩
        intro d hd
        have hdh : d ∈ h := List.mem_of_mem_erase (hl'p.subset hd)
        obtain ⟨c', t', hLd, hc'H⟩ := hhead d hdh
        have hle : c.inv ≤ c'.inv := hmin _ hc'H
        have hdL : d.call ∈ L d.key := (hmemL d.key d.call).2 hdh
        rw [hLd] at hdL
        unfold mrt
        simp only
        rcases List.mem_cons.1 hdL with heq | hmem
        · have := hwf d hdh
          rw [heq] at this ⊢
          omega
        · have hpwd := (hL d.key).2.1
          rw [hLd] at hpwd
          have := (List.pairwise_cons.1 hpwd).1 _ hmem
          unfold krt at this
          omega
      · simp only [runL, hms, Option.bind_some]
        exact hl'r

/-! ## the theorems -/

/-- per-key linearizable ⇒ map linearizable -/
theorem map_linearizable_of_proj {h : MHistory} {init fin : MSt}
    (hwf : ∀ c ∈ h, c.call.inv ≤ c.call.resp)
    (hk : ∀ k, Linearizable (proj h k) (init k) (fin k)) : MapLinearizable h init fin :=
  mapLinearizable_iff_mlinL.2
    (mlinL_of_proj h.length h init fin rfl hwf (fun k => linearizable_iff_linL.1 (hk k)))

/-- map linearizable ⇒ per-key linearizable -/
theorem proj_linearizable_of_map {h : MHistory} {init fin : MSt}
    (hm : MapLinearizable h init fin) (k : Nat) : Linearizable (proj h k) (init k) (fin k) :=
  linearizable_iff_linL.2 (mlinL_proj (mapLinearizable_iff_mlinL.1 hm) k)

/-- a key nobody called keeps its state -/
theorem untouched_of_map {h : MHistory} {init fin : MSt} (hm : MapLinearizable h init fin)
    (k : Nat) (hk : ∀ c ∈ h, c.key ≠ k) : fin k = init k := by
  have h1 := mlinL_proj (mapLinearizable_iff_mlinL.1 hm) k
  have h2 : proj h k = [] := by
    simp only [proj, List.map_eq_nil_iff, List.filter_eq_nil_iff, beq_iff_eq]
    exact hk
  rw [h2] at h1
  exact linL_nil h1

end Flurry.LinMap
