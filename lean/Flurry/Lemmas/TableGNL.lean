import Flurry.Lemmas.TableGN
import Flurry.Props.C01TableGN
import Flurry.Props.C05BinGN
import Flurry.Props.C11BinGN
import Flurry.Props.C12BinGN
/-! # Proto/TableGN: the lineage-level well-formedness (C05) and progress (C11, C12) theorems lifted to the table

`Proto/TableGN`: `m` lineages of `Proto/BinGN` on one clock, key `k` of the table ↦ lineage `k % m`, local key
`k / m`. Inside lineage `i` the keys are the LOCAL names `q`; the key of the table such an entry stands for is
`globalKey m i q = i + m * q`.

* `entries S`: what an iterator over the whole table that starts now and runs alone yields — the entries of all
  lineages (`BinGNQ.entries`: the lists of the live cells), lineage by lineage, each re-keyed to the key of the table
  (`rekey m i`);
* `mem_entries`, `mem_entries_iff_absMap`, `entries_keys_nodup`: iteration = lookup, no key twice across all
  lineages (`globalKey` is injective on a lineage and separates the lineages) — in every reachable state;
* `entry_position`: an entry with key `k` is in lineage `k % m`, cell `(cur, (k / m) % 2^cur)`;
* `IdleElse`, `idleElse_of_active`, `step_lift`, `never_stuck_aux` (C11);
* `runSolo`, `solo_lift` (C12). -/
namespace Flurry.Proto.TableGNL
open Flurry.Lin Flurry.LinMap Flurry.Proto.TableGN
open Flurry.Proto.BinX (get_set get_set_ne)
open Flurry.Proto.TableN (lineageOf localKey globalKey inLineage localInv globalKey_lineage_local
  lineageOf_globalKey localKey_globalKey globalKey_eq_iff)

/-! ## the entries of the table -/

/-- an entry of lineage `i` (local key `q`) as an entry of the table (key `i + m * q`) -/
def rekey (m i : Nat) (e : Nat × (Nat × Nat)) : Nat × (Nat × Nat) := (globalKey m i e.1, e.2)

/-- the entries of lineage `i` under the keys of the table -/
def lineageEntries (m i : Nat) (b : BinGN.State) : List (Nat × (Nat × Nat)) :=
  (BinGNQ.entries b).map (rekey m i)

/-- what an iterator over the whole table yields: the entries of all lineages, lineage by lineage, under the keys of
the table -/
def entries (S : State) : List (Nat × (Nat × Nat)) :=
  (List.range S.bins.length).flatMap fun i => lineageEntries S.bins.length i (S.bins.getD i (BinGN.init 0))

theorem getD_of_get {S : State} {i : Nat} {b : BinGN.State} (hb : S.bins[i]? = some b) :
    S.bins.getD i (BinGN.init 0) = b := by
  rw [List.getD_eq_getElem?_getD, hb]; rfl

theorem mem_entries {S : State} {k : Nat} {v : Nat × Nat} :
    (k, v) ∈ entries S ↔ ∃ (i : Nat) (b : BinGN.State) (q : Nat), S.bins[i]? = some b ∧
      (q, v) ∈ BinGNQ.entries b ∧ k = globalKey S.bins.length i q := by
  unfold entries lineageEntries
  rw [List.mem_flatMap]
  constructor
  · rintro ⟨i, hi, he⟩
    have hil : i < S.bins.length := List.mem_range.1 hi
    have hb : S.bins[i]? = some S.bins[i] := List.getElem?_eq_getElem hil
    rw [getD_of_get hb] at he
    obtain ⟨⟨q, v'⟩, hqv, heq⟩ := List.mem_map.1 he
    simp only [rekey, Prod.mk.injEq] at heq
    obtain ⟨h1, h2⟩ := heq
    subst h2
    exact ⟨i, S.bins[i], q, hb, hqv, h1.symm⟩
  · rintro ⟨i, b, q, hb, hqv, rfl⟩
    have hil : i < S.bins.length := (List.getElem?_eq_some_iff.1 hb).1
    refine ⟨i, List.mem_range.2 hil, ?_⟩
    rw [getD_of_get hb]
    exact List.mem_map.2 ⟨(q, v), hqv, rfl⟩

/-- iteration over the whole table yields exactly the keys a lookup finds, with the value it returns (in every
reachable state) -/
theorem mem_entries_iff_absMap {m n : Nat} {S : State} (hr : Reachable m n S) (hm : 0 < m)
    (k : Nat) (v : Nat × Nat) : (k, v) ∈ entries S ↔ absMap S k = some v := by
  have I := reachable_tblInv hr
  obtain ⟨b, hb, hd⟩ := bin_of_key hm I k
  have hrb := I.reach _ b hb
  unfold absMap
  rw [hd, I.len, ← (BinGN.reachable_iter_agrees hrb).2.1, mem_entries, I.len]
  constructor
  · rintro ⟨i, b', q, hb', hqv, hk⟩
    have hi : i < m := I.len ▸ (List.getElem?_eq_some_iff.1 hb').1
    obtain ⟨h1, h2⟩ := (globalKey_eq_iff hi q k).1 hk.symm
    subst h1
    subst h2
    rw [hb] at hb'
    cases hb'
    exact hqv
  · intro he
    exact ⟨lineageOf m k, b, localKey m k, hb, he, (globalKey_lineage_local m k).symm⟩

/-- no key is yielded twice, across all lineages and all their live cells (in every reachable state) -/
theorem entries_keys_nodup {m n : Nat} {S : State} (hr : Reachable m n S) :
    ((entries S).map (·.1)).Nodup := by
  have I := reachable_tblInv hr
  unfold entries
  rw [List.map_flatMap]
  unfold List.Nodup
  rw [List.pairwise_flatMap]
  constructor
  · intro i hi
    have hil : i < S.bins.length := List.mem_range.1 hi
    have him : i < m := I.len ▸ hil
    have hb : S.bins[i]? = some S.bins[i] := List.getElem?_eq_getElem hil
    rw [getD_of_get hb]
    have hnd := (BinGN.reachable_iter_agrees (I.reach i _ hb)).1
    unfold lineageEntries
    rw [List.map_map]
    unfold List.Nodup at hnd
    rw [List.pairwise_map] at hnd ⊢
    refine hnd.imp ?_
    intro a c hac e
    apply hac
    simp only [Function.comp, rekey] at e
    rw [I.len] at e
    have h1 := localKey_globalKey him a.1
    have h2 := localKey_globalKey him c.1
    rw [e] at h1
    rw [← h1, h2]
  · rw [List.pairwise_iff_getElem]
    intro i j hi hj hij x hx y hy hxy
    rw [List.getElem_range] at hx hy
    have hil : i < S.bins.length := by simpa using hi
    have hjl : j < S.bins.length := by simpa using hj
    obtain ⟨e1, _, rfl⟩ := List.mem_map.1 hx
    obtain ⟨e2, _, rfl⟩ := List.mem_map.1 hy
    unfold lineageEntries at *
    rename_i h1 h2
    obtain ⟨a1, _, rfl⟩ := List.mem_map.1 h1
    obtain ⟨a2, _, rfl⟩ := List.mem_map.1 h2
    simp only [rekey] at hxy
    have g1 := lineageOf_globalKey hil a1.1
    have g2 := lineageOf_globalKey hjl a2.1
    rw [hxy, g2] at g1
    omega

theorem entries_nodup {m n : Nat} {S : State} (hr : Reachable m n S) : (entries S).Nodup := by
  have h := entries_keys_nodup hr
  unfold List.Nodup at h ⊢
  rw [List.pairwise_map] at h
  exact h.imp (fun hab e => hab (by rw [e]))

theorem mem_keys_iff_absMap {m n : Nat} {S : State} (hr : Reachable m n S) (hm : 0 < m)
    (k : Nat) : k ∈ (entries S).map (·.1) ↔ absMap S k ≠ none := by
  rw [List.mem_map]
  constructor
  · rintro ⟨⟨k', v⟩, h, rfl⟩
    rw [(mem_entries_iff_absMap hr hm k' v).1 h]
    exact fun e => by cases e
  · intro h
    cases ha : absMap S k with
    | none => exact absurd ha h
    | some v => exact ⟨(k, v), (mem_entries_iff_absMap hr hm k v).2 ha, rfl⟩

/-- the number of entries is the number of keys a lookup finds -/
theorem entries_count {m n : Nat} {S : State} (hr : Reachable m n S) (hm : 0 < m)
    {ks : List Nat} (hnd : ks.Nodup) (hks : ∀ k, k ∈ ks ↔ absMap S k ≠ none) :
    ks.Perm ((entries S).map (·.1)) ∧ ks.length = (entries S).length := by
  have hp : ks.Perm ((entries S).map (·.1)) := by
    rw [List.perm_ext_iff_of_nodup hnd (entries_keys_nodup hr)]
    intro k
    rw [hks, mem_keys_iff_absMap hr hm]
  refine ⟨hp, ?_⟩
  rw [hp.length_eq, List.length_map]

/-- where an entry of the table is: in the lineage of its key, under its local name, on the list of the cell a lookup
of the key ends in -/
theorem entry_lineage {m n : Nat} {S : State} (hr : Reachable m n S) (hm : 0 < m)
    {k : Nat} {v : Nat × Nat} (he : (k, v) ∈ entries S) :
    ∃ b, S.bins[lineageOf m k]? = some b ∧ (localKey m k, v) ∈ BinGNQ.entries b ∧
      (localKey m k, v) ∈ BinGNQ.entriesOfCell b (BinGN.liveCell b (localKey m k)) := by
  have I := reachable_tblInv hr
  obtain ⟨b, hb, hd⟩ := bin_of_key hm I k
  have hrb := I.reach _ b hb
  have ha := (mem_entries_iff_absMap hr hm k v).1 he
  unfold absMap at ha
  rw [hd, I.len, ← (BinGN.reachable_iter_agrees hrb).2.1] at ha
  exact ⟨b, hb, ha, (BinGN.reachable_iter_agrees hrb).2.2.1 _ _ ha⟩

/-- a lineage of a reachable quiescent table is a reachable quiescent `Proto/BinGN` lineage -/
theorem lineage_quiescent {m n : Nat} {S : State} (hr : Reachable m n S) (hq : quiescent S) {b : BinGN.State}
    (hb : b ∈ S.bins) : BinGN.Reachable n b ∧ BinGN.quiescent b := by
  obtain ⟨i, hi⟩ := List.mem_iff_getElem?.1 hb
  exact ⟨(reachable_tblInv hr).reach i b hi, hq b hb⟩

/-! ## a thread that is active in one lineage is idle in all others -/

/-- the number of threads of a lineage never changes -/
theorem binGN_threads_length {n : Nat} {s : BinGN.State} (hr : BinGN.Reachable n s) : s.threads.length = n := by
  induction hr with
  | init => simp [BinGN.init]
  | step t inv lo mt rz sm sm2 pick _ hs ih =>
    obtain ⟨l', h⟩ := binGN_step_threads hs
    rw [h, List.length_set]; exact ih

/-- thread `t` is idle in every lineage other than `i` -/
def IdleElse (S : State) (i t : Nat) : Prop :=
  ∀ (j : Nat) (bj : BinGN.State), j ≠ i → S.bins[j]? = some bj → idleIn bj t = true

theorem idleElse_all {S : State} {i t : Nat} (h : IdleElse S i t) :
    ((List.range S.bins.length).all fun j => j == i || idleIn (S.bins.getD j (BinGN.init 0)) t) = true := by
  rw [List.all_eq_true]
  intro j hj
  have hjl := List.mem_range.1 hj
  by_cases hji : j = i
  · simp [hji]
  · have hd : S.bins.getD j (BinGN.init 0) = S.bins[j] := by
      rw [List.getD_eq_getElem?_getD, List.getElem?_eq_getElem hjl]; rfl
    rw [hd, h j _ hji (List.getElem?_eq_getElem hjl)]
    simp

theorem idleElse_of_all {S : State} {i t : Nat}
    (h : ((List.range S.bins.length).all fun j => j == i || idleIn (S.bins.getD j (BinGN.init 0)) t) = true) :
    IdleElse S i t := by
  intro j bj hji hj
  have hjl : j < S.bins.length := (List.getElem?_eq_some_iff.1 hj).1
  have := List.all_eq_true.1 h j (List.mem_range.2 hjl)
  rw [getD_of_get hj] at this
  simp only [Bool.or_eq_true, beq_iff_eq] at this
  rcases this with h | h
  · exact absurd h hji
  · exact h

/-- **a thread that is not `idle` in lineage `i` of a reachable table is `idle` in every other lineage** -/
theorem idleElse_of_active {m n : Nat} {S : State} (hr : Reachable m n S) {i t : Nat} {b : BinGN.State}
    {l : BinGN.Local} (hb : S.bins[i]? = some b) (hl : b.threads[t]? = some l) (hne : l.pc ≠ .idle) :
    IdleElse S i t := by
  intro j bj hji hj
  have I := reachable_tblInv hr
  have hlen_b := binGN_threads_length (I.reach i b hb)
  have hlen_j := binGN_threads_length (I.reach j bj hj)
  have ht : t < bj.threads.length := by
    rw [hlen_j, ← hlen_b]; exact (List.getElem?_eq_some_iff.1 hl).1
  have hlj : bj.threads[t]? = some bj.threads[t] := List.getElem?_eq_getElem ht
  rcases reachable_oneBin hr t i j b bj l _ (Ne.symm hji) hb hj hl hlj with h | h
  · exact absurd h hne
  · unfold idleIn
    rw [hlj]
    simp [h]

/-- the step of the table is the step of the lineage (under the local names of the keys), when the thread is idle
elsewhere and the keys (if any) are keys of that lineage -/
theorem step_lift {S : State} {i t : Nat} {b b' : BinGN.State} {inv : Option (Nat × KOp)} {lo : Bool}
    {mt : Option Nat} {rz sm sm2 : Bool} {pick : Nat} (hb : S.bins[i]? = some b) (he : IdleElse S i t)
    (h1 : inLineage S.bins.length i (inv.map (·.1)) = true) (h2 : inLineage S.bins.length i mt = true)
    (hs : BinGN.step b t (localInv S.bins.length inv) lo (localMt S.bins.length mt) rz sm sm2 pick = some b') :
    step S i t inv lo mt rz sm sm2 pick = some { bins := (S.bins.map tick).set i b' } := by
  unfold step
  simp only [hb, idleElse_all he, h1, h2, hs, Bool.not_true, Bool.false_eq_true, if_false]

/-- the lineages after a step -/
theorem bins_after {S : State} {i : Nat} {b : BinGN.State} (b' : BinGN.State) (hb : S.bins[i]? = some b) :
    ((S.bins.map tick).set i b')[i]? = some b' ∧
    ∀ (j : Nat) (bj : BinGN.State), j ≠ i → S.bins[j]? = some bj → ((S.bins.map tick).set i b')[j]? = some (tick bj) := by
  have hi : i < S.bins.length := (List.getElem?_eq_some_iff.1 hb).1
  refine ⟨?_, ?_⟩
  · rw [List.getElem?_set_self (by rw [List.length_map]; exact hi)]
  · intro j bj hji hj
    rw [List.getElem?_set_ne (Ne.symm hji), List.getElem?_map, hj]
    rfl

/-! ## C11: never stuck -/

theorem not_quiescent_lineage {S : State} (hq : ¬ quiescent S) :
    ∃ (i : Nat) (b : BinGN.State), S.bins[i]? = some b ∧ ¬ BinGN.quiescent b := by
  apply Classical.byContradiction
  intro h
  apply hq
  intro b hb
  obtain ⟨i, hi⟩ := List.mem_iff_getElem?.1 hb
  apply Classical.byContradiction
  intro hnq
  exact h ⟨i, b, hi, hnq⟩

/-- the table step of thread `t` in lineage `i` is enabled for every value of the scheduler's arguments (the keys
they name, if any, being keys of lineage `i`) -/
def TEnabled (S : State) (i t : Nat) : Prop :=
  ∀ (inv : Option (Nat × KOp)) (lo : Bool) (mt : Option Nat) (rz sm sm2 : Bool) (pick : Nat),
    inLineage S.bins.length i (inv.map (·.1)) = true → inLineage S.bins.length i mt = true →
    (step S i t inv lo mt rz sm sm2 pick).isSome = true

/-- a thread that is not `idle` in lineage `i` and whose lineage step is enabled has an enabled table step -/
theorem tenabled_of_enabled {m n : Nat} {S : State} (hr : Reachable m n S) {i t : Nat} {b : BinGN.State}
    {l : BinGN.Local} (hb : S.bins[i]? = some b) (hl : b.threads[t]? = some l) (hne : l.pc ≠ .idle)
    (he : BinGNP.Enabled b t) : TEnabled S i t := by
  intro inv lo mt rz sm sm2 pick h1 h2
  obtain ⟨b', hs⟩ := Option.isSome_iff_exists.1
    (he (localInv S.bins.length inv) lo (localMt S.bins.length mt) rz sm sm2 pick)
  rw [step_lift hb (idleElse_of_active hr hb hl hne) h1 h2 hs]
  rfl

theorem never_stuck_aux {m n : Nat} {S : State} (hr : Reachable m n S) (hq : ¬ quiescent S) :
    ∃ (i : Nat) (b : BinGN.State) (t : Nat) (l : BinGN.Local), S.bins[i]? = some b ∧ b.threads[t]? = some l ∧
      l.pc ≠ .idle ∧ IdleElse S i t ∧ BinGNP.Enabled b t ∧ TEnabled S i t := by
  obtain ⟨i, b, hb, hnq⟩ := not_quiescent_lineage hq
  have hrb := (reachable_tblInv hr).reach i b hb
  obtain ⟨t, l, hl, hne, he⟩ := BinGNProg.binGN_never_stuck_all hrb hnq
  exact ⟨i, b, t, l, hb, hl, hne, idleElse_of_active hr hb hl hne, he, tenabled_of_enabled hr hb hl hne he⟩

/-! ## C12: solo runs -/

/-- thread `t` runs alone in lineage `i` for `k` steps (it starts nothing); `none` if one of these steps is not
enabled -/
def runSolo (i t : Nat) (sm sm2 : Bool) : Nat → State → Option State
  | 0, S => some S
  | k + 1, S =>
    match step S i t none false none false sm sm2 0 with
    | some S' => runSolo i t sm sm2 k S'
    | none => none

theorem runSolo_reachable {m n : Nat} {i t : Nat} {sm sm2 : Bool} : ∀ (k : Nat) {S S' : State},
    Reachable m n S → runSolo i t sm sm2 k S = some S' → Reachable m n S'
  | 0, S, S', hr, h => by simp only [runSolo, Option.some.injEq] at h; exact h ▸ hr
  | k + 1, S, S', hr, h => by
    simp only [runSolo] at h
    cases hs : step S i t none false none false sm sm2 0 with
    | none => rw [hs] at h; cases h
    | some S1 => rw [hs] at h; exact runSolo_reachable k (.step i t none false none false sm sm2 0 hr hs) h

/-- the clock of a lineage has advanced by `k` -/
def tickN (k : Nat) (b : BinGN.State) : BinGN.State := { b with now := b.now + k }

theorem tickN_tick (k : Nat) (b : BinGN.State) : tickN k (tick b) = tickN (k + 1) b := by
  unfold tickN tick
  simp only [BinGN.State.mk.injEq, true_and]
  omega

/-- **a solo run in a lineage is a solo run in the table**: the thread is idle elsewhere, every other lineage only
ticks -/
theorem solo_lift {i t : Nat} {sm sm2 : Bool} : ∀ (k : Nat) {S : State} {b b' : BinGN.State},
    S.bins[i]? = some b → IdleElse S i t → BinGNP.runSolo t sm sm2 k b = some b' →
    ∃ S', runSolo i t sm sm2 k S = some S' ∧ S'.bins.length = S.bins.length ∧ S'.bins[i]? = some b' ∧
      ∀ (j : Nat) (bj : BinGN.State), j ≠ i → S.bins[j]? = some bj → S'.bins[j]? = some (tickN k bj)
  | 0, S, b, b', hb, _, h => by
    simp only [BinGNP.runSolo, Option.some.injEq] at h
    subst h
    exact ⟨S, rfl, rfl, hb, fun j bj _ hj => by rw [hj]; rfl⟩
  | k + 1, S, b, b', hb, he, h => by
    simp only [BinGNP.runSolo] at h
    cases hs : BinGN.step b t none false none false sm sm2 0 with
    | none => rw [hs] at h; cases h
    | some b1 =>
      rw [hs] at h
      have hstep : step S i t none false none false sm sm2 0 = some { bins := (S.bins.map tick).set i b1 } :=
        step_lift (inv := none) (mt := none) hb he rfl rfl hs
      obtain ⟨h1, h2⟩ := bins_after b1 hb
      have he1 : IdleElse { bins := (S.bins.map tick).set i b1 } i t := by
        intro j c hji hc
        rcases step_bins (b := b) (b' := b1) hb (idleElse_all he) j c hc with ⟨e, _⟩ | ⟨_, b0, _, rfl, hid⟩
        · exact absurd e hji
        · exact hid
      obtain ⟨S', hrun, hlen, hi', hoth⟩ := solo_lift k (S := { bins := (S.bins.map tick).set i b1 }) h1 he1 h
      refine ⟨S', ?_, ?_, hi', ?_⟩
      · simp only [runSolo, hstep]
        exact hrun
      · rw [hlen]
        show ((S.bins.map tick).set i b1).length = _
        rw [List.length_set, List.length_map]
      · intro j bj hji hj
        rw [hoth j (tick bj) hji (h2 j bj hji hj), tickN_tick]

end Flurry.Proto.TableGNL
