import Flurry.Lemmas.BinNInvDefs
/-! # Proto/BinN: auxiliary lemmas for the preservation of the structural invariant -/
namespace Flurry.Proto.BinN
open Flurry.Lin
open Flurry.Proto.BinX (NodeS Cell Pending dflt chainFrom cellHead cellOfHead nodeAt nodeAt_of_some getElem?_nodeAt
  nodeAt_append_left IsSeg IsChain chainH absIn KeysDistinct Walk get_set get_set_self get_set_ne)

theorem pcMid_of_not_mid (s : State) (G : Ghost) {pc : Pc} (h : ¬ isMidPc pc) : PcMid s G pc := by
  cases pc <;> first | trivial | exact absurd trivial h

theorem isMidPc_isT {pc : Pc} (h : isMidPc pc) : isT pc := by
  cases pc <;> first | trivial | exact h.elim

/-- `PInv` only concerns the resizing thread in its middle phase -/
theorem pinv_of {s : State} {G : Ghost}
    (h1 : ∀ (t : Nat) (l : Local), s.threads[t]? = some l → isMidPc l.pc → PcMid s G l.pc)
    (h2 : G.mid.isSome = true → ∃ (t : Nat) (l : Local), s.threads[t]? = some l ∧ isMidPc l.pc) : PInv s G := by
  refine ⟨?_, h2⟩
  intro t l hl
  by_cases hm : isMidPc l.pc
  · exact h1 t l hl hm
  · exact pcMid_of_not_mid s G hm

/-- `mid` is set only while the resizing thread is in its middle phase -/
theorem Inv.mid_none {s : State} {G : Ghost} (I : Inv s G) {t : Nat} {l : Local} (hl : s.threads[t]? = some l)
    (hT : isT l.pc) (hnm : ¬ isMidPc l.pc) : G.mid = none := by
  cases hm : G.mid with
  | none => rfl
  | some x =>
    obtain ⟨t1, l1, hl1, hm1⟩ := I.ph.midHas (by rw [hm]; rfl)
    have := I.gen.uniqT _ _ _ _ hl hl1 hT (isMidPc_isT hm1)
    subst this
    rw [hl] at hl1; cases hl1
    exact absurd hm1 hnm

theorem Inv.mid_none_of_not_resizing {s : State} {G : Ghost} (I : Inv s G) (hr : s.resizing = false) : G.mid = none := by
  cases hm : G.mid with
  | none => rfl
  | some x =>
    obtain ⟨t1, l1, hl1, hm1⟩ := I.ph.midHas (by rw [hm]; rfl)
    have := (I.gen.thr t1 l1 hl1).tres (isMidPc_isT hm1)
    rw [hr] at this; cases this

/-- `PInv` is preserved by a transition of a thread that is not in the middle phase before or after, if the
children of the cell being split are not touched -/
theorem pinv_frame {s s' : State} {G : Ghost} {t : Nat} {l l' : Local} (I : Inv s G) (hl : s.threads[t]? = some l)
    (hthr : s'.threads = s.threads.set t l') (hcur : s'.cur = s.cur)
    (hnm : ¬ isMidPc l.pc) (hnm' : ¬ isMidPc l'.pc)
    (hcells : ∀ j lo hg, G.mid = some (j, lo, hg) → cellAt s' (s.cur + 1) j = cellAt s (s.cur + 1) j ∧
      cellAt s' (s.cur + 1) (j + 2 ^ s.cur) = cellAt s (s.cur + 1) (j + 2 ^ s.cur)) : PInv s' G := by
  refine pinv_of ?_ ?_
  · intro t1 l1 h1 hm1
    rw [hthr] at h1
    rcases get_set h1 with ⟨rfl, rfl⟩ | ⟨n1, h1⟩
    · exact absurd hm1 hnm'
    · have hp := I.ph.pcMid t1 l1 h1
      obtain ⟨pc, call⟩ := l1
      cases pc <;> first | exact hm1.elim | skip
      · obtain ⟨a, b, c⟩ := hp
        obtain ⟨e1, e2⟩ := hcells _ _ _ a
        exact ⟨a, by rw [hcur, e1]; exact b, by rw [hcur, e2]; exact c⟩
      · obtain ⟨lo, a, b, c⟩ := hp
        obtain ⟨e1, e2⟩ := hcells _ _ _ a
        exact ⟨lo, a, by rw [hcur, e1]; exact b, by rw [hcur, e2]; exact c⟩
      · obtain ⟨lo, hg, a, b, c⟩ := hp
        obtain ⟨e1, e2⟩ := hcells _ _ _ a
        exact ⟨lo, hg, a, by rw [hcur, e1]; exact b, by rw [hcur, e2]; exact c⟩
  · intro hm
    obtain ⟨t1, l1, h1, hm1⟩ := I.ph.midHas hm
    have hne : t1 ≠ t := by
      rintro rfl
      rw [hl] at h1; cases h1
      exact hnm hm1
    exact ⟨t1, l1, by rw [hthr, get_set_ne hne]; exact h1, hm1⟩

/-- growing the heap changes no chain -/
theorem chId_of_ext {s s' : State} {G G' : Ghost} (H : HInv s G) (H' : HInv s' G') {ext : List NodeS}
    (hh : s'.heap = s.heap ++ ext) (ht : s'.tabs = s.tabs) (id : CellId) : chId s' id = chId s id := by
  refine H'.chId_eq ?_
  rw [getCell_congr ht, hh]
  exact (H.isChain id).append_heap ext

end Flurry.Proto.BinN
