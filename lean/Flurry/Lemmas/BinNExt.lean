import Flurry.Lemmas.BinNThreads
import Flurry.Lemmas.BinXLin
import Flurry.Lemmas.LinTrace
/-! # Proto/BinN: the extended history and the generic ghost-history machinery

Port of the state-independent part of `Lemmas/BinXGhost.lean`, `Lemmas/BinXLin.lean` and
`Props/C01BinX.lean`: the extended history (completed calls plus stored-but-not-unlocked writers),
the core of the ghost invariant `GCore` (trace `A`, linearization points `pt`; without the hindsight
justification of the readers), its generic preservation lemmas (`GCore.frame`, `gcore_quiet`,
`gcore_new`) and the trace lemma `GCore.linearizable`. -/
namespace Flurry.Proto.BinN
open Flurry.Lin
open Flurry.Proto.BinX (NodeS Cell Pending isReader dflt chainFrom cellHead cellOfHead
  get_set get_set_self get_set_ne isReader_eq_isRead Sim Sim.refl CallOK CallOK.sim
  nextA nextA_old nextA_new updPt updPt_self updPt_ne mem_singleton_key)

/-! ## the extended history -/

/-- the call of a writer that has stored and only has to unlock, counted as responding at `now` -/
def extOf (k now t : Nat) (l : Local) : Option Call :=
  match l.pc, l.call with
  | .wUnlock _ _ res false, some p => if p.key = k then some ⟨t, p.op, res, p.inv, now⟩ else none
  | _, _ => none

def extCalls (s : State) (k : Nat) : History :=
  (List.range s.threads.length).filterMap (fun t => (s.threads[t]?).bind (extOf k s.now t))

/-- the completed calls on key `k`, plus the calls of writers that have already performed their
store and only have to unlock (they are counted as responding "now") -/
def callsOnExt (s : State) (k : Nat) : History := callsOn s k ++ extCalls s k

theorem extOf_eq_some {k now t : Nat} {l : Local} {c : Call} :
    extOf k now t l = some c ↔ ∃ g h res p, l.pc = .wUnlock g h res false ∧ l.call = some p ∧ p.key = k ∧
      c = ⟨t, p.op, res, p.inv, now⟩ := by
  obtain ⟨pc, call⟩ := l
  unfold extOf
  constructor
  · intro h
    split at h
    · rename_i g h0 res p hpc hcall
      simp only at hpc hcall
      split at h
      · cases h
        exact ⟨g, h0, res, p, hpc, hcall, by assumption, rfl⟩
      · cases h
    · cases h
  · rintro ⟨g, h, res, p, hpc, hcall, hk, rfl⟩
    simp only at hpc hcall
    subst hpc hcall
    simp [hk]

theorem extOf_none_of_pc {k now t : Nat} {l : Local} (h : ∀ g h res, l.pc ≠ .wUnlock g h res false) :
    extOf k now t l = none := by
  cases he : extOf k now t l with
  | none => rfl
  | some c =>
    obtain ⟨g, h0, res, p, hpc, -⟩ := extOf_eq_some.1 he
    exact absurd hpc (h g h0 res)

theorem mem_callsOn {s : State} {k : Nat} {c : Call} : c ∈ callsOn s k ↔ (k, c) ∈ s.hist := by
  unfold callsOn
  simp only [List.mem_map, List.mem_reverse, List.mem_filter, beq_iff_eq]
  constructor
  · rintro ⟨⟨k', c'⟩, ⟨hm, hk⟩, hc⟩
    simp only at hk hc
    subst hk hc
    exact hm
  · intro h
    exact ⟨(k, c), ⟨h, rfl⟩, rfl⟩

theorem mem_extCalls {s : State} {k : Nat} {c : Call} :
    c ∈ extCalls s k ↔ ∃ t l, s.threads[t]? = some l ∧ extOf k s.now t l = some c := by
  unfold extCalls
  simp only [List.mem_filterMap, List.mem_range, Option.bind_eq_some_iff]
  constructor
  · rintro ⟨t, _, l, hl, he⟩; exact ⟨t, l, hl, he⟩
  · rintro ⟨t, l, hl, he⟩
    exact ⟨t, (List.getElem?_eq_some_iff.1 hl).1, l, hl, he⟩

theorem mem_callsOnExt {s : State} {k : Nat} {c : Call} :
    c ∈ callsOnExt s k ↔ (k, c) ∈ s.hist ∨ ∃ t l, s.threads[t]? = some l ∧ extOf k s.now t l = some c := by
  unfold callsOnExt
  rw [List.mem_append, mem_callsOn, mem_extCalls]

theorem callsOnExt_quiescent {s : State} (hq : quiescent s) (k : Nat) : callsOnExt s k = callsOn s k := by
  have : extCalls s k = [] := by
    rw [List.eq_nil_iff_forall_not_mem]
    intro c hc
    obtain ⟨t, l, hl, he⟩ := mem_extCalls.1 hc
    obtain ⟨g, h, res, p, hpc, -⟩ := extOf_eq_some.1 he
    rw [hq l (List.mem_of_getElem? hl)] at hpc
    cases hpc
  rw [callsOnExt, this, List.append_nil]

theorem extOf_bump {k now now' t : Nat} {l : Local} {c' : Call} (hle : now ≤ now')
    (h : extOf k now' t l = some c') : ∃ c, extOf k now t l = some c ∧ Sim c c' := by
  obtain ⟨g, h0, res, p, hpc, hcall, hk, rfl⟩ := extOf_eq_some.1 h
  exact ⟨⟨t, p.op, res, p.inv, now⟩, extOf_eq_some.2 ⟨g, h0, res, p, hpc, hcall, hk, rfl⟩,
    rfl, rfl, rfl, rfl, hle⟩

theorem extOf_bump' {k now now' t : Nat} {l : Local} {c : Call} (hle : now ≤ now')
    (h : extOf k now t l = some c) : ∃ c', extOf k now' t l = some c' ∧ Sim c c' := by
  obtain ⟨g, h0, res, p, hpc, hcall, hk, rfl⟩ := extOf_eq_some.1 h
  exact ⟨⟨t, p.op, res, p.inv, now'⟩, extOf_eq_some.2 ⟨g, h0, res, p, hpc, hcall, hk, rfl⟩,
    rfl, rfl, rfl, rfl, hle⟩

/-- where the calls of the successor state come from -/
theorem ext_backward {s s' : State} {t : Nat} {l' : Local} {hnew : List (Nat × Call)} {k : Nat}
    (hthr : s'.threads = s.threads.set t l') (hnow : s'.now = s.now + 1)
    (hhist : s'.hist = hnew ++ s.hist) :
    ∀ c' ∈ callsOnExt s' k, (∃ c ∈ callsOnExt s k, Sim c c') ∨ (k, c') ∈ hnew ∨
      extOf k (s.now + 1) t l' = some c' := by
  intro c' hc'
  rcases mem_callsOnExt.1 hc' with hc' | ⟨t1, l1, hl1, he1⟩
  · rw [hhist] at hc'
    rcases List.mem_append.1 hc' with hc' | hc'
    · exact Or.inr (Or.inl hc')
    · exact Or.inl ⟨c', mem_callsOnExt.2 (Or.inl hc'), Sim.refl _⟩
  · rw [hthr] at hl1
    rw [hnow] at he1
    rcases get_set hl1 with ⟨rfl, rfl⟩ | ⟨_, hl1⟩
    · exact Or.inr (Or.inr he1)
    · obtain ⟨c, hc, hsim⟩ := extOf_bump (Nat.le_succ s.now) he1
      exact Or.inl ⟨c, mem_callsOnExt.2 (Or.inr ⟨t1, l1, hl1, hc⟩), hsim⟩

/-- where the calls of the predecessor state go -/
theorem ext_forward {s s' : State} {t : Nat} {l l' : Local} {hnew : List (Nat × Call)} {k : Nat}
    (hl : s.threads[t]? = some l)
    (hthr : s'.threads = s.threads.set t l') (hnow : s'.now = s.now + 1)
    (hhist : s'.hist = hnew ++ s.hist) :
    ∀ c ∈ callsOnExt s k, (∃ c' ∈ callsOnExt s' k, Sim c c') ∨ extOf k s.now t l = some c := by
  intro c hc
  rcases mem_callsOnExt.1 hc with hc | ⟨t1, l1, hl1, he1⟩
  · refine Or.inl ⟨c, mem_callsOnExt.2 (Or.inl ?_), Sim.refl _⟩
    rw [hhist]; exact List.mem_append_right _ hc
  · by_cases ht : t1 = t
    · subst ht
      rw [hl] at hl1; cases hl1
      exact Or.inr he1
    · obtain ⟨c', hc', hsim⟩ := extOf_bump' (Nat.le_succ s.now) he1
      refine Or.inl ⟨c', mem_callsOnExt.2 (Or.inr ⟨t1, l1, ?_, ?_⟩), hsim⟩
      · rw [hthr, get_set_ne ht]; exact hl1
      · rw [hnow]; exact hc'

theorem callsOnExt_resp_le {s : State} (T : TInv s) {k : Nat} {c : Call} (hc : c ∈ callsOnExt s k) :
    c.resp ≤ s.now := by
  rcases mem_callsOnExt.1 hc with hc | ⟨t1, l1, _, he1⟩
  · exact (T.histTime _ hc).2
  · obtain ⟨g, h0, res, p, -, -, -, rfl⟩ := extOf_eq_some.1 he1
    exact Nat.le_refl _

/-- the pending call of a thread that is not counted in the extended history is different from
every call of the extended history -/
theorem inv_ne_of_mem_callsOnExt {s : State} (T : TInv s) {t : Nat} {l : Local} {p : Pending} {k : Nat}
    (hl : s.threads[t]? = some l) (hp : l.call = some p) (hnone : extOf k s.now t l = none)
    {c : Call} (hc : c ∈ callsOnExt s k) : c.inv ≠ p.inv := by
  rcases mem_callsOnExt.1 hc with hc | ⟨t1, l1, hl1, he1⟩
  · exact T.uniqHP _ hc t l p hl hp
  · obtain ⟨g, h0, res, p1, hpc1, hcall1, -, rfl⟩ := extOf_eq_some.1 he1
    intro he
    have := T.uniqPP t1 t l1 l p1 p hl1 hl hcall1 hp he
    subst this
    rw [hl] at hl1; cases hl1
    rw [hnone] at he1; cases he1

theorem callsOnExt_pairwise {s : State} (T : TInv s) (k : Nat) :
    (callsOnExt s k).Pairwise (fun c d => c.inv ≠ d.inv) := by
  unfold callsOnExt
  refine List.pairwise_append.2 ⟨?_, ?_, ?_⟩
  · unfold callsOn
    rw [List.pairwise_map, List.pairwise_reverse]
    refine (T.uniqHH.filter _).imp ?_
    intro a b hab; exact fun h => hab h.symm
  · unfold extCalls
    refine List.Pairwise.filterMap _ ?_ (List.pairwise_lt_range)
    intro t1 t2 hlt c1 hc1 c2 hc2
    obtain ⟨l1, hl1, he1⟩ := Option.bind_eq_some_iff.1 hc1
    obtain ⟨l2, hl2, he2⟩ := Option.bind_eq_some_iff.1 hc2
    obtain ⟨_, _, _, p1, _, hcall1, _, rfl⟩ := extOf_eq_some.1 he1
    obtain ⟨_, _, _, p2, _, hcall2, _, rfl⟩ := extOf_eq_some.1 he2
    intro he
    have := T.uniqPP t1 t2 l1 l2 p1 p2 hl1 hl2 hcall1 hcall2 he
    omega
  · intro c hc d hd
    obtain ⟨t1, l1, hl1, he1⟩ := mem_extCalls.1 hd
    obtain ⟨_, _, _, p1, _, hcall1, _, rfl⟩ := extOf_eq_some.1 he1
    exact T.uniqHP _ (mem_callsOn.1 hc) t1 l1 p1 hl1 hcall1

theorem extOf_idle (k now t : Nat) : extOf k now t { pc := .idle, call := none } = none := rfl

theorem extOf_none_of_call {k now t : Nat} {l : Local} (h : l.call = none) : extOf k now t l = none := by
  cases he : extOf k now t l with
  | none => rfl
  | some c =>
    obtain ⟨_, _, _, p, -, hcall, -⟩ := extOf_eq_some.1 he
    rw [h] at hcall; cases hcall

theorem extOf_none_of_key {k now t : Nat} {l : Local} {p : Pending} (h : l.call = some p) (hk : p.key ≠ k) :
    extOf k now t l = none := by
  cases he : extOf k now t l with
  | none => rfl
  | some c =>
    obtain ⟨_, _, _, p', -, hcall, hk', -⟩ := extOf_eq_some.1 he
    rw [h] at hcall; cases hcall
    exact absurd hk' hk

/-! ## the core of the ghost invariant -/

/-- the ghost invariant without the hindsight justification of the readers: the trace `A` starts at
"absent" and ends in the abstract state of `k`; every call of the extended history has a point in its
interval at which `A` justifies it; `A` only changes at the point of a writer; the points of the
writers are pairwise distinct -/
structure GCore (k : Nat) (s : State) (A : Nat → KSt) (pt : Nat → Nat) : Prop where
  h0 : A 0 = none
  hA : A s.now = absOf s k
  calls : ∀ c ∈ callsOnExt s k, CallOK A pt c
  stab : ∀ τ, 1 ≤ τ → τ ≤ s.now → A τ ≠ A (τ - 1) →
    ∃ c ∈ callsOnExt s k, isRead c.op = false ∧ pt c.inv = τ
  inj : ∀ c ∈ callsOnExt s k, ∀ d ∈ callsOnExt s k, isRead c.op = false → isRead d.op = false →
    pt c.inv = pt d.inv → c.inv = d.inv

/-- the generic part of the preservation of `GCore` -/
theorem GCore.frame {k : Nat} {s s' : State} {A : Nat → KSt} {pt pt' : Nat → Nat} {i0 : Nat}
    (g : GCore k s A pt) (T : TInv s) (hnow : s'.now = s.now + 1)
    (hpt' : ∀ c ∈ callsOnExt s k, pt' c.inv = pt c.inv)
    (hF : ∀ c ∈ callsOnExt s k, ∃ c' ∈ callsOnExt s' k, Sim c c')
    (hB : ∀ c' ∈ callsOnExt s' k, (∃ c ∈ callsOnExt s k, Sim c c') ∨
      (c'.inv = i0 ∧ CallOK (nextA A s.now (absOf s' k)) pt' c' ∧ (isRead c'.op = false → pt' c'.inv = s.now + 1)))
    (hchg : absOf s' k ≠ absOf s k → ∃ c' ∈ callsOnExt s' k, isRead c'.op = false ∧ pt' c'.inv = s.now + 1) :
    GCore k s' (nextA A s.now (absOf s' k)) pt' := by
  have hold : ∀ τ, τ ≤ s.now → nextA A s.now (absOf s' k) τ = A τ := fun τ h => nextA_old h
  refine ⟨?_, ?_, ?_, ?_, ?_⟩
  · rw [hold 0 (Nat.zero_le _)]; exact g.h0
  · rw [hnow, nextA_new]
  · intro c' hc'
    rcases hB c' hc' with ⟨c, hc, hsim⟩ | ⟨-, hok, -⟩
    · exact (g.calls c hc).sim hsim (callsOnExt_resp_le T hc) hold (hpt' c hc)
    · exact hok
  · intro τ h1 h2 hne
    rw [hnow] at h2
    rcases Nat.lt_or_ge τ (s.now + 1) with hlt | hge
    · rw [hold τ (by omega), hold (τ - 1) (by omega)] at hne
      obtain ⟨c, hc, hw, hp⟩ := g.stab τ h1 (by omega) hne
      obtain ⟨c', hc', hsim⟩ := hF c hc
      refine ⟨c', hc', by rw [hsim.2.1]; exact hw, ?_⟩
      rw [hsim.2.2.2.1, hpt' c hc]; exact hp
    · have hτ : τ = s.now + 1 := by omega
      subst hτ
      rw [nextA_new, Nat.add_sub_cancel, hold s.now (Nat.le_refl _), g.hA] at hne
      exact hchg hne
  · intro c' hc' d' hd' hwc hwd hpe
    rcases hB c' hc' with ⟨c, hc, hsc⟩ | ⟨hci, -, hcp⟩ <;> rcases hB d' hd' with ⟨d, hd, hsd⟩ | ⟨hdi, -, hdp⟩
    · rw [hsc.2.2.2.1, hsd.2.2.2.1]
      rw [hsc.2.2.2.1, hsd.2.2.2.1, hpt' c hc, hpt' d hd] at hpe
      exact g.inj c hc d hd (by rw [← hsc.2.1]; exact hwc) (by rw [← hsd.2.1]; exact hwd) hpe
    · exfalso
      have h1 := (g.calls c hc).2.1
      have h2 := callsOnExt_resp_le T hc
      rw [hsc.2.2.2.1, hpt' c hc, hdp hwd] at hpe
      omega
    · exfalso
      have h1 := (g.calls d hd).2.1
      have h2 := callsOnExt_resp_le T hd
      rw [hsd.2.2.2.1, hpt' d hd, hcp hwc] at hpe
      omega
    · rw [hci, hdi]

/-- transitions that add no call on `k` and do not change the abstract state of `k` -/
theorem gcore_quiet {k : Nat} {s s' : State} {A : Nat → KSt} {pt : Nat → Nat} {t : Nat}
    {l l' : Local} {hnew : List (Nat × Call)}
    (g : GCore k s A pt) (T : TInv s)
    (hl : s.threads[t]? = some l) (hthr : s'.threads = s.threads.set t l') (hnow : s'.now = s.now + 1)
    (hhist : s'.hist = hnew ++ s.hist) (hnk : ∀ c, (k, c) ∉ hnew)
    (habs : absOf s' k = absOf s k)
    (he : extOf k s.now t l = none) (he' : extOf k (s.now + 1) t l' = none) :
    GCore k s' (nextA A s.now (absOf s' k)) pt := by
  refine g.frame (i0 := 0) T hnow (fun _ _ => rfl) ?_ ?_ (fun h => absurd habs h)
  · intro c hc
    rcases ext_forward hl hthr hnow hhist c hc with h | h
    · exact h
    · rw [he] at h; cases h
  · intro c' hc'
    rcases ext_backward hthr hnow hhist c' hc' with h | h | h
    · exact Or.inl h
    · exact absurd h (hnk c')
    · rw [he'] at h; cases h

/-- transitions that add the call `c0` of thread `t` (to the history or as a stored writer) -/
theorem gcore_new {k : Nat} {s s' : State} {A : Nat → KSt} {pt : Nat → Nat} {t : Nat}
    {l l' : Local} {hnew : List (Nat × Call)} {p : Pending} {c0 : Call} {τ0 : Nat}
    (g : GCore k s A pt) (T : TInv s)
    (hl : s.threads[t]? = some l) (hp : l.call = some p)
    (hthr : s'.threads = s.threads.set t l') (hnow : s'.now = s.now + 1)
    (hhist : s'.hist = hnew ++ s.hist)
    (he : extOf k s.now t l = none)
    (honly : ∀ c', (k, c') ∈ hnew ∨ extOf k (s.now + 1) t l' = some c' → c' = c0)
    (hmem : c0 ∈ callsOnExt s' k)
    (hinv0 : c0.inv = p.inv)
    (hok : CallOK (nextA A s.now (absOf s' k)) (updPt pt p.inv τ0) c0)
    (hw : isRead c0.op = false → τ0 = s.now + 1)
    (hchg : absOf s' k ≠ absOf s k → isRead c0.op = false) :
    GCore k s' (nextA A s.now (absOf s' k)) (updPt pt p.inv τ0) := by
  refine g.frame (i0 := p.inv) T hnow ?_ ?_ ?_ ?_
  · intro c hc
    exact updPt_ne pt τ0 (inv_ne_of_mem_callsOnExt T hl hp he hc)
  · intro c hc
    rcases ext_forward hl hthr hnow hhist c hc with h | h
    · exact h
    · rw [he] at h; cases h
  · intro c' hc'
    rcases ext_backward hthr hnow hhist c' hc' with h | h | h
    · exact Or.inl h
    · have := honly c' (Or.inl h); subst this
      exact Or.inr ⟨hinv0, hok, fun hwr => by rw [hinv0, updPt_self]; exact hw hwr⟩
    · have := honly c' (Or.inr h); subst this
      exact Or.inr ⟨hinv0, hok, fun hwr => by rw [hinv0, updPt_self]; exact hw hwr⟩
  · intro hne
    have hwr := hchg hne
    exact ⟨c0, hmem, hwr, by rw [hinv0, updPt_self]; exact hw hwr⟩

/-- from the ghost invariant to linearizability (the trace lemma) -/
theorem GCore.linearizable {k : Nat} {s : State} {A : Nat → KSt} {pt : Nat → Nat}
    (g : GCore k s A pt) (T : TInv s) : Lin.Linearizable (callsOnExt s k) none (absOf s k) := by
  have h := lin_of_trace (h := callsOnExt s k) A s.now (fun c => pt c.inv) ?_ ?_ ?_ ?_ ?_
  · rw [g.h0, g.hA] at h; exact h
  · intro c hc
    obtain ⟨h1, h2, -, -⟩ := g.calls c hc
    have := callsOnExt_resp_le T hc
    exact ⟨h1, h2, by omega⟩
  · intro c hc hw; exact (g.calls c hc).2.2.2 hw
  · intro c hc hrd; exact (g.calls c hc).2.2.1 hrd
  · refine (callsOnExt_pairwise T k).imp_of_mem ?_
    intro c d hc hd hne hwc hwd hpe
    exact hne (g.inj c hc d hd hwc hwd hpe)
  · intro τ h1 h2 hno
    apply Classical.byContradiction
    intro hne
    obtain ⟨c, hc, hw, hp⟩ := g.stab τ h1 h2 hne
    exact hno c hc hw hp

/-- quiescent form of `GCore.linearizable` -/
theorem GCore.linearizable_quiescent {k : Nat} {s : State} {A : Nat → KSt} {pt : Nat → Nat}
    (g : GCore k s A pt) (T : TInv s) (hq : quiescent s) : Lin.Linearizable (callsOn s k) none (absOf s k) := by
  have := g.linearizable T
  rw [callsOnExt_quiescent hq] at this
  exact this

theorem absOf_init (n k : Nat) : absOf (init n) k = none := by
  simp [absOf, liveCell, liveFrom, cellOf, cellAt, chainOfCell, init, chainFrom]

theorem callsOnExt_init (n k : Nat) : callsOnExt (init n) k = [] := by
  rw [List.eq_nil_iff_forall_not_mem]
  intro c hc
  rcases mem_callsOnExt.1 hc with hc | ⟨t, l, hl, he⟩
  · simp [init] at hc
  · rw [init_thread hl] at he
    cases he

theorem init_gcore (n k : Nat) : GCore k (init n) (fun _ => none) id := by
  have hnil := callsOnExt_init n k
  refine ⟨rfl, ?_, ?_, ?_, ?_⟩
  · exact (absOf_init n k).symm
  · intro c hc; rw [hnil] at hc; cases hc
  · intro τ h1 h2
    have : (init n).now = 0 := rfl
    omega
  · intro c hc; rw [hnil] at hc; cases hc

/-! ## small facts about the moves -/

theorem Move.not_ext {s : State} {p : Pending} {pc pc' : Pc} (h : Move s p pc pc') :
    (∀ g h res, pc ≠ .wUnlock g h res false) ∧ (∀ g h res, pc' ≠ .wUnlock g h res false) := by
  cases h <;> exact ⟨by intro g h res; simp, by intro g h res; simp⟩

theorem Fin.not_ext {s : State} {p : Pending} {pc : Pc} {res : KRes} (h : Fin s p pc res) :
    ∀ g h res, pc ≠ .wUnlock g h res false := by
  cases h <;> (intro g h res; simp)

theorem LockMove.not_ext {s : State} {t h : Nat} {x : Option Nat} {pc pc' : Pc}
    (hm : LockMove s t pc h x pc') :
    (∀ g h res, pc ≠ .wUnlock g h res false) ∧ (∀ g h res, pc' ≠ .wUnlock g h res false) ∧
      ∀ cur, pc' ≠ .rNode cur := by
  cases hm <;> exact ⟨by intro g h res; simp, by intro g h res; simp, by intro cur; simp⟩

theorem Move.good {s : State} {p : Pending} {pc pc' : Pc} (h : Move s p pc pc') {cur : Option Nat}
    (hc : pc' = .rNode cur) :
    (∃ g h, pc = .rCell g ∧ cellOf s g p.key = .node h ∧ cur = some h) ∨
    (∃ c n, pc = .rNode (some c) ∧ s.heap[c]? = some n ∧ n.key ≠ p.key ∧ cur = n.next) := by
  cases h with
  | rCellNode hcell => cases hc; exact Or.inl ⟨_, _, rfl, hcell, rfl⟩
  | rNext hn hk => cases hc; exact Or.inr ⟨_, _, rfl, hn, hk, rfl⟩
  | rTable => cases hc
  | rCellMoved _ => cases hc
  | wTable => cases hc
  | wCellEmpty _ _ => cases hc
  | wCellMoved _ => cases hc
  | wCellNode _ => cases hc
  | casFail => cases hc
  | checkOk _ => cases hc
  | checkFail _ => cases hc
  | findEnd => cases hc
  | findHit _ _ => cases hc
  | findNext _ _ => cases hc

theorem missRes_spec {op : KOp} (h : isRead op = true) : specStep none op = (none, missRes op) := by
  cases op <;> first | rfl | cases h

theorem hitRes_spec {op : KOp} (h : isRead op = true) (n : NodeS) :
    specStep (some n.val) op = (some n.val, hitRes op n) := by
  cases op <;> first | rfl | cases h

end Flurry.Proto.BinN
