import Flurry.Lemmas.BinGNQuiescent
import Flurry.Lemmas.BinGNExamples
/-! # Proto/BinGN at quiescence: kernel-checked reachable states (non-vacuity of C05 for any number of resizes)

The runs of `Lemmas/BinGNExamples.lean` (two complete resizes, tree bins that are split, re-used, re-used again),
with the quiescent view computed by `decide`: the live cells are the four cells of generation 2, the entries the
iterator yields, the abstract state of the keys `0 … 5`, all lock words. And one NON-quiescent state (between the
store of the forwarding marker of `(0, 0)` and the commit): the live cells are the two children. -/
namespace Flurry.Proto.BinGNQ
open Flurry.Lin
open Flurry.Proto.BinGNP
open Flurry.Proto.BinGN (Sched run quiescentB quiescentB_iff run_reachable schedStale2 schedReuse2 setupBoth rz xferTree)

/-- what is computed of a state -/
structure QView where
  quiescent : Bool
  cur : Nat
  resizing : Bool
  tabs : List (List Cell)
  live : List Cell
  entries : List (Nat × (Nat × Nat))
  /-- the abstract state of the keys `0 … 5` -/
  abs : List (Option (Nat × Nat))
  nodesUnlocked : Bool
  /-- per `TreeBin`: mutex, write lock, waiter bit, reader count -/
  bins : List (Option Nat × Bool × Bool × Nat)
deriving DecidableEq, Repr

def qview (s : State) : QView :=
  ⟨quiescentB s, s.cur, s.resizing, s.tabs, liveCells s, entries s, (List.range 6).map (absOf s),
    s.heap.all (fun n => n.lock.isNone), s.tbins.map (fun b => (b.mutex, b.writer, b.waiter, b.readers))⟩

theorem of_qview {sc : Sched} {v : QView} (h : (run step (init 4) sc).map qview = some v) :
    ∃ s, Reachable 4 s ∧ (v.quiescent = true → quiescent s) ∧ qview s = v := by
  cases hr : run step (init 4) sc with
  | none => rw [hr] at h; cases h
  | some s =>
    rw [hr] at h
    simp only [Option.map_some, Option.some.injEq] at h
    refine ⟨s, run_reachable _ .init hr, ?_, h⟩
    intro hq
    rw [← h] at hq
    exact (quiescentB_iff s).1 hq

set_option maxRecDepth 16384 in
/-- `schedStale2`: `TreeBin` 0 `{1,3,5,0}` split into two fresh `TreeBin`s by resize `0 → 1`; resize `1 → 2` re-uses
bin 1 in `(2,0)` and splits bin 2 into the fresh `TreeBin` 3 `{1,5}` in `(2,1)` and the plain list `[3]` in `(2,3)`;
a reader and a writer that slept inside the long dead bin 0 through both resizes -/
theorem qview_stale2 : (run step (init 4) schedStale2).map qview =
    some ⟨true, 2, false, [[.moved], [.moved, .moved], [.tree 1, .tree 3, .empty, .list 14]],
      [.tree 1, .tree 3, .empty, .list 14], [(0, (3, 103)), (1, (9, 105)), (5, (4, 102)), (3, (8, 104))],
      [some (3, 103), some (9, 105), none, some (8, 104), none, some (4, 102)], true,
      [(none, false, false, 0), (none, false, false, 0), (none, false, false, 0), (none, false, false, 0)]⟩ := by
  decide

set_option maxRecDepth 16384 in
/-- `schedReuse2`: the one `TreeBin` re-used by both resizes -/
theorem qview_reuse2 : (run step (init 4) schedReuse2).map qview =
    some ⟨true, 2, false, [[.moved], [.moved, .moved], [.tree 0, .empty, .empty, .empty]],
      [.tree 0, .empty, .empty, .empty], [(0, (5, 100)), (4, (7, 102))],
      [some (5, 100), none, none, none, some (7, 102), none], true, [(none, false, false, 0)]⟩ := by
  decide

/-- a resize in progress: `TreeBin` 0 `{1,3,5,0}` of cell `(0,0)` has been transferred (marker stored, mutex
released), the resizing thread 3 is back at `xNext`, the table pointer still refers to generation 0 -/
def schedMid : Sched := setupBoth ++ rz 3 ++ xferTree 3 0 false false

set_option maxRecDepth 16384 in
/-- the live cells of the NON-quiescent state after `schedMid` are the two children `(1,0) = tree 1`, `(1,1) = tree 2`
of the forwarded cell `(0,0)`; the entries on their lists are the abstract state -/
theorem qview_mid : (run step (init 4) schedMid).map qview =
    some ⟨false, 0, true, [[.moved], [.tree 1, .tree 2]], [.tree 1, .tree 2],
      [(0, (3, 103)), (1, (5, 100)), (3, (6, 101)), (5, (4, 102))],
      [some (3, 103), some (5, 100), none, some (6, 101), none, some (4, 102)], true,
      [(none, false, false, 0), (none, false, false, 0), (none, false, false, 0)]⟩ := by
  decide

end Flurry.Proto.BinGNQ
