import Flurry.Lemmas.BinRStore
import Flurry.Lemmas.Lin2Search
/-! # Proto/BinR: the id comparison of `condRm` is load-bearing; non-vacuity (C13)

Concrete schedules, evaluated by the kernel (`decide`), judged by the complete decision procedure
`Lin2.search` (`Lin2.search_eq_none_iff`).

* `schedReplaced`: `insert(0 ↦ (5, id 1))`; a `retain` visit of key 0 by thread 1 loads id 1; thread
  0 replaces the value by `(7, id 2)`; the predicate says "drop", thread 1 runs `condRm 1`.
  With the comparison the key keeps `(7, 2)` and the history is linearizable; in the variant that
  unlinks without comparing (`stepNoCompare`) the key is gone and the history is **not**
  linearizable.
* `schedRace`: the same with the `condRm 1` call (invoked directly) overlapping the insert.
* `schedRemoves`: nothing replaces the value: `condRm 1` removes the key (the conditional removal is
  not vacuous). `schedKeep`: the predicate says "keep": no call, nothing changes. -/
namespace Flurry.Proto.BinR
open Flurry.Lin2

abbrev Sched := List (Nat × Option Inv)

/-- run a schedule (`none` if some step is not enabled) -/
def run (f : State → Nat → Option Inv → Option State) : State → Sched → Option State
  | s, [] => some s
  | s, (t, inv) :: rest =>
    match f s t inv with
    | none => none
    | some s' => run f s' rest

/-- reachability in the variant whose `condRm` does not compare the value id -/
inductive ReachableNoCompare (nthreads : Nat) : State → Prop
  | init : ReachableNoCompare nthreads (init nthreads)
  | step {s s' : State} (t : Nat) (inv : Option Inv) :
      ReachableNoCompare nthreads s → stepNoCompare s t inv = some s' → ReachableNoCompare nthreads s'

theorem run_reachable {n : Nat} : ∀ (sc : Sched) {s s' : State}, Reachable n s → run step s sc = some s' →
    Reachable n s'
  | [], s, s', hr, h => by simp only [run, Option.some.injEq] at h; exact h ▸ hr
  | (t, inv) :: rest, s, s', hr, h => by
    simp only [run] at h
    cases hs : step s t inv with
    | none => rw [hs] at h; cases h
    | some s1 => rw [hs] at h; exact run_reachable rest (.step t inv hr hs) h

theorem run_reachableNoCompare {n : Nat} : ∀ (sc : Sched) {s s' : State}, ReachableNoCompare n s →
    run stepNoCompare s sc = some s' → ReachableNoCompare n s'
  | [], s, s', hr, h => by simp only [run, Option.some.injEq] at h; exact h ▸ hr
  | (t, inv) :: rest, s, s', hr, h => by
    simp only [run] at h
    cases hs : stepNoCompare s t inv with
    | none => rw [hs] at h; cases h
    | some s1 => rw [hs] at h; exact run_reachableNoCompare rest (.step t inv hr hs) h

/-- what we look at in the final state: is it quiescent, and does the exhaustive search find a
linearization of the history of key `k` ending in the abstract content of the bin -/
def verdict (f : State → Nat → Option Inv → Option State) (n : Nat) (sc : Sched) (k : Nat) :
    Option (Bool × Bool) :=
  (run f (init n) sc).map fun s =>
    (s.threads.all (fun l => l.pc == .idle), (search (callsOn s k) none (absOf s k)).isSome)

theorem of_verdict {f : State → Nat → Option Inv → Option State} {n : Nat} {sc : Sched} {k : Nat}
    {b : Bool} (h : verdict f n sc k = some (true, b)) :
    ∃ s, run f (init n) sc = some s ∧ quiescent s ∧ (search (callsOn s k) none (absOf s k)).isSome = b := by
  unfold verdict at h
  cases hr : run f (init n) sc with
  | none => rw [hr] at h; cases h
  | some s =>
    rw [hr] at h
    simp only [Option.map_some, Option.some.injEq, Prod.mk.injEq] at h
    refine ⟨s, rfl, ?_, h.2⟩
    intro l hl
    have := List.all_eq_true.1 h.1 l hl
    simpa using this

/-- `insert(0 ↦ (5, id 1))` by thread 0 (CAS into the empty bin); thread 1's `retain` visits key 0
and loads the value id 1; thread 0 replaces the value by `(7, id 2)` (lock, re-check, walk, store,
unlock); the predicate says "drop"; thread 1 runs `condRm 1` -/
def schedReplaced : Sched :=
  [ (0, some (.call 0 (.ins 5 1))), (0, none), (0, none),
    (1, some (.visit 0)), (1, none), (1, none),
    (0, some (.call 0 (.ins 7 2))), (0, none), (0, none), (0, none), (0, none), (0, none), (0, none),
    (1, some .drop), (1, none), (1, none), (1, none), (1, none), (1, none), (1, none) ]

/-- the same race with `condRm 1` invoked directly and overlapping the insert: both load the head,
the insert goes first -/
def schedRace : Sched :=
  [ (0, some (.call 0 (.ins 5 1))), (0, none), (0, none),
    (1, some (.call 0 (.condRm 1))), (0, some (.call 0 (.ins 7 2))),
    (1, none), (0, none),
    (0, none), (0, none), (0, none), (0, none), (0, none),
    (1, none), (1, none), (1, none), (1, none), (1, none),
    (0, some (.call 0 .get)), (0, none), (0, none) ]

/-- nothing replaces the value: the visit loads id 1, the predicate says "drop", `condRm 1` removes
the key; a final `get` sees nothing -/
def schedRemoves : Sched :=
  [ (0, some (.call 0 (.ins 5 1))), (0, none), (0, none),
    (1, some (.visit 0)), (1, none), (1, none),
    (1, some .drop), (1, none), (1, none), (1, none), (1, none), (1, none), (1, none),
    (0, some (.call 0 .get)), (0, none), (0, none) ]

/-- the predicate says "keep" -/
def schedKeep : Sched :=
  [ (0, some (.call 0 (.ins 5 1))), (0, none), (0, none),
    (1, some (.visit 0)), (1, none), (1, none), (1, none),
    (0, some (.call 0 .get)), (0, none), (0, none) ]

theorem verdict_replaced_noCompare : verdict stepNoCompare 2 schedReplaced 0 = some (true, false) := by
  decide

theorem verdict_replaced : verdict step 2 schedReplaced 0 = some (true, true) := by decide

theorem verdict_race_noCompare : verdict stepNoCompare 2 schedRace 0 = some (true, false) := by decide

theorem verdict_race : verdict step 2 schedRace 0 = some (true, true) := by decide

theorem verdict_removes : verdict step 2 schedRemoves 0 = some (true, true) := by decide

theorem verdict_keep : verdict step 2 schedKeep 0 = some (true, true) := by decide

/-- the histories, for the reader. With the comparison: the replaced value `(7, 2)` survives. -/
theorem replaced_history :
    (run step (init 2) schedReplaced).map (fun s => (callsOn s 0, absOf s 0)) =
      some ([⟨0, .ins 5 1, .none, 1, 3⟩, ⟨0, .ins 7 2, .some 5 1, 7, 13⟩, ⟨1, .condRm 1, .none, 14, 20⟩],
        some (7, 2)) := by
  decide

/-- without the comparison the same run loses the value the insert stored -/
theorem replaced_noCompare_history :
    (run stepNoCompare (init 2) schedReplaced).map (fun s => (callsOn s 0, absOf s 0)) =
      some ([⟨0, .ins 5 1, .none, 1, 3⟩, ⟨0, .ins 7 2, .some 5 1, 7, 13⟩, ⟨1, .condRm 1, .none, 14, 20⟩],
        none) := by
  decide

theorem race_history :
    (run step (init 2) schedRace).map (fun s => (callsOn s 0, absOf s 0)) =
      some ([⟨0, .ins 5 1, .none, 1, 3⟩, ⟨0, .ins 7 2, .some 5 1, 5, 12⟩, ⟨1, .condRm 1, .none, 4, 17⟩,
        ⟨0, .get, .some 7 2, 18, 20⟩], some (7, 2)) := by
  decide

theorem race_noCompare_history :
    (run stepNoCompare (init 2) schedRace).map (fun s => (callsOn s 0, absOf s 0)) =
      some ([⟨0, .ins 5 1, .none, 1, 3⟩, ⟨0, .ins 7 2, .some 5 1, 5, 12⟩, ⟨1, .condRm 1, .none, 4, 17⟩,
        ⟨0, .get, .none, 18, 20⟩], none) := by
  decide

/-- the conditional removal does remove when the observed value is still there -/
theorem removes_history :
    (run step (init 2) schedRemoves).map (fun s => (callsOn s 0, absOf s 0, s.head)) =
      some ([⟨0, .ins 5 1, .none, 1, 3⟩, ⟨1, .condRm 1, .none, 7, 13⟩, ⟨0, .get, .none, 14, 16⟩],
        none, none) := by
  decide

/-- "keep": the visit leaves no trace in the history and the key keeps its value -/
theorem keep_history :
    (run step (init 2) schedKeep).map (fun s => (callsOn s 0, absOf s 0)) =
      some ([⟨0, .ins 5 1, .none, 1, 3⟩, ⟨0, .get, .some 5 1, 8, 10⟩], some (5, 1)) := by
  decide

/-- **the comparison is load-bearing (1)**: without it, a reachable quiescent state whose history of
key 0 is not linearizable — the `retain` visit removed a value its predicate never saw -/
theorem noCompare_not_linearizable_replaced :
    ∃ s, ReachableNoCompare 2 s ∧ quiescent s ∧ ¬ Lin2.Linearizable2 (callsOn s 0) none (absOf s 0) := by
  obtain ⟨s, hr, hq, hs⟩ := of_verdict verdict_replaced_noCompare
  refine ⟨s, run_reachableNoCompare _ .init hr, hq, search_eq_none_iff.1 ?_⟩
  cases h : search (callsOn s 0) none (absOf s 0) with
  | none => rfl
  | some o => rw [h] at hs; cases hs

/-- **the comparison is load-bearing (2)**: the same with the calls overlapping -/
theorem noCompare_not_linearizable_race :
    ∃ s, ReachableNoCompare 2 s ∧ quiescent s ∧ ¬ Lin2.Linearizable2 (callsOn s 0) none (absOf s 0) := by
  obtain ⟨s, hr, hq, hs⟩ := of_verdict verdict_race_noCompare
  refine ⟨s, run_reachableNoCompare _ .init hr, hq, search_eq_none_iff.1 ?_⟩
  cases h : search (callsOn s 0) none (absOf s 0) with
  | none => rfl
  | some o => rw [h] at hs; cases hs

/-- the same schedules with the comparison: every step is enabled, the final state is reachable,
quiescent and (as `binR_linearizable_quiescent` says it must be) linearizable -/
theorem compare_replaced :
    ∃ s, run step (init 2) schedReplaced = some s ∧ Reachable 2 s ∧ quiescent s ∧
      (search (callsOn s 0) none (absOf s 0)).isSome = true := by
  obtain ⟨s, hr, hq, hs⟩ := of_verdict verdict_replaced
  exact ⟨s, hr, run_reachable _ .init hr, hq, hs⟩

theorem compare_removes :
    ∃ s, run step (init 2) schedRemoves = some s ∧ Reachable 2 s ∧ quiescent s ∧
      (search (callsOn s 0) none (absOf s 0)).isSome = true := by
  obtain ⟨s, hr, hq, hs⟩ := of_verdict verdict_removes
  exact ⟨s, hr, run_reachable _ .init hr, hq, hs⟩

/-- hence `binR_linearizable_quiescent` is false for the variant that does not compare the id -/
theorem noCompare_refutes :
    ¬ ∀ (n : Nat) (s : State), ReachableNoCompare n s → quiescent s → ∀ k,
      Lin2.Linearizable2 (callsOn s k) none (absOf s k) := by
  intro hall
  obtain ⟨s, hr, hq, hn⟩ := noCompare_not_linearizable_replaced
  exact hn (hall 2 s hr hq 0)

end Flurry.Proto.BinR
