import Flurry.Lemmas.BinRInv
/-! # Proto/BinW: the ghost invariant of Proto/Bin holds on the projection (C01)

(C13 port of `Flurry/Lemmas/BinWLin.lean` to the per-key operations of `Flurry/Lin2.lean`, i.e. with `retain`'s conditional removal `condRm`; below, "`Proto/Bin`" / `Base.` is `Flurry.Proto.BinR.Base` (`Proto/BinRBase.lean`) and "`Proto/BinW`" is `Flurry.Proto.BinR` (`Proto/BinR.lean`), which in addition has the `retain` visit steps.)

`callsOnExt` for `BinW` (completed calls plus writers that have stored and only have to unlock) and
its agreement with `Base.callsOnExt` on the projection; `ginv_stepW`: `Base.GInv` of the projection is
preserved by every `BinW` transition (`Base.ginv_step` for the simulated transitions, `Base.ginv_quiet`
for the stutter steps of the walk). -/
namespace Flurry.Proto.BinR
open Flurry.Lin2

/-- the call of a writer that has stored and only has to unlock, counted as responding at `now` -/
def extOf (k now t : Nat) (l : Local) : Option Call2 :=
  match l.pc, l.call with
  | .wUnlock _ res false, some p => if p.key = k then some ⟨t, p.op, res, p.inv, now⟩ else none
  | _, _ => none

def extCalls (s : State) (k : Nat) : History2 :=
  (List.range s.threads.length).filterMap (fun t => (s.threads[t]?).bind (extOf k s.now t))

/-- the completed calls on key `k`, plus the calls of writers that have already performed their
store and only have to unlock (they are counted as responding "now") -/
def callsOnExt (s : State) (k : Nat) : History2 := callsOn s k ++ extCalls s k

theorem extOf_proj (k now t : Nat) (l : Local) : Base.extOf k now t (cL l) = extOf k now t l := by
  obtain ⟨pc, call⟩ := l
  cases call with
  | none =>
    cases pc with
    | wUnlock h res retry => cases retry <;> rfl
    | _ => rfl
  | some p =>
    cases pc with
    | wUnlock h res retry => cases retry <;> rfl
    | _ => rfl

theorem extCalls_proj (s : State) (k : Nat) : Base.extCalls (proj s) k = extCalls s k := by
  unfold Base.extCalls extCalls
  simp only [proj_threads, List.length_map, List.getElem?_map, proj_now]
  congr 1
  funext t
  cases s.threads[t]? with
  | none => rfl
  | some l => exact extOf_proj k s.now t l

theorem callsOnExt_proj (s : State) (k : Nat) : Base.callsOnExt (proj s) k = callsOnExt s k := by
  unfold Base.callsOnExt callsOnExt
  rw [extCalls_proj, callsOn_proj]

theorem callsOnExt_quiescent {s : State} (hq : quiescent s) (k : Nat) : callsOnExt s k = callsOn s k := by
  rw [← callsOnExt_proj, Base.callsOnExt_quiescent (quiescent_proj hq), callsOn_proj]

/-- a stutter step preserves the ghost invariant -/
theorem ginv_tick {k : Nat} {B : Base.State} {A : Nat → KSt} {pt : Nat → Nat} {t h : Nat} {l : Base.Local}
    (g : Base.GInv k B A pt) (I : Base.Inv B) (hl : B.threads[t]? = some l) (hpc : l.pc = .wWrite h) :
    ∃ A' pt', Base.GInv k (Base.tick B) A' pt' := by
  have he : ∀ now, Base.extOf k now t l = none := fun now =>
    Base.extOf_none_of_pc (by rw [hpc]; intro h res; simp)
  refine ⟨_, _, Base.ginv_quiet (hnew := []) g I (.of_same rfl rfl) hl (tick_threads hl) rfl rfl (by simp)
    (Base.absOf_congr rfl rfl k) (he _) (he _) ?_⟩
  intro p cur _ _ hc
  rw [hpc] at hc; cases hc

/-- every transition of `BinW` preserves the ghost invariant of the projection -/
theorem ginv_stepW {k : Nat} {s s' : State} {A : Nat → KSt} {pt : Nat → Nat} {t : Nat} {l : Local}
    (g : Base.GInv k (proj s) A pt) (W : WInv s) (hl : s.threads[t]? = some l) (hk : StepW s t l s') :
    ∃ A' pt', Base.GInv k (proj s') A' pt' := by
  have hl' := proj_thread hl
  rcases stepW_proj W hl hk with hK | ⟨hw, he⟩
  · exact Base.ginv_step g W.inv hl' hK
  · obtain ⟨h, hh⟩ := walkPc_iff.1 hw
    rw [he]
    exact ginv_tick g W.inv hl' hh

end Flurry.Proto.BinR
